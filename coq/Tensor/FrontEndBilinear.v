(* front_end_guards_sound_<entry>, elementwise (AB / scalar / unary) families, matmul, conv2d,
   max_pool2d: the Device front end (Tensor/FrontEnd.v) establishes the hypotheses of
   ProofsBilinear.v. *)
From Coq Require Import List NArith Bool Lia Arith Permutation.
From PV Require Import Tensor.Kernels Tensor.Index Tensor.KernelProofs Tensor.ProofsGather
  Tensor.ProofsPerm Tensor.ProofsBilinear.
From PV Require Import Base.U32 Shape.ShapeImpl Shape.ShapeSpec Shape.ShapeLemmas Shape.ShapeProofs
  Shape.ShapeRules Fault.Guards Tensor.FrontEnd Tensor.FrontEndBridge Tensor.FrontEndGather
  Tensor.FrontEndPerm.
Import ListNotations.

Definition tri_in_bounds (p : list (nat * (nat * nat))) (ny na nb : nat) : Prop :=
  Forall (fun e => fst e < ny /\ fst (snd e) < na /\ snd (snd e) < nb) p.

Lemma max_batch_t a b (y : shape) : batch y = N.max (batch a) (batch b) ->
  (batch a = batch b \/ batch a = 1 \/ batch b = 1)%N -> (0 < batch a)%N -> (0 < batch b)%N ->
  (tbatch (to_t a) = 1 \/ tbatch (to_t a) = tbatch (to_t y)) /\
  (tbatch (to_t b) = 1 \/ tbatch (to_t b) = tbatch (to_t y)).
Proof. rewrite !tbatch_to_t. intros -> H Ha Hb. lia. Qed.

(* ================================================================== CPUDEV_FW_AB / *_bw (elementwise) *)
Definition ab_pre (sa sb sy : tshape) : Prop :=
  tvolume sa = tvolume sy /\ tvolume sb = tvolume sy /\
  (tbatch sa = 1 \/ tbatch sa = tbatch sy) /\ (tbatch sb = 1 \/ tbatch sb = tbatch sy).

Lemma ab_pre_safe sa sb sy : ab_pre sa sb sy ->
  sequential (ab_fw sa sb sy) (tsize sy) /\ tri_in_bounds (ab_fw sa sb sy) (tsize sy) (tsize sa) (tsize sb) /\
  sequential (ab_bw sa sb sy) (tsize sy) /\ tri_in_bounds (ab_bw sa sb sy) (tsize sy) (tsize sa) (tsize sb).
Proof.
  intros [Ha [Hb [Ba Bb]]].
  split; [exact (ab_fw_sequential sa sb sy _ _ eq_refl eq_refl)|].
  split; [exact (ab_fw_in_bounds sa sb sy _ _ eq_refl eq_refl Ha Hb Ba Bb)|].
  split; [exact (ab_bw_sequential sa sb sy _ _ eq_refl eq_refl)|].
  exact (ab_bw_in_bounds sa sb sy _ _ eq_refl eq_refl Ha Hb Ba Bb).
Qed.

Lemma elementwise_rule_pre a b y : wf a -> wf b -> elementwise a b = Some y ->
  wf y /\ ab_pre (to_t a) (to_t b) (to_t y).
Proof.
  intros Ha Hb H. pose proof (elementwise_spec a b Ha Hb) as S. rewrite H in S.
  destruct S as [[A1 A2] [Wy [Hby Hg]]]. split; [exact Wy|].
  destruct (same_dims_t y a Hg) as [_ Hva].
  assert (Hgb : forall i, get y i = get b i) by (intro i; rewrite Hg; apply A1).
  destruct (same_dims_t y b Hgb) as [_ Hvb].
  split; [symmetry; exact Hva|]. split; [symmetry; exact Hvb|].
  apply (max_batch_t a b y Hby A2 (wf_batch _ Ha) (wf_batch _ Hb)).
Qed.

Theorem front_end_guards_sound_elementwise_fw a b y : wf a -> wf b -> fe_elementwise_fw a b = Some y ->
  wf y /\ ab_pre (to_t a) (to_t b) (to_t y).
Proof. exact (elementwise_rule_pre a b y). Qed.

(* the generic shape of DEV_BW_AB: all the buffers the kernel touches are the forward ones *)
Lemma bw_ab_accepts sop a b y gy ga gb :
  wf a -> wf b -> wf y -> wf gy -> wf ga -> wf gb ->
  (forall s, sop a b = Some s -> wf s) ->
  fe_bw_ab sop a b y gy ga gb = Some tt -> ga = a /\ gb = b /\ gy = y /\ sop a b = Some y.
Proof.
  intros Ha Hb Hy Hgy Hga Hgb Hs H. unfold fe_bw_ab in H.
  destruct (shape_neb a ga) eqn:E1; [discriminate|].
  destruct (shape_neb b gb) eqn:E2; [discriminate|].
  destruct (shape_neb y gy) eqn:E3; [discriminate|].
  destruct (sop a b) as [s|] eqn:Es; [|discriminate].
  destruct (shape_neb y s) eqn:E4; [discriminate|].
  apply (shape_neb_false a ga Ha Hga) in E1. apply (shape_neb_false b gb Hb Hgb) in E2.
  apply (shape_neb_false y gy Hy Hgy) in E3. apply (shape_neb_false y s Hy (Hs s eq_refl)) in E4.
  subst. auto.
Qed.

Theorem front_end_guards_sound_elementwise_bw a b y gy ga gb :
  wf a -> wf b -> wf y -> wf gy -> wf ga -> wf gb ->
  fe_elementwise_bw a b y gy ga gb = Some tt ->
  ga = a /\ gb = b /\ gy = y /\ ab_pre (to_t ga) (to_t gb) (to_t gy).
Proof.
  intros Ha Hb Hy Hgy Hga Hgb H.
  destruct (bw_ab_accepts elementwise a b y gy ga gb Ha Hb Hy Hgy Hga Hgb) as [-> [-> [-> Es]]].
  - intros s Es. apply (elementwise_rule_pre a b s Ha Hb Es).
  - exact H.
  - repeat split; try reflexivity; apply (elementwise_rule_pre a b y Ha Hb Es).
Qed.

(* ================================================================== CPUDEV_FW_X_SCALAR *)
Definition scalar_pre (sx sk sy : tshape) : Prop :=
  tvolume sx = tvolume sy /\ tvolume sk = 1 /\
  (tbatch sx = 1 \/ tbatch sx = tbatch sy) /\ (tbatch sk = 1 \/ tbatch sk = tbatch sy).

Lemma scalar_pre_safe sx sk sy : scalar_pre sx sk sy ->
  sequential (scalar_fw sx sk sy) (tsize sy) /\
  tri_in_bounds (scalar_fw sx sk sy) (tsize sy) (tsize sx) (tsize sk).
Proof.
  intros [Hx [Hk [Bx Bk]]].
  split; [exact (scalar_fw_sequential sx sk sy _ _ eq_refl eq_refl)|].
  exact (scalar_fw_in_bounds sx sk sy _ _ eq_refl eq_refl Hx Hk Bx Bk).
Qed.

Theorem front_end_guards_sound_scalar_fw x k y : wf x -> wf k -> fe_scalar_fw x k = Some y ->
  wf y /\ scalar_pre (to_t x) (to_t k) (to_t y).
Proof.
  intros Hx Hk H. pose proof (scalar_op_spec x k Hx Hk) as S.
  unfold fe_scalar_fw, fe_fw_ab in H. rewrite H in S.
  destruct S as [[A1 [A2 _]] [Wy [Hby Hg]]]. split; [exact Wy|].
  destruct (same_dims_t y x Hg) as [_ Hv].
  split; [symmetry; exact Hv|]. split.
  { rewrite (tvolume_depth (to_t k) 0); [reflexivity|]. intros i _. apply tget_one_of_get, A1. }
  apply (max_batch_t x k y Hby A2 (wf_batch _ Hx) (wf_batch _ Hk)).
Qed.

(* ================================================================== DEV_BW_X / DEV_BW_X_CONST (unary) *)
(* the kernels run i = 0 .. size-1 over four buffers: all have the size of x *)
Theorem front_end_guards_sound_unary_bw x y gy gx :
  wf x -> wf y -> wf gy -> wf gx -> fe_unary_bw x y gy gx = Some tt -> gx = x /\ y = x /\ gy = x.
Proof.
  intros Hx Hy Hgy Hgx H. unfold fe_unary_bw, fe_bw_x in H.
  destruct (shape_neb x gx) eqn:E1; [discriminate|].
  destruct (shape_neb y gy) eqn:E2; [discriminate|].
  destruct (shape_neb y x) eqn:E3; [discriminate|].
  apply (shape_neb_false x gx Hx Hgx) in E1. apply (shape_neb_false y gy Hy Hgy) in E2.
  apply (shape_neb_false y x Hy Hx) in E3. subst. auto.
Qed.

Theorem front_end_guards_sound_bw_x_const x y gy gx :
  wf x -> wf y -> wf gy -> wf gx -> fe_bw_x_const x y gy gx = Some tt -> y = x /\ gy = x /\ gx = x.
Proof.
  intros Hx Hy Hgy Hgx H. unfold fe_bw_x_const in H.
  destruct (shape_neb y x) eqn:E1; [discriminate|].
  destruct (shape_neb gy x) eqn:E2; [discriminate|].
  destruct (shape_neb gx x) eqn:E3; [discriminate|].
  apply (shape_neb_false y x Hy Hx) in E1. apply (shape_neb_false gy x Hgy Hx) in E2.
  apply (shape_neb_false gx x Hgx Hx) in E3. auto.
Qed.

(* ================================================================== matmul (device.cc:422, 457) *)
Definition matmul_pre (sa sb sy : tshape) : Prop :=
  tvolume sa = tget sa 0 * tget sa 1 /\ tvolume sb = tget sa 1 * tget sb 1 /\
  tvolume sy = tget sa 0 * tget sb 1 /\
  (tbatch sa = 1 \/ tbatch sa = tbatch sy) /\ (tbatch sb = 1 \/ tbatch sb = tbatch sy) /\
  0 < tget sa 0 /\ 0 < tget sb 1.

Lemma matmul_pre_safe sa sb sy : matmul_pre sa sb sy ->
  tri_in_bounds (matmul_contribs sa sb sy) (tsize sy) (tsize sa) (tsize sb) /\
  (forall d, d < tsize sy -> exists b i k, b < tbatch sy /\ i < tget sa 0 /\ k < tget sb 1 /\
                                           d = b * (tget sa 0 * tget sb 1) + i + k * tget sa 0).
Proof.
  intros [Ha [Hb [Hy [Ba [Bb [P1 P3]]]]]]. split.
  - exact (matmul_in_bounds sa sb sy _ _ _ _ eq_refl eq_refl eq_refl eq_refl Ha Hb Hy Ba Bb).
  - intros d Hd. apply (matmul_cells_cover (tget sa 0) (tget sb 1) (tbatch sy) d P1 P3).
    unfold tsize in Hd. rewrite Hy in Hd. exact Hd.
Qed.

Lemma matmul_rule_pre a b y : wf a -> wf b -> matmul a b = Some y ->
  wf y /\ matmul_pre (to_t a) (to_t b) (to_t y) /\ batch y = N.max (batch a) (batch b) /\
  (forall i, get y i = if (i =? 0)%N then get a 0 else if (i =? 1)%N then get b 1 else 1%N) /\
  (depth a <= 2)%N /\ (depth b <= 2)%N /\ get a 1 = get b 0 /\
  (batch a = batch b \/ batch a = 1 \/ batch b = 1)%N.
Proof.
  intros Ha Hb H. pose proof (matmul_spec a b Ha Hb) as S. rewrite H in S.
  destruct S as [[A1 [A2 [A3 [A4 _]]]] [Wy [Hby Hg]]]. split; [exact Wy|]. split; [|auto 10].
  assert (Hva : tvolume (to_t a) = tget (to_t a) 0 * tget (to_t a) 1)
    by (apply tvolume_depth2; exact (tget_beyond a 2 Ha A1)).
  assert (Hvb : tvolume (to_t b) = tget (to_t b) 0 * tget (to_t b) 1)
    by (apply tvolume_depth2; exact (tget_beyond b 2 Hb A2)).
  assert (Hvy : tvolume (to_t y) = tget (to_t y) 0 * tget (to_t y) 1).
  { apply tvolume_depth2. intros i Hi. apply tget_one_of_get. rewrite Hg.
    destruct (N.eqb_spec (N.of_nat i) 0); [lia|]. destruct (N.eqb_spec (N.of_nat i) 1); [lia|reflexivity]. }
  assert (G0 : tget (to_t y) 0 = tget (to_t a) 0) by (rewrite !tget_to_t, Hg; reflexivity).
  assert (G1 : tget (to_t y) 1 = tget (to_t b) 1) by (rewrite !tget_to_t, Hg; reflexivity).
  assert (G2 : tget (to_t a) 1 = tget (to_t b) 0) by (rewrite !tget_to_t; cbn [N.of_nat]; f_equal; exact A3).
  split; [exact Hva|]. split; [rewrite Hvb, G2; reflexivity|]. split; [rewrite Hvy, G0, G1; reflexivity|].
  destruct (max_batch_t a b y Hby A4 (wf_batch _ Ha) (wf_batch _ Hb)) as [B1 B2].
  split; [exact B1|]. split; [exact B2|]. split; apply tget_pos; assumption.
Qed.

Theorem front_end_guards_sound_matmul_fw a b y : wf a -> wf b -> fe_matmul_fw a b = Some y ->
  wf y /\ matmul_pre (to_t a) (to_t b) (to_t y).
Proof. intros Ha Hb H. destruct (matmul_rule_pre a b y Ha Hb H) as [A [B _]]. auto. Qed.

Lemma transpose_accepts x : wf x -> (depth x <= 2)%N -> exists t, ShapeImpl.transpose x = Some t.
Proof.
  intros Hx Hd. pose proof (transpose_spec x Hx) as S.
  destruct (ShapeImpl.transpose x) as [t|]; [eauto|exfalso; apply S; exact Hd].
Qed.

Lemma matmul_accepts l r : wf l -> wf r -> (depth l <= 2)%N -> (depth r <= 2)%N -> get l 1 = get r 0 ->
  batch_compatible l r -> (get l 0 * get r 1 * N.max (batch l) (batch r) < P32)%N ->
  exists s, matmul l r = Some s.
Proof.
  intros Hl Hr Dl Dr Hin Hc Hs. pose proof (matmul_spec l r Hl Hr) as S.
  destruct (matmul l r) as [s|]; [eauto|exfalso; apply S; unfold matmul_admissible; auto].
Qed.

Lemma depth2_of_get y (f g : N) : wf y ->
  (forall i, get y i = if (i =? 0)%N then f else if (i =? 1)%N then g else 1%N) -> (depth y <= 2)%N.
Proof.
  intros Hy Hg. apply (proj2 (depth_le_iff y 2 Hy)). intros i Hi. rewrite Hg.
  destruct (N.eqb_spec i 0); [lia|]. destruct (N.eqb_spec i 1); [lia|reflexivity].
Qed.

(* matmul_bw_impl (naive/ops/matmul.cc:52-58):
     inplace_add_impl(matmul_fw(gy, transpose_fw(b)), ga);
     inplace_add_impl(matmul_fw(transpose_fw(a), gy), gb);
   nested GUARDED front-end calls followed by UNGUARDED inplace_add_impl.  The temporaries have
   the dims of a (resp. b) and the batch max(a.batch, b.batch): when they fit the 2^32 element
   limit (always the case when a.batch = b.batch) every nested call is accepted and the unguarded
   accumulations satisfy the in-place precondition.  (When a temporary does not fit - a shared
   operand of > 2^32 / B elements - the nested matmul_fw raises Error: see
   matmul_bw_temporary_rejected below; that is a clean exception, not an index-safety issue.) *)
Definition matmul_bw_temporaries_fit (a b : shape) : Prop :=
  (get a 0 * get a 1 * N.max (batch a) (batch b) < P32)%N /\
  (get b 0 * get b 1 * N.max (batch a) (batch b) < P32)%N.

Lemma matmul_bw_temporaries_fit_same_batch a b : wf a -> wf b -> (depth a <= 2)%N -> (depth b <= 2)%N ->
  batch a = batch b -> matmul_bw_temporaries_fit a b.
Proof.
  intros Ha Hb Da Db E. pose proof (wf_size _ Ha) as Sa. pose proof (wf_size _ Hb) as Sb.
  rewrite (prod_depth2 a Da) in Sa. rewrite (prod_depth2 b Db) in Sb.
  unfold matmul_bw_temporaries_fit. rewrite E, N.max_id. rewrite E in Sa. auto.
Qed.

Theorem front_end_guards_sound_matmul_bw a b y gy ga gb :
  wf a -> wf b -> wf y -> wf gy -> wf ga -> wf gb ->
  fe_matmul_bw a b y gy ga gb = Some tt ->
  ga = a /\ gb = b /\ gy = y /\ matmul_pre (to_t a) (to_t b) (to_t y) /\
  (matmul_bw_temporaries_fit a b ->
   (exists bt s1, fe_transpose_fw b = Some bt /\ transpose_pre (to_t b) (to_t bt) /\
                  fe_matmul_fw gy bt = Some s1 /\ matmul_pre (to_t gy) (to_t bt) (to_t s1) /\
                  inplace_add_pre (to_t s1) (to_t ga)) /\
   (exists at' s2, fe_transpose_fw a = Some at' /\ transpose_pre (to_t a) (to_t at') /\
                   fe_matmul_fw at' gy = Some s2 /\ matmul_pre (to_t at') (to_t gy) (to_t s2) /\
                   inplace_add_pre (to_t s2) (to_t gb))).
Proof.
  intros Ha Hb Hy Hgy Hga Hgb H.
  destruct (bw_ab_accepts matmul a b y gy ga gb Ha Hb Hy Hgy Hga Hgb) as [-> [-> [-> Es]]].
  { intros s Es. apply (matmul_rule_pre a b s Ha Hb Es). }
  { exact H. }
  destruct (matmul_rule_pre a b y Ha Hb Es) as [_ [Pm [Hby [Hg [Da [Db [Hin Hc]]]]]]].
  split; [reflexivity|]. split; [reflexivity|]. split; [reflexivity|]. split; [exact Pm|].
  intros [Fit1 Fit2].
  pose proof (wf_batch _ Ha) as Pa. pose proof (wf_batch _ Hb) as Pb.
  pose proof (depth2_of_get y _ _ Hy Hg) as Dy.
  split.
  - (* ga += gy . b^T *)
    destruct (transpose_accepts b Hb Db) as [bt Etb].
    destruct (transpose_rule_pre b bt Hb Etb) as [Wbt [Pbt [Hbbt [Hgbt _]]]].
    pose proof (depth2_of_get bt _ _ Wbt Hgbt) as Dbt.
    destruct (matmul_accepts y bt Hy Wbt Dy Dbt) as [s1 Em].
    { rewrite Hg, Hgbt. reflexivity. }
    { unfold batch_compatible. rewrite Hby, Hbbt. lia. }
    { rewrite Hg, Hgbt, Hby, Hbbt. cbn [N.eqb]. rewrite <- Hin.
      replace (N.max (N.max (batch a) (batch b)) (batch b)) with (N.max (batch a) (batch b)) by lia.
      exact Fit1. }
    destruct (matmul_rule_pre y bt s1 Hy Wbt Em) as [W1 [P1 [Hb1 [Hg1 _]]]].
    exists bt, s1. split; [exact Etb|]. split; [exact Pbt|]. split; [exact Em|]. split; [exact P1|].
    assert (Hsame : forall i, get s1 i = get a i).
    { intro i. rewrite Hg1, Hg, Hgbt. cbn [N.eqb].
      destruct (N.eqb_spec i 0) as [->|N0]; [reflexivity|].
      destruct (N.eqb_spec i 1) as [->|N1]; [symmetry; exact Hin|].
      symmetry. apply get_overflow. lia. }
    destruct (same_dims_t s1 a Hsame) as [_ Hv].
    split; [exact Hv|]. rewrite !tbatch_to_t, Hb1, Hby, Hbbt. split; [lia|]. split; lia.
  - (* gb += a^T . gy *)
    destruct (transpose_accepts a Ha Da) as [at' Eta].
    destruct (transpose_rule_pre a at' Ha Eta) as [Wat [Pat [Hbat [Hgat _]]]].
    pose proof (depth2_of_get at' _ _ Wat Hgat) as Dat.
    destruct (matmul_accepts at' y Wat Hy Dat Dy) as [s2 Em].
    { rewrite Hg, Hgat. reflexivity. }
    { unfold batch_compatible. rewrite Hby, Hbat. lia. }
    { rewrite Hg, Hgat, Hby, Hbat. cbn [N.eqb]. rewrite Hin.
      replace (N.max (batch a) (N.max (batch a) (batch b))) with (N.max (batch a) (batch b)) by lia.
      exact Fit2. }
    destruct (matmul_rule_pre at' y s2 Wat Hy Em) as [W2 [P2 [Hb2 [Hg2 _]]]].
    exists at', s2. split; [exact Eta|]. split; [exact Pat|]. split; [exact Em|]. split; [exact P2|].
    assert (Hsame : forall i, get s2 i = get b i).
    { intro i. rewrite Hg2, Hg, Hgat. cbn [N.eqb].
      destruct (N.eqb_spec i 0) as [->|N0]; [exact Hin|].
      destruct (N.eqb_spec i 1) as [->|N1]; [reflexivity|].
      symmetry. apply get_overflow. lia. }
    destruct (same_dims_t s2 b Hsame) as [_ Hv].
    split; [exact Hv|]. rewrite !tbatch_to_t, Hb2, Hby, Hbat. split; [lia|]. split; lia.
Qed.

(* an admissible matmul_bw whose first temporary (dims of a, batch of b) has 2^32 elements:
   a = [32768,32768]x1 (2^30 elements), b = [32768]x4, y = [32768]x4 *)
Example matmul_bw_temporary_rejected :
  let a := mkS [32768; 32768]%N 1%N 1073741824%N in let b := mkS [32768]%N 4%N 32768%N in
  let y := mkS [32768]%N 4%N 32768%N in
  mk_shape [32768; 32768]%N 1%N = Some a /\ mk_shape [32768]%N 4%N = Some b /\
  fe_matmul_bw a b y y a b = Some tt /\
  (exists bt, fe_transpose_fw b = Some bt /\ fe_matmul_fw y bt = None).
Proof.
  cbv zeta. split; [vm_compute; reflexivity|]. split; [vm_compute; reflexivity|].
  split; [vm_compute; reflexivity|].
  exists (mkS [1; 32768]%N 4%N 32768%N). split; vm_compute; reflexivity.
Qed.

(* ================================================================== conv2d (device.cc:424-437, 459-495) *)
Definition conv2d_pre (sx sw sy : tshape) : Prop :=
  tvolume sy = tget sy 0 * tget sy 1 * tget sy 2 /\
  tvolume sx = tget sx 0 * tget sx 1 * tget sx 2 /\
  tvolume sw = tget sw 0 * tget sw 1 * tget sx 2 * tget sy 2 /\
  0 < tget sw 0 /\ 0 < tget sw 1 /\
  (tbatch sx = 1 \/ tbatch sx = tbatch sy) /\ (tbatch sw = 1 \/ tbatch sw = tbatch sy) /\
  0 < tget sy 0 /\ 0 < tget sy 1 /\ 0 < tget sy 2.

Lemma conv2d_pre_safe sx sw sy p0 p1 s0 s1 d0 d1 : conv2d_pre sx sw sy ->
  tri_in_bounds (conv2d_triples sx sw sy p0 p1 s0 s1 d0 d1) (tsize sy) (tsize sx) (tsize sw) /\
  (forall d, d < tsize sy -> exists bn y_c y_x y_y,
     bn < tbatch sy /\ y_c < tget sy 2 /\ y_x < tget sy 1 /\ y_y < tget sy 0 /\
     d = bn * tvolume sy + ((y_c * tget sy 1 + y_x) * tget sy 0 + y_y)).
Proof.
  intros [Hy [Hx [Hw [W0 [W1 [Bx [Bw [Y0 [Y1 Y2]]]]]]]]]. split.
  - exact (conv2d_in_bounds sx sw sy _ _ _ _ _ _ _ _ _ _ _ _ p0 p1 s0 s1 d0 d1
             eq_refl eq_refl eq_refl eq_refl eq_refl eq_refl eq_refl eq_refl eq_refl eq_refl eq_refl eq_refl
             Hy Hx Hw W0 W1 Bx Bw).
  - intros d Hd. exact (conv2d_cells_cover _ _ _ (tbatch sy) _ Hy d Y0 Y1 Y2 Hd).
Qed.

Lemma conv2d_rule_pre x w p0 p1 s0 s1 d0 d1 y : wf x -> wf w ->
  u32 p0 -> u32 p1 -> u32 s0 -> u32 s1 -> u32 d0 -> u32 d1 ->
  conv2d x w p0 p1 s0 s1 d0 d1 = Some y -> wf y /\ conv2d_pre (to_t x) (to_t w) (to_t y).
Proof.
  intros Hx Hw U1 U2 U3 U4 U5 U6 H.
  pose proof (conv2d_spec x w p0 p1 s0 s1 d0 d1 Hx Hw U1 U2 U3 U4 U5 U6) as S. rewrite H in S.
  destruct S as [[A1 [A2 [_ [_ [A5 [A6 _]]]]]] [Wy [Hby Hg]]]. split; [exact Wy|].
  assert (Hvx : tvolume (to_t x) = tget (to_t x) 0 * tget (to_t x) 1 * tget (to_t x) 2)
    by (apply tvolume_depth3; exact (tget_beyond x 3 Hx A1)).
  assert (Hvw : tvolume (to_t w) = tget (to_t w) 0 * tget (to_t w) 1 * tget (to_t w) 2 * tget (to_t w) 3)
    by (apply tvolume_depth4; exact (tget_beyond w 4 Hw A2)).
  assert (Hvy : tvolume (to_t y) = tget (to_t y) 0 * tget (to_t y) 1 * tget (to_t y) 2).
  { apply tvolume_depth3. intros i Hi. apply tget_one_of_get. rewrite Hg.
    destruct (N.eqb_spec (N.of_nat i) 0); [lia|]. destruct (N.eqb_spec (N.of_nat i) 1); [lia|].
    destruct (N.eqb_spec (N.of_nat i) 2); [lia|reflexivity]. }
  assert (G2 : tget (to_t w) 2 = tget (to_t x) 2) by (rewrite !tget_to_t; cbn [N.of_nat]; f_equal; symmetry; exact A5).
  assert (G3 : tget (to_t w) 3 = tget (to_t y) 2) by (rewrite !tget_to_t, Hg; reflexivity).
  destruct (max_batch_t x w y Hby A6 (wf_batch _ Hx) (wf_batch _ Hw)) as [B1 B2].
  split; [exact Hvy|]. split; [exact Hvx|]. split; [rewrite Hvw, G2, G3; reflexivity|].
  split; [apply tget_pos, Hw|]. split; [apply tget_pos, Hw|]. split; [exact B1|]. split; [exact B2|].
  split; [|split]; apply tget_pos, Wy.
Qed.

Theorem front_end_guards_sound_conv2d_fw x w p0 p1 s0 s1 d0 d1 y : wf x -> wf w ->
  u32 p0 -> u32 p1 -> u32 s0 -> u32 s1 -> u32 d0 -> u32 d1 ->
  fe_conv2d_fw x w p0 p1 s0 s1 d0 d1 = Some y -> wf y /\ conv2d_pre (to_t x) (to_t w) (to_t y).
Proof. exact (conv2d_rule_pre x w p0 p1 s0 s1 d0 d1 y). Qed.

Theorem front_end_guards_sound_conv2d_bw x w y gy p0 p1 s0 s1 d0 d1 gx gw :
  wf x -> wf w -> wf y -> wf gy -> wf gx -> wf gw ->
  u32 p0 -> u32 p1 -> u32 s0 -> u32 s1 -> u32 d0 -> u32 d1 ->
  fe_conv2d_bw x w y gy p0 p1 s0 s1 d0 d1 gx gw = Some tt ->
  gx = x /\ gw = w /\ gy = y /\ conv2d_pre (to_t gx) (to_t gw) (to_t gy).
Proof.
  intros Hx Hw Hy Hgy Hgx Hgw U1 U2 U3 U4 U5 U6 H. unfold fe_conv2d_bw in H.
  destruct (bw_ab_accepts (fun x w => conv2d x w p0 p1 s0 s1 d0 d1) x w y gy gx gw Hx Hw Hy Hgy Hgx Hgw) as [-> [-> [-> Es]]].
  - intros s Es. apply (conv2d_rule_pre x w p0 p1 s0 s1 d0 d1 s Hx Hw U1 U2 U3 U4 U5 U6 Es).
  - exact H.
  - repeat split; try reflexivity;
      apply (conv2d_rule_pre x w p0 p1 s0 s1 d0 d1 y Hx Hw U1 U2 U3 U4 U5 U6 Es).
Qed.

(* ================================================================== max_pool2d (device.cc:439-450, 497-526) *)
Definition pool2d_pre (sx sy : tshape) : Prop :=
  (exists R, tsize sx = tget sx 0 * tget sx 1 * R /\ tsize sy = R * (tget sy 1 * tget sy 0)) /\
  0 < tget sx 0 /\ 0 < tget sx 1.

Lemma pool2d_pre_safe sx sy w0 w1 p0 p1 s0 s1 : pool2d_pre sx sy ->
  sequential (pool2d_red sx sy w0 w1 p0 p1 s0 s1) (tsize sy) /\
  red_in_bounds (pool2d_red sx sy w0 w1 p0 p1 s0 s1) (tsize sx).
Proof.
  intros [[R [Hsx Hsy]] [X0 X1]]. split.
  - rewrite Hsy. exact (pool2d_sequential sx sy _ _ _ _ R w0 w1 p0 p1 s0 s1 eq_refl eq_refl eq_refl eq_refl Hsx X0 X1).
  - exact (pool2d_in_bounds sx sy _ _ _ _ R w0 w1 p0 p1 s0 s1 eq_refl eq_refl eq_refl eq_refl Hsx X0 X1).
Qed.

Lemma pool2d_rule_pre x w0 w1 p0 p1 s0 s1 y : wf x ->
  u32 w0 -> u32 w1 -> u32 p0 -> u32 p1 -> u32 s0 -> u32 s1 ->
  pool2d x w0 w1 p0 p1 s0 s1 = Some y -> wf y /\ pool2d_pre (to_t x) (to_t y).
Proof.
  intros Hx U1 U2 U3 U4 U5 U6 H.
  pose proof (pool2d_spec x w0 w1 p0 p1 s0 s1 Hx U1 U2 U3 U4 U5 U6) as S. rewrite H in S.
  destruct S as [[A1 _] [Wy [Hby Hg]]]. split; [exact Wy|].
  assert (Hvx : tvolume (to_t x) = tget (to_t x) 0 * tget (to_t x) 1 * tget (to_t x) 2)
    by (apply tvolume_depth3; exact (tget_beyond x 3 Hx A1)).
  assert (Hvy : tvolume (to_t y) = tget (to_t y) 0 * tget (to_t y) 1 * tget (to_t y) 2).
  { apply tvolume_depth3. intros i Hi. apply tget_one_of_get. rewrite Hg.
    destruct (N.eqb_spec (N.of_nat i) 0); [lia|]. destruct (N.eqb_spec (N.of_nat i) 1); [lia|].
    destruct (N.eqb_spec (N.of_nat i) 2); [lia|reflexivity]. }
  assert (G2 : tget (to_t y) 2 = tget (to_t x) 2) by (rewrite !tget_to_t, Hg; reflexivity).
  split; [|split; apply tget_pos, Hx].
  exists (tget (to_t x) 2 * tbatch (to_t x)). unfold tsize. rewrite Hvx, Hvy, G2, !tbatch_to_t, Hby. split; lia.
Qed.

Theorem front_end_guards_sound_max_pool2d_fw x w0 w1 p0 p1 s0 s1 y : wf x ->
  u32 w0 -> u32 w1 -> u32 p0 -> u32 p1 -> u32 s0 -> u32 s1 ->
  fe_max_pool2d_fw x w0 w1 p0 p1 s0 s1 = Some y -> wf y /\ pool2d_pre (to_t x) (to_t y).
Proof. exact (pool2d_rule_pre x w0 w1 p0 p1 s0 s1 y). Qed.

Theorem front_end_guards_sound_max_pool2d_bw x y gy w0 w1 p0 p1 s0 s1 gx :
  wf x -> wf y -> wf gy -> wf gx ->
  u32 w0 -> u32 w1 -> u32 p0 -> u32 p1 -> u32 s0 -> u32 s1 ->
  fe_max_pool2d_bw x y gy w0 w1 p0 p1 s0 s1 gx = Some tt ->
  gx = x /\ gy = y /\ pool2d_pre (to_t x) (to_t y).
Proof.
  intros Hx Hy Hgy Hgx U1 U2 U3 U4 U5 U6 H. unfold fe_max_pool2d_bw, fe_bw_x in H.
  destruct (shape_neb x gx) eqn:E1; [discriminate|].
  destruct (shape_neb y gy) eqn:E2; [discriminate|].
  destruct (pool2d x w0 w1 p0 p1 s0 s1) as [s|] eqn:Es; [|discriminate].
  destruct (pool2d_rule_pre x w0 w1 p0 p1 s0 s1 s Hx U1 U2 U3 U4 U5 U6 Es) as [Ws P].
  destruct (shape_neb y s) eqn:E3; [discriminate|].
  apply (shape_neb_false x gx Hx Hgx) in E1. apply (shape_neb_false y gy Hy Hgy) in E2.
  apply (shape_neb_false y s Hy Ws) in E3. subst. auto.
Qed.

(* ================================================================== `_safe` corollaries *)
Corollary elementwise_fw_safe a b y : wf a -> wf b -> fe_elementwise_fw a b = Some y ->
  sequential (ab_fw (to_t a) (to_t b) (to_t y)) (tsize (to_t y)) /\
  tri_in_bounds (ab_fw (to_t a) (to_t b) (to_t y)) (tsize (to_t y)) (tsize (to_t a)) (tsize (to_t b)).
Proof.
  intros Ha Hb H. destruct (front_end_guards_sound_elementwise_fw a b y Ha Hb H) as [_ P].
  destruct (ab_pre_safe _ _ _ P) as [A [B _]]. split; assumption.
Qed.

Corollary elementwise_bw_safe a b y gy ga gb :
  wf a -> wf b -> wf y -> wf gy -> wf ga -> wf gb -> fe_elementwise_bw a b y gy ga gb = Some tt ->
  sequential (ab_bw (to_t ga) (to_t gb) (to_t gy)) (tsize (to_t gy)) /\
  tri_in_bounds (ab_bw (to_t ga) (to_t gb) (to_t gy)) (tsize (to_t gy)) (tsize (to_t ga)) (tsize (to_t gb)).
Proof.
  intros Ha Hb Hy Hgy Hga Hgb H.
  destruct (front_end_guards_sound_elementwise_bw a b y gy ga gb Ha Hb Hy Hgy Hga Hgb H) as [_ [_ [_ P]]].
  destruct (ab_pre_safe _ _ _ P) as [_ [_ [A B]]]. split; assumption.
Qed.

Corollary scalar_fw_safe x k y : wf x -> wf k -> fe_scalar_fw x k = Some y ->
  sequential (scalar_fw (to_t x) (to_t k) (to_t y)) (tsize (to_t y)) /\
  tri_in_bounds (scalar_fw (to_t x) (to_t k) (to_t y)) (tsize (to_t y)) (tsize (to_t x)) (tsize (to_t k)).
Proof.
  intros Hx Hk H. destruct (front_end_guards_sound_scalar_fw x k y Hx Hk H) as [_ P].
  exact (scalar_pre_safe _ _ _ P).
Qed.

Corollary matmul_fw_safe a b y : wf a -> wf b -> fe_matmul_fw a b = Some y ->
  tri_in_bounds (matmul_contribs (to_t a) (to_t b) (to_t y)) (tsize (to_t y)) (tsize (to_t a)) (tsize (to_t b)).
Proof.
  intros Ha Hb H. destruct (front_end_guards_sound_matmul_fw a b y Ha Hb H) as [_ P].
  apply (matmul_pre_safe _ _ _ P).
Qed.

Corollary conv2d_fw_safe x w p0 p1 s0 s1 d0 d1 y : wf x -> wf w ->
  u32 p0 -> u32 p1 -> u32 s0 -> u32 s1 -> u32 d0 -> u32 d1 ->
  fe_conv2d_fw x w p0 p1 s0 s1 d0 d1 = Some y ->
  tri_in_bounds (conv2d_triples (to_t x) (to_t w) (to_t y) (N.to_nat p0) (N.to_nat p1) (N.to_nat s0)
                   (N.to_nat s1) (N.to_nat d0) (N.to_nat d1))
                (tsize (to_t y)) (tsize (to_t x)) (tsize (to_t w)).
Proof.
  intros Hx Hw U1 U2 U3 U4 U5 U6 H.
  destruct (front_end_guards_sound_conv2d_fw x w p0 p1 s0 s1 d0 d1 y Hx Hw U1 U2 U3 U4 U5 U6 H) as [_ P].
  apply (conv2d_pre_safe _ _ _ _ _ _ _ _ _ P).
Qed.

Corollary conv2d_bw_safe x w y gy p0 p1 s0 s1 d0 d1 gx gw :
  wf x -> wf w -> wf y -> wf gy -> wf gx -> wf gw ->
  u32 p0 -> u32 p1 -> u32 s0 -> u32 s1 -> u32 d0 -> u32 d1 ->
  fe_conv2d_bw x w y gy p0 p1 s0 s1 d0 d1 gx gw = Some tt ->
  tri_in_bounds (conv2d_triples (to_t x) (to_t w) (to_t y) (N.to_nat p0) (N.to_nat p1) (N.to_nat s0)
                   (N.to_nat s1) (N.to_nat d0) (N.to_nat d1))
                (tsize (to_t gy)) (tsize (to_t gx)) (tsize (to_t gw)).
Proof.
  intros Hx Hw Hy Hgy Hgx Hgw U1 U2 U3 U4 U5 U6 H.
  destruct (front_end_guards_sound_conv2d_bw x w y gy p0 p1 s0 s1 d0 d1 gx gw Hx Hw Hy Hgy Hgx Hgw U1 U2 U3 U4 U5 U6 H)
    as [-> [-> [-> P]]].
  apply (conv2d_pre_safe _ _ _ _ _ _ _ _ _ P).
Qed.

Corollary max_pool2d_fw_safe x w0 w1 p0 p1 s0 s1 y : wf x ->
  u32 w0 -> u32 w1 -> u32 p0 -> u32 p1 -> u32 s0 -> u32 s1 ->
  fe_max_pool2d_fw x w0 w1 p0 p1 s0 s1 = Some y ->
  sequential (pool2d_red (to_t x) (to_t y) (N.to_nat w0) (N.to_nat w1) (N.to_nat p0) (N.to_nat p1)
                (N.to_nat s0) (N.to_nat s1)) (tsize (to_t y)) /\
  red_in_bounds (pool2d_red (to_t x) (to_t y) (N.to_nat w0) (N.to_nat w1) (N.to_nat p0) (N.to_nat p1)
                   (N.to_nat s0) (N.to_nat s1)) (tsize (to_t x)).
Proof.
  intros Hx U1 U2 U3 U4 U5 U6 H.
  destruct (front_end_guards_sound_max_pool2d_fw x w0 w1 p0 p1 s0 s1 y Hx U1 U2 U3 U4 U5 U6 H) as [_ P].
  exact (pool2d_pre_safe _ _ _ _ _ _ _ _ P).
Qed.

Corollary max_pool2d_bw_safe x y gy w0 w1 p0 p1 s0 s1 gx :
  wf x -> wf y -> wf gy -> wf gx ->
  u32 w0 -> u32 w1 -> u32 p0 -> u32 p1 -> u32 s0 -> u32 s1 ->
  fe_max_pool2d_bw x y gy w0 w1 p0 p1 s0 s1 gx = Some tt ->
  sequential (pool2d_red (to_t x) (to_t y) (N.to_nat w0) (N.to_nat w1) (N.to_nat p0) (N.to_nat p1)
                (N.to_nat s0) (N.to_nat s1)) (tsize (to_t gy)) /\
  red_in_bounds (pool2d_red (to_t x) (to_t y) (N.to_nat w0) (N.to_nat w1) (N.to_nat p0) (N.to_nat p1)
                   (N.to_nat s0) (N.to_nat s1)) (tsize (to_t gx)).
Proof.
  intros Hx Hy Hgy Hgx U1 U2 U3 U4 U5 U6 H.
  destruct (front_end_guards_sound_max_pool2d_bw x y gy w0 w1 p0 p1 s0 s1 gx Hx Hy Hgy Hgx U1 U2 U3 U4 U5 U6 H)
    as [-> [-> P]].
  exact (pool2d_pre_safe _ _ _ _ _ _ _ _ P).
Qed.
