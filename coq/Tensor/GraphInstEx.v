(* Non-vacuity of the C01 graph-level theorems on concrete tapes over Z.
   (1) ad_*: the example family EF of Graph/Example.v with LocalAdjoint from Graph/ADExample.v:
       y = ((p*p) + p') * p  where p and p' are two Parameter operators of the SAME parameter 0
       (shared parameter), node p is used three times (fan-out), twice by one operator (p*p).
   (2) cx_*: core_family of Tensor/GraphInst.v:
       y = sum_axis0 (slice_{axis 0, [1,3)} (w * x + w))  with a batch-1 parameter w of shape {4}
       broadcast against a batched input x of shape {4} x 2 (multiply, add, slice, sum).
   Every hypothesis of the theorems is established for these tapes, the sweep is run by
   vm_compute, and the gradients are the hand-computed derivatives. *)
From Coq Require Import List NArith ZArith Bool Arith Lia Ring.
From PV Require Import Graph.OpFamily Graph.Tape Graph.Lazy Graph.Backward Graph.TapeLemmas Graph.LazyProofs
  Graph.BackwardProofs Graph.ADProof Graph.Example Graph.ADExample
  Tensor.Kernels Tensor.Index Tensor.AdjCore Tensor.GraphInst.
Import ListNotations.

Definition Zth : ring_theory 0%Z 1%Z Z.add Z.mul Z.sub Z.opp eq := Zth.

(* ================================================================== (1) the example family *)
Definition zsz (n : nat) : nat := n.
Definition zVO : ValOps nat zvec := vec_ops (R := Z) 0%Z 1%Z Z.add zsz.

Definition ad_env : @env zvec :=
  {| e_pval := fun _ => [2; 3]%Z; e_pgrad := fun _ => [10; 20]%Z; e_pos := fun _ => 0%N |}.
Definition ad_cmds : list (@cmd eop nat zvec) :=
  [ CNewGraph;
    CAdd 0 (EParam 0 2) [];                        (* 0: p *)
    CAdd 0 (EParam 0 2) [];                        (* 1: p again, another Parameter operator *)
    CAdd 0 EMul [nd 0 0 0; nd 0 0 0];              (* 2: p * p, the same node twice *)
    CAdd 0 EAdd [nd 0 2 0; nd 0 1 0];              (* 3 *)
    CAdd 0 EMul [nd 0 3 0; nd 0 0 0];              (* 4: fan-out of node 0 *)
    CForward 0 (4, 0) ].
Definition ad_ops0 : list (@opinfo eop nat zvec) :=
  Eval vm_compute in
    match w_graphs (run_all EF zVO {| w_graphs := []; w_env := ad_env |} ad_cmds) with
    | g :: _ => g_ops g | [] => [] end.
Definition ad_dp : nat -> zvec := fun _ => [5; 7]%Z.
Definition ad_tan (a : nat * nat) : zvec :=
  nth (fst a) [[5; 7]; [5; 7]; [20; 42]; [25; 49]; [80; 231]]%Z [].
Definition ad_seeded := upd_ops ad_ops0 (4, 0) (fun s => set_grad s (Some (vones zVO (s_shape s)))).
Definition ad_result := Eval vm_compute in sweep EF zVO 4 ad_seeded ad_env [].

Ltac nth_cases k H tac :=
  repeat (destruct k as [|k]; [cbn in H; injection H as <-; tac|]); try (destruct k; discriminate H).

Ltac slot_cases k v H tac :=
  unfold get_slot_ops in H; cbn [fst snd] in H;
  repeat (destruct k as [|k];
          [destruct v as [|v]; [cbn in H; injection H as <-; tac|cbn in H; destruct v; discriminate H]|]);
  try (cbn in H; destruct k; discriminate H).

Lemma ad_wf : wf_ops ad_ops0.
Proof.
  intros k oi H. nth_cases k H ltac:(cbn; repeat constructor; cbn; try lia; eexists; (split; [reflexivity|cbn; lia])).
Qed.
Lemma ad_LA k oi : nth_error ad_ops0 k = Some oi -> f_inner EF (o_op oi) = None ->
  LocalAdjoint 0%Z Z.add Z.mul EF ejvp zsz (o_op oi).
Proof.
  intros H Hi. nth_cases k H ltac:(try discriminate Hi; cbn [o_op]; first [exact LocalAdjoint_mul|exact LocalAdjoint_add]).
Qed.
Lemma ad_shape_ok : shape_ok EF ad_ops0.
Proof.
  intros k oi H Hi. nth_cases k H ltac:(try discriminate Hi; (exists [2; 2]; split; [repeat constructor; eexists; split; reflexivity|reflexivity])).
Qed.
Lemma ad_consistent : consistent EF ejvp ad_tan ad_dp ad_ops0 ad_env.
Proof.
  intros k oi H. nth_cases k H ltac:(cbn; try (split; reflexivity)).
  - intros ys [= <-]. exists 0%N, [[2; 3]; [2; 3]]%Z. split; [repeat constructor|split; reflexivity].
  - intros ys [= <-]. exists 0%N, [[4; 9]; [2; 3]]%Z. split; [repeat constructor|split; reflexivity].
  - intros ys [= <-]. exists 0%N, [[6; 12]; [2; 3]]%Z. split; [repeat constructor|split; reflexivity].
Qed.
Lemma ad_rsized : rsized EF zsz ad_tan ad_ops0 ad_env.
Proof.
  intros [k v] s H. slot_cases k v H ltac:(split; [reflexivity|intros x [= <-]; reflexivity]).
Qed.
Lemma ad_gclean : gclean ad_ops0.
Proof.
  intros [k v] s H. slot_cases k v H ltac:(reflexivity).
Qed.
Lemma ad_psz : psz EF zsz ad_ops0 ad_env.
Proof.
  intros k oi p s H Hi Hs. nth_cases k H ltac:(try discriminate Hi; cbn in Hs; injection Hs as <-; reflexivity).
Qed.
Lemma ad_cover k oi p : nth_error ad_ops0 k = Some oi -> f_inner EF (o_op oi) = Some p -> In p [0].
Proof. intros H Hi. nth_cases k H ltac:(try discriminate Hi; cbn in Hi; injection Hi as <-; left; reflexivity). Qed.
Lemma ad_nodup : NoDup [0].
Proof. constructor; [intros []|constructor]. Qed.

(* the derivative of sum((p*p + p) * p) = sum(p^3 + p^2) at p = (2,3) is 3p^2 + 2p = (16, 33) *)
Lemma ad_run : exists ops' e' bl',
  sweep EF zVO 4 ad_seeded ad_env [] = Some (ops', e', bl') /\
  e_pgrad e' 0 = [26; 53]%Z /\ bl' = [4; 3; 2; 1; 0] /\
  ppot 0%Z Z.add Z.mul ad_dp [0] e' = (ppot 0%Z Z.add Z.mul ad_dp [0%nat] ad_env + 311)%Z.
Proof.
  destruct ad_result as [[[ops' e'] bl']|] eqn:E; [|discriminate E].
  exists ops', e', bl'. split; [exact E|]. vm_compute in E. injection E as <- <- <-. repeat split.
Qed.

(* ================================================================== (2) core_family over Z *)
Notation zcop := (@cop Z).
Definition zF : OpFamily zcop tshape (@OpFamily.vec Z) := core_family 0%Z Z.add Z.mul Z.sub Z.opp.
Definition zJ : JvpFamily (R := Z) zcop := core_jvp 0%Z Z.add Z.mul Z.sub Z.opp.
Definition cVO : ValOps tshape (@OpFamily.vec Z) := vec_ops (R := Z) 0%Z 1%Z Z.add tsize.

Definition s41 := mkT [4] 1.        (* the parameter: 4 elements, no minibatch *)
Definition s42 := mkT [4] 2.        (* 4 elements x 2 samples *)
Definition s22 := mkT [2] 2.
Definition s12 := mkT [1] 2.
Definition cx_x : list Z := [1; 2; 3; 4; 5; 6; 7; 8]%Z.
Definition cx_env : @env (@OpFamily.vec Z) :=
  {| e_pval := fun _ => [2; -1; 3; 5]%Z; e_pgrad := fun _ => [100; 200; 300; 400]%Z; e_pos := fun _ => 0%N |}.
Definition cx_cmds : list (@cmd zcop tshape (@OpFamily.vec Z)) :=
  [ CNewGraph;
    CAdd 0 (OParam 0 s41) [];                              (* 0: w            {4}       *)
    CAdd 0 (OInput s42 cx_x) [];                           (* 1: x            {4} x 2   *)
    CAdd 0 (OMul s41 s42) [nd 0 0 0; nd 0 1 0];            (* 2: w * x        {4} x 2   *)
    CAdd 0 (OAdd s42 s41) [nd 0 2 0; nd 0 0 0];            (* 3: w * x + w    {4} x 2   *)
    CAdd 0 (OSlice s42 s22 0 1) [nd 0 3 0];                (* 4: rows 1..2    {2} x 2   *)
    CAdd 0 (OSum s22 s12 0) [nd 0 4 0];                    (* 5: sum axis 0   {1} x 2   *)
    CForward 0 (5, 0) ].
Definition cx_ops0 : list (@opinfo zcop tshape (@OpFamily.vec Z)) :=
  Eval vm_compute in
    match w_graphs (run_all zF cVO {| w_graphs := []; w_env := cx_env |} cx_cmds) with
    | g :: _ => g_ops g | [] => [] end.
Definition cx_dp : nat -> @OpFamily.vec Z := fun _ => [1; 10; 100; 1000]%Z.
Definition cx_tan (a : nat * nat) : @OpFamily.vec Z :=
  nth (fst a) [[1; 10; 100; 1000]; [0; 0; 0; 0; 0; 0; 0; 0]; [1; 20; 300; 4000; 5; 60; 700; 8000];
               [2; 30; 400; 5000; 6; 70; 800; 9000]; [30; 400; 70; 800]; [430; 870]]%Z [].
Definition cx_seeded := upd_ops cx_ops0 (5, 0) (fun s => set_grad s (Some (vones cVO (s_shape s)))).
Definition cx_result := Eval vm_compute in sweep zF cVO 5 cx_seeded cx_env [].

Lemma cx_wf : wf_ops cx_ops0.
Proof.
  intros k oi H. nth_cases k H ltac:(cbn; repeat constructor; cbn; try lia; eexists; (split; [reflexivity|cbn; lia])).
Qed.
Lemma cx_shape_ok : shape_ok zF cx_ops0.
Proof.
  intros k oi H Hi. nth_cases k H ltac:(try discriminate Hi).
  - exists []. split; [constructor|reflexivity].
  - exists [s41; s42]. split; [repeat constructor; eexists; split; reflexivity|reflexivity].
  - exists [s42; s41]. split; [repeat constructor; eexists; split; reflexivity|reflexivity].
  - exists [s42]. split; [repeat constructor; eexists; split; reflexivity|reflexivity].
  - exists [s22]. split; [repeat constructor; eexists; split; reflexivity|reflexivity].
Qed.
Lemma cx_consistent : consistent zF zJ cx_tan cx_dp cx_ops0 cx_env.
Proof.
  intros k oi H. nth_cases k H ltac:(cbn [o_op zF core_family f_inner o_rets]; try (split; reflexivity)).
  - intros ys [= <-]. exists 0%N, []. split; [constructor|split; reflexivity].
  - intros ys [= <-]. exists 0%N, [[2; -1; 3; 5]; cx_x]%Z. split; [repeat constructor|split; vm_compute; reflexivity].
  - intros ys [= <-]. exists 0%N, [[2; -2; 9; 20; 10; -6; 21; 40]; [2; -1; 3; 5]]%Z. split; [repeat constructor|split; vm_compute; reflexivity].
  - intros ys [= <-]. exists 0%N, [[4; -3; 12; 25; 12; -7; 24; 45]]%Z. split; [repeat constructor|split; vm_compute; reflexivity].
  - intros ys [= <-]. exists 0%N, [[-3; 12; -7; 24]]%Z. split; [repeat constructor|split; vm_compute; reflexivity].
Qed.
Lemma cx_rsized : rsized zF tsize cx_tan cx_ops0 cx_env.
Proof.
  intros [k v] s H. slot_cases k v H ltac:(split; [reflexivity|intros x [= <-]; reflexivity]).
Qed.
Lemma cx_gclean : gclean cx_ops0.
Proof.
  intros [k v] s H. slot_cases k v H ltac:(reflexivity).
Qed.
Lemma cx_psz : psz zF tsize cx_ops0 cx_env.
Proof.
  intros k oi p s H Hi Hs. nth_cases k H ltac:(try discriminate Hi; cbn in Hs; injection Hs as <-; reflexivity).
Qed.
Lemma cx_cover k oi p : nth_error cx_ops0 k = Some oi -> f_inner zF (o_op oi) = Some p -> In p [0].
Proof. intros H Hi. nth_cases k H ltac:(try discriminate Hi; cbn in Hi; injection Hi as <-; left; reflexivity). Qed.

(* d/dw sum_b sum_{i in {1,2}} (w_i x_{b,i} + w_i) = (0, (2+1)+(6+1), (3+1)+(7+1), 0) = (0,10,12,0):
   the two samples are folded into the batch-1 parameter *)
Lemma cx_run : exists ops' e' bl',
  sweep zF cVO 5 cx_seeded cx_env [] = Some (ops', e', bl') /\
  e_pgrad e' 0 = [100; 210; 312; 400]%Z /\ bl' = [5; 4; 3; 2; 1; 0] /\
  ppot 0%Z Z.add Z.mul cx_dp [0] e' = (ppot 0%Z Z.add Z.mul cx_dp [0%nat] cx_env + 1300)%Z.
Proof.
  destruct cx_result as [[[ops' e'] bl']|] eqn:E; [|discriminate E].
  exists ops', e', bl'. split; [exact E|]. vm_compute in E. injection E as <- <- <-. repeat split.
Qed.
