(* Non-vacuity of the C01 graph-level theorems on concrete tapes over Z.
   (1) ad_*: the example family EF of Graph/Example.v with LocalAdjoint from Graph/ADExample.v:
       y = ((p*p) + p') * p  where p and p' are two Parameter operators of the SAME parameter 0
       (shared parameter), node p is used three times (fan-out), twice by one operator (p*p).
   (2) cx_*: core_family of Tensor/GraphInst.v:
       y = sum_axis0 (slice_{axis 0, [1,3)} (w * x + w))  with a batch-1 parameter w of shape {4}
       broadcast against a batched input x of shape {4} x 2 (multiply, add, slice, sum).
   Every hypothesis of the theorems is established for these tapes, the sweep is run by
   vm_compute, and the gradients are the hand-computed derivatives. *)
From Coq Require Import List NArith ZArith Bool Arith Lia Ring.
From PV Require Import Graph.OpFamily Graph.Tape Graph.Lazy Graph.Backward Graph.TapeLemmas Graph.LazyProofs
  Graph.BackwardProofs Graph.ADProof Graph.Example Graph.ADExample
  Tensor.Kernels Tensor.Index Tensor.AdjCore Tensor.GraphInst.
Import ListNotations.

Definition Zth : ring_theory 0%Z 1%Z Z.add Z.mul Z.sub Z.opp eq := Zth.

(* ================================================================== (1) the example family *)
Definition zsz (n : nat) : nat := n.
Definition zVO : ValOps nat zvec := vec_ops (R := Z) 0%Z 1%Z Z.add zsz.

Definition ad_env : @env zvec :=
  {| e_pval := fun _ => [2; 3]%Z; e_pgrad := fun _ => [10; 20]%Z; e_pos := fun _ => 0%N |}.
Definition ad_cmds : list (@cmd eop nat zvec) :=
  [ CNewGraph;
    CAdd 0 (EParam 0 2) [];                        (* 0: p *)
    CAdd 0 (EParam 0 2) [];                        (* 1: p again, another Parameter operator *)
    CAdd 0 EMul [nd 0 0 0; nd 0 0 0];              (* 2: p * p, the same node twice *)
    CAdd 0 EAdd [nd 0 2 0; nd 0 1 0];              (* 3 *)
    CAdd 0 EMul [nd 0 3 0; nd 0 0 0];              (* 4: fan-out of node 0 *)
    CForward 0 (4, 0) ].
Definition ad_ops0 : list (@opinfo eop nat zvec) :=
  Eval vm_compute in
    match w_graphs (run_all EF zVO {| w_graphs := []; w_env := ad_env |} ad_cmds) with
    | g :: _ => g_ops g | [] => [] end.
Definition ad_dp : nat -> zvec := fun _ => [5; 7]%Z.
Definition ad_tan (a : nat * nat) : zvec :=
  nth (fst a) [[5; 7]; [5; 7]; [20; 42]; [25; 49]; [80; 231]]%Z [].
Definition ad_seeded := upd_ops ad_ops0 (4, 0) (fun s => set_grad s (Some (vones zVO (s_shape s)))).
Definition ad_result := Eval vm_compute in sweep EF zVO 4 ad_seeded ad_env [].

Ltac nth_cases k H tac :=
  repeat (destruct k as [|k]; [cbn in H; injection H as <-; tac|]); try (destruct k; discriminate H).

Ltac slot_cases k v H tac :=
  unfold get_slot_ops in H; cbn [fst snd] in H;
  repeat (destruct k as [|k];
          [destruct v as [|v]; [cbn in H; injection H as <-; tac|cbn in H; destruct v; discriminate H]|]);
  try (cbn in H; destruct k; discriminate H).

Lemma ad_wf : wf_ops ad_ops0.
Proof.
  intros k oi H. nth_cases k H ltac:(cbn; repeat constructor; cbn; try lia; eexists; (split; [reflexivity|cbn; lia])).
Qed.
Lemma ad_LA k oi : nth_error ad_ops0 k = Some oi -> f_inner EF (o_op oi) = None ->
  LocalAdjoint 0%Z Z.add Z.mul EF ejvp zsz (o_op oi).
Proof.
  intros H Hi. nth_cases k H ltac:(try discriminate Hi; cbn [o_op]; first [exact LocalAdjoint_mul|exact LocalAdjoint_add]).
Qed.
Lemma ad_shape_ok : shape_ok EF ad_ops0.
Proof.
  intros k oi H Hi. nth_cases k H ltac:(try discriminate Hi; (exists [2; 2]; split; [repeat constructor; eexists; split; reflexivity|reflexivity])).
Qed.
Lemma ad_consistent : consistent EF ejvp ad_tan ad_dp ad_ops0 ad_env.
Proof.
  intros k oi H. nth_cases k H ltac:(cbn; try (split; reflexivity)).
  - intros ys [= <-]. exists 0%N, [[2; 3]; [2; 3]]%Z. split; [repeat constructor|split; reflexivity].
  - intros ys [= <-]. exists 0%N, [[4; 9]; [2; 3]]%Z. split; [repeat constructor|split; reflexivity].
  - intros ys [= <-]. exists 0%N, [[6; 12]; [2; 3]]%Z. split; [repeat constructor|split; reflexivity].
Qed.
Lemma ad_rsized : rsized EF zsz ad_tan ad_ops0 ad_env.
Proof.
  intros [k v] s H. slot_cases k v H ltac:(split; [reflexivity|intros x [= <-]; reflexivity]).
Qed.
Lemma ad_gclean : gclean ad_ops0.
Proof.
  intros [k v] s H. slot_cases k v H ltac:(reflexivity).
Qed.
Lemma ad_psz : psz EF zsz ad_ops0 ad_env.
Proof.
  intros k oi p s H Hi Hs. nth_cases k H ltac:(try discriminate Hi; cbn in Hs; injection Hs as <-; reflexivity).
Qed.
Lemma ad_cover k oi p : nth_error ad_ops0 k = Some oi -> f_inner EF (o_op oi) = Some p -> In p [0].
Proof. intros H Hi. nth_cases k H ltac:(try discriminate Hi; cbn in Hi; injection Hi as <-; left; reflexivity). Qed.
Lemma ad_nodup : NoDup [0].
Proof. constructor; [intros []|constructor]. Qed.

(* the derivative of sum((p*p + p) * p) = sum(p^3 + p^2) at p = (2,3) is 3p^2 + 2p = (16, 33) *)
Lemma ad_run : exists ops' e' bl',
  sweep EF zVO 4 ad_seeded ad_env [] = Some (ops', e', bl') /\
  e_pgrad e' 0 = [26; 53]%Z /\ bl' = [4; 3; 2; 1; 0] /\
  ppot 0%Z Z.add Z.mul ad_dp [0] e' = (ppot 0%Z Z.add Z.mul ad_dp [0%nat] ad_env + 311)%Z.
Proof.
  destruct ad_result as [[[ops' e'] bl']|] eqn:E; [|discriminate E].
  exists ops', e', bl'. split; [exact E|]. vm_compute in E. injection E as <- <- <-. repeat split.
Qed.

(* ================================================================== (2) core_family over Z *)
Notation zcop := (@cop Z).
Definition zF : OpFamily zcop tshape (@OpFamily.vec Z) := core_family 0%Z Z.add Z.mul Z.sub Z.opp.
Definition zJ : JvpFamily (R := Z) zcop := core_jvp 0%Z Z.add Z.mul Z.sub Z.opp.
Definition cVO : ValOps tshape (@OpFamily.vec Z) := vec_ops (R := Z) 0%Z 1%Z Z.add tsize.

Definition s41 := mkT [4] 1.        (* the parameter: 4 elements, no minibatch *)
Definition s42 := mkT [4] 2.        (* 4 elements x 2 samples *)
Definition s22 := mkT [2] 2.
Definition s12 := mkT [1] 2.
Definition cx_x : list Z := [1; 2; 3; 4; 5; 6; 7; 8]%Z.
Definition cx_env : @env (@OpFamily.vec Z) :=
  {| e_pval := fun _ => [2; -1; 3; 5]%Z; e_pgrad := fun _ => [100; 200; 300; 400]%Z; e_pos := fun _ => 0%N |}.
Definition cx_cmds : list (@cmd zcop tshape (@OpFamily.vec Z)) :=
  [ CNewGraph;
    CAdd 0 (OParam 0 s41) [];                              (* 0: w            {4}       *)
    CAdd 0 (OInput s42 cx_x) [];                           (* 1: x            {4} x 2   *)
    CAdd 0 (OMul s41 s42) [nd 0 0 0; nd 0 1 0];            (* 2: w * x        {4} x 2   *)
    CAdd 0 (OAdd s42 s41) [nd 0 2 0; nd 0 0 0];            (* 3: w * x + w    {4} x 2   *)
    CAdd 0 (OSlice s42 s22 0 1) [nd 0 3 0];                (* 4: rows 1..2    {2} x 2   *)
    CAdd 0 (OSum s22 s12 0) [nd 0 4 0];                    (* 5: sum axis 0   {1} x 2   *)
    CForward 0 (5, 0) ].
Definition cx_ops0 : list (@opinfo zcop tshape (@OpFamily.vec Z)) :=
  Eval vm_compute in
    match w_graphs (run_all zF cVO {| w_graphs := []; w_env := cx_env |} cx_cmds) with
    | g :: _ => g_ops g | [] => [] end.
Definition cx_dp : nat -> @OpFamily.vec Z := fun _ => [1; 10; 100; 1000]%Z.
Definition cx_tan (a : nat * nat) : @OpFamily.vec Z :=
  nth (fst a) [[1; 10; 100; 1000]; [0; 0; 0; 0; 0; 0; 0; 0]; [1; 20; 300; 4000; 5; 60; 700; 8000];
               [2; 30; 400; 5000; 6; 70; 800; 9000]; [30; 400; 70; 800]; [430; 870]]%Z [].
Definition cx_seeded := upd_ops cx_ops0 (5, 0) (fun s => set_grad s (Some (vones cVO (s_shape s)))).
Definition cx_result := Eval vm_compute in sweep zF cVO 5 cx_seeded cx_env [].

Lemma cx_wf : wf_ops cx_ops0.
Proof.
  intros k oi H. nth_cases k H ltac:(cbn; repeat constructor; cbn; try lia; eexists; (split; [reflexivity|cbn; lia])).
Qed.
Lemma cx_shape_ok : shape_ok zF cx_ops0.
Proof.
  intros k oi H Hi. nth_cases k H ltac:(try discriminate Hi).
  - exists []. split; [constructor|reflexivity].
  - exists [s41; s42]. split; [repeat constructor; eexists; split; reflexivity|reflexivity].
  - exists [s42; s41]. split; [repeat constructor; eexists; split; reflexivity|reflexivity].
  - exists [s42]. split; [repeat constructor; eexists; split; reflexivity|reflexivity].
  - exists [s22]. split; [repeat constructor; eexists; split; reflexivity|reflexivity].
Qed.
Lemma cx_consistent : consistent zF zJ cx_tan cx_dp cx_ops0 cx_env.
Proof.
  intros k oi H. nth_cases k H ltac:(cbn [o_op zF core_family desc_family f_inner o_rets]; try (split; reflexivity)).
  - intros ys [= <-]. exists 0%N, []. split; [constructor|split; reflexivity].
  - intros ys [= <-]. exists 0%N, [[2; -1; 3; 5]; cx_x]%Z. split; [repeat constructor|split; vm_compute; reflexivity].
  - intros ys [= <-]. exists 0%N, [[2; -2; 9; 20; 10; -6; 21; 40]; [2; -1; 3; 5]]%Z. split; [repeat constructor|split; vm_compute; reflexivity].
  - intros ys [= <-]. exists 0%N, [[4; -3; 12; 25; 12; -7; 24; 45]]%Z. split; [repeat constructor|split; vm_compute; reflexivity].
  - intros ys [= <-]. exists 0%N, [[-3; 12; -7; 24]]%Z. split; [repeat constructor|split; vm_compute; reflexivity].
Qed.
Lemma cx_rsized : rsized zF tsize cx_tan cx_ops0 cx_env.
Proof.
  intros [k v] s H. slot_cases k v H ltac:(split; [reflexivity|intros x [= <-]; reflexivity]).
Qed.
Lemma cx_gclean : gclean cx_ops0.
Proof.
  intros [k v] s H. slot_cases k v H ltac:(reflexivity).
Qed.
Lemma cx_psz : psz zF tsize cx_ops0 cx_env.
Proof.
  intros k oi p s H Hi Hs. nth_cases k H ltac:(try discriminate Hi; cbn in Hs; injection Hs as <-; reflexivity).
Qed.
Lemma cx_cover k oi p : nth_error cx_ops0 k = Some oi -> f_inner zF (o_op oi) = Some p -> In p [0].
Proof. intros H Hi. nth_cases k H ltac:(try discriminate Hi; cbn in Hi; injection Hi as <-; left; reflexivity). Qed.

(* d/dw sum_b sum_{i in {1,2}} (w_i x_{b,i} + w_i) = (0, (2+1)+(6+1), (3+1)+(7+1), 0) = (0,10,12,0):
   the two samples are folded into the batch-1 parameter *)
Lemma cx_run : exists ops' e' bl',
  sweep zF cVO 5 cx_seeded cx_env [] = Some (ops', e', bl') /\
  e_pgrad e' 0 = [100; 210; 312; 400]%Z /\ bl' = [5; 4; 3; 2; 1; 0] /\
  ppot 0%Z Z.add Z.mul cx_dp [0] e' = (ppot 0%Z Z.add Z.mul cx_dp [0%nat] cx_env + 1300)%Z.
Proof.
  destruct cx_result as [[[ops' e'] bl']|] eqn:E; [|discriminate E].
  exists ops', e', bl'. split; [exact E|]. vm_compute in E. injection E as <- <- <-. repeat split.
Qed.

(* ================================================================== (3) a tape through the rest of core_family
   forward-mode tangents of an evaluated tape, computed by the operators' JVPs (so `consistent`
   holds by computation) *)
Section Tangents.
  Context {Op Sh : Type} (F : OpFamily Op Sh (@OpFamily.vec Z)) (jvp : JvpFamily (R := Z) Op).
  Variables (dp : nat -> @OpFamily.vec Z) (e : @env (@OpFamily.vec Z)).
  Definition tan_at (T : list (list (@OpFamily.vec Z))) (a : nat * nat) : @OpFamily.vec Z := nth (snd a) (nth (fst a) T []) [].
  Definition tan_step (ops : list (@opinfo Op Sh (@OpFamily.vec Z))) (T : list (list (@OpFamily.vec Z))) (oi : @opinfo Op Sh (@OpFamily.vec Z)) :=
    match f_inner F (o_op oi) with
    | Some p => [dp p]
    | None => jvp (o_op oi) 0%N
                (map (fun a => match bread F ops e a with Some x => x | None => [] end) (o_args oi))
                (map (tan_at T) (o_args oi))
    end.
  Definition tangents (ops : list (@opinfo Op Sh (@OpFamily.vec Z))) : list (list (@OpFamily.vec Z)) :=
    fold_left (fun T oi => T ++ [tan_step ops T oi]) ops [].
End Tangents.

Definition sW := mkT [2; 3] 1.      Definition sv := mkT [2] 1.        Definition sx32 := mkT [3] 2.
Definition s2b2 := mkT [2] 2.       Definition s4b2 := mkT [4] 2.      Definition s12b2 := mkT [1; 2] 2.
Definition s23b2 := mkT [2; 3] 2.   Definition s32b2 := mkT [3; 2] 2.  Definition s1b1 := mkT [1] 1.
Definition s1b2 := mkT [1] 2.       Definition s1b3 := mkT [1] 3.      Definition s1b4 := mkT [1] 4.
Definition s0b1 := mkT [] 1.       Definition sK := mkT [2; 2] 1.      Definition sI := mkT [3; 3] 1.     Definition s4b1 := mkT [4] 1.
Definition cy_env : @env (@OpFamily.vec Z) :=
  {| e_pval := fun p => match p with O => [1; -2; 3; 0; 2; -1]%Z | S O => [4; -3]%Z | S (S O) => [1; 2; -1; 3]%Z | _ => [2]%Z end;
     e_pgrad := fun p => match p with O => [0; 0; 0; 0; 0; 0]%Z | S O => [7; 7]%Z | S (S O) => [1; 1; 1; 1]%Z | _ => [0]%Z end;
     e_pos := fun _ => 0%N |}.
Definition cy_cmds : list (@cmd zcop tshape (@OpFamily.vec Z)) :=
  [ CNewGraph;
    CAdd 0 (OParam 0 sW) [];                                            (*  0: W       {2,3}        *)
    CAdd 0 (OParam 1 sv) [];                                            (*  1: v       {2}          *)
    CAdd 0 (OInput sx32 [1; 2; 3; 4; 5; 6]%Z) [];                       (*  2: x       {3} x 2      *)
    CAdd 0 (OMatmul sW sx32 s2b2) [nd 0 0 0; nd 0 2 0];                 (*  3: W x     {2} x 2      *)
    CAdd 0 (OSub s2b2 sv) [nd 0 3 0; nd 0 1 0];                         (*  4: W x - v {2} x 2      *)
    CAdd 0 (OConcat [s2b2; sv] s4b2 0) [nd 0 4 0; nd 0 1 0];            (*  5: concat  {4} x 2      *)
    CAdd 0 (OSplit s4b2 s2b2 0 2) [nd 0 5 0];                           (*  6: split -> 2 x {2} x 2 *)
    CAdd 0 (OFlip s2b2 0) [nd 0 6 0];                                   (*  7: flip of the 1st part; the 2nd output stays unused *)
    CAdd 0 (OReshape s2b2 s12b2) [nd 0 7 0];                            (*  8: {1,2} x 2            *)
    CAdd 0 (OTranspose s12b2 s2b2) [nd 0 8 0];                          (*  9: {2} x 2              *)
    CAdd 0 (OBroadcast s2b2 s23b2 1 3) [nd 0 9 0];                      (* 10: {2,3} x 2            *)
    CAdd 0 (OPermute s23b2 s32b2 [1; 0]) [nd 0 10 0];                   (* 11: {3,2} x 2            *)
    CAdd 0 (OPick s32b2 s12b2 [2; 0] 0) [nd 0 11 0];                    (* 12: {1,2} x 2            *)
    CAdd 0 (OSum s12b2 s1b2 1) [nd 0 12 0];                             (* 13: {1} x 2              *)
    CAdd 0 (OBatchSlice s1b2 s1b1 1) [nd 0 13 0];                       (* 14: {1} x 1              *)
    CAdd 0 (OBatchConcat [s1b2; s1b1] s1b3) [nd 0 13 0; nd 0 14 0];     (* 15: {1} x 3              *)
    CAdd 0 (OBatchPick s1b3 s1b4 [2; 0; 0; 1]) [nd 0 15 0];             (* 16: {1} x 4              *)
    CAdd 0 (OBatchSplit s1b4 s1b2 2) [nd 0 16 0];                       (* 17: 2 x {1} x 2          *)
    CAdd 0 (OBatchSum s1b2 s1b1) [nd 0 17 0];                           (* 18: {1} x 1              *)
    CAdd 0 (OParam 2 sK) [];                                            (* 19: K       {2,2}        *)
    CAdd 0 (OInput sI [1; 2; 3; 4; 5; 6; 7; 8; 9]%Z) [];                (* 20: image   {3,3}        *)
    CAdd 0 (OConv2d sI sK sK 0 0 1 1 1 1) [nd 0 20 0; nd 0 19 0];       (* 21: conv2d  {2,2}        *)
    CAdd 0 (OReshape sK s4b1) [nd 0 21 0];                              (* 22: {4}                  *)
    CAdd 0 (OSum s4b1 s1b1 0) [nd 0 22 0];                              (* 23: {1}                  *)
    CAdd 0 (OMul s1b1 s1b1) [nd 0 18 0; nd 0 23 0];                     (* 24: product of branches  *)
    CAdd 0 (OStop s1b1) [nd 0 24 0];                                    (* 25: stop_gradient        *)
    CAdd 0 (OAdd s1b1 s1b1) [nd 0 24 0; nd 0 25 0];                     (* 26                       *)
    CAdd 0 (OCopy s1b1) [nd 0 26 0];                                    (* 27: u                    *)
    CAdd 0 (OMulConst s1b1 3%Z) [nd 0 27 0];                            (* 28: 3 u                  *)
    CAdd 0 (OSubConstL s1b1 10%Z) [nd 0 28 0];                          (* 29: 10 - 3 u             *)
    CAdd 0 (ONeg s1b1) [nd 0 29 0];                                     (* 30: 3 u - 10             *)
    CAdd 0 (OAddConst s1b1 5%Z) [nd 0 30 0];                            (* 31                       *)
    CAdd 0 (OSubConstR s1b1 1%Z) [nd 0 31 0];                           (* 32: 3 u - 6              *)
    CAdd 0 (OParam 3 s0b1) [];                                          (* 33: c, a scalar          *)
    CAdd 0 (OMulScalar s2b2 s0b1) [nd 0 4 0; nd 0 33 0];                (* 34: c h, h = W x - v     *)
    CAdd 0 (OAddScalar s2b2 s0b1) [nd 0 34 0; nd 0 33 0];               (* 35: c h + c              *)
    CAdd 0 (OSubScalarL s2b2 s0b1) [nd 0 35 0; nd 0 33 0];              (* 36: c - (c h + c)        *)
    CAdd 0 (OSubScalarR s2b2 s0b1) [nd 0 36 0; nd 0 33 0];              (* 37: - c h - c   {2} x 2  *)
    CAdd 0 (OSum s2b2 s1b2 0) [nd 0 37 0];                              (* 38: {1} x 2              *)
    CAdd 0 (OBatchSum s1b2 s1b1) [nd 0 38 0];                           (* 39: - c sum(h) - 4 c     *)
    CAdd 0 (OAdd s1b1 s1b1) [nd 0 32 0; nd 0 39 0];                     (* 40: y                    *)
    CForward 0 (40, 0) ].
Definition cy_ops0 : list (@opinfo zcop tshape (@OpFamily.vec Z)) :=
  Eval vm_compute in
    match w_graphs (run_all zF cVO {| w_graphs := []; w_env := cy_env |} cy_cmds) with
    | g :: _ => g_ops g | [] => [] end.
Definition cy_dp : nat -> @OpFamily.vec Z :=
  fun p => match p with O => [1; 0; 2; -1; 0; 3]%Z | S O => [5; -2]%Z | S (S O) => [0; 1; -1; 2]%Z | _ => [3]%Z end.
Definition cy_T : list (list (@OpFamily.vec Z)) := Eval vm_compute in tangents zF zJ cy_dp cy_env cy_ops0.
Definition cy_tan : nat * nat -> @OpFamily.vec Z := tan_at cy_T.
Definition cy_seeded := upd_ops cy_ops0 (40, 0) (fun s => set_grad s (Some (vones cVO (s_shape s)))).
Definition cy_result := Eval vm_compute in sweep zF cVO 40 cy_seeded cy_env [].

Lemma cy_wf : wf_ops cy_ops0.
Proof.
  intros k oi H. nth_cases k H ltac:(cbn; repeat constructor; cbn; try lia; eexists; (split; [reflexivity|cbn; lia])).
Qed.
(* every guard of the tape's operators evaluates to true on its operand shapes *)
Lemma cy_shape_ok : shape_ok zF cy_ops0.
Proof.
  intros k oi H Hi.
  nth_cases k H ltac:(try discriminate Hi;
    (eexists; split; [repeat (constructor; [eexists; split; reflexivity|]); constructor|vm_compute; reflexivity])).
Qed.
Lemma cy_consistent : consistent zF zJ cy_tan cy_dp cy_ops0 cy_env.
Proof.
  intros k oi H.
  nth_cases k H ltac:(cbn [o_op zF core_family desc_family f_inner o_rets]; try (split; reflexivity);
    (intros ys Hys; cbn in Hys; injection Hys as <-;
     eexists 0%N, _; split; [repeat (constructor; [lazy; reflexivity|]); constructor|split; vm_compute; reflexivity])).
Qed.
Lemma cy_rsized : rsized zF tsize cy_tan cy_ops0 cy_env.
Proof.
  intros [k v] s H. unfold get_slot_ops in H. cbn [fst snd] in H.
  do 41 (destruct k as [|k];
          [do 2 (destruct v as [|v]; [cbn in H; first [discriminate H|injection H as <-; split; [reflexivity|intros x [= <-]; reflexivity]]|]);
           cbn in H; destruct v; discriminate H|]);
  cbn in H; destruct k; discriminate H.
Qed.
Lemma cy_gclean : gclean cy_ops0.
Proof.
  intros [k v] s H. unfold get_slot_ops in H. cbn [fst snd] in H.
  do 41 (destruct k as [|k];
          [do 2 (destruct v as [|v]; [cbn in H; first [discriminate H|injection H as <-; reflexivity]|]);
           cbn in H; destruct v; discriminate H|]);
  cbn in H; destruct k; discriminate H.
Qed.
Lemma cy_psz : psz zF tsize cy_ops0 cy_env.
Proof.
  intros k oi p s H Hi Hs. nth_cases k H ltac:(try discriminate Hi; cbn in Hi; injection Hi as <-; cbn in Hs; injection Hs as <-; reflexivity).
Qed.
Lemma cy_cover k oi p : nth_error cy_ops0 k = Some oi -> f_inner zF (o_op oi) = Some p -> In p [0; 1; 2; 3].
Proof. intros H Hi. nth_cases k H ltac:(try discriminate Hi; cbn in Hi; injection Hi as <-; cbn; tauto). Qed.
Lemma cy_nodup : NoDup [0; 1; 2; 3].
Proof. repeat constructor; cbn; intuition discriminate. Qed.

(* with A = sum_b sum(W x_b - v) = 23, C = sum(conv2d(image, K)) = 96, u = A C + stop_gradient(A C),
   c = 2 a scalar parameter, h = W x - v:  y = 3 u - 6 + sum(- c h - c) = 3 u - 6 - c A - 4 c:
   d/dW = (3 C - c) (x_0 + x_1)^T per row = 286 (5,7,9), d/dv = -6 C + 2 c, d/dK = 3 A (28, 24, 16, 12),
   d/dc = - A - 4 = -27, added to the prior gradients (0.., (7,7), (1,1,1,1), 0) *)
Lemma cy_run : exists ops' e' bl',
  sweep zF cVO 40 cy_seeded cy_env [] = Some (ops', e', bl') /\
  e_pgrad e' 0 = [1430; 1430; 2002; 2002; 2574; 2574]%Z /\ e_pgrad e' 1 = [-565; -565]%Z /\
  e_pgrad e' 2 = [1933; 1657; 1105; 829]%Z /\ e_pgrad e' 3 = [-27]%Z /\ length bl' = 41 /\
  ppot 0%Z Z.add Z.mul cy_dp [0; 1; 2; 3] e' = (ppot 0%Z Z.add Z.mul cy_dp [0%nat; 1%nat; 2%nat; 3%nat] cy_env + 11565)%Z.
Proof.
  destruct cy_result as [[[ops' e'] bl']|] eqn:E; [|discriminate E].
  exists ops', e', bl'. split; [exact E|]. vm_compute in E. injection E as <- <- <-. repeat split.
Qed.
