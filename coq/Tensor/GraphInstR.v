(* C01 over the REALS: the operator family of Tensor/GraphInst.v instantiated at Coq's R (a
   commutative ring: RTheory) and ENLARGED by the non-polynomial differentiable operators,
   whose forward / backward element formulas are the GENERATED definitions fw_<op> / bw_<op> of
   Gen/ScalarGen.v (regenerated from devices/naive/ops/*.cc on every check).

   Two separate statements per non-polynomial operator (the split asked for by LocalAdjoint's
   quantification over ALL operand values):
   * LocalAdjoint (real_LocalAdjoint) is pure algebra and UNCONDITIONAL: the tangent (jvp) of an
     elementwise operator is DEFINED through the generated backward formula at gy = 1,
         jvp_i = dx_i * bw_op(x_i, fw_op(x_i), 1),
     and <gy, jvp> = <increments of the backward kernel, dx> follows from linearity of bw_op in
     gy (Scalar/Deriv.v: bw_linear_unary, _const, _binary, _pown).  No domain restriction is needed for that.
   * the jvp_is_derivative corollaries (Tensor/AdjDeriv.v) carry the analytic content: on the smooth domain of
     the operator (x_i > 0 for log / sqrt / pow base, cos x_i <> 0 for tan, x_i <> 0 for abs /
     prelu / elu / k/x / pown, b_i <> 0 for a/b) this jvp IS the derivative of the forward value
     along any differentiable curve of operands - citing d_<op> of Scalar/Deriv.v, Scalar/Pown.v.

   real_family = core_family at R (every operator of Tensor/GraphInst.v, embedded by RCore) +
     Abs Sqrt Exp Log Tanh Sigmoid Softplus Sin Cos Tan       CPUDEV_FW_X / CPUDEV_BW_X
     DivideConstR DivideConstL PowConstR PowConstL PReLU ELU  CPUDEV_FW_X_CONST / CPUDEV_BW_X_CONST
     ReLU = PReLU(0), LReLU = PReLU(1/100)                    BACKWARD(ReLU/LReLU): prelu_bw(.., 0 / .01)
     PowN (int32 exponent)                                    pown_fw / pown_bw
     Divide, Pow                                              CPUDEV_FW_AB / divide_bw_impl, pow_bw_impl
                                                              (B-vs-1 broadcasting and folding as Multiply)
     Max, Min along an axis                                   max_fw / max_bw (first extremal index, break):
                                                              Tensor/AdjMax.v; derivative when the extremum
                                                              is attained once
     LogSumExp, SoftmaxCrossEntropy, SparseSoftmaxCrossEntropy   Tensor/AdjSoftmax.v (compositions of forward
                                                              kernels in the BACKWARD bodies); dense SCE for
                                                              x and t of one common shape; its tangent is the
                                                              derivative only when sum_axis t = 1 (D11)
     MaxPooling2D                                             Tensor/AdjMax.v (pool2d_red windows)
     DivideScalarR/L, PowScalarR/L                            Tensor/AdjScalarR.v (BACKWARD bodies as kernel compositions)
     SoftmaxCrossEntropy with x and t of batch B vs 1 (either way), SparseSoftmaxCrossEntropy with x of
     batch 1 and B index lists                                Tensor/AdjSoftmaxB.v (RSCEb, RSparseSCEb) *)
From Coq Require Import List NArith ZArith Bool Arith Lia Ring Reals RealField Lra.
From PV Require Import Graph.OpFamily Graph.Tape Graph.Lazy Graph.Backward Graph.TapeLemmas Graph.LazyProofs
  Graph.BackwardProofs Graph.ADProof Tensor.Kernels Tensor.Index Tensor.ProofsBilinear
  Scalar.ScalarBase Gen.ScalarGen Scalar.Deriv Scalar.Pown
  Tensor.AdjCore Tensor.AdjMatmul Tensor.GraphInst Tensor.AdjMax Tensor.AdjSoftmax Tensor.AdjSoftmaxB Tensor.AdjScalarR.
Import ListNotations.
Local Open Scope R_scope.

Definition RthR : ring_theory 0 1 Rplus Rmult Rminus Ropp eq := RTheory.

Inductive unop := UAbs | USqrt | UExp | ULog | UTanh | USigmoid | USoftplus | USin | UCos | UTan.
Inductive kop := KDivR | KDivL | KPowR | KPowL | KPReLU | KELU.
Inductive bop := BDivide | BPow.

Definition un_fw (u : unop) : R -> R :=
  match u with
  | UAbs => fw_abs | USqrt => fw_sqrt | UExp => fw_exp | ULog => fw_log | UTanh => fw_tanh
  | USigmoid => fw_sigmoid | USoftplus => fw_softplus | USin => fw_sin | UCos => fw_cos | UTan => fw_tan
  end.
Definition un_bw (u : unop) : R -> R -> R -> R :=
  match u with
  | UAbs => bw_abs | USqrt => bw_sqrt | UExp => bw_exp | ULog => bw_log | UTanh => bw_tanh
  | USigmoid => bw_sigmoid | USoftplus => bw_softplus | USin => bw_sin | UCos => bw_cos | UTan => bw_tan
  end.
Definition k_fw (c : kop) : R -> R -> R :=
  match c with
  | KDivR => fw_divide_const_r | KDivL => fw_divide_const_l | KPowR => fw_pow_const_r
  | KPowL => fw_pow_const_l | KPReLU => fw_prelu | KELU => fw_elu
  end.
Definition k_bw (c : kop) : R -> R -> R -> R -> R :=
  match c with
  | KDivR => bw_divide_const_r | KDivL => bw_divide_const_l | KPowR => bw_pow_const_r
  | KPowL => bw_pow_const_l | KPReLU => bw_prelu | KELU => bw_elu
  end.
Definition b_fw (b : bop) : R -> R -> R := match b with BDivide => fw_divide | BPow => fw_pow end.
Definition b_bw_a (b : bop) : R -> R -> R -> R -> R := match b with BDivide => bw_divide_a | BPow => bw_pow_a end.
Definition b_bw_b (b : bop) : R -> R -> R -> R -> R := match b with BDivide => bw_divide_b | BPow => bw_pow_b end.
(* tangent of a binary elementwise operator: both partial slopes, read off the backward formulas *)
Definition b_jvp (b : bop) (x y dx dy : R) : R :=
  dx * b_bw_a b x y (b_fw b x y) 1 + dy * b_bw_b b x y (b_fw b x y) 1.

Inductive rop :=
| RCore (o : @cop R)
| RUn (u : unop) (s : tshape)
| RK (c : kop) (s : tshape) (k : R)
| RReLU (s : tshape)
| RLReLU (s : tshape)
| RPowN (s : tshape) (k : Z)
| RBin (b : bop) (sa sb : tshape)
| RMax (sx sy : tshape) (dim : nat)
| RMin (sx sy : tshape) (dim : nat)
| RLogSumExp (sx sy : tshape) (dim : nat)
| RSCE (sx sy : tshape) (dim : nat)
| RSparseSCE (sx sp : tshape) (ids : list nat) (dim : nat)
| RMaxPool (sx sy : tshape) (w0 w1 p0 p1 s0 s1 : nat)
| RDivScalarR (sx sk : tshape)
| RDivScalarL (sx sk : tshape)
| RPowScalarR (sx sk : tshape)
| RPowScalarL (sx sk : tshape)
| RSCEb (sx st srx sy : tshape) (dim : nat)
| RSparseSCEb (sx srx sp : tshape) (ids : list nat) (dim : nat).

Notation opdescR := (@opdesc R).
Definition describeR (o : rop) : opdescR :=
  match o with
  | RCore c => describe 0 Rplus Rmult Rminus Ropp c
  | RUn u s => uny_desc 0 1 Rplus Rmult s (un_fw u) (un_bw u)
  | RK c s k => uny_desc 0 1 Rplus Rmult s (fun x => k_fw c x k) (fun x y g => k_bw c x y g k)
  | RReLU s => uny_desc 0 1 Rplus Rmult s (fun x => fw_prelu x 0) (fun x y g => bw_prelu x y g 0)
  | RLReLU s => uny_desc 0 1 Rplus Rmult s (fun x => fw_prelu x (1 / 100)) (fun x y g => bw_prelu x y g (1 / 100))
  | RPowN s k => uny_desc 0 1 Rplus Rmult s (fun x => fw_pown x k) (fun x y g => bw_pown x y g k)
  | RBin b sa sb =>
      ewy_desc 0 Rplus sa sb (b_fw b) (b_jvp b) (fun g x y z => b_bw_a b x y z g) (fun g x y z => b_bw_b b x y z g)
  | RMax sx sy dim => ext_desc rgt sx sy dim
  | RMin sx sy dim => ext_desc rlt sx sy dim
  | RLogSumExp sx sy dim => lse_desc sx sy dim
  | RSCE sx sy dim => sce_desc sx sy dim
  | RSparseSCE sx sp ids dim => ssce_desc sx sp ids dim
  | RMaxPool sx sy w0 w1 p0 p1 s0 s1 => pool_desc sx sy w0 w1 p0 p1 s0 s1
  | RDivScalarR sx sk => divscr_desc sx sk
  | RDivScalarL sx sk => divscl_desc sx sk
  | RPowScalarR sx sk => powscr_desc sx sk
  | RPowScalarL sx sk => powscl_desc sx sk
  | RSCEb sx st srx sy dim => sceb_desc sx st srx sy dim
  | RSparseSCEb sx srx sp ids dim => ssceb_desc sx srx sp ids dim
  end.

Definition real_family : OpFamily rop tshape (@OpFamily.vec R) :=
  desc_family describeR
    (fun o => match o with RCore (OParam p _) => Some p | _ => None end)
    (fun o => match o with RCore (OParam _ _) | RCore (OInput _ _) => Some 0%nat | _ => None end).
Definition real_jvp : JvpFamily (R := R) rop := desc_jvp describeR.

Theorem describeR_LA (o : rop) : desc_LA 0 Rplus Rmult (describeR o).
Proof.
  destruct o as [c|u s|c s k|s|s|s k|b sa sb|sx sy dim|sx sy dim|sx sy dim|sx sy dim|sx sp ids dim|sx sy w0 w1 p0 p1 s0 s1|sx sk|sx sk|sx sk|sx sk|sx st srx sy dim|sx srx sp ids dim]; cbn [describeR].
  - apply (describe_LA 0 1 Rplus Rmult Rminus Ropp RthR).
  - apply (uny_LA 0 1 Rplus Rmult Rminus Ropp RthR). intros x y g.
    destruct (bw_linear_unary x y g) as (H1 & H2 & H3 & H4 & H5 & H6 & H7 & H8 & H9 & H10). destruct u; assumption.
  - apply (uny_LA 0 1 Rplus Rmult Rminus Ropp RthR). intros x y g.
    destruct (bw_linear_const x y g k) as (_ & _ & _ & _ & H5 & H6 & H7 & H8 & H9 & H10). destruct c; assumption.
  - apply (uny_LA 0 1 Rplus Rmult Rminus Ropp RthR). intros x y g. apply (bw_linear_const x y g 0).
  - apply (uny_LA 0 1 Rplus Rmult Rminus Ropp RthR). intros x y g. apply (bw_linear_const x y g (1 / 100)).
  - apply (uny_LA 0 1 Rplus Rmult Rminus Ropp RthR). intros x y g. apply bw_linear_pown.
  - apply (ewy_LA 0 1 Rplus Rmult Rminus Ropp RthR). intros g x y dx dy. unfold b_jvp.
    destruct (bw_linear_binary x y (b_fw b x y) g) as (_ & _ & _ & _ & _ & _ & H7 & H8 & H9 & H10).
    destruct b; cbn [b_bw_a b_bw_b b_fw] in *; [rewrite H7, H8|rewrite H9, H10]; ring.
  - apply ext_LA.
  - apply ext_LA.
  - apply lse_LA.
  - apply sce_LA.
  - apply ssce_LA.
  - apply pool_LA.
  - apply divscr_LA.
  - apply divscl_LA.
  - apply powscr_LA.
  - apply powscl_LA.
  - apply sceb_LA.
  - apply ssceb_LA.
Qed.

Theorem real_LocalAdjoint (o : rop) : LocalAdjoint 0 Rplus Rmult real_family real_jvp tsize o.
Proof. apply (desc_family_LA 0 Rplus Rmult). apply describeR_LA. Qed.

Notation VOR := (vec_ops (R := R) 0 1 Rplus tsize).

(* Graph::backward over the enlarged real family adds the adjoint of the forward tangent *)
Theorem C01_backward_is_adjoint_real
  (tan : nat * nat -> @OpFamily.vec R) (dp : nat -> @OpFamily.vec R)
  (ops0 : list (@opinfo rop tshape (@OpFamily.vec R))) (e0 : @env (@OpFamily.vec R)) (ps : list nat) :
  wf_ops ops0 -> shape_ok real_family ops0 -> consistent real_family real_jvp tan dp ops0 e0 ->
  rsized real_family tsize tan ops0 e0 -> NoDup ps ->
  (forall k oi p, nth_error ops0 k = Some oi -> f_inner real_family (o_op oi) = Some p -> In p ps) ->
  forall n sn bl ops' e' bl',
    gclean ops0 -> psz real_family tsize ops0 e0 -> get_slot_ops ops0 n = Some sn ->
    sweep real_family VOR (fst n)
      (upd_ops ops0 n (fun s => set_grad s (Some (vones VOR (s_shape s))))) e0 bl = Some (ops', e', bl') ->
    ppot 0 Rplus Rmult dp ps e' = ppot 0 Rplus Rmult dp ps e0 + vsum 0 Rplus (tan n) /\
    gclean ops' /\ e_pval e' = e_pval e0.
Proof.
  intros Hwf Hsh Hc Hr Hnd Hcov n sn bl ops' e' bl' Hcl Hps Hsn Hsw.
  destruct (reverse_sweep_adjoint 0 1 Rplus Rmult Rminus Ropp RthR real_family real_jvp tsize tan dp ops0 e0 ps
              Hwf (fun k oi _ _ => real_LocalAdjoint (o_op oi)) Hsh Hc Hr Hnd Hcov n sn bl ops' e' bl' Hcl Hps Hsn Hsw)
    as (E & A & B).
  split; [|split; [exact A|exact B]]. rewrite E. f_equal.
  destruct (Hr n sn Hsn) as (Hl & _). cbn [vones vec_ops]. rewrite <- Hl.
  apply (dot_ones 0 1 Rplus Rmult Rminus Ropp RthR).
Qed.
