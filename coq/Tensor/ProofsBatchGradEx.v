(* C03, gradient half: a concrete program over Z for the non-vacuity example of
   Props/Properties_C03_gradient.v.  Minibatch size 3.
     x : {2,1} x 3   input, batched            [1 2 | 3 4 | 5 6]
     w : {2,1} x 1   parameter, SHARED         [10 20]          used TWICE
     M : {2,2} x 1   parameter, SHARED         [1 2 3 4] (column-major)
     y = sum_axis0( w * matmul(M, x) + w )     {1,1} x 3
   upstream gradient gy = [1 | 10 | 100]. *)
From Coq Require Import List NArith ZArith Bool Arith Lia Ring.
From PV Require Import Graph.OpFamily Tensor.Kernels Tensor.Index Tensor.KernelProofs Tensor.ProofsBilinear
  Tensor.ProofsBatchSample Tensor.ProofsBatchLaw Tensor.AdjCore Tensor.GraphInst Tensor.ProofsBatchGrad.
Import ListNotations.

Definition bgZth : ring_theory 0%Z 1%Z Z.add Z.mul Z.sub Z.opp eq := Zth.

Definition bg_env : lenv (R := Z) :=
  [ (mkT [2; 1] 3, [1; 2; 3; 4; 5; 6]%Z); (mkT [2; 1] 1, [10; 20]%Z); (mkT [2; 2] 1, [1; 2; 3; 4]%Z) ].
Definition bg_prog : dexpr (R := Z) :=
  DUn (USum 0) (DBin BAdd (DBin BMul (DLeaf 1) (DBin BMatmul (DLeaf 2) (DLeaf 0))) (DLeaf 1)).
Definition bg_gy : list Z := [1; 10; 100]%Z.

Definition bg_erase := erase 0%Z Z.add Z.mul Z.sub Z.opp.
Definition bg_grad := grad 0%Z Z.add Z.mul Z.sub Z.opp.
Definition bg_eval (env : lenv) (e : dexpr) := xeval Z 0%Z Z.add Z.mul (bg_erase env e).

(* the hypotheses of grad_shared_is_sum / grad_batched_is_sample hold for it *)
Lemma bg_hyps :
  env_ok 3 bg_env /\ dwf 0%Z Z.add Z.mul Z.sub Z.opp 3 bg_env bg_prog /\
  bg_eval bg_env bg_prog = (mkT [1; 1] 3, [300; 620; 940]%Z) /\
  length bg_gy = tsize (fst (bg_eval bg_env bg_prog)).
Proof.
  split; [|split; [|split; [vm_compute; reflexivity|reflexivity]]].
  - unfold env_ok, bg_env. repeat (constructor; [unfold good, twf; cbn [fst snd tdims tbatch]; split; [split; [repeat constructor|lia]|split; [lia|reflexivity]]|]). constructor.
  - cbn [bg_prog dwf]. repeat split; try (cbn [bg_env length]; lia); vm_compute; reflexivity.
Qed.

(* batched run / the three per-sample runs, computed by the kernels' index programs *)
Lemma bg_values :
  bg_grad bg_env bg_prog bg_gy
  = [[50; 110; 500; 1100; 5000; 11000]; [2568; 3741]; [5310; 10620; 6420; 12840]]%Z /\
  map (fun b => bg_grad (env_s b bg_env) (dsample b bg_prog) (block b 1 bg_gy)) [0; 1; 2]
  = [[[50; 110]; [8; 11]; [10; 20; 20; 40]];
     [[500; 1100]; [160; 230]; [300; 600; 400; 800]];
     [[5000; 11000]; [2400; 3500]; [5000; 10000; 6000; 12000]]]%Z /\
  vsum 0%Z Z.add [[8; 11]; [160; 230]; [2400; 3500]]%Z 2 = [2568; 3741]%Z /\
  vsum 0%Z Z.add [[10; 20; 20; 40]; [300; 600; 400; 800]; [5000; 10000; 6000; 12000]]%Z 4 = [5310; 10620; 6420; 12840]%Z /\
  map (fun b => bg_eval (env_s b bg_env) (dsample b bg_prog)) [0; 1; 2]
  = [(mkT [1; 1] 1, [300]%Z); (mkT [1; 1] 1, [620]%Z); (mkT [1; 1] 1, [940]%Z)].
Proof. vm_compute. repeat split. Qed.

(* the theorem applied: the gradient of the shared w (leaf 1, used twice) and of the shared M (leaf 2) *)
Lemma bg_applied k : k = 1 \/ k = 2 ->
  nth k (bg_grad bg_env bg_prog bg_gy) []
  = vsum 0%Z Z.add (map (fun b => nth k (bg_grad (env_s b bg_env) (dsample b bg_prog) (block b 1 bg_gy)) []) (range 3))
         (tsize (fst (nth k bg_env (dleaf 0%Z)))).
Proof.
  intro Hk. destruct bg_hyps as (He & Hw & Hv & Hg).
  apply (grad_shared_is_sum 0%Z 1%Z Z.add Z.mul Z.sub Z.opp bgZth 3 bg_env bg_prog bg_gy k); try assumption; try lia.
  - destruct Hk as [-> | ->]; cbn [bg_env length]; lia.
  - destruct Hk as [-> | ->]; reflexivity.
Qed.

(* a second program over the same environment, with the n-ary concat, slice and a constant factor:
     y = sum_axis0( slice_{axis 0, [1,3)}( concat([w, x * w, 3 * w], 0) ) ) = w[1] + x[0] * w[0] *)
Definition bg_prog2 : dexpr (R := Z) :=
  DUn (USum 0) (DUn (USlice 0 1 2) (DConcat 0 [DLeaf 1; DBin BMul (DLeaf 0) (DLeaf 1); DUn (UMulC 3%Z) (DLeaf 1)])).

Lemma bg2_hyps :
  dwf 0%Z Z.add Z.mul Z.sub Z.opp 3 bg_env bg_prog2 /\
  bg_eval bg_env bg_prog2 = (mkT [1; 1] 3, [30; 50; 70]%Z).
Proof.
  split; [|vm_compute; reflexivity].
  cbn [bg_prog2 dwf fold_right]. repeat split; try (cbn [bg_env length]; lia); try (vm_compute; lia); try discriminate.
  vm_compute. repeat (constructor; [repeat split; auto|]). constructor.
Qed.

Lemma bg2_values :
  bg_grad bg_env bg_prog2 bg_gy = [[10; 0; 100; 0; 1000; 0]; [531; 111]; [0; 0; 0; 0]]%Z /\
  map (fun b => bg_grad (env_s b bg_env) (dsample b bg_prog2) (block b 1 bg_gy)) [0; 1; 2]
  = [[[10; 0]; [1; 1]; [0; 0; 0; 0]]; [[100; 0]; [30; 10]; [0; 0; 0; 0]]; [[1000; 0]; [500; 100]; [0; 0; 0; 0]]]%Z /\
  vsum 0%Z Z.add [[1; 1]; [30; 10]; [500; 100]]%Z 2 = [531; 111]%Z.
Proof. vm_compute. repeat split. Qed.

Lemma bg2_applied :
  nth 1 (bg_grad bg_env bg_prog2 bg_gy) []
  = vsum 0%Z Z.add (map (fun b => nth 1 (bg_grad (env_s b bg_env) (dsample b bg_prog2) (block b 1 bg_gy)) []) (range 3)) 2.
Proof.
  destruct bg_hyps as (He & _). destruct bg2_hyps as (Hw & Hv).
  apply (grad_shared_is_sum 0%Z 1%Z Z.add Z.mul Z.sub Z.opp bgZth 3 bg_env bg_prog2 bg_gy 1); try assumption; try lia.
  - unfold bg_eval, bg_erase in Hv. rewrite Hv. reflexivity.
  - unfold bg_eval, bg_erase in Hv. rewrite Hv. reflexivity.
  - cbn [bg_env length]. lia.
  - reflexivity.
Qed.
