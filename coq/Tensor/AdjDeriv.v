(* C01 over the reals, analytic side: the tangent (jvp) of every operator descriptor of the
   real family IS the derivative of its forward value.
     cderiv c d      the curve c : R -> vector has, component by component, the derivative d at t = 0
     desc_deriv D dom   for operand curves xs with derivatives dxs at 0 and dom (xs 0):
                        t |-> d_fw D (xs t) has the derivative d_jvp D (xs 0) dxs at 0
   One lemma per descriptor kind (linear data movement / accumulation, elementwise, bilinear
   triples, multi-output, multi-operand), then the per-operator corollaries jvp_is_derivative_*
   with the smooth-domain hypotheses of Scalar/Deriv.v, Scalar/Pown.v. *)
From Coq Require Import List NArith ZArith Bool Arith Lia Ring Reals RealField Lra.
From Coquelicot Require Import Coquelicot.
From PV Require Import Graph.OpFamily Tensor.Kernels Tensor.Index Tensor.KernelProofs Tensor.ProofsGather
  Tensor.ProofsPerm Tensor.ProofsBilinear Scalar.ScalarBase Gen.ScalarGen Scalar.Deriv Scalar.Pown
  Tensor.AdjCore Tensor.AdjMatmul Tensor.AdjScalar Tensor.GraphInst Tensor.AdjMax Tensor.AdjSoftmax Tensor.AdjSoftmaxB Tensor.AdjScalarR Tensor.GraphInstR.
Import ListNotations.
Local Open Scope R_scope.

Notation zerosR := (repeat 0).

Definition cderiv (c : R -> list R) (d : list R) : Prop :=
  forall i, is_derive (fun t => nth i (c t) 0) 0 (nth i d 0).

Lemma nth_nil_R i : nth i (@nil R) 0 = 0.  Proof. destruct i; reflexivity. Qed.
Lemma nth_nil_l {A} i : nth i (@nil (list A)) [] = [].  Proof. destruct i; reflexivity. Qed.
Lemma hd_nth0 {A} (d : A) l : hd d l = nth 0 l d.  Proof. destruct l; reflexivity. Qed.

Lemma nth_map_lt {A B} (h : A -> B) (l : list A) i d d' : (i < length l)%nat -> nth i (map h l) d = h (nth i l d').
Proof. intro Hi. rewrite (nth_indep (map h l) d (h d')) by (rewrite map_length; exact Hi). apply map_nth. Qed.

Lemma cderiv_const v d : (forall i, nth i d 0 = 0) -> cderiv (fun _ => v) d.
Proof. intros H i. rewrite H. apply (is_derive_const (nth i v 0) 0). Qed.
Lemma cderiv_nil : cderiv (fun _ => []) [].
Proof. apply cderiv_const. intro i. apply nth_nil_R. Qed.
Lemma cderiv_ext c c' d : (forall t, c t = c' t) -> cderiv c d -> cderiv c' d.
Proof. intros E H i. apply (is_derive_ext (fun t => nth i (c t) 0)); [intro t; rewrite E; reflexivity|apply H]. Qed.
Lemma nth_zeros n i : nth i (zerosR n) 0 = 0.
Proof. revert i. induction n as [|n IH]; intros [|i]; cbn [repeat nth]; auto. Qed.

(* the r-th result of a one-result operator *)
Lemma cderiv_single (c : R -> list R) d r : cderiv c d -> cderiv (fun t => nth r [c t] []) (nth r [d] []).
Proof.
  intro H. destruct r as [|r]; [exact H|].
  replace (nth (S r) [d] []) with (@nil R) by (destruct r; reflexivity).
  apply (cderiv_ext (fun _ => [])); [intro t; destruct r; reflexivity|apply cderiv_nil].
Qed.

Definition desc_deriv (D : @opdesc R) (dom : list (list R) -> Prop) : Prop :=
  forall (xs : R -> list (list R)) (dxs : list (list R)),
    (forall k, cderiv (fun t => nth k (xs t) []) (nth k dxs [])) -> d_ok D = true -> dom (xs 0) ->
    forall r, cderiv (fun t => nth r (d_fw D (xs t)) []) (nth r (d_jvp D (xs 0) dxs) []).

(* ------------------------------------------------------------------ increments into zeros *)
Lemma fold_plus_deriv {A} (g : A -> R -> R) (g' : A -> R) (l : list A) : (forall e, In e l -> is_derive (g e) 0 (g' e)) ->
  forall (u : R -> R) u', is_derive u 0 u' ->
  is_derive (fun t => fold_left Rplus (map (fun e => g e t) l) (u t)) 0 (fold_left Rplus (map g' l) u').
Proof.
  induction l as [|e l IH]; intros Hg u u' Hu; cbn [map fold_left]; [exact Hu|].
  apply (IH (fun e' He' => Hg e' (or_intror He')) (fun t => u t + g e t) (u' + g' e)).
  apply (is_derive_plus (K := R_AbsRing) (V := R_NormedModule) u (g e) 0 u' (g' e) Hu). apply Hg. left. reflexivity.
Qed.

Lemma incr_curve_deriv {A} (q : list A) (dst : A -> nat) (g : A -> R -> R) (g' : A -> R) n :
  (forall e, In e q -> (dst e < n)%nat) -> (forall e, In e q -> is_derive (g e) 0 (g' e)) ->
  cderiv (fun t => incr_run R 0 Rplus (map (fun e => (dst e, g e t)) q) (zerosR n))
         (incr_run R 0 Rplus (map (fun e => (dst e, g' e)) q) (zerosR n)).
Proof.
  intros Hb Hg j.
  assert (Hbt : forall (h : A -> R), List.Forall (fun e : nat * R => (fst e < length (zerosR n))%nat) (map (fun e => (dst e, h e)) q)).
  { intro h. rewrite Forall_map. cbn [fst]. rewrite repeat_length. apply Forall_forall. exact Hb. }
  apply (is_derive_ext (fun t => fold_left Rplus (map (fun e => g e t) (filter (fun e => dst e =? j)%nat q)) 0)).
  - intro t. rewrite (nth_incr_run R 0 Rplus _ _ j (Hbt (fun e => g e t))). unfold cell. rewrite nth_zeros.
    rewrite (filter_map_comm (fun e : nat * R => (fst e =? j)%nat) (fun e => (dst e, g e t)) q). rewrite map_map. reflexivity.
  - rewrite (nth_incr_run R 0 Rplus _ _ j (Hbt g')). unfold cell. rewrite nth_zeros.
    rewrite (filter_map_comm (fun e : nat * R => (fst e =? j)%nat) (fun e => (dst e, g' e)) q). rewrite map_map. cbn [snd fst].
    apply (fold_plus_deriv g g'); [|apply (is_derive_const 0 0)].
    intros e He. apply Hg. apply filter_In in He. tauto.
Qed.

(* ------------------------------------------------------------------ linear maps *)
Definition lin_deriv (L : list R -> list R) : Prop :=
  forall (x : R -> list R) dx, cderiv x dx -> cderiv (fun t => L (x t)) (L dx).

Lemma gather_lin_deriv fw n : lin_deriv (gather R 0 fw n).
Proof.
  intros x dx Hx i. unfold gather. destruct (lt_dec i n) as [Hi|Hi].
  - apply (is_derive_ext (fun t => lookup R 0 fw (x t) i)).
    + intro t. rewrite (nth_indep _ 0 (lookup R 0 fw (x t) 0)) by (rewrite map_length, seq_length; exact Hi).
      rewrite map_nth, seq_nth by exact Hi. reflexivity.
    + rewrite (nth_indep _ 0 (lookup R 0 fw dx 0)) by (rewrite map_length, seq_length; exact Hi).
      rewrite map_nth, seq_nth by exact Hi. cbn [Nat.add]. unfold lookup.
      destruct (find (fun e => (fst e =? i)%nat) fw) as [e|]; [apply Hx|apply (is_derive_const 0 0)].
  - rewrite (nth_overflow (map _ _)) by (rewrite map_length, seq_length; lia).
    apply (is_derive_ext (fun _ => 0)); [|apply (is_derive_const 0 0)].
    intro t. rewrite nth_overflow by (rewrite map_length, seq_length; lia). reflexivity.
Qed.
Lemma scatter_lin_deriv q n : (forall e, In e q -> (fst e < n)%nat) -> lin_deriv (fun x => scatter R 0 Rplus q x (zerosR n)).
Proof.
  intros Hb x dx Hx.
  apply (cderiv_ext (fun t => incr_run R 0 Rplus (map (fun e : nat * nat => (fst e, nth (snd e) (x t) 0)) q) (zerosR n))).
  { intro t. symmetry. apply scatter_incr. }
  rewrite scatter_incr. apply (incr_curve_deriv q fst (fun e t => nth (snd e) (x t) 0) (fun e => nth (snd e) dx 0) n Hb).
  intros e _. apply Hx.
Qed.
Lemma map_lin_deriv (f : R -> R) (c : R) : (forall u u', is_derive u 0 u' -> is_derive (fun t => f (u t)) 0 (f u')) -> f 0 = 0 ->
  forall n, lin_deriv (un_eval R 0 f n).
Proof.
  intros Hf H0 n x dx Hx i. destruct (lt_dec i n) as [Hi|Hi].
  - rewrite (un_eval_nth 0 f n dx i Hi).
    apply (is_derive_ext (fun t => f (nth i (x t) 0))); [intro t; symmetry; apply (un_eval_nth 0 f n (x t) i Hi)|].
    apply Hf. apply Hx.
  - assert (Hl : forall v, length (un_eval R 0 f n v) = n) by (intro v; unfold un_eval, identity_pairs, range; rewrite !map_length, seq_length; reflexivity).
    rewrite nth_overflow by (rewrite Hl; lia). apply (is_derive_ext (fun _ => 0)); [|apply (is_derive_const 0 0)].
    intro t. rewrite nth_overflow by (rewrite Hl; lia). reflexivity.
Qed.

Lemma unary_lin_deriv sx sy ok L Ls : (ok = true -> lin_deriv L) -> desc_deriv (unary_lin sx sy ok L Ls) (fun _ => True).
Proof.
  intros HL xs dxs Hx Hok _ r. cbn [unary_lin d_fw d_jvp d_ok] in *. apply cderiv_single. rewrite hd_nth0.
  apply (cderiv_ext (fun t => L (nth 0 (xs t) []))); [intro t; rewrite hd_nth0; reflexivity|]. apply (HL Hok). apply Hx.
Qed.
Lemma desc_deriv_weaken D (dom dom' : list (list R) -> Prop) : desc_deriv D dom -> (forall xs, dom' xs -> dom xs) -> desc_deriv D dom'.
Proof. intros H Hw xs dxs Hx Hok Hd. apply (H xs dxs Hx Hok). apply Hw. exact Hd. Qed.

(* ------------------------------------------------------------------ elementwise *)
Lemma nth_map_idp {B} (h : nat * (nat * nat) -> B) n i d : (i < n)%nat -> nth i (map h (identity_pairs n)) d = h (i, (0%nat, i)).
Proof.
  intro Hi. unfold identity_pairs, range. rewrite map_map.
  rewrite (nth_indep _ d (h (0%nat, (0%nat, 0%nat)))) by (rewrite map_length, seq_length; exact Hi).
  rewrite (map_nth (fun j => h (j, (0%nat, j)))), seq_nth by exact Hi. reflexivity.
Qed.

(* unary elementwise with the slope read off the backward formula *)
Lemma uny_deriv s f bw (dom : R -> Prop) : (forall x, dom x -> is_derive f x (bw x (f x) 1)) ->
  desc_deriv (uny_desc 0 1 Rplus Rmult s f bw) (fun xs => forall i, (i < tsize s)%nat -> dom (nth i (nth 0 xs []) 0)).
Proof.
  intros Hd xs dxs Hx _ Hdom r. cbn [uny_desc d_fw d_jvp]. apply cderiv_single. rewrite !hd_nth0. intro i.
  set (n := tsize s). destruct (lt_dec i n) as [Hi|Hi].
  - rewrite (nth_map_idp _ n i 0 Hi). cbn [snd].
    apply (is_derive_ext (fun t => f (nth i (nth 0 (xs t) []) 0))).
    { intro t. rewrite hd_nth0. symmetry. apply (un_eval_nth 0 f n _ i Hi). }
    apply (is_derive_comp f (fun t => nth i (nth 0 (xs t) []) 0) 0 _ _ (Hd _ (Hdom i Hi)) (Hx 0%nat i)).
  - rewrite nth_overflow by (unfold identity_pairs, range; rewrite !map_length, seq_length; fold n; lia).
    apply (is_derive_ext (fun _ => 0)); [|apply (is_derive_const 0 0)].
    intro t. rewrite nth_overflow; [reflexivity|]. unfold un_eval, identity_pairs, range. rewrite !map_length, seq_length. fold n. lia.
Qed.
(* the constant operators of the ring family *)
Lemma un_deriv s f c g : (forall u u', is_derive u 0 u' -> is_derive (fun t => f (u t)) 0 (c u')) -> c 0 = 0 ->
  desc_deriv (un_desc 0 Rplus s f c g) (fun _ => True).
Proof.
  intros Hf H0 xs dxs Hx _ _ r. cbn [un_desc d_fw d_jvp]. apply cderiv_single. rewrite !hd_nth0. intro i.
  set (n := tsize s). destruct (lt_dec i n) as [Hi|Hi].
  - rewrite (un_eval_nth 0 c n _ i Hi).
    apply (is_derive_ext (fun t => f (nth i (nth 0 (xs t) []) 0))).
    { intro t. rewrite hd_nth0. symmetry. apply (un_eval_nth 0 f n _ i Hi). }
    apply Hf. apply (Hx 0%nat i).
  - assert (Hl : forall h v, length (un_eval R 0 h n v) = n) by (intros h v; unfold un_eval, identity_pairs, range; rewrite !map_length, seq_length; reflexivity).
    rewrite nth_overflow by (rewrite Hl; lia). apply (is_derive_ext (fun _ => 0)); [|apply (is_derive_const 0 0)].
    intro t. rewrite nth_overflow by (rewrite Hl; lia). reflexivity.
Qed.

(* binary elementwise over an index program p: y[d] = f(a[ia], b[ib]) *)
Definition chain2 (f : R -> R -> R) (j : R -> R -> R -> R -> R) (dom2 : R -> R -> Prop) : Prop :=
  forall (u v : R -> R) (du dv : R), is_derive u 0 du -> is_derive v 0 dv -> dom2 (u 0) (v 0) ->
    is_derive (fun t => f (u t) (v t)) 0 (j (u 0) (v 0) du dv).
Lemma ab_map_deriv (p : list (nat * (nat * nat))) f j dom2 (a b : R -> list R) da db :
  chain2 f j dom2 -> cderiv a da -> cderiv b db ->
  (forall e, In e p -> dom2 (nth (fst (snd e)) (a 0) 0) (nth (snd (snd e)) (b 0) 0)) ->
  cderiv (fun t => ab_eval R 0 f p (a t) (b t))
         (map (fun e => j (nth (fst (snd e)) (a 0) 0) (nth (snd (snd e)) (b 0) 0) (nth (fst (snd e)) da 0) (nth (snd (snd e)) db 0)) p).
Proof.
  intros Hc Ha Hb Hdom i. unfold ab_eval. destruct (lt_dec i (length p)) as [Hi|Hi].
  - set (e := nth i p (0%nat, (0%nat, 0%nat))).
    assert (Hin : In e p) by (apply nth_In; exact Hi).
    apply (is_derive_ext (fun t => f (nth (fst (snd e)) (a t) 0) (nth (snd (snd e)) (b t) 0))).
    + intro t. rewrite (nth_map_lt _ p i 0 (0%nat, (0%nat, 0%nat)) Hi). reflexivity.
    + rewrite (nth_map_lt _ p i 0 (0%nat, (0%nat, 0%nat)) Hi). fold e.
      apply (Hc (fun t => nth (fst (snd e)) (a t) 0) (fun t => nth (snd (snd e)) (b t) 0)); [apply Ha|apply Hb|apply Hdom; exact Hin].
  - rewrite nth_overflow by (rewrite map_length; lia). apply (is_derive_ext (fun _ => 0)); [|apply (is_derive_const 0 0)].
    intro t. rewrite nth_overflow by (rewrite map_length; lia). reflexivity.
Qed.
Definition ew_dom (sa sb : tshape) (dom2 : R -> R -> Prop) (xs : list (list R)) : Prop :=
  forall e, In e (ab_fw sa sb (ew_shape sa sb)) -> dom2 (nth (fst (snd e)) (nth 0 xs []) 0) (nth (snd (snd e)) (nth 1 xs []) 0).
Lemma ew_deriv sa sb f j ia ib dom2 : chain2 f j dom2 -> desc_deriv (ew_desc 0 Rplus sa sb f j ia ib) (ew_dom sa sb dom2).
Proof.
  intros Hc xs dxs Hx _ Hdom r. cbn [ew_desc d_fw d_jvp]. apply cderiv_single.
  apply (ab_map_deriv _ f j dom2 (fun t => nth 0 (xs t) []) (fun t => nth 1 (xs t) []) (nth 0 dxs []) (nth 1 dxs []) Hc (Hx 0%nat) (Hx 1%nat) Hdom).
Qed.
Lemma ewy_deriv sa sb f j ia ib dom2 : chain2 f j dom2 -> desc_deriv (ewy_desc 0 Rplus sa sb f j ia ib) (ew_dom sa sb dom2).
Proof.
  intros Hc xs dxs Hx _ Hdom r. cbn [ewy_desc d_fw d_jvp]. apply cderiv_single.
  apply (ab_map_deriv _ f j dom2 (fun t => nth 0 (xs t) []) (fun t => nth 1 (xs t) []) (nth 0 dxs []) (nth 1 dxs []) Hc (Hx 0%nat) (Hx 1%nat) Hdom).
Qed.

(* the two-variable chain rules *)
Lemma chain2_add : chain2 Rplus (fun _ _ da db => da + db) (fun _ _ => True).
Proof. intros u v du dv Hu Hv _. apply (is_derive_plus (K := R_AbsRing) (V := R_NormedModule) u v 0 du dv Hu Hv). Qed.
Lemma chain2_sub : chain2 Rminus (fun _ _ da db => da - db) (fun _ _ => True).
Proof. intros u v du dv Hu Hv _. apply (is_derive_minus (K := R_AbsRing) (V := R_NormedModule) u v 0 du dv Hu Hv). Qed.
Lemma chain2_mul : chain2 Rmult (fun a b da db => da * b + a * db) (fun _ _ => True).
Proof. intros u v du dv Hu Hv _. apply (is_derive_mult u v 0 du dv Hu Hv). intros; apply Rmult_comm. Qed.
Lemma is_derive_eq (f : R -> R) (x l l' : R) : l = l' -> is_derive f x l -> is_derive f x l'.
Proof. intros ->. auto. Qed.
Lemma chain2_div : chain2 fw_divide (b_jvp BDivide) (fun _ b => b <> 0).
Proof.
  intros u v du dv Hu Hv Hn. unfold fw_divide.
  apply (is_derive_eq _ _ ((du * v 0 - u 0 * dv) / (v 0 ^ 2))); [|apply (is_derive_div u v 0 du dv Hu Hv Hn)].
  unfold b_jvp, b_bw_a, b_bw_b, b_fw, bw_divide_a, bw_divide_b, fw_divide. field. exact Hn.
Qed.
Lemma chain2_pow : chain2 fw_pow (b_jvp BPow) (fun a _ => 0 < a).
Proof.
  intros u v du dv Hu Hv Hp. unfold fw_pow, Rpower.
  assert (Hl : is_derive (fun t => ln (u t)) 0 (du * / u 0)).
  { apply (is_derive_comp ln u 0 (/ u 0) du); [apply is_derive_ln; exact Hp|exact Hu]. }
  assert (Hw : is_derive (fun t => v t * ln (u t)) 0 (dv * ln (u 0) + v 0 * (du * / u 0))).
  { apply (is_derive_mult v (fun t => ln (u t)) 0 dv (du * / u 0) Hv Hl). intros; apply Rmult_comm. }
  pose proof (is_derive_comp exp (fun t => v t * ln (u t)) 0 _ _ (is_derive_exp _) Hw) as He.
  refine (is_derive_eq _ _ _ _ _ He). unfold scal. cbn. unfold mult. cbn.
  unfold b_jvp, b_bw_a, b_bw_b, b_fw, bw_pow_a, bw_pow_b, fw_pow, Rpower. field. lra.
Qed.

Lemma chain2_subl : chain2 (fun x k => k - x) (fun _ _ dx dk => dk - dx) (fun _ _ => True).
Proof. intros u v du dv Hu Hv _. apply (is_derive_minus (K := R_AbsRing) (V := R_NormedModule) v u 0 dv du Hv Hu). Qed.
Lemma sclin_deriv sx sk f j bwx bwk : chain2 f j (fun _ _ => True) ->
  (forall a b da db, f da db = j a b da db) ->
  desc_deriv (sclin_desc 0 sx sk f bwx bwk) (fun _ => True).
Proof.
  intros Hc Hj xs dxs Hx _ _ r. cbn [sclin_desc d_fw d_jvp]. apply cderiv_single.
  pose proof (ab_map_deriv (scalar_fw sx sk (sc_shape sx sk)) f j (fun _ _ => True)
                (fun t => nth 0 (xs t) []) (fun t => nth 1 (xs t) []) (nth 0 dxs []) (nth 1 dxs []) Hc (Hx 0%nat) (Hx 1%nat) (fun _ _ => I)) as H.
  intro i. specialize (H i). unfold ab_eval in *.
  erewrite (map_ext (fun e : nat * (nat * nat) => f (nth (fst (snd e)) (nth 0 dxs []) 0) (nth (snd (snd e)) (nth 1 dxs []) 0))); [exact H|].
  intro e. apply Hj.
Qed.
Lemma mulsc_deriv sx sk : desc_deriv (mulsc_desc 0 Rplus Rmult sx sk) (fun _ => True).
Proof.
  intros xs dxs Hx _ _ r. cbn [mulsc_desc d_fw d_jvp]. apply cderiv_single.
  apply (ab_map_deriv (scalar_fw sx sk (sc_shape sx sk)) Rmult (fun a b da db => da * b + a * db) (fun _ _ => True)
           (fun t => nth 0 (xs t) []) (fun t => nth 1 (xs t) []) (nth 0 dxs []) (nth 1 dxs []) chain2_mul (Hx 0%nat) (Hx 1%nat) (fun _ _ => I)).
Qed.

(* ---- the Divide / Pow ...Scalar operators ---- *)
Lemma chain2_eq f j j' (dom2 : R -> R -> Prop) : chain2 f j dom2 -> (forall a b da db, dom2 a b -> j a b da db = j' a b da db) -> chain2 f j' dom2.
Proof. intros H E u v du dv Hu Hv Hd. rewrite <- (E _ _ _ _ Hd). apply H; assumption. Qed.
Lemma chain2_swap f j (dom2 : R -> R -> Prop) : chain2 f j dom2 ->
  chain2 (fun a b => f b a) (fun a b da db => j b a db da) (fun a b => dom2 b a).
Proof. intros H u v du dv Hu Hv Hd. apply (H v u dv du Hv Hu Hd). Qed.
Definition scy_j (f : R -> R -> R) (n1 n2 : bool) (D1 D2 : R -> R -> R -> R) (a b da db : R) : R :=
  da * sgn n1 (D1 a b (f a b)) + db * sgn n2 (D2 a b (f a b)).
Definition scy_dom (sx sk : tshape) (dom2 : R -> R -> Prop) (xs : list (list R)) : Prop :=
  forall e, In e (scalar_fw sx sk (sc_shape sx sk)) -> dom2 (nth (fst (snd e)) (nth 0 xs []) 0) (nth (snd (snd e)) (nth 1 xs []) 0).
Lemma scy_deriv sx sk f n1 n2 D1 D2 bw dom2 : chain2 f (scy_j f n1 n2 D1 D2) dom2 ->
  desc_deriv (scy_desc sx sk f n1 n2 D1 D2 bw) (scy_dom sx sk dom2).
Proof.
  intros Hc xs dxs Hx _ Hdom r. cbn [scy_desc d_fw d_jvp]. apply cderiv_single.
  apply (ab_map_deriv (scalar_fw sx sk (sc_shape sx sk)) f (scy_j f n1 n2 D1 D2) dom2
           (fun t => nth 0 (xs t) []) (fun t => nth 1 (xs t) []) (nth 0 dxs []) (nth 1 dxs []) Hc (Hx 0%nat) (Hx 1%nat) Hdom).
Qed.
Lemma chain2_divscr : chain2 fw_divide_scalar_r (scy_j fw_divide_scalar_r false true (fun x k y => / k) (fun x k y => / k * y)) (fun _ k => k <> 0).
Proof.
  apply (chain2_eq _ _ _ _ chain2_div). intros a b da db Hb.
  unfold scy_j, sgn, b_jvp, b_bw_a, b_bw_b, b_fw, bw_divide_a, bw_divide_b, fw_divide, fw_divide_scalar_r. field. exact Hb.
Qed.
Lemma chain2_divscl : chain2 fw_divide_scalar_l (scy_j fw_divide_scalar_l true false (fun x k y => / x * y) (fun x k y => / x)) (fun x _ => x <> 0).
Proof.
  apply (chain2_eq _ _ _ _ (chain2_swap _ _ _ chain2_div)). intros a b da db Hb.
  unfold scy_j, sgn, b_jvp, b_bw_a, b_bw_b, b_fw, bw_divide_a, bw_divide_b, fw_divide, fw_divide_scalar_l. field. exact Hb.
Qed.
Lemma chain2_powscr : chain2 fw_pow_scalar_r (scy_j fw_pow_scalar_r false false (fun x k y => y * k / x) (fun x k y => y * ln x)) (fun x _ => 0 < x).
Proof.
  apply (chain2_eq _ _ _ _ chain2_pow). intros a b da db Hb.
  unfold scy_j, sgn, b_jvp, b_bw_a, b_bw_b, b_fw, bw_pow_a, bw_pow_b, fw_pow, fw_pow_scalar_r. field. lra.
Qed.
Lemma chain2_powscl : chain2 fw_pow_scalar_l (scy_j fw_pow_scalar_l false false (fun x k y => y * ln k) (fun x k y => y * x / k)) (fun _ k => 0 < k).
Proof.
  apply (chain2_eq _ _ _ _ (chain2_swap _ _ _ chain2_pow)). intros a b da db Hb.
  unfold scy_j, sgn, b_jvp, b_bw_a, b_bw_b, b_fw, bw_pow_a, bw_pow_b, fw_pow, fw_pow_scalar_l. field. lra.
Qed.

(* ------------------------------------------------------------------ bilinear triples *)
Lemma trip_deriv (p : list (nat * (nat * nat))) n (a b : R -> list R) da db :
  (forall e, In e p -> (fst e < n)%nat) -> cderiv a da -> cderiv b db ->
  cderiv (fun t => incr_run R 0 Rplus (trip_fw R 0 Rmult p (a t) (b t)) (zerosR n))
         (incr_run R 0 Rplus (trip_dfw R 0 Rplus Rmult p (a 0) (b 0) da db) (zerosR n)).
Proof.
  intros Hb Ha Hbb. unfold trip_fw, trip_dfw.
  apply (incr_curve_deriv p fst (fun e t => nth (fst (snd e)) (a t) 0 * nth (snd (snd e)) (b t) 0)
           (fun e => nth (fst (snd e)) da 0 * nth (snd (snd e)) (b 0) 0 + nth (fst (snd e)) (a 0) 0 * nth (snd (snd e)) db 0) n Hb).
  intros e _. apply (is_derive_mult (fun t => nth (fst (snd e)) (a t) 0) (fun t => nth (snd (snd e)) (b t) 0) 0 _ _ (Ha _) (Hbb _)).
  intros; apply Rmult_comm.
Qed.
Lemma bil_deriv sa sb sy ok p :
  (ok = true -> List.Forall (fun e : nat * (nat * nat) => (fst e < tsize sy /\ fst (snd e) < tsize sa /\ snd (snd e) < tsize sb)%nat) p) ->
  desc_deriv (bil_desc 0 Rplus Rmult sa sb sy ok p) (fun _ => True).
Proof.
  intros Hb xs dxs Hx Hok _ r. cbn [bil_desc d_fw d_jvp d_ok] in *. apply cderiv_single.
  apply (trip_deriv p (tsize sy) (fun t => nth 0 (xs t) []) (fun t => nth 1 (xs t) []) _ _); [|apply Hx|apply Hx].
  intros e He. specialize (Hb Hok). rewrite Forall_forall in Hb. apply (Hb e He).
Qed.
Lemma matmul_deriv sa sb sy : desc_deriv (matmul_desc 0 Rplus Rmult sa sb sy) (fun _ => True).
Proof.
  intros xs dxs Hx Hok _ r. cbn [matmul_desc d_fw d_jvp d_ok] in *. apply cderiv_single. unfold matmul_val.
  apply (trip_deriv _ (tsize sy) (fun t => nth 0 (xs t) []) (fun t => nth 1 (xs t) []) _ _); [|apply Hx|apply Hx].
  unfold matmul_ok in Hok. bsplit.
  repeat match goal with H : (_ =? 1)%nat || (_ =? _)%nat = true |- _ => apply orb_eqb in H end.
  intros e He.
  pose proof (matmul_in_bounds sa sb sy _ _ _ _ eq_refl eq_refl eq_refl eq_refl ltac:(eassumption) ltac:(eassumption) ltac:(eassumption) ltac:(eassumption) ltac:(eassumption)) as Hb.
  rewrite Forall_forall in Hb. apply (Hb e He).
Qed.

(* ------------------------------------------------------------------ several results / several operands *)
Lemma fan_deriv sx sy n ok fw bw : desc_deriv (fan_desc 0 Rplus sx sy n ok fw bw) (fun _ => True).
Proof.
  intros xs dxs Hx _ _ r. cbn [fan_desc d_fw d_jvp]. rewrite !hd_nth0.
  destruct (lt_dec r n) as [Hr|Hr].
  - assert (E : forall v, nth r (map (fun i => gather R 0 (fw i) (tsize sy) v) (seq 0 n)) [] = gather R 0 (fw r) (tsize sy) v).
    { intro v. rewrite (nth_map_lt (fun i => gather R 0 (fw i) (tsize sy) v) (seq 0 n) r [] 0%nat) by (rewrite seq_length; exact Hr).
      rewrite seq_nth by exact Hr. reflexivity. }
    rewrite E. apply (cderiv_ext (fun t => gather R 0 (fw r) (tsize sy) (nth 0 (xs t) []))).
    { intro t. rewrite E, hd_nth0. reflexivity. }
    apply gather_lin_deriv. apply Hx.
  - rewrite nth_overflow by (rewrite map_length, seq_length; lia).
    apply (cderiv_ext (fun _ => [])); [|apply cderiv_nil]. intro t. rewrite nth_overflow by (rewrite map_length, seq_length; lia). reflexivity.
Qed.
Lemma nary_deriv xs0 sy ok fw Bk : desc_deriv (nary_desc 0 xs0 sy ok fw Bk) (fun _ => True).
Proof.
  intros xs dxs Hx _ _ r. cbn [nary_desc d_fw d_jvp]. apply cderiv_single. intro i. unfold gatherN.
  set (n := tsize sy). destruct (lt_dec i n) as [Hi|Hi].
  - assert (E : forall vs, nth i (map (lookupN 0 fw vs) (seq 0 n)) 0 = lookupN 0 fw vs i).
    { intro vs. rewrite (nth_map_lt (lookupN 0 fw vs) (seq 0 n) i 0 0%nat) by (rewrite seq_length; exact Hi).
      rewrite seq_nth by exact Hi. reflexivity. }
    rewrite E. apply (is_derive_ext (fun t => lookupN 0 fw (xs t) i)); [intro t; rewrite E; reflexivity|].
    unfold lookupN. destruct (find _ fw) as [e|]; [apply Hx|apply (is_derive_const 0 0)].
  - rewrite nth_overflow by (rewrite map_length, seq_length; lia). apply (is_derive_ext (fun _ => 0)); [|apply (is_derive_const 0 0)].
    intro t. rewrite nth_overflow by (rewrite map_length, seq_length; lia). reflexivity.
Qed.
Lemma leaf_deriv s v ok nop : desc_deriv (leaf_desc 0 s v ok nop) (fun _ => True).
Proof.
  intros xs dxs Hx _ _ r. cbn [leaf_desc d_fw d_jvp]. apply cderiv_single. apply cderiv_const. intro i. apply nth_zeros.
Qed.

(* ------------------------------------------------------------------ max / min along an axis *)
Definition redx_dom (better : R -> R -> bool) (p : red) (xs : list (list R)) : Prop :=
  forall e, In e p -> snd e = [] \/ exists s, In s (snd e) /\
    forall s', In s' (snd e) -> s' <> s -> better (nth s (nth 0 xs []) 0) (nth s' (nth 0 xs []) 0) = true.
Definition ext_dom (better : R -> R -> bool) (sx sy : tshape) (dim : nat) : list (list R) -> Prop :=
  redx_dom better (axis_red sx sy dim).
Definition open_better (better : R -> R -> bool) : Prop :=
  forall (u v : R -> R), continuous u 0 -> continuous v 0 -> better (u 0) (v 0) = true ->
    locally 0 (fun t => better (u t) (v t) = true).

Lemma locally_forall_list {A} (l : list A) (P : A -> R -> Prop) :
  (forall a, In a l -> locally 0 (P a)) -> locally 0 (fun t => forall a, In a l -> P a t).
Proof.
  induction l as [|a l IH]; intro H.
  - apply filter_forall. intros t a [].
  - assert (H1 : locally 0 (P a)) by (apply H; left; reflexivity).
    assert (H2 : locally 0 (fun t => forall a0, In a0 l -> P a0 t)) by (apply IH; intros a0 Ha0; apply H; right; exact Ha0).
    apply (filter_imp (fun t => P a t /\ forall a0, In a0 l -> P a0 t)); [|apply filter_and; assumption].
    intros t [Ha Hl] a0 [<-|Hin]; [exact Ha|apply Hl; exact Hin].
Qed.
Lemma find_first_unique (f : nat -> bool) (l : list nat) (s : nat) :
  In s l -> f s = true -> (forall s', In s' l -> s' <> s -> f s' = false) -> find f l = Some s.
Proof.
  induction l as [|a l IH]; intros Hin Hs Ho; [destruct Hin|]. cbn [find].
  destruct (f a) eqn:Ea.
  - destruct Hin as [->|Hin]; [reflexivity|]. f_equal.
    destruct (Nat.eq_dec a s) as [E|N]; [exact E|]. rewrite (Ho a (or_introl eq_refl) N) in Ea. discriminate.
  - destruct Hin as [->|Hin]; [congruence|]. apply IH; [exact Hin|exact Hs|]. intros s' Hs' N. apply Ho; [right; exact Hs'|exact N].
Qed.

Lemma redx_deriv better dflt sx sy ok p :
  (forall a b, better a b = true -> better b a = false) -> (forall a, better a a = false) -> open_better better ->
  desc_deriv (redx_desc better dflt sx sy ok p) (redx_dom better p).
Proof.
  intros Hasym Hirr Hopen xs dxs Hx _ Hdom r. cbn [redx_desc d_fw d_jvp]. apply cderiv_single. rewrite !hd_nth0. intro i.
  destruct (lt_dec i (length p)) as [Hi|Hi].
  - set (e := nth i p (0%nat, [])). assert (He : In e p) by (apply nth_In; exact Hi).
    rewrite (nth_map_lt _ p i 0 (0%nat, []) Hi). fold e.
    destruct (Hdom e He) as [Hemp|(s & Hs & Hbest)].
    { (* no candidate: the stored value is the constant dflt, nothing is routed *)
      rewrite Hemp. cbn [first_eq find].
      apply (is_derive_ext (fun _ => dflt)); [|apply (is_derive_const dflt 0)].
      intro t. rewrite (nth_map_lt _ p i 0 (0%nat, []) Hi). fold e. rewrite Hemp. reflexivity. }
    set (g := snd e) in *.
    set (x := fun t => nth 0 (xs t) []).
    assert (Hcont : forall s0, continuous (fun t => nth s0 (x t) 0) 0).
    { intro s0. apply (ex_derive_continuous (fun t => nth s0 (x t) 0) 0). exists (nth s0 (nth 0 dxs []) 0). apply (Hx 0%nat s0). }
    assert (Hloc : locally 0 (fun t => forall s', In s' g -> s' <> s -> better (nth s (x t) 0) (nth s' (x t) 0) = true)).
    { apply (locally_forall_list g (fun s' t => s' <> s -> better (nth s (x t) 0) (nth s' (x t) 0) = true)).
      intros s' Hs'. destruct (Nat.eq_dec s' s) as [E|N].
      - apply filter_forall. intros t Hn. contradiction.
      - apply (filter_imp (fun t => better (nth s (x t) 0) (nth s' (x t) 0) = true)); [intros t Ht _; exact Ht|].
        apply (Hopen (fun t => nth s (x t) 0) (fun t => nth s' (x t) 0) (Hcont s) (Hcont s')). apply Hbest; assumption. }
    assert (Hscan : forall t, (forall s', In s' g -> s' <> s -> better (nth s (x t) 0) (nth s' (x t) 0) = true) ->
                       scan better dflt (gvals (x t) g) = nth s (x t) 0).
    { intros t Ht. apply (scan_unique better dflt Hasym Hirr).
      - unfold gvals. apply (in_map (fun s0 => nth s0 (x t) 0)). exact Hs.
      - intros v Hv. unfold gvals in Hv. apply in_map_iff in Hv. destruct Hv as (s' & <- & Hs').
        destruct (Nat.eq_dec s' s) as [->|N]; [left; reflexivity|right; apply Ht; assumption]. }
    assert (H0 : forall s', In s' g -> s' <> s -> better (nth s (x 0) 0) (nth s' (x 0) 0) = true) by (apply (locally_singleton _ _ Hloc)).
    change (nth 0 (xs 0) []) with (x 0). rewrite (Hscan 0 H0).
    assert (Ef : first_eq g (x 0) (nth s (x 0) 0) = Some s).
    { unfold first_eq. apply find_first_unique; [exact Hs|apply req_true; reflexivity|].
      intros s' Hs' N. destruct (req (nth s' (x 0) 0) (nth s (x 0) 0)) eqn:Er; [|reflexivity].
      apply req_true in Er. pose proof (H0 s' Hs' N) as Hb. rewrite Er, Hirr in Hb. discriminate. }
    rewrite Ef.
    apply (is_derive_ext_loc (fun t => nth s (x t) 0)); [|apply (Hx 0%nat s)].
    refine (filter_imp _ _ _ Hloc). intros t Ht.
    rewrite (nth_map_lt _ p i 0 (0%nat, []) Hi). fold e g. rewrite hd_nth0. symmetry. apply (Hscan t Ht).
  - rewrite nth_overflow by (rewrite map_length; lia). apply (is_derive_ext (fun _ => 0)); [|apply (is_derive_const 0 0)].
    intro t. rewrite nth_overflow by (rewrite map_length; lia). reflexivity.
Qed.
Lemma ext_deriv better sx sy dim :
  (forall a b, better a b = true -> better b a = false) -> (forall a, better a a = false) -> open_better better ->
  desc_deriv (ext_desc better sx sy dim) (ext_dom better sx sy dim).
Proof. apply redx_deriv. Qed.
Lemma open_rgt : open_better rgt.
Proof.
  intros u v Hu Hv H. apply rgt_true in H.
  assert (Hw : continuous (fun t => minus (u t) (v t)) 0) by (apply (continuous_minus u v 0 Hu Hv)).
  pose proof (Hw (fun y => 0 < y)) as Hl. cbv beta in Hl.
  apply (filter_imp (fun t => 0 < minus (u t) (v t))); [intros t Ht; apply rgt_true; unfold minus, plus, opp in Ht; cbn in Ht; lra|].
  apply Hl. apply (locally_open (fun y => 0 < y)); [apply open_gt|auto|]. unfold minus, plus, opp. cbn. lra.
Qed.
Lemma open_rlt : open_better rlt.
Proof.
  intros u v Hu Hv H. apply rlt_true in H.
  assert (Hw : continuous (fun t => minus (v t) (u t)) 0) by (apply (continuous_minus v u 0 Hv Hu)).
  pose proof (Hw (fun y => 0 < y)) as Hl. cbv beta in Hl.
  apply (filter_imp (fun t => 0 < minus (v t) (u t))); [intros t Ht; apply rlt_true; unfold minus, plus, opp in Ht; cbn in Ht; lra|].
  apply Hl. apply (locally_open (fun y => 0 < y)); [apply open_gt|auto|]. unfold minus, plus, opp. cbn. lra.
Qed.

(* ------------------------------------------------------------------ the softmax family *)
Lemma gsum_deriv (f : nat -> R -> R) (f' : nat -> R) g : (forall s, In s g -> is_derive (f s) 0 (f' s)) ->
  is_derive (fun t => gsum (fun s => f s t) g) 0 (gsum f' g).
Proof.
  induction g as [|s g IH]; intro H; cbn [gsum fold_right]; [apply (is_derive_const 0 0)|].
  apply (is_derive_plus (K := R_AbsRing) (V := R_NormedModule) (f s) (fun t => gsum (fun s0 => f s0 t) g) 0 (f' s) (gsum f' g)).
  - apply H. left. reflexivity.
  - apply IH. intros s0 Hs0. apply H. right. exact Hs0.
Qed.
Lemma sum_exp_gsum (a : nat -> R) g : Stable.sum_exp (map a g) = gsum (fun s => exp (a s)) g.
Proof. induction g as [|s g IH]; cbn [map Stable.sum_exp gsum fold_right]; [reflexivity|]. fold (Stable.sum_exp (map a g)) (gsum (fun s => exp (a s)) g). rewrite IH. reflexivity. Qed.
Lemma gsum_pos h g : g <> [] -> (forall s, 0 < h s) -> 0 < gsum h g.
Proof.
  intros Hne Hp. destruct g as [|s g]; [congruence|]. clear Hne. cbn [gsum fold_right]. fold (gsum h g).
  assert (0 <= gsum h g). { induction g as [|s0 g IH]; cbn [gsum fold_right]; [lra|]. fold (gsum h g). pose proof (Hp s0). lra. }
  pose proof (Hp s). lra.
Qed.
Lemma gsum_scal h c g : gsum h g / c = gsum (fun s => h s / c) g.
Proof. induction g as [|s g IH]; cbn [gsum fold_right]; [unfold Rdiv; ring|]. fold (gsum h g) (gsum (fun s => h s / c) g). rewrite <- IH. unfold Rdiv. ring. Qed.
Lemma exp_minus_ln a S : 0 < S -> exp (a - ln S) = exp a / S.
Proof. intro H. unfold Rminus. rewrite exp_plus, exp_Ropp, exp_ln by exact H. reflexivity. Qed.

(* the group-level derivative of logsumexp: sum_s softmax_s du_s *)
Lemma lse_group_deriv (u : nat -> R -> R) (du : nat -> R) g : g <> [] -> (forall s, In s g -> is_derive (u s) 0 (du s)) ->
  is_derive (fun t => Stable.lse_fold (map (fun s => u s t) g)) 0
            (gsum (fun s => exp (u s 0 - Stable.lse_fold (map (fun r => u r 0) g)) * du s) g).
Proof.
  intros Hne Hu.
  assert (Hne' : forall t, map (fun s => u s t) g <> []) by (intro t; destruct g; [congruence|discriminate]).
  set (S := gsum (fun s => exp (u s 0)) g).
  assert (HS : 0 < S) by (apply gsum_pos; [exact Hne|intro s; apply exp_pos]).
  apply (is_derive_ext (fun t => ln (gsum (fun s => exp (u s t)) g))).
  { intro t. rewrite (Stable.logsumexp_pairwise_eq _ (Hne' t)), sum_exp_gsum. reflexivity. }
  rewrite (Stable.logsumexp_pairwise_eq _ (Hne' 0)), sum_exp_gsum. fold S.
  apply (is_derive_eq _ _ (gsum (fun s => exp (u s 0) * du s) g * / S)).
  { fold (Rdiv (gsum (fun s => exp (u s 0) * du s) g) S). rewrite gsum_scal. apply gsum_ext. intros s _. rewrite (exp_minus_ln _ S HS). unfold Rdiv. ring. }
  apply (is_derive_comp ln (fun t => gsum (fun s => exp (u s t)) g) 0 (/ S) (gsum (fun s => exp (u s 0) * du s) g)).
  - apply is_derive_ln. exact HS.
  - apply (gsum_deriv (fun s t => exp (u s t)) (fun s => exp (u s 0) * du s) g). intros s Hs.
    apply (is_derive_eq _ _ (du s * exp (u s 0))); [ring|].
    apply (is_derive_comp exp (u s) 0 (exp (u s 0)) (du s) (is_derive_exp _) (Hu s Hs)).
Qed.

Lemma lse_deriv sx sy dim : desc_deriv (lse_desc sx sy dim) (fun _ => True).
Proof.
  intros xs dxs Hx Hok _ r. cbn [lse_desc d_fw d_jvp d_ok] in *. apply cderiv_single. rewrite !hd_nth0. intro i.
  set (p := axis_red sx sy dim). set (x := fun t => nth 0 (xs t) []). set (dx := nth 0 dxs []).
  assert (HB : (0 < tbatch sx)%nat) by (pose proof Hok as H; unfold sum_ok in H; bsplit; assumption).
  pose proof (axis_seq sx sy dim Hok) as Hseq. fold p in Hseq.
  destruct (lt_dec i (length p)) as [Hi|Hi].
  - set (e := nth i p (0%nat, [])). assert (He : In e p) by (apply nth_In; exact Hi).
    assert (Ei : fst e = i) by (apply (axis_nth_fst sx sy dim Hok i Hi)).
    destruct (axis_group_ok sx sy dim Hok e He) as (Hne & Hbnd).
    apply (is_derive_ext (fun t => Stable.lse_fold (map (fun s => nth s (x t) 0) (snd e)))).
    { intro t. rewrite hd_nth0. fold (x t). rewrite <- Ei at 1. rewrite (lse_vals_nth sx sy dim Hok (x t) e He). reflexivity. }
    change (nth 0 (xs 0) []) with (x 0). change (lse_w sx sy dim (x 0) (lse_vals sx sy dim (x 0))) with (softmax_v sx sy dim (x 0)).
    rewrite <- Ei at 1. rewrite (axis_sum_nth sx sy dim Hok _ e He).
    rewrite (gsum_ext _ (fun s => exp (nth s (x 0) 0 - Stable.lse_fold (map (fun r => nth r (x 0) 0) (snd e))) * nth s dx 0)).
    + apply (lse_group_deriv (fun s t => nth s (x t) 0) (fun s => nth s dx 0) (snd e) Hne). intros s _. apply (Hx 0%nat s).
    + intros s Hs. rewrite ew2_nth by (try exact HB; apply (Hbnd s Hs)). rewrite (softmax_nth sx sy dim Hok (x 0) e s He Hs). reflexivity.
  - assert (Hn : length p = tsize sy) by (apply (sequential_length p _ Hseq)).
    rewrite nth_overflow.
    2:{ unfold axis_sum. destruct (sum_ok_pair sx sy dim Hok) as (_ & _ & Hb).
        rewrite (scatter_length 0 Rplus _ _ (zerosR (tsize sy)) (tsize sx)); rewrite repeat_length; [lia|exact Hb]. }
    apply (is_derive_ext (fun _ => 0)); [|apply (is_derive_const 0 0)].
    intro t. rewrite nth_overflow; [reflexivity|]. unfold lse_vals. rewrite map_length. fold p. lia.
Qed.

(* ---- dense softmax cross entropy: the derivative is the tangent PLUS (sum_axis t - 1) * sum_axis(softmax * dx) ---- *)
Lemma gsum_split1 (a b c d : nat -> R) Q g :
  gsum (fun s => a s * b s + c s * (d s - Q)) g = gsum (fun s => a s * b s) g + gsum (fun s => c s * d s) g - Q * gsum c g.
Proof. induction g as [|s g IH]; cbn [gsum fold_right]; [ring|]. fold (gsum (fun s => a s * b s + c s * (d s - Q)) g) (gsum (fun s => a s * b s) g) (gsum (fun s => c s * d s) g) (gsum c g). rewrite IH. ring. Qed.
Lemma gsum_split2 (e c d a b : nat -> R) g :
  gsum (fun s => (e s - c s) * d s - b s * a s) g = gsum (fun s => e s * d s) g - gsum (fun s => c s * d s) g - gsum (fun s => a s * b s) g.
Proof. induction g as [|s g IH]; cbn [gsum fold_right]; [ring|]. fold (gsum (fun s => (e s - c s) * d s - b s * a s) g) (gsum (fun s => e s * d s) g) (gsum (fun s => c s * d s) g) (gsum (fun s => a s * b s) g). rewrite IH. ring. Qed.

Lemma sce_group_deriv (u v : nat -> R -> R) (du dv : nat -> R) g : g <> [] ->
  (forall s, In s g -> is_derive (u s) 0 (du s)) -> (forall s, In s g -> is_derive (v s) 0 (dv s)) ->
  let L0 := Stable.lse_fold (map (fun r => u r 0) g) in
  is_derive (fun t => - gsum (fun s => v s t * (u s t - Stable.lse_fold (map (fun r => u r t) g))) g) 0
    (gsum (fun s => (exp (u s 0 - L0) - v s 0) * du s - (u s 0 - L0) * dv s) g
     + (gsum (fun s => v s 0) g - 1) * gsum (fun s => exp (u s 0 - L0) * du s) g).
Proof.
  intros Hne Hu Hv L0. set (Q := gsum (fun s => exp (u s 0 - L0) * du s) g).
  pose proof (lse_group_deriv u du g Hne Hu) as Hl. fold L0 in Hl. fold Q in Hl.
  apply (is_derive_eq _ _ (- gsum (fun s => dv s * (u s 0 - L0) + v s 0 * (du s - Q)) g)).
  { rewrite gsum_split1, gsum_split2. unfold Q. ring. }
  apply (is_derive_opp (K := R_AbsRing) (V := R_NormedModule) (fun t => gsum (fun s => v s t * (u s t - Stable.lse_fold (map (fun r => u r t) g))) g) 0).
  apply (gsum_deriv (fun s t => v s t * (u s t - Stable.lse_fold (map (fun r => u r t) g))) (fun s => dv s * (u s 0 - L0) + v s 0 * (du s - Q)) g).
  intros s Hs.
  apply (is_derive_mult (v s) (fun t => u s t - Stable.lse_fold (map (fun r => u r t) g)) 0 (dv s) (du s - Q) (Hv s Hs)); [|intros; apply Rmult_comm].
  apply (is_derive_minus (K := R_AbsRing) (V := R_NormedModule) (u s) (fun t => Stable.lse_fold (map (fun r => u r t) g)) 0 (du s) Q (Hu s Hs) Hl).
Qed.

(* the correction term of output i *)
Definition sce_corr (sx sy : tshape) (dim : nat) (x t dx : list R) (i : nat) : R :=
  let e := nth i (axis_red sx sy dim) (0%nat, []) in
  (gsum (fun s => nth s t 0) (snd e) - 1) * gsum (fun s => nth s (softmax_v sx sy dim x) 0 * nth s dx 0) (snd e).

Lemma sce_deriv_gen sx sy dim (xs : R -> list (list R)) (dxs : list (list R)) :
  (forall k, cderiv (fun t => nth k (xs t) []) (nth k dxs [])) -> sum_ok sx sy dim = true ->
  forall i, (i < length (axis_red sx sy dim))%nat ->
    is_derive (fun t => nth i (nth 0 (d_fw (sce_desc sx sy dim) (xs t)) []) 0) 0
      (nth i (nth 0 (d_jvp (sce_desc sx sy dim) (xs 0) dxs) []) 0
       + sce_corr sx sy dim (nth 0 (xs 0) []) (nth 1 (xs 0) []) (nth 0 dxs []) i).
Proof.
  intros Hx Hok i Hi. cbn [sce_desc d_fw d_jvp nth].
  set (p := axis_red sx sy dim) in *. set (x := fun t => nth 0 (xs t) []). set (tt := fun t => nth 1 (xs t) []).
  set (dx := nth 0 dxs []). set (dt := nth 1 dxs []).
  assert (HB : (0 < tbatch sx)%nat) by (pose proof Hok as H; unfold sum_ok in H; bsplit; assumption).
  pose proof (axis_seq sx sy dim Hok) as Hseq. fold p in Hseq.
  assert (Hn : length p = tsize sy) by (apply (sequential_length p _ Hseq)).
  set (e := nth i p (0%nat, [])). assert (He : In e p) by (apply nth_In; exact Hi).
  assert (Ei : fst e = i) by (apply (axis_nth_fst sx sy dim Hok i Hi)).
  destruct (axis_group_ok sx sy dim Hok e He) as (Hne & Hbnd).
  apply (is_derive_ext (fun t => - gsum (fun s => nth s (tt t) 0 * (nth s (x t) 0 - Stable.lse_fold (map (fun r => nth r (x t) 0) (snd e)))) (snd e))).
  { intro t. fold (x t) (tt t). rewrite (un_eval_nth 0 fw_negate (tsize sy)) by lia. unfold fw_negate. f_equal.
    rewrite <- Ei at 1. rewrite (axis_sum_nth sx sy dim Hok _ e He). apply gsum_ext. intros s Hs.
    rewrite ew2_nth by (try exact HB; apply (Hbnd s Hs)). rewrite (log_softmax_nth sx sy dim Hok (x t) e s He Hs). reflexivity. }
  unfold sce_corr. fold p e. change (nth 0 (xs 0) []) with (x 0). change (nth 1 (xs 0) []) with (tt 0).
  rewrite <- Ei at 1. rewrite (axis_sum_nth sx sy dim Hok _ e He).
  rewrite (gsum_ext _ (fun s => (exp (nth s (x 0) 0 - Stable.lse_fold (map (fun r => nth r (x 0) 0) (snd e))) - nth s (tt 0) 0) * nth s dx 0
                               - (nth s (x 0) 0 - Stable.lse_fold (map (fun r => nth r (x 0) 0) (snd e))) * nth s dt 0) (snd e)).
  2:{ intros s Hs. pose proof (Hbnd s Hs) as Hb. rewrite !ew2_nth by (try exact HB; exact Hb).
      rewrite (softmax_nth sx sy dim Hok (x 0) e s He Hs), (log_softmax_nth sx sy dim Hok (x 0) e s He Hs). reflexivity. }
  rewrite (gsum_ext (fun s => nth s (softmax_v sx sy dim (x 0)) 0 * nth s dx 0)
                    (fun s => exp (nth s (x 0) 0 - Stable.lse_fold (map (fun r => nth r (x 0) 0) (snd e))) * nth s dx 0) (snd e)).
  2:{ intros s Hs. rewrite (softmax_nth sx sy dim Hok (x 0) e s He Hs). reflexivity. }
  apply (sce_group_deriv (fun s t => nth s (x t) 0) (fun s t => nth s (tt t) 0) (fun s => nth s dx 0) (fun s => nth s dt 0) (snd e) Hne).
  - intros s _. apply (Hx 0%nat s).
  - intros s _. apply (Hx 1%nat s).
Qed.

(* the target sums to 1 along the axis, in every slice *)
Definition sce_dom (sx sy : tshape) (dim : nat) (xs : list (list R)) : Prop :=
  forall e, In e (axis_red sx sy dim) -> gsum (fun s => nth s (nth 1 xs []) 0) (snd e) = 1.
Lemma sce_deriv sx sy dim : desc_deriv (sce_desc sx sy dim) (sce_dom sx sy dim).
Proof.
  intros xs dxs Hx Hok Hdom r. destruct r as [|r].
  - intro i. destruct (lt_dec i (length (axis_red sx sy dim))) as [Hi|Hi].
    + pose proof (sce_deriv_gen sx sy dim xs dxs Hx Hok i Hi) as H.
      unfold sce_corr in H. rewrite (Hdom _ (nth_In _ _ Hi)) in H.
      refine (is_derive_eq _ _ _ _ _ H). ring.
    + cbn [sce_desc d_fw d_jvp nth].
      assert (Hn : length (axis_red sx sy dim) = tsize sy) by (apply (sequential_length _ _ (axis_seq sx sy dim Hok))).
      rewrite nth_overflow.
      2:{ unfold axis_sum. destruct (sum_ok_pair sx sy dim Hok) as (_ & _ & Hb).
          rewrite (scatter_length 0 Rplus _ _ (zerosR (tsize sy)) (tsize sx)); rewrite repeat_length; [lia|exact Hb]. }
      apply (is_derive_ext (fun _ => 0)); [|apply (is_derive_const 0 0)].
      intro t. rewrite nth_overflow; [reflexivity|]. unfold un_eval, identity_pairs, range. rewrite !map_length, seq_length. lia.
  - cbn [sce_desc d_fw d_jvp].
    match goal with |- cderiv _ (nth (S r) [?J] []) => replace (nth (S r) [J] []) with (@nil R) by (destruct r; reflexivity) end.
    apply (cderiv_ext (fun _ => [])); [intro t; destruct r; reflexivity|apply cderiv_nil].
Qed.

(* known finding D11: without  sum_axis t = 1  the dense BACKWARD(SoftmaxCrossEntropy) is NOT the
   derivative of the forward value.  Witness: x = (1/2, -1/4), t = (2, 0), direction dx = (1, 0). *)
Definition d11_sx : tshape := mkT [2%nat] 1.
Definition d11_sy : tshape := mkT [1%nat] 1.
Definition d11_xs (t : R) : list (list R) := [[1 / 2 + t; - (1 / 4)]; [2; 0]].
Definition d11_dxs : list (list R) := [[1; 0]; [0; 0]].
Theorem sce_backward_refuted_without_normalisation :
  sum_ok d11_sx d11_sy 0 = true /\
  (forall k, cderiv (fun t => nth k (d11_xs t) []) (nth k d11_dxs [])) /\
  ~ cderiv (fun t => nth 0 (d_fw (sce_desc d11_sx d11_sy 0) (d11_xs t)) [])
           (nth 0 (d_jvp (sce_desc d11_sx d11_sy 0) (d11_xs 0) d11_dxs) []).
Proof.
  assert (Hok : sum_ok d11_sx d11_sy 0 = true) by reflexivity.
  assert (Hx : forall k, cderiv (fun t => nth k (d11_xs t) []) (nth k d11_dxs [])).
  { intros [|[|k]] i; unfold d11_xs, d11_dxs; cbn [nth].
    - destruct i as [|[|i]]; cbn [nth].
      + auto_derive; [exact I|ring].
      + apply (is_derive_const (- (1 / 4)) 0).
      + destruct i; apply (is_derive_const 0 0).
    - destruct i as [|[|i]]; cbn [nth]; [apply (is_derive_const 2 0)|apply (is_derive_const 0 0)|destruct i; apply (is_derive_const 0 0)].
    - destruct k; destruct i; apply (is_derive_const 0 0). }
  split; [exact Hok|split; [exact Hx|]]. intro H.
  assert (Hi : (0 < length (axis_red d11_sx d11_sy 0))%nat) by (vm_compute; lia).
  pose proof (sce_deriv_gen d11_sx d11_sy 0 d11_xs d11_dxs Hx Hok 0%nat Hi) as G.
  pose proof (is_derive_unique _ _ _ G) as E1. pose proof (is_derive_unique _ _ _ (H 0%nat)) as E2. pose proof (eq_trans (eq_sym E1) E2) as E3.
  assert (Hc : sce_corr d11_sx d11_sy 0 (nth 0 (d11_xs 0) []) (nth 1 (d11_xs 0) []) (nth 0 d11_dxs []) 0 = 0) by lra.
  clear - Hc Hok. unfold sce_corr in Hc.
  assert (Ep : axis_red d11_sx d11_sy 0 = [(0%nat, [0%nat; 1%nat])]) by (vm_compute; reflexivity).
  rewrite Ep in Hc. cbn [nth snd gsum fold_right d11_xs d11_dxs] in Hc.
  assert (He : In (0%nat, [0%nat; 1%nat]) (axis_red d11_sx d11_sy 0)) by (rewrite Ep; left; reflexivity).
  rewrite (softmax_nth d11_sx d11_sy 0 Hok _ (0%nat, [0%nat; 1%nat]) 0%nat He (or_introl eq_refl)) in Hc.
  match type of Hc with context [exp ?z * 1] => pose proof (exp_pos z) as Hp; set (w := exp z) in * end.
  nra.
Qed.

(* ---- sparse softmax cross entropy: output i reads -log_softmax at the picked element of ITS slice ---- *)
Lemma ssce_picked sx sp ids dim : ssce_ok sx sp ids dim = true -> forall i, (i < tsize sp)%nat ->
  exists s e, In (i, (0%nat, s)) (pick_fw sx sp ids dim) /\ In e (axis_red sx sp dim) /\ fst e = i /\ In s (snd e).
Proof.
  intros Hok i Hi. unfold ssce_ok in Hok. apply andb_prop in Hok. destruct Hok as [Hok HBp]. apply andb_prop in Hok. destruct Hok as [Hsum Hpick].
  pose proof Hpick as Hp. unfold pick_ok in Hp. bsplit.
  match goal with H : forallb _ ids = true |- _ => rename H into Hids end. rewrite forallb_forall in Hids.
  repeat match goal with H : (_ =? _)%nat || (_ =? _)%nat = true |- _ => apply orb_eqb in H end.
  match goal with H : tbatch sx = _ \/ _ |- _ => rename H into Hbc end.
  match goal with H : length ids = _ \/ _ |- _ => rename H into Hic end.
  match goal with H : tvolume sp = _ |- _ => rename H into Hvp end.
  match goal with H : tvolume sx = _ |- _ => rename H into Hvx end.
  match goal with H : (0 < tlower sp dim)%nat |- _ => rename H into Hb0 end.
  set (base := tlower sp dim) in *. set (n := tget sx dim) in *. set (R' := (tvolume sp / base)%nat) in *. set (B := tbatch sp) in *.
  assert (Hidn : forall b, (b < length ids)%nat -> (nth b ids 0%nat < n)%nat) by (intros b Hb; apply Nat.ltb_lt; apply Hids; apply nth_In; exact Hb).
  pose proof (pick_fw_sequential sx sp ids dim base n R' B (tbatch sx) eq_refl eq_refl Hvp Hvx eq_refl eq_refl Hbc Hic Hidn Hb0) as Hseq.
  (* the entry of output i *)
  assert (Hex : exists ks, In (i, ks) (pick_fw sx sp ids dim)).
  { unfold sequential in Hseq. assert (Hin : In i (map fst (pick_fw sx sp ids dim))) by (rewrite Hseq; apply in_seq; lia).
    apply in_map_iff in Hin. destruct Hin as ([d ks] & E & Hin). cbn [fst] in E. subst d. exists ks. exact Hin. }
  destruct Hex as ([k s] & Hin).
  pose proof (proj1 (pick_fw_spec sx sp ids dim base n R' B (tbatch sx) eq_refl eq_refl Hvp Hvx eq_refl eq_refl Hbc Hic Hidn Hb0 i k s) Hin)
    as (low & high & b & Hl & Hh & Hb & -> & Ei & Es).
  (* the reduction group of output i *)
  pose proof Hsum as Hs. unfold sum_ok in Hs. bsplit.
  match goal with H : tlower sp dim = tlower sx dim |- _ => rename H into Hbx end.
  match goal with H : tsize sp = _ |- _ => rename H into Hsp end.
  match goal with H : tsize sx = _ |- _ => rename H into Hsx end.
  fold base in Hbx. rewrite <- Hbx in Hsp, Hsx. fold n in Hsx. set (Rt := (tsize sp / base)%nat) in *.
  assert (HR : (0 < R')%nat) by lia.
  assert (HRt : Rt = (B * R')%nat).
  { unfold tsize in Hsp. fold B in Hsp. rewrite Hvp in Hsp. nia. }
  assert (HBx : tbatch sx = B).
  { unfold tsize in Hsx. rewrite Hvx, HRt in Hsx. assert (0 < n)%nat by assumption. nia. }
  assert (Ei' : i = flat base 1 low 0 (high + R' * b)) by (rewrite flat_sample; lia).
  assert (Es' : s = flat base n low (nth (bidx (length ids) b) ids 0%nat) (high + R' * b)).
  { rewrite flat_sample. rewrite Es, HBx, (bidx_same B b Hb). reflexivity. }
  set (g := axis_group base n low (high + R' * b)).
  assert (He : In (i, g) (axis_red sx sp dim)).
  { apply (axis_red_spec sx sp dim base n Rt); auto. exists low, (high + R' * b)%nat. repeat split; auto. rewrite HRt. nia. }
  exists s, (i, g). split; [exact Hin|split; [exact He|split; [reflexivity|]]].
  cbn [snd]. unfold g, axis_group. apply In_map_range. exists (nth (bidx (length ids) b) ids 0%nat). split; [|exact Es'].
  apply Hidn. apply (bidx_lt _ B b Hb Hic).
Qed.

Lemma ssce_deriv sx sp ids dim : desc_deriv (ssce_desc sx sp ids dim) (fun _ => True).
Proof.
  intros xs dxs Hx Hok _ r. cbn [ssce_desc d_fw d_jvp d_ok] in *. apply cderiv_single. rewrite !hd_nth0. intro i.
  set (x := fun t => nth 0 (xs t) []). set (dx := nth 0 dxs []).
  pose proof Hok as Hok'. unfold ssce_ok in Hok'. apply andb_prop in Hok'. destruct Hok' as [Hok' HBp]. apply andb_prop in Hok'. destruct Hok' as [Hsum Hpick].
  apply Nat.ltb_lt in HBp.
  assert (HB : (0 < tbatch sx)%nat) by (pose proof Hsum as H; unfold sum_ok in H; bsplit; assumption).
  destruct (pick_ok_pair sx sp ids dim Hpick) as (_ & Hcov & _).
  destruct (lt_dec i (tsize sp)) as [Hi|Hi].
  - destruct (ssce_picked sx sp ids dim Hok i Hi) as (s & e & Hin & He & Ei & Hs).
    destruct (axis_group_ok sx sp dim Hsum e He) as (Hne & Hbnd). pose proof (Hbnd s Hs) as Hsb.
    apply (is_derive_ext (fun t => - (nth s (x t) 0 - Stable.lse_fold (map (fun r => nth r (x t) 0) (snd e))))).
    { intro t. rewrite hd_nth0. fold (x t). rewrite (gather_nth 0 _ _ _ i 0%nat s Hcov Hin).
      rewrite (un_eval_nth 0 fw_negate) by exact Hsb. rewrite (log_softmax_nth sx sp dim Hsum (x t) e s He Hs). reflexivity. }
    rewrite ew2_nth by assumption. change (nth 0 (xs 0) []) with (x 0).
    rewrite (gather_nth 0 _ _ dx i 0%nat s Hcov Hin). rewrite <- Ei at 1. rewrite (axis_sum_nth sx sp dim Hsum _ e He).
    rewrite (gsum_ext _ (fun r => exp (nth r (x 0) 0 - Stable.lse_fold (map (fun r0 => nth r0 (x 0) 0) (snd e))) * nth r dx 0)).
    2:{ intros r0 Hr0. rewrite ew2_nth by (try exact HB; apply (Hbnd r0 Hr0)). rewrite (softmax_nth sx sp dim Hsum (x 0) e r0 He Hr0). reflexivity. }
    unfold fw_subtract.
    apply (is_derive_eq _ _ (- (nth s dx 0 - gsum (fun r => exp (nth r (x 0) 0 - Stable.lse_fold (map (fun r0 => nth r0 (x 0) 0) (snd e))) * nth r dx 0) (snd e)))); [ring|].
    apply (is_derive_opp (K := R_AbsRing) (V := R_NormedModule) (fun t => nth s (x t) 0 - Stable.lse_fold (map (fun r => nth r (x t) 0) (snd e))) 0).
    apply (is_derive_minus (K := R_AbsRing) (V := R_NormedModule) (fun t => nth s (x t) 0) (fun t => Stable.lse_fold (map (fun r => nth r (x t) 0) (snd e))) 0 _ _ (Hx 0%nat s)).
    apply (lse_group_deriv (fun r t => nth r (x t) 0) (fun r => nth r dx 0) (snd e) Hne). intros r0 _. apply (Hx 0%nat r0).
  - rewrite nth_overflow by (rewrite (ew2_length sp _ _ _ HBp); lia).
    apply (is_derive_ext (fun _ => 0)); [|apply (is_derive_const 0 0)].
    intro t. rewrite nth_overflow; [reflexivity|]. rewrite (gather_length 0). lia.
Qed.

(* ---- dense softmax cross entropy, minibatch broadcasting between x and t (either direction) ---- *)
(* element d of the batch-B index space reads x at  share_ix sx V d  and t at  share_ix st V d *)
Lemma map_bprog_nth (h : nat * (nat * nat) -> R) B V fa fb d : (d < B * V)%nat ->
  nth d (map h (bprog B V fa fb)) 0 = h (d, (fa (d / V) (d mod V), fb (d / V) (d mod V)))%nat.
Proof.
  intro Hd. rewrite (nth_indep (map h (bprog B V fa fb)) 0 (h (0%nat, (0%nat, 0%nat)))) by (rewrite map_length, bprog_length; exact Hd).
  rewrite map_nth, (bprog_nth B V fa fb d Hd). reflexivity.
Qed.
Definition sceb_dom (sx st sy : tshape) (dim : nat) (xs : list (list R)) : Prop :=
  forall e, In e (axis_red (ew_shape sx st) sy dim) ->
    gsum (fun d => nth (share_ix st (tvolume sx) d) (nth 1 xs []) 0) (snd e) = 1.

Lemma sceb_deriv sx st srx sy dim : desc_deriv (sceb_desc sx st srx sy dim) (sceb_dom sx st sy dim).
Proof.
  intros xs dxs Hx Hok Hdom r. cbn [sceb_desc d_fw d_jvp d_ok] in *. apply cderiv_single. intro i.
  unfold sceb_ok in Hok. apply andb_prop in Hok. destruct Hok as [Hok Hsumb]. apply andb_prop in Hok. destruct Hok as [Hew Hsumx].
  destruct (ew_ok_spec sx st Hew) as (HVa & HVb & Hba & Hbb). cbv zeta in HVa, HVb, Hba, Hbb.
  unfold sceb_dom in Hdom.
  set (sb := ew_shape sx st) in *. set (V := tvolume sx) in *. set (B := tbatch sb) in *.
  set (x := fun t => nth 0 (xs t) []). set (tt := fun t => nth 1 (xs t) []). set (dx := nth 0 dxs []). set (dt := nth 1 dxs []).
  set (p := axis_red sb sy dim) in *.
  assert (HB : (0 < B)%nat) by (pose proof Hsumb as H; unfold sum_ok in H; bsplit; assumption).
  assert (Hn : tsize sb = (B * V)%nat) by reflexivity.
  pose proof (axis_seq sb sy dim Hsumb) as Hseq. fold p in Hseq.
  assert (Hlen : length p = tsize sy) by (apply (sequential_length p _ Hseq)).
  set (xi := share_ix sx V). set (ti := share_ix st V).
  assert (Hq1 : ab_fw st sx sb = bprog B V (fun b i => (bsel st b * V + i)%nat) (fun b i => (bsel sx b * V + i)%nat))
    by (apply (ab_fw_bprog st sx sb V B); reflexivity).
  assert (Hq2 : ab_fw sx st sb = bprog B V (fun b i => (bsel sx b * V + i)%nat) (fun b i => (bsel st b * V + i)%nat))
    by (apply (ab_fw_bprog sx st sb V B); reflexivity).
  destruct (lt_dec i (length p)) as [Hi|Hi].
  - set (e := nth i p (0%nat, [])). assert (He : In e p) by (apply nth_In; exact Hi).
    assert (Ei : fst e = i) by (apply (axis_nth_fst sb sy dim Hsumb i Hi)).
    destruct (axis_group_ok sb sy dim Hsumb e He) as (Hne & Hbnd).
    destruct (group_share sx srx sb sy dim eq_refl Hba Hsumx Hsumb e He) as (e' & He' & Eg). fold V xi in Eg.
    assert (Hin' : forall d, In d (snd e) -> In (xi d) (snd e')) by (intros d Hd; rewrite Eg; apply in_map; exact Hd).
    assert (Egv : forall v : list R, gvals v (snd e') = map (fun d => nth (xi d) v 0) (snd e)) by (intro v; unfold gvals; rewrite Eg, map_map; reflexivity).
    apply (is_derive_ext (fun t => - gsum (fun d => nth (ti d) (tt t) 0 * (nth (xi d) (x t) 0 - Stable.lse_fold (map (fun r => nth (xi r) (x t) 0) (snd e)))) (snd e))).
    { intro t. fold (x t) (tt t). rewrite (un_eval_nth 0 fw_negate (tsize sy)) by lia. unfold fw_negate. f_equal.
      rewrite <- Ei at 1. rewrite (axis_sum_nth sb sy dim Hsumb _ e He). apply gsum_ext. intros d Hd.
      pose proof (Hbnd d Hd) as Hdb. rewrite Hn in Hdb.
      unfold ab_eval. rewrite Hq1.
      rewrite (map_bprog_nth _ B V _ _ d Hdb). cbn [fst snd]. unfold fw_multiply. fold (share_ix st V d) (share_ix sx V d). fold (ti d) (xi d).
      rewrite (log_softmax_nth sx srx dim Hsumx (x t) e' (xi d) He' (Hin' d Hd)), Egv. reflexivity. }
    rewrite <- Ei at 1. rewrite (axis_sum_nth sb sy dim Hsumb _ e He).
    change (nth 0 (xs 0) []) with (x 0). change (nth 1 (xs 0) []) with (tt 0).
    rewrite (gsum_ext _ (fun d => (exp (nth (xi d) (x 0) 0 - Stable.lse_fold (map (fun r => nth (xi r) (x 0) 0) (snd e))) - nth (ti d) (tt 0) 0) * nth (xi d) dx 0
                               - (nth (xi d) (x 0) 0 - Stable.lse_fold (map (fun r => nth (xi r) (x 0) 0) (snd e))) * nth (ti d) dt 0) (snd e)).
    2:{ intros d Hd. pose proof (Hbnd d Hd) as Hdb. rewrite Hn in Hdb. rewrite Hq2.
        rewrite (map_bprog_nth _ B V _ _ d Hdb). cbn [fst snd]. fold (share_ix st V d) (share_ix sx V d). fold (ti d) (xi d).
        rewrite (softmax_nth sx srx dim Hsumx (x 0) e' (xi d) He' (Hin' d Hd)), (log_softmax_nth sx srx dim Hsumx (x 0) e' (xi d) He' (Hin' d Hd)), Egv. reflexivity. }
    pose proof (sce_group_deriv (fun d t => nth (xi d) (x t) 0) (fun d t => nth (ti d) (tt t) 0) (fun d => nth (xi d) dx 0) (fun d => nth (ti d) dt 0) (snd e) Hne
                  (fun d _ => Hx 0%nat (xi d)) (fun d _ => Hx 1%nat (ti d))) as H.
    cbv zeta beta in H. change (nth 1 (xs 0) []) with (tt 0) in Hdom. unfold ti in H. rewrite (Hdom e He) in H.
    refine (is_derive_eq _ _ _ _ _ H). fold ti. ring.
  - rewrite nth_overflow.
    2:{ unfold axis_sum. destruct (sum_ok_pair sb sy dim Hsumb) as (_ & _ & Hb).
        rewrite (scatter_length 0 Rplus _ _ (zerosR (tsize sy)) (tsize sb)); rewrite repeat_length; [lia|exact Hb]. }
    apply (is_derive_ext (fun _ => 0)); [|apply (is_derive_const 0 0)].
    intro t. rewrite nth_overflow; [reflexivity|]. unfold un_eval, identity_pairs, range. rewrite !map_length, seq_length. lia.
Qed.

(* ---- sparse softmax cross entropy, x of batch 1 (or B) under B index lists ---- *)
Lemma ssceb_picked sx srx sp ids dim : ssceb_ok sx srx sp ids dim = true -> forall i, (i < tsize sp)%nat ->
  exists s e e', In (i, (0%nat, s)) (pick_fw sx sp ids dim) /\ In e (axis_red (mkT (tdims sx) (tbatch sp)) sp dim) /\ fst e = i /\
                 In e' (axis_red sx srx dim) /\ snd e' = map (share_ix sx (tvolume sx)) (snd e) /\ In s (snd e').
Proof.
  intros Hok i Hi. unfold ssceb_ok in Hok. cbv zeta in Hok.
  apply andb_prop in Hok. destruct Hok as [Hok HBx]. apply andb_prop in Hok. destruct Hok as [Hok Hbc0].
  apply andb_prop in Hok. destruct Hok as [Hok Hsumb]. apply andb_prop in Hok. destruct Hok as [Hpick Hsumx].
  apply Nat.ltb_lt in HBx. apply orb_eqb in Hbc0.
  set (sb := mkT (tdims sx) (tbatch sp)) in *.
  pose proof Hpick as Hp. unfold pick_ok in Hp. bsplit.
  match goal with H : forallb _ ids = true |- _ => rename H into Hids end. rewrite forallb_forall in Hids.
  repeat match goal with H : (_ =? _)%nat || (_ =? _)%nat = true |- _ => apply orb_eqb in H end.
  match goal with H : tbatch sx = tbatch sp \/ _ |- _ => rename H into Hbc end.
  match goal with H : length ids = _ \/ _ |- _ => rename H into Hic end.
  match goal with H : tvolume sp = _ |- _ => rename H into Hvp end.
  match goal with H : tvolume sx = _ |- _ => rename H into Hvx end.
  match goal with H : (0 < tlower sp dim)%nat |- _ => rename H into Hb0 end.
  set (base := tlower sp dim) in *. set (n := tget sx dim) in *. set (R' := (tvolume sp / base)%nat) in *. set (B := tbatch sp) in *.
  assert (Hidn : forall b, (b < length ids)%nat -> (nth b ids 0%nat < n)%nat) by (intros b Hb; apply Nat.ltb_lt; apply Hids; apply nth_In; exact Hb).
  pose proof (pick_fw_sequential sx sp ids dim base n R' B (tbatch sx) eq_refl eq_refl Hvp Hvx eq_refl eq_refl Hbc Hic Hidn Hb0) as Hseq.
  assert (Hex : exists ks, In (i, ks) (pick_fw sx sp ids dim)).
  { unfold sequential in Hseq. assert (Hin : In i (map fst (pick_fw sx sp ids dim))) by (rewrite Hseq; apply in_seq; lia).
    apply in_map_iff in Hin. destruct Hin as ([d ks] & E & Hin). cbn [fst] in E. subst d. exists ks. exact Hin. }
  destruct Hex as ([k s] & Hin).
  pose proof (proj1 (pick_fw_spec sx sp ids dim base n R' B (tbatch sx) eq_refl eq_refl Hvp Hvx eq_refl eq_refl Hbc Hic Hidn Hb0 i k s) Hin)
    as (low & high & b & Hl & Hh & Hb & -> & Ei & Es).
  (* the reduction group of output i in the batch-B index space *)
  pose proof Hsumb as Hs. unfold sum_ok in Hs. bsplit.
  match goal with H : tlower sp dim = tlower sb dim |- _ => rename H into Hbx end.
  match goal with H : tsize sp = _ |- _ => rename H into Hsp end.
  match goal with H : tsize sb = _ |- _ => rename H into Hsb end.
  fold base in Hbx. rewrite <- Hbx in Hsp, Hsb. change (tget sb dim) with n in Hsb. set (Rt := (tsize sp / base)%nat) in *.
  assert (HRt : Rt = (B * R')%nat).
  { unfold tsize in Hsp. fold B in Hsp. rewrite Hvp in Hsp. nia. }
  assert (Ei' : i = flat base 1 low 0 (high + R' * b)) by (rewrite flat_sample; lia).
  set (id := nth (bidx (length ids) b) ids 0%nat) in *.
  assert (Hid : (id < n)%nat) by (apply Hidn; apply (bidx_lt _ B b Hb Hic)).
  set (g := axis_group base n low (high + R' * b)).
  assert (He : In (i, g) (axis_red sb sp dim)).
  { apply (axis_red_spec sb sp dim base n Rt eq_refl eq_refl Hsp Hb0). exists low, (high + R' * b)%nat. repeat split; auto. rewrite HRt. nia. }
  assert (Hbc' : tbatch sx = 1%nat \/ tbatch sx = tbatch sb) by (cbn [sb tbatch]; tauto).
  destruct (group_share sx srx sb sp dim eq_refl Hbc' Hsumx Hsumb (i, g) He) as (e' & He' & Eg).
  exists s, (i, g), e'. repeat split; auto.
  rewrite Eg. cbn [snd]. apply in_map_iff. exists (flat base n low id (high + R' * b)). split.
  - rewrite flat_sample, <- Hvx. rewrite share_ix_split by (rewrite Hvx; apply flat_lt; auto).
    rewrite Es. f_equal. unfold bsel. rewrite <- Hvx, <- Nat.mul_assoc. apply bidx_skip.
  - unfold g, axis_group. apply In_map_range. exists id. split; [exact Hid|reflexivity].
Qed.

Lemma ssceb_deriv sx srx sp ids dim : desc_deriv (ssceb_desc sx srx sp ids dim) (fun _ => True).
Proof.
  intros xs dxs Hx Hok _ r. cbn [ssceb_desc d_fw d_jvp d_ok] in *. apply cderiv_single. rewrite !hd_nth0. intro i.
  set (x := fun t => nth 0 (xs t) []). set (dx := nth 0 dxs []).
  pose proof Hok as Hok'. unfold ssceb_ok in Hok'. cbv zeta in Hok'.
  apply andb_prop in Hok'. destruct Hok' as [Hok' HBx]. apply andb_prop in Hok'. destruct Hok' as [Hok' Hbc0].
  apply andb_prop in Hok'. destruct Hok' as [Hok' Hsumb]. apply andb_prop in Hok'. destruct Hok' as [Hpick Hsumx].
  apply Nat.ltb_lt in HBx.
  set (sb := mkT (tdims sx) (tbatch sp)) in *. set (V := tvolume sx) in *. set (B := tbatch sp) in *.
  assert (HBp : (0 < B)%nat) by (pose proof Hsumb as H; unfold sum_ok in H; bsplit; assumption).
  assert (Hn : tsize sb = (B * V)%nat) by reflexivity.
  destruct (pick_ok_pair sx sp ids dim Hpick) as (_ & Hcov & _).
  set (xi := share_ix sx V).
  assert (Hq : ab_fw sx sb sb = bprog B V (fun b i => (bsel sx b * V + i)%nat) (fun b i => (bsel sb b * V + i)%nat))
    by (apply (ab_fw_bprog sx sb sb V B); reflexivity).
  destruct (lt_dec i (tsize sp)) as [Hi|Hi].
  - destruct (ssceb_picked sx srx sp ids dim Hok i Hi) as (s & e & e' & Hin & He & Ei & He' & Eg & Hs). fold sb in He. fold V xi in Eg.
    destruct (axis_group_ok sb sp dim Hsumb e He) as (Hne & Hbnd).
    destruct (axis_group_ok sx srx dim Hsumx e' He') as (Hne' & Hbnd'). pose proof (Hbnd' s Hs) as Hsb.
    assert (Hin' : forall d, In d (snd e) -> In (xi d) (snd e')) by (intros d Hd; rewrite Eg; apply in_map; exact Hd).
    assert (Egv : forall v : list R, gvals v (snd e') = map (fun d => nth (xi d) v 0) (snd e)) by (intro v; unfold gvals; rewrite Eg, map_map; reflexivity).
    apply (is_derive_ext (fun t => - (nth s (x t) 0 - Stable.lse_fold (map (fun d => nth (xi d) (x t) 0) (snd e))))).
    { intro t. rewrite hd_nth0. fold (x t). rewrite (gather_nth 0 _ _ _ i 0%nat s Hcov Hin).
      rewrite (un_eval_nth 0 fw_negate) by exact Hsb. rewrite (log_softmax_nth sx srx dim Hsumx (x t) e' s He' Hs), Egv. reflexivity. }
    rewrite ew2_nth by assumption. change (nth 0 (xs 0) []) with (x 0).
    rewrite (gather_nth 0 _ _ dx i 0%nat s Hcov Hin). rewrite <- Ei at 1. rewrite (axis_sum_nth sb sp dim Hsumb _ e He).
    rewrite (gsum_ext _ (fun d => exp (nth (xi d) (x 0) 0 - Stable.lse_fold (map (fun r0 => nth (xi r0) (x 0) 0) (snd e))) * nth (xi d) dx 0)).
    2:{ intros d Hd. pose proof (Hbnd d Hd) as Hdb. rewrite Hn in Hdb. rewrite Hq.
        rewrite (map_bprog_nth _ B V _ _ d Hdb). cbn [fst snd]. fold (share_ix sx V d). fold (xi d).
        rewrite (softmax_nth sx srx dim Hsumx (x 0) e' (xi d) He' (Hin' d Hd)), Egv. reflexivity. }
    unfold fw_subtract.
    apply (is_derive_eq _ _ (- (nth s dx 0 - gsum (fun d => exp (nth (xi d) (x 0) 0 - Stable.lse_fold (map (fun r0 => nth (xi r0) (x 0) 0) (snd e))) * nth (xi d) dx 0) (snd e)))); [ring|].
    apply (is_derive_opp (K := R_AbsRing) (V := R_NormedModule) (fun t => nth s (x t) 0 - Stable.lse_fold (map (fun d => nth (xi d) (x t) 0) (snd e))) 0).
    apply (is_derive_minus (K := R_AbsRing) (V := R_NormedModule) (fun t => nth s (x t) 0) (fun t => Stable.lse_fold (map (fun d => nth (xi d) (x t) 0) (snd e))) 0 _ _ (Hx 0%nat s)).
    apply (lse_group_deriv (fun d t => nth (xi d) (x t) 0) (fun d => nth (xi d) dx 0) (snd e) Hne). intros d _. apply (Hx 0%nat (xi d)).
  - rewrite nth_overflow by (rewrite (ew2_length sp _ _ _ HBp); lia).
    apply (is_derive_ext (fun _ => 0)); [|apply (is_derive_const 0 0)].
    intro t. rewrite nth_overflow; [reflexivity|]. rewrite (gather_length 0). lia.
Qed.

(* ------------------------------------------------------------------ the operators of real_family *)
Definition un_dom (u : unop) (x : R) : Prop :=
  match u with ULog | USqrt => 0 < x | UTan => cos x <> 0 | UAbs => x <> 0 | _ => True end.
Definition k_dom (c : kop) (k x : R) : Prop :=
  match c with KDivR => k <> 0 | KDivL => x <> 0 | KPowR => 0 < x | KPowL => 0 < k | KPReLU | KELU => x <> 0 end.
Definition b_dom (b : bop) (x y : R) : Prop := match b with BDivide => y <> 0 | BPow => 0 < x end.
Definition all_el (s : tshape) (P : R -> Prop) (xs : list (list R)) : Prop :=
  forall i, (i < tsize s)%nat -> P (nth i (nth 0 xs []) 0).
(* the smooth domain of an operator, as a condition on its operand values; stop_gradient is
   excluded: its tangent is 0 by definition, not the derivative of its value *)
Definition real_dom (o : rop) (xs : list (list R)) : Prop :=
  match o with
  | RCore (OStop _) => False
  | RCore _ => True
  | RUn u s => all_el s (un_dom u) xs
  | RK c s k => all_el s (k_dom c k) xs
  | RReLU s | RLReLU s => all_el s (fun x => x <> 0) xs
  | RPowN s k => int32 k /\ all_el s (fun x => x <> 0) xs
  | RBin b sa sb => ew_dom sa sb (b_dom b) xs
  | RMax sx sy dim => ext_dom rgt sx sy dim xs      (* each maximum attained exactly once *)
  | RMin sx sy dim => ext_dom rlt sx sy dim xs
  | RLogSumExp sx sy dim => True
  | RSCE sx sy dim => sce_dom sx sy dim xs
  | RSparseSCE sx sp ids dim => True
  | RMaxPool sx sy w0 w1 p0 p1 s0 s1 =>      (* every non-empty window attains its maximum once *)
      redx_dom rgt (pool2d_red sx sy w0 w1 p0 p1 s0 s1) xs
  | RDivScalarR sx sk => scy_dom sx sk (fun _ k => k <> 0) xs
  | RDivScalarL sx sk => scy_dom sx sk (fun x _ => x <> 0) xs
  | RPowScalarR sx sk => scy_dom sx sk (fun x _ => 0 < x) xs
  | RPowScalarL sx sk => scy_dom sx sk (fun _ k => 0 < k) xs
  | RSCEb sx st srx sy dim => sceb_dom sx st sy dim xs      (* the target sums to 1 along the axis, slice by slice *)
  | RSparseSCEb sx srx sp ids dim => True
  end.

Lemma un_slope u x : un_dom u x -> is_derive (un_fw u) x (un_bw u x (un_fw u x) 1).
Proof.
  destruct u; cbn [un_dom un_fw un_bw]; intro H;
    first [apply d_abs|apply d_sqrt|apply d_exp|apply d_log|apply d_tanh|apply d_sigmoid|apply d_softplus|apply d_sin|apply d_cos|apply d_tan]; exact H.
Qed.
Lemma k_slope c k x : k_dom c k x -> is_derive (fun x => k_fw c x k) x (k_bw c x (k_fw c x k) 1 k).
Proof.
  destruct c; cbn [k_dom k_fw k_bw]; intro H;
    first [apply d_divide_const_r|apply d_divide_const_l|apply d_pow_const_r|apply d_pow_const_l|apply d_prelu|apply d_elu]; exact H.
Qed.

Ltac gath := apply unary_lin_deriv; intros _; apply gather_lin_deriv.
Lemma core_deriv (c : @cop R) : desc_deriv (describe 0 Rplus Rmult Rminus Ropp c) (real_dom (RCore c)).
Proof.
  destruct c; cbn [describe real_dom].
  - (* Parameter *) apply leaf_deriv.
  - (* Input *) apply leaf_deriv.
  - (* StopGradient *) intros xs dxs Hx Hok [].
  - (* Copy *) gath.
  - (* Add *) apply (desc_deriv_weaken _ _ _ (ew_deriv sa sb _ _ _ _ _ chain2_add)). intros xs _ e _. exact I.
  - (* Subtract *) apply (desc_deriv_weaken _ _ _ (ew_deriv sa sb _ _ _ _ _ chain2_sub)). intros xs _ e _. exact I.
  - (* Multiply *) apply (desc_deriv_weaken _ _ _ (ew_deriv sa sb _ _ _ _ _ chain2_mul)). intros xs _ e _. exact I.
  - (* Slice *) gath.
  - (* Pick *) gath.
  - (* Sum *) apply unary_lin_deriv. intro H. apply scatter_lin_deriv.
    destruct (sum_ok_pair sx sy dim H) as (_ & _ & Hb). intros e He. unfold acc_in_bounds in Hb. rewrite Forall_forall in Hb. apply (Hb e He).
  - (* Broadcast *) gath.
  - (* Flip *) gath.
  - (* Transpose *) gath.
  - (* PermuteDims *) gath.
  - (* Reshape *) gath.
  - (* BatchSlice *) gath.
  - (* BatchPick *) gath.
  - (* BatchSum *) apply unary_lin_deriv. intro H. apply scatter_lin_deriv.
    destruct (batch_sum_ok_adj sx sy H) as (_ & Hb). intros e He. unfold acc_in_bounds in Hb. rewrite Forall_forall in Hb. apply (Hb e He).
  - (* Split *) apply fan_deriv.
  - (* BatchSplit *) apply fan_deriv.
  - (* Convolution2D *) apply bil_deriv. intro H. apply conv2d_ok_bounds. exact H.
  - (* BatchConcat *) apply nary_deriv.
  - (* Concat *) apply nary_deriv.
  - (* MatrixMultiply *) apply matmul_deriv.
  - (* AddConst *) apply un_deriv; [|reflexivity]. intros u u' Hu.
    apply (is_derive_eq _ _ (u' + 0)); [ring|]. apply (is_derive_plus (K := R_AbsRing) (V := R_NormedModule) u (fun _ => k) 0 u' 0 Hu). apply (is_derive_const k 0).
  - (* SubtractConstR *) apply un_deriv; [|reflexivity]. intros u u' Hu.
    apply (is_derive_eq _ _ (u' - 0)); [ring|]. apply (is_derive_minus (K := R_AbsRing) (V := R_NormedModule) u (fun _ => k) 0 u' 0 Hu). apply (is_derive_const k 0).
  - (* SubtractConstL *) apply un_deriv; [|apply Ropp_0]. intros u u' Hu.
    apply (is_derive_eq _ _ (0 - u')); [ring|]. apply (is_derive_minus (K := R_AbsRing) (V := R_NormedModule) (fun _ => k) u 0 0 u'); [apply (is_derive_const k 0)|exact Hu].
  - (* MultiplyConst *) apply un_deriv; [|apply Rmult_0_l]. intros u u' Hu.
    apply (is_derive_eq _ _ (u' * k + u 0 * 0)); [ring|].
    apply (is_derive_mult u (fun _ => k) 0 u' 0 Hu); [apply (is_derive_const k 0)|intros; apply Rmult_comm].
  - (* Negative *) apply unary_lin_deriv. intros _. apply (map_lin_deriv Ropp 0); [|apply Ropp_0].
    intros u u' Hu. apply (is_derive_opp (K := R_AbsRing) (V := R_NormedModule) u 0 u' Hu).
  - (* AddScalar *) apply (sclin_deriv sx sk Rplus (fun _ _ da db => da + db) _ _ chain2_add). reflexivity.
  - (* SubtractScalarR *) apply (sclin_deriv sx sk Rminus (fun _ _ da db => da - db) _ _ chain2_sub). reflexivity.
  - (* SubtractScalarL *) apply (sclin_deriv sx sk (fun x k => k - x) (fun _ _ dx dk => dk - dx) _ _ chain2_subl). reflexivity.
  - (* MultiplyScalar *) apply mulsc_deriv.
Qed.

(* the tangent of every operator of real_family is the derivative of its forward value, on its smooth domain *)
Theorem jvp_is_derivative (o : rop) : desc_deriv (describeR o) (real_dom o).
Proof.
  destruct o as [c|u s|c s k|s|s|s k|b sa sb|sx sy dim|sx sy dim|sx sy dim|sx sy dim|sx sp ids dim|sx sy w0 w1 p0 p1 s0 s1|sx sk|sx sk|sx sk|sx sk|sx st srx sy dim|sx srx sp ids dim]; cbn [describeR real_dom].
  - apply core_deriv.
  - apply (uny_deriv s (un_fw u) (un_bw u) (un_dom u)). apply un_slope.
  - apply (uny_deriv s (fun x => k_fw c x k) (fun x y g => k_bw c x y g k) (k_dom c k)). apply k_slope.
  - apply (uny_deriv s (fun x => fw_prelu x 0) (fun x y g => bw_prelu x y g 0) (fun x => x <> 0)). apply d_relu.
  - apply (uny_deriv s (fun x => fw_prelu x (1 / 100)) (fun x y g => bw_prelu x y g (1 / 100)) (fun x => x <> 0)). apply d_lrelu.
  - intros xs dxs Hx Hok [Hk Hd]. revert xs dxs Hx Hok Hd.
    apply (uny_deriv s (fun x => fw_pown x k) (fun x y g => bw_pown x y g k) (fun x => x <> 0)). intros x Hx. apply d_pown; assumption.
  - destruct b.
    + apply (ewy_deriv sa sb fw_divide (b_jvp BDivide) _ _ _ chain2_div).
    + apply (ewy_deriv sa sb fw_pow (b_jvp BPow) _ _ _ chain2_pow).
  - apply (ext_deriv rgt sx sy dim rgt_asym rgt_irrefl open_rgt).
  - apply (ext_deriv rlt sx sy dim rlt_asym rlt_irrefl open_rlt).
  - apply lse_deriv.
  - apply sce_deriv.
  - apply ssce_deriv.
  - apply (redx_deriv rgt flt_lowest sx sy _ _ rgt_asym rgt_irrefl open_rgt).
  - apply (scy_deriv sx sk _ _ _ _ _ _ _ chain2_divscr).
  - apply (scy_deriv sx sk _ _ _ _ _ _ _ chain2_divscl).
  - apply (scy_deriv sx sk _ _ _ _ _ _ _ chain2_powscr).
  - apply (scy_deriv sx sk _ _ _ _ _ _ _ chain2_powscl).
  - apply sceb_deriv.
  - apply ssceb_deriv.
Qed.

(* readable instances: one operand curve x with derivative dx at 0 (e.g. the line x0 + t dx) *)
Corollary jvp_is_derivative_unary (u : unop) (s : tshape) (x : R -> list R) (dx : list R) :
  cderiv x dx -> (forall i, (i < tsize s)%nat -> un_dom u (nth i (x 0) 0)) ->
  cderiv (fun t => un_eval R 0 (un_fw u) (tsize s) (x t))
         (map (fun e : nat * (nat * nat) => nth (snd (snd e)) dx 0 * un_bw u (nth (snd (snd e)) (x 0) 0) (un_fw u (nth (snd (snd e)) (x 0) 0)) 1)
              (identity_pairs (tsize s))).
Proof.
  intros Hx Hd.
  assert (Hk : forall k, cderiv (fun t => nth k [x t] []) (nth k [dx] [])) by (intro k; apply cderiv_single; exact Hx).
  exact (jvp_is_derivative (RUn u s) (fun t => [x t]) [dx] Hk eq_refl Hd 0%nat).
Qed.
Corollary jvp_is_derivative_binary (b : bop) (sa sb : tshape) (x y : R -> list R) (dx dy : list R) :
  ew_ok sa sb = true -> cderiv x dx -> cderiv y dy ->
  (forall e, In e (ab_fw sa sb (ew_shape sa sb)) -> b_dom b (nth (fst (snd e)) (x 0) 0) (nth (snd (snd e)) (y 0) 0)) ->
  cderiv (fun t => ab_eval R 0 (b_fw b) (ab_fw sa sb (ew_shape sa sb)) (x t) (y t))
         (map (fun e : nat * (nat * nat) =>
                 b_jvp b (nth (fst (snd e)) (x 0) 0) (nth (snd (snd e)) (y 0) 0) (nth (fst (snd e)) dx 0) (nth (snd (snd e)) dy 0))
              (ab_fw sa sb (ew_shape sa sb))).
Proof.
  intros Hok Hx Hy Hd.
  assert (Hk : forall k, cderiv (fun t => nth k [x t; y t] []) (nth k [dx; dy] [])).
  { intros [|[|k]]; [exact Hx|exact Hy|].
    replace (nth (S (S k)) [dx; dy] []) with (@nil R) by (destruct k; reflexivity).
    apply (cderiv_ext (fun _ => [])); [intro t; destruct k; reflexivity|apply cderiv_nil]. }
  exact (jvp_is_derivative (RBin b sa sb) (fun t => [x t; y t]) [dx; dy] Hk Hok Hd 0%nat).
Qed.
