(* Semantics of index programs and the generic facts every kernel proof uses:
   - assign / scatter interpreters over an arbitrary scalar type,
   - `covers`: the destinations of a program are exactly 0..n-1, each once  (C11: every output
     element written exactly once; no read of an uninitialised cell),
   - in-bounds predicates (C11),
   - scatter-add is the accumulating adjoint of gather (C01), over any commutative ring given
     as Section variables,
   - the column-major coordinate bridge  flat base n low k high = low + base*(k + n*high). *)
From Coq Require Import List Arith Lia Permutation.
From PV Require Import Tensor.Kernels.
Import ListNotations.

(* ------------------------------------------------------------------ coordinates *)
Definition flat (base n low k high : nat) : nat := low + base * (k + n * high).

Lemma flat_lt base n r low k high :
  low < base -> k < n -> high < r -> flat base n low k high < base * n * r.
Proof.
  unfold flat. intros Hl Hk Hh.
  assert (H1 : k + n * high + 1 <= n * r) by nia.
  assert (H2 : base * (k + n * high + 1) <= base * (n * r)) by (apply Nat.mul_le_mono_l; exact H1).
  lia.
Qed.

Lemma flat_inj base n l1 k1 h1 l2 k2 h2 :
  l1 < base -> l2 < base -> k1 < n -> k2 < n ->
  flat base n l1 k1 h1 = flat base n l2 k2 h2 -> l1 = l2 /\ k1 = k2 /\ h1 = h2.
Proof.
  unfold flat. intros Hl1 Hl2 Hk1 Hk2 H.
  assert (l1 = l2).
  { assert (E : (l1 + base * (k1 + n * h1)) mod base = (l2 + base * (k2 + n * h2)) mod base) by (rewrite H; reflexivity).
    rewrite !(Nat.mul_comm base), !Nat.mod_add, !Nat.mod_small in E by lia. exact E. }
  subst l2. assert (E2 : k1 + n * h1 = k2 + n * h2) by nia.
  assert (k1 = k2).
  { assert (E : (k1 + n * h1) mod n = (k2 + n * h2) mod n) by (rewrite E2; reflexivity).
    rewrite !(Nat.mul_comm n), !Nat.mod_add, !Nat.mod_small in E by lia. exact E. }
  subst k2. split; [reflexivity|]. split; [reflexivity|]. nia.
Qed.

(* every flat index below base*n*r has coordinates *)
Lemma flat_split base n r i : 0 < base -> 0 < n -> i < base * n * r ->
  exists low k high, low < base /\ k < n /\ high < r /\ i = flat base n low k high.
Proof.
  intros Hb Hn Hi. exists (i mod base), ((i / base) mod n), (i / base / n).
  assert (H1 : i mod base < base) by (apply Nat.mod_upper_bound; lia).
  assert (H2 : (i / base) mod n < n) by (apply Nat.mod_upper_bound; lia).
  split; [exact H1|]. split; [exact H2|]. split.
  - apply Nat.div_lt_upper_bound; [lia|]. apply Nat.div_lt_upper_bound; [lia|]. lia.
  - unfold flat. pose proof (Nat.div_mod i base ltac:(lia)) as E1.
    pose proof (Nat.div_mod (i / base) n ltac:(lia)) as E2. lia.
Qed.

(* the offset arithmetic of sum/max/broadcast/argmax: i mod skip1 + (i / skip1) * skip2 *)
Lemma axis_offset base n low high : low < base ->
  let i := low + base * high in
  i mod base + (i / base) * (base * n) = flat base n low 0 high.
Proof.
  intros Hl i. subst i. unfold flat.
  rewrite (Nat.mul_comm base high), Nat.mod_add, Nat.mod_small, Nat.div_add, Nat.div_small by lia. lia.
Qed.

(* ------------------------------------------------------------------ programs *)
Section Interp.
  Variable T : Type.
  Variable zero : T.
  Variable add : T -> T -> T.

  Definition upd (l : list T) (i : nat) (v : T) : list T :=
    firstn i l ++ v :: skipn (S i) l.

  (* forward data movement into an output of option cells (None = never written) *)
  Fixpoint assign (p : mov) (xs : list (list T)) (y : list (option T)) : list (option T) :=
    match p with
    | [] => y
    | (d, (k, s)) :: r =>
        assign r xs (firstn d y ++ Some (nth s (nth k xs []) zero) :: skipn (S d) y)
    end.

  (* backward accumulation gx[d] += gy[s] *)
  Fixpoint scatter (p : acc) (gy gx : list T) : list T :=
    match p with
    | [] => gx
    | (d, s) :: r => scatter r gy (upd gx d (add (nth d gx zero) (nth s gy zero)))
    end.
End Interp.

(* destinations = 0..n-1, each exactly once *)
Definition covers {A} (p : list (nat * A)) (n : nat) : Prop := Permutation (map fst p) (seq 0 n).
(* stronger, order-revealing form used by the kernels that write sequentially *)
Definition sequential {A} (p : list (nat * A)) (n : nat) : Prop := map fst p = seq 0 n.

Lemma sequential_covers {A} (p : list (nat * A)) n : sequential p n -> covers p n.
Proof. unfold sequential, covers. intros ->. apply Permutation_refl. Qed.

Definition mov_in_bounds (p : mov) (sizes : list nat) : Prop :=
  Forall (fun e => snd (snd e) < nth (fst (snd e)) sizes 0) p.
Definition acc_in_bounds (p : acc) (ndst nsrc : nat) : Prop :=
  Forall (fun e => fst e < ndst /\ snd e < nsrc) p.
Definition red_in_bounds (p : red) (nsrc : nat) : Prop :=
  Forall (fun e => Forall (fun s => s < nsrc) (snd e)) p.

Lemma map_add_seq k : forall c o, map (fun j => k + j) (seq o c) = seq (k + o) c.
Proof.
  induction c as [|c IH]; intro o; cbn [seq map]; [reflexivity|].
  f_equal. rewrite IH. f_equal. lia.
Qed.

(* generic sequential lemma for the two-level nests  dst = i * c + j *)
Lemma seq_nest {A} (a c : nat) (f : nat -> nat -> A) :
  map fst (flat_map2 a (fun i => map (fun j => (i * c + j, f i j)) (range c))) = seq 0 (a * c).
Proof.
  unfold flat_map2, range.
  assert (G : forall a0 s, map fst (flat_map (fun i => map (fun j => (i * c + j, f i j)) (seq 0 c)) (seq s a0))
                          = seq (s * c) (a0 * c)).
  { induction a0 as [|a0 IH]; intro s; cbn [seq flat_map]; [reflexivity|].
    rewrite map_app, IH, map_map. cbn [fst].
    replace (S a0 * c) with (c + a0 * c) by lia. rewrite seq_app. f_equal.
    - rewrite (map_add_seq (s * c) c 0). f_equal. lia.
    - f_equal. lia. }
  rewrite (G a 0). reflexivity.
Qed.

Lemma In_flat_map2 {A} n (f : nat -> list A) x :
  In x (flat_map2 n f) <-> exists i, i < n /\ In x (f i).
Proof.
  unfold flat_map2, range. rewrite in_flat_map. split.
  - intros [i [Hi Hx]]. apply in_seq in Hi. exists i. split; [lia|exact Hx].
  - intros [i [Hi Hx]]. exists i. split; [apply in_seq; lia|exact Hx].
Qed.

Lemma In_map_range {A} n (f : nat -> A) x : In x (map f (range n)) <-> exists j, j < n /\ x = f j.
Proof.
  unfold range. rewrite in_map_iff. split.
  - intros [j [E Hj]]. apply in_seq in Hj. exists j. split; [lia|auto].
  - intros [j [Hj E]]. exists j. split; [auto|apply in_seq; lia].
Qed.

(* ------------------------------------------------------------------ adjointness *)
Section Adjoint.
  Variable T : Type.
  Variables (zero : T) (add mul : T -> T -> T).
  Hypothesis add_comm : forall a b, add a b = add b a.
  Hypothesis add_assoc : forall a b c, add a (add b c) = add (add a b) c.
  Hypothesis add_0_l : forall a, add zero a = a.
  Hypothesis mul_add_distr_r : forall a b c, mul (add a b) c = add (mul a c) (mul b c).
  Hypothesis mul_0_l : forall a, mul zero a = zero.

  Fixpoint dot (a b : list T) : T :=
    match a, b with
    | x :: a', y :: b' => add (mul x y) (dot a' b')
    | _, _ => zero
    end.

  (* gather along an acc program read backwards: y[s] collects dx[d] *)
  Fixpoint gather_sum (p : acc) (gy dx : list T) : T :=
    match p with
    | [] => zero
    | (d, s) :: r => add (mul (nth s gy zero) (nth d dx zero)) (gather_sum r gy dx)
    end.

  Lemma dot_upd gx : forall d v dx, d < length gx -> length dx = length gx ->
    dot (upd T gx d (add (nth d gx zero) v)) dx = add (dot gx dx) (mul v (nth d dx zero)).
  Proof.
    unfold upd. induction gx as [|g gx IH]; intros d v dx Hd Hl; cbn [length] in *; [lia|].
    destruct dx as [|x dx]; cbn [length] in Hl; [lia|].
    destruct d as [|d]; cbn [firstn skipn app nth dot].
    - rewrite mul_add_distr_r. rewrite <- !add_assoc. f_equal. apply add_comm.
    - rewrite IH by lia. rewrite add_assoc. reflexivity.
  Qed.

  Lemma upd_length gx d v : d < length gx -> length (upd T gx d v) = length gx.
  Proof.
    intro H. unfold upd. rewrite app_length, firstn_length. cbn [length]. rewrite skipn_length. lia.
  Qed.

  (* <scatter p gy gx, dx> = <gx, dx> + sum over pairs gy[s] * dx[d] :
     the backward kernel adds exactly the transpose of the forward gather, on top of any gx *)
  Theorem scatter_adjoint p : forall gy gx dx,
    acc_in_bounds p (length gx) (length gy) -> length dx = length gx ->
    dot (scatter T zero add p gy gx) dx = add (dot gx dx) (gather_sum p gy dx).
  Proof.
    induction p as [|[d s] r IH]; intros gy gx dx Hb Hl; cbn [scatter gather_sum].
    - rewrite add_comm, add_0_l. reflexivity.
    - inversion Hb as [|? ? [Hd Hs] Hr]; subst. cbn [fst snd] in *.
      rewrite IH.
      + rewrite dot_upd by assumption. rewrite <- add_assoc. reflexivity.
      + rewrite upd_length by assumption. exact Hr.
      + rewrite upd_length by assumption. exact Hl.
  Qed.
End Adjoint.
