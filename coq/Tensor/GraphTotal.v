(* Totality of forward / backward / the reverse sweep for the CONCRETE operator families
   core_family (any commutative ring) and real_family (the reals):
   * core_FamOK / real_FamOK: the families satisfy the contract FamOK of the graph engine (every
     operator's forward returns exactly one value per declared output, whatever its operands -
     the kernels' index programs are total functions; forward_shape returns one shape per output;
     the Parameter operator takes no arguments).  Hence every theorem of Graph/Totality.v applies
     to them: on every world reachable by a history over these families no valid request makes
     the model abort, and backward on a valid node returns a result.
   * the tape-level adjoint theorems of Tensor/GraphInst.v, GraphInstR.v, TapeDeriv.v with the
     hypothesis `sweep ... = Some _` removed (replaced by the decidable readiness of the tape).
   * the example tapes of GraphInstEx.v / GraphInstREx.v are ready (non-vacuity). *)
From Coq Require Import List NArith ZArith Bool Arith Lia Ring Reals.
From Coquelicot Require Import Coquelicot.
From PV Require Import Graph.OpFamily Graph.Tape Graph.Lazy Graph.Backward Graph.TapeLemmas Graph.LazyProofs
  Graph.BackwardProofs Graph.HistoryProofs Graph.FrameProofs Graph.MoreProofs Graph.Theorems Graph.ADProof
  Graph.Example Graph.ADExample Graph.Totality Graph.TotalityAD
  Tensor.Kernels Tensor.Index Tensor.AdjCore Tensor.GraphInst Tensor.GraphInstEx
  Tensor.GraphInstR Tensor.TapeDeriv Tensor.GraphInstREx.
Import ListNotations.

(* ---------------------------------------------------------------- families built from descriptors *)
Section Desc.
  Context {R : Type} (rO : R) (radd rmul : R -> R -> R).
  Lemma desc_family_FamOK {O} (describe : O -> opdesc (R := R)) inner dev :
    (forall o xs, length (d_fw (describe o) xs) = length (d_rets (describe o))) ->
    (forall o p, inner o = Some p -> d_args (describe o) = []) ->
    FamOK (desc_family describe inner dev).
  Proof.
    intros Hfw Hin. split; [|split].
    - intros o pos xs. cbn [desc_family f_fw f_retn]. apply Hfw.
    - intros o shs rs. cbn [desc_family f_shape f_retn]. unfold desc_shape.
      destruct (d_ok (describe o) && shapes_eqb shs (d_args (describe o)))%bool; [intros [= <-]; reflexivity|discriminate].
    - intros o p Hp. cbn [desc_family f_inner f_argn] in *. rewrite (Hin o p Hp). reflexivity.
  Qed.
End Desc.

Section Core.
  Context {R : Type} (rO rI : R) (radd rmul rsub : R -> R -> R) (ropp : R -> R).
  Hypothesis Rth : ring_theory rO rI radd rmul rsub ropp eq.
  Notation core_family := (core_family rO radd rmul rsub ropp).
  Notation core_jvp := (core_jvp rO radd rmul rsub ropp).
  Notation VO := (vec_ops rO rI radd tsize).

  Lemma core_fw_len (o : @cop R) xs :
    length (d_fw (describe rO radd rmul rsub ropp o) xs) = length (d_rets (describe rO radd rmul rsub ropp o)).
  Proof. destruct o; try reflexivity; cbn; rewrite map_length, seq_length, repeat_length; reflexivity. Qed.

  Theorem core_FamOK : FamOK core_family.
  Proof.
    apply desc_family_FamOK; [exact core_fw_len|].
    intros o p. destruct o; try discriminate. intros _. reflexivity.
  Qed.

  Theorem C01_backward_is_adjoint_concrete_total
    (tan : nat * nat -> @OpFamily.vec R) (dp : nat -> @OpFamily.vec R)
    (ops0 : list (@opinfo cop tshape (@OpFamily.vec R))) (e0 : @env (@OpFamily.vec R)) (ps : list nat) :
    wf_ops ops0 -> shape_ok core_family ops0 -> consistent core_family core_jvp tan dp ops0 e0 ->
    rsized core_family tsize tan ops0 e0 -> NoDup ps ->
    (forall k oi p, nth_error ops0 k = Some oi -> f_inner core_family (o_op oi) = Some p -> In p ps) ->
    tape_ready core_family ops0 ->
    forall n sn bl,
      gclean ops0 -> psz core_family tsize ops0 e0 -> get_slot_ops ops0 n = Some sn ->
      exists ops' e' bl',
        sweep core_family VO (fst n)
          (upd_ops ops0 n (fun s => set_grad s (Some (vones VO (s_shape s))))) e0 bl = Some (ops', e', bl') /\
        ppot rO radd rmul dp ps e' = radd (ppot rO radd rmul dp ps e0) (OpFamily.dot rO radd rmul (vones VO (s_shape sn)) (tan n)) /\
        gclean ops' /\ e_pval e' = e_pval e0.
  Proof.
    intros Hwf Hsh Hc Hr Hnd Hcov Hready n sn bl Hcl Hps Hn.
    destruct (sweep_seeded_total core_family VO ops0 e0 n sn bl Hwf Hready Hn) as (ops' & e' & bl' & Hs).
    exists ops', e', bl'. split; [exact Hs|].
    exact (C01_backward_is_adjoint_concrete rO rI radd rmul rsub ropp Rth tan dp ops0 e0 ps
             Hwf Hsh Hc Hr Hnd Hcov n sn bl ops' e' bl' Hcl Hps Hn Hs).
  Qed.
  (* C01_backward_call_is_adjoint_concrete on a graph of ANY world reachable by a history over
     core_family: neither `backward ... = Some` nor wf_ops / shape_ok / gclean are hypotheses *)
  Theorem C01_backward_call_is_adjoint_concrete_reachable
    (tan : nat * nat -> @OpFamily.vec R) (dp : nat -> @OpFamily.vec R)
    (e : @env (@OpFamily.vec R)) (cs : list (@cmd cop tshape (@OpFamily.vec R))) gi
    (g : @gstate cop tshape (@OpFamily.vec R)) (e0 : @env (@OpFamily.vec R)) (ps : list nat) :
    nth_error (w_graphs (run_all core_family VO {| w_graphs := []; w_env := e |} cs)) gi = Some g ->
    consistent core_family core_jvp tan dp (g_ops g) e0 ->
    rsized core_family tsize tan (g_ops g) e0 -> NoDup ps ->
    (forall k oi p, nth_error (g_ops g) k = Some oi -> f_inner core_family (o_op oi) = Some p -> In p ps) ->
    forall n sn v,
      psz core_family tsize (g_ops g) e0 -> get_slot g n = Some sn -> s_val sn = Some v ->
      exists g' e',
        backward core_family VO g e0 n = Some (g', e') /\
        ppot rO radd rmul dp ps e' = radd (ppot rO radd rmul dp ps e0) (vsum rO radd (tan n)) /\
        gclean (g_ops g') /\ e_pval e' = e_pval e0.
  Proof.
    intros Eg Hc Hr Hnd Hcov n sn v Hps Hsn Hv.
    destruct (T_reachable_invariant core_family VO core_FamOK e cs) as (Hw & Hsh).
    unfold winv, wshape in *. rewrite Forall_forall in Hw, Hsh.
    destruct (Hw g (nth_error_In _ _ Eg)) as (Hinv & Hcl & _). pose proof (Hsh g (nth_error_In _ _ Eg)) as Hshape.
    assert (Hs : get_slot g n <> None) by congruence.
    destruct (backward_total core_family VO (proj1 core_FamOK) g e0 n Hinv Hcl Hs) as (g' & e' & Hb).
    exists g', e'. split; [exact Hb|].
    exact (C01_backward_call_is_adjoint_concrete rO rI radd rmul rsub ropp Rth tan dp g e0 ps
             (proj1 Hinv) Hshape Hc Hr Hnd Hcov n sn v g' e' Hcl Hps Hsn Hv Hb).
  Qed.
End Core.

(* ---------------------------------------------------------------- the real family *)
Local Open Scope R_scope.

Lemma real_fw_len (o : rop) xs : length (d_fw (describeR o) xs) = length (d_rets (describeR o)).
Proof.
  destruct o as [c|u s|c s k|s|s|s k|b sa sb|sx sy dim|sx sy dim|sx sy dim|sx sy dim|sx sp ids dim|sx sy w0 w1 p0 p1 s0 s1|sx sk|sx sk|sx sk|sx sk|sx st srx sy dim|sx srx sp ids dim];
    cbn [describeR]; try reflexivity.
  apply core_fw_len.
Qed.

Theorem real_FamOK : FamOK real_family.
Proof.
  apply desc_family_FamOK; [exact real_fw_len|].
  intros o p. destruct o as [c| | | | | | | | | | | | | | | | | | ]; try discriminate. destruct c; try discriminate. intros _. reflexivity.
Qed.

Theorem C01_backward_is_adjoint_real_total
  (tan : nat * nat -> @OpFamily.vec R) (dp : nat -> @OpFamily.vec R)
  (ops0 : list (@opinfo rop tshape (@OpFamily.vec R))) (e0 : @env (@OpFamily.vec R)) (ps : list nat) :
  wf_ops ops0 -> shape_ok real_family ops0 -> consistent real_family real_jvp tan dp ops0 e0 ->
  rsized real_family tsize tan ops0 e0 -> NoDup ps ->
  (forall k oi p, nth_error ops0 k = Some oi -> f_inner real_family (o_op oi) = Some p -> In p ps) ->
  tape_ready real_family ops0 ->
  forall n sn bl,
    gclean ops0 -> psz real_family tsize ops0 e0 -> get_slot_ops ops0 n = Some sn ->
    exists ops' e' bl',
      sweep real_family (vec_ops 0 1 Rplus tsize) (fst n)
        (upd_ops ops0 n (fun s => set_grad s (Some (vones (vec_ops 0 1 Rplus tsize) (s_shape s))))) e0 bl = Some (ops', e', bl') /\
      ppot 0 Rplus Rmult dp ps e' = ppot 0 Rplus Rmult dp ps e0 + vsum 0 Rplus (tan n) /\
      gclean ops' /\ e_pval e' = e_pval e0.
Proof.
  intros Hwf Hsh Hc Hr Hnd Hcov Hready n sn bl Hcl Hps Hn.
  destruct (sweep_seeded_total real_family (vec_ops 0 1 Rplus tsize) ops0 e0 n sn bl Hwf Hready Hn) as (ops' & e' & bl' & Hs).
  exists ops', e', bl'. split; [exact Hs|].
  exact (C01_backward_is_adjoint_real tan dp ops0 e0 ps Hwf Hsh Hc Hr Hnd Hcov n sn bl ops' e' bl' Hcl Hps Hn Hs).
Qed.

Theorem C01_backward_computes_derivative_real_total
  (dp : nat -> @OpFamily.vec R) (ops0 : list (@opinfo rop tshape (@OpFamily.vec R))) (e0 : @env (@OpFamily.vec R)) (ps : list nat) :
  let tan := val_at (real_tangents ops0 e0 dp) in
  (forall p, length (e_pval e0 p) = length (dp p)) -> real_smooth ops0 e0 ->
  wf_ops ops0 -> shape_ok real_family ops0 -> consistent real_family real_jvp tan dp ops0 e0 ->
  rsized real_family tsize tan ops0 e0 -> NoDup ps ->
  (forall k oi p, nth_error ops0 k = Some oi -> f_inner real_family (o_op oi) = Some p -> In p ps) ->
  tape_ready real_family ops0 ->
  forall n sn bl,
    gclean ops0 -> psz real_family tsize ops0 e0 -> get_slot_ops ops0 n = Some sn ->
    exists ops' e' bl',
      sweep real_family (vec_ops 0 1 Rplus tsize) (fst n)
        (upd_ops ops0 n (fun s => set_grad s (Some (vones (vec_ops 0 1 Rplus tsize) (s_shape s))))) e0 bl = Some (ops', e', bl') /\
      ppot 0 Rplus Rmult dp ps e' =
        ppot 0 Rplus Rmult dp ps e0 +
        fold_right Rplus 0 (map (fun i => Derive (fun t => nth i (val_at (real_eval ops0 e0 dp t) n) 0) 0)
                                (seq 0 (tsize (s_shape sn)))) /\
      (forall i, is_derive (fun t => nth i (val_at (real_eval ops0 e0 dp t) n) 0) 0
                           (nth i (val_at (real_tangents ops0 e0 dp) n) 0)) /\
      gclean ops' /\ e_pval e' = e_pval e0.
Proof.
  intros tan Hlen Hsm Hwf Hsh Hc Hr Hnd Hcov Hready n sn bl Hcl Hps Hn.
  destruct (sweep_seeded_total real_family (vec_ops 0 1 Rplus tsize) ops0 e0 n sn bl Hwf Hready Hn) as (ops' & e' & bl' & Hs).
  exists ops', e', bl'. split; [exact Hs|].
  exact (C01_backward_computes_derivative_real dp ops0 e0 ps Hlen Hsm Hwf Hsh Hc Hr Hnd Hcov n sn bl ops' e' bl' Hcl Hps Hn Hs).
Qed.

(* the same for real_family *)
Theorem C01_backward_call_is_adjoint_real_reachable
  (tan : nat * nat -> @OpFamily.vec R) (dp : nat -> @OpFamily.vec R)
  (e : @env (@OpFamily.vec R)) (cs : list (@cmd rop tshape (@OpFamily.vec R))) gi
  (g : @gstate rop tshape (@OpFamily.vec R)) (e0 : @env (@OpFamily.vec R)) (ps : list nat) :
  nth_error (w_graphs (run_all real_family (vec_ops 0 1 Rplus tsize) {| w_graphs := []; w_env := e |} cs)) gi = Some g ->
  consistent real_family real_jvp tan dp (g_ops g) e0 ->
  rsized real_family tsize tan (g_ops g) e0 -> NoDup ps ->
  (forall k oi p, nth_error (g_ops g) k = Some oi -> f_inner real_family (o_op oi) = Some p -> In p ps) ->
  forall n sn v,
    psz real_family tsize (g_ops g) e0 -> get_slot g n = Some sn -> s_val sn = Some v ->
    exists g' e',
      backward real_family (vec_ops 0 1 Rplus tsize) g e0 n = Some (g', e') /\
      ppot 0 Rplus Rmult dp ps e' =
        ppot 0 Rplus Rmult dp ps e0 + OpFamily.dot 0 Rplus Rmult (vones (vec_ops 0 1 Rplus tsize) (s_shape sn)) (tan n) /\
      gclean (g_ops g') /\ e_pval e' = e_pval e0.
Proof.
  intros Eg Hc Hr Hnd Hcov n sn v Hps Hsn Hv.
  exact (backward_adjoint_reachable 0 1 Rplus Rmult Rminus Ropp RthR real_family real_jvp tsize tan dp real_FamOK
           e cs gi g e0 ps Eg (fun k oi _ _ => real_LocalAdjoint (o_op oi)) Hc Hr Hnd Hcov n sn v Hps Hsn Hv).
Qed.

(* ---------------------------------------------------------------- non-vacuity *)
Local Close Scope R_scope.
Lemma ad_ready : tape_ready EF ad_ops0.
Proof. vm_compute. reflexivity. Qed.
Lemma cx_ready : tape_ready zF cx_ops0.
Proof. vm_compute. reflexivity. Qed.
Lemma cy_ready : tape_ready zF cy_ops0.
Proof. vm_compute. reflexivity. Qed.
Lemma rx_ready : tape_ready real_family rx_ops0.
Proof. lazy. reflexivity. Qed.
Lemma ry_ready : tape_ready real_family ry_ops0.
Proof. lazy. reflexivity. Qed.

(* the adjoint theorem, applied to EVERY node of the 41-operator tape cy as target (not only the
   node 40 whose sweep the example of Properties_C01_graph.v runs by vm_compute): the sweep
   returns and its result is the derivative *)
Lemma cy_total n sn bl : get_slot_ops cy_ops0 n = Some sn ->
  exists ops' e' bl',
    sweep zF cVO (fst n) (upd_ops cy_ops0 n (fun s => set_grad s (Some (vones cVO (s_shape s))))) cy_env bl = Some (ops', e', bl') /\
    ppot 0%Z Z.add Z.mul cy_dp [0; 1; 2; 3] e' =
      (ppot 0%Z Z.add Z.mul cy_dp [0; 1; 2; 3]%nat cy_env + OpFamily.dot 0%Z Z.add Z.mul (vones cVO (s_shape sn)) (cy_tan n))%Z /\
    gclean ops' /\ e_pval e' = e_pval cy_env.
Proof.
  exact (C01_backward_is_adjoint_concrete_total 0%Z 1%Z Z.add Z.mul Z.sub Z.opp Zth cy_tan cy_dp cy_ops0 cy_env [0; 1; 2; 3]
           cy_wf cy_shape_ok cy_consistent cy_rsized cy_nodup cy_cover cy_ready n sn bl cy_gclean cy_psz).
Qed.

Lemma ry_total n sn bl : get_slot_ops ry_ops0 n = Some sn ->
  exists ops' e' bl',
    sweep real_family rVO (fst n) (upd_ops ry_ops0 n (fun s => set_grad s (Some (vones rVO (s_shape s))))) ry_env bl = Some (ops', e', bl') /\
    ppot 0%R Rplus Rmult ry_dp [0; 1] e' = (ppot 0%R Rplus Rmult ry_dp [0; 1]%nat ry_env + vsum 0%R Rplus (ry_tan n))%R /\
    gclean ops' /\ e_pval e' = e_pval ry_env.
Proof.
  exact (C01_backward_is_adjoint_real_total ry_tan ry_dp ry_ops0 ry_env [0; 1]
           ry_wf ry_shape_ok ry_consistent ry_rsized ry_nodup ry_cover ry_ready n sn bl ry_gclean ry_psz).
Qed.

(* history level over the concrete family: the history that builds the 41-operator graph,
   followed by backward requests, is valid; so no step aborts, the strict run equals run_all, and
   on the reached world backward returns for every valid node *)
Definition cy_w0 : @world zcop tshape (@OpFamily.vec Z) := {| w_graphs := []; w_env := cy_env |}.
Definition cy_hist : list (@cmd zcop tshape (@OpFamily.vec Z)) :=
  cy_cmds ++ [CBackward 0 (40, 0); CBackward 0 (18, 0); CForward 0 (6, 1); CBackward 0 (6, 1); CBackward 0 (33, 0)].
Lemma zF_ok : FamOK zF.
Proof. exact (core_FamOK 0%Z Z.add Z.mul Z.sub Z.opp). Qed.
Lemma cy_hist_valid : hist_valid zF cVO cy_w0 cy_hist.
Proof. apply hist_valid_b_spec. vm_compute. reflexivity. Qed.
Lemma cy_hist_total :
  never_aborts zF cVO cy_w0 cy_hist /\ run_strict zF cVO cy_w0 cy_hist = Some (run_all zF cVO cy_w0 cy_hist) /\
  forall gi g n, nth_error (w_graphs (run_all zF cVO cy_w0 cy_hist)) gi = Some g -> get_slot g n <> None ->
    forall e1, exists g' e', backward zF cVO g e1 n = Some (g', e').
Proof.
  pose proof (history_never_aborts zF cVO (proj1 zF_ok) (proj1 (proj2 zF_ok)) (proj2 (proj2 zF_ok)) cy_hist cy_w0 (winv_init zF cy_env) cy_hist_valid) as Hn.
  split; [exact Hn|]. split; [apply run_strict_eq; exact Hn|].
  intros gi g n Eg Hs e1.
  exact (reachable_backward_total zF cVO (proj1 zF_ok) (proj1 (proj2 zF_ok)) (proj2 (proj2 zF_ok)) cy_env cy_hist gi g n Eg Hs e1).
Qed.

(* the reachable-graph form applied to the graph built by the history cy_cmds: every evaluated
   node (all 41 operators are evaluated by the final forward) is a target for which backward
   returns and adds the derivative *)
Lemma cy_reachable_call :
  exists g, nth_error (w_graphs (run_all zF cVO cy_w0 cy_cmds)) 0 = Some g /\ g_ops g = cy_ops0 /\
    forall n sn v, get_slot g n = Some sn -> s_val sn = Some v ->
      exists g' e',
        backward zF cVO g cy_env n = Some (g', e') /\
        ppot 0%Z Z.add Z.mul cy_dp [0; 1; 2; 3] e' = (ppot 0%Z Z.add Z.mul cy_dp [0; 1; 2; 3]%nat cy_env + vsum 0%Z Z.add (cy_tan n))%Z /\
        gclean (g_ops g') /\ e_pval e' = e_pval cy_env.
Proof.
  assert (Hg : exists g, nth_error (w_graphs (run_all zF cVO cy_w0 cy_cmds)) 0 = Some g /\ g_ops g = cy_ops0)
    by (vm_compute; eexists; split; reflexivity).
  destruct Hg as (g & Eg & Hops). exists g. split; [exact Eg|]. split; [exact Hops|].
  intros n sn v Hn Hv.
  assert (Hcov : forall k oi p, nth_error (g_ops g) k = Some oi -> f_inner zF (o_op oi) = Some p -> In p [0; 1; 2; 3])
    by (rewrite Hops; exact cy_cover).
  refine (C01_backward_call_is_adjoint_concrete_reachable 0%Z 1%Z Z.add Z.mul Z.sub Z.opp Zth cy_tan cy_dp cy_env cy_cmds 0 g cy_env [0; 1; 2; 3]
            Eg _ _ cy_nodup Hcov n sn v _ Hn Hv); rewrite Hops.
  - exact cy_consistent.
  - exact cy_rsized.
  - exact cy_psz.
Qed.
