(* C01 over the reals, tape level: the tangents propagated through a tape by the operators' JVPs
   ARE the derivatives of the node values along the parameter direction dp.
     evalT Pc ops V    pure forward evaluation of the tape (operator, argument addresses) list
                       at the parameter values Pc : every node's value, in tape order
     tanT  ops V0 T    forward tangent propagation: Parameter node -> dp p, other node ->
                       d_jvp of its operator at the argument values and argument tangents
     domT  ops V0      every operator's guard holds and its operand values lie in its smooth domain
   Theorem evalT_deriv: for a differentiable curve of parameters t |-> Pc t with derivative dp
   at t = 0, every node value t |-> val_at (evalT (Pc t) ops []) a has, component by component,
   the derivative val_at (tanT ops [] []) a at 0 (induction over the tape, chain rule per
   operator = desc_deriv).  No well-formedness is needed: an address that does not (yet) exist
   reads the empty vector in both passes. *)
From Coq Require Import List NArith ZArith Bool Arith Lia Reals Lra.
From Coquelicot Require Import Coquelicot.
From PV Require Import Graph.OpFamily Graph.Tape Graph.Lazy Graph.Backward Graph.TapeLemmas Graph.LazyProofs
  Graph.BackwardProofs Graph.ADProof Tensor.Kernels Tensor.AdjCore Tensor.GraphInst Tensor.GraphInstR Tensor.AdjDeriv.
Import ListNotations.
Local Open Scope R_scope.

Section Tape.
  Context {O : Type} (describe : O -> @opdesc R) (inner : O -> option nat) (dom : O -> list (list R) -> Prop).
  Hypothesis Hderiv : forall o, inner o = None -> desc_deriv (describe o) (dom o).
  Variable Pc : R -> nat -> list R.           (* the curve of parameter values *)
  Variable dp : nat -> list R.                (* its derivative at 0 *)
  Hypothesis HP : forall p, cderiv (fun t => Pc t p) (dp p).
  Variable P0 : nat -> list R.                (* the parameter values at t = 0 *)
  Hypothesis HP0 : forall p, Pc 0 p = P0 p.

  Definition tnode : Type := (O * list (nat * nat))%type.
  Definition val_at (V : list (list (list R))) (a : nat * nat) : list R := nth (snd a) (nth (fst a) V []) [].

  Definition step (P : nat -> list R) (V : list (list (list R))) (o : O) (args : list (nat * nat)) : list (list R) :=
    match inner o with Some p => [P p] | None => d_fw (describe o) (map (val_at V) args) end.
  Fixpoint evalT (P : nat -> list R) (ops : list tnode) (V : list (list (list R))) : list (list (list R)) :=
    match ops with [] => V | (o, args) :: r => evalT P r (V ++ [step P V o args]) end.

  Definition tstep (V0 T : list (list (list R))) (o : O) (args : list (nat * nat)) : list (list R) :=
    match inner o with
    | Some p => [dp p]
    | None => d_jvp (describe o) (map (val_at V0) args) (map (val_at T) args)
    end.
  Fixpoint tanT (ops : list tnode) (V0 T : list (list (list R))) : list (list (list R)) :=
    match ops with [] => T | (o, args) :: r => tanT r (V0 ++ [step P0 V0 o args]) (T ++ [tstep V0 T o args]) end.
  Fixpoint domT (ops : list tnode) (V0 : list (list (list R))) : Prop :=
    match ops with
    | [] => True
    | (o, args) :: r =>
        (inner o = None -> d_ok (describe o) = true /\ dom o (map (val_at V0) args)) /\
        domT r (V0 ++ [step P0 V0 o args])
    end.

  Lemma val_at_app_lt V x a : (fst a < length V)%nat -> val_at (V ++ [x]) a = val_at V a.
  Proof. intro H. unfold val_at. rewrite app_nth1 by exact H. reflexivity. Qed.
  Lemma val_at_app_eq V x a : fst a = length V -> val_at (V ++ [x]) a = nth (snd a) x [].
  Proof. intro H. unfold val_at. rewrite app_nth2, H, Nat.sub_diag by lia. reflexivity. Qed.
  Lemma val_at_app_gt V x a : (length V < fst a)%nat -> val_at (V ++ [x]) a = [].
  Proof. intro H. unfold val_at. rewrite (nth_overflow (V ++ [x])) by (rewrite app_length; cbn [length]; lia). apply nth_nil_l. Qed.

  Theorem evalT_deriv_gen (ops : list tnode) : forall (V : R -> list (list (list R))) (T : list (list (list R))),
    (forall t, length (V t) = length T) ->
    (forall a, cderiv (fun t => val_at (V t) a) (val_at T a)) ->
    domT ops (V 0) ->
    forall a, cderiv (fun t => val_at (evalT (Pc t) ops (V t)) a) (val_at (tanT ops (V 0) T) a).
  Proof.
    induction ops as [|[o args] r IH]; intros V T HL Hinv Hd a; cbn [evalT tanT]; [apply Hinv|].
    cbn [domT] in Hd. destruct Hd as (Ho & Hr).
    assert (Es : step P0 (V 0) o args = step (Pc 0) (V 0) o args) by (unfold step; destruct (inner o); [rewrite HP0|]; reflexivity).
    rewrite Es in Hr |- *.
    apply (IH (fun t => V t ++ [step (Pc t) (V t) o args]) (T ++ [tstep (V 0) T o args])).
    - intro t. rewrite !app_length, HL. reflexivity.
    - clear a. intro a. destruct (lt_eq_lt_dec (fst a) (length T)) as [[Hlt|Heq]|Hgt].
      + rewrite (val_at_app_lt T _ a Hlt).
        apply (cderiv_ext (fun t => val_at (V t) a)); [|apply Hinv].
        intro t. symmetry. apply val_at_app_lt. rewrite HL. exact Hlt.
      + rewrite (val_at_app_eq T _ a Heq).
        apply (cderiv_ext (fun t => nth (snd a) (step (Pc t) (V t) o args) [])).
        { intro t. symmetry. apply val_at_app_eq. rewrite HL. exact Heq. }
        unfold step, tstep. destruct (inner o) as [p|] eqn:Ei.
        * apply cderiv_single. apply HP.
        * destruct (Ho eq_refl) as (Hok & Hdom).
          apply (Hderiv o Ei (fun t => map (val_at (V t)) args) (map (val_at T) args)); [|exact Hok|exact Hdom].
          intro k. destruct (lt_dec k (length args)) as [Hk|Hk].
          -- rewrite (nth_map_lt (val_at T) args k [] (0%nat, 0%nat) Hk).
             apply (cderiv_ext (fun t => val_at (V t) (nth k args (0%nat, 0%nat)))); [|apply Hinv].
             intro t. symmetry. apply nth_map_lt. exact Hk.
          -- rewrite nth_overflow by (rewrite map_length; lia).
             apply (cderiv_ext (fun _ => [])); [|apply cderiv_nil]. intro t. rewrite nth_overflow by (rewrite map_length; lia). reflexivity.
      + rewrite (val_at_app_gt T _ a Hgt).
        apply (cderiv_ext (fun _ => [])); [|apply cderiv_nil]. intro t. symmetry. apply val_at_app_gt. rewrite HL. exact Hgt.
    - exact Hr.
  Qed.

  Corollary evalT_deriv (ops : list tnode) : domT ops [] ->
    forall a, cderiv (fun t => val_at (evalT (Pc t) ops []) a) (val_at (tanT ops [] []) a).
  Proof.
    intros Hd a. apply (evalT_deriv_gen ops (fun _ => []) [] (fun _ => eq_refl)); [|exact Hd].
    intro b. unfold val_at. rewrite !nth_nil_l. apply cderiv_nil.
  Qed.
End Tape.

(* the straight line through the parameter values x in direction d *)
Definition vline (x d : list R) (t : R) : list R := map (fun xd => fst xd + t * snd xd) (combine x d).
Lemma vline_deriv x d : length x = length d -> cderiv (vline x d) d.
Proof.
  intros Hl i. unfold vline. destruct (lt_dec i (length d)) as [Hi|Hi].
  - apply (is_derive_ext (fun t => nth i x 0 + t * nth i d 0)).
    + intro t. rewrite (nth_map_lt (fun xd : R * R => fst xd + t * snd xd) (combine x d) i 0 (0, 0)) by (rewrite combine_length, Hl, Nat.min_id; exact Hi).
      rewrite combine_nth by exact Hl. reflexivity.
    + auto_derive; [exact I|ring].
  - rewrite (nth_overflow d) by lia. apply (is_derive_ext (fun _ => 0)); [|apply (is_derive_const 0 0)].
    intro t. rewrite nth_overflow; [reflexivity|]. rewrite map_length, combine_length, Hl, Nat.min_id. lia.
Qed.
Lemma vline_0 x d : length x = length d -> vline x d 0 = x.
Proof.
  intro Hl. unfold vline. revert d Hl. induction x as [|a x IH]; intros [|b d] Hl; cbn [length] in Hl; try discriminate; [reflexivity|].
  cbn [combine map fst snd]. rewrite IH by lia. f_equal. ring.
Qed.

Lemma vsum_Derive (c : R -> list R) (d : list R) : cderiv c d ->
  vsum 0 Rplus d = fold_right Rplus 0 (map (fun i => Derive (fun t => nth i (c t) 0) 0) (seq 0 (length d))).
Proof.
  intro H. unfold vsum. rewrite (map_nth_seq' d 0) at 1. f_equal. apply map_ext. intro i.
  symmetry. apply is_derive_unique. apply H.
Qed.

(* ================================================================== Graph::backward computes the derivative *)
Definition real_inner (o : rop) : option nat := f_inner real_family o.
Definition tape_of (ops0 : list (@opinfo rop tshape (@OpFamily.vec R))) : list (tnode (O := rop)) :=
  map (fun oi => (o_op oi, o_args oi)) ops0.
(* the parameters moved along the straight line  p + t dp *)
Definition line_params (e0 : @env (@OpFamily.vec R)) (dp : nat -> list R) (t : R) (p : nat) : list R := vline (e_pval e0 p) (dp p) t.
(* forward value of every node at the parameters p + t dp *)
Definition real_eval (ops0 : list (@opinfo rop tshape (@OpFamily.vec R))) (e0 : @env (@OpFamily.vec R)) (dp : nat -> list R) (t : R) :=
  evalT describeR real_inner (line_params e0 dp t) (tape_of ops0) [].
(* tangents propagated by the operators' JVPs at t = 0 *)
Definition real_tangents (ops0 : list (@opinfo rop tshape (@OpFamily.vec R))) (e0 : @env (@OpFamily.vec R)) (dp : nat -> list R) :=
  tanT describeR real_inner dp (e_pval e0) (tape_of ops0) [] [].
(* guards true and operands inside the smooth domains, at the parameter values of e0 *)
Definition real_smooth (ops0 : list (@opinfo rop tshape (@OpFamily.vec R))) (e0 : @env (@OpFamily.vec R)) : Prop :=
  domT describeR real_inner real_dom (e_pval e0) (tape_of ops0) [].

Lemma real_tangent_is_derivative ops0 e0 dp : (forall p, length (e_pval e0 p) = length (dp p)) -> real_smooth ops0 e0 ->
  forall a, cderiv (fun t => val_at (real_eval ops0 e0 dp t) a) (val_at (real_tangents ops0 e0 dp) a).
Proof.
  intros Hl Hs a.
  apply (evalT_deriv describeR real_inner real_dom (fun o _ => jvp_is_derivative o) (line_params e0 dp) dp
           (fun p => vline_deriv _ _ (Hl p)) (e_pval e0) (fun p => vline_0 _ _ (Hl p)) (tape_of ops0) Hs a).
Qed.

Notation VORt := (vec_ops (R := R) 0 1 Rplus tsize).

(* For an evaluated tape over real_family (no stop_gradient, every operand inside the smooth
   domain of its operator: real_smooth), with the tangents propagated by the JVPs:
     sum_p <grad_after p - grad_before p, dp p>
       = sum over the elements i of y of  d/dt y_i(p + t dp) at t = 0,
   y(p) = the forward value of node n as a function of the parameters. *)
Theorem C01_backward_computes_derivative_real
  (dp : nat -> @OpFamily.vec R) (ops0 : list (@opinfo rop tshape (@OpFamily.vec R))) (e0 : @env (@OpFamily.vec R)) (ps : list nat) :
  let tan := val_at (real_tangents ops0 e0 dp) in
  (forall p, length (e_pval e0 p) = length (dp p)) -> real_smooth ops0 e0 ->
  wf_ops ops0 -> shape_ok real_family ops0 -> consistent real_family real_jvp tan dp ops0 e0 ->
  rsized real_family tsize tan ops0 e0 -> NoDup ps ->
  (forall k oi p, nth_error ops0 k = Some oi -> f_inner real_family (o_op oi) = Some p -> In p ps) ->
  forall n sn bl ops' e' bl',
    gclean ops0 -> psz real_family tsize ops0 e0 -> get_slot_ops ops0 n = Some sn ->
    sweep real_family VORt (fst n)
      (upd_ops ops0 n (fun s => set_grad s (Some (vones VORt (s_shape s))))) e0 bl = Some (ops', e', bl') ->
    ppot 0 Rplus Rmult dp ps e' =
      ppot 0 Rplus Rmult dp ps e0 +
      fold_right Rplus 0 (map (fun i => Derive (fun t => nth i (val_at (real_eval ops0 e0 dp t) n) 0) 0) (seq 0 (tsize (s_shape sn)))) /\
    (forall i, is_derive (fun t => nth i (val_at (real_eval ops0 e0 dp t) n) 0) 0 (nth i (tan n) 0)) /\
    gclean ops' /\ e_pval e' = e_pval e0.
Proof.
  intros tan Hl Hs Hwf Hsh Hc Hr Hnd Hcov n sn bl ops' e' bl' Hcl Hps Hsn Hsw.
  destruct (C01_backward_is_adjoint_real tan dp ops0 e0 ps Hwf Hsh Hc Hr Hnd Hcov n sn bl ops' e' bl' Hcl Hps Hsn Hsw) as (E & A & B).
  pose proof (real_tangent_is_derivative ops0 e0 dp Hl Hs n) as Hd. fold tan in Hd.
  split; [|split; [exact Hd|split; [exact A|exact B]]].
  rewrite E. f_equal. destruct (Hr n sn Hsn) as (Hlen & _). rewrite <- Hlen.
  apply (vsum_Derive (fun t => val_at (real_eval ops0 e0 dp t) n) (tan n) Hd).
Qed.
