(* C10 direction: front_end_rejects_exactly_<entry>.  The guarded backward / in-place entry points
   of the Device front end (Tensor/FrontEnd.v, transcribed from core/device.cc) return None
   (PRIMITIV_THROW_ERROR) EXACTLY when the documented precondition fails, for all well-formed
   shapes and ALL uint32 scalar arguments (offsets, axes, ids near 2^32 included).  The
   preconditions are written in unbounded arithmetic over N. The kernel is only reached after the
   last check, so a rejected call has not touched any operand. *)
From Coq Require Import List NArith Bool Lia Arith.
From PV Require Import Base.U32 Shape.ShapeImpl Shape.ShapeSpec Shape.ShapeLemmas Shape.ShapeProofs
  Shape.ShapeRules Fault.Guards Tensor.Kernels Tensor.FrontEnd Tensor.FrontEndBridge Tensor.FrontEndGather.
Import ListNotations.
Local Open Scope N_scope.

(* ------------------------------------------------------------------ CHECK_DEVICE *)
Lemma check_device_spec this ts : check_device this ts = true <-> Forall (fun t => t_dev t = this) ts.
Proof.
  unfold check_device. rewrite forallb_forall, Forall_forall.
  split; intros H t Ht; specialize (H t Ht); [apply N.eqb_eq|apply N.eqb_eq]; exact H.
Qed.

Theorem on_device_accepts {A} this ts (k : option A) r :
  on_device this ts k = Some r <-> Forall (fun t => t_dev t = this) ts /\ k = Some r.
Proof.
  unfold on_device. destruct (check_device this ts) eqn:E.
  - apply check_device_spec in E. tauto.
  - split; [discriminate|]. intros [H _]. apply check_device_spec in H. congruence.
Qed.

Theorem on_device_rejects_exactly {A} this ts (k : option A) :
  on_device this ts k = None <-> ~ Forall (fun t => t_dev t = this) ts \/ k = None.
Proof.
  unfold on_device. destruct (check_device this ts) eqn:E.
  - apply check_device_spec in E. tauto.
  - split; [|reflexivity]. intros _. left. intro H. apply check_device_spec in H. congruence.
Qed.

(* ------------------------------------------------------------------ generic helpers *)
Lemma neb_false_iff a b : wf a -> wf b -> (shape_neb a b = false <-> a = b).
Proof.
  intros Ha Hb. unfold shape_neb. rewrite negb_false_iff. apply eqb_eq; assumption.
Qed.

Lemma option_none_iff {A} (o : option A) (P : Prop) : (forall r, o = Some r -> P) -> (o = None -> ~ P) ->
  (o = None <-> ~ P).
Proof. intros H1 H2. destruct o as [r|]; split; intro H; try discriminate; auto. exfalso. apply H. eauto. Qed.

(* a rule whose C09 theorem has the standard form is accepted with result y exactly when ... *)
Lemma rule_some_iff (rule : option shape) (adm : Prop) (B : N) (G : N -> N) y : wf y ->
  match rule with
  | Some r => adm /\ wf r /\ batch r = B /\ (forall i, get r i = G i)
  | None => ~ adm
  end ->
  (rule = Some y <-> adm /\ batch y = B /\ forall i, get y i = G i).
Proof.
  intros Hy S. destruct rule as [r|].
  - destruct S as [A [Wr [Hb Hg]]]. split.
    + intro E. inversion E; subst r. auto.
    + intros [_ [Hb' Hg']]. f_equal. apply wf_ext; auto.
      * intro i. rewrite Hg, Hg'. reflexivity.
      * congruence.
  - split; [discriminate|]. intros [A _]. contradiction.
Qed.

(* ================================================================== slice_bw *)
Definition slice_bw_admissible (gy : shape) (dim off : N) (gx : shape) : Prop :=
  (forall i, i <> dim -> get gy i = get gx i) /\ batch_compatible gy gx /\
  off + get gy dim <= get gx dim.

Theorem front_end_rejects_exactly_slice_bw gy dim off gx :
  wf gy -> wf gx -> u32 dim -> u32 off ->
  (fe_slice_bw gy dim off gx = None <-> ~ slice_bw_admissible gy dim off gx).
Proof.
  intros Hy Hx Hd Ho. unfold fe_slice_bw, slice_bw_admissible, batch_compatible.
  pose proof (has_same_loo_dims_spec gy gx dim Hy Hx Hd) as L.
  pose proof (has_compatible_batch_spec gy gx) as C.
  pose proof (range_guard64_sound off (get gy dim) (get gx dim) Ho (get_u32 gy dim Hy) (get_u32 gx dim Hx)) as R.
  destruct (has_same_loo_dims gy gx dim); destruct (has_compatible_batch gy gx);
    destruct (range_guard64 off (get gy dim) (get gx dim)); cbn [negb orb].
  - destruct (depth gx <=? dim); split; try discriminate; intro H; exfalso; apply H;
      (split; [apply L; reflexivity|split; [apply C; reflexivity|apply R; reflexivity]]).
  - split; [|reflexivity]. intros _ [_ [_ H]]. apply R in H. discriminate.
  - split; [|reflexivity]. intros _ [_ [H _]]. apply C in H. discriminate.
  - split; [|reflexivity]. intros _ [_ [H _]]. apply C in H. discriminate.
  - split; [|reflexivity]. intros _ [H _]. apply L in H. discriminate.
  - split; [|reflexivity]. intros _ [H _]. apply L in H. discriminate.
  - split; [|reflexivity]. intros _ [H _]. apply L in H. discriminate.
  - split; [|reflexivity]. intros _ [H _]. apply L in H. discriminate.
Qed.

(* ================================================================== batch_slice_bw *)
Definition batch_slice_bw_admissible (gy : shape) (off : N) (gx : shape) : Prop :=
  (forall i, get gy i = get gx i) /\ off + batch gy <= batch gx.

Theorem front_end_rejects_exactly_batch_slice_bw gy off gx :
  wf gy -> wf gx -> u32 off ->
  (fe_batch_slice_bw gy off gx = None <-> ~ batch_slice_bw_admissible gy off gx).
Proof.
  intros Hy Hx Ho. unfold fe_batch_slice_bw, batch_slice_bw_admissible.
  pose proof (has_same_dims_spec gy gx Hy Hx) as D.
  pose proof (range_guard64_sound off (batch gy) (batch gx) Ho (batch_u32 gy Hy) (batch_u32 gx Hx)) as R.
  destruct (has_same_dims gy gx); destruct (range_guard64 off (batch gy) (batch gx)); cbn [negb orb].
  - split; [discriminate|]. intro H. exfalso. apply H. split; [apply D; reflexivity|apply R; reflexivity].
  - split; [|reflexivity]. intros _ [_ H]. apply R in H. discriminate.
  - split; [|reflexivity]. intros _ [H _]. apply D in H. discriminate.
  - split; [|reflexivity]. intros _ [H _]. apply D in H. discriminate.
Qed.

(* ================================================================== inplace_add / inplace_subtract *)
Definition inplace_add_admissible (x y : shape) : Prop :=
  (forall i, get x i = get y i) /\ batch_compatible x y.

Theorem front_end_rejects_exactly_inplace_add x y : wf x -> wf y ->
  (fe_inplace_add x y = None <-> ~ inplace_add_admissible x y).
Proof.
  intros Hx Hy. unfold fe_inplace_add, inplace_add_admissible, batch_compatible.
  pose proof (has_same_dims_spec x y Hx Hy) as D. pose proof (has_compatible_batch_spec x y) as C.
  destruct (has_same_dims x y); destruct (has_compatible_batch x y); cbn [negb orb].
  - split; [discriminate|]. intro H. exfalso. apply H. split; [apply D; reflexivity|apply C; reflexivity].
  - split; [|reflexivity]. intros _ [_ H]. apply C in H. discriminate.
  - split; [|reflexivity]. intros _ [H _]. apply D in H. discriminate.
  - split; [|reflexivity]. intros _ [H _]. apply D in H. discriminate.
Qed.

(* ================================================================== pick_bw / batch_pick_bw *)
Theorem front_end_rejects_exactly_pick_bw gy ids dim gx :
  wf gy -> wf gx -> Forall u32 ids -> u32 (N.of_nat (length ids)) -> u32 dim ->
  (fe_pick_bw gy ids dim gx = None <->
   ~ (pick_admissible gx ids dim /\ batch gy = N.max (batch gx) (N.of_nat (length ids)) /\
      forall i, get gy i = if i =? dim then 1 else get gx i)).
Proof.
  intros Hy Hx Hi Hn Hd.
  rewrite <- (rule_some_iff (pick gx ids dim) _ _ _ gy Hy (pick_spec gx ids dim Hx Hi Hn Hd)).
  pose proof (pick_spec gx ids dim Hx Hi Hn Hd) as S.
  unfold fe_pick_bw. destruct (pick gx ids dim) as [sy|] eqn:E.
  - destruct S as [_ [Ws _]]. pose proof (neb_false_iff gy sy Hy Ws) as Q.
    destruct (shape_neb gy sy).
    + split; [|reflexivity]. intros _ H. inversion H; subst sy. destruct Q as [_ Q]. specialize (Q eq_refl). discriminate.
    + split; [discriminate|]. intro H. exfalso. apply H. f_equal. symmetry. apply Q. reflexivity.
  - split; [intros _; discriminate|reflexivity].
Qed.

Theorem front_end_rejects_exactly_batch_pick_bw gy ids gx :
  wf gy -> wf gx -> Forall u32 ids -> u32 (N.of_nat (length ids)) ->
  (fe_batch_pick_bw gy ids gx = None <->
   ~ (batch_pick_admissible gx ids /\ batch gy = N.of_nat (length ids) /\
      forall i, get gy i = get gx i)).
Proof.
  intros Hy Hx Hi Hn.
  rewrite <- (rule_some_iff (batch_pick gx ids) _ _ _ gy Hy (batch_pick_spec gx ids Hx Hi Hn)).
  pose proof (batch_pick_spec gx ids Hx Hi Hn) as S.
  unfold fe_batch_pick_bw. destruct (batch_pick gx ids) as [sy|] eqn:E.
  - destruct S as [_ [Ws _]]. pose proof (neb_false_iff gy sy Hy Ws) as Q.
    destruct (shape_neb gy sy).
    + split; [|reflexivity]. intros _ H. inversion H; subst sy. destruct Q as [_ Q]. specialize (Q eq_refl). discriminate.
    + split; [discriminate|]. intro H. exfalso. apply H. f_equal. symmetry. apply Q. reflexivity.
  - split; [intros _; discriminate|reflexivity].
Qed.

(* ================================================================== flip_bw *)
Theorem front_end_rejects_exactly_flip_bw gy dim gx : wf gy -> wf gx ->
  (fe_flip_bw gy dim gx = None <-> gy <> gx).
Proof.
  intros Hy Hx. unfold fe_flip_bw. pose proof (neb_false_iff gy gx Hy Hx) as Q.
  destruct (shape_neb gy gx).
  - split; [|reflexivity]. intros _ E. apply Q in E. discriminate.
  - split; [discriminate|]. intro H. exfalso. apply H, Q. reflexivity.
Qed.

(* ================================================================== DEV_BW_X / DEV_BW_X_CONST / DEV_BW_AB *)
Theorem front_end_rejects_exactly_bw_x sop x y gy gx :
  wf x -> wf y -> wf gy -> wf gx -> (forall s, sop x = Some s -> wf s) ->
  (fe_bw_x sop x y gy gx = None <-> ~ (gx = x /\ gy = y /\ sop x = Some y)).
Proof.
  intros Hx Hy Hgy Hgx Hs. unfold fe_bw_x.
  pose proof (neb_false_iff x gx Hx Hgx) as Q1. pose proof (neb_false_iff y gy Hy Hgy) as Q2.
  destruct (shape_neb x gx).
  { split; [|reflexivity]. intros _ [E _]. symmetry in E. apply Q1 in E. discriminate. }
  destruct (shape_neb y gy).
  { split; [|reflexivity]. intros _ [_ [E _]]. symmetry in E. apply Q2 in E. discriminate. }
  destruct (sop x) as [s|] eqn:Es.
  - pose proof (neb_false_iff y s Hy (Hs s eq_refl)) as Q3. destruct (shape_neb y s).
    + split; [|reflexivity]. intros _ [_ [_ E]]. inversion E; subst s. destruct Q3 as [_ Q3]. specialize (Q3 eq_refl). discriminate.
    + split; [discriminate|]. intro H. exfalso. apply H. split; [symmetry; apply Q1; reflexivity|].
      split; [symmetry; apply Q2; reflexivity|]. f_equal. symmetry. apply Q3. reflexivity.
  - split; [|reflexivity]. intros _ [_ [_ E]]. discriminate.
Qed.

Theorem front_end_rejects_exactly_unary_bw x y gy gx : wf x -> wf y -> wf gy -> wf gx ->
  (fe_unary_bw x y gy gx = None <-> ~ (gx = x /\ gy = x /\ y = x)).
Proof.
  intros Hx Hy Hgy Hgx. unfold fe_unary_bw.
  rewrite (front_end_rejects_exactly_bw_x Some x y gy gx Hx Hy Hgy Hgx).
  - split; intros H [A [B C]]; apply H; subst.
    + auto.
    + inversion C; subst. auto.
  - intros s E. inversion E; subst. exact Hx.
Qed.

Theorem front_end_rejects_exactly_bw_x_const x y gy gx : wf x -> wf y -> wf gy -> wf gx ->
  (fe_bw_x_const x y gy gx = None <-> ~ (y = x /\ gy = x /\ gx = x)).
Proof.
  intros Hx Hy Hgy Hgx. unfold fe_bw_x_const.
  pose proof (neb_false_iff y x Hy Hx) as Q1. pose proof (neb_false_iff gy x Hgy Hx) as Q2.
  pose proof (neb_false_iff gx x Hgx Hx) as Q3.
  destruct (shape_neb y x); cbn [orb].
  { split; [|reflexivity]. intros _ [E _]. apply Q1 in E. discriminate. }
  destruct (shape_neb gy x); cbn [orb].
  { split; [|reflexivity]. intros _ [_ [E _]]. apply Q2 in E. discriminate. }
  destruct (shape_neb gx x); cbn [orb].
  { split; [|reflexivity]. intros _ [_ [_ E]]. apply Q3 in E. discriminate. }
  split; [discriminate|]. intro H. exfalso. apply H.
  split; [apply Q1; reflexivity|split; [apply Q2; reflexivity|apply Q3; reflexivity]].
Qed.

Theorem front_end_rejects_exactly_bw_ab sop a b y gy ga gb :
  wf a -> wf b -> wf y -> wf gy -> wf ga -> wf gb -> (forall s, sop a b = Some s -> wf s) ->
  (fe_bw_ab sop a b y gy ga gb = None <-> ~ (ga = a /\ gb = b /\ gy = y /\ sop a b = Some y)).
Proof.
  intros Ha Hb Hy Hgy Hga Hgb Hs. unfold fe_bw_ab.
  pose proof (neb_false_iff a ga Ha Hga) as Q1. pose proof (neb_false_iff b gb Hb Hgb) as Q2.
  pose proof (neb_false_iff y gy Hy Hgy) as Q3.
  destruct (shape_neb a ga).
  { split; [|reflexivity]. intros _ [E _]. symmetry in E. apply Q1 in E. discriminate. }
  destruct (shape_neb b gb).
  { split; [|reflexivity]. intros _ [_ [E _]]. symmetry in E. apply Q2 in E. discriminate. }
  destruct (shape_neb y gy).
  { split; [|reflexivity]. intros _ [_ [_ [E _]]]. symmetry in E. apply Q3 in E. discriminate. }
  destruct (sop a b) as [s|] eqn:Es.
  - pose proof (neb_false_iff y s Hy (Hs s eq_refl)) as Q4. destruct (shape_neb y s).
    + split; [|reflexivity]. intros _ [_ [_ [_ E]]]. inversion E; subst s. destruct Q4 as [_ Q4]. specialize (Q4 eq_refl). discriminate.
    + split; [discriminate|]. intro H. exfalso. apply H. split; [symmetry; apply Q1; reflexivity|].
      split; [symmetry; apply Q2; reflexivity|]. split; [symmetry; apply Q3; reflexivity|].
      f_equal. symmetry. apply Q4. reflexivity.
  - split; [|reflexivity]. intros _ [_ [_ [_ E]]]. discriminate.
Qed.

(* the instances, with the rule's acceptance spelled out through its C09 theorem *)
Theorem front_end_rejects_exactly_elementwise_bw a b y gy ga gb :
  wf a -> wf b -> wf y -> wf gy -> wf ga -> wf gb ->
  (fe_elementwise_bw a b y gy ga gb = None <->
   ~ (ga = a /\ gb = b /\ gy = y /\ elementwise_admissible a b /\
      batch y = N.max (batch a) (batch b) /\ forall i, get y i = get a i)).
Proof.
  intros Ha Hb Hy Hgy Hga Hgb. unfold fe_elementwise_bw.
  rewrite (front_end_rejects_exactly_bw_ab elementwise a b y gy ga gb Ha Hb Hy Hgy Hga Hgb).
  - rewrite (rule_some_iff (elementwise a b) _ _ _ y Hy (elementwise_spec a b Ha Hb)). tauto.
  - intros s E. pose proof (elementwise_spec a b Ha Hb) as S. rewrite E in S. tauto.
Qed.

Theorem front_end_rejects_exactly_matmul_bw a b y gy ga gb :
  wf a -> wf b -> wf y -> wf gy -> wf ga -> wf gb ->
  (fe_matmul_bw a b y gy ga gb = None <->
   ~ (ga = a /\ gb = b /\ gy = y /\ matmul_admissible a b /\
      batch y = N.max (batch a) (batch b) /\
      forall i, get y i = if i =? 0 then get a 0 else if i =? 1 then get b 1 else 1)).
Proof.
  intros Ha Hb Hy Hgy Hga Hgb. unfold fe_matmul_bw.
  rewrite (front_end_rejects_exactly_bw_ab matmul a b y gy ga gb Ha Hb Hy Hgy Hga Hgb).
  - rewrite (rule_some_iff (matmul a b) _ _ _ y Hy (matmul_spec a b Ha Hb)). tauto.
  - intros s E. pose proof (matmul_spec a b Ha Hb) as S. rewrite E in S. tauto.
Qed.

Theorem front_end_rejects_exactly_conv2d_bw x w y gy p0 p1 s0 s1 d0 d1 gx gw :
  wf x -> wf w -> wf y -> wf gy -> wf gx -> wf gw ->
  u32 p0 -> u32 p1 -> u32 s0 -> u32 s1 -> u32 d0 -> u32 d1 ->
  (fe_conv2d_bw x w y gy p0 p1 s0 s1 d0 d1 gx gw = None <->
   ~ (gx = x /\ gw = w /\ gy = y /\ conv2d_admissible x w p0 p1 s0 s1 d0 d1 /\
      batch y = N.max (batch x) (batch w) /\
      forall i, get y i = if i =? 0 then conv_out (get x 0) p0 (get w 0) d0 s0
                          else if i =? 1 then conv_out (get x 1) p1 (get w 1) d1 s1
                          else if i =? 2 then get w 3 else 1)).
Proof.
  intros Hx Hw Hy Hgy Hgx Hgw U1 U2 U3 U4 U5 U6. unfold fe_conv2d_bw.
  rewrite (front_end_rejects_exactly_bw_ab (fun x w => conv2d x w p0 p1 s0 s1 d0 d1) x w y gy gx gw Hx Hw Hy Hgy Hgx Hgw).
  - rewrite (rule_some_iff (conv2d x w p0 p1 s0 s1 d0 d1) _ _ _ y Hy (conv2d_spec x w p0 p1 s0 s1 d0 d1 Hx Hw U1 U2 U3 U4 U5 U6)). tauto.
  - intros s E. pose proof (conv2d_spec x w p0 p1 s0 s1 d0 d1 Hx Hw U1 U2 U3 U4 U5 U6) as S. rewrite E in S. tauto.
Qed.

Theorem front_end_rejects_exactly_max_pool2d_bw x y gy w0 w1 p0 p1 s0 s1 gx :
  wf x -> wf y -> wf gy -> wf gx ->
  u32 w0 -> u32 w1 -> u32 p0 -> u32 p1 -> u32 s0 -> u32 s1 ->
  (fe_max_pool2d_bw x y gy w0 w1 p0 p1 s0 s1 gx = None <->
   ~ (gx = x /\ gy = y /\ pool2d_admissible x w0 w1 p0 p1 s0 s1 /\ batch y = batch x /\
      forall i, get y i = if i =? 0 then pool_out (get x 0) p0 w0 s0
                          else if i =? 1 then pool_out (get x 1) p1 w1 s1
                          else if i =? 2 then get x 2 else 1)).
Proof.
  intros Hx Hy Hgy Hgx U1 U2 U3 U4 U5 U6. unfold fe_max_pool2d_bw.
  rewrite (front_end_rejects_exactly_bw_x (fun x => pool2d x w0 w1 p0 p1 s0 s1) x y gy gx Hx Hy Hgy Hgx).
  - rewrite (rule_some_iff (pool2d x w0 w1 p0 p1 s0 s1) _ _ _ y Hy (pool2d_spec x w0 w1 p0 p1 s0 s1 Hx U1 U2 U3 U4 U5 U6)). tauto.
  - intros s E. pose proof (pool2d_spec x w0 w1 p0 p1 s0 s1 Hx U1 U2 U3 U4 U5 U6) as S. rewrite E in S. tauto.
Qed.

Theorem front_end_rejects_exactly_transpose_bw x y gy gx : wf x -> wf y -> wf gy -> wf gx ->
  (fe_transpose_bw x y gy gx = None <->
   ~ (gx = x /\ gy = y /\ transpose_admissible x /\ batch y = batch x /\
      forall i, get y i = if i =? 0 then get x 1 else if i =? 1 then get x 0 else 1)).
Proof.
  intros Hx Hy Hgy Hgx. unfold fe_transpose_bw.
  rewrite (front_end_rejects_exactly_bw_x ShapeImpl.transpose x y gy gx Hx Hy Hgy Hgx).
  - rewrite (rule_some_iff (ShapeImpl.transpose x) _ _ _ y Hy (transpose_spec x Hx)). tauto.
  - intros s E. pose proof (transpose_spec x Hx) as S. rewrite E in S. tauto.
Qed.

(* ================================================================== max_bw / min_bw *)
Theorem front_end_rejects_exactly_reduce_bw x y gy dim gx :
  wf x -> wf y -> wf gy -> wf gx -> u32 dim ->
  (fe_reduce_bw x y gy dim gx = None <->
   ~ (dim < 8 /\ gx = x /\ gy = y /\ batch y = batch x /\
      forall i, get y i = if i =? dim then 1 else get x i)).
Proof.
  intros Hx Hy Hgy Hgx Hd. unfold fe_reduce_bw.
  pose proof (reduce_spec x dim Hx Hd) as S. unfold reduce, reduce_admissible in S.
  destruct (resize_dim x dim 1) as [s|] eqn:Es.
  - destruct S as [A [Ws [Hb Hg]]].
    pose proof (neb_false_iff gx x Hgx Hx) as Q1. pose proof (neb_false_iff y s Hy Ws) as Q2.
    pose proof (neb_false_iff gy s Hgy Ws) as Q3.
    assert (Hys : y = s <-> batch y = batch x /\ forall i, get y i = if i =? dim then 1 else get x i).
    { split.
      - intros ->. auto.
      - intros [B G]. apply wf_ext; auto; [|congruence]. intro i. rewrite Hg, G. reflexivity. }
    destruct (shape_neb gx x); [|destruct (shape_neb y s); [|destruct (shape_neb gy s)]]; cbn [orb].
    + split; [|reflexivity]. intros _ [_ [E _]]. apply Q1 in E. discriminate.
    + split; [|reflexivity]. intros _ [_ [_ [_ E]]]. apply Hys, Q2 in E. discriminate.
    + split; [|reflexivity]. intros _ [_ [_ [E1 E]]]. apply Hys in E. subst gy. apply Q3 in E. discriminate.
    + split; [discriminate|]. intro H. exfalso. apply H. split; [exact A|].
      split; [apply Q1; reflexivity|]. assert (y = s) by (apply Q2; reflexivity).
      split; [subst s; apply Q3; reflexivity|]. apply Hys. assumption.
  - split; [|reflexivity]. intros _ [A _]. contradiction.
Qed.

(* ================================================================== permute_dims_bw *)
Theorem front_end_rejects_exactly_permute_dims_bw x y gy perm gx :
  wf x -> wf y -> wf gy -> wf gx -> Forall u32 perm ->
  (fe_permute_dims_bw x y gy perm gx = None <->
   ~ (permute_admissible x perm /\ gx = x /\ gy = y /\ batch y = batch x /\
      forall i, get y i = if i <? N.of_nat (length perm) then get x (nth (N.to_nat i) perm 0) else 1)).
Proof.
  intros Hx Hy Hgy Hgx Hp. unfold fe_permute_dims_bw.
  pose proof (permute_dims_spec x perm Hx Hp) as S.
  destruct (permute_dims x perm) as [s|] eqn:Es.
  - destruct S as [A [Ws [Hb Hg]]].
    pose proof (neb_false_iff gx x Hgx Hx) as Q1. pose proof (neb_false_iff y s Hy Ws) as Q2.
    pose proof (neb_false_iff gy s Hgy Ws) as Q3.
    assert (Hys : y = s <-> batch y = batch x /\
              forall i, get y i = if i <? N.of_nat (length perm) then get x (nth (N.to_nat i) perm 0) else 1).
    { split.
      - intros ->. auto.
      - intros [B G]. apply wf_ext; auto; [|congruence]. intro i. rewrite Hg, G. reflexivity. }
    destruct (shape_neb y s); [|destruct (shape_neb gy s); [|destruct (shape_neb gx x)]]; cbn [orb].
    + split; [|reflexivity]. intros _ [_ [_ [_ E]]]. apply Hys, Q2 in E. discriminate.
    + split; [|reflexivity]. intros _ [_ [_ [E1 E]]]. apply Hys in E. subst gy. apply Q3 in E. discriminate.
    + split; [|reflexivity]. intros _ [_ [E _]]. apply Q1 in E. discriminate.
    + split; [discriminate|]. intro H. exfalso. apply H. split; [exact A|].
      split; [apply Q1; reflexivity|]. assert (y = s) by (apply Q2; reflexivity).
      split; [subst s; apply Q3; reflexivity|]. apply Hys. assumption.
  - split; [|reflexivity]. intros _ [A _]. contradiction.
Qed.

(* ================================================================== the guards at the 2^32 boundary *)
(* offset = 2^32-1, a one-element gradient: rejected (the pre-repair uint32 sum wrapped to 0) *)
Example rejects_near_2p32 :
  let g1 := mkS [] 1 1 in let g3 := mkS [3] 1 3 in let b2 := mkS [] 2 1 in
  fe_slice_bw g1 0 4294967295 g3 = None /\ fe_slice_bw g1 0 2 g3 = Some ViaSliceBw /\
  fe_slice_bw g1 0 3 g3 = None /\ fe_slice_bw g1 5 0 g1 = Some ViaInplaceAdd /\
  fe_slice_bw g1 4294967295 0 g1 = Some ViaInplaceAdd /\ fe_slice_bw g1 4294967295 1 g1 = None /\
  fe_batch_slice_bw g1 4294967295 b2 = None /\ fe_batch_slice_bw g1 1 b2 = Some tt /\
  fe_batch_slice_bw g1 2 b2 = None.
Proof. vm_compute. repeat split; reflexivity. Qed.
