(* The bridge between the two shape representations: `shape` (C09: N, uint32 wrap written out)
   and `tshape` (nat, over which the kernels' index programs are stated).  Under `wf` nothing
   wraps (C09 no_silent_wrap), so dimension, lower volume, volume and size of `to_t s` are the
   N.to_nat images of the uint32 quantities the C++ computes.  Also: extensionality of
   tlower / tupper / tvolume in `tget` (shapes are compared through `get` by the C09 theorems),
   and the canonical-form facts the kernel hypotheses need. *)
From Coq Require Import List NArith Bool Lia Arith.
From PV Require Import Base.U32 Shape.ShapeImpl Shape.ShapeSpec Shape.ShapeLemmas Shape.ShapeProofs
  Shape.ShapeRules Tensor.Kernels Tensor.Index Tensor.KernelProofs Tensor.FrontEnd.
Import ListNotations.

(* ------------------------------------------------------------------ products *)
Lemma prodn_map_to_nat l : prodn (map N.to_nat l) = N.to_nat (prodN l).
Proof.
  induction l as [|x r IH]; cbn [map]; rewrite ?prodn_nil, ?prodn_cons, ?prodN_nil, ?prodN_cons.
  - reflexivity.
  - rewrite IH. lia.
Qed.

Lemma nth_map_to_nat l i : nth i (map N.to_nat l) 1 = N.to_nat (nth i l 1%N).
Proof. change 1 with (N.to_nat 1%N). apply map_nth. Qed.

(* ------------------------------------------------------------------ components of to_t *)
Lemma tbatch_to_t s : tbatch (to_t s) = N.to_nat (batch s).
Proof. reflexivity. Qed.

Lemma tdepth_to_t s : tdepth (to_t s) = N.to_nat (depth s).
Proof. unfold tdepth, to_t, depth. cbn [tdims]. rewrite map_length. lia. Qed.

Lemma tget_to_t s i : tget (to_t s) i = N.to_nat (get s (N.of_nat i)).
Proof.
  unfold tget, to_t. cbn [tdims]. rewrite nth_map_to_nat, get_sget. unfold sget.
  rewrite Nat2N.id. reflexivity.
Qed.

Lemma tget_to_t_N s i : tget (to_t s) (N.to_nat i) = N.to_nat (get s i).
Proof. rewrite tget_to_t, N2Nat.id. reflexivity. Qed.

Lemma tvolume_to_t s : tvolume (to_t s) = N.to_nat (prodN (dims s)).
Proof. rewrite tvolume_eq. unfold to_t. cbn [tdims]. apply prodn_map_to_nat. Qed.

Lemma tvolume_to_t_wf s : wf s -> tvolume (to_t s) = N.to_nat (volume s).
Proof. intro H. rewrite tvolume_to_t, (wf_volume _ H). reflexivity. Qed.

Lemma tsize_to_t s : tsize (to_t s) = N.to_nat (true_size s).
Proof. unfold tsize, true_size. rewrite tvolume_to_t, tbatch_to_t. lia. Qed.

(* no wrap: the uint32 quantities of the C++ are the true ones (C09 no_silent_wrap) *)
Lemma tsize_to_t_wf s : wf s -> tsize (to_t s) = N.to_nat (size s).
Proof. intro H. rewrite tsize_to_t. destruct (no_silent_wrap s H) as [E _]. rewrite E. reflexivity. Qed.

(* the element count fits the uint32 index arithmetic of the kernels *)
Lemma tsize_lt_P32 s : wf s -> (N.of_nat (tsize (to_t s)) < P32)%N.
Proof.
  intro H. rewrite tsize_to_t. destruct (no_silent_wrap s H) as [_ [Hl _]]. lia.
Qed.

Lemma firstn_map {A B} (f : A -> B) l : forall k, firstn k (map f l) = map f (firstn k l).
Proof. induction l as [|x r IH]; intros [|k]; cbn [firstn map]; try reflexivity. rewrite IH. reflexivity. Qed.

Lemma tlower_to_t s d : wf s -> tlower (to_t s) (N.to_nat d) = N.to_nat (lower_volume s d).
Proof.
  intro H. destruct (no_silent_wrap s H) as [_ [_ [_ Hl]]]. rewrite Hl.
  rewrite tlower_eq. unfold to_t. cbn [tdims]. rewrite firstn_map, prodn_map_to_nat. f_equal. f_equal.
  unfold depth. destruct (N.le_gt_cases d (N.of_nat (length (dims s)))) as [Hle|Hgt].
  - rewrite N.min_l by exact Hle. reflexivity.
  - rewrite N.min_r by lia. rewrite Nat2N.id. rewrite !firstn_all2 by lia. reflexivity.
Qed.

Lemma twf_to_t s : wf s -> twf (to_t s).
Proof.
  intro H. split.
  - unfold to_t. cbn [tdims]. apply Forall_forall. intros d Hd. apply in_map_iff in Hd.
    destruct Hd as [x [<- Hx]]. pose proof (wf_pos _ H) as Hp. rewrite Forall_forall in Hp.
    specialize (Hp x Hx). lia.
  - rewrite tbatch_to_t. pose proof (wf_batch _ H). lia.
Qed.

Lemma tbatch_pos s : wf s -> 0 < tbatch (to_t s).
Proof. intro H. apply (twf_to_t s H). Qed.

Lemma tget_pos s i : wf s -> 0 < tget (to_t s) i.
Proof. intro H. rewrite tget_to_t. pose proof (get_pos s (N.of_nat i) H). lia. Qed.

(* ------------------------------------------------------------------ extensionality in tget *)
Lemma prodn_firstn_ext : forall d l1 l2, (forall i, i < d -> nth i l1 1 = nth i l2 1) ->
  prodn (firstn d l1) = prodn (firstn d l2).
Proof.
  induction d as [|d IH]; intros l1 l2 H; [reflexivity|].
  destruct l1 as [|x l1], l2 as [|y l2]; cbn [firstn]; rewrite ?prodn_cons, ?prodn_nil.
  - reflexivity.
  - pose proof (H 0 ltac:(lia)) as H0. cbn [nth] in H0. subst y.
    rewrite <- (IH [] l2).
    + rewrite firstn_nil, prodn_nil. lia.
    + intros i Hi. specialize (H (S i) ltac:(lia)). cbn [nth] in H. rewrite <- H. destruct i; reflexivity.
  - pose proof (H 0 ltac:(lia)) as H0. cbn [nth] in H0. subst x.
    rewrite (IH l1 []).
    + rewrite firstn_nil, prodn_nil. lia.
    + intros i Hi. specialize (H (S i) ltac:(lia)). cbn [nth] in H. rewrite H. destruct i; reflexivity.
  - pose proof (H 0 ltac:(lia)) as H0. cbn [nth] in H0. subst y. f_equal.
    apply IH. intros i Hi. exact (H (S i) ltac:(lia)).
Qed.

Lemma prodn_all_one l : (forall i, nth i l 1 = 1) -> prodn l = 1.
Proof.
  induction l as [|x r IH]; intro H; rewrite ?prodn_nil, ?prodn_cons; [reflexivity|].
  pose proof (H 0) as H0. cbn [nth] in H0. subst x. rewrite IH; [lia|].
  intro i. exact (H (S i)).
Qed.

Lemma prodn_ext : forall l1 l2, (forall i, nth i l1 1 = nth i l2 1) -> prodn l1 = prodn l2.
Proof.
  induction l1 as [|x l1 IH]; intros l2 H.
  - rewrite prodn_nil. symmetry. apply prodn_all_one. intro i. rewrite <- H. destruct i; reflexivity.
  - destruct l2 as [|y l2].
    + rewrite (prodn_nil). apply prodn_all_one. intro i. rewrite H. destruct i; reflexivity.
    + rewrite !prodn_cons. pose proof (H 0) as H0. cbn [nth] in H0. subst y. f_equal.
      apply IH. intro i. exact (H (S i)).
Qed.

Lemma nth_skipn {A} (l : list A) : forall k i d, nth i (skipn k l) d = nth (k + i) l d.
Proof.
  induction l as [|x r IH]; intros k i d.
  - rewrite skipn_nil. destruct i, k; reflexivity.
  - destruct k as [|k]; cbn [skipn]; [reflexivity|]. rewrite IH. reflexivity.
Qed.

Lemma tlower_ext a b d : (forall i, i < d -> tget a i = tget b i) -> tlower a d = tlower b d.
Proof. intro H. rewrite !tlower_eq. apply prodn_firstn_ext. exact H. Qed.

Lemma tupper_ext a b d : (forall i, d < i -> tget a i = tget b i) -> tupper a d = tupper b d.
Proof.
  intro H. unfold tupper. apply prodn_ext. intro i. rewrite !nth_skipn. apply H. lia.
Qed.

Lemma tvolume_ext a b : (forall i, tget a i = tget b i) -> tvolume a = tvolume b.
Proof. intro H. rewrite !tvolume_eq. apply prodn_ext. exact H. Qed.

(* volume = lower * axis * upper, left-associated as in the kernel theorems *)
Lemma tvolume_axis s d : tvolume s = tlower s d * tget s d * tupper s d.
Proof. rewrite (vol_split s d). lia. Qed.

Lemma tsize_axis s d : tsize s = tlower s d * tget s d * (tupper s d * tbatch s).
Proof. unfold tsize. rewrite (tvolume_axis s d). lia. Qed.

Lemma tupper_pos s d : twf s -> 0 < tupper s d.
Proof.
  intros [H _]. unfold tupper. apply prodn_pos.
  rewrite <- (firstn_skipn (S d) (tdims s)) in H. apply Forall_app in H. tauto.
Qed.

(* an axis of size 1 does not contribute: lower(d+1) = lower(d) ... not needed; instead: *)
Lemma tget_overflow s i : tdepth s <= i -> tget s i = 1.
Proof. intro H. unfold tget. apply nth_overflow. exact H. Qed.

(* volume of a shape all of whose axes from k on are 1 *)
Lemma tvolume_depth s k : (forall i, k <= i -> tget s i = 1) ->
  tvolume s = prodn (map (tget s) (seq 0 k)).
Proof.
  intro H. rewrite tvolume_eq. apply prodn_ext. intro i.
  destruct (Nat.lt_ge_cases i k) as [Hlt|Hge].
  - rewrite (nth_indep (map (tget s) (seq 0 k)) 1 (tget s 0)) by (rewrite map_length, seq_length; exact Hlt).
    rewrite (map_nth (tget s) (seq 0 k) 0 i). rewrite seq_nth by exact Hlt. reflexivity.
  - rewrite (nth_overflow (map _ _)) by (rewrite map_length, seq_length; exact Hge).
    apply H. exact Hge.
Qed.

Lemma tvolume_depth2 s : (forall i, 2 <= i -> tget s i = 1) -> tvolume s = tget s 0 * tget s 1.
Proof. intro H. rewrite (tvolume_depth s 2 H). cbn [seq map]. rewrite !prodn_cons, prodn_nil. lia. Qed.

Lemma tvolume_depth3 s : (forall i, 3 <= i -> tget s i = 1) ->
  tvolume s = tget s 0 * tget s 1 * tget s 2.
Proof. intro H. rewrite (tvolume_depth s 3 H). cbn [seq map]. rewrite !prodn_cons, prodn_nil. lia. Qed.

Lemma tvolume_depth4 s : (forall i, 4 <= i -> tget s i = 1) ->
  tvolume s = tget s 0 * tget s 1 * tget s 2 * tget s 3.
Proof. intro H. rewrite (tvolume_depth s 4 H). cbn [seq map]. rewrite !prodn_cons, prodn_nil. lia. Qed.

(* ------------------------------------------------------------------ transfer of `get` facts *)
Lemma tget_eq_of_get a b i : get a (N.of_nat i) = get b (N.of_nat i) -> tget (to_t a) i = tget (to_t b) i.
Proof. intro H. rewrite !tget_to_t, H. reflexivity. Qed.

Lemma tget_one_of_get a i : get a (N.of_nat i) = 1%N -> tget (to_t a) i = 1.
Proof. intro H. rewrite tget_to_t, H. reflexivity. Qed.

(* same dims (all axes) *)
Lemma same_dims_t a b : (forall i, get a i = get b i) ->
  (forall i, tget (to_t a) i = tget (to_t b) i) /\ tvolume (to_t a) = tvolume (to_t b).
Proof.
  intro H. assert (G : forall i, tget (to_t a) i = tget (to_t b) i) by (intro i; apply tget_eq_of_get, H).
  split; [exact G|apply tvolume_ext, G].
Qed.

(* leave-one-out equality: lower and upper products around the axis agree *)
Lemma loo_dims_t a b dim : (forall i, i <> dim -> get a i = get b i) ->
  let d := N.to_nat dim in
  tlower (to_t a) d = tlower (to_t b) d /\ tupper (to_t a) d = tupper (to_t b) d.
Proof.
  intros H d. split.
  - apply tlower_ext. intros i Hi. apply tget_eq_of_get, H. subst d. lia.
  - apply tupper_ext. intros i Hi. apply tget_eq_of_get, H. subst d. lia.
Qed.

(* the shape r is x with axis dim replaced by m *)
Lemma axis_replaced_t x r dim m :
  (forall i, get r i = if (i =? dim)%N then m else get x i) ->
  let d := N.to_nat dim in
  tlower (to_t r) d = tlower (to_t x) d /\ tupper (to_t r) d = tupper (to_t x) d /\
  tget (to_t r) d = N.to_nat m /\
  tvolume (to_t r) = tlower (to_t x) d * N.to_nat m * tupper (to_t x) d.
Proof.
  intros H d.
  assert (Hloo : forall i, i <> dim -> get r i = get x i).
  { intros i Hi. rewrite H. destruct (N.eqb_spec i dim); [contradiction|reflexivity]. }
  destruct (loo_dims_t r x dim Hloo) as [Hl Hu]. fold d in Hl, Hu.
  assert (Hg : tget (to_t r) d = N.to_nat m).
  { subst d. rewrite tget_to_t_N, H, N.eqb_refl. reflexivity. }
  split; [exact Hl|]. split; [exact Hu|]. split; [exact Hg|].
  rewrite (tvolume_axis (to_t r) d), Hl, Hu, Hg. reflexivity.
Qed.

(* depth facts in get form, on the nat side *)
Lemma tget_beyond x k : wf x -> (depth x <= k)%N -> forall i, N.to_nat k <= i -> tget (to_t x) i = 1.
Proof.
  intros H Hd i Hi. apply tget_one_of_get. apply get_overflow. lia.
Qed.

Lemma u32_to_nat_lt a b : (a < b)%N -> N.to_nat a < N.to_nat b.
Proof. lia. Qed.

(* ids *)
Lemma nth_ids_lt ids n : Forall (fun i => (i < n)%N) ids ->
  forall b, b < length ids -> nth b (map N.to_nat ids) 0 < N.to_nat n.
Proof.
  intros H b Hb. change 0 with (N.to_nat 0%N). rewrite map_nth.
  rewrite Forall_forall in H. specialize (H (nth b ids 0%N) (nth_In _ _ Hb)). lia.
Qed.
