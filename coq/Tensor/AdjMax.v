(* C01, Max / Min along an axis over the reals (devices/naive/ops/max.cc, min.cc).
   forward   y[i] = scan of the axis slice:  tmp = first; for each v: if v > tmp (resp. <) tmp = v
   backward  for each output i: the FIRST j of the slice with x[j] == y[i] gets gx[j] += gy[i]; break
   tangent   jvp[i] = dx at that first extremal index (by definition - LocalAdjoint is then
             unconditional algebra); it is the derivative of the forward value when the
             extremum is attained exactly once (Tensor/AdjDeriv.v, ext_deriv). *)
From Coq Require Import List NArith Bool Arith Lia Ring Reals RealField Lra.
From PV Require Import Graph.OpFamily Tensor.Kernels Tensor.Index Tensor.KernelProofs Tensor.ProofsGather
  Tensor.ProofsPerm Tensor.ProofsBilinear Tensor.AdjCore Tensor.GraphInst.
Import ListNotations.
Local Open Scope R_scope.

Definition req (a b : R) : bool := if Req_EM_T a b then true else false.
Lemma req_true a b : req a b = true <-> a = b.
Proof. unfold req. destruct (Req_EM_T a b); split; congruence. Qed.

Section Ext.
  Variable better : R -> R -> bool.      (* `px[offset] > tmp` for max, `px[offset] < tmp` for min *)
  Variable dflt : R.                     (* the value stored when there is no candidate (max_pool2d: lowest()) *)

  Definition scan (vals : list R) : R := fold_left (fun tmp v => if better v tmp then v else tmp) vals (hd dflt vals).
  Definition gvals (x : list R) (g : list nat) : list R := map (fun s => nth s x 0) g.
  Definition first_eq (g : list nat) (x : list R) (m : R) : option nat := find (fun s => req (nth s x 0) m) g.

  (* a reduction program p: output fst e scans the candidates snd e in order *)
  Definition redx_desc (sx sy : tshape) (ok : bool) (p : red) : @opdesc R :=
    {| d_args := [sx]; d_rets := [sy]; d_ok := ok; d_nop := false;
       d_fw := fun xs => [map (fun e : nat * list nat => scan (gvals (hd [] xs) (snd e))) p];
       d_jvp := fun xs dxs =>
         [map (fun e : nat * list nat =>
                 match first_eq (snd e) (hd [] xs) (scan (gvals (hd [] xs) (snd e))) with
                 | Some s => nth s (hd [] dxs) 0 | None => 0 end) p];
       d_bw := fun xs ys gys =>
         [incr_run R 0 Rplus
            (flat_map (fun e : nat * list nat =>
                         match first_eq (snd e) (hd [] xs) (nth (fst e) (hd [] ys) 0) with
                         | Some s => [(s, nth (fst e) (hd [] gys) 0)] | None => [] end) p)
            (repeat 0 (tsize sx))] |}.

  Lemma sum_ok_red sx sy dim : sum_ok sx sy dim = true ->
    sequential (axis_red sx sy dim) (tsize sy) /\ red_in_bounds (axis_red sx sy dim) (tsize sx).
  Proof.
    unfold sum_ok. intro H. bsplit.
    set (base := tlower sx dim) in *. set (n := tget sx dim) in *. set (Rt := (tsize sy / base)%nat) in *.
    split; [apply (axis_red_sequential sx sy dim base n Rt)|apply (axis_red_in_bounds sx sy dim base n Rt)]; auto.
  Qed.

  Lemma redx_LA sx sy ok p : (ok = true -> sequential p (tsize sy) /\ red_in_bounds p (tsize sx)) ->
    desc_LA 0 Rplus Rmult (redx_desc sx sy ok p).
  Proof.
    intros Hp Hok xs dxs gys Hx Hdx Hgy. cbn [redx_desc d_args d_rets d_ok d_nop d_fw d_jvp d_bw] in *.
    destruct (Hp Hok) as (Hseq & Hbnd).
    apply F2_one in Hx. destruct Hx as (x & -> & Hx).
    apply F2_one in Hdx. destruct Hdx as (dx & -> & Hdx). apply F2_one in Hgy. destruct Hgy as (gy & -> & Hgy).
    cbn [hd]. unfold sized in *.
    assert (Hn : length p = tsize sy) by (apply (sequential_length p _ Hseq)).
    assert (Hseq' : map fst p = seq 0 (length p)) by (rewrite Hn; exact Hseq).
    assert (Ey : forall e, In e p -> nth (fst e) (map (fun e : nat * list nat => scan (gvals x (snd e))) p) 0 = scan (gvals x (snd e))).
    { intros e He. pose proof (seq_nth_map (fun e : nat * list nat => scan (gvals x (snd e))) 0 p 0%nat Hseq' e He) as E.
      rewrite Nat.sub_0_r in E. exact E. }
    assert (Hinb : forall e s, In e p -> first_eq (snd e) x (scan (gvals x (snd e))) = Some s -> (s < tsize sx)%nat).
    { intros e s He Hf. unfold first_eq in Hf. apply find_some in Hf. destruct Hf as (Hin & _).
      unfold red_in_bounds in Hbnd. rewrite Forall_forall in Hbnd. specialize (Hbnd e He). rewrite Forall_forall in Hbnd. apply (Hbnd s Hin). }
    set (incs := flat_map (fun e : nat * list nat =>
                  match first_eq (snd e) x (nth (fst e) (map (fun e : nat * list nat => scan (gvals x (snd e))) p) 0) with
                  | Some s => [(s, nth (fst e) gy 0)] | None => [] end) p).
    assert (Hib : Forall (fun e : nat * R => (fst e < tsize sx)%nat) incs).
    { apply Forall_forall. intros [s v] Hin. unfold incs in Hin. apply in_flat_map in Hin. destruct Hin as (e & He & Hin).
      rewrite (Ey e He) in Hin. destruct (first_eq (snd e) x (scan (gvals x (snd e)))) as [s0|] eqn:Ef; [|destruct Hin].
      destruct Hin as [E|[]]. injection E as <- <-. cbn [fst]. apply (Hinb e s0 He Ef). }
    cbv zeta. split; [|split].
    - cbn [OpFamily.dots]. rewrite (incr_dot 0 1 Rplus Rmult Rminus Ropp RTheory incs (tsize sx) dx Hib Hdx).
      rewrite (seq_dot0 0 Rplus Rmult) by (rewrite Hgy; exact Hseq).
      unfold incs. rewrite (sumR_flat_map 0 1 Rplus Rmult Rminus Ropp RTheory).
      f_equal. apply (sumR_ext 0 Rplus). intros e He. rewrite (Ey e He).
      destruct (first_eq (snd e) x (scan (gvals x (snd e)))) as [s|]; cbn [map sum_list fold_right fst snd]; ring.
    - intros _. constructor; [|constructor]. unfold sized. rewrite (incr_run_length' 0 Rplus), repeat_length; [reflexivity|].
      rewrite repeat_length. exact Hib.
    - constructor; [|constructor]. unfold sized. rewrite map_length. exact Hn.
  Qed.

  (* ---- the scan returns the unique strict extremum ---- *)
  Hypothesis better_asym : forall a b, better a b = true -> better b a = false.
  Hypothesis better_irrefl : forall a, better a a = false.

  Lemma scan_fold_unique m : forall (l : list R) (tmp : R),
    (forall v, In v l -> v = m \/ better m v = true) ->
    (tmp = m \/ (better m tmp = true /\ In m l)) ->
    fold_left (fun tmp v => if better v tmp then v else tmp) l tmp = m.
  Proof.
    induction l as [|v l IH]; intros tmp Hl Ht; cbn [fold_left].
    - destruct Ht as [->|[_ []]]. reflexivity.
    - apply IH; [intros w Hw; apply Hl; right; exact Hw|].
      destruct (Hl v (or_introl eq_refl)) as [->|Hv].
      + destruct Ht as [->|[Hb _]]; [rewrite better_irrefl|rewrite Hb]; left; reflexivity.
      + destruct Ht as [->|[Hb [E|Hin]]].
        * rewrite (better_asym _ _ Hv). left. reflexivity.
        * subst v. rewrite better_irrefl in Hv. discriminate.
        * destruct (better v tmp); right; split; assumption.
  Qed.
  Lemma scan_unique (vals : list R) m : In m vals -> (forall v, In v vals -> v = m \/ better m v = true) -> scan vals = m.
  Proof.
    intros Hin Hl. unfold scan. apply scan_fold_unique; [exact Hl|].
    destruct vals as [|v0 vals]; [destruct Hin|]. cbn [hd].
    destruct (Hl v0 (or_introl eq_refl)) as [->|Hv]; [left; reflexivity|right; split; assumption].
  Qed.
End Ext.

Definition rgt (a b : R) : bool := if Rgt_dec a b then true else false.
Definition rlt (a b : R) : bool := if Rlt_dec a b then true else false.
Lemma rgt_true a b : rgt a b = true <-> a > b.
Proof. unfold rgt. destruct (Rgt_dec a b); split; (congruence || tauto || discriminate). Qed.
Lemma rlt_true a b : rlt a b = true <-> a < b.
Proof. unfold rlt. destruct (Rlt_dec a b); split; (congruence || tauto || discriminate). Qed.
Lemma rgt_asym a b : rgt a b = true -> rgt b a = false.
Proof. unfold rgt. destruct (Rgt_dec a b), (Rgt_dec b a); try reflexivity; try discriminate. lra. Qed.
Lemma rgt_irrefl a : rgt a a = false.
Proof. unfold rgt. destruct (Rgt_dec a a); [lra|reflexivity]. Qed.
Lemma rlt_asym a b : rlt a b = true -> rlt b a = false.
Proof. unfold rlt. destruct (Rlt_dec a b), (Rlt_dec b a); try reflexivity; try discriminate. lra. Qed.
Lemma rlt_irrefl a : rlt a a = false.
Proof. unfold rlt. destruct (Rlt_dec a a); [lra|reflexivity]. Qed.

(* Max / Min along an axis: the candidates of output i are its axis slice (never empty) *)
Definition ext_desc (better : R -> R -> bool) (sx sy : tshape) (dim : nat) : @opdesc R :=
  redx_desc better 0 sx sy (sum_ok sx sy dim) (axis_red sx sy dim).
Lemma ext_LA better sx sy dim : desc_LA 0 Rplus Rmult (ext_desc better sx sy dim).
Proof. apply redx_LA. apply sum_ok_red. Qed.

(* MaxPooling2D: the candidates of output (y_y, y_x) of plane r are the window positions inside the
   image, columns outermost (pool2d_red); an all-padding window stores numeric_limits<float>::lowest() *)
Definition flt_lowest : R := - IZR 340282346638528859811704183484516925440.
Definition pool_ok (sx sy : tshape) (w0 w1 p0 p1 s0 s1 : nat) : bool :=
  let xh := tget sx 0 in let xw := tget sx 1 in let yh := tget sy 0 in let yw := tget sy 1 in
  let Rr := (tsize sx / (xh * xw))%nat in
  (tsize sx =? xh * xw * Rr)%nat && (0 <? xh)%nat && (0 <? xw)%nat && (tsize sy =? Rr * (yw * yh))%nat &&
  (0 <? w0)%nat && (0 <? w1)%nat && (0 <? s0)%nat && (0 <? s1)%nat && (w0 <=? xh + 2 * p0)%nat && (w1 <=? xw + 2 * p1)%nat &&
  (yh =? (xh + 2 * p0 - w0) / s0 + 1)%nat && (yw =? (xw + 2 * p1 - w1) / s1 + 1)%nat && (0 <? tbatch sx)%nat.
Definition pool_desc (sx sy : tshape) (w0 w1 p0 p1 s0 s1 : nat) : @opdesc R :=
  redx_desc rgt flt_lowest sx sy (pool_ok sx sy w0 w1 p0 p1 s0 s1) (pool2d_red sx sy w0 w1 p0 p1 s0 s1).


Lemma pool_ok_red sx sy w0 w1 p0 p1 s0 s1 : pool_ok sx sy w0 w1 p0 p1 s0 s1 = true ->
  sequential (pool2d_red sx sy w0 w1 p0 p1 s0 s1) (tsize sy) /\ red_in_bounds (pool2d_red sx sy w0 w1 p0 p1 s0 s1) (tsize sx).
Proof.
  unfold pool_ok. intro H. bsplit.
  set (xh := tget sx 0) in *. set (xw := tget sx 1) in *. set (Rr := (tsize sx / (xh * xw))%nat) in *.
  split.
  - match goal with H : tsize sy = _ |- _ => rewrite H end.
    apply (pool2d_sequential sx sy xh xw (tget sy 0) (tget sy 1) Rr w0 w1 p0 p1 s0 s1); auto.
  - apply (pool2d_in_bounds sx sy xh xw (tget sy 0) (tget sy 1) Rr w0 w1 p0 p1 s0 s1); auto.
Qed.
Lemma pool_LA sx sy w0 w1 p0 p1 s0 s1 : desc_LA 0 Rplus Rmult (pool_desc sx sy w0 w1 p0 p1 s0 s1).
Proof. apply redx_LA. apply pool_ok_red. Qed.
