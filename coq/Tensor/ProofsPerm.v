(* Reductions along an axis / over the minibatch, flip, transpose, permute_dims:
   per-kernel theorems about the index programs of Tensor/Kernels.v, in the style of
   KernelProofs.v (numeric Section hypotheses = the relation between the operand shapes that
   the Device front end, core/device.cc + core/shape_ops.cc, establishes). *)
From Coq Require Import List Arith Lia Permutation Bool.
From PV Require Import Tensor.Kernels Tensor.Index Tensor.KernelProofs.
Import ListNotations.

(* ================================================================== generic helpers *)
Lemma length_flat_map_const {A B} (g : A -> list B) c (p : list A) :
  (forall e, In e p -> length (g e) = c) -> length (flat_map g p) = length p * c.
Proof.
  induction p as [|e p IH]; intro H; cbn [flat_map length]; [reflexivity|].
  rewrite app_length, H by (left; reflexivity). rewrite IH by (intros; apply H; right; assumption). lia.
Qed.

Lemma length_flat_map2_const {A} n c (f : nat -> list A) :
  (forall i, length (f i) = c) -> length (flat_map2 n f) = n * c.
Proof.
  intro H. unfold flat_map2, range. rewrite (length_flat_map_const f c) by (intros; apply H).
  rewrite seq_length. reflexivity.
Qed.

(* a list of n naturals that contains every d < n is a permutation of 0..n-1 *)
Lemma perm_seq_of_surj (l : list nat) n :
  length l = n -> (forall d, d < n -> In d l) -> Permutation l (seq 0 n).
Proof.
  intros Hl Hs. apply Permutation_sym. apply NoDup_Permutation_bis.
  - apply seq_NoDup.
  - rewrite seq_length. lia.
  - intros d Hd. apply in_seq in Hd. apply Hs. lia.
Qed.

(* a duplicate-free list of n naturals below n is a permutation of 0..n-1 (pigeonhole) *)
Lemma perm_seq_of_inj (l : list nat) n :
  length l = n -> NoDup l -> (forall d, In d l -> d < n) -> Permutation l (seq 0 n).
Proof.
  intros Hl Hn Hb. apply NoDup_Permutation_bis.
  - exact Hn.
  - rewrite seq_length. lia.
  - intros d Hd. apply in_seq. specialize (Hb d Hd). lia.
Qed.

Lemma covers_of_surj {A} (p : list (nat * A)) n :
  length p = n -> (forall d, d < n -> In d (map fst p)) -> covers p n.
Proof. intros Hl Hs. unfold covers. apply perm_seq_of_surj; [rewrite map_length; exact Hl|exact Hs]. Qed.

Lemma NoDup_app_intro {A} (a b : list A) :
  NoDup a -> NoDup b -> (forall x, In x a -> In x b -> False) -> NoDup (a ++ b).
Proof.
  induction a as [|x a IH]; intros Ha Hb Hd; cbn [app]; [exact Hb|].
  inversion Ha as [|? ? Hx Ha']; subst. constructor.
  - intro Hin. apply in_app_or in Hin. destruct Hin as [Hin|Hin]; [exact (Hx Hin)|].
    apply (Hd x); [left; reflexivity|exact Hin].
  - apply IH; [exact Ha'|exact Hb|]. intros y Hy1 Hy2. apply (Hd y); [right; exact Hy1|exact Hy2].
Qed.

Lemma NoDup_flat_map {A B} (f : A -> list B) (l : list A) :
  NoDup l -> (forall a, In a l -> NoDup (f a)) ->
  (forall a b x, In a l -> In b l -> In x (f a) -> In x (f b) -> a = b) ->
  NoDup (flat_map f l).
Proof.
  induction l as [|a l IH]; intros Hl Hf Hd; cbn [flat_map]; [constructor|].
  inversion Hl as [|? ? Ha Hl']; subst. apply NoDup_app_intro.
  - apply Hf. left; reflexivity.
  - apply IH; [exact Hl'| |].
    + intros b Hb. apply Hf. right; exact Hb.
    + intros b c x Hb Hc. apply Hd; right; assumption.
  - intros x Hx1 Hx2. apply in_flat_map in Hx2. destruct Hx2 as [b [Hb Hxb]].
    assert (a = b) by (apply (Hd a b x); [left; reflexivity|right; exact Hb|exact Hx1|exact Hxb]).
    subst b. exact (Ha Hb).
Qed.

Lemma NoDup_map_inj {A B} (f : A -> B) (l : list A) :
  NoDup l -> (forall a b, In a l -> In b l -> f a = f b -> a = b) -> NoDup (map f l).
Proof.
  induction l as [|a l IH]; intros Hl Hi; cbn [map]; [constructor|].
  inversion Hl as [|? ? Ha Hl']; subst. constructor.
  - intro Hin. apply in_map_iff in Hin. destruct Hin as [b [E Hb]].
    assert (b = a) by (apply Hi; [right; exact Hb|left; reflexivity|exact E]). subst b. exact (Ha Hb).
  - apply IH; [exact Hl'|]. intros b c Hb Hc. apply Hi; right; assumption.
Qed.

(* ================================================================== axis reductions *)
(* the common index nest of sum/max/min/logsumexp (axis_red) and argmax/argmin (arg_red) *)
Definition axis_nest (base n R : nat) : red :=
  map (fun i => (i, map (fun j => i mod base + (i / base) * (base * n) + j * base) (range n)))
      (range (base * R)).

(* the input elements along the axis at (low, _, high), in increasing coordinate order *)
Definition axis_group (base n low high : nat) : list nat :=
  map (fun j => flat base n low j high) (range n).

Section AxisNest.
  Variables (base n R : nat).
  Hypothesis Hb0 : 0 < base.

  Lemma axis_nest_group low high : low < base ->
    map (fun j => (low + base * high) mod base + ((low + base * high) / base) * (base * n) + j * base)
        (range n) = axis_group base n low high.
  Proof.
    intro Hl. unfold axis_group. apply map_ext. intro j.
    pose proof (axis_offset base n low high Hl) as E. cbv zeta in E. rewrite E. unfold flat. ring.
  Qed.

  Theorem axis_nest_sequential : sequential (axis_nest base n R) (base * R).
  Proof. unfold sequential, axis_nest, range. rewrite map_map. cbn [fst]. apply map_id. Qed.

  (* coordinate form: the group of output (low, 0, high) is the axis slice, in order *)
  Theorem axis_nest_spec d g :
    In (d, g) (axis_nest base n R) <->
    exists low high, low < base /\ high < R /\
      d = flat base 1 low 0 high /\ g = axis_group base n low high.
  Proof.
    unfold axis_nest. rewrite In_map_range. split.
    - intros [i [Hi E]]. injection E as Ed Eg.
      exists (i mod base), (i / base).
      assert (Hm : i mod base < base) by (apply Nat.mod_upper_bound; lia).
      assert (Hq : i / base < R) by (apply Nat.div_lt_upper_bound; lia).
      pose proof (Nat.div_mod i base ltac:(lia)) as Ei.
      assert (Ei' : i = i mod base + base * (i / base)) by lia.
      split; [exact Hm|]. split; [exact Hq|]. split.
      + unfold flat. lia.
      + rewrite <- (axis_nest_group (i mod base) (i / base) Hm). rewrite <- Ei'. exact Eg.
    - intros [low [high [Hl [Hh [Ed Eg]]]]]. exists (low + base * high). split.
      + assert (base * (high + 1) <= base * R) by (apply Nat.mul_le_mono_l; lia). lia.
      + rewrite (axis_nest_group low high Hl). rewrite Ed, Eg. unfold flat. f_equal. lia.
  Qed.

  Theorem axis_nest_in_bounds : red_in_bounds (axis_nest base n R) (base * n * R).
  Proof.
    unfold red_in_bounds. apply Forall_forall. intros [d g] Hin. cbn [snd].
    apply axis_nest_spec in Hin. destruct Hin as [low [high [Hl [Hh [_ ->]]]]].
    apply Forall_forall. intros s Hs. unfold axis_group in Hs. apply In_map_range in Hs.
    destruct Hs as [j [Hj ->]]. apply flat_lt; assumption.
  Qed.

  (* the j-th element scanned for output (low, high) is input (low, j, high) *)
  Corollary axis_nest_nth d g j : In (d, g) (axis_nest base n R) -> j < n ->
    exists low high, low < base /\ high < R /\ d = flat base 1 low 0 high /\
      length g = n /\ nth j g 0 = flat base n low j high.
  Proof.
    intros Hin Hj. apply axis_nest_spec in Hin. destruct Hin as [low [high [Hl [Hh [Ed Eg]]]]].
    exists low, high. repeat (split; [assumption|]). rewrite Eg. unfold axis_group, range. split.
    - rewrite map_length, seq_length. reflexivity.
    - rewrite (nth_indep _ 0 (flat base n low 0 high)) by (rewrite map_length, seq_length; exact Hj).
      rewrite (map_nth (fun j => flat base n low j high) (seq 0 n) 0 j). rewrite seq_nth by exact Hj. reflexivity.
  Qed.

  (* the groups partition the input: their concatenation is a permutation of 0..size-1 *)
  Theorem axis_nest_partition :
    Permutation (flat_map snd (axis_nest base n R)) (seq 0 (base * n * R)).
  Proof.
    apply perm_seq_of_surj.
    - rewrite (length_flat_map_const snd n).
      + unfold axis_nest, range. rewrite map_length, seq_length. lia.
      + intros [d g] Hin. apply axis_nest_spec in Hin. destruct Hin as [low [high [_ [_ [_ ->]]]]].
        unfold axis_group, range. cbn [snd]. rewrite map_length, seq_length. reflexivity.
    - intros s Hs. destruct (Nat.eq_dec n 0) as [Hn0|Hn0]; [rewrite Hn0 in Hs; lia|].
      destruct (flat_split base n R s Hb0 ltac:(lia) Hs) as [low [k [high [Hl [Hk [Hh ->]]]]]].
      apply in_flat_map. exists (flat base 1 low 0 high, axis_group base n low high). split.
      + apply axis_nest_spec. exists low, high. auto.
      + cbn [snd]. unfold axis_group. apply In_map_range. exists k. auto.
  Qed.

  (* ... and an input element belongs to the group of exactly one output *)
  Theorem axis_nest_group_unique d1 g1 d2 g2 s :
    In (d1, g1) (axis_nest base n R) -> In (d2, g2) (axis_nest base n R) ->
    In s g1 -> In s g2 -> d1 = d2 /\ g1 = g2.
  Proof.
    intros H1 H2 Hs1 Hs2. apply axis_nest_spec in H1, H2.
    destruct H1 as [l1 [h1 [Hl1 [Hh1 [-> ->]]]]]. destruct H2 as [l2 [h2 [Hl2 [Hh2 [-> ->]]]]].
    unfold axis_group in Hs1, Hs2. apply In_map_range in Hs1, Hs2.
    destruct Hs1 as [j1 [Hj1 E1]]. destruct Hs2 as [j2 [Hj2 E2]]. rewrite E1 in E2.
    apply flat_inj in E2; try assumption. destruct E2 as [-> [_ ->]]. split; reflexivity.
  Qed.

  (* no index is scanned twice inside a group *)
  Theorem axis_nest_group_NoDup d g : In (d, g) (axis_nest base n R) -> NoDup g.
  Proof.
    intro Hin. apply axis_nest_spec in Hin. destruct Hin as [low [high [Hl [Hh [_ ->]]]]].
    unfold axis_group, range. apply NoDup_map_inj; [apply seq_NoDup|].
    intros a b Ha Hb E. apply in_seq in Ha, Hb. apply flat_inj in E; try lia.
  Qed.

  (* an axis of extent 1 (in particular every axis >= depth): the reduction is the identity map *)
  Theorem axis_nest_unit d g : n = 1 -> In (d, g) (axis_nest base n R) -> g = [d].
  Proof.
    intros Hn1 Hin. apply axis_nest_spec in Hin. destruct Hin as [low [high [Hl [Hh [-> ->]]]]].
    unfold axis_group. rewrite Hn1. reflexivity.
  Qed.
End AxisNest.

Section AxisRed.
  Variables (sx sy : tshape) (dim base n R : nat).
  Hypothesis Hbase : tlower sy dim = base.
  Hypothesis Hn : tget sx dim = n.
  Hypothesis Hsy : tsize sy = base * R.
  Hypothesis Hsx : tsize sx = base * n * R.
  Hypothesis Hb0 : 0 < base.

  Lemma axis_red_nest : axis_red sx sy dim = axis_nest base n R.
  Proof. unfold axis_red, axis_nest. rewrite Hbase, Hn, Hsy. reflexivity. Qed.

  (* every output element is produced exactly once, in increasing order *)
  Theorem axis_red_sequential : sequential (axis_red sx sy dim) (tsize sy).
  Proof. rewrite axis_red_nest, Hsy. apply axis_nest_sequential. Qed.

  (* no read outside x *)
  Theorem axis_red_in_bounds : red_in_bounds (axis_red sx sy dim) (tsize sx).
  Proof. rewrite axis_red_nest, Hsx. apply axis_nest_in_bounds. exact Hb0. Qed.

  (* y[low, 0, high] is computed from x[low, 0, high], x[low, 1, high], ..., x[low, n-1, high] *)
  Theorem axis_red_spec d g :
    In (d, g) (axis_red sx sy dim) <->
    exists low high, low < base /\ high < R /\
      d = flat base 1 low 0 high /\ g = axis_group base n low high.
  Proof. rewrite axis_red_nest. apply axis_nest_spec. exact Hb0. Qed.

  Theorem axis_red_partition :
    Permutation (flat_map snd (axis_red sx sy dim)) (seq 0 (tsize sx)).
  Proof. rewrite axis_red_nest, Hsx. apply axis_nest_partition. exact Hb0. Qed.

  Theorem axis_red_group_unique d1 g1 d2 g2 s :
    In (d1, g1) (axis_red sx sy dim) -> In (d2, g2) (axis_red sx sy dim) ->
    In s g1 -> In s g2 -> d1 = d2 /\ g1 = g2.
  Proof. rewrite axis_red_nest. apply axis_nest_group_unique. exact Hb0. Qed.

  Theorem axis_red_group_NoDup d g : In (d, g) (axis_red sx sy dim) -> NoDup g.
  Proof. rewrite axis_red_nest. apply axis_nest_group_NoDup. exact Hb0. Qed.

  Theorem axis_red_unit d g : n = 1 -> In (d, g) (axis_red sx sy dim) -> g = [d].
  Proof. rewrite axis_red_nest. apply axis_nest_unit. exact Hb0. Qed.
End AxisRed.

(* argmax_impl / argmin_impl: same nest, repeat computed as size / n over the input shape *)
Section ArgRed.
  Variables (sx : tshape) (dim base n R : nat).
  Hypothesis Hbase : tlower sx dim = base.
  Hypothesis Hn : tget sx dim = n.
  Hypothesis Hsx : tsize sx = base * n * R.
  Hypothesis Hb0 : 0 < base.
  Hypothesis Hn0 : 0 < n.

  Lemma arg_red_nest : arg_red sx dim = axis_nest base n R.
  Proof.
    unfold arg_red, axis_nest. rewrite Hbase, Hn, Hsx.
    replace (base * n * R) with (base * R * n) by ring. rewrite Nat.div_mul by lia. reflexivity.
  Qed.

  (* one result per (low, high), in increasing order: the returned vector has size/n entries *)
  Theorem arg_red_sequential : sequential (arg_red sx dim) (base * R).
  Proof. rewrite arg_red_nest. apply axis_nest_sequential. Qed.

  Theorem arg_red_in_bounds : red_in_bounds (arg_red sx dim) (tsize sx).
  Proof. rewrite arg_red_nest, Hsx. apply axis_nest_in_bounds. exact Hb0. Qed.

  Theorem arg_red_spec d g :
    In (d, g) (arg_red sx dim) <->
    exists low high, low < base /\ high < R /\
      d = flat base 1 low 0 high /\ g = axis_group base n low high.
  Proof. rewrite arg_red_nest. apply axis_nest_spec. exact Hb0. Qed.

  Theorem arg_red_partition : Permutation (flat_map snd (arg_red sx dim)) (seq 0 (tsize sx)).
  Proof. rewrite arg_red_nest, Hsx. apply axis_nest_partition. exact Hb0. Qed.
End ArgRed.

(* ================================================================== batch_sum *)
Section BatchSum.
  Variables (sx sy : tshape) (bs V : nat).
  Hypothesis Hbs : tbatch sx = bs.
  Hypothesis Hsy : tsize sy = V.          (* y = x.shape().resize_batch(1) *)
  Hypothesis Hsx : tsize sx = V * bs.

  Definition batch_group (i : nat) : list nat := map (fun b => flat V bs i b 0) (range bs).

  Lemma batch_sum_red_eq :
    batch_sum_red sx sy = map (fun i => (i, batch_group i)) (range V).
  Proof.
    unfold batch_sum_red, batch_group. rewrite Hbs, Hsy. apply map_ext. intro i. f_equal.
    apply map_ext. intro b. unfold flat. ring.
  Qed.

  Theorem batch_sum_sequential : sequential (batch_sum_red sx sy) (tsize sy).
  Proof. unfold sequential. rewrite batch_sum_red_eq, Hsy, map_map. cbn [fst]. apply map_id. Qed.

  (* y[i] is computed from x[i, b] for b = 0..bs-1, in that order *)
  Theorem batch_sum_spec d g :
    In (d, g) (batch_sum_red sx sy) <-> d < V /\ g = batch_group d.
  Proof.
    rewrite batch_sum_red_eq, In_map_range. split.
    - intros [i [Hi E]]. injection E as -> ->. auto.
    - intros [Hd ->]. exists d. auto.
  Qed.

  Theorem batch_sum_in_bounds : red_in_bounds (batch_sum_red sx sy) (tsize sx).
  Proof.
    unfold red_in_bounds. apply Forall_forall. intros [d g] Hin. cbn [snd].
    apply batch_sum_spec in Hin. destruct Hin as [Hd ->]. apply Forall_forall. intros s Hs.
    unfold batch_group in Hs. apply In_map_range in Hs. destruct Hs as [b [Hb ->]].
    rewrite Hsx. replace (V * bs) with (V * bs * 1) by lia. apply flat_lt; lia.
  Qed.

  Theorem batch_sum_partition :
    Permutation (flat_map snd (batch_sum_red sx sy)) (seq 0 (tsize sx)).
  Proof.
    rewrite Hsx. apply perm_seq_of_surj.
    - rewrite (length_flat_map_const snd bs).
      + rewrite batch_sum_red_eq. unfold range. rewrite map_length, seq_length. reflexivity.
      + intros [d g] Hin. apply batch_sum_spec in Hin. destruct Hin as [_ ->]. cbn [snd].
        unfold batch_group, range. rewrite map_length, seq_length. reflexivity.
    - intros s Hs. destruct (Nat.eq_dec V 0) as [HV|HV]; [rewrite HV in Hs; lia|].
      destruct (Nat.eq_dec bs 0) as [HB|HB]; [rewrite HB in Hs; lia|].
      destruct (flat_split V bs 1 s ltac:(lia) ltac:(lia) ltac:(lia)) as [low [k [high [Hl [Hk [Hh ->]]]]]].
      assert (high = 0) by lia. subst high.
      apply in_flat_map. exists (low, batch_group low). split.
      + apply batch_sum_spec. auto.
      + cbn [snd]. unfold batch_group. apply In_map_range. exists k. auto.
  Qed.

  Theorem batch_sum_group_unique d1 g1 d2 g2 s :
    In (d1, g1) (batch_sum_red sx sy) -> In (d2, g2) (batch_sum_red sx sy) ->
    In s g1 -> In s g2 -> d1 = d2.
  Proof.
    intros H1 H2 Hs1 Hs2. apply batch_sum_spec in H1, H2. destruct H1 as [Hd1 ->]. destruct H2 as [Hd2 ->].
    unfold batch_group in Hs1, Hs2. apply In_map_range in Hs1, Hs2.
    destruct Hs1 as [b1 [Hb1 E1]]. destruct Hs2 as [b2 [Hb2 E2]]. rewrite E1 in E2.
    apply flat_inj in E2; try assumption. tauto.
  Qed.
End BatchSum.

(* ================================================================== what the groups compute *)
Section RedSemantics.
  Variable T : Type.
  Variable dflt : T.

  Definition gather_vals (x : list T) (g : list nat) : list T := map (fun s => nth s x dflt) g.

  (* value semantics of a reduction program for a per-group function f (sum, max, logsumexp ...) *)
  Definition red_eval {U} (f : list T -> U) (p : red) (x : list T) : list (nat * U) :=
    map (fun e => (fst e, f (gather_vals x (snd e)))) p.

  (* the axis slice x[low, 0..n-1, high] *)
  Definition axis_slice (x : list T) (base n low high : nat) : list T :=
    map (fun j => nth (flat base n low j high) x dflt) (range n).

  Lemma gather_axis_group x base n low high :
    gather_vals x (axis_group base n low high) = axis_slice x base n low high.
  Proof. unfold gather_vals, axis_group, axis_slice. rewrite map_map. reflexivity. Qed.

  (* every per-group function is applied to exactly the axis slice, in axis order *)
  Theorem axis_nest_eval {U} (f : list T -> U) base n R x d v : 0 < base ->
    In (d, v) (red_eval f (axis_nest base n R) x) <->
    exists low high, low < base /\ high < R /\ d = flat base 1 low 0 high /\
      v = f (axis_slice x base n low high).
  Proof.
    intro Hb0. unfold red_eval. rewrite in_map_iff. split.
    - intros [[d' g] [E Hin]]. cbn [fst snd] in E. injection E as <- <-.
      apply axis_nest_spec in Hin; [|exact Hb0]. destruct Hin as [low [high [Hl [Hh [-> ->]]]]].
      exists low, high. rewrite gather_axis_group. auto.
    - intros [low [high [Hl [Hh [-> ->]]]]].
      exists (flat base 1 low 0 high, axis_group base n low high). cbn [fst snd].
      rewrite gather_axis_group. split; [reflexivity|]. apply axis_nest_spec; [exact Hb0|].
      exists low, high. auto.
  Qed.

  (* sum-like kernels: a left fold from the neutral element; for a commutative monoid the result
     does not depend on the scan order, i.e. it is "the" sum of the slice *)
  Variables (e : T) (op : T -> T -> T).
  Hypothesis op_comm : forall a b, op a b = op b a.
  Hypothesis op_assoc : forall a b c, op a (op b c) = op (op a b) c.

  Definition fold_red (l : list T) : T := fold_left op l e.

  Lemma fold_left_perm l l' : Permutation l l' -> forall a, fold_left op l a = fold_left op l' a.
  Proof.
    induction 1 as [|x l l' _ IH|x y l|l l' l'' _ IH1 _ IH2]; intro a; cbn [fold_left].
    - reflexivity.
    - apply IH.
    - f_equal. rewrite <- !op_assoc. f_equal. apply op_comm.
    - rewrite IH1. apply IH2.
  Qed.

  Theorem axis_nest_fold base n R x d v : 0 < base ->
    In (d, v) (red_eval fold_red (axis_nest base n R) x) ->
    exists low high, low < base /\ high < R /\ d = flat base 1 low 0 high /\
      forall l, Permutation l (axis_slice x base n low high) -> v = fold_red l.
  Proof.
    intros Hb0 Hin. apply axis_nest_eval in Hin; [|exact Hb0].
    destruct Hin as [low [high [Hl [Hh [-> ->]]]]]. exists low, high.
    repeat (split; [assumption || reflexivity|]). intros l Hp. unfold fold_red.
    symmetry. apply fold_left_perm. exact Hp.
  Qed.
End RedSemantics.

(* max / argmax as the C++ computes them: start from element 0, replace on strict `>` *)
Section ArgMax.
  Variable T : Type.
  Variable leb : T -> T -> bool.
  Hypothesis leb_total : forall a b, leb a b = true \/ leb b a = true.
  Hypothesis leb_trans : forall a b c, leb a b = true -> leb b c = true -> leb a c = true.

  Definition gtb (a b : T) : bool := negb (leb a b).

  Fixpoint scan (best : T) (bi j : nat) (l : list T) : T * nat :=
    match l with
    | [] => (best, bi)
    | v :: r => if gtb v best then scan v j (S j) r else scan best bi (S j) r
    end.

  Definition max_scan (d : T) (l : list T) : T * nat :=
    match l with [] => (d, 0) | v :: r => scan v 0 1 r end.

  Definition is_first_max (d : T) (l : list T) (m : T) (k : nat) : Prop :=
    k < length l /\ nth k l d = m /\
    (forall q, q < length l -> leb (nth q l d) m = true) /\
    (forall q, q < k -> gtb m (nth q l d) = true).

  Lemma scan_inv d : forall l pre best bi,
    is_first_max d pre best bi ->
    is_first_max d (pre ++ l) (fst (scan best bi (length pre) l)) (snd (scan best bi (length pre) l)).
  Proof.
    induction l as [|v r IH]; intros pre best bi Hinv; cbn [scan].
    - rewrite app_nil_r. exact Hinv.
    - destruct Hinv as [Hbi [Hnth [Hle Hgt]]].
      replace (pre ++ v :: r) with ((pre ++ [v]) ++ r) by (rewrite <- app_assoc; reflexivity).
      replace (S (length pre)) with (length (pre ++ [v])) by (rewrite app_length; cbn [length]; lia).
      assert (Hlast : nth (length pre) (pre ++ [v]) d = v)
        by (rewrite app_nth2 by lia; rewrite Nat.sub_diag; reflexivity).
      assert (Hlen : length (pre ++ [v]) = S (length pre)) by (rewrite app_length; cbn [length]; lia).
      destruct (gtb v best) eqn:Hg; apply IH; unfold is_first_max; rewrite Hlen.
      + unfold gtb in Hg. apply negb_true_iff in Hg.
        assert (Hbv : leb best v = true) by (destruct (leb_total best v) as [H|H]; [exact H|congruence]).
        split; [lia|]. split; [exact Hlast|]. split.
        * intros q Hq. destruct (Nat.eq_dec q (length pre)) as [->|Hne].
          -- rewrite Hlast. destruct (leb_total v v); assumption.
          -- rewrite app_nth1 by lia. apply (leb_trans _ best); [apply Hle; lia|exact Hbv].
        * intros q Hq. rewrite app_nth1 by lia. unfold gtb. apply negb_true_iff.
          destruct (leb v (nth q pre d)) eqn:E; [|reflexivity].
          assert (leb v best = true) by (apply (leb_trans _ (nth q pre d)); [exact E|apply Hle; lia]).
          congruence.
      + unfold gtb in Hg. apply negb_false_iff in Hg.
        split; [lia|]. split; [rewrite app_nth1 by lia; exact Hnth|]. split.
        * intros q Hq. destruct (Nat.eq_dec q (length pre)) as [->|Hne].
          -- rewrite Hlast. exact Hg.
          -- rewrite app_nth1 by lia. apply Hle. lia.
        * intros q Hq. rewrite app_nth1 by lia. apply Hgt. exact Hq.
  Qed.

  (* the scan returns the maximum and the LEAST index attaining it *)
  Theorem max_scan_first_max d l : l <> [] ->
    is_first_max d l (fst (max_scan d l)) (snd (max_scan d l)).
  Proof.
    destruct l as [|v r]; intro Hne; [congruence|]. unfold max_scan.
    change (v :: r) with ([v] ++ r). change 1 with (length [v]). apply scan_inv.
    unfold is_first_max. cbn [length nth]. split; [lia|]. split; [reflexivity|]. split.
    - intros q Hq. replace q with 0 by lia. destruct (leb_total v v); assumption.
    - intros q Hq. lia.
  Qed.

  (* argmax along an axis: for output (low, high) the result k is the first position of the
     maximum of the slice x[low, 0..n-1, high] *)
  Theorem axis_nest_argmax dflt base n R x d r : 0 < base -> 0 < n ->
    In (d, r) (red_eval T dflt (max_scan dflt) (axis_nest base n R) x) ->
    exists low high, low < base /\ high < R /\ d = flat base 1 low 0 high /\
      let xs := fun j => nth (flat base n low j high) x dflt in
      snd r < n /\ fst r = xs (snd r) /\
      (forall j, j < n -> leb (xs j) (fst r) = true) /\
      (forall j, j < snd r -> gtb (fst r) (xs j) = true).
  Proof.
    intros Hb0 Hn0 Hin. apply axis_nest_eval in Hin; [|exact Hb0].
    destruct Hin as [low [high [Hl [Hh [-> ->]]]]]. exists low, high.
    repeat (split; [assumption || reflexivity|]).
    set (sl := axis_slice T dflt x base n low high).
    assert (Hlen : length sl = n) by (unfold sl, axis_slice, range; rewrite map_length, seq_length; reflexivity).
    assert (Hnth : forall j, j < n -> nth j sl dflt = nth (flat base n low j high) x dflt).
    { intros j Hj. unfold sl, axis_slice, range.
      rewrite (nth_indep _ dflt ((fun j => nth (flat base n low j high) x dflt) 0))
        by (rewrite map_length, seq_length; exact Hj).
      rewrite (map_nth (fun j => nth (flat base n low j high) x dflt) (seq 0 n) 0 j).
      rewrite seq_nth by exact Hj. reflexivity. }
    assert (Hne : sl <> []) by (intro E; rewrite E in Hlen; cbn in Hlen; lia).
    destruct (max_scan_first_max dflt sl Hne) as [Hk [Hm [Hle Hgt]]]. rewrite Hlen in *.
    cbv zeta. split; [exact Hk|]. split; [rewrite <- Hnth by exact Hk; symmetry; exact Hm|]. split.
    - intros j Hj. rewrite <- Hnth by exact Hj. apply Hle. exact Hj.
    - intros j Hj. rewrite <- Hnth by lia. apply Hgt. exact Hj.
  Qed.
End ArgMax.

(* ================================================================== forward / backward duality *)
(* the accumulation program that is the transpose of a data movement: gx[src] += gy[dst] *)
Definition mov_transposed (p : mov) : acc := map (fun e => (snd (snd e), fst e)) p.
(* an accumulation / pair program read as a single-operand data movement t[dst] := x[src] *)
Definition acc_as_mov (p : acc) : mov := map (fun e => (fst e, (0, snd e))) p.
Definition mov_as_acc (p : mov) : acc := map (fun e => (fst e, snd (snd e))) p.
(* every source index 0..n-1 is read exactly once *)
Definition srcs_cover (p : mov) (n : nat) : Prop :=
  Permutation (map (fun e => snd (snd e)) p) (seq 0 n).

Lemma covers_NoDup {A} (p : list (nat * A)) n : covers p n -> NoDup p.
Proof.
  intro H. apply (NoDup_map_inv fst). apply (Permutation_NoDup (Permutation_sym H)). apply seq_NoDup.
Qed.

Section Duality.
  Variable T : Type.
  Variables (zero : T) (add mul : T -> T -> T).
  Hypothesis add_comm : forall a b, add a b = add b a.
  Hypothesis add_assoc : forall a b c, add a (add b c) = add (add a b) c.
  Hypothesis add_0_l : forall a, add zero a = a.
  Hypothesis mul_add_distr_r : forall a b c, mul (add a b) c = add (mul a c) (mul b c).
  Hypothesis mul_0_l : forall a, mul zero a = zero.

  (* <gy, F dx> for the forward program F: sum over its pairs of gy[dst] * dx[src] *)
  Fixpoint fw_pairing (p : mov) (gy dx : list T) : T :=
    match p with
    | [] => zero
    | (d, (_, s)) :: r => add (mul (nth d gy zero) (nth s dx zero)) (fw_pairing r gy dx)
    end.

  Lemma gather_sum_transposed p gy dx :
    gather_sum T zero add mul (mov_transposed p) gy dx = fw_pairing p gy dx.
  Proof.
    induction p as [|[d [k s]] r IH]; cbn [mov_transposed map gather_sum fw_pairing fst snd]; [reflexivity|].
    f_equal. exact IH.
  Qed.

  Lemma gather_sum_perm p q gy dx : Permutation p q ->
    gather_sum T zero add mul p gy dx = gather_sum T zero add mul q gy dx.
  Proof.
    induction 1 as [|[d s] l l' _ IH|[d1 s1] [d2 s2] l|l l' l'' _ IH1 _ IH2]; cbn [gather_sum].
    - reflexivity.
    - f_equal. exact IH.
    - rewrite !add_assoc. f_equal. apply add_comm.
    - rewrite IH1. exact IH2.
  Qed.

  (* a backward program that is (a rearrangement of) the transposed forward program computes
     the adjoint, accumulating on top of whatever gx holds *)
  Theorem transposed_adjoint (q : acc) (fw : mov) gy gx dx :
    Permutation q (mov_transposed fw) ->
    acc_in_bounds q (length gx) (length gy) -> length dx = length gx ->
    dot T zero add mul (scatter T zero add q gy gx) dx
    = add (dot T zero add mul gx dx) (fw_pairing fw gy dx).
  Proof.
    intros Hp Hb Hl.
    rewrite (scatter_adjoint T zero add mul add_comm add_assoc add_0_l mul_add_distr_r q gy gx dx Hb Hl).
    f_equal. rewrite (gather_sum_perm _ _ gy dx Hp). apply gather_sum_transposed.
  Qed.
End Duality.

(* ================================================================== transpose *)
Section Transpose.
  Variables (sx sy : tshape) (d1 d2 bs : nat).
  Hypothesis Hd1 : tget sx 0 = d1.
  Hypothesis Hd2 : tget sx 1 = d2.
  Hypothesis Hbs : tbatch sy = bs.
  Hypothesis Hsx : tsize sx = d1 * d2 * bs.
  Hypothesis Hsy : tsize sy = d2 * d1 * bs.

  (* y[j, i] = x[i, j] in every sample (y has shape {d2, d1}) *)
  Theorem transpose_fw_spec d k s :
    In (d, (k, s)) (transpose_fw sx sy) <->
    exists i j b, i < d1 /\ j < d2 /\ b < bs /\ k = 0 /\
      d = flat d2 d1 j i b /\ s = flat d1 d2 i j b.
  Proof.
    unfold transpose_fw. rewrite Hd1, Hd2, Hbs. rewrite In_flat_map2. split.
    - intros [b [Hb H]]. apply In_flat_map2 in H. destruct H as [j [Hj H]].
      apply In_map_range in H. destruct H as [i [Hi E]]. injection E as -> -> ->.
      exists i, j, b. unfold flat. repeat split; try assumption; ring.
    - intros [i [j [b [Hi [Hj [Hb [-> [-> ->]]]]]]]]. exists b. split; [exact Hb|].
      apply In_flat_map2. exists j. split; [exact Hj|]. apply In_map_range. exists i. split; [exact Hi|].
      unfold flat. f_equal; [ring|]. f_equal. ring.
  Qed.

  Lemma transpose_fw_length : length (transpose_fw sx sy) = d2 * d1 * bs.
  Proof.
    unfold transpose_fw. rewrite Hd1, Hd2, Hbs.
    rewrite (length_flat_map2_const bs (d2 * d1)); [lia|]. intro b.
    rewrite (length_flat_map2_const d2 d1); [lia|]. intro j.
    unfold range. rewrite map_length, seq_length. reflexivity.
  Qed.

  (* every element of y is written exactly once *)
  Theorem transpose_fw_covers : covers (transpose_fw sx sy) (tsize sy).
  Proof.
    rewrite Hsy. apply covers_of_surj; [exact transpose_fw_length|]. intros d Hd.
    destruct (Nat.eq_dec d2 0) as [E|N2]; [rewrite E in Hd; lia|].
    destruct (Nat.eq_dec d1 0) as [E|N1]; [rewrite E in Hd; lia|].
    destruct (flat_split d2 d1 bs d ltac:(lia) ltac:(lia) Hd) as [j [i [b [Hj [Hi [Hb ->]]]]]].
    apply in_map_iff. exists (flat d2 d1 j i b, (0, flat d1 d2 i j b)). split; [reflexivity|].
    apply transpose_fw_spec. exists i, j, b. auto 10.
  Qed.

  (* no read outside x *)
  Theorem transpose_fw_in_bounds : mov_in_bounds (transpose_fw sx sy) [tsize sx].
  Proof.
    unfold mov_in_bounds. apply Forall_forall. intros [d [k s]] Hin. cbn [fst snd].
    apply transpose_fw_spec in Hin. destruct Hin as [i [j [b [Hi [Hj [Hb [-> [_ ->]]]]]]]].
    cbn [nth]. rewrite Hsx. apply flat_lt; assumption.
  Qed.

  (* every element of x is read exactly once: the map is a bijection *)
  Theorem transpose_fw_srcs_cover : srcs_cover (transpose_fw sx sy) (tsize sx).
  Proof.
    unfold srcs_cover. rewrite Hsx. apply perm_seq_of_surj.
    - rewrite map_length, transpose_fw_length. ring.
    - intros s Hs.
      destruct (Nat.eq_dec d1 0) as [E|N1]; [rewrite E in Hs; lia|].
      destruct (Nat.eq_dec d2 0) as [E|N2]; [rewrite E in Hs; lia|].
      destruct (flat_split d1 d2 bs s ltac:(lia) ltac:(lia) Hs) as [i [j [b [Hi [Hj [Hb ->]]]]]].
      apply in_map_iff. exists (flat d2 d1 j i b, (0, flat d1 d2 i j b)). split; [reflexivity|].
      apply transpose_fw_spec. exists i, j, b. auto 10.
  Qed.

  (* transpose_bw_impl is inplace_add(transpose_fw(gy), gx): the forward kernel run on the
     swapped shapes.  Its pairs are the transposed pairs of the forward program. *)
  Hypothesis Hd1' : tget sy 0 = d2.
  Hypothesis Hd2' : tget sy 1 = d1.
  Hypothesis Hbs' : tbatch sx = bs.

  Theorem transpose_bw_transposed :
    Permutation (mov_as_acc (transpose_fw sy sx)) (mov_transposed (transpose_fw sx sy)).
  Proof.
    assert (Hspec' : forall d k s, In (d, (k, s)) (transpose_fw sy sx) <->
      exists i j b, i < d2 /\ j < d1 /\ b < bs /\ k = 0 /\ d = flat d1 d2 j i b /\ s = flat d2 d1 i j b).
    { intros d k s. unfold transpose_fw. rewrite Hd1', Hd2', Hbs'. rewrite In_flat_map2. split.
      - intros [b [Hb H]]. apply In_flat_map2 in H. destruct H as [j [Hj H]].
        apply In_map_range in H. destruct H as [i [Hi E]]. injection E as -> -> ->.
        exists i, j, b. unfold flat. repeat split; try assumption; ring.
      - intros [i [j [b [Hi [Hj [Hb [-> [-> ->]]]]]]]]. exists b. split; [exact Hb|].
        apply In_flat_map2. exists j. split; [exact Hj|]. apply In_map_range. exists i. split; [exact Hi|].
        unfold flat. f_equal; [ring|]. f_equal. ring. }
    assert (Hlen' : length (transpose_fw sy sx) = d1 * d2 * bs).
    { unfold transpose_fw. rewrite Hd1', Hd2', Hbs'.
      rewrite (length_flat_map2_const bs (d1 * d2)); [lia|]. intro b.
      rewrite (length_flat_map2_const d1 d2); [lia|]. intro j.
      unfold range. rewrite map_length, seq_length. reflexivity. }
    apply NoDup_Permutation_bis.
    - (* destinations of the swapped program are distinct *)
      apply (NoDup_map_inv fst). unfold mov_as_acc. rewrite map_map. cbn [fst].
      assert (C : covers (transpose_fw sy sx) (d1 * d2 * bs)).
      { apply covers_of_surj; [exact Hlen'|]. intros d Hd.
        destruct (Nat.eq_dec d1 0) as [E|N1]; [rewrite E in Hd; lia|].
        destruct (Nat.eq_dec d2 0) as [E|N2]; [rewrite E in Hd; lia|].
        destruct (flat_split d1 d2 bs d ltac:(lia) ltac:(lia) Hd) as [j [i [b [Hj [Hi [Hb ->]]]]]].
        apply in_map_iff. exists (flat d1 d2 j i b, (0, flat d2 d1 i j b)). split; [reflexivity|].
        apply Hspec'. exists i, j, b. auto 10. }
      apply (Permutation_NoDup (Permutation_sym C)). apply seq_NoDup.
    - unfold mov_as_acc, mov_transposed. rewrite !map_length, Hlen', transpose_fw_length. lia.
    - intros [a c] Hin. unfold mov_as_acc in Hin. apply in_map_iff in Hin.
      destruct Hin as [[d [k s]] [E Hin]]. cbn [fst snd] in E. injection E as -> ->.
      apply Hspec' in Hin. destruct Hin as [i [j [b [Hi [Hj [Hb [-> [-> ->]]]]]]]].
      unfold mov_transposed. apply in_map_iff.
      exists (flat d2 d1 i j b, (0, flat d1 d2 j i b)). split; [reflexivity|].
      apply transpose_fw_spec. exists j, i, b. auto 10.
  Qed.
End Transpose.

(* ================================================================== flip *)
(* the C++ offset arithmetic: i ranges over size/n, offset = i*n - (i mod skip)*(n-1) *)
Lemma flip_offset skip n i : 0 < skip -> 0 < n ->
  i * n - (i mod skip) * (n - 1) = flat skip n (i mod skip) 0 (i / skip).
Proof.
  intros Hs Hn. unfold flat. pose proof (Nat.div_mod i skip ltac:(lia)) as E.
  set (low := i mod skip) in *. set (high := i / skip) in *.
  assert (E1 : low * (n - 1) + low = low * n) by (destruct n; [lia|]; replace (S n - 1) with n by lia; ring).
  assert (E2 : i * n = low * n + skip * (n * high)) by (rewrite E; ring).
  lia.
Qed.

Section Flip.
  Variables (s : tshape) (dim skip n R : nat).
  Hypothesis Hskip : tlower s dim = skip.
  Hypothesis Hn : tget s dim = n.
  Hypothesis Hs : tsize s = skip * n * R.
  Hypothesis Hs0 : 0 < skip.
  Hypothesis Hn0 : 0 < n.

  Lemma flip_repeat : tsize s / n = skip * R.
  Proof. rewrite Hs. replace (skip * n * R) with (skip * R * n) by ring. apply Nat.div_mul. lia. Qed.

  (* y[low, j, high] = x[low, n-1-j, high] *)
  Theorem flip_pairs_spec d sr :
    In (d, sr) (flip_pairs s dim) <->
    exists low j high, low < skip /\ j < n /\ high < R /\
      d = flat skip n low j high /\ sr = flat skip n low (n - 1 - j) high.
  Proof.
    unfold flip_pairs. rewrite Hskip, Hn, flip_repeat. rewrite In_flat_map2. split.
    - intros [j [Hj H]]. apply In_map_range in H. destruct H as [i [Hi E]]. cbv zeta in E.
      rewrite (flip_offset skip n i Hs0 Hn0) in E. injection E as -> ->.
      exists (i mod skip), j, (i / skip).
      split; [apply Nat.mod_upper_bound; lia|]. split; [exact Hj|].
      split; [apply Nat.div_lt_upper_bound; lia|]. unfold flat. split; [ring|].
      replace (n - j - 1) with (n - 1 - j) by lia. ring.
    - intros [low [j [high [Hl [Hj [Hh [-> ->]]]]]]]. exists j. split; [exact Hj|].
      apply In_map_range. exists (low + skip * high). split.
      + assert (skip * (high + 1) <= skip * R) by (apply Nat.mul_le_mono_l; lia). lia.
      + cbv zeta. rewrite (flip_offset skip n _ Hs0 Hn0).
        rewrite (Nat.mul_comm skip high), Nat.mod_add, Nat.mod_small, Nat.div_add, Nat.div_small by lia.
        unfold flat. replace (n - j - 1) with (n - 1 - j) by lia. f_equal; ring.
  Qed.

  Lemma flip_pairs_length : length (flip_pairs s dim) = skip * n * R.
  Proof.
    unfold flip_pairs. rewrite Hskip, Hn, flip_repeat.
    rewrite (length_flat_map2_const n (skip * R)); [ring|]. intro j.
    unfold range. rewrite map_length, seq_length. reflexivity.
  Qed.

  (* every output element written exactly once *)
  Theorem flip_pairs_covers : covers (flip_pairs s dim) (tsize s).
  Proof.
    rewrite Hs. apply covers_of_surj; [exact flip_pairs_length|]. intros d Hd.
    destruct (flat_split skip n R d Hs0 Hn0 Hd) as [low [j [high [Hl [Hj [Hh ->]]]]]].
    apply in_map_iff. exists (flat skip n low j high, flat skip n low (n - 1 - j) high).
    split; [reflexivity|]. apply flip_pairs_spec. exists low, j, high. auto 10.
  Qed.

  Theorem flip_pairs_in_bounds : acc_in_bounds (flip_pairs s dim) (tsize s) (tsize s).
  Proof.
    unfold acc_in_bounds. apply Forall_forall. intros [d sr] Hin. cbn [fst snd].
    apply flip_pairs_spec in Hin. destruct Hin as [low [j [high [Hl [Hj [Hh [-> ->]]]]]]].
    rewrite Hs. split; apply flat_lt; lia.
  Qed.

  (* the pair set is symmetric: flipping is an involution *)
  Theorem flip_pairs_symmetric d sr : In (d, sr) (flip_pairs s dim) -> In (sr, d) (flip_pairs s dim).
  Proof.
    intro Hin. apply flip_pairs_spec in Hin. destruct Hin as [low [j [high [Hl [Hj [Hh [-> ->]]]]]]].
    apply flip_pairs_spec. exists low, (n - 1 - j), high.
    split; [exact Hl|]. split; [lia|]. split; [exact Hh|]. split; [reflexivity|].
    replace (n - 1 - (n - 1 - j)) with j by lia. reflexivity.
  Qed.

  (* each destination has one source and vice versa *)
  Theorem flip_pairs_functional d1 s1 d2 s2 :
    In (d1, s1) (flip_pairs s dim) -> In (d2, s2) (flip_pairs s dim) -> (d1 = d2 <-> s1 = s2).
  Proof.
    intros H1 H2. apply flip_pairs_spec in H1, H2.
    destruct H1 as [l1 [j1 [h1 [Hl1 [Hj1 [Hh1 [-> ->]]]]]]].
    destruct H2 as [l2 [j2 [h2 [Hl2 [Hj2 [Hh2 [-> ->]]]]]]]. split; intro E.
    - apply flat_inj in E; try lia. destruct E as [-> [-> ->]]. reflexivity.
    - apply flat_inj in E; try lia. destruct E as [-> [Ej ->]]. replace j2 with j1 by lia. reflexivity.
  Qed.

  (* hence the backward kernel's program (the SAME pairs, accumulated) is a rearrangement of the
     transposed forward program *)
  Theorem flip_bw_transposed :
    Permutation (flip_pairs s dim) (mov_transposed (acc_as_mov (flip_pairs s dim))).
  Proof.
    pose proof (covers_NoDup _ _ flip_pairs_covers) as ND.
    apply NoDup_Permutation_bis.
    - exact ND.
    - unfold mov_transposed, acc_as_mov. rewrite !map_length. lia.
    - intros [d sr] Hin. unfold mov_transposed, acc_as_mov. rewrite map_map. cbn [fst snd].
      apply in_map_iff. exists (sr, d). split; [reflexivity|]. apply flip_pairs_symmetric. exact Hin.
  Qed.
End Flip.

(* ================================================================== permute_dims *)
(* ---- mixed-radix numerals: L a = stride of axis a, dd a = its extent ---- *)
Fixpoint sumf (f : nat -> nat) (k : nat) : nat :=
  match k with 0 => 0 | S k' => f k' + sumf f k' end.

Lemma sumf_ext f g k : (forall a, a < k -> f a = g a) -> sumf f k = sumf g k.
Proof.
  induction k as [|k IH]; intro H; cbn [sumf]; [reflexivity|].
  rewrite (H k) by lia. rewrite IH by (intros; apply H; lia). reflexivity.
Qed.

Lemma sumf_list_sum f k : sumf f k = list_sum (map f (seq 0 k)).
Proof.
  induction k as [|k IH]; [reflexivity|]. rewrite seq_S, map_app, list_sum_app. rewrite Nat.add_0_l. cbn [sumf map].
  change (list_sum [f k]) with (f k + 0). rewrite IH. lia.
Qed.

Lemma list_sum_perm l l' : Permutation l l' -> list_sum l = list_sum l'.
Proof.
  induction 1 as [|x l l' _ IH|x y l|l l' l'' _ IH1 _ IH2].
  - reflexivity.
  - change (x + list_sum l = x + list_sum l'). lia.
  - change (y + (x + list_sum l) = x + (y + list_sum l)). lia.
  - lia.
Qed.

Lemma map_nth_seq (l : list nat) : l = map (fun b => nth b l 0) (seq 0 (length l)).
Proof.
  apply (nth_ext _ _ 0 0).
  - rewrite map_length, seq_length. reflexivity.
  - intros q Hq. rewrite (nth_indep (map _ _) 0 ((fun b => nth b l 0) 0)) by (rewrite map_length, seq_length; exact Hq).
    rewrite (map_nth (fun b => nth b l 0) (seq 0 (length l)) 0 q). rewrite seq_nth by exact Hq. reflexivity.
Qed.

(* reindexing a sum along a permutation of 0..k-1 *)
Lemma sumf_reindex (perm : list nat) k g : length perm = k -> Permutation perm (seq 0 k) ->
  sumf g k = sumf (fun b => g (nth b perm 0)) k.
Proof.
  intros Hl Hp. rewrite !sumf_list_sum.
  rewrite <- (list_sum_perm _ _ (Permutation_map g Hp)).
  rewrite (map_nth_seq perm) at 1. rewrite Hl, map_map. reflexivity.
Qed.

Section MixedRadix.
  Variables (L dd : nat -> nat).
  Hypothesis L0 : L 0 = 1.
  Hypothesis LS : forall a, L (S a) = L a * dd a.
  Hypothesis Lpos : forall a, 0 < L a.

  Definition digit (a t : nat) : nat := (t / L a) mod dd a.

  Lemma dd_pos a : 0 < dd a.
  Proof using L0 LS Lpos. pose proof (Lpos (S a)) as H. rewrite LS in H. destruct (dd a); lia. Qed.

  Lemma L_div a k : a <= k -> exists m, L k = L a * m.
  Proof using L0 LS Lpos.
    induction 1 as [|k _ [m Hm]]; [exists 1; lia|]. exists (m * dd k). rewrite LS, Hm. ring.
  Qed.

  Lemma digit_lt a t : digit a t < dd a.
  Proof using L0 LS Lpos. apply Nat.mod_upper_bound. pose proof (dd_pos a). lia. Qed.

  Lemma digit_shift a t q : digit a (t + L (S a) * q) = digit a t.
  Proof using L0 LS Lpos.
    unfold digit. rewrite LS. pose proof (Lpos a). pose proof (dd_pos a).
    replace (t + L a * dd a * q) with (t + (q * dd a) * L a) by ring.
    rewrite Nat.div_add by lia. rewrite Nat.mod_add by lia. reflexivity.
  Qed.

  Lemma digit_shift_k a k t q : a < k -> digit a (t + L k * q) = digit a t.
  Proof using L0 LS Lpos.
    intro H. destruct (L_div (S a) k H) as [m Hm]. rewrite Hm.
    replace (L (S a) * m * q) with (L (S a) * (m * q)) by ring. apply digit_shift.
  Qed.

  Lemma digit_mod a k t : a < k -> digit a (t mod L k) = digit a t.
  Proof using L0 LS Lpos.
    intro H. pose proof (Lpos k). pose proof (Nat.div_mod t (L k) ltac:(lia)) as E.
    rewrite E at 2. rewrite Nat.add_comm. symmetry. apply digit_shift_k. exact H.
  Qed.

  Lemma digit_top k t : t < L (S k) -> digit k t = t / L k.
  Proof using L0 LS Lpos.
    intro H. unfold digit. apply Nat.mod_small. pose proof (Lpos k).
    apply Nat.div_lt_upper_bound; [lia|]. rewrite <- LS. exact H.
  Qed.

  (* every t < L k is the value of its k digits *)
  Lemma digits_value k : forall t, t < L k -> t = sumf (fun a => digit a t * L a) k.
  Proof using L0 LS Lpos.
    induction k as [|k IH]; intros t Ht; cbn [sumf].
    - rewrite L0 in Ht. lia.
    - pose proof (Lpos k) as HL. rewrite (digit_top k t Ht).
      assert (Hm : t mod L k < L k) by (apply Nat.mod_upper_bound; lia).
      rewrite (sumf_ext _ (fun a => digit a (t mod L k) * L a)) by (intros a Ha; rewrite (digit_mod a k t Ha); reflexivity).
      rewrite <- (IH _ Hm). pose proof (Nat.div_mod t (L k) ltac:(lia)). lia.
  Qed.

  Lemma digits_inj k t1 t2 : t1 < L k -> t2 < L k ->
    (forall a, a < k -> digit a t1 = digit a t2) -> t1 = t2.
  Proof using L0 LS Lpos.
    intros H1 H2 He. rewrite (digits_value k t1 H1), (digits_value k t2 H2).
    apply sumf_ext. intros a Ha. rewrite (He a Ha). reflexivity.
  Qed.

  (* a numeral with in-range digits e is below L k and has exactly the digits e *)
  Lemma value_digits (e : nat -> nat) k : (forall b, b < k -> e b < dd b) ->
    sumf (fun b => e b * L b) k < L k /\
    forall b, b < k -> digit b (sumf (fun b => e b * L b) k) = e b.
  Proof using L0 LS Lpos.
    induction k as [|k IH]; intro He; cbn [sumf].
    - rewrite L0. split; [lia|]. intros b Hb. lia.
    - destruct IH as [Hv Hd]; [intros; apply He; lia|].
      set (v := sumf (fun b => e b * L b) k) in *. pose proof (Lpos k) as HL.
      pose proof (He k ltac:(lia)) as Hek. split.
      + rewrite LS. assert ((e k + 1) * L k <= dd k * L k) by (apply Nat.mul_le_mono_r; lia). lia.
      + intros b Hb. destruct (Nat.eq_dec b k) as [->|Hne].
        * unfold digit. rewrite Nat.div_add_l by lia. rewrite (Nat.div_small v) by exact Hv.
          rewrite Nat.add_0_r. apply Nat.mod_small. exact Hek.
        * replace (e k * L k + v) with (v + L k * e k) by ring.
          rewrite digit_shift_k by lia. apply Hd. lia.
  Qed.
End MixedRadix.

(* ---- strides of a shape ---- *)
Lemma tlower_0 s : tlower s 0 = 1.
Proof. rewrite tlower_eq. cbn [firstn]. apply prodn_nil. Qed.

Lemma tlower_S s i : tlower s (S i) = tlower s i * tget s i.
Proof.
  rewrite !tlower_eq. unfold tget. generalize (tdims s) as l. intro l. revert i.
  induction l as [|x l IH]; intro i.
  - destruct i; cbn [firstn nth]; rewrite prodn_nil; lia.
  - destruct i as [|i].
    + cbn [firstn nth]. rewrite prodn_cons, prodn_nil. lia.
    + change (firstn (S (S i)) (x :: l)) with (x :: firstn (S i) l).
      change (firstn (S i) (x :: l)) with (x :: firstn i l).
      change (nth (S i) (x :: l) 1) with (nth i l 1).
      rewrite !prodn_cons, (IH i). ring.
Qed.

Lemma tlower_all s k : tdepth s <= k -> tlower s k = tvolume s.
Proof. intro H. rewrite tlower_eq, tvolume_eq. unfold tdepth in H. rewrite firstn_all2 by exact H. reflexivity. Qed.

Lemma prodn_perm l l' : Permutation l l' -> prodn l = prodn l'.
Proof.
  induction 1 as [|x l l' _ IH|x y l|l l' l'' _ IH1 _ IH2]; rewrite ?prodn_cons.
  - reflexivity.
  - rewrite IH. reflexivity.
  - ring.
  - rewrite IH1. exact IH2.
Qed.

Lemma tlower_prod s k : tlower s k = prodn (map (tget s) (seq 0 k)).
Proof.
  induction k as [|k IH]; [rewrite tlower_0; cbn [seq map]; rewrite prodn_nil; reflexivity|].
  rewrite seq_S, map_app, prodn_app, tlower_S, <- IH. cbn [map]. rewrite prodn_cons, prodn_nil. cbn [plus]. ring.
Qed.

(* ---- list update ---- *)
Lemma nth_upd_nat : forall (l : list nat) p q v, p < length l ->
  nth q (upd nat l p v) 0 = if q =? p then v else nth q l 0.
Proof.
  unfold upd. induction l as [|x l IH]; intros p q v Hp; cbn [length] in Hp; [lia|].
  destruct p as [|p]; destruct q as [|q]; cbn [firstn skipn app nth Nat.eqb]; try reflexivity.
  apply IH. lia.
Qed.

Lemma upd_length_nat (l : list nat) p v : p < length l -> length (upd nat l p v) = length l.
Proof.
  intro H. unfold upd. rewrite app_length, firstn_length. cbn [length]. rewrite skipn_length. lia.
Qed.

(* [f (k-1); ...; f 1; f 0] *)
Fixpoint down_list (f : nat -> nat) (k : nat) : list nat :=
  match k with 0 => [] | S k' => f k' :: down_list f k' end.

Lemma down_list_length f k : length (down_list f k) = k.
Proof. induction k as [|k IH]; cbn [down_list length]; [reflexivity|]. rewrite IH. reflexivity. Qed.

Lemma down_list_nth f : forall k d, d < k -> nth d (down_list f k) 0 = f (k - d - 1).
Proof.
  induction k as [|k IH]; intros d Hd; [lia|]. cbn [down_list]. destruct d as [|d]; cbn [nth].
  - f_equal. lia.
  - rewrite IH by lia. f_equal.
Qed.

Lemma list_is_down_list (l : list nat) k : length l = k ->
  l = down_list (fun a => nth (k - a - 1) l 0) k.
Proof.
  intro Hl. apply (nth_ext _ _ 0 0).
  - rewrite down_list_length. exact Hl.
  - intros d Hd. rewrite down_list_nth by lia. f_equal. lia.
Qed.

Lemma map_flat_map {A B C} (f : B -> C) (g : A -> list B) l :
  map f (flat_map g l) = flat_map (fun x => map f (g x)) l.
Proof. induction l as [|a l IH]; cbn [flat_map map]; [reflexivity|]. rewrite map_app, IH. reflexivity. Qed.

Section Permute.
  Variables (sx sy : tshape) (perm : list nat) (nd : nat).
  Hypothesis Hnd : length perm = nd.
  Hypothesis Hperm : Permutation perm (seq 0 nd).              (* a permutation of 0..nd-1 *)

  Let pm (b : nat) : nat := nth b perm 0.

  Lemma perm_lt b : b < nd -> pm b < nd.
  Proof.
    intro Hb. assert (Hin : In (pm b) perm) by (apply nth_In; lia).
    apply (Permutation_in _ Hperm) in Hin. apply in_seq in Hin. lia.
  Qed.

  Lemma perm_inj b1 b2 : b1 < nd -> b2 < nd -> pm b1 = pm b2 -> b1 = b2.
  Proof.
    intros H1 H2 E. assert (ND : NoDup perm) by (apply (Permutation_NoDup (Permutation_sym Hperm)); apply seq_NoDup).
    rewrite (NoDup_nth perm 0) in ND. apply ND; [lia|lia|exact E].
  Qed.

  Lemma perm_surj a : a < nd -> exists b, b < nd /\ pm b = a.
  Proof.
    intro Ha. assert (Hin : In a perm) by (apply (Permutation_in _ (Permutation_sym Hperm)); apply in_seq; lia).
    destruct (In_nth perm a 0 Hin) as [b [Hb E]]. exists b. split; [lia|exact E].
  Qed.

  (* the stride vectors the C++ loop computes (stored reversed) *)
  Lemma strides_loop_spec : forall fuel i xt yt xs ys,
    i + fuel = nd -> length xs = nd -> length ys = nd ->
    xt = tlower sx i -> yt = tlower sy i ->
    (forall i', i' < i -> nth (nd - i' - 1) xs 0 = tlower sx i') ->
    (forall i', i' < i -> nth (nd - pm i' - 1) ys 0 = tlower sy i') ->
    let r := strides_loop sx sy perm i nd xt yt xs ys fuel in
    length (fst r) = nd /\ length (snd r) = nd /\
    (forall i', i' < nd -> nth (nd - i' - 1) (fst r) 0 = tlower sx i') /\
    (forall i', i' < nd -> nth (nd - pm i' - 1) (snd r) 0 = tlower sy i').
  Proof.
    induction fuel as [|f IH]; intros i xt yt xs ys Hi Hlx Hly Hxt Hyt Hx Hy; cbn [strides_loop].
    - assert (Ei : i = nd) by lia. subst i. cbv zeta. cbn [fst snd]. auto.
    - cbv zeta. fold (upd nat xs (nd - i - 1) xt). fold (upd nat ys (nd - nth i perm 0 - 1) yt). fold (pm i).
      assert (Hib : i < nd) by lia. pose proof (perm_lt i Hib) as Hpi.
      apply IH.
      + lia.
      + rewrite upd_length_nat; lia.
      + rewrite upd_length_nat; lia.
      + rewrite tlower_S, Hxt. reflexivity.
      + rewrite tlower_S, Hyt. reflexivity.
      + intros i' Hi'. rewrite nth_upd_nat by lia.
        destruct (Nat.eqb_spec (nd - i' - 1) (nd - i - 1)) as [E|E].
        * replace i' with i by lia. exact Hxt.
        * apply Hx. lia.
      + intros i' Hi'. rewrite nth_upd_nat by lia.
        assert (Hi'b : i' < nd) by lia. pose proof (perm_lt i' Hi'b) as Hpi'.
        destruct (Nat.eqb_spec (nd - pm i' - 1) (nd - pm i - 1)) as [E|E].
        * assert (pm i' = pm i) by lia. assert (i' = i) by (apply perm_inj; assumption).
          subst i'. exact Hyt.
        * apply Hy. destruct (Nat.eq_dec i' i) as [->|N]; [congruence|lia].
  Qed.

  Definition perm_strides : list nat * list nat :=
    strides_loop sx sy perm 0 nd 1 1 (repeat 0 nd) (repeat 0 nd) nd.

  Lemma perm_strides_spec :
    fst perm_strides = down_list (tlower sx) nd /\
    length (snd perm_strides) = nd /\
    (forall b, b < nd -> nth (nd - pm b - 1) (snd perm_strides) 0 = tlower sy b).
  Proof.
    destruct (strides_loop_spec nd 0 1 1 (repeat 0 nd) (repeat 0 nd)) as [H1 [H2 [H3 H4]]];
      try (rewrite ?repeat_length, ?tlower_0; reflexivity || lia).
    fold perm_strides in H1, H2, H3, H4. split; [|split; [exact H2|exact H4]].
    apply (nth_ext _ _ 0 0).
    - rewrite down_list_length. exact H1.
    - intros d Hd. rewrite H1 in Hd. rewrite down_list_nth by exact Hd.
      rewrite <- (H3 (nd - d - 1)) by lia. f_equal. lia.
  Qed.

  Hypothesis Hwfx : twf sx.

  (* closed form of the inner loop over d: j = sum over x-axes of digit * y-stride *)
  Lemma permute_index_sum (Ys : nat -> nat) : forall k tmp j, tmp < tlower sx k ->
    permute_index (down_list (tlower sx) k) (down_list Ys k) tmp j
    = j + sumf (fun a => digit (tlower sx) (tget sx) a tmp * Ys a) k.
  Proof.
    pose proof (fun a => tlower_pos sx a Hwfx) as Lpos.
    induction k as [|k IH]; intros tmp j Ht; cbn [down_list permute_index sumf]; [lia|].
    pose proof (Lpos k) as HL.
    replace (tmp - tmp / tlower sx k * tlower sx k) with (tmp mod tlower sx k)
      by (rewrite Nat.mod_eq by lia; rewrite (Nat.mul_comm (tlower sx k)); reflexivity).
    rewrite IH by (apply Nat.mod_upper_bound; lia).
    rewrite (sumf_ext _ (fun a => digit (tlower sx) (tget sx) a tmp * Ys a)).
    - rewrite (digit_top (tlower sx) (tget sx) (tlower_0 sx) (tlower_S sx) Lpos k tmp Ht). lia.
    - intros a Ha. rewrite (digit_mod (tlower sx) (tget sx) (tlower_0 sx) (tlower_S sx) Lpos a k tmp Ha). reflexivity.
  Qed.

  Hypothesis Hdx : tdepth sx <= nd.                             (* perm.size() >= x.depth() *)
  Hypothesis Hdy : tdepth sy <= nd.
  Hypothesis Hdims : forall b, b < nd -> tget sy b = tget sx (nth b perm 0).   (* y.shape[b] = x.shape[perm[b]] *)
  Hypothesis Hwfy : twf sy.

  (* permuting the axes keeps the volume *)
  Lemma permute_volume : tvolume sy = tvolume sx.
  Proof.
    rewrite <- (tlower_all sy nd Hdy), <- (tlower_all sx nd Hdx), !tlower_prod.
    rewrite (map_ext_in (tget sy) (fun b => tget sx (nth b perm 0)))
      by (intros b Hb; apply in_seq in Hb; apply Hdims; lia).
    rewrite <- (map_map (fun b => nth b perm 0) (tget sx)). rewrite <- Hnd, <- (map_nth_seq perm).
    apply prodn_perm. apply Permutation_map. rewrite Hnd. exact Hperm.
  Qed.

  (* the sample-local index map of the kernel *)
  Definition perm_index (i : nat) : nat := permute_index (fst perm_strides) (snd perm_strides) i 0.

  Notation dgx := (digit (tlower sx) (tget sx)).
  Notation dgy := (digit (tlower sy) (tget sy)).

  (* coordinate b of the destination = coordinate perm[b] of the source; destination in range *)
  Theorem perm_index_spec i : i < tvolume sx ->
    perm_index i < tvolume sy /\ forall b, b < nd -> dgy b (perm_index i) = dgx (pm b) i.
  Proof.
    intro Hi. pose proof (fun a => tlower_pos sx a Hwfx) as Lposx.
    pose proof (fun a => tlower_pos sy a Hwfy) as Lposy.
    destruct perm_strides_spec as [Hxs [Hyl Hys]]. unfold perm_index.
    rewrite Hxs. rewrite (list_is_down_list (snd perm_strides) nd Hyl).
    set (Ys := fun a => nth (nd - a - 1) (snd perm_strides) 0).
    rewrite permute_index_sum by (rewrite (tlower_all sx nd Hdx); exact Hi).
    rewrite Nat.add_0_l.
    rewrite (sumf_reindex perm nd _ Hnd Hperm). fold pm.
    rewrite (sumf_ext _ (fun b => dgx (pm b) i * tlower sy b))
      by (intros b Hb; cbv beta; rewrite <- (Hys b Hb); reflexivity).
    rewrite <- (tlower_all sy nd Hdy).
    apply (value_digits (tlower sy) (tget sy) (tlower_0 sy) (tlower_S sy) Lposy (fun b => dgx (pm b) i) nd).
    intros b Hb. rewrite (Hdims b Hb). fold (pm b).
    apply (digit_lt (tlower sx) (tget sx) (tlower_0 sx) (tlower_S sx) Lposx).
  Qed.

  Theorem perm_index_inj i1 i2 : i1 < tvolume sx -> i2 < tvolume sx ->
    perm_index i1 = perm_index i2 -> i1 = i2.
  Proof.
    intros H1 H2 E. pose proof (fun a => tlower_pos sx a Hwfx) as Lposx.
    destruct (perm_index_spec i1 H1) as [_ D1]. destruct (perm_index_spec i2 H2) as [_ D2].
    rewrite <- (tlower_all sx nd Hdx) in H1, H2.
    apply (digits_inj (tlower sx) (tget sx) (tlower_0 sx) (tlower_S sx) Lposx nd i1 i2 H1 H2).
    intros a Ha. destruct (perm_surj a Ha) as [b [Hb <-]].
    rewrite <- (D1 b Hb), <- (D2 b Hb), E. reflexivity.
  Qed.

  (* the destination is the ONLY in-range index with these coordinates *)
  Theorem perm_index_unique i j : i < tvolume sx -> j < tvolume sy ->
    (forall b, b < nd -> dgy b j = dgx (pm b) i) -> j = perm_index i.
  Proof.
    intros Hi Hj Hd. pose proof (fun a => tlower_pos sy a Hwfy) as Lposy.
    destruct (perm_index_spec i Hi) as [Hj' D].
    rewrite <- (tlower_all sy nd Hdy) in Hj, Hj'.
    apply (digits_inj (tlower sy) (tget sy) (tlower_0 sy) (tlower_S sy) Lposy nd j _ Hj Hj').
    intros b Hb. rewrite (Hd b Hb), (D b Hb). reflexivity.
  Qed.

  Hypothesis Hbat : tbatch sy = tbatch sx.

  Lemma permute_map_eq :
    permute_map sx sy perm =
    flat_map2 (tbatch sx) (fun k =>
      map (fun i => (k * tvolume sx + i, k * tvolume sx + perm_index i)) (range (tvolume sx))).
  Proof.
    unfold permute_map, perm_index, perm_strides. rewrite Hnd.
    destruct (strides_loop sx sy perm 0 nd 1 1 (repeat 0 nd) (repeat 0 nd) nd) as [xs ys].
    reflexivity.
  Qed.

  Lemma permute_map_In i j :
    In (i, j) (permute_map sx sy perm) <->
    exists k i0, k < tbatch sx /\ i0 < tvolume sx /\
      i = k * tvolume sx + i0 /\ j = k * tvolume sx + perm_index i0.
  Proof.
    rewrite permute_map_eq, In_flat_map2. split.
    - intros [k [Hk H]]. apply In_map_range in H. destruct H as [i0 [Hi0 E]]. injection E as -> ->.
      exists k, i0. auto.
    - intros [k [i0 [Hk [Hi0 [-> ->]]]]]. exists k. split; [exact Hk|]. apply In_map_range. exists i0. auto.
  Qed.

  Lemma permute_map_length : length (permute_map sx sy perm) = tbatch sx * tvolume sx.
  Proof.
    rewrite permute_map_eq. apply length_flat_map2_const. intro k.
    unfold range. rewrite map_length, seq_length. reflexivity.
  Qed.

  (* y[b; c_0..c_{nd-1}] = x[b; coordinates with x-coordinate perm[a] = c_a] *)
  Theorem permute_fw_spec d k s :
    In (d, (k, s)) (permute_fw sx sy perm) <->
    exists b i j, b < tbatch sx /\ i < tvolume sx /\ j < tvolume sy /\ k = 0 /\
      s = b * tvolume sx + i /\ d = b * tvolume sy + j /\
      forall a, a < nd -> dgy a j = dgx (pm a) i.
  Proof.
    unfold permute_fw. rewrite in_map_iff. split.
    - intros [[i j] [E Hin]]. cbn [fst snd] in E. injection E as <- <- <-.
      apply permute_map_In in Hin. destruct Hin as [b [i0 [Hb [Hi0 [-> ->]]]]].
      destruct (perm_index_spec i0 Hi0) as [Hj D].
      exists b, i0, (perm_index i0). rewrite permute_volume in *. auto 10.
    - intros [b [i [j [Hb [Hi [Hj [-> [-> [-> D]]]]]]]]].
      exists (b * tvolume sx + i, b * tvolume sx + j). cbn [fst snd]. rewrite permute_volume. split; [reflexivity|].
      apply permute_map_In. exists b, i. rewrite (perm_index_unique i j Hi Hj D). auto.
  Qed.

  (* no read outside x *)
  Theorem permute_fw_in_bounds : mov_in_bounds (permute_fw sx sy perm) [tsize sx].
  Proof.
    unfold mov_in_bounds. apply Forall_forall. intros [d [k s]] Hin. cbn [fst snd].
    apply permute_fw_spec in Hin. destruct Hin as [b [i [j [Hb [Hi [_ [-> [-> _]]]]]]]].
    cbn [nth]. unfold tsize.
    assert ((b + 1) * tvolume sx <= tbatch sx * tvolume sx) by (apply Nat.mul_le_mono_r; lia). lia.
  Qed.

  Lemma batch_offset_inj V k1 j1 k2 j2 : j1 < V -> j2 < V -> k1 * V + j1 = k2 * V + j2 -> k1 = k2 /\ j1 = j2.
  Proof.
    intros H1 H2 E.
    assert (k1 = k2).
    { assert (Q : (k1 * V + j1) / V = (k2 * V + j2) / V) by (rewrite E; reflexivity).
      rewrite !Nat.div_add_l, !Nat.div_small in Q by lia. lia. }
    subst k2. split; [reflexivity|lia].
  Qed.

  (* every element of y is written exactly once *)
  Theorem permute_fw_covers : covers (permute_fw sx sy perm) (tsize sy).
  Proof.
    unfold covers. apply perm_seq_of_inj.
    - unfold permute_fw. rewrite !map_length, permute_map_length. unfold tsize. rewrite Hbat, permute_volume. reflexivity.
    - unfold permute_fw. rewrite map_map. cbn [fst]. rewrite permute_map_eq. unfold flat_map2.
      rewrite map_flat_map. apply NoDup_flat_map.
      + apply seq_NoDup.
      + intros k _. rewrite map_map. cbn [snd]. apply NoDup_map_inj; [apply seq_NoDup|].
        intros i1 i2 H1 H2 E. apply in_seq in H1, H2. apply perm_index_inj; lia.
      + intros k1 k2 x _ _ H1 H2. rewrite map_map in H1, H2. cbn [snd] in H1, H2.
        apply In_map_range in H1, H2. destruct H1 as [i1 [Hi1 E1]]. destruct H2 as [i2 [Hi2 E2]].
        rewrite E1 in E2. destruct (perm_index_spec i1 Hi1) as [B1 _]. destruct (perm_index_spec i2 Hi2) as [B2 _].
        rewrite permute_volume in B1, B2. apply batch_offset_inj in E2; tauto.
    - intros d Hd. apply in_map_iff in Hd. destruct Hd as [[d' [k s]] [E Hin]]. cbn [fst] in E. subst d'.
      apply permute_fw_spec in Hin. destruct Hin as [b [i [j [Hb [Hi [Hj [_ [_ [-> _]]]]]]]]].
      unfold tsize. rewrite Hbat.
      assert ((b + 1) * tvolume sy <= tbatch sx * tvolume sy) by (apply Nat.mul_le_mono_r; lia). lia.
  Qed.

  (* every element of x is read exactly once *)
  Theorem permute_fw_srcs_cover : srcs_cover (permute_fw sx sy perm) (tsize sx).
  Proof.
    unfold srcs_cover, permute_fw. rewrite map_map. cbn [fst snd]. rewrite permute_map_eq.
    pose proof (seq_nest (tbatch sx) (tvolume sx) (fun k i => k * tvolume sx + perm_index i)) as H.
    unfold tsize. exact (eq_ind_r (fun l => Permutation l _) (Permutation_refl _) H).
  Qed.

  (* permute_dims_bw: pgx[i] += pgy[j] over the same (i, j): exactly the transposed forward program *)
  Theorem permute_bw_transposed : permute_bw sx sy perm = mov_transposed (permute_fw sx sy perm).
  Proof.
    unfold permute_bw, mov_transposed, permute_fw. rewrite map_map. cbn [fst snd].
    rewrite <- (map_id (permute_map sx sy perm)) at 1. apply map_ext. intros [i j]. reflexivity.
  Qed.

  Theorem permute_bw_in_bounds : acc_in_bounds (permute_bw sx sy perm) (tsize sx) (tsize sy).
  Proof.
    unfold acc_in_bounds, permute_bw. apply Forall_forall. intros [i j] Hin. cbn [fst snd].
    apply permute_map_In in Hin. destruct Hin as [k [i0 [Hk [Hi0 [-> ->]]]]].
    destruct (perm_index_spec i0 Hi0) as [Hj _]. unfold tsize. rewrite Hbat. rewrite permute_volume in *.
    assert ((k + 1) * tvolume sx <= tbatch sx * tvolume sx) by (apply Nat.mul_le_mono_r; lia). lia.
  Qed.
End Permute.

Lemma nth_set_other {A} : forall (l : list A) d v q dflt, d < length l -> q <> d ->
  nth q (firstn d l ++ v :: skipn (S d) l) dflt = nth q l dflt.
Proof.
  induction l as [|x l IH]; intros d v q dflt Hd Hq; cbn [length] in Hd; [lia|].
  destruct d as [|d]; destruct q as [|q]; cbn [firstn skipn app nth]; try reflexivity; try lia.
  apply IH; lia.
Qed.

(* ================================================================== C01: adjoint corollaries *)
Section KernelAdjoints.
  Variable T : Type.
  Variables (zero : T) (add mul : T -> T -> T).
  Hypothesis add_comm : forall a b, add a b = add b a.
  Hypothesis add_assoc : forall a b c, add a (add b c) = add (add a b) c.
  Hypothesis add_0_l : forall a, add zero a = a.
  Hypothesis mul_add_distr_r : forall a b c, mul (add a b) c = add (mul a c) (mul b c).
  Hypothesis mul_0_r : forall a, mul a zero = zero.

  Notation dotT := (dot T zero add mul).
  Notation pairing := (fw_pairing T zero add mul).

  (* ---- <gy, F dx> really is the dot product with the forward kernel's output ---- *)
  Definition cell_val (o : option T) : T := match o with Some v => v | None => zero end.
  (* the output buffer after running the forward program on operand dx (unwritten cells read 0) *)
  Definition fw_out (p : mov) (dx : list T) (n : nat) : list T :=
    map cell_val (assign T zero p [dx] (repeat None n)).

  Lemma dot_set : forall (gy l : list T) d v, d < length l -> length gy = length l ->
    nth d l zero = zero -> dotT gy (upd T l d v) = add (dotT gy l) (mul (nth d gy zero) v).
  Proof.
    unfold upd. induction gy as [|g gy IH]; intros l d v Hd Hl Hz; destruct l as [|x l]; cbn [length] in *; try lia.
    destruct d as [|d]; cbn [firstn skipn app nth dot] in *.
    - rewrite Hz, mul_0_r, add_0_l. apply add_comm.
    - rewrite IH by (assumption || lia). apply add_assoc.
  Qed.

  Lemma dot_zeros : forall (gy : list T) n, dotT gy (repeat zero n) = zero.
  Proof.
    induction gy as [|g gy IH]; intro n; destruct n; cbn [repeat dot]; try reflexivity.
    rewrite IH, mul_0_r. apply add_0_l.
  Qed.

  Lemma map_cell_repeat n : map cell_val (repeat None n) = repeat zero n.
  Proof. induction n as [|m IHm]; cbn [repeat map cell_val]; [reflexivity|]. f_equal. exact IHm. Qed.

  Lemma assign_pairing gy dx n : forall p y, length y = n -> length gy = n ->
    NoDup (map fst p) ->
    (forall e, In e p -> fst e < n /\ nth (fst e) y None = None /\ fst (snd e) = 0) ->
    dotT gy (map cell_val (assign T zero p [dx] y)) = add (dotT gy (map cell_val y)) (pairing p gy dx).
  Proof.
    induction p as [|[d [k s]] r IH]; intros y Hy Hg ND Hp; cbn [assign fw_pairing].
    - rewrite add_comm, add_0_l. reflexivity.
    - destruct (Hp (d, (k, s)) ltac:(left; reflexivity)) as [Hd [Hnone Hk]]. cbn [fst snd] in Hd, Hnone, Hk. subst k.
      cbn [map fst] in ND. inversion ND as [|? ? Hnotin ND']; subst.
      set (y' := firstn d y ++ Some (nth s (nth 0 [dx] []) zero) :: skipn (S d) y).
      assert (Hy' : length y' = length y).
      { unfold y'. rewrite app_length, firstn_length. cbn [length]. rewrite skipn_length. lia. }
      assert (Hmap : map cell_val y' = upd T (map cell_val y) d (nth s dx zero)).
      { unfold y', upd. rewrite map_app, firstn_map. cbn [map cell_val nth]. rewrite skipn_map. reflexivity. }
      rewrite IH.
      + rewrite Hmap, dot_set.
        * rewrite <- add_assoc. reflexivity.
        * rewrite map_length. lia.
        * rewrite map_length. lia.
        * rewrite (nth_indep _ zero (cell_val None)) by (rewrite map_length; lia).
          rewrite map_nth, Hnone. reflexivity.
      + lia.
      + exact Hg.
      + exact ND'.
      + intros e He. destruct (Hp e ltac:(right; exact He)) as [He1 [He2 He3]].
        split; [exact He1|]. split; [|exact He3].
        assert (Hne : fst e <> d) by (intro E; apply Hnotin; rewrite <- E; apply in_map; exact He).
        unfold y'. rewrite nth_set_other by lia. exact He2.
  Qed.

  Theorem fw_pairing_dot p gy dx n :
    covers p n -> length gy = n -> (forall e, In e p -> fst (snd e) = 0) ->
    pairing p gy dx = dotT gy (fw_out p dx n).
  Proof.
    intros Hc Hg Hk. unfold fw_out. rewrite (assign_pairing gy dx n).
    - rewrite map_cell_repeat, dot_zeros, add_0_l. reflexivity.
    - apply repeat_length.
    - exact Hg.
    - apply (Permutation_NoDup (Permutation_sym Hc)). apply seq_NoDup.
    - intros e He. split; [|split; [|apply Hk; exact He]].
      + assert (Hin : In (fst e) (seq 0 n)) by (apply (Permutation_in _ Hc); apply in_map; exact He).
        apply in_seq in Hin. lia.
      + apply nth_repeat.
  Qed.

  (* the adjoint identity in its usual form, for a backward program that rearranges the
     transposed forward program: <bw(gy) on top of gx, dx> = <gx, dx> + <gy, fw(dx)> *)
  Theorem kernel_adjoint (q : acc) (fw : mov) n gy gx dx :
    Permutation q (mov_transposed fw) -> covers fw n -> (forall e, In e fw -> fst (snd e) = 0) ->
    acc_in_bounds q (length gx) (length gy) -> length dx = length gx -> length gy = n ->
    dotT (scatter T zero add q gy gx) dx = add (dotT gx dx) (dotT gy (fw_out fw dx n)).
  Proof.
    intros Hp Hc Hk Hb Hl Hg.
    rewrite (transposed_adjoint T zero add mul add_comm add_assoc add_0_l mul_add_distr_r q fw gy gx dx Hp Hb Hl).
    rewrite (fw_pairing_dot fw gy dx n Hc Hg Hk). reflexivity.
  Qed.
End KernelAdjoints.

Lemma acc_as_mov_covers p n : covers p n -> covers (acc_as_mov p) n.
Proof. unfold covers, acc_as_mov. rewrite map_map. cbn [fst]. intro H. exact H. Qed.

Lemma acc_as_mov_operand p e : In e (acc_as_mov p) -> fst (snd e) = 0.
Proof. unfold acc_as_mov. intro H. apply in_map_iff in H. destruct H as [x [<- _]]. reflexivity. Qed.

Section KernelAdjointInstances.
  Variable T : Type.
  Variables (zero : T) (add mul : T -> T -> T).
  Hypothesis add_comm : forall a b, add a b = add b a.
  Hypothesis add_assoc : forall a b c, add a (add b c) = add (add a b) c.
  Hypothesis add_0_l : forall a, add zero a = a.
  Hypothesis mul_add_distr_r : forall a b c, mul (add a b) c = add (mul a c) (mul b c).
  Hypothesis mul_0_r : forall a, mul a zero = zero.

  Notation dotT := (dot T zero add mul).
  Notation adjoint_of := (kernel_adjoint T zero add mul add_comm add_assoc add_0_l mul_add_distr_r mul_0_r).

  (* flip_bw is the adjoint of flip_fw (and accumulates) *)
  Theorem flip_adjoint s dim skip n R gy gx dx :
    tlower s dim = skip -> tget s dim = n -> tsize s = skip * n * R -> 0 < skip -> 0 < n ->
    length gx = tsize s -> length gy = tsize s -> length dx = tsize s ->
    dotT (scatter T zero add (flip_pairs s dim) gy gx) dx
    = add (dotT gx dx) (dotT gy (fw_out T zero (acc_as_mov (flip_pairs s dim)) dx (tsize s))).
  Proof.
    intros H1 H2 H3 H4 H5 Lx Ly Ld. apply adjoint_of.
    - exact (flip_bw_transposed s dim skip n R H1 H2 H3 H4 H5).
    - apply acc_as_mov_covers. exact (flip_pairs_covers s dim skip n R H1 H2 H3 H4 H5).
    - apply acc_as_mov_operand.
    - rewrite Lx, Ly. exact (flip_pairs_in_bounds s dim skip n R H1 H2 H3 H4 H5).
    - congruence.
    - exact Ly.
  Qed.

  (* transpose_bw = inplace_add(transpose_fw(gy), gx) is the adjoint of transpose_fw *)
  Theorem transpose_adjoint sx sy d1 d2 bs gy gx dx :
    tget sx 0 = d1 -> tget sx 1 = d2 -> tbatch sy = bs ->
    tsize sx = d1 * d2 * bs -> tsize sy = d2 * d1 * bs ->
    tget sy 0 = d2 -> tget sy 1 = d1 -> tbatch sx = bs ->
    length gx = tsize sx -> length gy = tsize sy -> length dx = tsize sx ->
    dotT (scatter T zero add (mov_as_acc (transpose_fw sy sx)) gy gx) dx
    = add (dotT gx dx) (dotT gy (fw_out T zero (transpose_fw sx sy) dx (tsize sy))).
  Proof.
    intros H1 H2 H3 H4 H5 H6 H7 H8 Lx Ly Ld. apply adjoint_of.
    - exact (transpose_bw_transposed sx sy d1 d2 bs H1 H2 H3 H4 H5 H6 H7 H8).
    - exact (transpose_fw_covers sx sy d1 d2 bs H1 H2 H3 H4 H5).
    - intros [d [k s]] Hin. apply (transpose_fw_spec sx sy d1 d2 bs H1 H2 H3) in Hin.
      destruct Hin as [i [j [b [_ [_ [_ [-> _]]]]]]]. reflexivity.
    - rewrite Lx, Ly. unfold acc_in_bounds, mov_as_acc. apply Forall_forall. intros [a c] Hin.
      apply in_map_iff in Hin. destruct Hin as [[d [k s]] [E Hin]]. cbn [fst snd] in E. injection E as -> ->.
      apply (transpose_fw_spec sy sx d2 d1 bs H6 H7 H8) in Hin.
      destruct Hin as [i [j [b [Hi [Hj [Hb [_ [-> ->]]]]]]]]. cbn [fst snd]. rewrite H4, H5.
      split; apply flat_lt; assumption.
    - congruence.
    - exact Ly.
  Qed.

  (* permute_dims_bw is the adjoint of permute_dims_fw *)
  Theorem permute_adjoint sx sy perm nd gy gx dx :
    length perm = nd -> Permutation perm (seq 0 nd) -> twf sx ->
    tdepth sx <= nd -> tdepth sy <= nd ->
    (forall b, b < nd -> tget sy b = tget sx (nth b perm 0)) -> twf sy -> tbatch sy = tbatch sx ->
    length gx = tsize sx -> length gy = tsize sy -> length dx = tsize sx ->
    dotT (scatter T zero add (permute_bw sx sy perm) gy gx) dx
    = add (dotT gx dx) (dotT gy (fw_out T zero (permute_fw sx sy perm) dx (tsize sy))).
  Proof.
    intros H1 H2 H3 H4 H5 H6 H7 H8 Lx Ly Ld. apply adjoint_of.
    - rewrite permute_bw_transposed. apply Permutation_refl.
    - exact (permute_fw_covers sx sy perm nd H1 H2 H3 H4 H5 H6 H7 H8).
    - intros [d [k s]] Hin. unfold permute_fw in Hin. apply in_map_iff in Hin.
      destruct Hin as [x [E _]]. injection E as _ <- _. reflexivity.
    - rewrite Lx, Ly. exact (permute_bw_in_bounds sx sy perm nd H1 H2 H3 H4 H5 H6 H7 H8).
    - congruence.
    - exact Ly.
  Qed.
End KernelAdjointInstances.

(* ================================================================== sum / broadcast duality *)
(* the data movement that is the transpose of a reduction: every scanned source receives a copy
   of its group's output *)
Definition red_transposed (p : red) : mov :=
  flat_map (fun e => map (fun s => (s, (0, fst e))) (snd e)) p.

Lemma flat_map_map {A B C} (f : B -> list C) (g : A -> B) l :
  flat_map f (map g l) = flat_map (fun x => f (g x)) l.
Proof. induction l as [|a l IH]; cbn [map flat_map]; [reflexivity|]. rewrite IH. reflexivity. Qed.

(* broadcast_fw along dim IS the transposed index program of the sum along dim (same list, same
   order); since the groups partition the input (axis_nest_partition) broadcast writes every
   element once, and broadcast / sum are each other's adjoints *)
Theorem broadcast_is_transposed_sum (sx sy : tshape) (dim base n R : nat) :
  tlower sx dim = base -> tlower sy dim = base -> tget sx dim = n -> tsize sy = base * R ->
  broadcast_fw sy sx dim n = red_transposed (axis_red sx sy dim).
Proof.
  intros Hbx Hby Hn Hsy. unfold broadcast_fw, red_transposed, axis_red, flat_map2.
  rewrite Hbx, Hby, Hn, Hsy, flat_map_map. cbn [fst snd]. apply flat_map_ext. intro i.
  rewrite map_map. reflexivity.
Qed.

(* ================================================================== values of the reduction kernels *)
(* sum_fw / max_fw / min_fw / logsumexp_fw: the per-output function is applied to the axis slice *)
Theorem axis_red_eval (T : Type) (dflt : T) (U : Type) (f : list T -> U)
  (sx sy : tshape) (dim base n R : nat) (x : list T) (d : nat) (v : U) :
  tlower sy dim = base -> tget sx dim = n -> tsize sy = base * R -> 0 < base ->
  (In (d, v) (red_eval T dflt f (axis_red sx sy dim) x) <->
   exists low high, low < base /\ high < R /\ d = flat base 1 low 0 high /\
     v = f (axis_slice T dflt x base n low high)).
Proof. intros H1 H2 H3 H4. rewrite (axis_red_nest sx sy dim base n R H1 H2 H3). apply axis_nest_eval. exact H4. Qed.

(* sum_fw over a commutative monoid: the fold of the slice in any order *)
Theorem axis_red_fold (T : Type) (dflt e : T) (op : T -> T -> T)
  (op_comm : forall a b, op a b = op b a) (op_assoc : forall a b c, op a (op b c) = op (op a b) c)
  (sx sy : tshape) (dim base n R : nat) (x : list T) (d : nat) (v : T) :
  tlower sy dim = base -> tget sx dim = n -> tsize sy = base * R -> 0 < base ->
  In (d, v) (red_eval T dflt (fold_red T e op) (axis_red sx sy dim) x) ->
  exists low high, low < base /\ high < R /\ d = flat base 1 low 0 high /\
    forall l, Permutation l (axis_slice T dflt x base n low high) -> v = fold_red T e op l.
Proof.
  intros H1 H2 H3 H4. rewrite (axis_red_nest sx sy dim base n R H1 H2 H3).
  apply axis_nest_fold; assumption.
Qed.

(* max_fw (fst) with the scan of the C++: the maximum of the slice, first attained at snd *)
Theorem axis_red_max (T : Type) (leb : T -> T -> bool)
  (leb_total : forall a b, leb a b = true \/ leb b a = true)
  (leb_trans : forall a b c, leb a b = true -> leb b c = true -> leb a c = true)
  (dflt : T) (sx sy : tshape) (dim base n R : nat) (x : list T) (d : nat) (r : T * nat) :
  tlower sy dim = base -> tget sx dim = n -> tsize sy = base * R -> 0 < base -> 0 < n ->
  In (d, r) (red_eval T dflt (max_scan T leb dflt) (axis_red sx sy dim) x) ->
  exists low high, low < base /\ high < R /\ d = flat base 1 low 0 high /\
    let xs := fun j => nth (flat base n low j high) x dflt in
    snd r < n /\ fst r = xs (snd r) /\
    (forall j, j < n -> leb (xs j) (fst r) = true) /\
    (forall j, j < snd r -> gtb T leb (fst r) (xs j) = true).
Proof.
  intros H1 H2 H3 H4 H5. rewrite (axis_red_nest sx sy dim base n R H1 H2 H3).
  apply axis_nest_argmax; assumption.
Qed.

(* argmax_impl: entry (low, high) of the result is the FIRST index of the maximum of the slice *)
Theorem arg_red_argmax (T : Type) (leb : T -> T -> bool)
  (leb_total : forall a b, leb a b = true \/ leb b a = true)
  (leb_trans : forall a b c, leb a b = true -> leb b c = true -> leb a c = true)
  (dflt : T) (sx : tshape) (dim base n R : nat) (x : list T) (d : nat) (r : T * nat) :
  tlower sx dim = base -> tget sx dim = n -> tsize sx = base * n * R -> 0 < base -> 0 < n ->
  In (d, r) (red_eval T dflt (max_scan T leb dflt) (arg_red sx dim) x) ->
  exists low high, low < base /\ high < R /\ d = flat base 1 low 0 high /\
    let xs := fun j => nth (flat base n low j high) x dflt in
    snd r < n /\ fst r = xs (snd r) /\
    (forall j, j < n -> leb (xs j) (fst r) = true) /\
    (forall j, j < snd r -> gtb T leb (fst r) (xs j) = true).
Proof.
  intros H1 H2 H3 H4 H5. rewrite (arg_red_nest sx dim base n R H1 H2 H3 H4 H5).
  apply axis_nest_argmax; assumption.
Qed.
