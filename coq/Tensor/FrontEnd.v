(* Executable model of the Device front end (primitiv/core/device.cc): what every modelled entry
   point checks BEFORE it calls its `*_impl` kernel.  Hand transcription, statement by statement,
   with the source lines; validated against the real entry points on every run by
   engines/frontend.py (extracted through Extract/ExtractFrontEnd.v, same case lines as
   harness/tensor_drv.cc).  A front end returns `None` where the C++ executes
   PRIMITIV_THROW_ERROR (or a shape rule / Shape method it calls throws), otherwise the shape of
   the tensor it allocates with new_raw_tensor (forward), or which kernel it dispatches to
   (backward / in place).
   Also: `to_t`, the conversion from the uint32 shape model (C09, N with the wrap written out) to
   the nat shapes over which the kernels' index programs are stated.
   No proofs in this file. *)
From Coq Require Import List NArith Bool.
From PV Require Import Base.U32 Shape.ShapeImpl Fault.Guards Tensor.Kernels.
Import ListNotations.
Local Open Scope N_scope.

(* ------------------------------------------------------------------ the two shape models *)
Definition to_t (s : shape) : tshape := mkT (map N.to_nat (dims s)) (N.to_nat (batch s)).

(* ------------------------------------------------------------------ CHECK_DEVICE (device.cc:13-18) *)
(* a Tensor argument as the front end sees it: the device it lives on and its shape *)
Record tensor := mkTensor { t_dev : N; t_shape : shape }.

(* if (&(x).device() != this) PRIMITIV_THROW_ERROR(...), for every listed argument, before
   anything else happens *)
Definition check_device (this : N) (ts : list tensor) : bool :=
  forallb (fun t => t_dev t =? this) ts.
Definition on_device {A} (this : N) (ts : list tensor) (k : option A) : option A :=
  if check_device this ts then k else None.

(* Shape::operator!=  (shape.h:123) *)
Definition shape_neb (a b : shape) : bool := negb (shape_eqb a b).

(* ------------------------------------------------------------------ forward entry points *)
(* Each returns the argument of new_raw_tensor. *)

(* device.cc:154-160  pick_fw:  y = new_raw_tensor(shape_ops::pick(x.shape(), ids, dim)) *)
Definition fe_pick_fw (x : shape) (ids : list N) (dim : N) : option shape := pick x ids dim.
(* device.cc:162-169  slice_fw: shape_ops::slice(x.shape(), dim, lower, upper); kernel gets `lower` *)
Definition fe_slice_fw (x : shape) (dim lower upper : N) : option shape := slice x dim lower upper.
(* device.cc:171-184  concat_fw: if (xs.empty()) THROW; shapes collected; shape_ops::concat *)
Definition fe_concat_fw (xs : list shape) (dim : N) : option shape :=
  match xs with [] => None | _ => concat xs dim end.
(* device.cc:217-223 DEV_FW_X(name, sop): sop = static_cast<const Shape &> for the 11 unary
   functions of device.cc:307-317, shape_ops::transpose at device.cc:318 *)
Definition fe_fw_x (sop : shape -> option shape) (x : shape) : option shape := sop x.
Definition fe_unary_fw (x : shape) : option shape := fe_fw_x Some x.
Definition fe_transpose_fw (x : shape) : option shape := fe_fw_x transpose x.
(* device.cc:320-326 permute_dims_fw *)
Definition fe_permute_dims_fw (x : shape) (perm : list N) : option shape := permute_dims x perm.
(* device.cc:245-251 DEV_FW_X_CONST (device.cc:360-369) and pown_fw (371-376): new_raw_tensor(x.shape()) *)
Definition fe_fw_x_const (x : shape) : option shape := Some x.
(* device.cc:272-279 DEV_FW_AB(name, sop): scalar_op (408-415), elementwise (417-421), matmul (422) *)
Definition fe_fw_ab (sop : shape -> shape -> option shape) (a b : shape) : option shape := sop a b.
Definition fe_scalar_fw (x k : shape) : option shape := fe_fw_ab scalar_op x k.
Definition fe_elementwise_fw (a b : shape) : option shape := fe_fw_ab elementwise a b.
Definition fe_matmul_fw (a b : shape) : option shape := fe_fw_ab matmul a b.
(* device.cc:424-437 conv2d_fw *)
Definition fe_conv2d_fw (x w : shape) (p0 p1 s0 s1 d0 d1 : N) : option shape :=
  conv2d x w p0 p1 s0 s1 d0 d1.
(* device.cc:439-450 max_pool2d_fw *)
Definition fe_max_pool2d_fw (x : shape) (w0 w1 p0 p1 s0 s1 : N) : option shape :=
  pool2d x w0 w1 p0 p1 s0 s1.
(* device.cc:535-540 flip_fw: new_raw_tensor(x.shape()); dim is NOT checked *)
Definition fe_flip_fw (x : shape) (dim : N) : option shape := Some x.
(* device.cc:553-565 max_fw/min_fw, 603-615 sum_fw/logsumexp_fw: x.shape().resize_dim(dim, 1) *)
Definition fe_reduce_fw (x : shape) (dim : N) : option shape := resize_dim x dim 1.
(* device.cc:617-623 broadcast_fw *)
Definition fe_broadcast_fw (x : shape) (dim size : N) : option shape := broadcast x dim size.
(* device.cc:625-631 batch_pick_fw *)
Definition fe_batch_pick_fw (x : shape) (ids : list N) : option shape := batch_pick x ids.
(* device.cc:633-639 batch_slice_fw; kernel gets `lower` *)
Definition fe_batch_slice_fw (x : shape) (lower upper : N) : option shape := batch_slice x lower upper.
(* device.cc:641-654 batch_concat_fw: if (xs.empty()) THROW *)
Definition fe_batch_concat_fw (xs : list shape) : option shape :=
  match xs with [] => None | _ => batch_concat xs end.
(* device.cc:656-661 batch_sum_fw: x.shape().resize_batch(1) *)
Definition fe_batch_sum_fw (x : shape) : option shape := resize_batch x 1.
(* device.cc:58-66 argmax/argmin: CHECK_DEVICE only; the result vector is sized by the kernel *)
Definition fe_argmax (x : shape) (dim : N) : option unit := Some tt.
(* device.cc:100-107 identity: if (size == 0) THROW; new_raw_tensor({size, size}) *)
Definition fe_identity (sz : N) : option shape := if sz =? 0 then None else mk_shape [sz; sz] 1.

(* ------------------------------------------------------------------ backward / in place *)
(* device.cc:186-198 pick_bw:  sy = shape_ops::pick(gx.shape(), ids, dim); if (gy.shape() != sy) THROW *)
Definition fe_pick_bw (gy : shape) (ids : list N) (dim : N) (gx : shape) : option unit :=
  match pick gx ids dim with
  | None => None
  | Some sy => if shape_neb gy sy then None else Some tt
  end.

(* device.cc:200-215 slice_bw:
     if (!sy.has_same_loo_dims(sx, dim) || !sy.has_compatible_batch(sx) ||
         static_cast<uint64>(offset) + sy[dim] > sx[dim]) THROW;
     if (dim >= sx.depth()) inplace_add_impl(gy, gx); else slice_bw_impl(gy, dim, offset, gx); *)
Inductive slice_bw_path := ViaInplaceAdd | ViaSliceBw.
Definition fe_slice_bw (gy : shape) (dim offset : N) (gx : shape) : option slice_bw_path :=
  if negb (has_same_loo_dims gy gx dim) || negb (has_compatible_batch gy gx) ||
     negb (range_guard64 offset (get gy dim) (get gx dim)) then None
  else if depth gx <=? dim then Some ViaInplaceAdd else Some ViaSliceBw.

(* device.cc:225-243 DEV_BW_X(name, sop):
     if (x.shape() != gx.shape() || y.shape() != gy.shape() || y.shape() != sop(x.shape())) THROW
   (sop is evaluated last; when it throws the verdict is the same Error) *)
Definition fe_bw_x (sop : shape -> option shape) (x y gy gx : shape) : option unit :=
  if shape_neb x gx then None else
  if shape_neb y gy then None else
  match sop x with
  | None => None
  | Some s => if shape_neb y s then None else Some tt
  end.
Definition fe_unary_bw (x y gy gx : shape) : option unit := fe_bw_x Some x y gy gx.       (* 328-337 *)
Definition fe_transpose_bw (x y gy gx : shape) : option unit := fe_bw_x transpose x y gy gx. (* 338 *)

(* device.cc:340-358 permute_dims_bw:
     sy = shape_ops::permute_dims(x.shape(), perm);
     if (y.shape() != sy || gy.shape() != sy || gx.shape() != s) THROW *)
Definition fe_permute_dims_bw (x y gy : shape) (perm : list N) (gx : shape) : option unit :=
  match permute_dims x perm with
  | None => None
  | Some sy => if shape_neb y sy || shape_neb gy sy || shape_neb gx x then None else Some tt
  end.

(* device.cc:253-270 DEV_BW_X_CONST (378-387) and pown_bw (389-406):
     if (y.shape() != s || gy.shape() != s || gx.shape() != s) THROW, s = x.shape() *)
Definition fe_bw_x_const (x y gy gx : shape) : option unit :=
  if shape_neb y x || shape_neb gy x || shape_neb gx x then None else Some tt.

(* device.cc:281-305 DEV_BW_AB(name, sop) (452-457):
     if (a.shape() != ga.shape() || b.shape() != gb.shape() || y.shape() != gy.shape() ||
         y.shape() != sop(a.shape(), b.shape())) THROW *)
Definition fe_bw_ab (sop : shape -> shape -> option shape) (a b y gy ga gb : shape) : option unit :=
  if shape_neb a ga then None else
  if shape_neb b gb then None else
  if shape_neb y gy then None else
  match sop a b with
  | None => None
  | Some s => if shape_neb y s then None else Some tt
  end.
Definition fe_elementwise_bw := fe_bw_ab elementwise.
Definition fe_matmul_bw := fe_bw_ab matmul.

(* device.cc:459-495 conv2d_bw *)
Definition fe_conv2d_bw (x w y gy : shape) (p0 p1 s0 s1 d0 d1 : N) (gx gw : shape) : option unit :=
  fe_bw_ab (fun x w => conv2d x w p0 p1 s0 s1 d0 d1) x w y gy gx gw.

(* device.cc:497-526 max_pool2d_bw *)
Definition fe_max_pool2d_bw (x y gy : shape) (w0 w1 p0 p1 s0 s1 : N) (gx : shape) : option unit :=
  fe_bw_x (fun x => pool2d x w0 w1 p0 p1 s0 s1) x y gy gx.

(* device.cc:542-551 flip_bw: if (gy.shape() != gx.shape()) THROW; dim is NOT checked *)
Definition fe_flip_bw (gy : shape) (dim : N) (gx : shape) : option unit :=
  if shape_neb gy gx then None else Some tt.

(* device.cc:567-601 max_bw / min_bw:
     r = x.shape(); s = r.resize_dim(dim, 1);      (throws for dim >= 8)
     if (gx.shape() != r || y.shape() != s || gy.shape() != s) THROW *)
Definition fe_reduce_bw (x y gy : shape) (dim : N) (gx : shape) : option unit :=
  match resize_dim x dim 1 with
  | None => None
  | Some s => if shape_neb gx x || shape_neb y s || shape_neb gy s then None else Some tt
  end.

(* device.cc:663-674 batch_pick_bw *)
Definition fe_batch_pick_bw (gy : shape) (ids : list N) (gx : shape) : option unit :=
  match batch_pick gx ids with
  | None => None
  | Some sy => if shape_neb gy sy then None else Some tt
  end.

(* device.cc:676-690 batch_slice_bw:
     if (!sy.has_same_dims(sx) || static_cast<uint64>(offset) + sy.batch() > sx.batch()) THROW *)
Definition fe_batch_slice_bw (gy : shape) (offset : N) (gx : shape) : option unit :=
  if negb (has_same_dims gy gx) || negb (range_guard64 offset (batch gy) (batch gx)) then None
  else Some tt.

(* device.cc:697-721 inplace_add / inplace_subtract (x is added to / subtracted from y):
     if (!sx.has_same_dims(sy) || !sx.has_compatible_batch(sy)) THROW *)
Definition fe_inplace_add (x y : shape) : option unit :=
  if negb (has_same_dims x y) || negb (has_compatible_batch x y) then None else Some tt.

(* ------------------------------------------------------------------ the entry points with CHECK_DEVICE *)
(* `this` = the Device the member function is called on. The device test comes first. *)
Definition dev_slice_fw this (x : tensor) dim lo up :=
  on_device this [x] (fe_slice_fw (t_shape x) dim lo up).
Definition dev_pick_fw this (x : tensor) ids dim :=
  on_device this [x] (fe_pick_fw (t_shape x) ids dim).
(* device.cc:176-179: the emptiness test precedes the per-operand CHECK_DEVICE loop *)
Definition dev_concat_fw this (xs : list tensor) dim :=
  match xs with [] => None | _ => on_device this xs (fe_concat_fw (map t_shape xs) dim) end.
Definition dev_pick_bw this (gy : tensor) ids dim (gx : tensor) :=
  on_device this [gy; gx] (fe_pick_bw (t_shape gy) ids dim (t_shape gx)).
Definition dev_slice_bw this (gy : tensor) dim off (gx : tensor) :=
  on_device this [gy; gx] (fe_slice_bw (t_shape gy) dim off (t_shape gx)).
Definition dev_batch_pick_bw this (gy : tensor) ids (gx : tensor) :=
  on_device this [gy; gx] (fe_batch_pick_bw (t_shape gy) ids (t_shape gx)).
Definition dev_batch_slice_bw this (gy : tensor) off (gx : tensor) :=
  on_device this [gy; gx] (fe_batch_slice_bw (t_shape gy) off (t_shape gx)).
Definition dev_inplace_add this (x y : tensor) :=
  on_device this [x; y] (fe_inplace_add (t_shape x) (t_shape y)).
Definition dev_flip_bw this (gy : tensor) dim (gx : tensor) :=
  on_device this [gy; gx] (fe_flip_bw (t_shape gy) dim (t_shape gx)).
Definition dev_bw_x this sop (x y gy gx : tensor) :=
  on_device this [x; y; gy; gx] (fe_bw_x sop (t_shape x) (t_shape y) (t_shape gy) (t_shape gx)).
Definition dev_bw_x_const this (x y gy gx : tensor) :=
  on_device this [x; y; gy; gx] (fe_bw_x_const (t_shape x) (t_shape y) (t_shape gy) (t_shape gx)).
Definition dev_bw_ab this sop (a b y gy ga gb : tensor) :=
  on_device this [a; b; y; gy; ga; gb]
    (fe_bw_ab sop (t_shape a) (t_shape b) (t_shape y) (t_shape gy) (t_shape ga) (t_shape gb)).
Definition dev_reduce_bw this (x y gy : tensor) dim (gx : tensor) :=
  on_device this [x; y; gy; gx] (fe_reduce_bw (t_shape x) (t_shape y) (t_shape gy) dim (t_shape gx)).
