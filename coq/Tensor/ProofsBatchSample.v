(* C03, part 1: per-kernel SAMPLE LEMMAS.
   For every kernel K of Tensor/Kernels.v outside the batch namespace:

        block b Vy (K applied to the batched operands)
      = K at the batch-1 shapes applied to (sample_or_shared b of each operand)

   i.e. sample b of the result is computed from the b-th samples of the operands alone (the single
   shared sample for a batch-1 operand).  The lemmas are derived from the coordinate
   specifications of KernelProofs / ProofsGather / ProofsPerm / ProofsBilinear (the minibatch is
   the outermost factor of the `high` coordinate; a batch-1 operand is addressed with offset 0),
   over an arbitrary value type T.

   Value semantics used
     mov_eval p n xs      output of a data-movement program (the `gather` of ProofsGather for any
                          number of operands; = the `assign` interpreter of Index.v, mov_eval_assign)
     red_vals f p x       output of a reduction program: f applied to the gathered group
     bil_val p n a b      output of a bilinear program: y = 0; y[d] += a[ia] * b[ib] in program order

   Shapes: set_dim s d n (Shape::resize_dim), with_batch s B (Shape::resize_batch), unb s = batch 1. *)
From Coq Require Import List Arith Lia Permutation Bool.
From PV Require Import Tensor.Kernels Tensor.Index Tensor.KernelProofs Tensor.ProofsBilinear
                       Tensor.ProofsGather Tensor.ProofsPerm.
Import ListNotations.

(* ================================================================== shapes *)
Fixpoint set_nth1 (l : list nat) (d n : nat) {struct d} : list nat :=
  match d with
  | 0 => n :: tl l
  | S d' => hd 1 l :: set_nth1 (tl l) d' n
  end.

(* Shape::resize_dim (axes beyond the depth are 1) and Shape::resize_batch *)
Definition set_dim (s : tshape) (d n : nat) : tshape := mkT (set_nth1 (tdims s) d n) (tbatch s).
Definition with_batch (s : tshape) (B : nat) : tshape := mkT (tdims s) B.

Lemma nth_hd_tl (l : list nat) i : nth (S i) l 1 = nth i (tl l) 1.
Proof. destruct l; [destruct i; reflexivity|reflexivity]. Qed.

Lemma nth_set_same : forall d l n, nth d (set_nth1 l d n) 1 = n.
Proof. induction d as [|d IH]; intros l n; cbn [set_nth1 nth]; [reflexivity|apply IH]. Qed.

Lemma nth_set_other1 : forall d l n i, i <> d -> nth i (set_nth1 l d n) 1 = nth i l 1.
Proof.
  induction d as [|d IH]; intros l n i Hi; cbn [set_nth1].
  - destruct i as [|i]; [lia|]. cbn [nth]. symmetry. apply nth_hd_tl.
  - destruct i as [|i]; cbn [nth].
    + destruct l; reflexivity.
    + rewrite IH by lia. symmetry. apply nth_hd_tl.
Qed.

Lemma prodn_firstn_S (l : list nat) d : prodn (firstn (S d) l) = hd 1 l * prodn (firstn d (tl l)).
Proof.
  destruct l as [|x l]; cbn [firstn hd tl].
  - rewrite firstn_nil, prodn_nil. reflexivity.
  - apply prodn_cons.
Qed.

Lemma prodn_firstn_set : forall d l n, prodn (firstn d (set_nth1 l d n)) = prodn (firstn d l).
Proof.
  induction d as [|d IH]; intros l n; [reflexivity|].
  cbn [set_nth1]. rewrite (prodn_firstn_S l d). cbn [firstn]. rewrite prodn_cons, IH. reflexivity.
Qed.

Lemma skipn_S_tl (l : list nat) d : skipn (S d) l = skipn d (tl l).
Proof. destruct l; [rewrite !skipn_nil; reflexivity|reflexivity]. Qed.

Lemma skipn_set : forall d l n, skipn (S d) (set_nth1 l d n) = skipn (S d) l.
Proof.
  induction d as [|d IH]; intros l n; cbn [set_nth1].
  - destruct l; reflexivity.
  - rewrite (skipn_S_tl l (S d)). cbn [skipn]. apply IH.
Qed.

Lemma Forall_tl {A} (P : A -> Prop) l : Forall P l -> Forall P (tl l).
Proof. intro H. destruct l; [constructor|]. inversion H; assumption. Qed.

Lemma set_nth1_pos : forall d l n, Forall (fun x => 0 < x) l -> 0 < n ->
  Forall (fun x => 0 < x) (set_nth1 l d n).
Proof.
  induction d as [|d IH]; intros l n Hl Hn; cbn [set_nth1].
  - constructor; [exact Hn|apply Forall_tl; exact Hl].
  - constructor.
    + destruct l; cbn [hd]; [lia|]. inversion Hl; assumption.
    + apply IH; [apply Forall_tl; exact Hl|exact Hn].
Qed.

Lemma tget_set_dim s d n : tget (set_dim s d n) d = n.
Proof. unfold tget, set_dim. cbn [tdims]. apply nth_set_same. Qed.
Lemma tget_set_dim_other s d n i : i <> d -> tget (set_dim s d n) i = tget s i.
Proof. intro H. unfold tget, set_dim. cbn [tdims]. apply nth_set_other1. exact H. Qed.
Lemma tlower_set_dim s d n : tlower (set_dim s d n) d = tlower s d.
Proof. rewrite !tlower_eq. unfold set_dim. cbn [tdims]. apply prodn_firstn_set. Qed.
Lemma tupper_set_dim s d n : tupper (set_dim s d n) d = tupper s d.
Proof. unfold tupper, set_dim. cbn [tdims]. rewrite skipn_set. reflexivity. Qed.
Lemma tbatch_set_dim s d n : tbatch (set_dim s d n) = tbatch s.
Proof. reflexivity. Qed.
Lemma twf_set_dim s d n : twf s -> 0 < n -> twf (set_dim s d n).
Proof. intros [H1 H2] Hn. split; [apply set_nth1_pos; assumption|exact H2]. Qed.
Lemma tvolume_set_dim s d n : tvolume (set_dim s d n) = tlower s d * (n * tupper s d).
Proof. rewrite (vol_split (set_dim s d n) d), tlower_set_dim, tget_set_dim, tupper_set_dim. reflexivity. Qed.

Lemma twf_with_batch s B : twf s -> 0 < B -> twf (with_batch s B).
Proof. intros [H1 _] HB. split; assumption. Qed.
Lemma twf_unb s : twf s -> twf (unb s).
Proof. intros [H1 _]. split; [exact H1|cbn; lia]. Qed.

Lemma tget_pos s d : twf s -> 0 < tget s d.
Proof.
  intros [H _]. unfold tget. destruct (Nat.lt_ge_cases d (length (tdims s))) as [L|L].
  - apply (proj1 (Forall_forall _ _) H). apply nth_In. exact L.
  - rewrite nth_overflow by exact L. lia.
Qed.

Lemma tupper_pos s d : twf s -> 0 < tupper s d.
Proof.
  intros [H _]. unfold tupper. apply prodn_pos.
  rewrite <- (firstn_skipn (S d) (tdims s)) in H. apply Forall_app in H. tauto.
Qed.

Lemma tvolume_pos s : twf s -> 0 < tvolume s.
Proof. intros [H _]. rewrite tvolume_eq. apply prodn_pos. exact H. Qed.

(* ================================================================== batch selectors *)
Lemma bsel_self s b : b < tbatch s -> bsel s b = b.
Proof.
  intro H. destruct (bsel_cases s b) as [[H1 H2]|[[H1 H2]|[H1 H2]]]; lia.
Qed.

Lemma bidx_bsel s b : bidx (tbatch s) b = bsel s b.
Proof. unfold bidx, bsel, thas_batch. destruct (1 <? tbatch s); lia. Qed.

Lemma bsel_eq_batch s s' b : tbatch s = tbatch s' -> bsel s b = bsel s' b.
Proof. intro H. unfold bsel, thas_batch. rewrite H. reflexivity. Qed.

Lemma bidx_idem m s b : m <= tbatch s -> bidx m (bsel s b) = bidx m b.
Proof.
  intro H. unfold bidx. destruct (Nat.ltb_spec 1 m) as [L|L]; [|reflexivity].
  apply bsel_batched. lia.
Qed.

Lemma block_le (b B V : nat) : b < B -> (b + 1) * V <= B * V.
Proof. intro H. apply Nat.mul_le_mono_r. lia. Qed.

(* ================================================================== list facts *)
Lemma block_nil {A} b V : block b V (@nil A) = [].
Proof. unfold block. rewrite skipn_nil, firstn_nil. reflexivity. Qed.

Lemma nth_map_seq {A} (f : nat -> A) n i z : i < n -> nth i (map f (seq 0 n)) z = f i.
Proof.
  intro H. rewrite (nth_indep _ z (f 0)) by (rewrite map_length, seq_length; exact H).
  rewrite (map_nth f (seq 0 n) 0 i), seq_nth by exact H. reflexivity.
Qed.

Lemma block_map_range {A} (F : nat -> A) b V N : (b + 1) * V <= N ->
  block b V (map F (range N)) = map (fun i => F (b * V + i)) (range V).
Proof.
  intro H. unfold range.
  assert (HL : length (block b V (map F (seq 0 N))) = V)
    by (apply block_length; rewrite map_length, seq_length; exact H).
  apply (nth_ext _ _ (F 0) (F 0)).
  - rewrite HL, map_length, seq_length. reflexivity.
  - intros i Hi. rewrite HL in Hi. rewrite nth_block by exact Hi.
    rewrite (nth_map_seq F N (b * V + i)) by lia.
    rewrite (nth_map_seq (fun i => F (b * V + i)) V i) by exact Hi. reflexivity.
Qed.

Lemma flat_map2_one {A} (f : nat -> list A) : flat_map2 1 f = f 0.
Proof. unfold flat_map2, range. cbn [seq flat_map]. apply app_nil_r. Qed.

(* a loop of B*C rounds is B rounds of C *)
Lemma flat_map2_mul {A} (G : nat -> list A) C : forall B,
  flat_map2 (B * C) G = flat_map2 B (fun b => flat_map2 C (fun c => G (b * C + c))).
Proof.
  unfold flat_map2, range. induction B as [|B IH]; [reflexivity|].
  replace (S B * C) with (B * C + C) by lia. rewrite seq_app, flat_map_app, IH.
  rewrite seq_S, flat_map_app. cbn [flat_map Nat.add]. rewrite app_nil_r. f_equal.
  replace (seq (B * C) C) with (map (fun j => B * C + j) (seq 0 C))
    by (rewrite (map_add_seq (B * C) C 0); f_equal; lia).
  apply ProofsBilinear.flat_map_map.
Qed.

(* ================================================================== value semantics *)
Section Values.
  Variable T : Type.
  Variable zero : T.

  (* ---- data movement ---- *)
  Definition lookupN (fw : mov) (xs : list (list T)) (d : nat) : T :=
    match find (fun e => fst e =? d) fw with
    | Some e => nth (snd (snd e)) (nth (fst (snd e)) xs []) zero
    | None => zero
    end.
  Definition mov_eval (fw : mov) (n : nat) (xs : list (list T)) : list T :=
    map (lookupN fw xs) (seq 0 n).

  Lemma mov_eval_length fw n xs : length (mov_eval fw n xs) = n.
  Proof. unfold mov_eval. rewrite map_length, seq_length. reflexivity. Qed.

  (* one operand: the `gather` of ProofsGather *)
  Lemma mov_eval_gather fw n x : single fw -> mov_eval fw n [x] = gather T zero fw n x.
  Proof.
    intro Hs. unfold mov_eval, gather. apply map_ext. intro d. unfold lookupN, lookup.
    destruct (find (fun e => fst e =? d) fw) as [e|] eqn:F; [|reflexivity].
    apply find_some in F. destruct F as [Hin _].
    pose proof (proj1 (Forall_forall _ _) Hs _ Hin) as Hk. cbn beta in Hk. rewrite Hk. reflexivity.
  Qed.

  (* it is what the imperative interpreter of Index.v leaves in a fresh output buffer *)
  Theorem mov_eval_assign fw n xs : covers fw n ->
    assign T zero fw xs (repeat None n) = map Some (mov_eval fw n xs).
  Proof.
    intro Hc.
    assert (Hb : forall e, In e fw -> fst e < length (repeat (@None T) n)).
    { intros e He. rewrite repeat_length. apply (covers_lt _ _ _ Hc He). }
    apply (nth_ext _ _ None None).
    - rewrite assign_length by exact Hb. rewrite repeat_length, map_length, mov_eval_length. reflexivity.
    - intros d Hd. rewrite assign_length in Hd by exact Hb. rewrite repeat_length in Hd.
      rewrite assign_nth; [|apply (ProofsGather.covers_NoDup _ _ Hc)|exact Hb|rewrite repeat_length; exact Hd].
      unfold mov_eval. rewrite map_map, (nth_map_seq _ n d None Hd). unfold lookupN.
      destruct (find (fun e => fst e =? d) fw) as [e|] eqn:F; [reflexivity|].
      exfalso. assert (Hin : In d (map fst fw)).
      { apply (Permutation_in _ (Permutation_sym Hc)). apply in_seq. lia. }
      apply in_map_iff in Hin. destruct Hin as [e [Ee Hin]].
      pose proof (find_none _ _ F _ Hin) as Hf. cbn beta in Hf. rewrite Ee, Nat.eqb_refl in Hf. discriminate.
  Qed.

  (* THE generic sample lemma for data movement.  P is the batched program, P1 the per-sample one.
     If every entry (d, k, s) of P1 reappears in P as (b*Vy + d, k, off k + s) and the operands xs'
     are the operands xs read from offset off k on, then sample b of P's output is P1's output. *)
  Lemma mov_sample (P P1 : mov) xs xs' (off : nat -> nat) n Vy b :
    NoDup (map fst P) ->
    (forall i, i < Vy -> In i (map fst P1)) ->
    (forall d k s, In (d, (k, s)) P1 ->
       In (b * Vy + d, (k, off k + s)) P /\
       nth s (nth k xs' []) zero = nth (off k + s) (nth k xs []) zero) ->
    (b + 1) * Vy <= n ->
    block b Vy (mov_eval P n xs) = mov_eval P1 Vy xs'.
  Proof.
    intros Hnd Htot Hemb Hn. apply (nth_ext _ _ zero zero).
    - rewrite block_length, mov_eval_length by (rewrite mov_eval_length; exact Hn). reflexivity.
    - intros i Hi. rewrite block_length in Hi by (rewrite mov_eval_length; exact Hn).
      rewrite nth_block by exact Hi. unfold mov_eval.
      rewrite (nth_map_seq _ n (b * Vy + i) zero) by lia. rewrite (nth_map_seq _ Vy i zero Hi).
      unfold lookupN at 2.
      destruct (find (fun e => fst e =? i) P1) as [[d' [k s]]|] eqn:F.
      + apply find_some in F. destruct F as [Hin Ed]. cbn [fst] in Ed. apply Nat.eqb_eq in Ed. subst d'.
        destruct (Hemb i k s Hin) as [HinP Hval]. unfold lookupN.
        pose proof (find_unique P _ Hnd HinP) as FU. cbn [fst] in FU. rewrite FU. cbn [fst snd].
        symmetry. exact Hval.
      + exfalso. specialize (Htot i Hi). apply in_map_iff in Htot. destruct Htot as [e [Ee Hin]].
        pose proof (find_none _ _ F _ Hin) as Hf. cbn beta in Hf. rewrite Ee, Nat.eqb_refl in Hf. discriminate.
  Qed.

  Lemma covers_total {A} (p : list (nat * A)) n i : covers p n -> i < n -> In i (map fst p).
  Proof. intros Hc Hi. apply (Permutation_in _ (Permutation_sym Hc)). apply in_seq. lia. Qed.

  (* single-operand instance: operand x with per-sample volume Vx, read at sample bx *)
  Lemma mov_sample1 (P P1 : mov) x n Vy Vx b bx :
    covers P n -> covers P1 Vy -> mov_in_bounds P1 [Vx] ->
    (forall d k s, In (d, (k, s)) P1 -> k = 0 /\ In (b * Vy + d, (0, bx * Vx + s)) P) ->
    (b + 1) * Vy <= n ->
    block b Vy (mov_eval P n [x]) = mov_eval P1 Vy [block bx Vx x].
  Proof.
    intros Hc Hc1 Hb1 Hemb Hn.
    apply (mov_sample P P1 [x] [block bx Vx x] (fun _ => bx * Vx) n Vy b).
    - apply (ProofsGather.covers_NoDup _ _ Hc).
    - intros i Hi. apply (covers_total _ _ _ Hc1 Hi).
    - intros d k s Hin. destruct (Hemb d k s Hin) as [-> HinP]. split; [exact HinP|].
      pose proof (proj1 (Forall_forall _ _) Hb1 _ Hin) as Hs. cbn [fst snd nth] in Hs.
      cbn [nth]. apply nth_block. exact Hs.
    - exact Hn.
  Qed.

  (* ---- reductions ---- *)
  Definition red_vals (f : list T -> T) (p : red) (x : list T) : list T :=
    map (fun e => f (gather_vals T zero x (snd e))) p.

  Lemma red_vals_red_eval f p x : red_vals f p x = map snd (red_eval T zero f p x).
  Proof. unfold red_vals, red_eval. rewrite map_map. reflexivity. Qed.

  Lemma gather_vals_shift x g o V : Forall (fun s => s < V) g ->
    gather_vals T zero x (map (fun s => o * V + s) g) = gather_vals T zero (block o V x) g.
  Proof.
    intro H. unfold gather_vals. rewrite map_map. apply map_ext_in. intros s Hs.
    symmetry. apply nth_block. apply (proj1 (Forall_forall _ _) H _ Hs).
  Qed.

  (* ---- bilinear ---- *)
  Variables (add mul : T -> T -> T).

  Definition bil_val (p : list (nat * (nat * nat))) (n : nat) (a b : list T) : list T :=
    incr_run T zero add (bil_incr T zero mul p a b) (repeat zero n).

  Lemma bil_val_length p n a b : Forall (fun e => fst e < n) p -> length (bil_val p n a b) = n.
  Proof.
    intro H. unfold bil_val. rewrite incr_run_length; [apply repeat_length|].
    unfold bil_incr. rewrite Forall_map. cbn [fst]. rewrite repeat_length. exact H.
  Qed.

  Lemma nth_bil_val p n a b j : Forall (fun e => fst e < n) p ->
    nth j (bil_val p n a b) zero = fold_left add (map snd (bil_incr T zero mul (cell j p) a b)) zero.
  Proof.
    intro H. unfold bil_val. rewrite nth_incr_run.
    - rewrite nth_repeat_zero, cell_bil_incr. reflexivity.
    - unfold bil_incr. rewrite Forall_map. cbn [fst]. rewrite repeat_length. exact H.
  Qed.

  Lemma cell_shift3 i o oa ob (p : list (nat * (nat * nat))) :
    cell (o + i) (map (shift3 o oa ob) p) = map (shift3 o oa ob) (cell i p).
  Proof.
    unfold cell. rewrite filter_map_comm. f_equal. apply filter_ext. intro e. unfold shift3. cbn [fst].
    destruct (Nat.eqb_spec (o + fst e) (o + i)), (Nat.eqb_spec (fst e) i); try reflexivity; lia.
  Qed.

  (* THE generic sample lemma for bilinear programs whose batch loop is outermost *)
  Lemma bil_sample (P1 : list (nat * (nat * nat))) B Vy (oa ob : nat -> nat) a bb b :
    Forall (fun e => fst e < Vy) P1 -> b < B ->
    block b Vy (bil_val (flat_map2 B (fun b' => map (shift3 (b' * Vy) (oa b') (ob b')) P1)) (B * Vy) a bb)
    = bil_val P1 Vy (skipn (oa b) a) (skipn (ob b) bb).
  Proof.
    intros H1 Hb.
    assert (HP : Forall (fun e => fst e < B * Vy)
                   (flat_map2 B (fun b' => map (shift3 (b' * Vy) (oa b') (ob b')) P1))).
    { apply Forall_forall. intros e He. apply In_flat_map2 in He. destruct He as [b' [Hb' He]].
      apply in_map_iff in He. destruct He as [e1 [<- He1]]. unfold shift3. cbn [fst].
      pose proof (proj1 (Forall_forall _ _) H1 _ He1) as L. cbn beta in L.
      pose proof (block_le b' B Vy Hb'). lia. }
    apply (nth_ext _ _ zero zero).
    - rewrite block_length; rewrite !bil_val_length by assumption; [reflexivity|apply block_le; exact Hb].
    - intros i Hi. rewrite block_length in Hi by (rewrite bil_val_length by exact HP; apply block_le; exact Hb).
      rewrite nth_block by exact Hi. rewrite !nth_bil_val by assumption. f_equal.
      unfold cell at 1. rewrite (filter_flat_map2_one _ B _ b Hb).
      + fold (cell (b * Vy + i) (map (shift3 (b * Vy) (oa b) (ob b)) P1)). rewrite cell_shift3.
        unfold bil_incr. rewrite !map_map. apply map_ext. intro e. unfold shift3. cbn [fst snd].
        rewrite !nth_skipn_add. reflexivity.
      + intros b' Hb' Hne. apply filter_none. intros e He. apply in_map_iff in He.
        destruct He as [e1 [<- He1]]. unfold shift3. cbn [fst]. apply Nat.eqb_neq.
        pose proof (proj1 (Forall_forall _ _) H1 _ He1) as L. cbn beta in L.
        assert (b' < b \/ b < b') as [Q|Q] by lia.
        * pose proof (block_le b' b Vy Q). lia.
        * pose proof (block_le b b' Vy Q). lia.
  Qed.

  Lemma bil_val_skipn_block p n a bb ka Va kb Vb :
    Forall (fun e => fst (snd e) < Va /\ snd (snd e) < Vb) p ->
    bil_val p n (skipn (ka * Va) a) (skipn (kb * Vb) bb) = bil_val p n (block ka Va a) (block kb Vb bb).
  Proof.
    intro H. unfold bil_val. f_equal. unfold bil_incr. apply map_ext_in. intros e He.
    destruct (proj1 (Forall_forall _ _) H _ He) as [L1 L2].
    rewrite !nth_skipn_add, !nth_block by assumption. reflexivity.
  Qed.

  Lemma map_shift3_0 (p : list (nat * (nat * nat))) : map (shift3 0 0 0) p = p.
  Proof. rewrite <- (map_id p) at 2. apply map_ext. intros [d [x y]]. reflexivity. Qed.
End Values.

Lemma high_lt high U b B : high < U -> b < B -> high + U * b < U * B.
Proof. intros H1 H2. pose proof (block_le b B U H2). lia. Qed.

Lemma tsize_eq s : tsize s = tbatch s * tvolume s.  Proof. reflexivity. Qed.

Lemma in_acc_as_mov p d k s : In (d, (k, s)) (acc_as_mov p) <-> k = 0 /\ In (d, s) p.
Proof.
  unfold acc_as_mov. rewrite in_map_iff. split.
  - intros [[d' s'] [E H]]. cbn [fst snd] in E. injection E as <- <- <-. auto.
  - intros [-> H]. exists (d, s). auto.
Qed.

(* ================================================================== per-kernel sample lemmas *)
Section KernelLaws.
  Variable T : Type.
  Variable zero : T.
  Notation mev := (mov_eval T zero).

  (* ------------------------------------------------------------ slice (also split) *)
  (* shape_ops::slice: y = x.resize_dim(dim, upper - lower), lower < upper <= x[dim] *)
  Definition slice_ok (sx : tshape) (dim off n : nat) : Prop := 0 < n /\ off + n <= tget sx dim.
  Definition slice_val (sx : tshape) (dim off n : nat) (x : list T) : list T :=
    mev (slice_fw sx (set_dim sx dim n) dim off) (tsize (set_dim sx dim n)) [x].

  Theorem slice_sample sx dim off n x b : twf sx -> slice_ok sx dim off n -> b < tbatch sx ->
    block b (tvolume (set_dim sx dim n)) (slice_val sx dim off n x)
    = slice_val (unb sx) dim off n (block b (tvolume sx) x).
  Proof.
    intros Hwf [Hn Hoff] Hb. unfold slice_val.
    change (set_dim (unb sx) dim n) with (unb (set_dim sx dim n)).
    set (sy := set_dim sx dim n). set (base := tlower sx dim). set (nx := tget sx dim). set (U := tupper sx dim).
    assert (Hbase : tlower sy dim = base) by apply tlower_set_dim.
    assert (Hny : tget sy dim = n) by apply tget_set_dim.
    assert (HVy : tvolume sy = base * n * U) by (unfold sy; rewrite tvolume_set_dim; fold base U; ring).
    assert (HVx : tvolume sx = base * nx * U) by (rewrite (vol_split sx dim); fold base nx U; ring).
    assert (Hb0 : 0 < base) by (apply tlower_pos; exact Hwf).
    assert (Hsy : tsize sy = base * n * (U * tbatch sx)) by (rewrite tsize_eq, HVy; cbn [sy set_dim tbatch]; ring).
    assert (Hsx : tsize sx = base * nx * (U * tbatch sx)) by (rewrite tsize_eq, HVx; ring).
    assert (Hsy1 : tsize (unb sy) = base * n * (U * 1)) by (rewrite tsize_unb, HVy; ring).
    assert (Hsx1 : tsize (unb sx) = base * nx * (U * 1)) by (rewrite tsize_unb, HVx; ring).
    pose proof (slice_fw_spec sx sy dim off base nx n _ Hbase Hny eq_refl Hsy Hsx Hoff Hb0 Hn) as SP.
    pose proof (slice_fw_spec (unb sx) (unb sy) dim off base nx n _ Hbase Hny eq_refl Hsy1 Hsx1 Hoff Hb0 Hn) as SP1.
    pose proof (slice_fw_sequential sx sy dim off base nx n _ Hbase Hny eq_refl Hsy Hsx Hoff Hb0 Hn) as SQ.
    pose proof (slice_fw_sequential (unb sx) (unb sy) dim off base nx n _ Hbase Hny eq_refl Hsy1 Hsx1 Hoff Hb0 Hn) as SQ1.
    pose proof (slice_fw_in_bounds (unb sx) (unb sy) dim off base nx n _ Hbase Hny eq_refl Hsy1 Hsx1 Hoff Hb0 Hn) as IB1.
    rewrite tsize_unb in *.
    apply (mov_sample1 T zero _ _ x (tsize sy) (tvolume sy) (tvolume sx) b b).
    - apply sequential_covers. exact SQ.
    - apply sequential_covers. exact SQ1.
    - exact IB1.
    - intros d k s Hin. apply SP1 in Hin. destruct Hin as [low [j [high [Hl [Hj [Hh [-> [-> ->]]]]]]]].
      split; [reflexivity|]. apply SP. exists low, j, (high + U * b).
      rewrite !flat_sample, HVy, HVx. repeat split; try assumption. apply high_lt; [lia|exact Hb].
    - rewrite tsize_eq. apply block_le. exact Hb.
  Qed.

  Lemma slice_val_length sx dim off n x : length (slice_val sx dim off n x) = tsize (set_dim sx dim n).
  Proof. apply mov_eval_length. Qed.

  (* ------------------------------------------------------------ broadcast *)
  (* shape_ops::broadcast: x[dim] = 1, size > 0, y = x.resize_dim(dim, size) *)
  Definition broadcast_ok (sx : tshape) (dim size : nat) : Prop := 0 < size /\ tget sx dim = 1.
  Definition broadcast_val (sx : tshape) (dim size : nat) (x : list T) : list T :=
    mev (broadcast_fw sx (set_dim sx dim size) dim size) (tsize (set_dim sx dim size)) [x].

  Theorem broadcast_sample sx dim size x b : twf sx -> broadcast_ok sx dim size -> b < tbatch sx ->
    block b (tvolume (set_dim sx dim size)) (broadcast_val sx dim size x)
    = broadcast_val (unb sx) dim size (block b (tvolume sx) x).
  Proof.
    intros Hwf [Hn H1] Hb. unfold broadcast_val.
    change (set_dim (unb sx) dim size) with (unb (set_dim sx dim size)).
    set (sy := set_dim sx dim size). set (base := tlower sx dim). set (U := tupper sx dim).
    assert (Hbase : tlower sy dim = base) by apply tlower_set_dim.
    assert (HVy : tvolume sy = base * size * U) by (unfold sy; rewrite tvolume_set_dim; fold base U; ring).
    assert (HVx : tvolume sx = base * 1 * U) by (rewrite (vol_split sx dim), H1; fold base U; ring).
    assert (Hb0 : 0 < base) by (apply tlower_pos; exact Hwf).
    assert (Hsy : tsize sy = base * size * (U * tbatch sx)) by (rewrite tsize_eq, HVy; cbn [sy set_dim tbatch]; ring).
    assert (Hsx : tsize sx = base * 1 * (U * tbatch sx)) by (rewrite tsize_eq, HVx; ring).
    assert (Hsy1 : tsize (unb sy) = base * size * (U * 1)) by (rewrite tsize_unb, HVy; ring).
    assert (Hsx1 : tsize (unb sx) = base * 1 * (U * 1)) by (rewrite tsize_unb, HVx; ring).
    pose proof (broadcast_fw_spec sx sy dim size base _ Hbase Hsx Hsy Hb0 Hn) as SP.
    pose proof (broadcast_fw_spec (unb sx) (unb sy) dim size base _ Hbase Hsx1 Hsy1 Hb0 Hn) as SP1.
    pose proof (broadcast_fw_covers sx sy dim size base _ Hbase Hsx Hsy Hb0 Hn) as CV.
    pose proof (broadcast_fw_covers (unb sx) (unb sy) dim size base _ Hbase Hsx1 Hsy1 Hb0 Hn) as CV1.
    pose proof (broadcast_fw_in_bounds (unb sx) (unb sy) dim size base _ Hbase Hsx1 Hsy1 Hb0 Hn) as IB1.
    rewrite tsize_unb in *.
    apply (mov_sample1 T zero _ _ x (tsize sy) (tvolume sy) (tvolume sx) b b); try assumption.
    - intros d k s Hin. apply SP1 in Hin. destruct Hin as [low [j [high [Hl [Hj [Hh [-> [-> ->]]]]]]]].
      split; [reflexivity|]. apply SP. exists low, j, (high + U * b).
      rewrite !flat_sample, HVy, HVx. repeat split; try assumption. apply high_lt; [lia|exact Hb].
    - rewrite tsize_eq. apply block_le. exact Hb.
  Qed.

  (* ------------------------------------------------------------ flip *)
  Definition flip_val (s : tshape) (dim : nat) (x : list T) : list T :=
    mev (acc_as_mov (flip_pairs s dim)) (tsize s) [x].

  Theorem flip_sample s dim x b : twf s -> b < tbatch s ->
    block b (tvolume s) (flip_val s dim x) = flip_val (unb s) dim (block b (tvolume s) x).
  Proof.
    intros Hwf Hb. unfold flip_val.
    set (skip := tlower s dim). set (n := tget s dim). set (U := tupper s dim).
    assert (HV : tvolume s = skip * n * U) by (rewrite (vol_split s dim); fold skip n U; ring).
    assert (Hs0 : 0 < skip) by (apply tlower_pos; exact Hwf).
    assert (Hn0 : 0 < n) by (apply tget_pos; exact Hwf).
    assert (Hs : tsize s = skip * n * (U * tbatch s)) by (rewrite tsize_eq, HV; ring).
    assert (Hs1 : tsize (unb s) = skip * n * (U * 1)) by (rewrite tsize_unb, HV; ring).
    pose proof (flip_pairs_spec s dim skip n _ eq_refl eq_refl Hs Hs0 Hn0) as SP.
    pose proof (flip_pairs_spec (unb s) dim skip n _ eq_refl eq_refl Hs1 Hs0 Hn0) as SP1.
    pose proof (flip_pairs_covers s dim skip n _ eq_refl eq_refl Hs Hs0 Hn0) as CV.
    pose proof (flip_pairs_covers (unb s) dim skip n _ eq_refl eq_refl Hs1 Hs0 Hn0) as CV1.
    pose proof (flip_pairs_in_bounds (unb s) dim skip n _ eq_refl eq_refl Hs1 Hs0 Hn0) as IB1.
    rewrite tsize_unb in *.
    apply (mov_sample1 T zero _ _ x (tsize s) (tvolume s) (tvolume s) b b).
    - apply acc_as_mov_covers. exact CV.
    - apply acc_as_mov_covers. exact CV1.
    - apply Forall_forall. intros [d [k sr]] Hin. apply in_acc_as_mov in Hin. destruct Hin as [-> Hin].
      cbn [fst snd nth]. apply (proj1 (Forall_forall _ _) IB1 _ Hin).
    - intros d k sr Hin. apply in_acc_as_mov in Hin. destruct Hin as [-> Hin]. split; [reflexivity|].
      apply in_acc_as_mov. split; [reflexivity|].
      apply SP1 in Hin. destruct Hin as [low [j [high [Hl [Hj [Hh [-> ->]]]]]]].
      apply SP. exists low, j, (high + U * b).
      rewrite !flat_sample, HV. repeat split; try assumption. apply high_lt; [lia|exact Hb].
    - rewrite tsize_eq. apply block_le. exact Hb.
  Qed.

  (* ------------------------------------------------------------ reshape / flatten / copy *)
  (* shape_ops::reshape: same volume, same batch; the kernel is a plain copy (identity_pairs) *)
  Definition reshape_ok (sx : tshape) (dims : list nat) : Prop :=
    Forall (fun d => 0 < d) dims /\ fold_right Nat.mul 1 dims = tvolume sx.
  Definition reshape_shape (sx : tshape) (dims : list nat) : tshape := mkT dims (tbatch sx).
  Definition copy_val (n : nat) (x : list T) : list T := mev (identity_pairs n) n [x].

  Theorem copy_sample B V x b : b < B -> block b V (copy_val (B * V) x) = copy_val V (block b V x).
  Proof.
    intro Hb. unfold copy_val.
    apply (mov_sample1 T zero _ _ x (B * V) V V b b).
    - apply sequential_covers. apply identity_sequential.
    - apply sequential_covers. apply identity_sequential.
    - apply identity_in_bounds.
    - intros d k s Hin. apply identity_spec in Hin. destruct Hin as [Hd [-> ->]]. split; [reflexivity|].
      apply identity_spec. pose proof (block_le b B V Hb). repeat split. lia.
    - apply block_le. exact Hb.
  Qed.

  Theorem reshape_sample sx dims x b : reshape_ok sx dims -> b < tbatch sx ->
    block b (tvolume (reshape_shape sx dims)) (copy_val (tsize sx) x)
    = copy_val (tsize (unb sx)) (block b (tvolume sx) x).
  Proof.
    intros [_ Hv] Hb. rewrite tsize_unb, tsize_eq.
    replace (tvolume (reshape_shape sx dims)) with (tvolume sx) by (symmetry; exact Hv).
    apply copy_sample. exact Hb.
  Qed.
End KernelLaws.

Section KernelLaws2.
  Variable T : Type.
  Variable zero : T.
  Notation mev := (mov_eval T zero).

  (* ------------------------------------------------------------ transpose *)
  (* shape_ops::transpose: x is a matrix; y = {x[1], x[0]}, same batch *)
  Definition transpose_ok (sx : tshape) : Prop := tvolume sx = tget sx 0 * tget sx 1.
  Definition transpose_shape (sx : tshape) : tshape := mkT [tget sx 1; tget sx 0] (tbatch sx).
  Definition transpose_val (sx : tshape) (x : list T) : list T :=
    mev (transpose_fw sx (transpose_shape sx)) (tsize (transpose_shape sx)) [x].

  Lemma transpose_volume sx : transpose_ok sx -> tvolume (transpose_shape sx) = tvolume sx.
  Proof. intro H. rewrite H. unfold tvolume, transpose_shape. cbn [tdims fold_right]. ring. Qed.

  Theorem transpose_sample sx x b : transpose_ok sx -> b < tbatch sx ->
    block b (tvolume (transpose_shape sx)) (transpose_val sx x)
    = transpose_val (unb sx) (block b (tvolume sx) x).
  Proof.
    intros Hm Hb. unfold transpose_val.
    change (transpose_shape (unb sx)) with (unb (transpose_shape sx)).
    set (sy := transpose_shape sx). set (d1 := tget sx 0). set (d2 := tget sx 1).
    assert (HVy : tvolume sy = d2 * d1) by (unfold sy; rewrite transpose_volume, Hm by exact Hm; fold d1 d2; ring).
    assert (HVx : tvolume sx = d1 * d2) by exact Hm.
    assert (Hsx : tsize sx = d1 * d2 * tbatch sx) by (rewrite tsize_eq, HVx; ring).
    assert (Hsy : tsize sy = d2 * d1 * tbatch sx) by (rewrite tsize_eq, HVy; cbn [sy transpose_shape tbatch]; ring).
    assert (Hsx1 : tsize (unb sx) = d1 * d2 * 1) by (rewrite tsize_unb, HVx; ring).
    assert (Hsy1 : tsize (unb sy) = d2 * d1 * 1) by (rewrite tsize_unb, HVy; ring).
    pose proof (transpose_fw_spec sx sy d1 d2 (tbatch sx) eq_refl eq_refl eq_refl) as SP.
    pose proof (transpose_fw_spec (unb sx) (unb sy) d1 d2 1 eq_refl eq_refl eq_refl) as SP1.
    pose proof (transpose_fw_covers sx sy d1 d2 (tbatch sx) eq_refl eq_refl eq_refl Hsx Hsy) as CV.
    pose proof (transpose_fw_covers (unb sx) (unb sy) d1 d2 1 eq_refl eq_refl eq_refl Hsx1 Hsy1) as CV1.
    pose proof (transpose_fw_in_bounds (unb sx) (unb sy) d1 d2 1 eq_refl eq_refl eq_refl Hsx1) as IB1.
    rewrite tsize_unb in *.
    apply (mov_sample1 T zero _ _ x (tsize sy) (tvolume sy) (tvolume sx) b b); try assumption.
    - intros d k s Hin. apply SP1 in Hin. destruct Hin as [i [j [b0 [Hi [Hj [Hb0 [-> [-> ->]]]]]]]].
      split; [reflexivity|]. apply SP. exists i, j, b. replace b0 with 0 by lia.
      rewrite HVy, HVx. unfold flat. repeat split; try assumption; ring.
    - rewrite tsize_eq. apply block_le. exact Hb.
  Qed.

  (* ------------------------------------------------------------ permute_dims *)
  (* shape_ops::permute_dims: perm is a permutation of 0..n-1 with n >= depth; y[a] = x[perm[a]] *)
  Definition permute_ok (sx : tshape) (perm : list nat) : Prop :=
    Permutation perm (seq 0 (length perm)) /\ tdepth sx <= length perm.
  Definition permute_shape (sx : tshape) (perm : list nat) : tshape :=
    mkT (map (fun a => tget sx (nth a perm 0)) (seq 0 (length perm))) (tbatch sx).
  Definition permute_val (sx : tshape) (perm : list nat) (x : list T) : list T :=
    mev (permute_fw sx (permute_shape sx perm) perm) (tsize (permute_shape sx perm)) [x].

  Lemma permute_shape_twf sx perm : twf sx -> twf (permute_shape sx perm).
  Proof.
    intro Hwf. split; [|apply Hwf]. unfold permute_shape. cbn [tdims]. apply Forall_forall.
    intros v Hv. apply in_map_iff in Hv. destruct Hv as [a [<- _]]. apply tget_pos. exact Hwf.
  Qed.

  Lemma permute_shape_dims sx perm a : a < length perm ->
    tget (permute_shape sx perm) a = tget sx (nth a perm 0).
  Proof. intro H. unfold tget at 1, permute_shape. cbn [tdims]. apply (nth_map_seq (fun a => tget sx (nth a perm 0)) (length perm) a 1 H). Qed.

  Lemma permute_shape_depth sx perm : tdepth (permute_shape sx perm) <= length perm.
  Proof. unfold tdepth, permute_shape. cbn [tdims]. rewrite map_length, seq_length. lia. Qed.

  Lemma permute_shape_volume sx perm : twf sx -> permute_ok sx perm ->
    tvolume (permute_shape sx perm) = tvolume sx.
  Proof.
    intros Hwf [Hp Hd].
    apply (permute_volume sx (permute_shape sx perm) perm (length perm) eq_refl Hp Hd
             (permute_shape_depth sx perm) (permute_shape_dims sx perm)).
  Qed.

  Theorem permute_sample sx perm x b : twf sx -> permute_ok sx perm -> b < tbatch sx ->
    block b (tvolume (permute_shape sx perm)) (permute_val sx perm x)
    = permute_val (unb sx) perm (block b (tvolume sx) x).
  Proof.
    intros Hwf [Hp Hd] Hb. unfold permute_val.
    change (permute_shape (unb sx) perm) with (unb (permute_shape sx perm)).
    set (sy := permute_shape sx perm). set (nd := length perm).
    pose proof (permute_shape_twf sx perm Hwf) as Hwfy. fold sy in Hwfy.
    pose proof (permute_shape_depth sx perm) as Hdy. fold sy nd in Hdy.
    pose proof (permute_shape_dims sx perm) as Hdims. fold sy nd in Hdims.
    pose proof (permute_fw_spec sx sy perm nd eq_refl Hp Hwf Hd Hdy Hdims Hwfy) as SP.
    pose proof (permute_fw_spec (unb sx) (unb sy) perm nd eq_refl Hp (twf_unb _ Hwf) Hd Hdy Hdims (twf_unb _ Hwfy)) as SP1.
    pose proof (permute_fw_covers sx sy perm nd eq_refl Hp Hwf Hd Hdy Hdims Hwfy eq_refl) as CV.
    pose proof (permute_fw_covers (unb sx) (unb sy) perm nd eq_refl Hp (twf_unb _ Hwf) Hd Hdy Hdims (twf_unb _ Hwfy) eq_refl) as CV1.
    pose proof (permute_fw_in_bounds (unb sx) (unb sy) perm nd eq_refl Hp (twf_unb _ Hwf) Hd Hdy Hdims (twf_unb _ Hwfy) eq_refl) as IB1.
    rewrite tsize_unb in *.
    apply (mov_sample1 T zero _ _ x (tsize sy) (tvolume sy) (tvolume sx) b b); try assumption.
    - intros d k s Hin. apply SP1 in Hin.
      destruct Hin as [b0 [i [j [Hb0 [Hi [Hj [-> [-> [-> Hdig]]]]]]]]].
      cbn [unb tbatch] in Hb0. replace b0 with 0 by lia.
      split; [reflexivity|]. apply SP. exists b, i, j.
      change (tvolume (unb sx)) with (tvolume sx) in *. change (tvolume (unb sy)) with (tvolume sy) in *.
      repeat split; try assumption; try lia.
    - rewrite tsize_eq. apply block_le. exact Hb.
  Qed.

  (* ------------------------------------------------------------ pick *)
  (* shape_ops::pick: ids non-empty; ids.size() and x.batch() equal or one of them 1; ids[i] < x[dim];
     y = x.resize_dim(dim, 1) with batch max(x.batch(), ids.size()) *)
  Definition pick_ok (sx : tshape) (ids : list nat) (dim : nat) : Prop :=
    0 < length ids /\
    (length ids = tbatch sx \/ length ids = 1 \/ tbatch sx = 1) /\
    (forall i, i < length ids -> nth i ids 0 < tget sx dim).
  Definition pick_shape (sx : tshape) (ids : list nat) (dim : nat) : tshape :=
    with_batch (set_dim sx dim 1) (Nat.max (tbatch sx) (length ids)).
  Definition pick_val (sx : tshape) (ids : list nat) (dim : nat) (x : list T) : list T :=
    mev (pick_fw sx (pick_shape sx ids dim) ids dim) (tsize (pick_shape sx ids dim)) [x].

  (* sample b of the result picks, in sample b of x (or its shared sample), the index given for
     sample b (or the shared index) *)
  Theorem pick_sample sx ids dim x b : twf sx -> pick_ok sx ids dim ->
    b < tbatch (pick_shape sx ids dim) ->
    block b (tvolume (pick_shape sx ids dim)) (pick_val sx ids dim x)
    = pick_val (unb sx) [nth (bidx (length ids) b) ids 0] dim (block (bsel sx b) (tvolume sx) x).
  Proof.
    intros Hwf [Hl [Hc Hids]] Hb. unfold pick_val.
    change (pick_shape (unb sx) [nth (bidx (length ids) b) ids 0] dim) with (unb (pick_shape sx ids dim)).
    set (sy := pick_shape sx ids dim) in *. set (base := tlower sx dim). set (n := tget sx dim).
    set (U := tupper sx dim). set (B := Nat.max (tbatch sx) (length ids)).
    set (idb := nth (bidx (length ids) b) ids 0).
    assert (HBx : 0 < tbatch sx) by apply Hwf.
    assert (Hby : tbatch sy = B) by reflexivity.
    assert (Hbase : tlower sy dim = base) by apply tlower_set_dim.
    assert (HVy : tvolume sy = base * 1 * U)
      by (change (tvolume sy) with (tvolume (set_dim sx dim 1)); rewrite tvolume_set_dim; fold base U; ring).
    assert (HVx : tvolume sx = base * n * U) by (rewrite (vol_split sx dim); fold base n U; ring).
    assert (Hb0 : 0 < base) by (apply tlower_pos; exact Hwf).
    assert (Hbc : tbatch sx = B \/ tbatch sx = 1) by (unfold B; lia).
    assert (Hic : length ids = B \/ length ids = 1) by (unfold B; lia).
    assert (Hidb : idb < n).
    { unfold idb. apply Hids. rewrite Hby in Hb. apply (bidx_lt (length ids) B b Hb Hic). }
    assert (Hic1 : length [idb] = 1 \/ length [idb] = 1) by (left; reflexivity).
    assert (Hids1 : forall i, i < length [idb] -> nth i [idb] 0 < n).
    { intros i Hi. cbn [length] in Hi. replace i with 0 by lia. exact Hidb. }
    pose proof (pick_fw_spec sx sy ids dim base n U B (tbatch sx) Hbase eq_refl HVy HVx Hby eq_refl Hbc Hic Hids Hb0) as SP.
    pose proof (pick_fw_spec (unb sx) (unb sy) [idb] dim base n U 1 1 Hbase eq_refl HVy HVx eq_refl eq_refl
                  (or_introl eq_refl) Hic1 Hids1 Hb0) as SP1.
    pose proof (pick_fw_sequential sx sy ids dim base n U B (tbatch sx) Hbase eq_refl HVy HVx Hby eq_refl Hbc Hic Hids Hb0) as SQ.
    pose proof (pick_fw_sequential (unb sx) (unb sy) [idb] dim base n U 1 1 Hbase eq_refl HVy HVx eq_refl eq_refl
                  (or_introl eq_refl) Hic1 Hids1 Hb0) as SQ1.
    pose proof (pick_fw_in_bounds (unb sx) (unb sy) [idb] dim base n U 1 1 Hbase eq_refl HVy HVx eq_refl eq_refl
                  (or_introl eq_refl) Hic1 Hids1 Hb0) as IB1.
    rewrite tsize_unb in *.
    apply (mov_sample1 T zero _ _ x (tsize sy) (tvolume sy) (tvolume sx) b (bsel sx b)).
    - apply sequential_covers. exact SQ.
    - apply sequential_covers. exact SQ1.
    - exact IB1.
    - intros d k s Hin. apply SP1 in Hin.
      destruct Hin as [low [high [b0 [Hlo [Hh [Hb0' [-> [-> ->]]]]]]]]. replace b0 with 0 by lia.
      split; [reflexivity|]. apply SP. exists low, high, b. rewrite Hby in Hb.
      rewrite bidx_bsel, HVy, HVx. cbn [length bidx Nat.ltb Nat.leb nth Nat.mul Nat.add].
      repeat split; try assumption.
    - rewrite tsize_eq, Hby. apply block_le. rewrite <- Hby. exact Hb.
  Qed.
End KernelLaws2.

(* ------------------------------------------------------------ concat *)
Definition dshape : tshape := mkT [] 1.
Definition maxb (xs : list tshape) : nat := fold_right Nat.max 1 (map tbatch xs).

Lemma maxb_unb xs : maxb (map unb xs) = 1.
Proof. unfold maxb. induction xs as [|s xs IH]; [reflexivity|]. cbn [map fold_right unb tbatch]. rewrite IH. reflexivity. Qed.

Lemma maxb_ge xs : 1 <= maxb xs.
Proof. unfold maxb. induction xs as [|s xs IH]; cbn [map fold_right]; lia. Qed.

Lemma maxb_le xs s : In s xs -> tbatch s <= maxb xs.
Proof.
  unfold maxb. induction xs as [|a xs IH]; intros H; [destruct H|]. cbn [map fold_right].
  destruct H as [->|H]; [lia|]. specialize (IH H). lia.
Qed.

(* operands with batch in {1, B} (B > 0) have max batch in {1, B} and each is that max or 1 *)
Lemma maxb_cases xs B : 0 < B -> Forall (fun s => tbatch s = 1 \/ tbatch s = B) xs ->
  (maxb xs = 1 \/ maxb xs = B) /\ Forall (fun s => tbatch s = maxb xs \/ tbatch s = 1) xs.
Proof.
  intros HB H. induction H as [|s xs Hs _ [IH1 IH2]]; [split; [left; reflexivity|constructor]|].
  unfold maxb in *. cbn [map fold_right]. split; [lia|]. constructor; [lia|].
  eapply Forall_impl; [|exact IH2]. cbn beta. intros a Ha. lia.
Qed.

Lemma concat_off_unb xs dim k : concat_off (map unb xs) dim k = concat_off xs dim k.
Proof. unfold concat_off. rewrite firstn_map, map_map. reflexivity. Qed.

Lemma sumn_adim_unb xs dim : ProofsGather.sumn (map (adim dim) (map unb xs)) = ProofsGather.sumn (map (adim dim) xs).
Proof. rewrite map_map. reflexivity. Qed.

(* shape_ops::concat: all operands agree on every axis but dim (same lower and upper products),
   compatible batches; y = x0.resize_dim(dim, sum of the x_k[dim]) with the common batch *)
Definition concat_shape (xs : list tshape) (dim : nat) : tshape :=
  with_batch (set_dim (hd dshape xs) dim (ProofsGather.sumn (map (adim dim) xs))) (maxb xs).
Definition concat_ok (xs : list tshape) (dim : nat) : Prop :=
  xs <> [] /\
  Forall (fun sx => tlower sx dim = tlower (hd dshape xs) dim /\ tupper sx dim = tupper (hd dshape xs) dim /\
                    (tbatch sx = maxb xs \/ tbatch sx = 1)) xs.

Lemma concat_shape_unb xs dim : xs <> [] -> concat_shape (map unb xs) dim = unb (concat_shape xs dim).
Proof.
  intro H. unfold concat_shape. rewrite maxb_unb, sumn_adim_unb. destruct xs as [|s xs]; [congruence|]. reflexivity.
Qed.

Lemma concat_ok_unb xs dim : concat_ok xs dim -> concat_ok (map unb xs) dim.
Proof.
  intros [Hne H]. split; [destruct xs; [congruence|discriminate]|].
  rewrite Forall_map. eapply Forall_impl; [|exact H]. cbn beta. intros a [H1 [H2 _]].
  destruct xs as [|s xs]; [congruence|]. cbn [map hd] in *. repeat split; try assumption. right. reflexivity.
Qed.

Section KernelLaws3.
  Variable T : Type.
  Variable zero : T.
  Notation mev := (mov_eval T zero).

  (* operands as (shape, values) pairs *)
  Definition concat_val (rs : list (tshape * list T)) (dim : nat) : list T :=
    let xs := map fst rs in
    mev (concat_fw xs (concat_shape xs dim) dim) (tsize (concat_shape xs dim)) (map snd rs).

  Definition sample_pair (b : nat) (r : tshape * list T) : tshape * list T :=
    (unb (fst r), sample_or_shared (fst r) b (tvolume (fst r)) (snd r)).

  Theorem concat_sample rs dim b :
    Forall twf (map fst rs) -> concat_ok (map fst rs) dim -> b < maxb (map fst rs) ->
    block b (tvolume (concat_shape (map fst rs) dim)) (concat_val rs dim)
    = concat_val (map (sample_pair b) rs) dim.
  Proof.
    intros Hwf [Hne Hok] Hb. unfold concat_val. cbv zeta.
    assert (E1 : map fst (map (sample_pair b) rs) = map unb (map fst rs)) by (rewrite !map_map; reflexivity).
    rewrite E1. set (xs := map fst rs) in *. rewrite (concat_shape_unb xs dim Hne).
    set (sy := concat_shape xs dim). set (s0 := hd dshape xs) in *.
    set (base := tlower s0 dim) in *. set (U := tupper s0 dim) in *.
    set (ny := ProofsGather.sumn (map (adim dim) xs)). set (B := maxb xs) in *.
    assert (Hwf0 : twf s0).
    { unfold s0. destruct xs as [|a xs']; [congruence|]. inversion Hwf; assumption. }
    assert (Hbase : tlower sy dim = base) by apply tlower_set_dim.
    assert (Hny : tget sy dim = ny) by apply tget_set_dim.
    assert (HVy : tvolume sy = base * ny * U)
      by (change (tvolume sy) with (tvolume (set_dim s0 dim ny)); rewrite tvolume_set_dim; fold base U; ring).
    assert (Hb0 : 0 < base) by (apply tlower_pos; exact Hwf0).
    assert (Hn0 : 0 < ny).
    { unfold ny, s0 in *. destruct xs as [|a xs']; [congruence|]. cbn [map hd] in *. rewrite sumn_cons.
      pose proof (tget_pos a dim Hwf0). unfold adim. lia. }
    assert (Hxs : Forall (fun sx => tvolume sx = base * tget sx dim * U /\ (tbatch sx = B \/ tbatch sx = 1)) xs).
    { eapply Forall_impl; [|exact Hok]. cbn beta. intros a [H1 [H2 H3]]. split; [|exact H3].
      rewrite (vol_split a dim), H1, H2. fold base U. ring. }
    assert (Hxs1 : Forall (fun sx => tvolume sx = base * tget sx dim * U /\ (tbatch sx = 1 \/ tbatch sx = 1)) (map unb xs)).
    { rewrite Forall_map. eapply Forall_impl; [|exact Hxs]. cbn beta. intros a [H1 _]. split; [exact H1|left; reflexivity]. }
    assert (Hsum1 : ny = ProofsGather.sumn (map (adim dim) (map unb xs))) by (rewrite sumn_adim_unb; reflexivity).
    pose proof (concat_fw_spec xs sy dim base ny U B Hbase Hny eq_refl HVy eq_refl Hxs Hb0 Hn0) as SP.
    pose proof (concat_fw_spec (map unb xs) (unb sy) dim base ny U 1 Hbase Hny Hsum1 HVy eq_refl Hxs1 Hb0 Hn0) as SP1.
    pose proof (concat_fw_covers xs sy dim base ny U B Hbase Hny eq_refl HVy eq_refl Hxs Hb0 Hn0) as CV.
    pose proof (concat_fw_covers (map unb xs) (unb sy) dim base ny U 1 Hbase Hny Hsum1 HVy eq_refl Hxs1 Hb0 Hn0) as CV1.
    rewrite tsize_unb in *.
    apply (mov_sample T zero _ _ (map snd rs) (map snd (map (sample_pair b) rs))
             (fun k => bsel (nth k xs dshape) b * tvolume (nth k xs dshape)) (tsize sy) (tvolume sy) b).
    - apply (ProofsGather.covers_NoDup _ _ CV).
    - intros i Hi. apply (covers_total _ _ _ CV1 Hi).
    - intros d k s Hin. apply SP1 in Hin.
      destruct Hin as [sx1 [low [j [high [b0 [Hn [Hlo [Hj [Hh [Hb0' [-> ->]]]]]]]]]]].
      replace b0 with 0 by lia. rewrite nth_error_map in Hn.
      destruct (nth_error xs k) as [sx|] eqn:En; cbn [option_map] in Hn; [|discriminate]. injection Hn as <-.
      change (tget (unb sx) dim) with (tget sx dim) in *. change (tbatch (unb sx)) with 1.
      rewrite (nth_error_nth xs k dshape En).
      destruct (proj1 (Forall_forall _ _) Hxs sx (nth_error_In _ _ En)) as [HVk _].
      cbn [bidx Nat.ltb Nat.leb Nat.mul Nat.add]. split.
      + apply SP. exists sx, low, j, high, b. rewrite concat_off_unb, HVy, HVk, bidx_bsel.
        repeat split; try assumption.
      + unfold xs in En. rewrite nth_error_map in En.
        destruct (nth_error rs k) as [r|] eqn:Er; cbn [option_map] in En; [|discriminate]. injection En as <-.
        rewrite (nth_error_nth (map snd (map (sample_pair b) rs)) k []
                   (map_nth_error snd k _ (map_nth_error (sample_pair b) k rs Er))).
        rewrite (nth_error_nth (map snd rs) k [] (map_nth_error snd k rs Er)).
        cbn [sample_pair snd fst]. unfold sample_or_shared. apply nth_block.
        rewrite HVk. apply flat_lt; assumption.
    - rewrite tsize_eq. apply block_le. exact Hb.
  Qed.
End KernelLaws3.

Section KernelLaws4.
  Variable T : Type.
  Variable zero : T.

  (* ------------------------------------------------------------ reductions along an axis *)
  (* sum / max / min / logsumexp (and the value part of argmax): f is the per-group function,
     applied to the axis slice in scan order.  y = x.resize_dim(dim, 1). *)
  Lemma axis_nest_sample (f : list T -> T) base n U B x b : 0 < base -> b < B ->
    block b (base * U) (red_vals T zero f (axis_nest base n (U * B)) x)
    = red_vals T zero f (axis_nest base n U) (block b (base * n * U) x).
  Proof.
    intros Hb0 Hb. unfold red_vals, axis_nest. rewrite !map_map. cbn [snd].
    rewrite block_map_range by (pose proof (block_le b B (base * U) Hb); lia).
    apply map_range_ext. intros i Hi. f_equal.
    destruct (run_split base U i Hb0 Hi) as [low [high [Hl [Hh ->]]]].
    replace (b * (base * U) + (low + base * high)) with (low + base * (high + U * b)) by ring.
    rewrite !(axis_nest_group base n) by exact Hl.
    rewrite <- (gather_vals_shift T zero x (axis_group base n low high) b (base * n * U)).
    - f_equal. unfold axis_group. rewrite map_map. apply map_ext. intro j. apply flat_sample.
    - apply Forall_forall. intros s Hs. unfold axis_group in Hs. apply In_map_range in Hs.
      destruct Hs as [j [Hj ->]]. apply flat_lt; assumption.
  Qed.

  Definition reduce_val (f : list T -> T) (sx : tshape) (dim : nat) (x : list T) : list T :=
    red_vals T zero f (axis_red sx (set_dim sx dim 1) dim) x.

  Lemma reduce_val_length f sx dim x : twf sx -> length (reduce_val f sx dim x) = tsize (set_dim sx dim 1).
  Proof.
    intro Hwf. unfold reduce_val, red_vals, axis_red. rewrite !map_length. unfold range. apply seq_length.
  Qed.

  Theorem reduce_sample f sx dim x b : twf sx -> b < tbatch sx ->
    block b (tvolume (set_dim sx dim 1)) (reduce_val f sx dim x)
    = reduce_val f (unb sx) dim (block b (tvolume sx) x).
  Proof.
    intros Hwf Hb. unfold reduce_val.
    change (set_dim (unb sx) dim 1) with (unb (set_dim sx dim 1)).
    set (sy := set_dim sx dim 1). set (base := tlower sx dim). set (n := tget sx dim). set (U := tupper sx dim).
    assert (Hbase : tlower sy dim = base) by apply tlower_set_dim.
    assert (HVy : tvolume sy = base * U) by (unfold sy; rewrite tvolume_set_dim; fold base U; ring).
    assert (HVx : tvolume sx = base * n * U) by (rewrite (vol_split sx dim); fold base n U; ring).
    assert (Hb0 : 0 < base) by (apply tlower_pos; exact Hwf).
    assert (Hsy : tsize sy = base * (U * tbatch sx)) by (rewrite tsize_eq, HVy; cbn [sy set_dim tbatch]; ring).
    assert (Hsy1 : tsize (unb sy) = base * U) by (rewrite tsize_unb, HVy; ring).
    rewrite (axis_red_nest sx sy dim base n _ Hbase eq_refl Hsy).
    rewrite (axis_red_nest (unb sx) (unb sy) dim base n _ Hbase eq_refl Hsy1).
    rewrite HVy, HVx. apply axis_nest_sample; assumption.
  Qed.

  (* ------------------------------------------------------------ matmul *)
  Variables (add mul : T -> T -> T).
  Notation bval := (bil_val T zero add mul).

  (* the blocked loop nest of one sample, relative to the sample's own buffers *)
  Definition mm_body (d1 d2 d3 : nat) : list (nat * (nat * nat)) :=
    flat_map (fun kb => flat_map (fun ib => flat_map (fun jb =>
      flat_map (fun kk => flat_map (fun ii => map (fun jj =>
        (ii + kk * d1, (ii + jj * d1, jj + kk * d2)))
        (from_to (fst jb) (snd jb))) (from_to (fst ib) (snd ib))) (from_to (fst kb) (snd kb)))
      (blocks d2)) (blocks d1)) (blocks d3).

  (* the batch loop is outermost: sample b runs the same nest, shifted to sample b of y and to
     sample b (or the shared sample) of each operand *)
  Lemma matmul_blocks sa sb sy :
    matmul_contribs sa sb sy
    = flat_map2 (tbatch sy) (fun b =>
        map (shift3 (b * (tget sa 0 * tget sb 1)) (bsel sa b * (tget sa 0 * tget sa 1))
                    (bsel sb b * (tget sa 1 * tget sb 1)))
            (mm_body (tget sa 0) (tget sa 1) (tget sb 1))).
  Proof.
    unfold matmul_contribs, mm_body. apply ProofsGather.flat_map2_ext. intro b.
    rewrite ProofsBilinear.map_flat_map. apply flat_map_ext. intro kb.
    rewrite ProofsBilinear.map_flat_map. apply flat_map_ext. intro ib.
    rewrite ProofsBilinear.map_flat_map. apply flat_map_ext. intro jb.
    rewrite ProofsBilinear.map_flat_map. apply flat_map_ext. intro kk.
    rewrite ProofsBilinear.map_flat_map. apply flat_map_ext. intro ii.
    rewrite map_map. apply map_ext. intro jj. unfold shift3, bsel. cbn [fst snd].
    f_equal; [ring|]. f_equal; ring.
  Qed.

  (* shape_ops::matmul: a = {d1,d2}, b = {d2,d3} matrices, y = {d1,d3}, batch = max *)
  Definition matmul_ok (sa sb : tshape) : Prop :=
    tvolume sa = tget sa 0 * tget sa 1 /\ tvolume sb = tget sb 0 * tget sb 1 /\ tget sa 1 = tget sb 0.
  Definition matmul_shape (sa sb : tshape) : tshape :=
    mkT [tget sa 0; tget sb 1] (Nat.max (tbatch sa) (tbatch sb)).
  Definition matmul_val (sa sb : tshape) (a b : list T) : list T :=
    bval (matmul_contribs sa sb (matmul_shape sa sb)) (tsize (matmul_shape sa sb)) a b.

  Lemma matmul_shape_volume sa sb : tvolume (matmul_shape sa sb) = tget sa 0 * tget sb 1.
  Proof. unfold tvolume, matmul_shape. cbn [tdims fold_right]. ring. Qed.

  Lemma matmul_unb_body sa sb : matmul_ok sa sb ->
    matmul_contribs (unb sa) (unb sb) (unb (matmul_shape sa sb)) = mm_body (tget sa 0) (tget sa 1) (tget sb 1) /\
    Forall (fun e => fst e < tget sa 0 * tget sb 1 /\ fst (snd e) < tvolume sa /\ snd (snd e) < tvolume sb)
           (mm_body (tget sa 0) (tget sa 1) (tget sb 1)).
  Proof.
    intros [Ha [Hb' Hd]].
    assert (E : matmul_contribs (unb sa) (unb sb) (unb (matmul_shape sa sb)) = mm_body (tget sa 0) (tget sa 1) (tget sb 1)).
    { rewrite matmul_blocks. cbn [unb tbatch]. rewrite flat_map2_one.
      change (tget (unb sa)) with (tget sa). change (tget (unb sb)) with (tget sb).
      rewrite !bsel_unb. cbn [Nat.mul]. apply map_shift3_0. }
    split; [exact E|]. rewrite <- E.
    pose proof (matmul_in_bounds (unb sa) (unb sb) (unb (matmul_shape sa sb)) (tget sa 0) (tget sa 1) (tget sb 1) 1
                  eq_refl eq_refl eq_refl eq_refl Ha) as IB.
    rewrite !tsize_unb, matmul_shape_volume in IB. apply IB.
    - change (tvolume (unb sb)) with (tvolume sb). rewrite Hb', Hd. reflexivity.
    - apply matmul_shape_volume.
    - left; reflexivity.
    - left; reflexivity.
  Qed.

  Lemma matmul_val_length sa sb a b : matmul_ok sa sb ->
    length (matmul_val sa sb a b) = tsize (matmul_shape sa sb).
  Proof.
    intro Hok. unfold matmul_val. apply bil_val_length. rewrite matmul_blocks.
    destruct (matmul_unb_body sa sb Hok) as [_ IB]. apply Forall_forall. intros e He.
    apply In_flat_map2 in He. destruct He as [b' [Hb' He]]. apply in_map_iff in He. destruct He as [e1 [<- He1]].
    destruct (proj1 (Forall_forall _ _) IB _ He1) as [L _]. unfold shift3. cbn [fst].
    rewrite tsize_eq, matmul_shape_volume. pose proof (block_le b' _ (tget sa 0 * tget sb 1) Hb'). lia.
  Qed.

  Theorem matmul_sample sa sb a bb b : matmul_ok sa sb -> b < tbatch (matmul_shape sa sb) ->
    block b (tvolume (matmul_shape sa sb)) (matmul_val sa sb a bb)
    = matmul_val (unb sa) (unb sb) (sample_or_shared sa b (tvolume sa) a) (sample_or_shared sb b (tvolume sb) bb).
  Proof.
    intros Hok Hb. destruct (matmul_unb_body sa sb Hok) as [E IB]. destruct Hok as [Ha [Hb' Hd]].
    unfold matmul_val. change (matmul_shape (unb sa) (unb sb)) with (unb (matmul_shape sa sb)).
    rewrite E, tsize_unb. rewrite matmul_blocks, tsize_eq, matmul_shape_volume.
    rewrite (bil_sample T zero add mul); [|eapply Forall_impl; [|exact IB]; cbn beta; tauto|exact Hb].
    replace (tget sa 0 * tget sa 1) with (tvolume sa) by exact Ha.
    replace (tget sa 1 * tget sb 1) with (tvolume sb) by (rewrite Hb', Hd; reflexivity).
    unfold sample_or_shared. apply bil_val_skipn_block.
    eapply Forall_impl; [|exact IB]. cbn beta. tauto.
  Qed.
End KernelLaws4.

Section KernelLaws5.
  Variable T : Type.
  Variable zero : T.
  Variables (add mul : T -> T -> T).
  Notation bval := (bil_val T zero add mul).

  (* ------------------------------------------------------------ conv2d *)
  (* the loop nest of one sample (output channel, column, row; input channel, kernel column, row),
     relative to the sample's own buffers *)
  Definition conv_body (xh xw xc wh ww yh yw yc p0 p1 s0 s1 d0 d1 : nat) : list (nat * (nat * nat)) :=
    flat_map2 yc (fun y_c => flat_map2 yw (fun y_x => flat_map2 yh (fun y_y =>
      flat_map2 xc (fun x_c => flat_map2 ww (fun w_x => flat_map2 wh (fun w_y =>
        if (p0 <=? y_y * s0 + w_y * d0) && (y_y * s0 + w_y * d0 - p0 <? xh) &&
           (p1 <=? y_x * s1 + w_x * d1) && (y_x * s1 + w_x * d1 - p1 <? xw)
        then [((y_c * yw + y_x) * yh + y_y,
               ((x_c * xw + (y_x * s1 + w_x * d1 - p1)) * xh + (y_y * s0 + w_y * d0 - p0),
                ((y_c * xc + x_c) * ww + (ww - 1 - w_x)) * wh + (wh - 1 - w_y)))]
        else [])))))).

  Lemma conv2d_blocks sx sw sy p0 p1 s0 s1 d0 d1 :
    conv2d_triples sx sw sy p0 p1 s0 s1 d0 d1
    = flat_map2 (tbatch sy) (fun bn =>
        map (shift3 (bn * tvolume sy) (bsel sx bn * tvolume sx) (bsel sw bn * tvolume sw))
            (conv_body (tget sx 0) (tget sx 1) (tget sx 2) (tget sw 0) (tget sw 1)
                       (tget sy 0) (tget sy 1) (tget sy 2) p0 p1 s0 s1 d0 d1)).
  Proof.
    unfold conv2d_triples, conv_body. cbv zeta. apply ProofsGather.flat_map2_ext. intro bn.
    rewrite map_flat_map2. apply ProofsGather.flat_map2_ext. intro y_c.
    rewrite map_flat_map2. apply ProofsGather.flat_map2_ext. intro y_x.
    rewrite map_flat_map2. apply ProofsGather.flat_map2_ext. intro y_y.
    rewrite map_flat_map2. apply ProofsGather.flat_map2_ext. intro x_c.
    rewrite map_flat_map2. apply ProofsGather.flat_map2_ext. intro w_x.
    rewrite map_flat_map2. apply ProofsGather.flat_map2_ext. intro w_y.
    destruct ((p0 <=? y_y * s0 + w_y * d0) && (y_y * s0 + w_y * d0 - p0 <? tget sx 0) &&
              (p1 <=? y_x * s1 + w_x * d1) && (y_x * s1 + w_x * d1 - p1 <? tget sx 1)); [|reflexivity].
    cbn [map]. unfold shift3, bsel. cbn [fst snd]. f_equal. f_equal. f_equal; ring.
  Qed.

  (* shape_ops::conv2d: x = {xh,xw,xc}, w = {wh,ww,xc,yc}; the dilated window fits the padded image;
     strides and dilations > 0; y = {(xh+2p0-((wh-1)d0+1))/s0+1, (xw+2p1-((ww-1)d1+1))/s1+1, yc}, batch = max *)
  Definition conv2d_ok (sx sw : tshape) (p0 p1 s0 s1 d0 d1 : nat) : Prop :=
    tvolume sx = tget sx 0 * tget sx 1 * tget sx 2 /\
    tvolume sw = tget sw 0 * tget sw 1 * tget sw 2 * tget sw 3 /\
    tget sx 2 = tget sw 2 /\
    (tget sw 0 - 1) * d0 + 1 <= tget sx 0 + 2 * p0 /\ (tget sw 1 - 1) * d1 + 1 <= tget sx 1 + 2 * p1 /\
    0 < s0 /\ 0 < s1 /\ 0 < d0 /\ 0 < d1.
  Definition conv2d_shape (sx sw : tshape) (p0 p1 s0 s1 d0 d1 : nat) : tshape :=
    mkT [(tget sx 0 + 2 * p0 - ((tget sw 0 - 1) * d0 + 1)) / s0 + 1;
         (tget sx 1 + 2 * p1 - ((tget sw 1 - 1) * d1 + 1)) / s1 + 1;
         tget sw 3] (Nat.max (tbatch sx) (tbatch sw)).
  Definition conv2d_val (sx sw : tshape) (p0 p1 s0 s1 d0 d1 : nat) (x w : list T) : list T :=
    let sy := conv2d_shape sx sw p0 p1 s0 s1 d0 d1 in
    bval (conv2d_triples sx sw sy p0 p1 s0 s1 d0 d1) (tsize sy) x w.

  Lemma conv2d_shape_volume sx sw p0 p1 s0 s1 d0 d1 :
    let sy := conv2d_shape sx sw p0 p1 s0 s1 d0 d1 in tvolume sy = tget sy 0 * tget sy 1 * tget sy 2.
  Proof. cbv zeta. unfold tvolume, tget, conv2d_shape. cbn [tdims fold_right nth]. ring. Qed.

  Lemma conv2d_unb_body sx sw p0 p1 s0 s1 d0 d1 : twf sx -> twf sw -> conv2d_ok sx sw p0 p1 s0 s1 d0 d1 ->
    let sy := conv2d_shape sx sw p0 p1 s0 s1 d0 d1 in
    let body := conv_body (tget sx 0) (tget sx 1) (tget sx 2) (tget sw 0) (tget sw 1)
                          (tget sy 0) (tget sy 1) (tget sy 2) p0 p1 s0 s1 d0 d1 in
    conv2d_triples (unb sx) (unb sw) (unb sy) p0 p1 s0 s1 d0 d1 = body /\
    Forall (fun e => fst e < tvolume sy /\ fst (snd e) < tvolume sx /\ snd (snd e) < tvolume sw) body.
  Proof.
    intros Hwx Hww [Hvx [Hvw [Hc _]]]. cbv zeta.
    set (sy := conv2d_shape sx sw p0 p1 s0 s1 d0 d1).
    assert (E : conv2d_triples (unb sx) (unb sw) (unb sy) p0 p1 s0 s1 d0 d1
                = conv_body (tget sx 0) (tget sx 1) (tget sx 2) (tget sw 0) (tget sw 1)
                            (tget sy 0) (tget sy 1) (tget sy 2) p0 p1 s0 s1 d0 d1).
    { rewrite conv2d_blocks. cbn [unb tbatch]. rewrite flat_map2_one, !bsel_unb. cbn [Nat.mul]. apply map_shift3_0. }
    split; [exact E|]. rewrite <- E.
    pose proof (conv2d_in_bounds (unb sx) (unb sw) (unb sy) _ _ _ _ _ _ _ _ 1 _ _ _ p0 p1 s0 s1 d0 d1
                  eq_refl eq_refl eq_refl eq_refl eq_refl eq_refl eq_refl eq_refl eq_refl eq_refl eq_refl eq_refl
                  (conv2d_shape_volume sx sw p0 p1 s0 s1 d0 d1) Hvx) as IB.
    rewrite !tsize_unb in IB. apply IB.
    - change (tvolume sw = tget sw 0 * tget sw 1 * tget sx 2 * tget sw 3). rewrite Hvw, Hc. reflexivity.
    - apply (tget_pos sw 0 Hww).
    - apply (tget_pos sw 1 Hww).
    - left; reflexivity.
    - left; reflexivity.
  Qed.

  Lemma conv2d_val_length sx sw p0 p1 s0 s1 d0 d1 x w : twf sx -> twf sw -> conv2d_ok sx sw p0 p1 s0 s1 d0 d1 ->
    length (conv2d_val sx sw p0 p1 s0 s1 d0 d1 x w) = tsize (conv2d_shape sx sw p0 p1 s0 s1 d0 d1).
  Proof.
    intros Hwx Hww Hok. unfold conv2d_val. cbv zeta. apply bil_val_length. rewrite conv2d_blocks.
    destruct (conv2d_unb_body sx sw p0 p1 s0 s1 d0 d1 Hwx Hww Hok) as [_ IB]. apply Forall_forall. intros e He.
    apply In_flat_map2 in He. destruct He as [b' [Hb' He]]. apply in_map_iff in He. destruct He as [e1 [<- He1]].
    destruct (proj1 (Forall_forall _ _) IB _ He1) as [L _]. unfold shift3. cbn [fst].
    rewrite tsize_eq. pose proof (block_le b' _ (tvolume (conv2d_shape sx sw p0 p1 s0 s1 d0 d1)) Hb'). lia.
  Qed.

  Theorem conv2d_sample sx sw p0 p1 s0 s1 d0 d1 x w b : twf sx -> twf sw -> conv2d_ok sx sw p0 p1 s0 s1 d0 d1 ->
    b < tbatch (conv2d_shape sx sw p0 p1 s0 s1 d0 d1) ->
    block b (tvolume (conv2d_shape sx sw p0 p1 s0 s1 d0 d1)) (conv2d_val sx sw p0 p1 s0 s1 d0 d1 x w)
    = conv2d_val (unb sx) (unb sw) p0 p1 s0 s1 d0 d1
        (sample_or_shared sx b (tvolume sx) x) (sample_or_shared sw b (tvolume sw) w).
  Proof.
    intros Hwx Hww Hok Hb. destruct (conv2d_unb_body sx sw p0 p1 s0 s1 d0 d1 Hwx Hww Hok) as [E IB].
    unfold conv2d_val. cbv zeta.
    change (conv2d_shape (unb sx) (unb sw) p0 p1 s0 s1 d0 d1) with (unb (conv2d_shape sx sw p0 p1 s0 s1 d0 d1)).
    rewrite E, tsize_unb. rewrite conv2d_blocks, tsize_eq.
    rewrite (bil_sample T zero add mul); [|eapply Forall_impl; [|exact IB]; cbn beta; tauto|exact Hb].
    unfold sample_or_shared. apply bil_val_skipn_block.
    eapply Forall_impl; [|exact IB]. cbn beta. tauto.
  Qed.

  (* ------------------------------------------------------------ pool2d *)
  Lemma pool_window_shift xh xw w0 w1 p0 p1 s0 s1 C b c y_x y_y :
    pool_window xh xw w0 w1 p0 p1 s0 s1 (b * C + c) y_x y_y
    = map (fun s => b * (xh * xw * C) + s) (pool_window xh xw w0 w1 p0 p1 s0 s1 c y_x y_y).
  Proof.
    unfold pool_window. rewrite map_flat_map2. apply ProofsGather.flat_map2_ext. intro w_x.
    destruct ((p1 <=? y_x * s1 + w_x) && (y_x * s1 + w_x - p1 <? xw)); [|reflexivity].
    rewrite map_flat_map2. apply ProofsGather.flat_map2_ext. intro w_y.
    destruct ((p0 <=? y_y * s0 + w_y) && (y_y * s0 + w_y - p0 <? xh)); [|reflexivity].
    cbn [map]. f_equal. ring.
  Qed.

  Lemma pool_window_bound xh xw w0 w1 p0 p1 s0 s1 C c y_x y_y : c < C ->
    Forall (fun s => s < xh * xw * C) (pool_window xh xw w0 w1 p0 p1 s0 s1 c y_x y_y).
  Proof.
    intro Hc. apply Forall_forall. intros s Hs. apply pool_window_In in Hs.
    destruct Hs as [w_x [w_y [_ [_ [_ [H2 [_ [H4 ->]]]]]]]].
    pose proof (idx_lt _ _ _ _ H2 H4) as A. pose proof (block_le c C (xw * xh) Hc). nia.
  Qed.

  (* shape_ops::pool2d: x = {xh,xw,c}; window, stride > 0, window fits the padded image;
     y = {(xh+2p0-w0)/s0+1, (xw+2p1-w1)/s1+1, c}, same batch.  f is applied to the in-image
     candidates of the window in scan order (max_pool2d: maximum, lowest() for an empty window). *)
  Definition pool2d_ok (sx : tshape) (w0 w1 p0 p1 s0 s1 : nat) : Prop :=
    tvolume sx = tget sx 0 * tget sx 1 * tget sx 2 /\
    0 < w0 /\ 0 < w1 /\ 0 < s0 /\ 0 < s1 /\ w0 <= tget sx 0 + 2 * p0 /\ w1 <= tget sx 1 + 2 * p1.
  Definition pool2d_shape (sx : tshape) (w0 w1 p0 p1 s0 s1 : nat) : tshape :=
    mkT [(tget sx 0 + 2 * p0 - w0) / s0 + 1; (tget sx 1 + 2 * p1 - w1) / s1 + 1; tget sx 2] (tbatch sx).
  Definition pool2d_val (f : list T -> T) (sx : tshape) (w0 w1 p0 p1 s0 s1 : nat) (x : list T) : list T :=
    red_vals T zero f (pool2d_red sx (pool2d_shape sx w0 w1 p0 p1 s0 s1) w0 w1 p0 p1 s0 s1) x.

  Lemma pool2d_shape_volume sx w0 w1 p0 p1 s0 s1 :
    let sy := pool2d_shape sx w0 w1 p0 p1 s0 s1 in tvolume sy = tget sy 2 * (tget sy 1 * tget sy 0).
  Proof. cbv zeta. unfold tvolume, tget, pool2d_shape. cbn [tdims fold_right nth]. ring. Qed.

  Lemma pool2d_val_form f sx w0 w1 p0 p1 s0 s1 x : twf sx -> pool2d_ok sx w0 w1 p0 p1 s0 s1 ->
    let sy := pool2d_shape sx w0 w1 p0 p1 s0 s1 in
    pool2d_val f sx w0 w1 p0 p1 s0 s1 x
    = flat_map2 (tbatch sx) (fun b => flat_map2 (tget sx 2) (fun c => flat_map2 (tget sy 1) (fun y_x =>
        map (fun y_y => f (gather_vals T zero x
               (pool_window (tget sx 0) (tget sx 1) w0 w1 p0 p1 s0 s1 (b * tget sx 2 + c) y_x y_y)))
            (range (tget sy 0))))).
  Proof.
    intros Hwf [Hv _]. cbv zeta. unfold pool2d_val.
    rewrite (pool2d_form sx _ (tget sx 0) (tget sx 1) _ _ (tbatch sx * tget sx 2) w0 w1 p0 p1 s0 s1
               eq_refl eq_refl eq_refl eq_refl)
      by (try (apply tget_pos; exact Hwf); rewrite tsize_eq, Hv; ring).
    rewrite flat_map2_mul. unfold red_vals.
    rewrite map_flat_map2. apply ProofsGather.flat_map2_ext. intro b.
    rewrite map_flat_map2. apply ProofsGather.flat_map2_ext. intro c.
    rewrite map_flat_map2. apply ProofsGather.flat_map2_ext. intro y_x.
    rewrite map_map. reflexivity.
  Qed.

  Lemma pool2d_val_length f sx w0 w1 p0 p1 s0 s1 x : twf sx -> pool2d_ok sx w0 w1 p0 p1 s0 s1 ->
    length (pool2d_val f sx w0 w1 p0 p1 s0 s1 x) = tsize (pool2d_shape sx w0 w1 p0 p1 s0 s1).
  Proof.
    intros Hwf Hok. rewrite (pool2d_val_form f sx w0 w1 p0 p1 s0 s1 x Hwf Hok). cbv zeta.
    set (sy := pool2d_shape sx w0 w1 p0 p1 s0 s1).
    rewrite (length_flat_map2 _ (tget sx 2 * (tget sy 1 * tget sy 0))).
    - rewrite tsize_eq. unfold sy. rewrite pool2d_shape_volume. reflexivity.
    - intros b _. apply length_flat_map2. intros c _. apply length_flat_map2. intros y_x _. apply length_map_range.
  Qed.

  Theorem pool2d_sample f sx w0 w1 p0 p1 s0 s1 x b : twf sx -> pool2d_ok sx w0 w1 p0 p1 s0 s1 -> b < tbatch sx ->
    block b (tvolume (pool2d_shape sx w0 w1 p0 p1 s0 s1)) (pool2d_val f sx w0 w1 p0 p1 s0 s1 x)
    = pool2d_val f (unb sx) w0 w1 p0 p1 s0 s1 (block b (tvolume sx) x).
  Proof.
    intros Hwf Hok Hb.
    rewrite (pool2d_val_form f sx w0 w1 p0 p1 s0 s1 x Hwf Hok).
    rewrite (pool2d_val_form f (unb sx) w0 w1 p0 p1 s0 s1 _ (twf_unb _ Hwf) Hok). cbv zeta.
    change (pool2d_shape (unb sx) w0 w1 p0 p1 s0 s1) with (unb (pool2d_shape sx w0 w1 p0 p1 s0 s1)).
    set (sy := pool2d_shape sx w0 w1 p0 p1 s0 s1).
    change (tget (unb sx)) with (tget sx). change (tget (unb sy)) with (tget sy).
    cbn [unb tbatch]. rewrite flat_map2_one.
    set (C := tget sx 2). set (xh := tget sx 0). set (xw := tget sx 1).
    assert (HVy : tvolume sy = C * (tget sy 1 * tget sy 0)) by apply pool2d_shape_volume.
    assert (HVx : tvolume sx = xh * xw * C) by apply Hok.
    rewrite HVy. rewrite (block_flat_map (C * (tget sy 1 * tget sy 0))); [|intro b'|exact Hb].
    2:{ apply length_flat_map2. intros c _. apply length_flat_map2. intros y_x _. apply length_map_range. }
    apply ProofsBilinear.flat_map2_ext. intros c Hc.
    apply ProofsGather.flat_map2_ext. intro y_x. apply map_ext. intro y_y. f_equal.
    cbn [Nat.mul Nat.add]. rewrite pool_window_shift, HVx. apply gather_vals_shift.
    apply pool_window_bound. exact Hc.
  Qed.
End KernelLaws5.
