(* C02, composite functions at TENSOR level.
   A tensor is a shape (Kernels.tshape) plus the flat column-major value list.  Every Device entry
   point used by the composites of primitiv/core/tensor_funcs.cc and primitiv/contrib/functions.h
   is lifted from its index program (Tensor/Kernels.v) to a function on tensors, the composites are
   transcribed as the same compositions the C++ writes (file:line cited at each definition), and
   their coordinate-level documented meaning is proved from the existing kernel theorems
   (axis_red_eval / axis_red_sequential, broadcast_fw_spec / broadcast_fw_covers, pick_fw_spec,
   batch_sum_spec, bprog_eval_block) and the element-level facts of Scalar/Stable.v
   (logsumexp_pairwise_eq for the left fold of the regenerated pairwise update).
   Coordinates: element [low, k, high] of an operand whose axis `dim` has extent n is the flat
   index  flat base n low k high = low + base * (k + n * high),  base = product of the extents
   below dim, high ranging over (extents above dim) x (minibatch).
   Part 1 is generic in the scalar type; Part 2 is over the Coq reals with the regenerated
   elementwise formulas of Gen/ScalarGen.v. *)
From Coq Require Import List Arith Lia Permutation Bool.
From PV Require Import Tensor.Kernels Tensor.Index Tensor.KernelProofs Tensor.ProofsGather
                       Tensor.ProofsPerm Tensor.ProofsBilinear.
Import ListNotations.

(* ================================================================== shapes *)
(* Shape::resize_dim(dim, n) (core/shape.cc, update_dim): axes at or beyond the depth read as 1.
   The dims list is padded with 1s up to dim; trailing 1s are harmless here because the kernels
   see a shape only through tget / tlower / tvolume / tbatch (the C++ keeps dims canonical, C09). *)
Definition tpad (l : list nat) (k : nat) : list nat := l ++ repeat 1 (k - length l).
Definition tset_dim (s : tshape) (d n : nat) : tshape :=
  let l := tpad (tdims s) (S d) in mkT (firstn d l ++ n :: skipn (S d) l) (tbatch s).
(* Shape::resize_batch *)
Definition tset_batch (s : tshape) (b : nat) : tshape := mkT (tdims s) b.

Lemma In_firstn {A} k (l : list A) x : In x (firstn k l) -> In x l.
Proof. intro H. rewrite <- (firstn_skipn k l). apply in_or_app. left. exact H. Qed.
Lemma In_skipn {A} k (l : list A) x : In x (skipn k l) -> In x l.
Proof. intro H. rewrite <- (firstn_skipn k l). apply in_or_app. right. exact H. Qed.

Lemma prodn_ones l : (forall x, In x l -> x = 1) -> prodn l = 1.
Proof.
  induction l as [|a l IH]; intro H; [apply prodn_nil|]. rewrite prodn_cons.
  rewrite (H a (or_introl eq_refl)), IH; [reflexivity|]. intros x Hx. apply H. right. exact Hx.
Qed.

Lemma tpad_length l k : k <= length (tpad l k).
Proof. unfold tpad. rewrite app_length, repeat_length. lia. Qed.

Lemma prodn_firstn_tpad l k d : prodn (firstn d (tpad l k)) = prodn (firstn d l).
Proof.
  unfold tpad. rewrite firstn_app, prodn_app.
  rewrite (prodn_ones (firstn (d - length l) (repeat 1 (k - length l)))); [lia|].
  intros x Hx. apply In_firstn in Hx. apply repeat_spec in Hx. exact Hx.
Qed.

Lemma prodn_skipn_tpad l k d : prodn (skipn d (tpad l k)) = prodn (skipn d l).
Proof.
  unfold tpad. rewrite skipn_app, prodn_app.
  rewrite (prodn_ones (skipn (d - length l) (repeat 1 (k - length l)))); [lia|].
  intros x Hx. apply In_skipn in Hx. apply repeat_spec in Hx. exact Hx.
Qed.

Lemma nth_tpad l k i : nth i (tpad l k) 1 = nth i l 1.
Proof.
  unfold tpad. destruct (Nat.lt_ge_cases i (length l)) as [H|H].
  - apply app_nth1. exact H.
  - rewrite app_nth2 by exact H. rewrite (nth_overflow l) by exact H.
    destruct (Nat.lt_ge_cases (i - length l) (k - length l)) as [H2|H2].
    + apply nth_repeat.
    + apply nth_overflow. rewrite repeat_length. exact H2.
Qed.

Section SetDim.
  Variables (s : tshape) (d n : nat).
  Let l' := tpad (tdims s) (S d).

  Lemma firstn_len : length (firstn d l') = d.
  Proof. apply firstn_length_le. pose proof (tpad_length (tdims s) (S d)). unfold l'. lia. Qed.

  Lemma tset_dim_batch : tbatch (tset_dim s d n) = tbatch s.
  Proof. reflexivity. Qed.

  Lemma tset_dim_lower : tlower (tset_dim s d n) d = tlower s d.
  Proof.
    rewrite !tlower_eq. unfold tset_dim. cbn [tdims]. fold l'.
    rewrite firstn_app, firstn_len, Nat.sub_diag, firstn_O, app_nil_r.
    rewrite firstn_firstn, Nat.min_id. apply prodn_firstn_tpad.
  Qed.

  Lemma tset_dim_get : tget (tset_dim s d n) d = n.
  Proof.
    unfold tget, tset_dim. cbn [tdims]. fold l'.
    rewrite app_nth2 by (rewrite firstn_len; lia). rewrite firstn_len, Nat.sub_diag. reflexivity.
  Qed.

  Lemma tset_dim_upper : tupper (tset_dim s d n) d = tupper s d.
  Proof.
    unfold tupper, tset_dim. cbn [tdims]. fold l'.
    rewrite skipn_app, firstn_len. rewrite skipn_all2 by (rewrite firstn_len; lia).
    replace (S d - d) with 1 by lia.
    change (skipn 1 (n :: skipn (S d) l')) with (skipn (S d) l'). rewrite app_nil_l. apply prodn_skipn_tpad.
  Qed.

  Lemma tset_dim_volume : tvolume (tset_dim s d n) = tlower s d * (n * tupper s d).
  Proof. rewrite (vol_split _ d), tset_dim_lower, tset_dim_get, tset_dim_upper. reflexivity. Qed.

  Lemma tset_dim_wf : twf s -> 0 < n -> twf (tset_dim s d n).
  Proof.
    intros [Hd Hb] Hn. split; [|exact Hb]. unfold tset_dim. cbn [tdims]. fold l'.
    assert (Hl : Forall (fun q => 0 < q) l').
    { unfold l', tpad. apply Forall_app. split; [exact Hd|]. apply Forall_forall.
      intros x Hx. apply repeat_spec in Hx. lia. }
    rewrite Forall_forall in Hl. apply Forall_forall. intros x Hx. apply in_app_or in Hx.
    destruct Hx as [Hx|[<-|Hx]]; [apply Hl; apply (In_firstn _ _ _ Hx)|exact Hn|apply Hl; apply (In_skipn _ _ _ Hx)].
  Qed.
End SetDim.

Lemma tupper_pos s d : twf s -> 0 < tupper s d.
Proof.
  intros [H _]. unfold tupper. apply prodn_pos. apply Forall_forall. intros x Hx.
  rewrite Forall_forall in H. apply H. apply (In_skipn _ _ _ Hx).
Qed.

Lemma tget_pos s d : twf s -> 0 < tget s d.
Proof.
  intros [H _]. unfold tget. destruct (Nat.lt_ge_cases d (length (tdims s))) as [L|L].
  - rewrite Forall_forall in H. apply H. apply nth_In. exact L.
  - rewrite nth_overflow by exact L. lia.
Qed.

(* an axis at or beyond the depth has extent 1, nothing above it, everything below it *)
Lemma beyond_depth s d : tdepth s <= d -> tget s d = 1 /\ tupper s d = 1 /\ tlower s d = tvolume s.
Proof.
  intro H. unfold tdepth in H. split; [|split].
  - unfold tget. apply nth_overflow. exact H.
  - unfold tupper. rewrite skipn_all2 by lia. apply prodn_nil.
  - apply tlower_all. exact H.
Qed.

(* tsize in the (base, n, R) form of the kernel sections: R = (extents above dim) * batch *)
Lemma tsize_split s d : tsize s = tlower s d * tget s d * (tupper s d * tbatch s).
Proof. unfold tsize. rewrite (vol_split s d). ring. Qed.

(* ================================================================== generic list facts *)
(* a keyed list whose keys are 0..m-1 in order: entry d is (d, d-th value) *)
Lemma seq_keys_nth {U} (l : list (nat * U)) m d (dflt : U) :
  map fst l = seq 0 m -> d < m -> In (d, nth d (map snd l) dflt) l.
Proof.
  intros Hs Hd.
  assert (Hlen : length l = m) by (rewrite <- (map_length fst), Hs; apply seq_length).
  assert (E1 : fst (nth d l (0, dflt)) = d).
  { rewrite <- (map_nth fst). cbn [fst]. rewrite Hs. apply seq_nth. exact Hd. }
  assert (E2 : snd (nth d l (0, dflt)) = nth d (map snd l) dflt).
  { rewrite <- (map_nth snd). reflexivity. }
  rewrite <- E2. rewrite <- E1 at 1. rewrite <- surjective_pairing. apply nth_In. lia.
Qed.

Lemma nth_map_range {U} (g : nat -> U) n j dflt : j < n -> nth j (map g (range n)) dflt = g j.
Proof.
  intro Hj. unfold range. rewrite (nth_indep _ dflt (g 0)) by (rewrite map_length, seq_length; exact Hj).
  rewrite (map_nth g (seq 0 n) 0 j). rewrite seq_nth by exact Hj. reflexivity.
Qed.

(* ================================================================== tensors and the lifted kernels *)
Section Ten.
  Variable T : Type.
  Variable zero : T.

  Record tensor := mkTen { tsh : tshape; tdat : list T }.
  Definition ten_ok (x : tensor) : Prop := twf (tsh x) /\ length (tdat x) = tsize (tsh x).
  Definition tnth (x : tensor) (p : nat) : T := nth p (tdat x) zero.

  (* ---- reductions along an axis: Device::sum_fw / logsumexp_fw (core/device.cc:603-615):
          y = new_raw_tensor(x.shape().resize_dim(dim, 1)); <name>_fw_impl(x, dim, y);
          the kernel (devices/naive/ops/sum.cc, logsumexp.cc) applies a per-group function f to the
          values read through the groups of axis_red, in group order ---- *)
  Definition red_vals (f : list T -> T) (p : red) (x : list T) : list T :=
    map (fun e => f (gather_vals T zero x (snd e))) p.
  Definition t_reduce (f : list T -> T) (x : tensor) (dim : nat) : tensor :=
    let sy := tset_dim (tsh x) dim 1 in
    mkTen sy (red_vals f (axis_red (tsh x) sy dim) (tdat x)).

  Lemma red_vals_eval (f : list T -> T) (p : red) x : red_vals f p x = map snd (red_eval T zero f p x).
  Proof. unfold red_vals, red_eval. rewrite map_map. reflexivity. Qed.
  Lemma red_eval_keys (f : list T -> T) (p : red) x : map fst (red_eval T zero f p x) = map fst p.
  Proof. unfold red_eval. rewrite map_map. reflexivity. Qed.

  (* y[low, 0, high] = f (x[low, 0..n-1, high]) *)
  Theorem t_reduce_nth f x dim low high :
    twf (tsh x) -> low < tlower (tsh x) dim -> high < tupper (tsh x) dim * tbatch (tsh x) ->
    tnth (t_reduce f x dim) (flat (tlower (tsh x) dim) 1 low 0 high)
    = f (axis_slice T zero (tdat x) (tlower (tsh x) dim) (tget (tsh x) dim) low high).
  Proof.
    intros Hwf Hl Hh. set (sx := tsh x) in *. set (base := tlower sx dim) in *.
    set (n := tget sx dim). set (Rt := tupper sx dim * tbatch sx) in *.
    set (sy := tset_dim sx dim 1).
    assert (Hbase : tlower sy dim = base) by apply tset_dim_lower.
    assert (Hsy : tsize sy = base * Rt).
    { unfold tsize, sy. rewrite tset_dim_volume, tset_dim_batch. unfold base, Rt. ring. }
    assert (Hb0 : 0 < base) by (apply tlower_pos; exact Hwf).
    assert (Hsx : tsize sx = base * n * Rt) by apply tsize_split.
    pose proof (axis_red_sequential sx sy dim base n Rt Hbase eq_refl Hsy) as Hseq.
    unfold sequential in Hseq.
    assert (Hd : flat base 1 low 0 high < tsize sy).
    { rewrite Hsy. replace (base * Rt) with (base * 1 * Rt) by ring. apply flat_lt; lia. }
    unfold tnth, t_reduce. cbn [tdat]. fold sx sy. rewrite red_vals_eval.
    pose proof (seq_keys_nth (red_eval T zero f (axis_red sx sy dim) (tdat x)) (tsize sy)
                  (flat base 1 low 0 high) zero) as Hin.
    rewrite red_eval_keys in Hin. specialize (Hin Hseq Hd).
    apply (axis_red_eval T zero T f sx sy dim base n Rt (tdat x) _ _ Hbase eq_refl Hsy Hb0) in Hin.
    destruct Hin as [low' [high' [Hl' [Hh' [Ef Ev]]]]].
    apply flat_inj in Ef; try lia. destruct Ef as [-> [_ ->]]. exact Ev.
  Qed.

  Lemma t_reduce_shape f x dim : tsh (t_reduce f x dim) = tset_dim (tsh x) dim 1.
  Proof. reflexivity. Qed.

  Lemma t_reduce_ok f x dim : ten_ok x -> ten_ok (t_reduce f x dim).
  Proof.
    intros [Hwf Hlen]. split; [apply tset_dim_wf; [exact Hwf|lia]|].
    unfold t_reduce, red_vals, axis_red. cbn [tdat tsh]. rewrite !map_length. apply seq_length.
  Qed.

  (* ---- Device::broadcast_fw (core/device.cc:617-623): y = new_raw_tensor(shape_ops::broadcast(
          x.shape(), dim, size)) = x.resize_dim(dim, size) (core/shape_ops.cc:90-97, requires
          x[dim] = 1, size > 0); broadcast_fw_impl writes y[dst] := x[src] for the pairs of
          Kernels.broadcast_fw; every cell of y is written exactly once (broadcast_fw_covers) ---- *)
  Definition t_broadcast (x : tensor) (dim size : nat) : tensor :=
    let sy := tset_dim (tsh x) dim size in
    mkTen sy (gather T zero (broadcast_fw (tsh x) sy dim size) (tsize sy) (tdat x)).

  Lemma nth_gather_lookup fw m dx d : d < m -> nth d (gather T zero fw m dx) zero = lookup T zero fw dx d.
  Proof.
    intro Hd. unfold gather.
    rewrite (nth_indep _ zero (lookup T zero fw dx 0)) by (rewrite map_length, seq_length; exact Hd).
    rewrite (map_nth (lookup T zero fw dx)), seq_nth by exact Hd. reflexivity.
  Qed.

  Lemma lookup_In fw m dx d s : covers fw m -> In (d, (0, s)) fw -> lookup T zero fw dx d = nth s dx zero.
  Proof.
    intros Hc Hin. unfold lookup.
    pose proof (find_unique fw (d, (0, s)) (ProofsGather.covers_NoDup _ _ Hc) Hin) as F.
    cbn [fst] in F. rewrite F. reflexivity.
  Qed.

  (* y[low, j, high] = x[low, 0, high] *)
  Theorem t_broadcast_nth x dim size low j high :
    twf (tsh x) -> tget (tsh x) dim = 1 -> 0 < size ->
    low < tlower (tsh x) dim -> j < size -> high < tupper (tsh x) dim * tbatch (tsh x) ->
    tnth (t_broadcast x dim size) (flat (tlower (tsh x) dim) size low j high)
    = tnth x (flat (tlower (tsh x) dim) 1 low 0 high).
  Proof.
    intros Hwf Hn1 Hs0 Hl Hj Hh. set (sx := tsh x) in *. set (base := tlower sx dim) in *.
    set (Rt := tupper sx dim * tbatch sx) in *. set (sy := tset_dim sx dim size).
    assert (Hbase : tlower sy dim = base) by apply tset_dim_lower.
    assert (Hsy : tsize sy = base * size * Rt).
    { unfold tsize, sy. rewrite tset_dim_volume, tset_dim_batch. unfold base, Rt. ring. }
    assert (Hsx : tsize sx = base * 1 * Rt) by (rewrite (tsize_split sx dim), Hn1; reflexivity).
    assert (Hb0 : 0 < base) by (apply tlower_pos; exact Hwf).
    pose proof (broadcast_fw_covers sx sy dim size base Rt Hbase Hsx Hsy Hb0 Hs0) as Hc.
    unfold tnth, t_broadcast. cbn [tdat]. fold sx sy.
    rewrite nth_gather_lookup by (rewrite Hsy; apply flat_lt; assumption).
    apply (lookup_In _ _ _ _ _ Hc).
    apply (broadcast_fw_spec sx sy dim size base Rt Hbase Hsx Hsy Hb0 Hs0).
    exists low, j, high. auto 10.
  Qed.

  Lemma t_broadcast_ok x dim size : ten_ok x -> 0 < size -> ten_ok (t_broadcast x dim size).
  Proof.
    intros [Hwf Hlen] Hs. split; [apply tset_dim_wf; assumption|].
    unfold t_broadcast, gather. cbn [tdat tsh]. rewrite map_length. apply seq_length.
  Qed.

  (* ---- elementwise unary / constant kernels: DEV_FW_X / DEV_FW_X_CONST (core/device.cc:217-251):
          y has the shape of x; CPUDEV_FW_X / _X_CONST (devices/naive/ops/common.h) run over
          identity_pairs ---- *)
  Definition t_map (f : T -> T) (x : tensor) : tensor :=
    mkTen (tsh x) (un_eval T zero f (tsize (tsh x)) (tdat x)).

  Lemma t_map_dat f x : ten_ok x -> tdat (t_map f x) = map f (tdat x).
  Proof. intros [_ Hlen]. unfold t_map. cbn [tdat]. rewrite <- Hlen. apply un_eval_map. Qed.

  Lemma t_map_ok f x : ten_ok x -> ten_ok (t_map f x).
  Proof.
    intro H. split; [apply H|]. rewrite (t_map_dat f x H), map_length. apply H.
  Qed.

  Theorem t_map_nth f x p : ten_ok x -> p < tsize (tsh x) -> tnth (t_map f x) p = f (tnth x p).
  Proof.
    intros Hok Hp. unfold tnth. rewrite (t_map_dat f x Hok).
    rewrite (nth_indep _ zero (f zero)) by (rewrite map_length; destruct Hok as [_ ->]; exact Hp).
    apply map_nth.
  Qed.

  (* ---- binary arithmetic: functions::subtract / multiply / divide (core/tensor_funcs.cc:67-104)
          dispatch on is_scalar():  a scalar -> <op>_scalar_l_fw(b, a),  b scalar ->
          <op>_scalar_r_fw(a, b),  else <op>_fw(a, b).  Shape::is_scalar() is depth() == 0, which
          for the canonical dims of the C++ means volume 1.
          DEV_FW_AB: y = shape_ops::elementwise(a, b) = a.resize_batch(max);  DEV_FW_X_SCALAR:
          y = shape_ops::scalar_op(x, k) = x.resize_batch(max)  (core/shape_ops.cc:25-41) ---- *)
  Definition is_scalar (s : tshape) : bool := tvolume s =? 1.
  Definition t_ab (op : T -> T -> T) (a b : tensor) : tensor :=
    let sy := tset_batch (tsh a) (Nat.max (tbatch (tsh a)) (tbatch (tsh b))) in
    mkTen sy (ab_eval T zero op (ab_fw (tsh a) (tsh b) sy) (tdat a) (tdat b)).
  Definition t_xk (op : T -> T -> T) (x k : tensor) : tensor :=
    let sy := tset_batch (tsh x) (Nat.max (tbatch (tsh x)) (tbatch (tsh k))) in
    mkTen sy (ab_eval T zero op (scalar_fw (tsh x) (tsh k) sy) (tdat x) (tdat k)).
  Definition t_bin (op : T -> T -> T) (a b : tensor) : tensor :=
    if is_scalar (tsh a) then t_xk (fun x k => op k x) b a
    else if is_scalar (tsh b) then t_xk op a b
    else t_ab op a b.

  Lemma nth_bprog_eval op B V fa fb a bb b i : b < B -> i < V ->
    nth (b * V + i) (ab_eval T zero op (bprog B V fa fb) a bb) zero
    = op (nth (fa b i) a zero) (nth (fb b i) bb zero).
  Proof.
    intros Hb Hi. rewrite <- (nth_block zero b V i) by exact Hi.
    rewrite bprog_eval_block by exact Hb.
    exact (nth_map_range (fun i => op (nth (fa b i) a zero) (nth (fb b i) bb zero)) V i zero Hi).
  Qed.

  (* sample b, element i: op applied to sample b (or the shared sample) of each operand *)
  Theorem t_ab_nth op a b V bb i :
    tvolume (tsh a) = V -> bb < Nat.max (tbatch (tsh a)) (tbatch (tsh b)) -> i < V ->
    tnth (t_ab op a b) (bb * V + i)
    = op (tnth a (bsel (tsh a) bb * V + i)) (tnth b (bsel (tsh b) bb * V + i)).
  Proof.
    intros HV Hb Hi. unfold tnth, t_ab. cbn [tdat].
    rewrite (ab_fw_bprog (tsh a) (tsh b) _ V (Nat.max (tbatch (tsh a)) (tbatch (tsh b)))) by (first [exact HV|reflexivity]).
    apply (nth_bprog_eval op _ V (fun b0 i0 => bsel (tsh a) b0 * V + i0) (fun b0 i0 => bsel (tsh b) b0 * V + i0)); assumption.
  Qed.

  Theorem t_bin_nth op a b V bb i :
    tvolume (tsh a) = V -> tvolume (tsh b) = V ->
    bb < Nat.max (tbatch (tsh a)) (tbatch (tsh b)) -> i < V ->
    tnth (t_bin op a b) (bb * V + i)
    = op (tnth a (bsel (tsh a) bb * V + i)) (tnth b (bsel (tsh b) bb * V + i)).
  Proof.
    intros HVa HVb Hb Hi. unfold t_bin, is_scalar.
    destruct (Nat.eqb_spec (tvolume (tsh a)) 1) as [Ea|Ea]; [|destruct (Nat.eqb_spec (tvolume (tsh b)) 1) as [Eb|Eb]].
    - (* a scalar: CPUDEV_FW_X_SCALAR with x := b, k := a *)
      assert (EV : V = 1) by lia. assert (Ei : i = 0) by lia. rewrite EV, Ei. rewrite EV in HVa, HVb.
      unfold tnth, t_xk. cbn [tdat].
      rewrite (scalar_fw_bprog (tsh b) (tsh a) _ 1 (Nat.max (tbatch (tsh b)) (tbatch (tsh a)))) by (first [exact HVb|reflexivity]).
      rewrite (nth_bprog_eval (fun x k => op k x) _ 1 (fun b0 i0 => bsel (tsh b) b0 * 1 + i0) (fun b0 _ => bsel (tsh a) b0)) by lia.
      f_equal; f_equal; lia.
    - (* b scalar *)
      assert (EV : V = 1) by lia. assert (Ei : i = 0) by lia. rewrite EV, Ei. rewrite EV in HVa, HVb.
      unfold tnth, t_xk. cbn [tdat].
      rewrite (scalar_fw_bprog (tsh a) (tsh b) _ 1 (Nat.max (tbatch (tsh a)) (tbatch (tsh b)))) by (first [exact HVa|reflexivity]).
      rewrite (nth_bprog_eval op _ 1 (fun b0 i0 => bsel (tsh a) b0 * 1 + i0) (fun b0 _ => bsel (tsh b) b0)) by lia.
      f_equal; f_equal; lia.
    - apply t_ab_nth; assumption.
  Qed.

  Lemma t_ab_shape op a b : tsh (t_ab op a b) = tset_batch (tsh a) (Nat.max (tbatch (tsh a)) (tbatch (tsh b))).
  Proof. reflexivity. Qed.

  (* numerically the same output shape in the three branches when the dims agree *)
  Lemma t_bin_shape op a b : tdims (tsh a) = tdims (tsh b) ->
    tsh (t_bin op a b) = tset_batch (tsh a) (Nat.max (tbatch (tsh a)) (tbatch (tsh b))).
  Proof.
    intro Hd. unfold t_bin. destruct (is_scalar (tsh a)); [|destruct (is_scalar (tsh b))]; cbn [t_xk t_ab tsh];
      unfold tset_batch; rewrite ?Hd; try reflexivity. f_equal. apply Nat.max_comm.
  Qed.

  Lemma t_bin_length op a b :
    length (tdat (t_bin op a b)) = Nat.max (tbatch (tsh a)) (tbatch (tsh b)) *
      (if is_scalar (tsh a) then tvolume (tsh b) else tvolume (tsh a)).
  Proof.
    unfold t_bin. destruct (is_scalar (tsh a)); [|destruct (is_scalar (tsh b))]; cbn [t_xk t_ab tdat];
      rewrite ab_eval_length.
    - rewrite (scalar_fw_bprog _ _ _ (tvolume (tsh b)) (Nat.max (tbatch (tsh b)) (tbatch (tsh a)))) by reflexivity.
      rewrite bprog_length. f_equal. apply Nat.max_comm.
    - rewrite (scalar_fw_bprog _ _ _ (tvolume (tsh a)) (Nat.max (tbatch (tsh a)) (tbatch (tsh b)))) by reflexivity.
      apply bprog_length.
    - rewrite (ab_fw_bprog _ _ _ (tvolume (tsh a)) (Nat.max (tbatch (tsh a)) (tbatch (tsh b)))) by reflexivity.
      apply bprog_length.
  Qed.

  (* operands of one volume and one batch size: plain coordinatewise op *)
  Lemma same_batch_index sa sb V p :
    0 < V -> tbatch sb = tbatch sa -> p < tbatch sa * V ->
    exists bb i, bb < tbatch sa /\ i < V /\ p = bb * V + i /\
      bsel sa bb * V + i = p /\ bsel sb bb * V + i = p.
  Proof.
    intros HV0 Hb Hp. destruct (sample_split V (tbatch sa) p HV0 Hp) as [bb [i [Hbb [Hi ->]]]].
    exists bb, i. repeat (split; [assumption || reflexivity|]).
    assert (E : forall s, tbatch s = tbatch sa -> bsel s bb * V + i = bb * V + i).
    { intros s Hs. destruct (bsel_cases s bb) as [[H1 H2]|[[H1 H2]|[H1 H2]]]; rewrite H2; try reflexivity; lia. }
    split; [apply E; reflexivity|apply E; exact Hb].
  Qed.

  Corollary t_bin_same op a b p :
    tvolume (tsh b) = tvolume (tsh a) -> tbatch (tsh b) = tbatch (tsh a) -> 0 < tvolume (tsh a) ->
    p < tsize (tsh a) -> tnth (t_bin op a b) p = op (tnth a p) (tnth b p).
  Proof.
    intros HVb Hb HV0 Hp. unfold tsize in Hp.
    destruct (same_batch_index (tsh a) (tsh b) _ p HV0 Hb Hp) as [bb [i [Hbb [Hi [E [Ea Eb]]]]]].
    rewrite E at 1. rewrite (t_bin_nth op a b _ bb i eq_refl HVb) by (try rewrite Hb, Nat.max_id; assumption).
    rewrite Ea, Eb. reflexivity.
  Qed.

  Corollary t_ab_same op a b p :
    tvolume (tsh b) = tvolume (tsh a) -> tbatch (tsh b) = tbatch (tsh a) -> 0 < tvolume (tsh a) ->
    p < tsize (tsh a) -> tnth (t_ab op a b) p = op (tnth a p) (tnth b p).
  Proof.
    intros HVb Hb HV0 Hp. unfold tsize in Hp.
    destruct (same_batch_index (tsh a) (tsh b) _ p HV0 Hb Hp) as [bb [i [Hbb [Hi [E [Ea Eb]]]]]].
    rewrite E at 1. rewrite (t_ab_nth op a b _ bb i eq_refl) by (try rewrite Hb, Nat.max_id; assumption).
    rewrite Ea, Eb. reflexivity.
  Qed.

  (* shape bookkeeping of the binary front ends *)
  Lemma t_bin_batch op a b : tbatch (tsh (t_bin op a b)) = Nat.max (tbatch (tsh a)) (tbatch (tsh b)).
  Proof.
    unfold t_bin. destruct (is_scalar (tsh a)); [|destruct (is_scalar (tsh b))]; cbn [t_xk t_ab tsh tset_batch tbatch];
      try reflexivity. apply Nat.max_comm.
  Qed.

  (* the result carries the dims of one of the operands (the non-scalar one) *)
  Lemma t_bin_dims op a b : tdims (tsh (t_bin op a b)) = tdims (tsh a) \/ tdims (tsh (t_bin op a b)) = tdims (tsh b).
  Proof.
    unfold t_bin. destruct (is_scalar (tsh a)); [right|left; destruct (is_scalar (tsh b))]; reflexivity.
  Qed.

  Lemma t_bin_ok op a b : twf (tsh a) -> twf (tsh b) -> tvolume (tsh b) = tvolume (tsh a) ->
    ten_ok (t_bin op a b).
  Proof.
    intros [Hda Hba] [Hdb Hbb] HV. split.
    - split; [destruct (t_bin_dims op a b) as [->| ->]; assumption|rewrite t_bin_batch; lia].
    - rewrite t_bin_length. unfold tsize. rewrite t_bin_batch. f_equal.
      unfold tvolume at 3. destruct (t_bin_dims op a b) as [E|E]; rewrite E; fold (tvolume (tsh a)); fold (tvolume (tsh b));
        destruct (is_scalar (tsh a)); congruence.
  Qed.

  Lemma t_ab_ok op a b : twf (tsh a) -> 0 < tbatch (tsh b) -> ten_ok (t_ab op a b).
  Proof.
    intros [Hda Hba] Hbb. split; [split; [exact Hda|cbn; lia]|].
    unfold t_ab. cbn [tdat tsh]. rewrite ab_eval_length.
    rewrite (ab_fw_bprog _ _ _ (tvolume (tsh a)) (Nat.max (tbatch (tsh a)) (tbatch (tsh b)))) by reflexivity.
    rewrite bprog_length. reflexivity.
  Qed.

  (* ---- Device::pick_fw (core/device.cc:154-160): y = new_raw_tensor(shape_ops::pick(x.shape(), ids,
          dim)) = x.resize_dim(dim, 1) with batch max(x.batch(), ids.size()) (shape_ops.cc:99-119) ---- *)
  Definition t_pick (x : tensor) (ids : list nat) (dim : nat) : tensor :=
    let sy := tset_batch (tset_dim (tsh x) dim 1) (Nat.max (tbatch (tsh x)) (length ids)) in
    mkTen sy (gather T zero (pick_fw (tsh x) sy ids dim) (tsize sy) (tdat x)).

  (* sample b of y at [low, 0, hi] = sample b (or the shared one) of x at [low, ids[b or 0], hi] *)
  Theorem t_pick_nth x ids dim b low hi :
    let sx := tsh x in let base := tlower sx dim in let n := tget sx dim in let U := tupper sx dim in
    let B := Nat.max (tbatch sx) (length ids) in
    twf sx -> (tbatch sx = B \/ tbatch sx = 1) -> (length ids = B \/ length ids = 1) ->
    (forall q, q < length ids -> nth q ids 0 < n) ->
    b < B -> low < base -> hi < U ->
    tnth (t_pick x ids dim) (b * (base * 1 * U) + flat base 1 low 0 hi)
    = tnth x (bidx (tbatch sx) b * (base * n * U) + flat base n low (nth (bidx (length ids) b) ids 0) hi).
  Proof.
    intros sx base n U B Hwf Hbc Hic Hids Hb Hl Hh.
    set (sy := tset_batch (tset_dim sx dim 1) B).
    assert (Hbase : tlower sy dim = base) by (unfold sy; apply (tset_dim_lower sx dim 1)).
    assert (Hvy : tvolume sy = base * 1 * U).
    { unfold sy. change (tvolume (tset_batch ?s _)) with (tvolume s). rewrite tset_dim_volume. fold base U. ring. }
    assert (Hvx : tvolume sx = base * n * U) by (rewrite (vol_split sx dim); fold base n U; ring).
    assert (Hb0 : 0 < base) by (apply tlower_pos; exact Hwf).
    pose proof (pick_fw_sequential sx sy ids dim base n U B (tbatch sx) Hbase eq_refl Hvy Hvx eq_refl eq_refl Hbc Hic Hids Hb0) as Hseq.
    unfold tnth, t_pick. cbn [tdat]. fold sx B sy.
    assert (Hd : b * (base * 1 * U) + flat base 1 low 0 hi < tsize sy).
    { unfold tsize. rewrite Hvy. change (tbatch sy) with B. apply sample_lt; [exact Hb|].
      apply flat_lt; lia. }
    rewrite nth_gather_lookup by exact Hd.
    apply (lookup_In _ (tsize sy)); [apply sequential_covers; exact Hseq|].
    apply (pick_fw_spec sx sy ids dim base n U B (tbatch sx) Hbase eq_refl Hvy Hvx eq_refl eq_refl Hbc Hic Hids Hb0).
    exists low, hi, b. auto 10.
  Qed.

  (* ---- Device::batch_sum_fw (core/device.cc:656-661): y = new_raw_tensor(x.shape().resize_batch(1));
          devices/naive/ops/batch_sum.cc folds x[i + b * size], b = 0..bs-1, in that order ---- *)
  Definition t_batch_red (f : list T -> T) (x : tensor) : tensor :=
    let sy := tset_batch (tsh x) 1 in
    mkTen sy (red_vals f (batch_sum_red (tsh x) sy) (tdat x)).

  Theorem t_batch_red_nth f x i : i < tvolume (tsh x) ->
    tnth (t_batch_red f x) i
    = f (map (fun b => tnth x (b * tvolume (tsh x) + i)) (range (tbatch (tsh x)))).
  Proof.
    intro Hi. set (sx := tsh x). set (V := tvolume sx) in *. set (sy := tset_batch sx 1).
    assert (Hsy : tsize sy = V) by (unfold tsize; change (tvolume sy) with V; change (tbatch sy) with 1; lia).
    assert (Hsx : tsize sx = V * tbatch sx) by (unfold tsize; fold V; ring).
    pose proof (batch_sum_sequential sx sy (tbatch sx) V eq_refl Hsy) as Hseq. unfold sequential in Hseq.
    unfold tnth, t_batch_red. cbn [tdat]. fold sx sy. rewrite red_vals_eval.
    pose proof (seq_keys_nth (red_eval T zero f (batch_sum_red sx sy) (tdat x)) (tsize sy) i zero) as Hin.
    rewrite red_eval_keys in Hin. rewrite Hsy in Hin at 2. specialize (Hin Hseq Hi).
    set (v := nth i (map snd (red_eval T zero f (batch_sum_red sx sy) (tdat x))) zero) in *.
    unfold red_eval in Hin. apply in_map_iff in Hin. destruct Hin as [[d g] [E Hin]].
    cbn [fst snd] in E. injection E as Ed Ev. subst d.
    apply (batch_sum_spec sx sy (tbatch sx) V eq_refl Hsy) in Hin. destruct Hin as [_ ->].
    rewrite <- Ev. f_equal. unfold gather_vals, batch_group. rewrite map_map. apply map_ext.
    intro b. unfold flat. f_equal. ring.
  Qed.

  Lemma t_batch_red_ok f x : ten_ok x -> ten_ok (t_batch_red f x).
  Proof.
    intros [[Hd Hb] Hlen]. split; [split; [exact Hd|cbn; lia]|].
    unfold t_batch_red, red_vals, batch_sum_red. cbn [tdat tsh]. rewrite !map_length. apply seq_length.
  Qed.
End Ten.

Arguments tsh {T} _.
Arguments tdat {T} _.
Arguments mkTen {T} _ _.

(* ================================================================== Part 2: over the reals *)
From Coq Require Import Reals Lra.
From PV Require Import Scalar.ScalarBase Gen.ScalarGen Scalar.Stable Scalar.FwSpec.

Notation rten := (tensor R).
Notation rnth := (tnth R 0%R).
Notation rok := (ten_ok R).

(* sum_{j<n} g j *)
Definition asum (g : nat -> R) (n : nat) : R := sum_list (map g (range n)).

Lemma asum_ext g h n : (forall j, j < n -> g j = h j) -> asum g n = asum h n.
Proof.
  intro H. unfold asum. f_equal. apply map_ext_in. intros j Hj. apply H.
  unfold range in Hj. apply in_seq in Hj. lia.
Qed.

Lemma sum_list_map_divn (l : list nat) (g : nat -> R) (d : R) :
  sum_list (map (fun k => (g k / d)%R) l) = (sum_list (map g l) / d)%R.
Proof. induction l as [|a l IH]; cbn [map sum_list fold_right]; [unfold Rdiv; ring|]. fold (sum_list (map (fun k => (g k / d)%R) l)). fold (sum_list (map g l)). rewrite IH. unfold Rdiv. ring. Qed.

Lemma asum_div g d n : asum (fun k => (g k / d)%R) n = (asum g n / d)%R.
Proof. apply sum_list_map_divn. Qed.

Lemma asum_1 g : asum g 1 = g 0.
Proof. unfold asum, range. cbn [seq map sum_list fold_right]. ring. Qed.

(* sum.cc / batch_sum.cc: tmp = 0; tmp += src[...] in scan order  (= fold_red R 0 Rplus) *)
Definition rsum (l : list R) : R := fold_left Rplus l 0%R.

Lemma rsum_sum_list l : rsum l = sum_list l.
Proof.
  unfold rsum, sum_list. apply fold_symmetric; intros; ring.
Qed.

Lemma sum_exp_map (g : nat -> R) l : sum_exp (map g l) = sum_list (map (fun j => exp (g j)) l).
Proof. rewrite <- sum_list_exp, map_map. reflexivity. Qed.

(* ---- coordinates of a real tensor along an axis ---- *)
Definition abase (x : rten) (dim : nat) : nat := tlower (tsh x) dim.
Definition aext (x : rten) (dim : nat) : nat := tget (tsh x) dim.
Definition aupper (x : rten) (dim : nat) : nat := tupper (tsh x) dim.
Definition ahigh (x : rten) (dim : nat) : nat := tupper (tsh x) dim * tbatch (tsh x).
(* x[low, k, high] *)
Definition at3 (x : rten) (dim low k high : nat) : R := rnth x (flat (abase x dim) (aext x dim) low k high).
(* sum_j exp x[low, j, high] *)
Definition sumexp_axis (x : rten) (dim low high : nat) : R :=
  asum (fun j => exp (at3 x dim low j high)) (aext x dim).

Lemma axis_slice_at3 x dim low high :
  axis_slice R 0%R (tdat x) (abase x dim) (aext x dim) low high = map (fun j => at3 x dim low j high) (range (aext x dim)).
Proof. reflexivity. Qed.

Lemma aext_pos x dim : rok x -> 0 < aext x dim.
Proof. intros [H _]. apply tget_pos. exact H. Qed.
Lemma abase_pos x dim : rok x -> 0 < abase x dim.
Proof. intros [H _]. apply tlower_pos. exact H. Qed.

Lemma at3_lt x dim low k high : low < abase x dim -> k < aext x dim -> high < ahigh x dim ->
  flat (abase x dim) (aext x dim) low k high < tsize (tsh x).
Proof. intros. rewrite (tsize_split (tsh x) dim). apply flat_lt; assumption. Qed.

Lemma sumexp_axis_pos x dim low high : rok x -> (0 < sumexp_axis x dim low high)%R.
Proof.
  intro Hok. unfold sumexp_axis, asum. rewrite <- sum_exp_map. apply sum_exp_pos.
  pose proof (aext_pos x dim Hok) as Hn. unfold range. destruct (aext x dim); [lia|]. discriminate.
Qed.

(* ================================================================== the composites, transcribed *)
(* core/tensor_funcs.cc:296-298  sum(x, dim) = x.device().sum_fw(x, dim) *)
Definition t_sum (x : rten) (dim : nat) : rten := t_reduce R 0%R rsum x dim.
(* core/tensor_funcs.cc:306-308  logsumexp(x, dim) = x.device().logsumexp_fw(x, dim);
   devices/naive/ops/logsumexp.cc:21-29 is Stable.lse_fold over the regenerated pairwise update *)
Definition t_logsumexp (x : rten) (dim : nat) : rten := t_reduce R 0%R lse_fold x dim.
(* core/tensor_funcs.cc:311-313  log_softmax(x, dim) = x - broadcast(logsumexp(x, dim), dim, x.shape()[dim]) *)
Definition t_log_softmax (x : rten) (dim : nat) : rten :=
  t_bin R 0%R fw_subtract x (t_broadcast R 0%R (t_logsumexp x dim) dim (tget (tsh x) dim)).
(* core/tensor_funcs.cc:316-318  softmax(x, dim) = exp(log_softmax(x, dim)) *)
Definition t_softmax (x : rten) (dim : nat) : rten := t_map R 0%R fw_exp (t_log_softmax x dim).
(* core/tensor_funcs.cc:321-325  softmax_cross_entropy(x, t, dim) =
   -sum(t.device().multiply_fw(t, log_softmax(x, dim)), dim)     (elementwise product, no scalar dispatch) *)
Definition t_sce (x t : rten) (dim : nat) : rten :=
  t_map R 0%R fw_negate (t_sum (t_ab R 0%R fw_multiply t (t_log_softmax x dim)) dim).
(* core/tensor_funcs.cc:328-331  softmax_cross_entropy(x, ids, dim) = pick(-log_softmax(x, dim), ids, dim) *)
Definition t_sce_sparse (x : rten) (ids : list nat) (dim : nat) : rten :=
  t_pick R 0%R (t_map R 0%R fw_negate (t_log_softmax x dim)) ids dim.
(* contrib/functions.h:76-79  mean(x, dim) = sum(x, dim) / x.shape()[dim]   (operator/(Var, float) ->
   divide_const_r_fw; the uint32 extent is converted to float) *)
Definition t_mean (x : rten) (dim : nat) : rten :=
  t_map R 0%R (fun v => fw_divide_const_r v (INR (tget (tsh x) dim))) (t_sum x dim).
(* core/tensor_funcs.cc:399-402  batch::sum(x) = batch_sum_fw(x);
   contrib/functions.h:114-117   batch::mean(x) = sum(x) / x.shape().batch() *)
Definition t_batch_sum (x : rten) : rten := t_batch_red R 0%R rsum x.
Definition t_batch_mean (x : rten) : rten :=
  t_map R 0%R (fun v => fw_divide_const_r v (INR (tbatch (tsh x)))) (t_batch_sum x).
(* contrib/functions.h:133-141  batch::normalize(x):
     if (!x.shape().has_batch()) return x;
     b = x.shape().batch();  scale = b / (b - 1.);
     m = mean(x);  v = scale * (mean(x * x) - m * m);
     return (x - m) / sqrt(v + 1e-8);
   eps stands for the float nearest to 1e-8 *)
Definition t_batch_normalize (eps : R) (x : rten) : rten :=
  if thas_batch (tsh x) =? 0 then x else
  let b := INR (tbatch (tsh x)) in
  let scale := (b / (b - 1))%R in
  let m := t_batch_mean x in
  let v := t_map R 0%R (fun u => fw_multiply_const u scale)
             (t_bin R 0%R fw_subtract (t_batch_mean (t_bin R 0%R fw_multiply x x)) (t_bin R 0%R fw_multiply m m)) in
  t_bin R 0%R fw_divide (t_bin R 0%R fw_subtract x m)
        (t_map R 0%R fw_sqrt (t_map R 0%R (fun u => fw_add_const u eps) v)).
(* contrib/functions.h:26-32  selu(x, a, s) = s * elu(x, a)    (operator*(float, Var) -> multiply_const_fw) *)
Definition t_selu (x : rten) (a s : R) : rten :=
  t_map R 0%R (fun v => fw_multiply_const v s) (t_map R 0%R (fun v => fw_elu v a) x).
(* contrib/functions.h:297-304  dropout(x, rate, enabled):
     if (!enabled) return x;  if (rate == 1.) return 0. * x;
     p = 1. - rate;  return (1. / p) * x * random::bernoulli<Var>(x.shape(), p, x.device());
   `mask` is the tensor random::bernoulli returned *)
Definition t_dropout (x : rten) (rate : R) (enabled : bool) (mask : rten) : rten :=
  if negb enabled then x
  else if Req_EM_T rate 1 then t_map R 0%R (fun v => fw_multiply_const v 0) x
  else t_bin R 0%R fw_multiply (t_map R 0%R (fun v => fw_multiply_const v (1 / (1 - rate))) x) mask.

(* ================================================================== documented meaning *)
Section Axis.
  Variables (x : rten) (dim : nat).
  Hypothesis Hok : rok x.
  Variables (low high : nat).
  Hypothesis Hl : low < abase x dim.
  Hypothesis Hh : high < ahigh x dim.

  (* logsumexp(x)[low, 0, high] = ln (sum_j exp x[low, j, high]) *)
  Theorem t_logsumexp_spec :
    rnth (t_logsumexp x dim) (flat (abase x dim) 1 low 0 high) = ln (sumexp_axis x dim low high).
  Proof.
    unfold t_logsumexp, abase. rewrite (t_reduce_nth R 0%R lse_fold x dim low high (proj1 Hok) Hl Hh).
    fold (abase x dim) (aext x dim). rewrite axis_slice_at3.
    rewrite logsumexp_pairwise_eq.
    - rewrite sum_exp_map. reflexivity.
    - pose proof (aext_pos x dim Hok) as Hn. unfold range. destruct (aext x dim); [lia|]. discriminate.
  Qed.

  (* sum(x)[low, 0, high] = sum_j x[low, j, high] *)
  Theorem t_sum_spec :
    rnth (t_sum x dim) (flat (abase x dim) 1 low 0 high) = asum (fun j => at3 x dim low j high) (aext x dim).
  Proof.
    unfold t_sum, abase. rewrite (t_reduce_nth R 0%R rsum x dim low high (proj1 Hok) Hl Hh).
    fold (abase x dim) (aext x dim). rewrite axis_slice_at3, rsum_sum_list. reflexivity.
  Qed.

  (* mean(x, dim)[low, 0, high] = (sum_j x[low, j, high]) / n,  n = x.shape()[dim] *)
  Theorem t_mean_spec :
    rnth (t_mean x dim) (flat (abase x dim) 1 low 0 high)
    = (asum (fun j => at3 x dim low j high) (aext x dim) / INR (aext x dim))%R.
  Proof.
    unfold t_mean. rewrite t_map_nth.
    - rewrite t_sum_spec. reflexivity.
    - apply t_reduce_ok. exact Hok.
    - unfold t_sum. rewrite t_reduce_shape. unfold tsize. rewrite tset_dim_volume, tset_dim_batch.
      fold (abase x dim). replace (tbatch (tsh x) * (abase x dim * (1 * tupper (tsh x) dim)))
        with (abase x dim * 1 * ahigh x dim) by (unfold ahigh; ring).
      apply flat_lt; [exact Hl|lia|exact Hh].
  Qed.

  (* the broadcast logsumexp, at every k *)
  Lemma bc_lse_nth k : k < aext x dim ->
    rnth (t_broadcast R 0%R (t_logsumexp x dim) dim (aext x dim)) (flat (abase x dim) (aext x dim) low k high)
    = ln (sumexp_axis x dim low high).
  Proof.
    intro Hk. set (y := t_logsumexp x dim).
    assert (Ey : tsh y = tset_dim (tsh x) dim 1) by reflexivity.
    pose proof (t_broadcast_nth R 0%R y dim (aext x dim) low k high) as H.
    rewrite Ey, tset_dim_lower, tset_dim_get, tset_dim_upper, tset_dim_batch in H.
    fold (abase x dim) in H. rewrite H.
    - apply t_logsumexp_spec.
    - apply tset_dim_wf; [apply Hok|lia].
    - reflexivity.
    - apply aext_pos. exact Hok.
    - exact Hl.
    - exact Hk.
    - exact Hh.
  Qed.

End Axis.

Lemma bc_lse_shape x dim : rok x ->
    let bc := t_broadcast R 0%R (t_logsumexp x dim) dim (aext x dim) in
    tvolume (tsh bc) = tvolume (tsh x) /\ tbatch (tsh bc) = tbatch (tsh x) /\ twf (tsh bc) /\
    tlower (tsh bc) dim = abase x dim /\ tget (tsh bc) dim = aext x dim /\ tupper (tsh bc) dim = aupper x dim.
Proof.
    intro Hok. cbv zeta. unfold t_broadcast, t_logsumexp. cbn [tsh]. rewrite t_reduce_shape.
    rewrite tset_dim_volume, !tset_dim_lower, !tset_dim_upper, !tset_dim_batch, tset_dim_get.
    split; [rewrite (vol_split (tsh x) dim); reflexivity|]. split; [reflexivity|].
    split; [apply tset_dim_wf; [apply tset_dim_wf; [apply Hok|lia]|apply aext_pos; exact Hok]|]. auto.
  Qed.

Lemma tvolume_pos s : twf s -> 0 < tvolume s.
Proof. intros [H _]. rewrite tvolume_eq. apply prodn_pos. exact H. Qed.

(* shape facts of log_softmax(x, dim): numerically the shape of x *)
Lemma t_log_softmax_shape x dim : rok x ->
  let y := t_log_softmax x dim in
  rok y /\ tvolume (tsh y) = tvolume (tsh x) /\ tbatch (tsh y) = tbatch (tsh x) /\
  tlower (tsh y) dim = abase x dim /\ tget (tsh y) dim = aext x dim /\ tupper (tsh y) dim = aupper x dim.
Proof.
  intro Hok. cbv zeta. destruct (bc_lse_shape x dim Hok) as [HV [HB [Hwf [H1 [H2 H3]]]]].
  unfold t_log_softmax. fold (aext x dim).
  set (bc := t_broadcast R 0%R (t_logsumexp x dim) dim (aext x dim)) in *.
  split; [apply t_bin_ok; [apply Hok|exact Hwf|exact HV]|].
  assert (Hb : tbatch (tsh (t_bin R 0%R fw_subtract x bc)) = tbatch (tsh x)) by (rewrite t_bin_batch, HB; apply Nat.max_id).
  destruct (t_bin_dims R 0%R fw_subtract x bc) as [E|E].
  - unfold tvolume, tlower, tget, tupper, abase, aext, aupper. rewrite E. auto 10.
  - unfold tvolume, tlower, tget, tupper. rewrite E.
    fold (tvolume (tsh bc)) (tlower (tsh bc) dim) (tget (tsh bc) dim) (tupper (tsh bc) dim). auto 10.
Qed.

Section Softmax.
  Variables (x : rten) (dim : nat).
  Hypothesis Hok : rok x.
  Variables (low high : nat).
  Hypothesis Hl : low < abase x dim.
  Hypothesis Hh : high < ahigh x dim.

  (* log_softmax(x)[low, k, high] = x[low, k, high] - ln (sum_j exp x[low, j, high]) *)
  Theorem t_log_softmax_spec k : k < aext x dim ->
    rnth (t_log_softmax x dim) (flat (abase x dim) (aext x dim) low k high)
    = (at3 x dim low k high - ln (sumexp_axis x dim low high))%R.
  Proof.
    intro Hk. destruct (bc_lse_shape x dim Hok) as [HV [HB [Hwf _]]].
    unfold t_log_softmax. fold (aext x dim).
    rewrite t_bin_same; [|exact HV|exact HB|apply tvolume_pos; apply Hok|apply at3_lt; assumption].
    rewrite (bc_lse_nth x dim Hok low high Hl Hh k Hk). reflexivity.
  Qed.

  (* softmax(x)[low, k, high] = exp x[low, k, high] / sum_j exp x[low, j, high] *)
  Theorem t_softmax_spec k : k < aext x dim ->
    rnth (t_softmax x dim) (flat (abase x dim) (aext x dim) low k high)
    = (exp (at3 x dim low k high) / sumexp_axis x dim low high)%R.
  Proof.
    intro Hk. destruct (t_log_softmax_shape x dim Hok) as [Hoky [HV [HB _]]].
    unfold t_softmax. rewrite t_map_nth; [|exact Hoky|].
    - rewrite (t_log_softmax_spec k Hk). unfold fw_exp, Rminus.
      rewrite exp_plus, exp_Ropp, exp_ln by (apply sumexp_axis_pos; exact Hok). reflexivity.
    - unfold tsize. rewrite HV, HB. apply at3_lt; assumption.
  Qed.

  (* ... and sums to 1 along the axis *)
  Theorem t_softmax_sums_to_one :
    asum (fun k => rnth (t_softmax x dim) (flat (abase x dim) (aext x dim) low k high)) (aext x dim) = 1%R.
  Proof.
    rewrite (asum_ext _ (fun k => (exp (at3 x dim low k high) / sumexp_axis x dim low high)%R))
      by (intros k Hk; apply t_softmax_spec; exact Hk).
    rewrite asum_div. fold (sumexp_axis x dim low high).
    pose proof (sumexp_axis_pos x dim low high Hok). field. lra.
  Qed.

  (* dense targets of the shape of x:
     softmax_cross_entropy(x, t)[low, 0, high] = - sum_k t[low, k, high] * log_softmax(x)[low, k, high] *)
  Theorem t_sce_spec t : rok t -> tsh t = tsh x ->
    rnth (t_sce x t dim) (flat (abase x dim) 1 low 0 high)
    = (- asum (fun k => at3 t dim low k high * (at3 x dim low k high - ln (sumexp_axis x dim low high))) (aext x dim))%R.
  Proof.
    intros Hokt Est. destruct (t_log_softmax_shape x dim Hok) as [Hoky [HV [HB _]]].
    set (ls := t_log_softmax x dim) in *. set (m := t_ab R 0%R fw_multiply t ls).
    assert (Hokm : rok m) by (apply t_ab_ok; [apply Hokt|rewrite HB; apply Hok]).
    assert (Esm : tsh m = tset_batch (tsh x) (tbatch (tsh x))).
    { unfold m. rewrite t_ab_shape, Est, HB, Nat.max_id. reflexivity. }
    assert (Eb : abase m dim = abase x dim) by (unfold abase; rewrite Esm; reflexivity).
    assert (En : aext m dim = aext x dim) by (unfold aext; rewrite Esm; reflexivity).
    assert (Eh : ahigh m dim = ahigh x dim) by (unfold ahigh; rewrite Esm; reflexivity).
    unfold t_sce. fold ls m. rewrite t_map_nth.
    - rewrite <- Eb. rewrite t_sum_spec; [|exact Hokm|rewrite Eb; exact Hl|rewrite Eh; exact Hh].
      unfold fw_negate. f_equal. rewrite En. apply asum_ext. intros k Hk.
      unfold at3 at 1. rewrite Eb, En. unfold m.
      rewrite t_ab_same.
      + unfold fw_multiply. f_equal.
        * unfold at3, abase, aext. rewrite Est. reflexivity.
        * apply t_log_softmax_spec. exact Hk.
      + rewrite HV, Est. reflexivity.
      + rewrite HB, Est. reflexivity.
      + rewrite Est. apply tvolume_pos. apply Hok.
      + rewrite Est. apply at3_lt; assumption.
    - apply t_reduce_ok. exact Hokm.
    - unfold t_sum. rewrite t_reduce_shape. unfold tsize. rewrite tset_dim_volume, tset_dim_batch.
      fold (abase m dim). rewrite Eb. replace (tbatch (tsh m) * (abase x dim * (1 * tupper (tsh m) dim)))
        with (abase x dim * 1 * ahigh m dim) by (unfold ahigh; ring).
      apply flat_lt; [exact Hl|lia|rewrite Eh; exact Hh].
  Qed.
End Softmax.

(* sparse targets:  softmax_cross_entropy(x, ids)[b; low, 0, hi] = - log_softmax(x)[bx; low, ids[b or 0], hi]
   with bx = b (or the shared sample when x has batch 1); hi ranges over the extents above dim *)
Theorem t_sce_sparse_spec (x : rten) (ids : list nat) (dim b low hi : nat) :
  let B := Nat.max (tbatch (tsh x)) (length ids) in
  let bx := bidx (tbatch (tsh x)) b in
  let k := nth (bidx (length ids) b) ids 0 in
  rok x -> (tbatch (tsh x) = B \/ tbatch (tsh x) = 1) -> (length ids = B \/ length ids = 1) ->
  (forall q, q < length ids -> nth q ids 0 < aext x dim) ->
  b < B -> low < abase x dim -> hi < aupper x dim ->
  rnth (t_sce_sparse x ids dim) (b * (abase x dim * 1 * aupper x dim) + flat (abase x dim) 1 low 0 hi)
  = (- (at3 x dim low k (hi + aupper x dim * bx) - ln (sumexp_axis x dim low (hi + aupper x dim * bx))))%R.
Proof.
  intros B bx k Hok Hbc Hic Hids Hb Hl Hh.
  destruct (t_log_softmax_shape x dim Hok) as [Hoky [HV [HB [E1 [E2 E3]]]]].
  set (ls := t_log_softmax x dim) in *. set (y := t_map R 0%R fw_negate ls).
  assert (Ey : tsh y = tsh ls) by reflexivity.
  assert (Hbx : bx < tbatch (tsh x)) by (apply (bidx_lt _ B b Hb); destruct Hbc; [left|right]; lia).
  assert (Hk : k < aext x dim) by (apply Hids; apply (bidx_lt _ B b Hb); destruct Hic; [left|right]; lia).
  assert (Hhi : hi + aupper x dim * bx < ahigh x dim).
  { unfold ahigh, aupper in *. nia. }
  pose proof (t_pick_nth R 0%R y ids dim b low hi) as H. cbv zeta in H.
  rewrite Ey, E1, E2, E3, HB in H. unfold t_sce_sparse. fold ls y. fold B in H. rewrite H; try assumption.
  - fold bx k. rewrite <- flat_sample. unfold y. rewrite t_map_nth; [|exact Hoky|].
    + unfold fw_negate. f_equal. apply t_log_softmax_spec; assumption.
    + unfold tsize. rewrite HV, HB. apply at3_lt; assumption.
  - apply Hoky.
Qed.

(* ---- batch::mean ---- *)
(* batch::sum(x)[i] = sum_b x[b; i],  batch::mean(x)[i] = (sum_b x[b; i]) / B *)
Theorem t_batch_sum_spec (x : rten) i : i < tvolume (tsh x) ->
  rnth (t_batch_sum x) i = asum (fun b => rnth x (b * tvolume (tsh x) + i)) (tbatch (tsh x)).
Proof. intro Hi. unfold t_batch_sum. rewrite t_batch_red_nth by exact Hi. apply rsum_sum_list. Qed.

Theorem t_batch_mean_spec (x : rten) i : rok x -> i < tvolume (tsh x) ->
  rnth (t_batch_mean x) i
  = (asum (fun b => rnth x (b * tvolume (tsh x) + i)) (tbatch (tsh x)) / INR (tbatch (tsh x)))%R.
Proof.
  intros Hok Hi. unfold t_batch_mean. rewrite t_map_nth.
  - rewrite t_batch_sum_spec by exact Hi. reflexivity.
  - apply t_batch_red_ok. exact Hok.
  - unfold tsize. change (tbatch (tsh (t_batch_sum x))) with 1.
    change (tvolume (tsh (t_batch_sum x))) with (tvolume (tsh x)). lia.
Qed.

Lemma t_batch_mean_shape (x : rten) : rok x ->
  rok (t_batch_mean x) /\ tvolume (tsh (t_batch_mean x)) = tvolume (tsh x) /\ tbatch (tsh (t_batch_mean x)) = 1.
Proof.
  intro Hok. split; [apply t_map_ok; apply t_batch_red_ok; exact Hok|]. split; reflexivity.
Qed.

(* ---- batch::normalize ---- *)
(* the mean and the (1/B)-variance of element i over the minibatch *)
Definition bmean (x : rten) (i : nat) : R :=
  (asum (fun b => rnth x (b * tvolume (tsh x) + i)) (tbatch (tsh x)) / INR (tbatch (tsh x)))%R.
Definition bmeansq (x : rten) (i : nat) : R :=
  (asum (fun b => rnth x (b * tvolume (tsh x) + i) * rnth x (b * tvolume (tsh x) + i)) (tbatch (tsh x))
   / INR (tbatch (tsh x)))%R.

(* batch size 1: the input is returned unchanged (the documented formula divides by B - 1 = 0) *)
Theorem t_batch_normalize_single eps (x : rten) : tbatch (tsh x) <= 1 -> t_batch_normalize eps x = x.
Proof.
  intro H. unfold t_batch_normalize, thas_batch. destruct (Nat.ltb_spec 1 (tbatch (tsh x))); [lia|]. reflexivity.
Qed.

(* batch size B > 1:
   normalize(x)[b; i] = (x[b; i] - m_i) / sqrt (B/(B-1) * (q_i - m_i^2) + eps),
   m_i = (1/B) sum_b x[b; i],  q_i = (1/B) sum_b x[b; i]^2 *)
Theorem t_batch_normalize_spec eps (x : rten) b i :
  rok x -> 1 < tbatch (tsh x) -> b < tbatch (tsh x) -> i < tvolume (tsh x) ->
  rnth (t_batch_normalize eps x) (b * tvolume (tsh x) + i)
  = ((rnth x (b * tvolume (tsh x) + i) - bmean x i)
     / sqrt (INR (tbatch (tsh x)) / (INR (tbatch (tsh x)) - 1) * (bmeansq x i - bmean x i * bmean x i) + eps))%R.
Proof.
  intros Hok HB Hb Hi. set (V := tvolume (tsh x)) in *. set (B := tbatch (tsh x)) in *.
  assert (Hwf : twf (tsh x)) by apply Hok.
  assert (HV0 : 0 < V) by (apply tvolume_pos; exact Hwf).
  unfold t_batch_normalize, thas_batch. fold B. destruct (Nat.ltb_spec 1 B) as [_|C]; [|lia]. cbn [Nat.eqb].
  set (m := t_batch_mean x). set (xx := t_bin R 0%R fw_multiply x x).
  destruct (t_batch_mean_shape x Hok) as [Hokm [HVm HBm]]. fold m V in Hokm, HVm, HBm.
  (* x * x *)
  assert (Hokxx : rok xx) by (apply t_bin_ok; [exact Hwf|exact Hwf|reflexivity]).
  assert (HBxx : tbatch (tsh xx) = B) by (unfold xx; rewrite t_bin_batch; apply Nat.max_id).
  assert (HVxx : tvolume (tsh xx) = V).
  { unfold xx, tvolume. destruct (t_bin_dims R 0%R fw_multiply x x) as [E|E]; rewrite E; reflexivity. }
  assert (Exx : forall p, p < B * V -> rnth xx p = (rnth x p * rnth x p)%R).
  { intros p Hp. unfold xx. rewrite t_bin_same; [reflexivity|reflexivity|reflexivity|exact HV0|exact Hp]. }
  set (mxx := t_batch_mean xx). destruct (t_batch_mean_shape xx Hokxx) as [Hokq [HVq HBq]].
  fold mxx in Hokq, HVq, HBq. rewrite HVxx in HVq.
  set (mm := t_bin R 0%R fw_multiply m m).
  assert (Hokmm : rok mm) by (apply t_bin_ok; [apply Hokm|apply Hokm|reflexivity]).
  assert (HBmm : tbatch (tsh mm) = 1) by (unfold mm; rewrite t_bin_batch, HBm; reflexivity).
  assert (HVmm : tvolume (tsh mm) = V).
  { unfold mm, tvolume. destruct (t_bin_dims R 0%R fw_multiply m m) as [E|E]; rewrite E; exact HVm. }
  set (df := t_bin R 0%R fw_subtract mxx mm).
  assert (Hokdf : rok df) by (apply t_bin_ok; [apply Hokq|apply Hokmm|congruence]).
  assert (HBdf : tbatch (tsh df) = 1) by (unfold df; rewrite t_bin_batch, HBq, HBmm; reflexivity).
  assert (HVdf : tvolume (tsh df) = V).
  { unfold df, tvolume. destruct (t_bin_dims R 0%R fw_subtract mxx mm) as [E|E]; rewrite E; [exact HVq|exact HVmm]. }
  set (scale := (INR B / (INR B - 1))%R).
  set (v := t_map R 0%R (fun u => fw_multiply_const u scale) df).
  set (ve := t_map R 0%R (fun u => fw_add_const u eps) v).
  set (sd := t_map R 0%R fw_sqrt ve).
  assert (Hokv : rok v) by (apply t_map_ok; exact Hokdf).
  assert (Hokve : rok ve) by (apply t_map_ok; exact Hokv).
  assert (Hoksd : rok sd) by (apply t_map_ok; exact Hokve).
  set (xm := t_bin R 0%R fw_subtract x m).
  assert (HBxm : tbatch (tsh xm) = B) by (unfold xm; rewrite t_bin_batch, HBm; fold B; lia).
  assert (HVxm : tvolume (tsh xm) = V).
  { unfold xm, tvolume. destruct (t_bin_dims R 0%R fw_subtract x m) as [E|E]; rewrite E; [reflexivity|exact HVm]. }
  (* element values *)
  assert (Em : rnth m i = bmean x i) by (apply t_batch_mean_spec; assumption).
  assert (Eq : rnth mxx i = bmeansq x i).
  { unfold mxx. rewrite t_batch_mean_spec; [|exact Hokxx|rewrite HVxx; exact Hi].
    rewrite HVxx, HBxx. unfold bmeansq. fold V B. f_equal. apply asum_ext. intros b' Hb'.
    apply Exx. apply sample_lt; assumption. }
  assert (Emm : rnth mm i = (bmean x i * bmean x i)%R).
  { unfold mm. replace i with (0 * V + i) at 1 by lia.
    rewrite (t_bin_nth R 0%R fw_multiply m m V 0 i HVm HVm) by (rewrite ?HBm; cbn; lia).
    rewrite (bsel_shared _ 0 HBm). cbn [Nat.mul Nat.add]. rewrite Em. reflexivity. }
  assert (Edf : rnth df i = (bmeansq x i - bmean x i * bmean x i)%R).
  { unfold df. replace i with (0 * V + i) at 1 by lia.
    rewrite (t_bin_nth R 0%R fw_subtract mxx mm V 0 i HVq HVmm) by (rewrite ?HBq, ?HBmm; cbn; lia).
    rewrite (bsel_shared _ 0 HBq), (bsel_shared _ 0 HBmm). cbn [Nat.mul Nat.add]. rewrite Eq, Emm. reflexivity. }
  assert (Hi1 : forall t : rten, tvolume (tsh t) = V -> tbatch (tsh t) = 1 -> i < tsize (tsh t)).
  { intros t H1 H2. unfold tsize. rewrite H1, H2. lia. }
  assert (Esd : rnth sd i = sqrt (scale * (bmeansq x i - bmean x i * bmean x i) + eps)).
  { unfold sd. rewrite t_map_nth; [|exact Hokve|apply Hi1; [exact HVdf|exact HBdf]].
    unfold ve. rewrite t_map_nth; [|exact Hokv|apply Hi1; [exact HVdf|exact HBdf]].
    unfold v. rewrite t_map_nth; [|exact Hokdf|apply Hi1; [exact HVdf|exact HBdf]].
    rewrite Edf. unfold fw_sqrt, fw_add_const, fw_multiply_const. f_equal. ring. }
  assert (Exm : rnth xm (b * V + i) = (rnth x (b * V + i) - bmean x i)%R).
  { unfold xm. rewrite (t_bin_nth R 0%R fw_subtract x m V b i eq_refl HVm) by (rewrite ?HBm; fold B; lia).
    rewrite (bsel_batched (tsh x) b HB), (bsel_shared _ b HBm). cbn [Nat.mul Nat.add]. rewrite Em. reflexivity. }
  fold scale. fold df v ve sd xm.
  rewrite (t_bin_nth R 0%R fw_divide xm sd V b i HVxm HVdf) by (rewrite ?HBxm, ?HBdf; lia).
  assert (HBsd : tbatch (tsh sd) = 1) by exact HBdf.
  rewrite (bsel_batched (tsh xm) b) by (rewrite HBxm; exact HB). rewrite (bsel_shared _ b HBsd).
  cbn [Nat.mul Nat.add]. rewrite Exm, Esd. reflexivity.
Qed.

(* ---- selu ---- *)
Theorem t_selu_spec (x : rten) a s : rok x ->
  tsh (t_selu x a s) = tsh x /\
  tdat (t_selu x a s) = map (fun v => (s * (if Rge_dec v 0 then v else a * (exp v - 1)))%R) (tdat x).
Proof.
  intro Hok. split; [reflexivity|]. unfold t_selu.
  rewrite t_map_dat by (apply t_map_ok; exact Hok). rewrite t_map_dat by exact Hok. rewrite map_map.
  apply map_ext. intro v. rewrite fw_elu_spec. unfold fw_multiply_const. ring.
Qed.

(* ---- dropout ---- *)
Theorem t_dropout_disabled (x : rten) rate mask : t_dropout x rate false mask = x.
Proof. reflexivity. Qed.

Theorem t_dropout_rate1 (x : rten) mask : rok x ->
  tsh (t_dropout x 1 true mask) = tsh x /\ tdat (t_dropout x 1 true mask) = map (fun _ => 0%R) (tdat x).
Proof.
  intro Hok. unfold t_dropout. cbn [negb]. destruct (Req_EM_T 1 1) as [_|C]; [|exfalso; apply C; reflexivity].
  split; [reflexivity|]. rewrite t_map_dat by exact Hok. apply map_ext. intro v. unfold fw_multiply_const. ring.
Qed.

(* otherwise x * mask / (1 - rate), elementwise (mask of the shape of x) *)
Theorem t_dropout_spec (x : rten) rate mask p : rok x -> rate <> 1%R ->
  tvolume (tsh mask) = tvolume (tsh x) -> tbatch (tsh mask) = tbatch (tsh x) -> p < tsize (tsh x) ->
  rnth (t_dropout x rate true mask) p = (rnth x p * rnth mask p / (1 - rate))%R.
Proof.
  intros Hok Hr HV HB Hp. unfold t_dropout. cbn [negb]. destruct (Req_EM_T rate 1) as [C|_]; [contradiction|].
  rewrite t_bin_same; [|exact HV|exact HB|apply tvolume_pos; apply Hok|exact Hp].
  rewrite t_map_nth by assumption. unfold fw_multiply, fw_multiply_const. field. lra.
Qed.

Corollary t_dropout_rate0 (x : rten) mask p : rok x ->
  tvolume (tsh mask) = tvolume (tsh x) -> tbatch (tsh mask) = tbatch (tsh x) -> p < tsize (tsh x) ->
  rnth mask p = 1%R -> rnth (t_dropout x 0 true mask) p = rnth x p.
Proof.
  intros Hok HV HB Hp Hm. rewrite t_dropout_spec by (try assumption; lra). rewrite Hm. field.
Qed.

(* the ORDER of the two early returns of the source matters (`!enabled` is tested BEFORE
   `rate == 1.`): the transcription with the tests swapped returns zeros for a disabled dropout of
   rate 1, contradicting "disabled = identity for every rate" *)
Definition t_dropout_swapped (x : rten) (rate : R) (enabled : bool) (mask : rten) : rten :=
  if Req_EM_T rate 1 then t_map R 0%R (fun v => fw_multiply_const v 0) x
  else if negb enabled then x
  else t_bin R 0%R fw_multiply (t_map R 0%R (fun v => fw_multiply_const v (1 / (1 - rate))) x) mask.

Theorem t_dropout_swapped_breaks_disabled :
  exists x mask : rten, rok x /\ t_dropout x 1 false mask = x /\ t_dropout_swapped x 1 false mask <> x.
Proof.
  set (x := mkTen (mkT [] 1) [1%R]). exists x, x.
  assert (Hok : rok x) by (split; [split; [constructor|cbn; lia]|reflexivity]).
  split; [exact Hok|]. split; [reflexivity|]. intro H. unfold t_dropout_swapped in H.
  destruct (Req_EM_T 1 1) as [_|C]; [|apply C; reflexivity].
  apply (f_equal (@tdat R)) in H. rewrite t_map_dat in H by exact Hok. cbn [x tdat map] in H.
  injection H as H. unfold fw_multiply_const in H. lra.
Qed.

(* ================================================================== axes at or beyond the depth *)
(* dim >= depth: the axis has extent 1 and nothing above it; [low, 0, high] is sample `high`,
   element `low`, and the family degenerates to  logsumexp = x, log_softmax = 0, softmax = 1,
   sum = mean = x *)
Theorem beyond_depth_family (x : rten) dim low high :
  rok x -> tdepth (tsh x) <= dim -> low < tvolume (tsh x) -> high < tbatch (tsh x) ->
  let p := flat (tvolume (tsh x)) 1 low 0 high in
  aext x dim = 1 /\ abase x dim = tvolume (tsh x) /\ ahigh x dim = tbatch (tsh x) /\
  rnth (t_logsumexp x dim) p = rnth x p /\ rnth (t_log_softmax x dim) p = 0%R /\
  rnth (t_softmax x dim) p = 1%R /\ rnth (t_sum x dim) p = rnth x p /\ rnth (t_mean x dim) p = rnth x p.
Proof.
  intros Hok Hd Hl Hh p. destruct (beyond_depth (tsh x) dim Hd) as [En [Eu Eb]].
  assert (En' : aext x dim = 1) by exact En. assert (Eb' : abase x dim = tvolume (tsh x)) by exact Eb.
  assert (Eh' : ahigh x dim = tbatch (tsh x)) by (unfold ahigh; rewrite Eu; lia).
  assert (Hl' : low < abase x dim) by (rewrite Eb'; exact Hl).
  assert (Hh' : high < ahigh x dim) by (rewrite Eh'; exact Hh).
  assert (Ex : at3 x dim low 0 high = rnth x p) by (unfold at3; rewrite En', Eb'; reflexivity).
  assert (ES : sumexp_axis x dim low high = exp (rnth x p)).
  { unfold sumexp_axis. rewrite En', asum_1, Ex. reflexivity. }
  split; [exact En'|]. split; [exact Eb'|]. split; [exact Eh'|].
  pose proof (t_logsumexp_spec x dim Hok low high Hl' Hh') as H1.
  pose proof (t_log_softmax_spec x dim Hok low high Hl' Hh' 0) as H2.
  pose proof (t_softmax_spec x dim Hok low high Hl' Hh' 0) as H3.
  pose proof (t_sum_spec x dim Hok low high Hl' Hh') as H4.
  pose proof (t_mean_spec x dim Hok low high Hl' Hh') as H5.
  rewrite En', Eb' in *. fold p in H1, H2, H3, H4, H5.
  rewrite ES in H1, H2, H3. rewrite asum_1, Ex in H4, H5. rewrite Ex in H2, H3. rewrite ln_exp in H1, H2.
  split; [exact H1|]. split; [rewrite H2 by lia; ring|]. split; [rewrite H3 by lia; field; apply Rgt_not_eq, exp_pos|].
  split; [exact H4|]. rewrite H5. cbn [INR]. field.
Qed.

(* ================================================================== sums / means over containers *)
(* contrib/functions.h:41-49  sum(xs): ret = *it++; while (it != xs.end()) ret = ret + *it++;
   (an empty container raises an error: the container is modelled as head x0 and tail xs);
   contrib/functions.h:88-91  mean(xs) = sum(xs) / xs.size() *)
Definition t_sum_list (x0 : rten) (xs : list rten) : rten := fold_left (t_bin R 0%R fw_add) xs x0.
Definition t_mean_list (x0 : rten) (xs : list rten) : rten :=
  t_map R 0%R (fun v => fw_divide_const_r v (INR (S (length xs)))) (t_sum_list x0 xs).

Definition same_shape (V B : nat) (t : rten) : Prop :=
  rok t /\ tvolume (tsh t) = V /\ tbatch (tsh t) = B.

Lemma t_sum_list_inv V B xs : forall x0, same_shape V B x0 -> Forall (same_shape V B) xs ->
  same_shape V B (t_sum_list x0 xs) /\
  forall p, p < B * V ->
    rnth (t_sum_list x0 xs) p = (rnth x0 p + sum_list (map (fun t => rnth t p) xs))%R.
Proof.
  induction xs as [|a xs IH]; intros x0 H0 Hxs.
  - cbn [t_sum_list fold_left map sum_list fold_right]. split; [exact H0|]. intros p _. ring.
  - inversion Hxs as [|? ? Ha Hxs']; subst. destruct H0 as [Hok0 [HV0 HB0]]. destruct Ha as [Hoka [HVa HBa]].
    set (acc := t_bin R 0%R fw_add x0 a).
    assert (Hacc : same_shape V B acc).
    { split; [apply t_bin_ok; [apply Hok0|apply Hoka|congruence]|]. split.
      - unfold acc, tvolume. destruct (t_bin_dims R 0%R fw_add x0 a) as [E|E]; rewrite E; assumption.
      - unfold acc. rewrite t_bin_batch, HB0, HBa. apply Nat.max_id. }
    destruct (IH acc Hacc Hxs') as [Hs Hv]. change (t_sum_list x0 (a :: xs)) with (t_sum_list acc xs).
    split; [exact Hs|]. intros p Hp. rewrite (Hv p Hp). cbn [map sum_list fold_right].
    fold (sum_list (map (fun t => rnth t p) xs)). unfold acc.
    rewrite t_bin_same; [unfold fw_add; ring|congruence|congruence| |unfold tsize; rewrite HV0, HB0; exact Hp].
    apply tvolume_pos. apply Hok0.
Qed.

(* sum(xs)[p] = sum_i xs_i[p];  mean(xs)[p] = (sum_i xs_i[p]) / |xs| *)
Theorem t_sum_list_spec V B x0 xs p : same_shape V B x0 -> Forall (same_shape V B) xs -> p < B * V ->
  rnth (t_sum_list x0 xs) p = sum_list (map (fun t => rnth t p) (x0 :: xs)).
Proof. intros H0 Hxs Hp. destruct (t_sum_list_inv V B xs x0 H0 Hxs) as [_ Hv]. rewrite (Hv p Hp). reflexivity. Qed.

Theorem t_mean_list_spec V B x0 xs p : same_shape V B x0 -> Forall (same_shape V B) xs -> p < B * V ->
  rnth (t_mean_list x0 xs) p = (sum_list (map (fun t => rnth t p) (x0 :: xs)) / INR (length (x0 :: xs)))%R.
Proof.
  intros H0 Hxs Hp. destruct (t_sum_list_inv V B xs x0 H0 Hxs) as [[Hok [HV HB]] _].
  unfold t_mean_list. rewrite t_map_nth; [|exact Hok|unfold tsize; rewrite HV, HB; exact Hp].
  rewrite (t_sum_list_spec V B x0 xs p H0 Hxs Hp). reflexivity.
Qed.

(* ================================================================== a concrete instance *)
(* shape {2,3}x2, x[i] = i: the hypotheses of the theorems above are satisfiable and the results
   are the hand-computed values *)
Definition ex_shape : tshape := mkT [2; 3] 2.
Definition ex_x : rten := mkTen ex_shape [0; 1; 2; 3; 4; 5; 6; 7; 8; 9; 10; 11]%R.

Lemma ex_ok : rok ex_x.
Proof.
  split; [split; [repeat constructor|cbn; lia]|reflexivity].
Qed.

Lemma ex_coords : abase ex_x 1 = 2 /\ aext ex_x 1 = 3 /\ ahigh ex_x 1 = 2 /\ aupper ex_x 1 = 1.
Proof.
  assert (U : tupper ex_shape 1 = 1) by (unfold tupper; cbn [ex_shape tdims skipn]; apply prodn_nil).
  unfold abase, aext, ahigh, aupper. change (tsh ex_x) with ex_shape. rewrite U. repeat split.
Qed.

Theorem composites_example :
  rok ex_x /\ abase ex_x 1 = 2 /\ aext ex_x 1 = 3 /\ ahigh ex_x 1 = 2 /\
  (* axis 1, [low, k, high] = [1, 1, 1] is flat index 9; the slice [1, *, 1] is (7, 9, 11) *)
  rnth (t_logsumexp ex_x 1) 3 = ln (exp 7 + exp 9 + exp 11) /\
  rnth (t_log_softmax ex_x 1) 9 = (9 - ln (exp 7 + exp 9 + exp 11))%R /\
  rnth (t_softmax ex_x 1) 9 = (exp 9 / (exp 7 + exp 9 + exp 11))%R /\
  (rnth (t_softmax ex_x 1) 7 + rnth (t_softmax ex_x 1) 9 + rnth (t_softmax ex_x 1) 11 = 1)%R /\
  rnth (t_mean ex_x 1) 3 = 9%R /\
  (* the targets t = x:  - (7 (7 - L) + 9 (9 - L) + 11 (11 - L)),  L = ln (e^7 + e^9 + e^11) *)
  rnth (t_sce ex_x ex_x 1) 3 = (- (7 * (7 - ln (exp 7 + exp 9 + exp 11)) + 9 * (9 - ln (exp 7 + exp 9 + exp 11))
                                  + 11 * (11 - ln (exp 7 + exp 9 + exp 11))))%R /\
  (* ids = (2, 0): sample 1, [low, hi] = [1, 0] picks k = 0 of the slice (7, 9, 11) *)
  rnth (t_sce_sparse ex_x [2; 0] 1) 3 = (- (7 - ln (exp 7 + exp 9 + exp 11)))%R /\
  (* axis 4 >= depth: extent 1 *)
  rnth (t_softmax ex_x 4) 9 = 1%R /\ rnth (t_mean ex_x 4) 9 = 9%R /\
  (* over the minibatch: element 3 holds 3 and 9 *)
  rnth (t_batch_mean ex_x) 3 = 6%R /\
  (forall eps, rnth (t_batch_normalize eps ex_x) 9 = (3 / sqrt (18 + eps))%R) /\
  (forall eps, t_batch_normalize eps (mkTen (mkT [2; 3] 1) [0; 1; 2; 3; 4; 5]%R) = mkTen (mkT [2; 3] 1) [0; 1; 2; 3; 4; 5]%R) /\
  tdat (t_selu (mkTen (mkT [2] 1) [1; -1]%R) 2 3) = [3 * 1; 3 * (2 * (exp (-1) - 1))]%R.
Proof.
  pose proof ex_ok as Hok. destruct ex_coords as [Eb [En [Eh Eu]]].
  assert (Hl : 1 < abase ex_x 1) by (rewrite Eb; lia). assert (Hh : 1 < ahigh ex_x 1) by (rewrite Eh; lia).
  assert (ES : sumexp_axis ex_x 1 1 1 = (exp 7 + exp 9 + exp 11)%R).
  { unfold sumexp_axis, at3. rewrite Eb, En. unfold asum, range, flat. cbn [seq map sum_list fold_right Nat.add Nat.mul].
    unfold tnth. cbn [ex_x tdat nth]. ring. }
  assert (A : forall k, k < 3 -> at3 ex_x 1 1 k 1 = rnth ex_x (flat 2 3 1 k 1)) by (intros; unfold at3; rewrite Eb, En; reflexivity).
  split; [exact Hok|]. split; [exact Eb|]. split; [exact En|]. split; [exact Eh|].
  split.
  { pose proof (t_logsumexp_spec ex_x 1 Hok 1 1 Hl Hh) as H. rewrite Eb, ES in H. exact H. }
  split.
  { pose proof (t_log_softmax_spec ex_x 1 Hok 1 1 Hl Hh 1) as H. rewrite Eb, En, ES, A in H by lia.
    exact (H ltac:(lia)). }
  assert (SM : forall k, k < 3 -> rnth (t_softmax ex_x 1) (flat 2 3 1 k 1) = (exp (rnth ex_x (flat 2 3 1 k 1)) / (exp 7 + exp 9 + exp 11))%R).
  { intros k Hk. pose proof (t_softmax_spec ex_x 1 Hok 1 1 Hl Hh k) as H. rewrite Eb, En, ES, A in H by exact Hk. exact (H Hk). }
  split; [exact (SM 1 ltac:(lia))|].
  split.
  { pose proof (SM 0 ltac:(lia)) as S0. pose proof (SM 1 ltac:(lia)) as S1. pose proof (SM 2 ltac:(lia)) as S2.
    change (flat 2 3 1 0 1) with 7 in S0. change (flat 2 3 1 1 1) with 9 in S1. change (flat 2 3 1 2 1) with 11 in S2.
    unfold tnth in S0, S1, S2. cbn [ex_x tdat nth] in S0, S1, S2. unfold tnth. rewrite S0, S1, S2.
    pose proof (exp_pos 7). pose proof (exp_pos 9). pose proof (exp_pos 11). field. lra. }
  split.
  { pose proof (t_mean_spec ex_x 1 Hok 1 1 Hl Hh) as H. rewrite Eb, En in H. change (flat 2 1 1 0 1) with 3 in H. rewrite H.
    unfold asum, range. cbn [seq map sum_list fold_right]. rewrite !A by lia.
    unfold flat, tnth. cbn [Nat.add Nat.mul ex_x tdat nth INR]. field. }
  split.
  { pose proof (t_sce_spec ex_x 1 Hok 1 1 Hl Hh ex_x Hok eq_refl) as H. rewrite Eb, En, ES in H.
    change (flat 2 1 1 0 1) with 3 in H. rewrite H. unfold asum, range. cbn [seq map sum_list fold_right]. rewrite !A by lia.
    unfold flat, tnth. cbn [Nat.add Nat.mul ex_x tdat nth]. ring. }
  split.
  { assert (Hids : forall q, q < length [2; 0] -> nth q [2; 0] 0 < aext ex_x 1).
    { rewrite En. intros q Hq. destruct q as [|[|q]]; cbn [nth]; cbn [length] in Hq; lia. }
    pose proof (t_sce_sparse_spec ex_x [2; 0] 1 1 1 0 Hok (or_introl eq_refl) (or_introl eq_refl) Hids) as H.
    cbv zeta in H. rewrite Eb, Eu in H. specialize (H ltac:(cbn; lia) ltac:(lia) ltac:(lia)).
    change (0 + 1 * bidx (tbatch (tsh ex_x)) 1) with 1 in H.
    change (nth (bidx (length [2; 0]) 1) [2; 0] 0) with 0 in H.
    rewrite ES, (A 0) in H by lia. exact H. }
  assert (BD : tdepth (tsh ex_x) <= 4) by (cbn; lia).
  pose proof (beyond_depth_family ex_x 4 3 1 Hok BD ltac:(cbn; lia) ltac:(cbn; lia)) as H4. cbv zeta in H4.
  change (tvolume (tsh ex_x)) with 6 in H4. change (flat 6 1 3 0 1) with 9 in H4.
  destruct H4 as [_ [_ [_ [_ [_ [H4s [_ H4m]]]]]]].
  split; [exact H4s|]. split; [rewrite H4m; reflexivity|].
  split.
  { rewrite (t_batch_mean_spec ex_x 3 Hok) by (cbn; lia). change (tvolume (tsh ex_x)) with 6. change (tbatch (tsh ex_x)) with 2.
    unfold asum, range, tnth. cbn [seq map sum_list fold_right Nat.add Nat.mul ex_x tdat nth INR]. field. }
  split.
  { intro eps. pose proof (t_batch_normalize_spec eps ex_x 1 3 Hok) as H. change (tvolume (tsh ex_x)) with 6 in H.
    change (tbatch (tsh ex_x)) with 2 in H. change (1 * 6 + 3) with 9 in H. rewrite H by lia.
    unfold bmean, bmeansq. change (tvolume (tsh ex_x)) with 6. change (tbatch (tsh ex_x)) with 2.
    unfold asum, range, tnth. cbn [seq map sum_list fold_right Nat.add Nat.mul ex_x tdat nth INR].
    f_equal; [field|]. f_equal. field. }
  split.
  { intro eps. apply t_batch_normalize_single. cbn. lia. }
  assert (Hok2 : rok (mkTen (mkT [2] 1) [1; -1]%R)) by (split; [split; [repeat constructor|cbn; lia]|reflexivity]).
  destruct (t_selu_spec _ 2 3 Hok2) as [_ ->]. cbn [tdat map].
  destruct (Rge_dec 1 0) as [_|C]; [|exfalso; lra]. destruct (Rge_dec (-1) 0) as [C|_]; [exfalso; lra|]. reflexivity.
Qed.
