(* C01, bridge between the graph level (Graph/OpFamily.v, Graph/ADProof.v) and the kernel level
   (Tensor/Proofs*.v): generic facts used by Tensor/GraphInst.v.
   - vectors of OpFamily.v and the dot product of Index.v are the same thing;
   - [adj_of n m L Ls]: Ls is the adjoint of the linear map L : R^m -> R^n (with sizes);
     calculus: flip, composition, extensionality;
   - the three ways a kernel theorem yields an [adj_of]:
       pair_adj   a forward data movement (assignment semantics, `gather`) and a backward
                  accumulation program forming an [adjoint_pair] (ProofsGather / ProofsPerm),
       acc_adj    two accumulation programs that are each other's transposes up to order,
       and the sums over index programs behind incr_run_dot (ProofsBilinear) for the
       elementwise / bilinear kernels;
   - operator descriptors [opdesc] and the generic step from a descriptor's adjointness
     [desc_LA] to OpFamily.LocalAdjoint of the family built from descriptors. *)
From Coq Require Import List NArith Bool Arith Lia Ring Permutation.
From PV Require Import Graph.OpFamily Tensor.Kernels Tensor.Index Tensor.KernelProofs
  Tensor.ProofsGather Tensor.ProofsPerm Tensor.ProofsBilinear.
Import ListNotations.

(* ---- shapes: decidable equality ---- *)
Definition tshape_eqb (a b : tshape) : bool :=
  (if list_eq_dec Nat.eq_dec (tdims a) (tdims b) then true else false) && (tbatch a =? tbatch b).
Lemma tshape_eqb_eq a b : tshape_eqb a b = true <-> a = b.
Proof.
  unfold tshape_eqb. destruct a as [da ba], b as [db bb]. cbn [tdims tbatch].
  destruct (list_eq_dec Nat.eq_dec da db) as [->|N]; cbn [andb].
  - rewrite Nat.eqb_eq. split; [intros ->; reflexivity|intros [= ->]; reflexivity].
  - split; [discriminate|intros [= E _]; contradiction].
Qed.
Fixpoint shapes_eqb (a b : list tshape) : bool :=
  match a, b with
  | [], [] => true
  | x :: a', y :: b' => tshape_eqb x y && shapes_eqb a' b'
  | _, _ => false
  end.
Lemma shapes_eqb_eq a : forall b, shapes_eqb a b = true <-> a = b.
Proof.
  induction a as [|x a IH]; intros [|y b]; cbn [shapes_eqb]; try (split; [discriminate|discriminate]); [tauto|].
  rewrite andb_true_iff, tshape_eqb_eq, IH. split; [intros [-> ->]; reflexivity|intros [= -> ->]; auto].
Qed.

(* shape_ops::elementwise: same dims, compatible batches; result batch = max *)
Definition ew_shape (sa sb : tshape) : tshape := mkT (tdims sa) (Nat.max (tbatch sa) (tbatch sb)).
Definition ew_ok (sa sb : tshape) : bool :=
  (if list_eq_dec Nat.eq_dec (tdims sa) (tdims sb) then true else false) && (0 <? tbatch sa) && (0 <? tbatch sb)
  && ((tbatch sa =? tbatch sb) || (tbatch sa =? 1) || (tbatch sb =? 1)).
Lemma ew_ok_spec sa sb : ew_ok sa sb = true -> let sy := ew_shape sa sb in
  tvolume sa = tvolume sy /\ tvolume sb = tvolume sy /\
  (tbatch sa = 1 \/ tbatch sa = tbatch sy) /\ (tbatch sb = 1 \/ tbatch sb = tbatch sy).
Proof.
  unfold ew_ok. intro H. apply andb_prop in H. destruct H as [H H4]. apply andb_prop in H. destruct H as [H H3].
  apply andb_prop in H. destruct H as [H1 H2]. destruct (list_eq_dec Nat.eq_dec (tdims sa) (tdims sb)) as [E|]; [|discriminate].
  apply Nat.ltb_lt in H2, H3. cbv zeta. unfold ew_shape, tvolume. cbn [tdims tbatch]. rewrite E.
  split; [reflexivity|]. split; [reflexivity|].
  apply orb_prop in H4. destruct H4 as [H4|H4]; [apply orb_prop in H4; destruct H4 as [H4|H4]|]; apply Nat.eqb_eq in H4; lia.
Qed.

(* boolean guards -> propositions *)
Ltac bsplit := repeat match goal with
  | H : andb _ _ = true |- _ => apply andb_prop in H; destruct H
  | H : Nat.eqb _ _ = true |- _ => apply Nat.eqb_eq in H
  | H : Nat.ltb _ _ = true |- _ => apply Nat.ltb_lt in H
  | H : Nat.leb _ _ = true |- _ => apply Nat.leb_le in H
  | H : tshape_eqb _ _ = true |- _ => apply tshape_eqb_eq in H
  end.

Lemma orb_eqb a b c : (a =? b) || (a =? c) = true -> a = b \/ a = c.
Proof. intro H. apply orb_prop in H. destruct H as [H|H]; apply Nat.eqb_eq in H; auto. Qed.

Lemma F2_nil {A B} (P : A -> B -> Prop) l : Forall2 P l [] -> l = [].
Proof. intro H. inversion H. reflexivity. Qed.
Lemma F2_one {A B} (P : A -> B -> Prop) l s1 : Forall2 P l [s1] -> exists a, l = [a] /\ P a s1.
Proof. intro H. inversion H as [|a ? l1 ? Pa H1]; subst. inversion H1; subst. eauto. Qed.
Lemma F2_two {A B} (P : A -> B -> Prop) l s1 s2 : Forall2 P l [s1; s2] -> exists a b, l = [a; b] /\ P a s1 /\ P b s2.
Proof. intro H. inversion H as [|a ? l1 ? Pa H1]; subst. apply F2_one in H1. destruct H1 as (b & -> & Pb). eauto. Qed.

(* program-level helpers that do not depend on the scalars *)
Definition swap_acc (q : acc) : acc := map (fun e => (snd e, fst e)) q.
Lemma swap_acc_in_bounds q n m : acc_in_bounds q n m -> acc_in_bounds (swap_acc q) m n.
Proof.
  unfold acc_in_bounds, swap_acc. rewrite Forall_map. apply Forall_impl. intros [d s]. cbn [fst snd]. tauto.
Qed.
(* a reduction read as the accumulation  y[dst] += x[src]  for every scanned src, in scan order *)
Definition red_acc (p : red) : acc := flat_map (fun e => map (fun s => (fst e, s)) (snd e)) p.
Lemma red_acc_transposed p : red_acc p = transpose (red_transposed p).
Proof.
  unfold red_acc, transpose, red_transposed. rewrite ProofsBilinear.map_flat_map. apply flat_map_ext. intro e.
  rewrite map_map. reflexivity.
Qed.

Section AdjCore.
  Context {R : Type} (rO rI : R) (radd rmul rsub : R -> R -> R) (ropp : R -> R).
  Hypothesis Rth : ring_theory rO rI radd rmul rsub ropp eq.
  Add Ring Rring : Rth.
  Notation dot := (OpFamily.dot rO radd rmul).
  Notation dots := (OpFamily.dots rO radd rmul).
  Notation vplus := (OpFamily.vplus radd).
  Notation zeros := (repeat rO).
  Notation scatterR := (scatter R rO radd).
  Notation gatherR := (gather R rO).
  Notation sumR := (sum_list R rO radd).

  Lemma r_add_comm a b : radd a b = radd b a.  Proof. ring. Qed.
  Lemma r_add_assoc a b c : radd a (radd b c) = radd (radd a b) c.  Proof. ring. Qed.
  Lemma r_add_0_l a : radd rO a = a.  Proof. ring. Qed.
  Lemma r_mul_comm a b : rmul a b = rmul b a.  Proof. ring. Qed.
  Lemma r_mul_assoc a b c : rmul a (rmul b c) = rmul (rmul a b) c.  Proof. ring. Qed.
  Lemma r_distr_r a b c : rmul (radd a b) c = radd (rmul a c) (rmul b c).  Proof. ring. Qed.
  Lemma r_mul_0_l a : rmul rO a = rO.  Proof. ring. Qed.
  Lemma r_mul_0_r a : rmul a rO = rO.  Proof. ring. Qed.

  (* the dot product of Tensor/Index.v is the one of Graph/OpFamily.v *)
  Lemma idot_eq (a b : list R) : Index.dot R rO radd rmul a b = dot a b.
  Proof. reflexivity. Qed.

  Ltac idot_in H := repeat match type of H with
    | context [Index.dot R rO radd rmul ?a ?b] =>
        change (Index.dot R rO radd rmul a b) with (OpFamily.dot rO radd rmul a b) in H end.

  Lemma dot_comm : forall a b : list R, dot a b = dot b a.
  Proof. induction a as [|x a IH]; intros [|y b]; simpl; auto. rewrite IH. ring. Qed.
  Lemma dot_zeros_l n : forall b : list R, dot (zeros n) b = rO.
  Proof. induction n as [|n IH]; intros [|y b]; simpl; auto. rewrite IH. ring. Qed.
  Lemma dot_zeros_r n (a : list R) : dot a (zeros n) = rO.
  Proof. rewrite dot_comm. apply dot_zeros_l. Qed.
  Lemma dot_vplus_l : forall a b c : list R, length a = length b -> dot (vplus a b) c = radd (dot a c) (dot b c).
  Proof.
    induction a as [|x a IH]; intros [|y b] [|z c] H; simpl in *; try lia; try ring.
    rewrite IH by lia. ring.
  Qed.
  Lemma dot_vplus_r (a b c : list R) : length b = length c -> dot a (vplus b c) = radd (dot a b) (dot a c).
  Proof. intro H. rewrite dot_comm, dot_vplus_l, !(dot_comm a) by exact H. reflexivity. Qed.
  Lemma length_vplus : forall a b : list R, length a = length b -> length (vplus a b) = length a.
  Proof. induction a as [|x a IH]; intros [|y b] H; simpl in *; try lia. rewrite IH; lia. Qed.
  Lemma dot_ones : forall t : list R, dot (repeat rI (length t)) t = vsum rO radd t.
  Proof. induction t as [|x t IH]; simpl; auto. rewrite IH. ring. Qed.

  Definition vneg (a : list R) : list R := map ropp a.
  Lemma dot_vneg_l : forall a b : list R, dot (vneg a) b = ropp (dot a b).
  Proof. induction a as [|x a IH]; intros [|y b]; simpl; try ring. rewrite IH. ring. Qed.

  (* ---------------------------------------------------------------- scatter / gather sizes *)
  Lemma scatter_length p gy : forall gx k, acc_in_bounds p (length gx) k ->
    length (scatterR p gy gx) = length gx.
  Proof.
    induction p as [|[d s] r IH]; intros gx k Hb; cbn [scatter]; [reflexivity|].
    inversion Hb as [|? ? [Hd _] Hr]; subst. cbn [fst] in Hd.
    rewrite (IH _ k); rewrite upd_length by exact Hd; [reflexivity|exact Hr].
  Qed.
  Lemma gather_length fw n (x : list R) : length (gatherR fw n x) = n.
  Proof. unfold gather. rewrite map_length, seq_length. reflexivity. Qed.
  Lemma incr_run_length' p (y : list R) : Forall (fun e : nat * R => fst e < length y) p ->
    length (incr_run R rO radd p y) = length y.
  Proof. apply incr_run_length. Qed.

  (* the identity data movement really is the identity *)
  Lemma gather_identity n (x : list R) : length x = n -> gatherR (identity_pairs n) n x = x.
  Proof.
    intro Hl. apply (nth_ext _ _ rO rO); [rewrite gather_length; auto|].
    intros d Hd. rewrite gather_length in Hd. unfold gather.
    rewrite (nth_indep _ rO (lookup R rO (identity_pairs n) x 0)) by (rewrite map_length, seq_length; exact Hd).
    rewrite map_nth, seq_nth by exact Hd. cbn [Nat.add]. unfold lookup.
    assert (Hin : In (d, (0, d)) (identity_pairs n)) by (apply identity_spec; auto).
    pose proof (find_unique (identity_pairs n) (d, (0, d))) as Hf. cbn [fst] in Hf. rewrite Hf; [reflexivity| |exact Hin].
    pose proof (identity_sequential n) as Hs. unfold sequential in Hs. rewrite Hs. apply seq_NoDup.
  Qed.

  (* ---------------------------------------------------------------- adjoint pairs of linear maps *)
  Definition adj_of (n m : nat) (L Ls : list R -> list R) : Prop :=
    forall gy dx, length gy = n -> length dx = m ->
      dot (Ls gy) dx = dot gy (L dx) /\ length (Ls gy) = m /\ length (L dx) = n.

  Lemma adj_flip n m L Ls : adj_of n m L Ls -> adj_of m n Ls L.
  Proof.
    intros H gy dx Hg Hd. destruct (H dx gy Hd Hg) as (E & A & B).
    split; [|split; [exact B|exact A]]. rewrite dot_comm, <- E. apply dot_comm.
  Qed.
  Lemma adj_compose n k m L2 L2s L1 L1s : adj_of n k L2 L2s -> adj_of k m L1 L1s ->
    adj_of n m (fun x => L2 (L1 x)) (fun g => L1s (L2s g)).
  Proof.
    intros H2 H1 gy dx Hg Hd.
    destruct (H1 (L2s gy) dx) as (E1 & A1 & B1); [|exact Hd|].
    { destruct (H2 gy (L1 dx) Hg) as (_ & A2 & _); [|exact A2].
      destruct (H1 (zeros k) dx (repeat_length _ _) Hd) as (_ & _ & B); exact B. }
    destruct (H2 gy (L1 dx) Hg B1) as (E2 & A2 & B2).
    split; [rewrite E1; exact E2|split; [exact A1|exact B2]].
  Qed.
  Lemma adj_ext n m L L' Ls Ls' : adj_of n m L Ls ->
    (forall dx, length dx = m -> L' dx = L dx) -> (forall gy, length gy = n -> Ls' gy = Ls gy) ->
    adj_of n m L' Ls'.
  Proof. intros H E1 E2 gy dx Hg Hd. rewrite E1, E2 by assumption. apply H; assumption. Qed.
  Lemma adj_id n : adj_of n n (fun x => x) (fun g => g).
  Proof. intros gy dx Hg Hd. auto. Qed.

  (* forward = assignment program, backward = accumulation program that is its transpose *)
  Lemma pair_adj fw bw n m : adjoint_pair fw bw n m ->
    adj_of n m (gatherR fw n) (fun gy => scatterR bw gy (zeros m)).
  Proof.
    intros Hp gy dx Hg Hd. split; [|split].
    - pose proof (adjoint_pair_scatter R rO radd rmul r_add_comm r_add_assoc r_add_0_l r_distr_r
                    fw bw n m gy (zeros m) dx Hp (repeat_length _ _) Hg Hd) as H.
      idot_in H. rewrite H, dot_zeros_l. ring.
    - destruct Hp as (_ & _ & Hb). rewrite (scatter_length bw gy (zeros m) n); rewrite repeat_length; auto.
    - apply gather_length.
  Qed.
  (* the facts ProofsPerm.v states (Permutation with mov_transposed, covers, in bounds) *)
  Lemma perm_pair fw q n m : Permutation q (mov_transposed fw) -> covers fw n -> acc_in_bounds q m n ->
    adjoint_pair fw q n m.
  Proof. intros Hp Hc Hb. split; [exact Hp|split; assumption]. Qed.
  (* any covering single-operand movement and its literal transpose *)
  Lemma mov_pair fw n m : covers fw n -> single fw -> mov_in_bounds fw [m] -> adjoint_pair fw (transpose fw) n m.
  Proof.
    intros Hc Hs Hb. split; [apply Permutation_refl|split; [exact Hc|]].
    apply transpose_in_bounds; [|exact Hs|exact Hb]. intros e He. apply (covers_lt _ _ _ Hc He).
  Qed.

  (* forward and backward both accumulation programs *)
  Lemma gather_sum_swap q : forall g x : list R,
    gather_sum R rO radd rmul (swap_acc q) g x = gather_sum R rO radd rmul q x g.
  Proof. induction q as [|[d s] q IH]; intros g x; cbn [swap_acc map gather_sum fst snd]; [reflexivity|]. fold (swap_acc q). rewrite IH. ring. Qed.
  Lemma acc_adj fq bq n m : Permutation bq (swap_acc fq) -> acc_in_bounds fq n m -> acc_in_bounds bq m n ->
    adj_of n m (fun x => scatterR fq x (zeros n)) (fun gy => scatterR bq gy (zeros m)).
  Proof.
    intros Hp Hf Hb gy dx Hg Hd. split; [|split].
    - pose proof (scatter_adjoint R rO radd rmul r_add_comm r_add_assoc r_add_0_l r_distr_r bq gy (zeros m) dx) as H1.
      rewrite repeat_length, Hg in H1. idot_in H1. rewrite H1 by auto.
      pose proof (scatter_adjoint R rO radd rmul r_add_comm r_add_assoc r_add_0_l r_distr_r fq dx (zeros n) gy) as H2.
      rewrite repeat_length, Hd in H2. idot_in H2. rewrite (dot_comm gy), H2 by auto.
      rewrite !dot_zeros_l. f_equal.
      rewrite (gather_sum_perm R rO radd rmul r_add_comm r_add_assoc _ _ gy dx Hp). apply gather_sum_swap.
    - rewrite (scatter_length bq gy (zeros m) n); rewrite repeat_length; auto.
    - rewrite (scatter_length fq dx (zeros n) m); rewrite repeat_length; auto.
  Qed.

  (* ---------------------------------------------------------------- sums over index programs *)
  Lemma sumR_add {A} (f g : A -> R) p : sumR (map (fun e => radd (f e) (g e)) p) = radd (sumR (map f p)) (sumR (map g p)).
  Proof. induction p as [|e p IH]; cbn [map sum_list fold_right]; [ring|]. fold (sumR (map (fun e => radd (f e) (g e)) p)) (sumR (map f p)) (sumR (map g p)). rewrite IH. ring. Qed.
  Lemma sumR_ext {A} (f g : A -> R) p : (forall e, In e p -> f e = g e) -> sumR (map f p) = sumR (map g p).
  Proof. intro H. f_equal. apply map_ext_in. exact H. Qed.
  Lemma sumR_opp {A} (f : A -> R) p : sumR (map (fun e => ropp (f e)) p) = ropp (sumR (map f p)).
  Proof. induction p as [|e p IH]; cbn [map sum_list fold_right]; [ring|]. fold (sumR (map (fun e => ropp (f e)) p)) (sumR (map f p)). rewrite IH. ring. Qed.

  (* <gy, values of a sequential program> = sum over its entries *)
  Lemma seq_dot {A} (f : nat * A -> R) : forall (p : list (nat * A)) (gy : list R) o,
    map fst p = seq o (length gy) ->
    dot gy (map f p) = sumR (map (fun e => rmul (nth (fst e - o) gy rO) (f e)) p).
  Proof.
    induction p as [|e p IH]; intros [|g gy] o H; cbn [length seq map] in H; try discriminate; [reflexivity|].
    injection H as He Hp. cbn [map OpFamily.dot sum_list fold_right]. rewrite He, Nat.sub_diag. cbn [nth]. f_equal.
    rewrite (IH gy (S o) Hp). apply sumR_ext. intros e' Hin.
    assert (Hin' : In (fst e') (seq (S o) (length gy))) by (rewrite <- Hp; apply in_map; exact Hin).
    apply in_seq in Hin'. replace (fst e' - o) with (S (fst e' - S o)) by lia. reflexivity.
  Qed.
  Lemma seq_dot0 {A} (f : nat * A -> R) (p : list (nat * A)) (gy : list R) :
    sequential p (length gy) -> dot gy (map f p) = sumR (map (fun e => rmul (nth (fst e) gy rO) (f e)) p).
  Proof. intro H. rewrite (seq_dot f p gy 0 H). apply sumR_ext. intros e _. rewrite Nat.sub_0_r. reflexivity. Qed.

  (* <increments into zeros, g> = sum over the increments *)
  Lemma incr_dot p m (g : list R) : Forall (fun e : nat * R => fst e < m) p -> length g = m ->
    dot (incr_run R rO radd p (zeros m)) g = sumR (map (fun e => rmul (snd e) (nth (fst e) g rO)) p).
  Proof.
    intros Hb Hl.
    pose proof (incr_run_dot R rO radd rmul r_add_comm r_add_assoc r_add_0_l r_distr_r p (zeros m) g) as H.
    rewrite repeat_length in H. idot_in H. rewrite H by auto. rewrite dot_zeros_l. ring.
  Qed.

  (* ---------------------------------------------------------------- operator descriptors *)
  Definition sized (x : list R) (sh : tshape) : Prop := length x = tsize sh.

  Record opdesc := mkD {
    d_args : list tshape;                 (* operand shapes *)
    d_rets : list tshape;                 (* result shapes *)
    d_ok : bool;                          (* the front-end guard *)
    d_nop : bool;                         (* BACKWARD_NOP *)
    d_fw : list (list R) -> list (list R);
    d_jvp : list (list R) -> list (list R) -> list (list R);
    d_bw : list (list R) -> list (list R) -> list (list R) -> list (list R) }.

  Definition desc_LA (d : opdesc) : Prop :=
    d_ok d = true -> forall xs dxs gys,
      Forall2 sized xs (d_args d) -> Forall2 sized dxs (d_args d) -> Forall2 sized gys (d_rets d) ->
      let incs := if d_nop d then [] else d_bw d xs (d_fw d xs) gys in
      dots incs dxs = dots gys (d_jvp d xs dxs) /\
      (d_nop d = false -> Forall2 sized incs (d_args d)) /\
      Forall2 sized (d_jvp d xs dxs) (d_rets d).

  Definition desc_shape (d : opdesc) (ashs : list tshape) : option (list tshape) :=
    if d_ok d && shapes_eqb ashs (d_args d) then Some (d_rets d) else None.

  (* one operand, one result, linear *)
  Definition unary_lin (sx sy : tshape) (ok : bool) (L Ls : list R -> list R) : opdesc :=
    {| d_args := [sx]; d_rets := [sy]; d_ok := ok; d_nop := false;
       d_fw := fun xs => [L (hd [] xs)];
       d_jvp := fun xs dxs => [L (hd [] dxs)];
       d_bw := fun xs ys gys => [Ls (hd [] gys)] |}.
  Lemma unary_lin_LA sx sy ok L Ls : (ok = true -> adj_of (tsize sy) (tsize sx) L Ls) -> desc_LA (unary_lin sx sy ok L Ls).
  Proof.
    intros Hadj Hok xs dxs gys Hx Hdx Hgy. cbn [unary_lin d_args d_rets d_ok d_nop d_fw d_jvp d_bw] in *.
    apply F2_one in Hdx. destruct Hdx as (dx & -> & Hdx). apply F2_one in Hgy. destruct Hgy as (gy & -> & Hgy).
    destruct (Hadj Hok gy dx Hgy Hdx) as (E & A & B). cbn [hd]. split; [|split].
    - cbn [OpFamily.dots]. rewrite E. reflexivity.
    - intros _. constructor; [exact A|constructor].
    - constructor; [exact B|constructor].
  Qed.

  (* two operands, one result, y = La a + Lb b *)
  Lemma binary_lin_LA (d : opdesc) sa sb sy La Lb Las Lbs :
    d_args d = [sa; sb] -> d_rets d = [sy] -> d_nop d = false ->
    (d_ok d = true -> adj_of (tsize sy) (tsize sa) La Las /\ adj_of (tsize sy) (tsize sb) Lb Lbs) ->
    (forall a b da db, d_jvp d [a; b] [da; db] = [vplus (La da) (Lb db)]) ->
    (forall a b ys gy, d_bw d [a; b] ys [gy] = [Las gy; Lbs gy]) ->
    desc_LA d.
  Proof.
    intros Ea Er En Hadj Ej Eb Hok xs dxs gys Hx Hdx Hgy. rewrite Ea in Hx, Hdx. rewrite Er in Hgy. rewrite En, Ea, Er.
    destruct (Hadj Hok) as (HA & HB).
    apply F2_two in Hx. destruct Hx as (a & b & -> & Ha & Hb).
    apply F2_two in Hdx. destruct Hdx as (da & db & -> & Hda & Hdb). apply F2_one in Hgy. destruct Hgy as (gy & -> & Hgy).
    rewrite Ej, Eb. destruct (HA gy da Hgy Hda) as (E1 & A1 & B1). destruct (HB gy db Hgy Hdb) as (E2 & A2 & B2).
    cbv zeta. split; [|split].
    - cbn [OpFamily.dots]. rewrite E1, E2, dot_vplus_r by congruence. ring.
    - intros _. constructor; [exact A1|constructor; [exact A2|constructor]].
    - constructor; [|constructor]. unfold sized. rewrite length_vplus by congruence. exact B1.
  Qed.

  (* ---------------------------------------------------------------- elementwise binary kernels
     CPUDEV_FW_AB forward over ab_fw, add_bw/subtract_bw/multiply_bw over ab_bw: the increment of
     slot ia(d) is ia_f(gy[d], a, b), of slot ib(d) is ib_f(gy[d], a, b) (ProofsBilinear, AbBw) *)
  Lemma seq_nth_map {A B} (h : nat * A -> B) dflt : forall (p : list (nat * A)) o,
    map fst p = seq o (length p) -> forall e, In e p -> nth (fst e - o) (map h p) dflt = h e.
  Proof.
    induction p as [|x p IH]; intros o H e Hin; [destruct Hin|]. cbn [length seq map] in H. injection H as Hx Hp.
    destruct Hin as [->|Hin].
    - rewrite Hx, Nat.sub_diag. reflexivity.
    - assert (Hin' : In (fst e) (seq (S o) (length p))) by (rewrite <- Hp; apply in_map; exact Hin).
      apply in_seq in Hin'. replace (fst e - o) with (S (fst e - S o)) by lia. cbn [map nth]. apply IH; assumption.
  Qed.
  Lemma sequential_length {A} (p : list (nat * A)) n : sequential p n -> length p = n.
  Proof. unfold sequential. intro H. rewrite <- (map_length fst), H. apply seq_length. Qed.

  Lemma slot_dot (sel : nat * (nat * nat) -> nat) (q : list (nat * (nat * nat))) (inc dx : list R) m :
    Forall (fun e => sel e < m) q -> length dx = m ->
    dot (scatterR (map (fun e => (sel e, fst e)) q) inc (zeros m)) dx
    = sumR (map (fun e => rmul (nth (fst e) inc rO) (nth (sel e) dx rO)) q).
  Proof.
    intros Hb Hl. rewrite scatter_incr, incr_dot; [|rewrite !Forall_map; exact Hb|exact Hl].
    rewrite !map_map. reflexivity.
  Qed.
  Lemma slot_length (sel : nat * (nat * nat) -> nat) (q : list (nat * (nat * nat))) (inc : list R) m :
    Forall (fun e => sel e < m) q -> length (scatterR (map (fun e => (sel e, fst e)) q) inc (zeros m)) = m.
  Proof.
    intro Hb. rewrite (scatter_length _ inc (zeros m) (S (list_max (map fst q)))); rewrite repeat_length; [reflexivity|].
    unfold acc_in_bounds. rewrite Forall_map. cbn [fst snd]. rewrite Forall_forall in *. intros e He. split; [apply Hb; exact He|].
    pose proof (list_max_le (map fst q) (list_max (map fst q))) as [H _]. specialize (H (le_n _)). rewrite Forall_forall in H.
    specialize (H (fst e) (in_map fst _ _ He)). lia.
  Qed.

  Section Elementwise.
    Variables (sa sb : tshape).
    Variable f : R -> R -> R.                  (* forward, per element *)
    Variable j : R -> R -> R -> R -> R.        (* tangent: a b da db *)
    Variables ia ib : R -> R -> R -> R.        (* increments of ga / gb: gy a b *)
    Hypothesis Hj : forall g a b da db, rmul g (j a b da db) = radd (rmul (ia g a b) da) (rmul (ib g a b) db).

    Definition ew_vals (h : R -> R -> R -> R) (q : list (nat * (nat * nat))) (gy a b : list R) : list R :=
      map (fun e => h (nth (fst e) gy rO) (nth (fst (snd e)) a rO) (nth (snd (snd e)) b rO)) q.
    Definition ew_desc : opdesc :=
      let sy := ew_shape sa sb in
      {| d_args := [sa; sb]; d_rets := [sy]; d_ok := ew_ok sa sb; d_nop := false;
         d_fw := fun xs => [ab_eval R rO f (ab_fw sa sb sy) (nth 0 xs []) (nth 1 xs [])];
         d_jvp := fun xs dxs =>
           let a := nth 0 xs [] in let b := nth 1 xs [] in let da := nth 0 dxs [] in let db := nth 1 dxs [] in
           [map (fun e => j (nth (fst (snd e)) a rO) (nth (snd (snd e)) b rO)
                            (nth (fst (snd e)) da rO) (nth (snd (snd e)) db rO)) (ab_fw sa sb sy)];
         d_bw := fun xs ys gys =>
           let gy := nth 0 gys [] in let a := nth 0 xs [] in let b := nth 1 xs [] in
           let q := ab_bw sa sb sy in
           [scatterR (slots_a q) (ew_vals ia q gy a b) (zeros (tsize sa));
            scatterR (slots_b q) (ew_vals ib q gy a b) (zeros (tsize sb))] |}.

    Lemma ew_LA : desc_LA ew_desc.
    Proof.
      intros Hok xs dxs gys Hx Hdx Hgy. cbn [ew_desc d_args d_rets d_ok d_nop d_fw d_jvp d_bw] in *.
      destruct (ew_ok_spec sa sb Hok) as (HVa & HVb & Hba & Hbb). cbv zeta in HVa, HVb, Hba, Hbb.
      set (sy := ew_shape sa sb) in *.
      apply F2_two in Hx. destruct Hx as (a & b & -> & Ha & Hb).
      apply F2_two in Hdx. destruct Hdx as (da & db & -> & Hda & Hdb). apply F2_one in Hgy. destruct Hgy as (gy & -> & Hgy).
      cbn [nth]. change (ab_bw sa sb sy) with (ab_fw sa sb sy). set (p := ab_fw sa sb sy).
      pose proof (ab_fw_sequential sa sb sy (tvolume sy) (tbatch sy) eq_refl eq_refl) as Hseq. fold p in Hseq.
      pose proof (ab_fw_in_bounds sa sb sy (tvolume sy) (tbatch sy) eq_refl eq_refl HVa HVb Hba Hbb) as Hbnd. fold p in Hbnd.
      assert (Hn : length p = tsize sy) by (rewrite (sequential_length p _ Hseq); reflexivity).
      assert (Hseq' : map fst p = seq 0 (length p)) by (rewrite Hn; exact Hseq).
      assert (HbA : Forall (fun e : nat * (nat * nat) => fst (snd e) < tsize sa) p) by (eapply Forall_impl; [|exact Hbnd]; cbn; tauto).
      assert (HbB : Forall (fun e : nat * (nat * nat) => snd (snd e) < tsize sb) p) by (eapply Forall_impl; [|exact Hbnd]; cbn; tauto).
      cbv zeta. split; [|split].
      - cbn [OpFamily.dots]. unfold slots_a, slots_b.
        rewrite (slot_dot (fun e => fst (snd e)) p _ da (tsize sa) HbA Hda).
        rewrite (slot_dot (fun e => snd (snd e)) p _ db (tsize sb) HbB Hdb).
        rewrite seq_dot0 by (unfold sized in Hgy; rewrite Hgy; exact Hseq).
        transitivity (sumR (map (fun e => radd
            (rmul (ia (nth (fst e) gy rO) (nth (fst (snd e)) a rO) (nth (snd (snd e)) b rO)) (nth (fst (snd e)) da rO))
            (rmul (ib (nth (fst e) gy rO) (nth (fst (snd e)) a rO) (nth (snd (snd e)) b rO)) (nth (snd (snd e)) db rO))) p)).
        + rewrite sumR_add.
          assert (E1 : forall e, In e p -> nth (fst e) (ew_vals ia p gy a b) rO = ia (nth (fst e) gy rO) (nth (fst (snd e)) a rO) (nth (snd (snd e)) b rO)).
          { intros e He. pose proof (seq_nth_map (fun e => ia (nth (fst e) gy rO) (nth (fst (snd e)) a rO) (nth (snd (snd e)) b rO)) rO p 0 Hseq' e He) as E.
            rewrite Nat.sub_0_r in E. exact E. }
          assert (E2 : forall e, In e p -> nth (fst e) (ew_vals ib p gy a b) rO = ib (nth (fst e) gy rO) (nth (fst (snd e)) a rO) (nth (snd (snd e)) b rO)).
          { intros e He. pose proof (seq_nth_map (fun e => ib (nth (fst e) gy rO) (nth (fst (snd e)) a rO) (nth (snd (snd e)) b rO)) rO p 0 Hseq' e He) as E.
            rewrite Nat.sub_0_r in E. exact E. }
          rewrite (sumR_ext _ _ p (fun e He => f_equal (fun v => rmul v (nth (fst (snd e)) da rO)) (E1 e He))).
          rewrite (sumR_ext _ _ p (fun e He => f_equal (fun v => rmul v (nth (snd (snd e)) db rO)) (E2 e He))).
          ring.
        + transitivity (radd (sumR (map (fun e => rmul (nth (fst e) gy rO)
              (j (nth (fst (snd e)) a rO) (nth (snd (snd e)) b rO) (nth (fst (snd e)) da rO) (nth (snd (snd e)) db rO))) p)) rO); [|reflexivity].
          rewrite r_add_comm, r_add_0_l. apply sumR_ext. intros e _. symmetry. apply Hj.
      - intros _. constructor; [|constructor; [|constructor]]; unfold sized, slots_a, slots_b.
        + apply (slot_length (fun e => fst (snd e))). exact HbA.
        + apply (slot_length (fun e => snd (snd e))). exact HbB.
      - constructor; [|constructor]. unfold sized. rewrite map_length. exact Hn.
    Qed.
  End Elementwise.


  (* ---------------------------------------------------------------- bilinear kernels given by triples
     forward  y[d] += a[ia] * b[ib]  into zeros, backward  ga[ia] += gy[d] * b[ib],
     gb[ib] += gy[d] * a[ia]  over the SAME triples (conv2d_fw_impl / conv2d_bw_impl) *)
  Definition bil_desc (sa sb sy : tshape) (ok : bool) (p : list (nat * (nat * nat))) : opdesc :=
    {| d_args := [sa; sb]; d_rets := [sy]; d_ok := ok; d_nop := false;
       d_fw := fun xs => [incr_run R rO radd (trip_fw R rO rmul p (nth 0 xs []) (nth 1 xs [])) (zeros (tsize sy))];
       d_jvp := fun xs dxs =>
         [incr_run R rO radd (trip_dfw R rO radd rmul p (nth 0 xs []) (nth 1 xs []) (nth 0 dxs []) (nth 1 dxs []))
                   (zeros (tsize sy))];
       d_bw := fun xs ys gys =>
         let gy := nth 0 gys [] in
         [incr_run R rO radd (trip_bw_x R rO rmul p gy (nth 1 xs [])) (zeros (tsize sa));
          incr_run R rO radd (trip_bw_w R rO rmul p gy (nth 0 xs [])) (zeros (tsize sb))] |}.
  Lemma bil_LA sa sb sy ok p :
    (ok = true -> Forall (fun e : nat * (nat * nat) => fst e < tsize sy /\ fst (snd e) < tsize sa /\ snd (snd e) < tsize sb) p) ->
    desc_LA (bil_desc sa sb sy ok p).
  Proof.
    intros Hb Hok xs dxs gys Hx Hdx Hgy. cbn [bil_desc d_args d_rets d_ok d_nop d_fw d_jvp d_bw] in *. specialize (Hb Hok).
    apply F2_two in Hx. destruct Hx as (a & b & -> & Ha & Hbb).
    apply F2_two in Hdx. destruct Hdx as (da & db & -> & Hda & Hdb). apply F2_one in Hgy. destruct Hgy as (gy & -> & Hgy).
    cbn [nth]. unfold sized in *. cbv zeta. split; [|split].
    - pose proof (triple_adjoint R rO radd rmul r_add_comm r_add_assoc r_add_0_l r_mul_comm r_mul_assoc r_distr_r r_mul_0_l
                    p a b da db gy (zeros (tsize sa)) (zeros (tsize sb))) as H.
      rewrite !repeat_length, Hgy in H. specialize (H Hb Hda Hdb). idot_in H.
      cbn [OpFamily.dots]. rewrite !dot_zeros_l in H. rewrite (dot_comm gy).
      transitivity (radd (dot (incr_run R rO radd (trip_bw_x R rO rmul p gy b) (zeros (tsize sa))) da)
                         (dot (incr_run R rO radd (trip_bw_w R rO rmul p gy a) (zeros (tsize sb))) db)); [ring|].
      rewrite H. ring.
    - intros _. constructor; [|constructor; [|constructor]]; unfold sized; rewrite incr_run_length', repeat_length; try reflexivity;
        rewrite repeat_length; [unfold trip_bw_x|unfold trip_bw_w]; rewrite Forall_map; cbn [fst];
        (eapply Forall_impl; [|exact Hb]); cbn; tauto.
    - constructor; [|constructor]. unfold sized. rewrite incr_run_length', repeat_length; [reflexivity|].
      rewrite repeat_length. unfold trip_dfw. rewrite Forall_map. cbn [fst]. eapply Forall_impl; [|exact Hb]. cbn. tauto.
  Qed.

  (* ---------------------------------------------------------------- one operand, n results of one shape,
     backward = n accumulation programs applied one after the other to the ONE gx (Split) *)
  Fixpoint fan_acc (bw : nat -> acc) (i : nat) (gys : list (list R)) (gx : list R) : list R :=
    match gys with [] => gx | gy :: r => fan_acc bw (S i) r (scatterR (bw i) gy gx) end.
  Lemma fan_acc_adj (fw : nat -> mov) (bw : nat -> acc) ny m (dx : list R) : length dx = m ->
    forall gys i gx, length gx = m -> Forall (fun gy : list R => length gy = ny) gys ->
      (forall j, i <= j < i + length gys -> adjoint_pair (fw j) (bw j) ny m) ->
      dot (fan_acc bw i gys gx) dx
      = radd (dot gx dx) (dots gys (map (fun j => gatherR (fw j) ny dx) (seq i (length gys))))
      /\ length (fan_acc bw i gys gx) = m.
  Proof.
    intro Hd. induction gys as [|gy r IH]; intros i gx Hgx Hall Hp; cbn [fan_acc length seq map OpFamily.dots].
    - split; [ring|exact Hgx].
    - pose proof (Forall_inv Hall) as Hgy. pose proof (Forall_inv_tail Hall) as Hr. cbv beta in Hgy.
      assert (Hpi : adjoint_pair (fw i) (bw i) ny m) by (apply Hp; cbn [length]; lia).
      assert (Hl : length (scatterR (bw i) gy gx) = m).
      { destruct Hpi as (_ & _ & Hb). rewrite (scatter_length _ gy gx ny); [exact Hgx|]. rewrite Hgx. exact Hb. }
      destruct (IH (S i) (scatterR (bw i) gy gx) Hl Hr) as (E & L).
      { intros j Hj. apply Hp. cbn [length]. lia. }
      split; [|exact L]. rewrite E.
      pose proof (adjoint_pair_scatter R rO radd rmul r_add_comm r_add_assoc r_add_0_l r_distr_r
                    (fw i) (bw i) ny m gy gx dx Hpi Hgx Hgy Hd) as H. idot_in H.
      rewrite H. ring.
  Qed.
  Definition fan_desc (sx sy : tshape) (n : nat) (ok : bool) (fw : nat -> mov) (bw : nat -> acc) : opdesc :=
    {| d_args := [sx]; d_rets := repeat sy n; d_ok := ok; d_nop := false;
       d_fw := fun xs => map (fun i => gatherR (fw i) (tsize sy) (hd [] xs)) (seq 0 n);
       d_jvp := fun xs dxs => map (fun i => gatherR (fw i) (tsize sy) (hd [] dxs)) (seq 0 n);
       d_bw := fun xs ys gys => [fan_acc bw 0 gys (zeros (tsize sx))] |}.
  Lemma F2_repeat (gys : list (list R)) sy : forall n, Forall2 sized gys (repeat sy n) ->
    length gys = n /\ Forall (fun gy : list R => length gy = tsize sy) gys.
  Proof.
    induction gys as [|gy r IH]; intros [|n] H; inversion H; subst; [split; [reflexivity|constructor]|].
    destruct (IH n) as (A & B); [assumption|]. split; [cbn [length]; lia|constructor; assumption].
  Qed.
  Lemma fan_LA sx sy n ok fw bw :
    (ok = true -> forall i, i < n -> adjoint_pair (fw i) (bw i) (tsize sy) (tsize sx)) ->
    desc_LA (fan_desc sx sy n ok fw bw).
  Proof.
    intros Hp Hok xs dxs gys Hx Hdx Hgy. cbn [fan_desc d_args d_rets d_ok d_nop d_fw d_jvp d_bw] in *. specialize (Hp Hok).
    apply F2_one in Hdx. destruct Hdx as (dx & -> & Hdx). destruct (F2_repeat gys sy n Hgy) as (Hn & Hall). cbn [hd].
    destruct (fan_acc_adj fw bw (tsize sy) (tsize sx) dx Hdx gys 0 (zeros (tsize sx)) (repeat_length _ _) Hall) as (E & L).
    { intros j Hj. apply Hp. lia. }
    cbv zeta. split; [|split].
    - cbn [OpFamily.dots]. rewrite E, dot_zeros_l, Hn. ring.
    - intros _. constructor; [exact L|constructor].
    - clear. generalize 0 as o. induction n as [|n IH]; intro o; cbn [seq map repeat]; constructor; [apply gather_length|apply IH].
  Qed.

  (* ---------------------------------------------------------------- several operands, one result
     (Concat, BatchConcat): the forward program assigns y[d] := x_k[s]; it is the union over
     the operands k of "paste operand k" accumulation programs F k (lifted to operand k), and
     the backward of operand k, Bk k, is the adjoint of pasting *)
  Definition lookupN (fw : mov) (xs : list (list R)) (d : nat) : R :=
    match find (fun e => fst e =? d) fw with
    | Some e => nth (snd (snd e)) (nth (fst (snd e)) xs []) rO
    | None => rO
    end.
  Definition gatherN (fw : mov) (n : nat) (xs : list (list R)) : list R := map (lookupN fw xs) (seq 0 n).
  Lemma gatherN_length fw n xs : length (gatherN fw n xs) = n.
  Proof. unfold gatherN. rewrite map_length, seq_length. reflexivity. Qed.

  Lemma sum_over_sumR (h : nat -> R) {A} (g : A -> nat) (l : list A) :
    sum_over R rO radd h (map g l) = sumR (map (fun e => h (g e)) l).
  Proof. induction l as [|e l IH]; cbn [map sum_over sum_list fold_right]; [reflexivity|]. rewrite IH. reflexivity. Qed.

  Lemma gatherN_dot fw n xs (gy : list R) : covers fw n -> length gy = n ->
    dot gy (gatherN fw n xs)
    = sumR (map (fun e => rmul (nth (fst e) gy rO) (nth (snd (snd e)) (nth (fst (snd e)) xs []) rO)) fw).
  Proof.
    intros Hc Hl. unfold gatherN. subst n.
    pose proof (dot_sum_over R rO radd rmul (lookupN fw xs) gy 0) as H. idot_in H. rewrite H.
    rewrite <- (sum_over_perm R rO radd r_add_comm r_add_assoc _ _ _ Hc), sum_over_sumR.
    apply sumR_ext. intros e He. rewrite Nat.sub_0_r. f_equal. unfold lookupN.
    rewrite (find_unique fw e (ProofsGather.covers_NoDup _ _ Hc) He). reflexivity.
  Qed.

  Lemma sumR_flat_map {A B} (h : B -> R) (g : A -> list B) l :
    sumR (map h (flat_map g l)) = sumR (map (fun k => sumR (map h (g k))) l).
  Proof.
    induction l as [|a l IH]; cbn [flat_map map]; [reflexivity|].
    rewrite map_app, (sum_list_app R rO radd r_add_assoc r_add_0_l), IH. reflexivity.
  Qed.
  Lemma dots_map2 {A} (f g : A -> list R) l : dots (map f l) (map g l) = sumR (map (fun k => dot (f k) (g k)) l).
  Proof. induction l as [|a l IH]; cbn [map OpFamily.dots sum_list fold_right]; [reflexivity|]. rewrite IH. reflexivity. Qed.
  Lemma gather_sum_sumR q (a b : list R) :
    gather_sum R rO radd rmul q a b = sumR (map (fun e => rmul (nth (snd e) a rO) (nth (fst e) b rO)) q).
  Proof. induction q as [|[d s] q IH]; cbn [gather_sum map sum_list fold_right fst snd]; [reflexivity|]. rewrite IH. reflexivity. Qed.
  Lemma map_nth_seq' {A} (l : list A) dflt : l = map (fun k => nth k l dflt) (seq 0 (length l)).
  Proof.
    apply (nth_ext _ _ dflt dflt); [rewrite map_length, seq_length; reflexivity|]. intros k Hk.
    symmetry. rewrite (nth_indep (map (fun k => nth k l dflt) (seq 0 (length l))) dflt (nth 0 l dflt))
      by (rewrite map_length, seq_length; exact Hk).
    rewrite (map_nth (fun k => nth k l dflt)), seq_nth by exact Hk. reflexivity.
  Qed.
  Lemma Forall2_nth_error {A B} (P : A -> B -> Prop) l l' : Forall2 P l l' ->
    forall k y, nth_error l' k = Some y -> exists x, nth_error l k = Some x /\ P x y.
  Proof.
    induction 1 as [|x y l l' Hxy _ IH]; intros [|k] y' Hk; try discriminate.
    - injection Hk as <-. exists x. auto.
    - apply IH. exact Hk.
  Qed.
  Lemma Forall2_length' {A B} (P : A -> B -> Prop) l l' : Forall2 P l l' -> length l = length l'.
  Proof. induction 1; cbn [length]; congruence. Qed.
  Lemma Forall2_map_seq {B} (P : list R -> B -> Prop) (f : nat -> list R) : forall (l' : list B) o,
    (forall i y, nth_error l' i = Some y -> P (f (o + i)) y) -> Forall2 P (map f (seq o (length l'))) l'.
  Proof.
    induction l' as [|y l' IH]; intros o H; cbn [length seq map]; constructor.
    - rewrite <- (Nat.add_0_r o). apply (H 0 y). reflexivity.
    - apply IH. intros i y' Hi. replace (S o + i) with (o + S i) by lia. apply (H (S i)). exact Hi.
  Qed.

  Definition lift_acc (k : nat) (q : acc) : mov := map (fun e => (fst e, (k, snd e))) q.
  Definition nary_desc (xs : list tshape) (sy : tshape) (ok : bool) (fw : mov) (Bk : nat -> list R -> list R) : opdesc :=
    {| d_args := xs; d_rets := [sy]; d_ok := ok; d_nop := false;
       d_fw := fun vs => [gatherN fw (tsize sy) vs];
       d_jvp := fun vs dvs => [gatherN fw (tsize sy) dvs];
       d_bw := fun vs ys gys => map (fun k => Bk k (hd [] gys)) (seq 0 (length xs)) |}.
  Lemma nary_LA xs sy ok fw (F : nat -> acc) Bk :
    (ok = true -> covers fw (tsize sy) /\ fw = flat_map (fun k => lift_acc k (F k)) (seq 0 (length xs)) /\
       forall k sk, nth_error xs k = Some sk -> acc_in_bounds (F k) (tsize sy) (tsize sk) /\
         adj_of (tsize sy) (tsize sk) (fun x => scatterR (F k) x (zeros (tsize sy))) (Bk k)) ->
    desc_LA (nary_desc xs sy ok fw Bk).
  Proof.
    intros Hc Hok vs dvs gys Hx Hdx Hgy. cbn [nary_desc d_args d_rets d_ok d_nop d_fw d_jvp d_bw] in *.
    destruct (Hc Hok) as (Hcov & Hfw & Hk). clear Hc.
    apply F2_one in Hgy. destruct Hgy as (gy & -> & Hgy). cbn [hd]. unfold sized in Hgy.
    assert (HK : length dvs = length xs) by (apply (Forall2_length' _ _ _ Hdx)).
    assert (Hkk : forall k, In k (seq 0 (length xs)) -> exists sk, nth_error xs k = Some sk /\ length (nth k dvs []) = tsize sk).
    { intros k Hin. apply in_seq in Hin. destruct (nth_error xs k) as [sk|] eqn:E; [|apply nth_error_None in E; lia].
      exists sk. split; [reflexivity|]. destruct (Forall2_nth_error _ _ _ Hdx k sk E) as (x & Ex & Hs).
      rewrite (nth_error_nth _ _ _ Ex). exact Hs. }
    cbv zeta. split; [|split].
    - cbn [OpFamily.dots]. rewrite (gatherN_dot fw (tsize sy) dvs gy Hcov Hgy).
      rewrite (map_nth_seq' dvs []) at 1. rewrite HK, dots_map2. rewrite Hfw, sumR_flat_map.
      transitivity (sumR (map (fun k => sumR (map (fun e : nat * (nat * nat) =>
          rmul (nth (fst e) gy rO) (nth (snd (snd e)) (nth (fst (snd e)) dvs []) rO)) (lift_acc k (F k)))) (seq 0 (length xs)))); [|ring].
      apply sumR_ext. intros k Hin. destruct (Hkk k Hin) as (sk & Esk & Hlen). destruct (Hk k sk Esk) as (Hb & Hadj).
      destruct (Hadj gy (nth k dvs []) Hgy Hlen) as (E & _ & _). rewrite E, dot_comm.
      pose proof (scatter_adjoint R rO radd rmul r_add_comm r_add_assoc r_add_0_l r_distr_r (F k) (nth k dvs []) (zeros (tsize sy)) gy) as H.
      rewrite repeat_length, Hlen in H. idot_in H. rewrite H by auto. rewrite dot_zeros_l, gather_sum_sumR, r_add_0_l.
      unfold lift_acc. rewrite map_map. cbn [fst snd]. apply sumR_ext. intros e _. ring.
    - intros _. rewrite <- (Nat.add_0_l (length xs)). apply (Forall2_map_seq sized (fun k => Bk k gy) xs 0).
      intros i sk Esk. cbn [Nat.add]. destruct (Hk i sk Esk) as (_ & Hadj).
      destruct (Hadj gy (zeros (tsize sk)) Hgy (repeat_length _ _)) as (_ & A & _). exact A.
    - constructor; [apply gatherN_length|constructor].
  Qed.

  (* ---------------------------------------------------------------- unary elementwise kernels with a constant
     (CPUDEV_FW_X_CONST / CPUDEV_BW_X_CONST):  y[i] = f(x[i]),  gx[i] += g(gy[i]);  tangent c(dx[i]) *)
  Definition un_desc (s : tshape) (f c g : R -> R) : opdesc :=
    {| d_args := [s]; d_rets := [s]; d_ok := true; d_nop := false;
       d_fw := fun xs => [un_eval R rO f (tsize s) (hd [] xs)];
       d_jvp := fun xs dxs => [un_eval R rO c (tsize s) (hd [] dxs)];
       d_bw := fun xs ys gys =>
         [incr_run R rO radd (map (fun e => (fst e, g (nth (snd (snd e)) (hd [] gys) rO))) (identity_pairs (tsize s)))
                   (zeros (tsize s))] |}.
  Lemma un_LA s f c g : (forall u d, rmul u (c d) = rmul (g u) d) -> desc_LA (un_desc s f c g).
  Proof.
    intros Hc Hok xs dxs gys Hx Hdx Hgy. cbn [un_desc d_args d_rets d_ok d_nop d_fw d_jvp d_bw] in *.
    apply F2_one in Hdx. destruct Hdx as (dx & -> & Hdx). apply F2_one in Hgy. destruct Hgy as (gy & -> & Hgy).
    cbn [hd]. unfold sized in *. set (n := tsize s) in *.
    assert (Hb : Forall (fun e : nat * R => fst e < n)
                   (map (fun e : nat * (nat * nat) => (fst e, g (nth (snd (snd e)) gy rO))) (identity_pairs n))).
    { rewrite Forall_map. cbn [fst]. apply Forall_forall. intros [d [k s0]] Hin. apply identity_spec in Hin. cbn [fst]. tauto. }
    cbv zeta. split; [|split].
    - cbn [OpFamily.dots]. rewrite (incr_dot _ n dx Hb Hdx). unfold un_eval.
      rewrite seq_dot0 by (rewrite Hgy; apply identity_sequential). rewrite map_map. cbn [fst snd].
      f_equal. apply sumR_ext. intros [d [k s0]] Hin. apply identity_spec in Hin. destruct Hin as (_ & _ & ->). cbn [fst snd].
      symmetry. apply Hc.
    - intros _. constructor; [|constructor]. unfold sized. rewrite incr_run_length', repeat_length; [reflexivity|]. rewrite repeat_length. exact Hb.
    - constructor; [|constructor]. unfold sized, un_eval, identity_pairs, range. rewrite !map_length, seq_length. reflexivity.
  Qed.
  Lemma vneg_adj n : adj_of n n vneg vneg.
  Proof.
    intros gy dx Hg Hd. split; [|split; unfold vneg; rewrite map_length; assumption].
    rewrite dot_vneg_l, (dot_comm gy (vneg dx)), dot_vneg_l, (dot_comm dx gy). reflexivity.
  Qed.

  (* ---------------------------------------------------------------- the family built from descriptors *)
  Definition desc_family {O} (describe : O -> opdesc) (inner dev : O -> option nat) : OpFamily O tshape (@OpFamily.vec R) :=
    {| f_argn := fun o => ArgExact (length (d_args (describe o)));
       f_retn := fun o => length (d_rets (describe o));
       f_inner := inner;
       f_dev := dev;
       f_rand := fun _ => None;
       f_nop := fun o => d_nop (describe o);
       f_shape := fun o ashs => desc_shape (describe o) ashs;
       f_fw := fun o _ xs => d_fw (describe o) xs;
       f_bw := fun o xs ys gys => d_bw (describe o) xs ys gys |}.
  Definition desc_jvp {O} (describe : O -> opdesc) : JvpFamily (R := R) O := fun o _ xs dxs => d_jvp (describe o) xs dxs.

  (* a descriptor's adjointness is LocalAdjoint of the family *)
  Theorem desc_family_LA {O} (describe : O -> opdesc) inner dev (o : O) : desc_LA (describe o) ->
    LocalAdjoint rO radd rmul (desc_family describe inner dev) (desc_jvp describe) tsize o.
  Proof.
    intros HLA pos ashs rshs xs dxs gys Hs Hx Hdx Hgy. cbn [desc_family f_shape f_fw] in *. unfold desc_shape in Hs.
    destruct (d_ok (describe o)) eqn:Hok; [|discriminate]. cbn [andb] in Hs.
    destruct (shapes_eqb ashs (d_args (describe o))) eqn:Hsh; [|discriminate]. injection Hs as <-.
    apply shapes_eqb_eq in Hsh. subst ashs.
    destruct (HLA Hok xs dxs gys Hx Hdx Hgy) as (E & Hinc & Hj).
    unfold eff_bw, desc_jvp. cbn [desc_family f_nop f_bw f_fw]. cbv zeta. split; [exact E|split; [|exact Hj]].
    intros i inc Hi. destruct (d_nop (describe o)); [destruct i; discriminate|].
    specialize (Hinc eq_refl). clear - Hinc Hi. revert i Hi. induction Hinc as [|x sh l l' Hxs _ IH]; intros [|i] Hi; try discriminate.
    - injection Hi as <-. exists sh. split; [reflexivity|exact Hxs].
    - apply IH. exact Hi.
  Qed.

  (* ---------------------------------------------------------------- unary elementwise kernels reading x and y
     (CPUDEV_FW_X / CPUDEV_BW_X):  y[i] = f(x[i]),  gx[i] += bw(x[i], y[i], gy[i]);
     tangent dx[i] * bw(x[i], f(x[i]), 1)  (the backward formula at gy = 1 is the local slope) *)
  Definition uny_desc (s : tshape) (f : R -> R) (bw : R -> R -> R -> R) : opdesc :=
    {| d_args := [s]; d_rets := [s]; d_ok := true; d_nop := false;
       d_fw := fun xs => [un_eval R rO f (tsize s) (hd [] xs)];
       d_jvp := fun xs dxs =>
         [map (fun e : nat * (nat * nat) => let i := snd (snd e) in
                 rmul (nth i (hd [] dxs) rO) (bw (nth i (hd [] xs) rO) (f (nth i (hd [] xs) rO)) rI))
              (identity_pairs (tsize s))];
       d_bw := fun xs ys gys =>
         [incr_run R rO radd
            (map (fun e : nat * (nat * nat) => let i := snd (snd e) in
                    (fst e, bw (nth i (hd [] xs) rO) (nth i (hd [] ys) rO) (nth i (hd [] gys) rO)))
                 (identity_pairs (tsize s))) (zeros (tsize s))] |}.
  Lemma un_eval_nth f n (x : list R) i : i < n -> nth i (un_eval R rO f n x) rO = f (nth i x rO).
  Proof.
    intro Hi. unfold un_eval, identity_pairs, range. rewrite map_map. cbn [snd].
    rewrite (nth_indep _ rO (f (nth 0 x rO))) by (rewrite map_length, seq_length; exact Hi).
    rewrite (map_nth (fun j => f (nth j x rO))), seq_nth by exact Hi. reflexivity.
  Qed.
  Lemma uny_LA s f bw : (forall x y g, bw x y g = rmul g (bw x y rI)) -> desc_LA (uny_desc s f bw).
  Proof.
    intros Hlin Hok xs dxs gys Hx Hdx Hgy. cbn [uny_desc d_args d_rets d_ok d_nop d_fw d_jvp d_bw] in *.
    apply F2_one in Hx. destruct Hx as (x & -> & Hx).
    apply F2_one in Hdx. destruct Hdx as (dx & -> & Hdx). apply F2_one in Hgy. destruct Hgy as (gy & -> & Hgy).
    cbn [hd]. unfold sized in *. set (n := tsize s) in *.
    assert (Hin : forall e, In e (identity_pairs n) -> fst e < n /\ snd (snd e) = fst e).
    { intros [d [k s0]] H. apply identity_spec in H. cbn [fst snd]. destruct H as (A & _ & B). split; [exact A|exact B]. }
    cbv zeta. split; [|split].
    - cbn [OpFamily.dots]. rewrite (incr_dot _ n dx); [| |exact Hdx].
      2:{ rewrite Forall_map. cbn [fst]. apply Forall_forall. intros e He. apply (Hin e He). }
      rewrite seq_dot0 by (rewrite Hgy; apply identity_sequential). rewrite map_map. cbn [fst snd].
      f_equal. apply sumR_ext. intros e He. destruct (Hin e He) as (Hlt & ->).
      rewrite (un_eval_nth f n x (fst e) Hlt), Hlin. ring.
    - intros _. constructor; [|constructor]. unfold sized. rewrite incr_run_length', repeat_length; [reflexivity|].
      rewrite repeat_length, Forall_map. cbn [fst]. apply Forall_forall. intros e He. apply (Hin e He).
    - constructor; [|constructor]. unfold sized, identity_pairs, range. rewrite !map_length, seq_length. reflexivity.
  Qed.

  (* ---------------------------------------------------------------- binary elementwise kernels whose backward reads
     y too (divide_bw_impl, pow_bw_impl):  ga[ia] += ia_f(gy, a, b, y),  gb[ib] += ib_f(gy, a, b, y) *)
  Section ElementwiseY.
    Variables (sa sb : tshape).
    Variable f : R -> R -> R.
    Variable j : R -> R -> R -> R -> R.            (* tangent: a b da db *)
    Variables ia ib : R -> R -> R -> R -> R.       (* increments: gy a b y *)
    Hypothesis Hj : forall g a b da db,
      rmul g (j a b da db) = radd (rmul (ia g a b (f a b)) da) (rmul (ib g a b (f a b)) db).

    Definition ewy_vals (h : R -> R -> R -> R -> R) (q : list (nat * (nat * nat))) (gy a b y : list R) : list R :=
      map (fun e => h (nth (fst e) gy rO) (nth (fst (snd e)) a rO) (nth (snd (snd e)) b rO) (nth (fst e) y rO)) q.
    Definition ewy_desc : opdesc :=
      let sy := ew_shape sa sb in
      {| d_args := [sa; sb]; d_rets := [sy]; d_ok := ew_ok sa sb; d_nop := false;
         d_fw := fun xs => [ab_eval R rO f (ab_fw sa sb sy) (nth 0 xs []) (nth 1 xs [])];
         d_jvp := fun xs dxs =>
           let a := nth 0 xs [] in let b := nth 1 xs [] in let da := nth 0 dxs [] in let db := nth 1 dxs [] in
           [map (fun e => j (nth (fst (snd e)) a rO) (nth (snd (snd e)) b rO)
                            (nth (fst (snd e)) da rO) (nth (snd (snd e)) db rO)) (ab_fw sa sb sy)];
         d_bw := fun xs ys gys =>
           let gy := nth 0 gys [] in let a := nth 0 xs [] in let b := nth 1 xs [] in let y := nth 0 ys [] in
           let q := ab_bw sa sb sy in
           [scatterR (slots_a q) (ewy_vals ia q gy a b y) (zeros (tsize sa));
            scatterR (slots_b q) (ewy_vals ib q gy a b y) (zeros (tsize sb))] |}.

    Lemma ewy_LA : desc_LA ewy_desc.
    Proof.
      intros Hok xs dxs gys Hx Hdx Hgy. cbn [ewy_desc d_args d_rets d_ok d_nop d_fw d_jvp d_bw] in *.
      destruct (ew_ok_spec sa sb Hok) as (HVa & HVb & Hba & Hbb). cbv zeta in HVa, HVb, Hba, Hbb.
      set (sy := ew_shape sa sb) in *.
      apply F2_two in Hx. destruct Hx as (a & b & -> & Ha & Hb).
      apply F2_two in Hdx. destruct Hdx as (da & db & -> & Hda & Hdb). apply F2_one in Hgy. destruct Hgy as (gy & -> & Hgy).
      cbn [nth]. change (ab_bw sa sb sy) with (ab_fw sa sb sy). set (p := ab_fw sa sb sy).
      pose proof (ab_fw_sequential sa sb sy (tvolume sy) (tbatch sy) eq_refl eq_refl) as Hseq. fold p in Hseq.
      pose proof (ab_fw_in_bounds sa sb sy (tvolume sy) (tbatch sy) eq_refl eq_refl HVa HVb Hba Hbb) as Hbnd. fold p in Hbnd.
      assert (Hn : length p = tsize sy) by (rewrite (sequential_length p _ Hseq); reflexivity).
      assert (Hseq' : map fst p = seq 0 (length p)) by (rewrite Hn; exact Hseq).
      assert (HbA : Forall (fun e : nat * (nat * nat) => fst (snd e) < tsize sa) p) by (eapply Forall_impl; [|exact Hbnd]; cbn; tauto).
      assert (HbB : Forall (fun e : nat * (nat * nat) => snd (snd e) < tsize sb) p) by (eapply Forall_impl; [|exact Hbnd]; cbn; tauto).
      set (y := ab_eval R rO f p a b).
      assert (Ey : forall e, In e p -> nth (fst e) y rO = f (nth (fst (snd e)) a rO) (nth (snd (snd e)) b rO)).
      { intros e He. pose proof (seq_nth_map (fun e => f (nth (fst (snd e)) a rO) (nth (snd (snd e)) b rO)) rO p 0 Hseq' e He) as E.
        rewrite Nat.sub_0_r in E. exact E. }
      cbv zeta. split; [|split].
      - cbn [OpFamily.dots]. unfold slots_a, slots_b.
        rewrite (slot_dot (fun e => fst (snd e)) p _ da (tsize sa) HbA Hda).
        rewrite (slot_dot (fun e => snd (snd e)) p _ db (tsize sb) HbB Hdb).
        rewrite seq_dot0 by (unfold sized in Hgy; rewrite Hgy; exact Hseq).
        assert (E1 : forall e, In e p -> nth (fst e) (ewy_vals ia p gy a b y) rO
                     = ia (nth (fst e) gy rO) (nth (fst (snd e)) a rO) (nth (snd (snd e)) b rO) (nth (fst e) y rO)).
        { intros e He. pose proof (seq_nth_map (fun e => ia (nth (fst e) gy rO) (nth (fst (snd e)) a rO) (nth (snd (snd e)) b rO) (nth (fst e) y rO)) rO p 0 Hseq' e He) as E.
          rewrite Nat.sub_0_r in E. exact E. }
        assert (E2 : forall e, In e p -> nth (fst e) (ewy_vals ib p gy a b y) rO
                     = ib (nth (fst e) gy rO) (nth (fst (snd e)) a rO) (nth (snd (snd e)) b rO) (nth (fst e) y rO)).
        { intros e He. pose proof (seq_nth_map (fun e => ib (nth (fst e) gy rO) (nth (fst (snd e)) a rO) (nth (snd (snd e)) b rO) (nth (fst e) y rO)) rO p 0 Hseq' e He) as E.
          rewrite Nat.sub_0_r in E. exact E. }
        rewrite (sumR_ext _ _ p (fun e He => f_equal (fun v => rmul v (nth (fst (snd e)) da rO)) (E1 e He))).
        rewrite (sumR_ext _ _ p (fun e He => f_equal (fun v => rmul v (nth (snd (snd e)) db rO)) (E2 e He))).
        transitivity (radd (sumR (map (fun e : nat * (nat * nat) =>
              radd (rmul (ia (nth (fst e) gy rO) (nth (fst (snd e)) a rO) (nth (snd (snd e)) b rO) (nth (fst e) y rO)) (nth (fst (snd e)) da rO))
                   (rmul (ib (nth (fst e) gy rO) (nth (fst (snd e)) a rO) (nth (snd (snd e)) b rO) (nth (fst e) y rO)) (nth (snd (snd e)) db rO))) p)) rO).
        { rewrite sumR_add. ring. }
        f_equal.
        apply sumR_ext. intros e He. rewrite (Ey e He). symmetry. apply Hj.
      - intros _. constructor; [|constructor; [|constructor]]; unfold sized, slots_a, slots_b.
        + apply (slot_length (fun e => fst (snd e))). exact HbA.
        + apply (slot_length (fun e => snd (snd e))). exact HbB.
      - constructor; [|constructor]. unfold sized. rewrite map_length. exact Hn.
    Qed.
  End ElementwiseY.
End AdjCore.
