(* Elementwise kernels with minibatch broadcasting (the minibatch law, C03), matmul, conv2d and
   max_pool2d: what the index programs of Tensor/Kernels.v compute, under the relation between
   the operand shapes that the Device front end (core/device.cc + core/shape_ops.cc) establishes.

   Reading guide
     bsel s b                 "sample b of an operand of shape s, or the single shared sample when
                               s has batch 1"  ( = b * has_batch(s), the C++ skip arithmetic)
     block b V l              elements b*V .. b*V+V-1 of l  (sample b of a value list)
     sample_or_shared s b V l = block (bsel s b) V l
     incr_run p y             run the increments  y[d] += v  of p in order
     cell d p                 the entries of p whose destination is d, in program order. *)
From Coq Require Import List Arith Lia Permutation Bool Sorted.
From PV Require Import Tensor.Kernels Tensor.Index Tensor.KernelProofs.
Import ListNotations.

(* ================================================================== list toolkit *)
Lemma nth_firstn_lt {A} (z : A) : forall n i l, i < n -> nth i (firstn n l) z = nth i l z.
Proof.
  induction n as [|n IH]; intros i l Hi; [lia|].
  destruct l as [|x l]; [reflexivity|]. destruct i as [|i]; [reflexivity|].
  cbn [firstn nth]. apply IH. lia.
Qed.

Lemma nth_skipn_add {A} (z : A) : forall k i l, nth i (skipn k l) z = nth (k + i) l z.
Proof.
  induction k as [|k IH]; intros i l; [reflexivity|].
  destruct l as [|x l]; [destruct i; reflexivity|]. cbn [skipn Nat.add nth]. apply IH.
Qed.

Definition block {A} (b V : nat) (l : list A) : list A := firstn V (skipn (b * V) l).

Lemma nth_block {A} (z : A) b V i l : i < V -> nth i (block b V l) z = nth (b * V + i) l z.
Proof. intro Hi. unfold block. rewrite nth_firstn_lt by exact Hi. apply nth_skipn_add. Qed.

Lemma block_map {A B} (f : A -> B) b V l : block b V (map f l) = map f (block b V l).
Proof. unfold block. rewrite skipn_map, firstn_map. reflexivity. Qed.

Lemma block_length {A} b V (l : list A) : (b + 1) * V <= length l -> length (block b V l) = V.
Proof. intro H. unfold block. rewrite firstn_length, skipn_length. lia. Qed.

Lemma block_all {A} V (l : list A) : length l = V -> block 0 V l = l.
Proof. intro H. unfold block. cbn [Nat.mul skipn]. apply firstn_all2. lia. Qed.

Lemma block_flat_map {A} V (f : nat -> list A) : (forall i, length (f i) = V) ->
  forall n b, b < n -> block b V (flat_map2 n f) = f b.
Proof.
  intros Hf n b Hb. unfold flat_map2, range.
  assert (G : forall n s b, b < n -> block b V (flat_map f (seq s n)) = f (s + b)).
  { clear n b Hb. induction n as [|n IH]; intros s b Hb; [lia|]. cbn [seq flat_map].
    destruct b as [|b].
    - unfold block. cbn [Nat.mul skipn]. rewrite firstn_app, Hf, Nat.sub_diag. cbn [firstn].
      rewrite app_nil_r, Nat.add_0_r. apply firstn_all2. rewrite Hf. lia.
    - unfold block. rewrite skipn_app, Hf. rewrite skipn_all2 by (rewrite Hf; lia).
      cbn [app]. replace (S b * V - V) with (b * V) by lia.
      change (block b V (flat_map f (seq (S s) n)) = f (s + S b)).
      rewrite IH by lia. f_equal. lia. }
  rewrite G by exact Hb. reflexivity.
Qed.

Lemma map_flat_map {A B C} (g : B -> C) (f : A -> list B) l :
  map g (flat_map f l) = flat_map (fun x => map g (f x)) l.
Proof. induction l as [|x l IH]; cbn [flat_map map]; [reflexivity|]. rewrite map_app, IH. reflexivity. Qed.

Lemma filter_flat_map {A B} (P : B -> bool) (f : A -> list B) l :
  filter P (flat_map f l) = flat_map (fun x => filter P (f x)) l.
Proof. induction l as [|x l IH]; cbn [flat_map]; [reflexivity|]. rewrite filter_app, IH. reflexivity. Qed.

Lemma flat_map_ext_in' {A B} (f g : A -> list B) l :
  (forall x, In x l -> f x = g x) -> flat_map f l = flat_map g l.
Proof.
  induction l as [|x l IH]; intro H; cbn [flat_map]; [reflexivity|].
  rewrite H by (left; reflexivity). rewrite IH; [reflexivity|]. intros y Hy. apply H. right. exact Hy.
Qed.

Lemma flat_map2_ext {A} n (f g : nat -> list A) :
  (forall i, i < n -> f i = g i) -> flat_map2 n f = flat_map2 n g.
Proof. intro H. unfold flat_map2, range. apply flat_map_ext_in'. intros x Hx. apply in_seq in Hx. apply H. lia. Qed.

Lemma map_range_ext {A} n (f g : nat -> A) :
  (forall i, i < n -> f i = g i) -> map f (range n) = map g (range n).
Proof. intro H. unfold range. apply map_ext_in. intros x Hx. apply in_seq in Hx. apply H. lia. Qed.

Lemma flat_map_single {A B} (f : A -> B) l : flat_map (fun x => [f x]) l = map f l.
Proof. induction l as [|x l IH]; cbn [flat_map map app]; [reflexivity|]. rewrite IH. reflexivity. Qed.

Lemma flat_map_nil {A B} (f : A -> list B) l : (forall x, In x l -> f x = []) -> flat_map f l = [].
Proof.
  induction l as [|x l IH]; intro H; cbn [flat_map]; [reflexivity|].
  rewrite H by (left; reflexivity). rewrite IH; [reflexivity|]. intros y Hy. apply H. right. exact Hy.
Qed.

Lemma filter_none {A} (P : A -> bool) l : (forall x, In x l -> P x = false) -> filter P l = [].
Proof.
  induction l as [|x l IH]; intro H; cbn [filter]; [reflexivity|].
  rewrite H by (left; reflexivity). apply IH. intros y Hy. apply H. right. exact Hy.
Qed.

Lemma filter_all {A} (P : A -> bool) l : (forall x, In x l -> P x = true) -> filter P l = l.
Proof.
  induction l as [|x l IH]; intro H; cbn [filter]; [reflexivity|].
  rewrite H by (left; reflexivity). f_equal. apply IH. intros y Hy. apply H. right. exact Hy.
Qed.

(* exactly one index of a range passes the filter *)
Lemma filter_select {A} (P : A -> bool) (f : nat -> A) i0 : forall n s,
  s <= i0 < s + n -> (forall j, s <= j < s + n -> P (f j) = (j =? i0)) ->
  filter P (map f (seq s n)) = [f i0].
Proof.
  induction n as [|n IH]; intros s Hi HP; [lia|]. cbn [seq map filter].
  rewrite HP by lia. destruct (Nat.eqb_spec s i0) as [E|E].
  - rewrite E. f_equal. apply filter_none. intros x Hx. apply in_map_iff in Hx.
    destruct Hx as [j [<- Hj]]. apply in_seq in Hj. rewrite HP by lia. apply Nat.eqb_neq. lia.
  - apply IH; [lia|]. intros j Hj. apply HP. lia.
Qed.

(* exactly one index of an outer loop contributes to the filter *)
Lemma filter_flat_map2_one {A} (P : A -> bool) n (f : nat -> list A) i0 :
  i0 < n -> (forall i, i < n -> i <> i0 -> filter P (f i) = []) ->
  filter P (flat_map2 n f) = filter P (f i0).
Proof.
  intros Hi H. unfold flat_map2, range.
  replace n with (i0 + (1 + (n - i0 - 1))) by lia.
  rewrite !seq_app, !flat_map_app, !filter_app. cbn [seq flat_map]. rewrite app_nil_r, Nat.add_0_l.
  rewrite (filter_flat_map P f (seq 0 i0)), (filter_flat_map P f (seq (i0 + 1) _)).
  rewrite !flat_map_nil; [rewrite app_nil_r; reflexivity| |];
    intros x Hx; apply in_seq in Hx; apply H; lia.
Qed.

Lemma In_filter_false {A} (P : A -> bool) l : (forall x, In x l -> P x = false) -> filter P l = [].
Proof. apply filter_none. Qed.

(* ================================================================== shape helpers *)
Definition bsel (s : tshape) (b : nat) : nat := b * thas_batch s.
Definition unb (s : tshape) : tshape := mkT (tdims s) 1.
Definition sample_or_shared {A} (s : tshape) (b V : nat) (l : list A) : list A := block (bsel s b) V l.

Lemma bsel_shared s b : tbatch s = 1 -> bsel s b = 0.
Proof. intro H. unfold bsel, thas_batch. rewrite H. cbn. lia. Qed.

Lemma bsel_batched s b : 1 < tbatch s -> bsel s b = b.
Proof.
  intro H. unfold bsel, thas_batch. destruct (Nat.ltb_spec 1 (tbatch s)) as [_|C]; lia.
Qed.

Lemma bsel_cases s b : (tbatch s = 1 /\ bsel s b = 0) \/ (1 < tbatch s /\ bsel s b = b) \/ (tbatch s = 0 /\ bsel s b = 0).
Proof.
  destruct (Nat.lt_trichotomy (tbatch s) 1) as [H|[H|H]].
  - right. right. split; [lia|]. unfold bsel, thas_batch. destruct (Nat.ltb_spec 1 (tbatch s)); lia.
  - left. split; [exact H|apply bsel_shared; exact H].
  - right. left. split; [exact H|apply bsel_batched; exact H].
Qed.

Lemma bsel_lt s b B : tbatch s = 1 \/ tbatch s = B -> b < B -> bsel s b < tbatch s.
Proof. intros H Hb. destruct (bsel_cases s b) as [[H1 H2]|[[H1 H2]|[H1 H2]]]; lia. Qed.

Lemma bsel_unb s b : bsel (unb s) b = 0.
Proof. apply bsel_shared. reflexivity. Qed.

Lemma tvolume_unb s : tvolume (unb s) = tvolume s.  Proof. reflexivity. Qed.
Lemma tbatch_unb s : tbatch (unb s) = 1.  Proof. reflexivity. Qed.
Lemma tsize_unb s : tsize (unb s) = tvolume s.  Proof. unfold tsize. cbn [unb tbatch]. rewrite tvolume_unb. lia. Qed.

(* ================================================================== semantics *)
Section Sem.
  Variable T : Type.
  Variable zero : T.

  (* the value list a sequential two-operand program produces: entry number d is y[d] *)
  Definition ab_eval (op : T -> T -> T) (p : list (nat * (nat * nat))) (a b : list T) : list T :=
    map (fun e => op (nth (fst (snd e)) a zero) (nth (snd (snd e)) b zero)) p.

  (* the imperative reading: y[dst] := op a[ia] b[ib], into a buffer of unwritten cells *)
  Fixpoint ab_run (op : T -> T -> T) (p : list (nat * (nat * nat))) (a b : list T)
           (y : list (option T)) : list (option T) :=
    match p with
    | [] => y
    | (d, (ia, ib)) :: r => ab_run op r a b (upd (option T) y d (Some (op (nth ia a zero) (nth ib b zero))))
    end.

  Lemma ab_run_sequential op a b : forall p n, sequential p n ->
    ab_run op p a b (repeat None n) = map Some (ab_eval op p a b).
  Proof.
    assert (G : forall p done k m, map fst p = seq k m -> length done = k ->
              ab_run op p a b (done ++ repeat None m) = done ++ map Some (ab_eval op p a b)).
    { induction p as [|[d [ia ib]] r IH]; intros done k m Hs Hl.
      - destruct m; [reflexivity|discriminate Hs].
      - destruct m as [|m]; [discriminate Hs|]. cbn [map fst seq] in Hs. injection Hs as Hd Hr.
        cbn [ab_run ab_eval map repeat fst snd]. unfold upd.
        rewrite firstn_app, skipn_app, Hl, Hd. rewrite firstn_all2 by lia.
        rewrite skipn_all2 by lia. replace (k - k) with 0 by lia. replace (S k - k) with 1 by lia.
        cbn [firstn skipn app]. rewrite app_nil_r.
        change (done ++ ?v :: repeat None m) with (done ++ [v] ++ repeat None m).
        rewrite app_assoc. rewrite (IH (done ++ _) (S k) m Hr).
        + rewrite <- app_assoc. reflexivity.
        + rewrite app_length. cbn [length]. lia. }
    intros p n Hs. apply (G p [] 0 n Hs eq_refl).
  Qed.

  Lemma ab_eval_length op p a b : length (ab_eval op p a b) = length p.
  Proof. unfold ab_eval. apply map_length. Qed.

  (* elementwise unary kernels (CPUDEV_FW_X / _X_CONST) run over identity_pairs *)
  Definition un_eval (f : T -> T) (n : nat) (v : list T) : list T :=
    map (fun e => f (nth (snd (snd e)) v zero)) (identity_pairs n).

  Lemma un_eval_map f v : un_eval f (length v) v = map f v.
  Proof.
    unfold un_eval, identity_pairs, range. rewrite map_map. cbn [snd].
    induction v as [|x v IH]; [reflexivity|]. cbn [length seq map nth]. f_equal.
    rewrite <- seq_shift, map_map. exact IH.
  Qed.
End Sem.

(* ================================================================== batched elementwise programs *)
(* the common form of ab_fw / scalar_fw / ab_bw *)
Definition bprog (B V : nat) (fa fb : nat -> nat -> nat) : list (nat * (nat * nat)) :=
  flat_map2 B (fun b => map (fun i => (b * V + i, (fa b i, fb b i))) (range V)).

Lemma bprog_sequential B V fa fb : sequential (bprog B V fa fb) (B * V).
Proof. unfold sequential, bprog. apply (seq_nest B V (fun b i => (fa b i, fb b i))). Qed.

Lemma bprog_block B V fa fb b : b < B ->
  block b V (bprog B V fa fb) = map (fun i => (b * V + i, (fa b i, fb b i))) (range V).
Proof.
  intro Hb. unfold bprog. apply (block_flat_map V (fun b => map (fun i => (b * V + i, (fa b i, fb b i))) (range V))).
  - intro i. rewrite map_length. apply seq_length.
  - exact Hb.
Qed.

Lemma bprog_In B V fa fb d ia ib :
  In (d, (ia, ib)) (bprog B V fa fb) <-> exists b i, b < B /\ i < V /\ d = b * V + i /\ ia = fa b i /\ ib = fb b i.
Proof.
  unfold bprog. rewrite In_flat_map2. split.
  - intros [b [Hb H]]. apply In_map_range in H. destruct H as [i [Hi E]]. injection E as -> -> ->.
    exists b, i. auto.
  - intros [b [i [Hb [Hi [-> [-> ->]]]]]]. exists b. split; [exact Hb|]. apply In_map_range. exists i. auto.
Qed.

Lemma bprog_length B V fa fb : length (bprog B V fa fb) = B * V.
Proof.
  pose proof (bprog_sequential B V fa fb) as H. unfold sequential in H.
  rewrite <- (map_length fst), H. apply seq_length.
Qed.

Lemma bprog_eval_block T (zero : T) op B V fa fb a bb b : b < B ->
  block b V (ab_eval T zero op (bprog B V fa fb) a bb)
  = map (fun i => op (nth (fa b i) a zero) (nth (fb b i) bb zero)) (range V).
Proof.
  intro Hb. unfold ab_eval. rewrite block_map, bprog_block by exact Hb. rewrite map_map. reflexivity.
Qed.

Definition shift3 (o oa ob : nat) (e : nat * (nat * nat)) : nat * (nat * nat) :=
  (o + fst e, (oa + fst (snd e), ob + snd (snd e))).

(* ================================================================== ab_fw / ab_bw *)
Section Elementwise.
  Variables (sa sb sy : tshape) (V B : nat).
  Hypothesis HV : tvolume sy = V.
  Hypothesis HB : tbatch sy = B.

  Lemma ab_fw_bprog :
    ab_fw sa sb sy = bprog B V (fun b i => bsel sa b * V + i) (fun b i => bsel sb b * V + i).
  Proof.
    unfold ab_fw, bprog. rewrite HV, HB. apply flat_map2_ext. intros b _. apply map_range_ext. intros i _.
    unfold bsel. rewrite !Nat.mul_assoc. reflexivity.
  Qed.

  Lemma ab_bw_is_ab_fw : ab_bw sa sb sy = ab_fw sa sb sy.
  Proof. reflexivity. Qed.

  (* every output element written exactly once, in increasing order (C11) *)
  Theorem ab_fw_sequential : sequential (ab_fw sa sb sy) (B * V).
  Proof. rewrite ab_fw_bprog. apply bprog_sequential. Qed.

  (* sample b, element i of the result reads a[(b or 0)*V + i] and b[(b or 0)*V + i] *)
  Theorem ab_fw_spec d ia ib :
    In (d, (ia, ib)) (ab_fw sa sb sy) <->
    exists b i, b < B /\ i < V /\ d = b * V + i /\ ia = bsel sa b * V + i /\ ib = bsel sb b * V + i.
  Proof. rewrite ab_fw_bprog. apply bprog_In. Qed.

  (* the program restricted to sample b is the batch-1 program, shifted to sample b of the
     result and to sample b (or the shared sample) of each operand *)
  Theorem ab_fw_sample b : b < B ->
    block b V (ab_fw sa sb sy)
    = map (shift3 (b * V) (bsel sa b * V) (bsel sb b * V)) (ab_fw (unb sa) (unb sb) (unb sy)).
  Proof.
    intro Hb. rewrite ab_fw_bprog, bprog_block by exact Hb.
    unfold ab_fw. rewrite tvolume_unb, tbatch_unb, HV. unfold flat_map2. cbn [range seq flat_map].
    rewrite app_nil_r, map_map. apply map_range_ext. intros i _. unfold shift3. cbn [fst snd].
    unfold thas_batch. cbn [unb tbatch Nat.ltb Nat.leb]. f_equal.
  Qed.

  Hypothesis HVa : tvolume sa = V.
  Hypothesis HVb : tvolume sb = V.
  Hypothesis Hba : tbatch sa = 1 \/ tbatch sa = B.
  Hypothesis Hbb : tbatch sb = 1 \/ tbatch sb = B.

  (* no read outside a or b (C11) *)
  Theorem ab_fw_in_bounds :
    Forall (fun e => fst e < tsize sy /\ fst (snd e) < tsize sa /\ snd (snd e) < tsize sb) (ab_fw sa sb sy).
  Proof.
    apply Forall_forall. intros [d [ia ib]] Hin. cbn [fst snd]. apply ab_fw_spec in Hin.
    destruct Hin as [b [i [Hb [Hi [-> [-> ->]]]]]]. unfold tsize. rewrite HV, HVa, HVb, HB.
    pose proof (bsel_lt sa b B Hba Hb) as H1. pose proof (bsel_lt sb b B Hbb Hb) as H2.
    repeat split; nia.
  Qed.
End Elementwise.

(* the value-level minibatch law of CPUDEV_FW_AB:
   sample b (op a b) = op (sample_or_shared b a) (sample_or_shared b b) *)
Theorem ab_fw_batch_law T (zero : T) op sa sb sy V b a bb :
  tvolume sy = V -> b < tbatch sy ->
  block b V (ab_eval T zero op (ab_fw sa sb sy) a bb)
  = ab_eval T zero op (ab_fw (unb sa) (unb sb) (unb sy))
      (sample_or_shared sa b V a) (sample_or_shared sb b V bb).
Proof.
  intros HV Hb.
  rewrite (ab_fw_bprog sa sb sy V (tbatch sy) HV eq_refl), bprog_eval_block by exact Hb.
  rewrite (ab_fw_bprog (unb sa) (unb sb) (unb sy) V 1) by (rewrite ?tvolume_unb; auto).
  unfold ab_eval, bprog, flat_map2. cbn [range seq flat_map]. rewrite app_nil_r, map_map. cbn [fst snd].
  apply map_range_ext. intros i Hi. rewrite !bsel_unb. cbn [Nat.mul Nat.add].
  unfold sample_or_shared. rewrite !nth_block by exact Hi. reflexivity.
Qed.

(* ================================================================== scalar_fw *)
Section ScalarOp.
  Variables (sx sk sy : tshape) (V B : nat).
  Hypothesis HV : tvolume sy = V.
  Hypothesis HB : tbatch sy = B.

  Lemma scalar_fw_bprog :
    scalar_fw sx sk sy = bprog B V (fun b i => bsel sx b * V + i) (fun b _ => bsel sk b).
  Proof.
    unfold scalar_fw, bprog. rewrite HV, HB. apply flat_map2_ext. intros b _. apply map_range_ext. intros i _.
    unfold bsel. rewrite !Nat.mul_assoc. reflexivity.
  Qed.

  Theorem scalar_fw_sequential : sequential (scalar_fw sx sk sy) (B * V).
  Proof. rewrite scalar_fw_bprog. apply bprog_sequential. Qed.

  Theorem scalar_fw_spec d ix ik :
    In (d, (ix, ik)) (scalar_fw sx sk sy) <->
    exists b i, b < B /\ i < V /\ d = b * V + i /\ ix = bsel sx b * V + i /\ ik = bsel sk b.
  Proof. rewrite scalar_fw_bprog. apply bprog_In. Qed.

  Theorem scalar_fw_sample b : b < B ->
    block b V (scalar_fw sx sk sy)
    = map (shift3 (b * V) (bsel sx b * V) (bsel sk b)) (scalar_fw (unb sx) (unb sk) (unb sy)).
  Proof.
    intro Hb. rewrite scalar_fw_bprog, bprog_block by exact Hb.
    unfold scalar_fw. rewrite tvolume_unb, tbatch_unb, HV. unfold flat_map2. cbn [range seq flat_map].
    rewrite app_nil_r, map_map. apply map_range_ext. intros i _. unfold shift3. cbn [fst snd].
    unfold thas_batch. cbn [unb tbatch Nat.ltb Nat.leb]. f_equal. f_equal. lia.
  Qed.

  Hypothesis HVx : tvolume sx = V.
  Hypothesis HVk : tvolume sk = 1.
  Hypothesis Hbx : tbatch sx = 1 \/ tbatch sx = B.
  Hypothesis Hbk : tbatch sk = 1 \/ tbatch sk = B.

  Theorem scalar_fw_in_bounds :
    Forall (fun e => fst e < tsize sy /\ fst (snd e) < tsize sx /\ snd (snd e) < tsize sk) (scalar_fw sx sk sy).
  Proof.
    apply Forall_forall. intros [d [ia ib]] Hin. cbn [fst snd]. apply scalar_fw_spec in Hin.
    destruct Hin as [b [i [Hb [Hi [-> [-> ->]]]]]]. unfold tsize. rewrite HV, HVx, HVk, HB.
    pose proof (bsel_lt sx b B Hbx Hb) as H1. pose proof (bsel_lt sk b B Hbk Hb) as H2.
    repeat split; nia.
  Qed.
End ScalarOp.

Theorem scalar_fw_batch_law T (zero : T) op sx sk sy V b x k :
  tvolume sy = V -> b < tbatch sy ->
  block b V (ab_eval T zero op (scalar_fw sx sk sy) x k)
  = ab_eval T zero op (scalar_fw (unb sx) (unb sk) (unb sy))
      (sample_or_shared sx b V x) (sample_or_shared sk b 1 k).
Proof.
  intros HV Hb.
  rewrite (scalar_fw_bprog sx sk sy V (tbatch sy) HV eq_refl), bprog_eval_block by exact Hb.
  rewrite (scalar_fw_bprog (unb sx) (unb sk) (unb sy) V 1) by (rewrite ?tvolume_unb; auto).
  unfold ab_eval, bprog, flat_map2. cbn [range seq flat_map]. rewrite app_nil_r, map_map. cbn [fst snd].
  apply map_range_ext. intros i Hi. rewrite !bsel_unb. cbn [Nat.mul Nat.add].
  unfold sample_or_shared. rewrite (nth_block zero (bsel sx b) V i x) by exact Hi.
  rewrite (nth_block zero (bsel sk b) 1 0 k) by lia. f_equal. f_equal. lia.
Qed.

(* ================================================================== increments: y[d] += v *)
Section Incr.
  Variable T : Type.
  Variable zero : T.
  Variable add : T -> T -> T.

  Fixpoint incr_run (p : list (nat * T)) (y : list T) : list T :=
    match p with
    | [] => y
    | (d, v) :: r => incr_run r (upd T y d (add (nth d y zero) v))
    end.

  (* the entries of a program whose destination is d, in program order *)
  Definition cell {A} (d : nat) (p : list (nat * A)) : list (nat * A) :=
    filter (fun e => fst e =? d) p.

  Lemma scatter_incr p gy : forall gx,
    scatter T zero add p gy gx = incr_run (map (fun e => (fst e, nth (snd e) gy zero)) p) gx.
  Proof. induction p as [|[d s] r IH]; intro gx; cbn [scatter map incr_run fst snd]; [reflexivity|]. apply IH. Qed.

  Lemma nth_upd : forall (l : list T) d j v, d < length l ->
    nth j (upd T l d v) zero = if j =? d then v else nth j l zero.
  Proof.
    induction l as [|x l IH]; intros d j v Hd; cbn [length] in Hd; [lia|].
    destruct d as [|d].
    - destruct j; reflexivity.
    - change (upd T (x :: l) (S d) v) with (x :: upd T l d v).
      destruct j as [|j]; [reflexivity|]. cbn [nth].
      rewrite (IH d j v) by lia. reflexivity.
  Qed.

  Lemma incr_run_length p : forall y, Forall (fun e => fst e < length y) p -> length (incr_run p y) = length y.
  Proof.
    induction p as [|[d v] r IH]; intros y H; cbn [incr_run]; [reflexivity|].
    inversion H as [|? ? Hd Hr]; subst. cbn [fst] in Hd.
    rewrite IH; rewrite upd_length by exact Hd; [reflexivity|exact Hr].
  Qed.

  (* cell j of the result = the old content plus the increments addressed to j, in order *)
  Lemma nth_incr_run p : forall y j, Forall (fun e => fst e < length y) p ->
    nth j (incr_run p y) zero = fold_left add (map snd (cell j p)) (nth j y zero).
  Proof.
    unfold cell. induction p as [|[d v] r IH]; intros y j H; cbn [incr_run filter map fold_left fst]; [reflexivity|].
    inversion H as [|? ? Hd Hr]; subst. cbn [fst] in Hd.
    rewrite IH by (rewrite upd_length by exact Hd; exact Hr).
    rewrite nth_upd by exact Hd. rewrite (Nat.eqb_sym d j).
    destruct (Nat.eqb_spec j d) as [->|N]; reflexivity.
  Qed.

  Lemma incr_run_app p q y : incr_run (p ++ q) y = incr_run q (incr_run p y).
  Proof. revert y. induction p as [|[d v] r IH]; intro y; cbn [app incr_run]; [reflexivity|]. apply IH. Qed.
End Incr.
Arguments cell {A} d p.

(* ---- which increments reach a slot: per-sample slots vs. one shared slot ---- *)
Lemma cell_shared {A} B V (g : nat -> nat -> A) i : i < V ->
  cell i (flat_map2 B (fun b => map (fun j => (j, g b j)) (range V))) = map (fun b => (i, g b i)) (range B).
Proof.
  intro Hi. unfold cell, flat_map2. rewrite filter_flat_map, <- flat_map_single.
  apply flat_map_ext. intro b. unfold range.
  apply (filter_select (fun e : nat * A => fst e =? i) (fun j => (j, g b j)) i V 0); [lia|].
  intros j _. reflexivity.
Qed.

Lemma cell_batched {A} B V (g : nat -> nat -> A) b i : b < B -> i < V ->
  cell (b * V + i) (flat_map2 B (fun b' => map (fun j => (b' * V + j, g b' j)) (range V)))
  = [(b * V + i, g b i)].
Proof.
  intros Hb Hi. unfold cell.
  rewrite (filter_flat_map2_one _ B _ b Hb).
  - unfold range.
    apply (filter_select (fun e : nat * A => fst e =? b * V + i) (fun j => (b * V + j, g b j)) i V 0); [lia|].
    intros j _. cbn [fst]. destruct (Nat.eqb_spec (b * V + j) (b * V + i)), (Nat.eqb_spec j i); lia.
  - intros b' Hb' Hne. apply filter_none. intros x Hx. apply In_map_range in Hx.
    destruct Hx as [j [Hj ->]]. cbn [fst]. apply Nat.eqb_neq.
    assert (b' < b \/ b < b') as [Hlt|Hlt] by lia.
    + assert ((b' + 1) * V <= b * V) by (apply Nat.mul_le_mono_r; lia). lia.
    + assert ((b + 1) * V <= b' * V) by (apply Nat.mul_le_mono_r; lia). lia.
Qed.

Section Fold.
  Variable T : Type.
  Variable zero : T.
  Variable add : T -> T -> T.

  (* a batch-1 destination receives, element by element, the increments of ALL samples *)
  Lemma fold_shared B V (g : nat -> nat -> T) y i : length y = V -> i < V ->
    nth i (incr_run T zero add (flat_map2 B (fun b => map (fun j => (j, g b j)) (range V))) y) zero
    = fold_left add (map (fun b => g b i) (range B)) (nth i y zero).
  Proof.
    intros Hl Hi. rewrite nth_incr_run.
    - rewrite cell_shared by exact Hi. rewrite map_map. reflexivity.
    - apply Forall_forall. intros x Hx. apply In_flat_map2 in Hx. destruct Hx as [b [_ Hx]].
      apply In_map_range in Hx. destruct Hx as [j [Hj ->]]. cbn [fst]. lia.
  Qed.

  (* a batched destination receives in sample b exactly the increment of sample b *)
  Lemma fold_batched B V (g : nat -> nat -> T) y b i : length y = B * V -> b < B -> i < V ->
    nth (b * V + i) (incr_run T zero add (flat_map2 B (fun b' => map (fun j => (b' * V + j, g b' j)) (range V))) y) zero
    = add (nth (b * V + i) y zero) (g b i).
  Proof.
    intros Hl Hb Hi. rewrite nth_incr_run.
    - rewrite cell_batched by assumption. reflexivity.
    - apply Forall_forall. intros x Hx. apply In_flat_map2 in Hx. destruct Hx as [b' [Hb' Hx]].
      apply In_map_range in Hx. destruct Hx as [j [Hj ->]]. cbn [fst]. rewrite Hl.
      assert ((b' + 1) * V <= B * V) by (apply Nat.mul_le_mono_r; lia). lia.
  Qed.

  (* ---- ab_bw: gradient slots ---- *)
  Definition slots_a (p : list (nat * (nat * nat))) : acc := map (fun e => (fst (snd e), fst e)) p.
  Definition slots_b (p : list (nat * (nat * nat))) : acc := map (fun e => (snd (snd e), fst e)) p.

  Lemma bprog_slots_a B V fa fb inc :
    map (fun e => (fst e, nth (snd e) inc zero)) (slots_a (bprog B V fa fb))
    = flat_map2 B (fun b => map (fun j => (fa b j, nth (b * V + j) inc zero)) (range V)).
  Proof.
    unfold slots_a, bprog, flat_map2. rewrite map_map, map_flat_map. apply flat_map_ext. intro b.
    rewrite map_map. reflexivity.
  Qed.

  Lemma bprog_slots_b B V fa fb inc :
    map (fun e => (fst e, nth (snd e) inc zero)) (slots_b (bprog B V fa fb))
    = flat_map2 B (fun b => map (fun j => (fb b j, nth (b * V + j) inc zero)) (range V)).
  Proof.
    unfold slots_b, bprog, flat_map2. rewrite map_map, map_flat_map. apply flat_map_ext. intro b.
    rewrite map_map. reflexivity.
  Qed.

  Section AbBw.
    Variables (sga sgb sgy : tshape) (V B : nat).
    Hypothesis HV : tvolume sgy = V.
    Hypothesis HB : tbatch sgy = B.
    (* inc[d] is the increment the operator derives from gy[d] (gy, gy*b, -gy*y/b, ...) *)
    Variable inc : list T.

    (* operand a has batch 1: its slot i receives the SUM over the samples *)
    Theorem ab_bw_fold_a ga i : tbatch sga = 1 -> length ga = V -> i < V ->
      nth i (scatter T zero add (slots_a (ab_bw sga sgb sgy)) inc ga) zero
      = fold_left add (map (fun b => nth (b * V + i) inc zero) (range B)) (nth i ga zero).
    Proof.
      intros H1 Hl Hi. rewrite scatter_incr, ab_bw_is_ab_fw, (ab_fw_bprog sga sgb sgy V B HV HB), bprog_slots_a.
      rewrite (flat_map2_ext B _ (fun b => map (fun j => (j, nth (b * V + j) inc zero)) (range V))).
      - apply (fold_shared B V (fun b j => nth (b * V + j) inc zero)); assumption.
      - intros b _. apply map_range_ext. intros j _. rewrite bsel_shared by exact H1. reflexivity.
    Qed.

    (* operand a has the full batch: sample b of ga receives the increments of sample b only *)
    Theorem ab_bw_sample_a ga b i : 1 < tbatch sga -> length ga = B * V -> b < B -> i < V ->
      nth (b * V + i) (scatter T zero add (slots_a (ab_bw sga sgb sgy)) inc ga) zero
      = add (nth (b * V + i) ga zero) (nth (b * V + i) inc zero).
    Proof.
      intros H1 Hl Hb Hi. rewrite scatter_incr, ab_bw_is_ab_fw, (ab_fw_bprog sga sgb sgy V B HV HB), bprog_slots_a.
      rewrite (flat_map2_ext B _ (fun b => map (fun j => (b * V + j, nth (b * V + j) inc zero)) (range V))).
      - apply (fold_batched B V (fun b j => nth (b * V + j) inc zero)); assumption.
      - intros b' _. apply map_range_ext. intros j _. rewrite bsel_batched by exact H1. reflexivity.
    Qed.

    Theorem ab_bw_fold_b gb i : tbatch sgb = 1 -> length gb = V -> i < V ->
      nth i (scatter T zero add (slots_b (ab_bw sga sgb sgy)) inc gb) zero
      = fold_left add (map (fun b => nth (b * V + i) inc zero) (range B)) (nth i gb zero).
    Proof.
      intros H1 Hl Hi. rewrite scatter_incr, ab_bw_is_ab_fw, (ab_fw_bprog sga sgb sgy V B HV HB), bprog_slots_b.
      rewrite (flat_map2_ext B _ (fun b => map (fun j => (j, nth (b * V + j) inc zero)) (range V))).
      - apply (fold_shared B V (fun b j => nth (b * V + j) inc zero)); assumption.
      - intros b _. apply map_range_ext. intros j _. rewrite bsel_shared by exact H1. reflexivity.
    Qed.

    Theorem ab_bw_sample_b gb b i : 1 < tbatch sgb -> length gb = B * V -> b < B -> i < V ->
      nth (b * V + i) (scatter T zero add (slots_b (ab_bw sga sgb sgy)) inc gb) zero
      = add (nth (b * V + i) gb zero) (nth (b * V + i) inc zero).
    Proof.
      intros H1 Hl Hb Hi. rewrite scatter_incr, ab_bw_is_ab_fw, (ab_fw_bprog sga sgb sgy V B HV HB), bprog_slots_b.
      rewrite (flat_map2_ext B _ (fun b => map (fun j => (b * V + j, nth (b * V + j) inc zero)) (range V))).
      - apply (fold_batched B V (fun b j => nth (b * V + j) inc zero)); assumption.
      - intros b' _. apply map_range_ext. intros j _. rewrite bsel_batched by exact H1. reflexivity.
    Qed.

    (* the slots touched for sample b are those of sample b, or the shared sample:
       the program restricted to sample b is the batch-1 program shifted *)
    Theorem ab_bw_sample b : b < B ->
      block b V (ab_bw sga sgb sgy)
      = map (shift3 (b * V) (bsel sga b * V) (bsel sgb b * V)) (ab_bw (unb sga) (unb sgb) (unb sgy)).
    Proof. intro Hb. rewrite !ab_bw_is_ab_fw. apply (ab_fw_sample sga sgb sgy V B HV HB b Hb). Qed.
  End AbBw.

  (* ---- inplace_add(x, y): y += x with batch broadcasting / folding ---- *)
  Section InplaceAdd.
    Variables (sx sy : tshape) (V B : nat).
    Hypothesis HVy : tvolume sy = V.
    Hypothesis HBm : Nat.max (tbatch sx) (tbatch sy) = B.

    Lemma inplace_add_form :
      inplace_add sx sy = flat_map2 B (fun b => map (fun i => (bsel sy b * V + i, bsel sx b * V + i)) (range V)).
    Proof.
      unfold inplace_add. rewrite HVy, HBm. apply flat_map2_ext. intros b _. apply map_range_ext. intros i _.
      unfold bsel. rewrite !Nat.mul_assoc. reflexivity.
    Qed.

    Theorem inplace_add_spec d s :
      In (d, s) (inplace_add sx sy) <->
      exists b i, b < B /\ i < V /\ d = bsel sy b * V + i /\ s = bsel sx b * V + i.
    Proof.
      rewrite inplace_add_form, In_flat_map2. split.
      - intros [b [Hb H]]. apply In_map_range in H. destruct H as [i [Hi E]]. injection E as -> ->.
        exists b, i. auto.
      - intros [b [i [Hb [Hi [-> ->]]]]]. exists b. split; [exact Hb|]. apply In_map_range. exists i. auto.
    Qed.

    (* batched destination: y is walked sequentially, and the program restricted to sample b is
       the batch-1 program shifted to sample b of y and sample b / the shared sample of x *)
    Theorem inplace_add_sequential : 1 < tbatch sy -> sequential (inplace_add sx sy) (B * V).
    Proof.
      intro H1. rewrite inplace_add_form.
      rewrite (flat_map2_ext B _ (fun b => map (fun i => (b * V + i, bsel sx b * V + i)) (range V))).
      - apply (seq_nest B V (fun b i => bsel sx b * V + i)).
      - intros b _. apply map_range_ext. intros i _. rewrite bsel_batched by exact H1. reflexivity.
    Qed.

    Theorem inplace_add_block b : 1 < tbatch sy -> b < B ->
      block b V (inplace_add sx sy)
      = map (fun e => (b * V + fst e, bsel sx b * V + snd e)) (inplace_add (unb sx) (unb sy)).
    Proof.
      intros H1 Hb. rewrite inplace_add_form.
      rewrite (block_flat_map V (fun b => map (fun i => (bsel sy b * V + i, bsel sx b * V + i)) (range V)));
        [|intro i; rewrite map_length; apply seq_length|exact Hb].
      unfold inplace_add. rewrite tvolume_unb, !tbatch_unb, HVy. unfold flat_map2. cbn [Nat.max range seq flat_map].
      rewrite app_nil_r, map_map. apply map_range_ext. intros i _. cbn [fst snd].
      unfold thas_batch. cbn [unb tbatch Nat.ltb Nat.leb]. rewrite bsel_batched by exact H1. reflexivity.
    Qed.

    Hypothesis HVx : tvolume sx = V.
    (* Shape::has_compatible_batch *)
    Hypothesis Hcompat : tbatch sx = tbatch sy \/ tbatch sx = 1 \/ tbatch sy = 1.
    Hypothesis Hbx : 0 < tbatch sx.
    Hypothesis Hby : 0 < tbatch sy.

    Theorem inplace_add_in_bounds : acc_in_bounds (inplace_add sx sy) (tsize sy) (tsize sx).
    Proof.
      apply Forall_forall. intros [d s] Hin. cbn [fst snd]. apply inplace_add_spec in Hin.
      destruct Hin as [b [i [Hb [Hi [-> ->]]]]]. unfold tsize. rewrite HVy, HVx.
      assert (H1 : bsel sy b < tbatch sy) by (destruct (bsel_cases sy b) as [[? ?]|[[? ?]|[? ?]]]; lia).
      assert (H2 : bsel sx b < tbatch sx) by (destruct (bsel_cases sx b) as [[? ?]|[[? ?]|[? ?]]]; lia).
      split; nia.
    Qed.

    (* destination of batch 1 (a gradient of a shared operand): sums over the samples of x *)
    Theorem inplace_add_fold x y i : tbatch sy = 1 -> length y = V -> i < V ->
      nth i (scatter T zero add (inplace_add sx sy) x y) zero
      = fold_left add (map (fun b => nth (bsel sx b * V + i) x zero) (range B)) (nth i y zero).
    Proof.
      intros H1 Hl Hi. rewrite scatter_incr, inplace_add_form. unfold flat_map2. rewrite map_flat_map.
      rewrite (flat_map_ext _ (fun b => map (fun j => (j, nth (bsel sx b * V + j) x zero)) (range V))).
      - apply (fold_shared B V (fun b j => nth (bsel sx b * V + j) x zero)); assumption.
      - intro b. rewrite map_map. apply map_range_ext. intros j _. cbn [fst snd].
        rewrite bsel_shared by exact H1. reflexivity.
    Qed.

    (* batched destination: per sample, x shared or per sample *)
    Theorem inplace_add_sample x y b i : 1 < tbatch sy -> length y = B * V -> b < B -> i < V ->
      nth (b * V + i) (scatter T zero add (inplace_add sx sy) x y) zero
      = add (nth (b * V + i) y zero) (nth (bsel sx b * V + i) x zero).
    Proof.
      intros H1 Hl Hb Hi. rewrite scatter_incr, inplace_add_form. unfold flat_map2. rewrite map_flat_map.
      rewrite (flat_map_ext _ (fun b => map (fun j => (b * V + j, nth (bsel sx b * V + j) x zero)) (range V))).
      - apply (fold_batched B V (fun b j => nth (bsel sx b * V + j) x zero)); assumption.
      - intro b'. rewrite map_map. apply map_range_ext. intros j _. cbn [fst snd].
        rewrite bsel_batched by exact H1. reflexivity.
    Qed.
  End InplaceAdd.
End Fold.

(* ================================================================== program level (C03) *)
Lemma bsel_idem sa sy b : tbatch sa <= tbatch sy -> bsel sa (bsel sy b) = bsel sa b.
Proof.
  intro H. destruct (bsel_cases sa b) as [[H1 H2]|[[H1 H2]|[H1 H2]]].
  - rewrite H2. apply bsel_shared. exact H1.
  - rewrite (bsel_batched sy b) by lia. reflexivity.
  - rewrite H2. unfold bsel, thas_batch. rewrite H1. cbn. lia.
Qed.

Section Program.
  Variable T : Type.
  Variable zero : T.

  (* straight-line expressions over the elementwise operators; a leaf is an operand together
     with its shape: batch 1 (shared by all samples) or batch B (one value per sample) *)
  Inductive expr : Type :=
  | Leaf (s : tshape) (v : list T)
  | Un (f : T -> T) (e : expr)                    (* CPUDEV_FW_X, _X_CONST: y[i] = f x[i] *)
  | Bin (op : T -> T -> T) (e1 e2 : expr)         (* CPUDEV_FW_AB: add subtract multiply divide pow *)
  | Scal (op : T -> T -> T) (e k : expr).         (* CPUDEV_FW_X_SCALAR: k has volume 1 *)

  (* shape_ops::elementwise / scalar_op: dims of the first operand, batch = max *)
  Definition rshape (sa sb : tshape) : tshape := mkT (tdims sa) (Nat.max (tbatch sa) (tbatch sb)).

  (* evaluation on batched operands, through the index programs of the kernels *)
  Fixpoint eval (e : expr) : tshape * list T :=
    match e with
    | Leaf s v => (s, v)
    | Un f e1 => let r := eval e1 in (fst r, un_eval T zero f (tsize (fst r)) (snd r))
    | Bin op e1 e2 =>
        let ra := eval e1 in let rb := eval e2 in let sy := rshape (fst ra) (fst rb) in
        (sy, ab_eval T zero op (ab_fw (fst ra) (fst rb) sy) (snd ra) (snd rb))
    | Scal op e1 k =>
        let rx := eval e1 in let rk := eval k in let sy := rshape (fst rx) (fst rk) in
        (sy, ab_eval T zero op (scalar_fw (fst rx) (fst rk) sy) (snd rx) (snd rk))
    end.

  (* accepted by the front end with minibatch size B *)
  Fixpoint wf (B : nat) (e : expr) : Prop :=
    match e with
    | Leaf s v => (tbatch s = 1 \/ tbatch s = B) /\ length v = tsize s
    | Un _ e1 => wf B e1
    | Bin _ e1 e2 => wf B e1 /\ wf B e2 /\ tdims (fst (eval e1)) = tdims (fst (eval e2))
    | Scal _ e1 k => wf B e1 /\ wf B k /\ tvolume (fst (eval k)) = 1
    end.

  (* the same program on the b-th samples alone: every leaf replaced by its sample b,
     or by itself when it is shared *)
  Fixpoint esample (b : nat) (e : expr) : expr :=
    match e with
    | Leaf s v => Leaf (unb s) (sample_or_shared s b (tvolume s) v)
    | Un f e1 => Un f (esample b e1)
    | Bin op e1 e2 => Bin op (esample b e1) (esample b e2)
    | Scal op e1 k => Scal op (esample b e1) (esample b k)
    end.

  Lemma un_eval_length f n v : length (un_eval T zero f n v) = n.
  Proof. unfold un_eval, identity_pairs, range. rewrite !map_length. apply seq_length. Qed.

  Lemma eval_inv B e : 0 < B -> wf B e ->
    (tbatch (fst (eval e)) = 1 \/ tbatch (fst (eval e)) = B) /\
    length (snd (eval e)) = tsize (fst (eval e)).
  Proof.
    intro HB. induction e as [s v|f e IH|op e1 IH1 e2 IH2|op e1 IH1 k IH2]; cbn [wf eval fst snd].
    - tauto.
    - intro H. destruct (IH H) as [H1 H2]. split; [exact H1|]. apply un_eval_length.
    - intros [Hw1 [Hw2 Hd]]. destruct (IH1 Hw1) as [Ha _]. destruct (IH2 Hw2) as [Hb _].
      split; [cbn [rshape tbatch]; lia|]. rewrite ab_eval_length.
      rewrite (ab_fw_bprog _ _ _ _ _ eq_refl eq_refl), bprog_length. reflexivity.
    - intros [Hw1 [Hw2 Hd]]. destruct (IH1 Hw1) as [Ha _]. destruct (IH2 Hw2) as [Hb _].
      split; [cbn [rshape tbatch]; lia|]. rewrite ab_eval_length.
      rewrite (scalar_fw_bprog _ _ _ _ _ eq_refl eq_refl), bprog_length. reflexivity.
  Qed.

  Lemma sos_length (s : tshape) b B (v : list T) :
    tbatch s = 1 \/ tbatch s = B -> b < B -> length v = tsize s ->
    length (sample_or_shared s b (tvolume s) v) = tvolume s.
  Proof.
    intros Hs Hb Hl. unfold sample_or_shared. apply block_length. rewrite Hl. unfold tsize.
    apply Nat.mul_le_mono_r. pose proof (bsel_lt s b B Hs Hb). lia.
  Qed.

  (* C03: sample b of the batched evaluation = evaluation of the program on the b-th samples,
     a batch-1 operand behaving as if replicated B times *)
  Theorem batch_law_program B b e : 0 < B -> b < B -> wf B e ->
    eval (esample b e)
    = (unb (fst (eval e)),
       sample_or_shared (fst (eval e)) b (tvolume (fst (eval e))) (snd (eval e))).
  Proof.
    intros HB Hb. induction e as [s v|f e IH|op e1 IH1 e2 IH2|op e1 IH1 k IH2]; intro Hw.
    - reflexivity.
    - cbn [wf] in Hw. destruct (eval_inv B e HB Hw) as [Hs Hl].
      cbn [esample eval]. rewrite (IH Hw). cbn [fst snd]. f_equal.
      rewrite tsize_unb. rewrite <- (sos_length _ b B _ Hs Hb Hl) at 1. rewrite un_eval_map.
      rewrite <- Hl, un_eval_map. unfold sample_or_shared. rewrite block_map. reflexivity.
    - cbn [wf] in Hw. destruct Hw as [Hw1 [Hw2 Hd]].
      destruct (eval_inv B e1 HB Hw1) as [Ha _]. destruct (eval_inv B e2 HB Hw2) as [Hbb _].
      cbn [esample eval]. rewrite (IH1 Hw1), (IH2 Hw2). cbn [fst snd].
      set (sa := fst (eval e1)) in *. set (sb := fst (eval e2)) in *.
      set (a := snd (eval e1)). set (bb := snd (eval e2)). set (sy := rshape sa sb).
      change (rshape (unb sa) (unb sb)) with (unb sy). f_equal.
      change (tvolume sy) with (tvolume sa).
      assert (HVb : tvolume sb = tvolume sa) by (unfold tvolume; rewrite Hd; reflexivity).
      rewrite HVb. unfold sample_or_shared at 3.
      assert (Hby : tbatch sy = Nat.max (tbatch sa) (tbatch sb)) by reflexivity.
      rewrite (ab_fw_batch_law T zero op sa sb sy (tvolume sa) (bsel sy b) a bb eq_refl).
      + unfold sample_or_shared. rewrite !bsel_idem by lia. reflexivity.
      + apply (bsel_lt sy b B); [lia|exact Hb].
    - cbn [wf] in Hw. destruct Hw as [Hw1 [Hw2 Hd]].
      destruct (eval_inv B e1 HB Hw1) as [Ha _]. destruct (eval_inv B k HB Hw2) as [Hbb _].
      cbn [esample eval]. rewrite (IH1 Hw1), (IH2 Hw2). cbn [fst snd].
      set (sx := fst (eval e1)) in *. set (sk := fst (eval k)) in *.
      set (x := snd (eval e1)). set (kv := snd (eval k)). set (sy := rshape sx sk).
      change (rshape (unb sx) (unb sk)) with (unb sy). f_equal.
      change (tvolume sy) with (tvolume sx). rewrite Hd. unfold sample_or_shared at 3.
      assert (Hby : tbatch sy = Nat.max (tbatch sx) (tbatch sk)) by reflexivity.
      rewrite (scalar_fw_batch_law T zero op sx sk sy (tvolume sx) (bsel sy b) x kv eq_refl).
      + unfold sample_or_shared. rewrite !bsel_idem by lia. reflexivity.
      + apply (bsel_lt sy b B); [lia|exact Hb].
  Qed.

  (* in particular: when the result is batched, its sample b (elements b*V .. b*V+V-1) *)
  Corollary batch_law_program_batched B b e : 0 < B -> b < B -> wf B e -> 1 < tbatch (fst (eval e)) ->
    snd (eval (esample b e)) = block b (tvolume (fst (eval e))) (snd (eval e)).
  Proof.
    intros HB Hb Hw H1. rewrite (batch_law_program B b e HB Hb Hw). cbn [snd].
    unfold sample_or_shared. rewrite bsel_batched by exact H1. reflexivity.
  Qed.

  (* ... and when every leaf is shared the result is shared and equals its only sample *)
  Corollary batch_law_program_shared B b e : 0 < B -> b < B -> wf B e -> tbatch (fst (eval e)) = 1 ->
    snd (eval (esample b e)) = snd (eval e).
  Proof.
    intros HB Hb Hw H1. rewrite (batch_law_program B b e HB Hb Hw). cbn [snd].
    unfold sample_or_shared. rewrite bsel_shared by exact H1. apply block_all.
    destruct (eval_inv B e HB Hw) as [_ Hl]. rewrite Hl. unfold tsize. rewrite H1. lia.
  Qed.
End Program.

(* ================================================================== permutation toolkit *)
Lemma perm_flat_map_app {A B} (g h : A -> list B) l :
  Permutation (flat_map (fun x => g x ++ h x) l) (flat_map g l ++ flat_map h l).
Proof.
  induction l as [|a l IH]; cbn [flat_map]; [apply Permutation_refl|].
  rewrite <- !app_assoc. apply Permutation_app_head. rewrite IH. apply Permutation_app_swap_app.
Qed.

(* loop interchange *)
Lemma perm_flat_map_swap {A B C} (f : A -> B -> list C) l1 l2 :
  Permutation (flat_map (fun x => flat_map (fun y => f x y) l2) l1)
              (flat_map (fun y => flat_map (fun x => f x y) l1) l2).
Proof.
  induction l1 as [|a l1 IH]; cbn [flat_map].
  - rewrite flat_map_nil; [apply Permutation_refl|reflexivity].
  - rewrite perm_flat_map_app. apply Permutation_app_head. exact IH.
Qed.

Lemma perm_flat_map_ext {A B} (f g : A -> list B) l :
  (forall x, In x l -> Permutation (f x) (g x)) -> Permutation (flat_map f l) (flat_map g l).
Proof.
  induction l as [|a l IH]; intro H; cbn [flat_map]; [apply Permutation_refl|].
  apply Permutation_app; [apply H; left; reflexivity|]. apply IH. intros x Hx. apply H. right. exact Hx.
Qed.

Lemma perm_filter {A} (P : A -> bool) l l' : Permutation l l' -> Permutation (filter P l) (filter P l').
Proof.
  induction 1 as [|x l l' H IH|x y l|l l' l'' H1 IH1 H2 IH2]; cbn [filter].
  - apply Permutation_refl.
  - destruct (P x); [apply perm_skip|]; exact IH.
  - destruct (P x), (P y); try apply Permutation_refl. apply perm_swap.
  - eapply Permutation_trans; eassumption.
Qed.

Lemma filter_map_comm {A B} (P : B -> bool) (f : A -> B) l :
  filter P (map f l) = map f (filter (fun x => P (f x)) l).
Proof.
  induction l as [|x l IH]; cbn [map filter]; [reflexivity|].
  destruct (P (f x)); cbn [map]; rewrite IH; reflexivity.
Qed.

Lemma flat_map_map {A B C} (g : A -> B) (f : B -> list C) l : flat_map f (map g l) = flat_map (fun x => f (g x)) l.
Proof. induction l as [|x l IH]; cbn [map flat_map]; [reflexivity|]. rewrite IH. reflexivity. Qed.

Lemma flat_map_flat_map {A B C} (g : A -> list B) (f : B -> list C) l :
  flat_map f (flat_map g l) = flat_map (fun x => flat_map f (g x)) l.
Proof. induction l as [|x l IH]; cbn [flat_map]; [reflexivity|]. rewrite flat_map_app, IH. reflexivity. Qed.

(* ================================================================== 8-blocking *)
(* the blocks of the C++ loops `for (k = 0; k < n; k += 8) { ek = min(k + 8, n); ... }`
   partition 0..n-1 into consecutive ranges *)
Lemma blocks_concat n : flat_map (fun b => from_to (fst b) (snd b)) (blocks n) = seq 0 n.
Proof.
  unfold blocks, range, from_to. rewrite flat_map_map. cbn [fst snd].
  assert (G : forall Q, flat_map (fun q => seq (q * 8) (Nat.min (q * 8 + 8) n - q * 8)) (seq 0 Q)
                        = seq 0 (Nat.min (Q * 8) n)).
  { induction Q as [|Q IH]; [reflexivity|]. rewrite seq_S, flat_map_app, IH. cbn [flat_map Nat.add].
    rewrite app_nil_r. destruct (Nat.le_gt_cases (Q * 8) n) as [Hle|Hgt].
    - rewrite (Nat.min_l (Q * 8) n) by exact Hle. rewrite <- (seq_app (Q * 8) _ 0). f_equal. lia.
    - replace (Nat.min (Q * 8 + 8) n - Q * 8) with 0 by lia. cbn [seq]. rewrite app_nil_r. f_equal. lia. }
  rewrite G. f_equal. pose proof (Nat.div_mod (n + 7) 8 ltac:(lia)) as E.
  pose proof (Nat.mod_upper_bound (n + 7) 8 ltac:(lia)). lia.
Qed.

Lemma blocked {A} (f : nat -> list A) n :
  flat_map (fun blk => flat_map f (from_to (fst blk) (snd blk))) (blocks n) = flat_map f (seq 0 n).
Proof. rewrite <- (blocks_concat n), flat_map_flat_map. reflexivity. Qed.

Lemma blocked_map {A} (f : nat -> A) n :
  flat_map (fun blk => map f (from_to (fst blk) (snd blk))) (blocks n) = map f (seq 0 n).
Proof. rewrite <- (blocks_concat n), map_flat_map. reflexivity. Qed.

(* the 8x8x8-blocked nest of matmul_fw_impl visits exactly the (k, i, j) of the plain triple
   loop, each once: the blocking is a reordering *)
Lemma blocked_nest_perm {A} (E : nat -> nat -> nat -> A) d1 d2 d3 :
  Permutation
    (flat_map (fun kb => flat_map (fun ib => flat_map (fun jb =>
       flat_map (fun kk => flat_map (fun ii => map (fun jj => E kk ii jj)
         (from_to (fst jb) (snd jb))) (from_to (fst ib) (snd ib))) (from_to (fst kb) (snd kb)))
       (blocks d2)) (blocks d1)) (blocks d3))
    (flat_map (fun k => flat_map (fun i => map (fun j => E k i j) (seq 0 d2)) (seq 0 d1)) (seq 0 d3)).
Proof.
  rewrite <- (blocked (fun k => flat_map (fun i => map (fun j => E k i j) (seq 0 d2)) (seq 0 d1)) d3).
  apply perm_flat_map_ext. intros kb _.
  (* interchange jb <-> kk inside every ib *)
  etransitivity.
  { apply perm_flat_map_ext. intros ib _.
    apply (perm_flat_map_swap (fun jb kk => flat_map (fun ii => map (fun jj => E kk ii jj)
             (from_to (fst jb) (snd jb))) (from_to (fst ib) (snd ib)))). }
  (* interchange ib <-> kk *)
  etransitivity.
  { apply (perm_flat_map_swap (fun ib kk => flat_map (fun jb => flat_map (fun ii => map (fun jj => E kk ii jj)
             (from_to (fst jb) (snd jb))) (from_to (fst ib) (snd ib))) (blocks d2))). }
  apply perm_flat_map_ext. intros kk _.
  rewrite <- (blocked (fun i => map (fun j => E kk i j) (seq 0 d2)) d1).
  apply perm_flat_map_ext. intros ib _.
  (* interchange jb <-> ii, then glue the j blocks *)
  etransitivity.
  { apply (perm_flat_map_swap (fun jb ii => map (fun jj => E kk ii jj) (from_to (fst jb) (snd jb)))). }
  apply perm_flat_map_ext. intros ii _.
  rewrite (blocked_map (fun jj => E kk ii jj) d2). apply Permutation_refl.
Qed.

(* ================================================================== sums over a commutative monoid *)
Section Sums.
  Variable T : Type.
  Variables (zero : T) (add : T -> T -> T).
  Hypothesis add_comm : forall a b, add a b = add b a.
  Hypothesis add_assoc : forall a b c, add a (add b c) = add (add a b) c.
  Hypothesis add_0_l : forall a, add zero a = a.

  Definition sum_list (l : list T) : T := fold_right add zero l.

  Lemma fold_left_sum l : forall x, fold_left add l x = add x (sum_list l).
  Proof.
    induction l as [|y l IH]; intro x; cbn [fold_left sum_list fold_right].
    - rewrite add_comm, add_0_l. reflexivity.
    - rewrite IH. rewrite <- add_assoc. reflexivity.
  Qed.

  Lemma sum_list_perm l l' : Permutation l l' -> sum_list l = sum_list l'.
  Proof.
    induction 1 as [|x l l' H IH|x y l|l l' l'' H1 IH1 H2 IH2]; cbn [sum_list fold_right].
    - reflexivity.
    - f_equal. exact IH.
    - rewrite !add_assoc. f_equal. apply add_comm.
    - congruence.
  Qed.

  Lemma sum_list_app l l' : sum_list (l ++ l') = add (sum_list l) (sum_list l').
  Proof.
    induction l as [|x l IH]; cbn [app sum_list fold_right].
    - rewrite add_0_l. reflexivity.
    - fold (sum_list (l ++ l')). rewrite IH. apply add_assoc.
  Qed.
End Sums.

(* ================================================================== matmul *)
Section Matmul.
  Variables (sa sb sy : tshape) (d1 d2 d3 B : nat).
  (* shape_ops::matmul: a = {d1,d2}, b = {d2,d3}, y = {d1,d3}, batch = max, operands 1 or B *)
  Hypothesis Hd1 : tget sa 0 = d1.
  Hypothesis Hd2 : tget sa 1 = d2.
  Hypothesis Hd3 : tget sb 1 = d3.
  Hypothesis HB : tbatch sy = B.

  (* the contribution  y[b; i,k] += a[b or shared; i,j] * b[b or shared; j,k]  (column-major) *)
  Definition mm_entry (b k i j : nat) : nat * (nat * nat) :=
    (b * (d1 * d3) + i + k * d1,
     (bsel sa b * (d1 * d2) + i + j * d1, bsel sb b * (d2 * d3) + j + k * d2)).

  (* the plain triple loop  for b, for k, for i, for j *)
  Definition matmul_canon : list (nat * (nat * nat)) :=
    flat_map2 B (fun b => flat_map2 d3 (fun k => flat_map2 d1 (fun i =>
      map (fun j => mm_entry b k i j) (range d2)))).

  (* the blocked nest is a reordering of the plain loop: every (b,k,i,j) exactly once *)
  Theorem matmul_perm : Permutation (matmul_contribs sa sb sy) matmul_canon.
  Proof.
    unfold matmul_contribs, matmul_canon, flat_map2, range. rewrite Hd1, Hd2, Hd3, HB.
    apply perm_flat_map_ext. intros b _.
    etransitivity.
    { apply (blocked_nest_perm (fun kk ii jj =>
        (b * (d1 * d3) + ii + kk * d1,
         (b * (thas_batch sa * d1 * d2) + ii + jj * d1, b * (thas_batch sb * d2 * d3) + jj + kk * d2)))). }
    apply Permutation_refl'. apply flat_map_ext. intro k. apply flat_map_ext. intro i.
    apply map_ext. intro j. unfold mm_entry, bsel. f_equal. f_equal; f_equal; f_equal; ring.
  Qed.

  Lemma matmul_canon_In e :
    In e matmul_canon <-> exists b k i j, b < B /\ k < d3 /\ i < d1 /\ j < d2 /\ e = mm_entry b k i j.
  Proof.
    unfold matmul_canon. rewrite In_flat_map2. split.
    - intros [b [Hb H]]. apply In_flat_map2 in H. destruct H as [k [Hk H]].
      apply In_flat_map2 in H. destruct H as [i [Hi H]]. apply In_map_range in H.
      destruct H as [j [Hj ->]]. exists b, k, i, j. auto.
    - intros [b [k [i [j [Hb [Hk [Hi [Hj ->]]]]]]]]. exists b. split; [exact Hb|].
      apply In_flat_map2. exists k. split; [exact Hk|]. apply In_flat_map2. exists i. split; [exact Hi|].
      apply In_map_range. exists j. auto.
  Qed.

  Lemma mm_dst_flat b k i : b * (d1 * d3) + i + k * d1 = flat d1 d3 i k b.
  Proof. unfold flat. ring. Qed.

  Lemma mm_dst_inj b k i b' k' i' : i < d1 -> i' < d1 -> k < d3 -> k' < d3 ->
    b * (d1 * d3) + i + k * d1 = b' * (d1 * d3) + i' + k' * d1 -> b = b' /\ k = k' /\ i = i'.
  Proof.
    intros Hi Hi' Hk Hk' E. rewrite !mm_dst_flat in E.
    destruct (flat_inj d1 d3 i k b i' k' b' Hi Hi' Hk Hk' E) as [-> [-> ->]]. auto.
  Qed.

  (* C02: the contributions to output cell (i,k) of sample b are a[i,j]*b[j,k] for j < d2,
     each j exactly once *)
  Theorem matmul_cell b i k : b < B -> i < d1 -> k < d3 ->
    Permutation (cell (b * (d1 * d3) + i + k * d1) (matmul_contribs sa sb sy))
                (map (fun j => mm_entry b k i j) (range d2)).
  Proof.
    intros Hb Hi Hk. unfold cell. rewrite (perm_filter _ _ _ matmul_perm).
    apply Permutation_refl'. unfold matmul_canon.
    set (P := fun e : nat * (nat * nat) => fst e =? b * (d1 * d3) + i + k * d1).
    assert (Hother : forall b' k' i' j', b' < B -> k' < d3 -> i' < d1 ->
              (b', k', i') <> (b, k, i) -> P (mm_entry b' k' i' j') = false).
    { intros b' k' i' j' Hb' Hk' Hi' Hne. unfold P, mm_entry. cbn [fst]. apply Nat.eqb_neq. intro E.
      destruct (mm_dst_inj b' k' i' b k i Hi' Hi Hk' Hk E) as [-> [-> ->]]. apply Hne. reflexivity. }
    rewrite (filter_flat_map2_one P B _ b Hb).
    2:{ intros b' Hb' Hne. apply filter_none. intros x Hx. apply In_flat_map2 in Hx. destruct Hx as [k' [Hk' Hx]].
        apply In_flat_map2 in Hx. destruct Hx as [i' [Hi' Hx]]. apply In_map_range in Hx.
        destruct Hx as [j' [_ ->]]. apply Hother; try assumption. congruence. }
    rewrite (filter_flat_map2_one P d3 _ k Hk).
    2:{ intros k' Hk' Hne. apply filter_none. intros x Hx.
        apply In_flat_map2 in Hx. destruct Hx as [i' [Hi' Hx]]. apply In_map_range in Hx.
        destruct Hx as [j' [_ ->]]. apply Hother; try assumption. congruence. }
    rewrite (filter_flat_map2_one P d1 _ i Hi).
    2:{ intros i' Hi' Hne. apply filter_none. intros x Hx. apply In_map_range in Hx.
        destruct Hx as [j' [_ ->]]. apply Hother; try assumption. congruence. }
    apply filter_all. intros x Hx. apply In_map_range in Hx. destruct Hx as [j [_ ->]].
    unfold P, mm_entry. cbn [fst]. apply Nat.eqb_refl.
  Qed.

  (* every element of y is such a cell *)
  Lemma matmul_cells_cover d : 0 < d1 -> 0 < d3 -> d < B * (d1 * d3) ->
    exists b i k, b < B /\ i < d1 /\ k < d3 /\ d = b * (d1 * d3) + i + k * d1.
  Proof.
    clear Hd1 Hd2 Hd3 HB. intros H1 H3 Hd. destruct (flat_split d1 d3 B d H1 H3) as [i [k [b [Hi [Hk [Hb E]]]]]]; [lia|].
    exists b, i, k. rewrite mm_dst_flat. auto.
  Qed.

  Hypothesis HVa : tvolume sa = d1 * d2.
  Hypothesis HVb : tvolume sb = d2 * d3.
  Hypothesis HVy : tvolume sy = d1 * d3.
  Hypothesis Hba : tbatch sa = 1 \/ tbatch sa = B.
  Hypothesis Hbb : tbatch sb = 1 \/ tbatch sb = B.

  (* C11: every access of the blocked nest is inside its buffer *)
  Theorem matmul_in_bounds :
    Forall (fun e => fst e < tsize sy /\ fst (snd e) < tsize sa /\ snd (snd e) < tsize sb)
           (matmul_contribs sa sb sy).
  Proof.
    apply (Permutation_Forall (Permutation_sym matmul_perm)).
    apply Forall_forall. intros e He. apply matmul_canon_In in He.
    destruct He as [b [k [i [j [Hb [Hk [Hi [Hj ->]]]]]]]]. unfold mm_entry. cbn [fst snd].
    unfold tsize. rewrite HVa, HVb, HVy, HB.
    pose proof (bsel_lt sa b B Hba Hb) as H1. pose proof (bsel_lt sb b B Hbb Hb) as H2.
    assert (A1 : i + k * d1 < d1 * d3) by nia.
    assert (A2 : i + j * d1 < d1 * d2) by nia.
    assert (A3 : j + k * d2 < d2 * d3) by nia.
    assert (B1 : (b + 1) * (d1 * d3) <= B * (d1 * d3)) by (apply Nat.mul_le_mono_r; lia).
    assert (B2 : (bsel sa b + 1) * (d1 * d2) <= tbatch sa * (d1 * d2)) by (apply Nat.mul_le_mono_r; lia).
    assert (B3 : (bsel sb b + 1) * (d2 * d3) <= tbatch sb * (d2 * d3)) by (apply Nat.mul_le_mono_r; lia).
    lia.
  Qed.

  (* ---- value level: y = A * B per sample, over any commutative monoid with a product ---- *)
  Section Value.
    Variable T : Type.
    Variables (zero : T) (add mul : T -> T -> T).
    Hypothesis add_comm : forall a b, add a b = add b a.
    Hypothesis add_assoc : forall a b c, add a (add b c) = add (add a b) c.
    Hypothesis add_0_l : forall a, add zero a = a.

    (* dest[dst] += a[ia] * b[ib] for every contribution *)
    Definition bil_incr (p : list (nat * (nat * nat))) (a b : list T) : list (nat * T) :=
      map (fun e => (fst e, mul (nth (fst (snd e)) a zero) (nth (snd (snd e)) b zero))) p.

    Lemma cell_bil_incr d p a b : cell d (bil_incr p a b) = bil_incr (cell d p) a b.
    Proof. unfold cell, bil_incr. rewrite filter_map_comm. reflexivity. Qed.

    Lemma nth_repeat_zero n j : nth j (repeat zero n) zero = zero.
    Proof. revert j. induction n as [|n IH]; intros [|j]; cbn [repeat nth]; auto. Qed.

    Theorem matmul_value a b bn i k : bn < B -> i < d1 -> k < d3 ->
      nth (bn * (d1 * d3) + i + k * d1)
          (incr_run T zero add (bil_incr (matmul_contribs sa sb sy) a b) (repeat zero (tsize sy))) zero
      = sum_list T zero add (map (fun j =>
          mul (nth (bsel sa bn * (d1 * d2) + i + j * d1) a zero)
              (nth (bsel sb bn * (d2 * d3) + j + k * d2) b zero)) (range d2)).
    Proof.
      intros Hb Hi Hk. rewrite nth_incr_run.
      - rewrite nth_repeat_zero, (fold_left_sum T zero add add_comm add_assoc add_0_l), add_0_l.
        rewrite cell_bil_incr.
        rewrite (sum_list_perm T zero add add_comm add_assoc _
                   (map snd (bil_incr (map (fun j => mm_entry bn k i j) (range d2)) a b))).
        + unfold bil_incr. rewrite !map_map. reflexivity.
        + apply Permutation_map. unfold bil_incr. apply Permutation_map. apply matmul_cell; assumption.
      - rewrite repeat_length. unfold bil_incr. rewrite Forall_map. cbn [fst].
        eapply Forall_impl; [|exact matmul_in_bounds]. intros e [H _]. exact H.
    Qed.
  End Value.
End Matmul.

(* ================================================================== matmul_bw (C01) *)
(* matmul_bw_impl is  ga += gy * b^T ;  gb += a^T * gy  (through matmul_fw, transpose_fw and
   inplace_add_impl).  Over a commutative semiring this is the adjoint of the differential
   dY = A*dB + dA*B of Y = A*B:   <gy, A*dB + dA*B> = <gy*B^T, dA> + <A^T*gy, dB>. *)
Section MatAlg.
  Variable T : Type.
  Variables (zero : T) (add mul : T -> T -> T).
  Hypothesis add_comm : forall a b, add a b = add b a.
  Hypothesis add_assoc : forall a b c, add a (add b c) = add (add a b) c.
  Hypothesis add_0_l : forall a, add zero a = a.
  Hypothesis mul_comm : forall a b, mul a b = mul b a.
  Hypothesis mul_assoc : forall a b c, mul a (mul b c) = mul (mul a b) c.
  Hypothesis mul_add_distr_l : forall a b c, mul a (add b c) = add (mul a b) (mul a c).
  Hypothesis mul_0_r : forall a, mul a zero = zero.

  Fixpoint sumn (n : nat) (f : nat -> T) : T :=
    match n with 0 => zero | S m => add (sumn m f) (f m) end.

  Lemma sumn_ext n f g : (forall i, i < n -> f i = g i) -> sumn n f = sumn n g.
  Proof.
    induction n as [|n IH]; intro H; cbn [sumn]; [reflexivity|].
    rewrite IH by (intros i Hi; apply H; lia). rewrite H by lia. reflexivity.
  Qed.

  Lemma sumn_zero n : sumn n (fun _ => zero) = zero.
  Proof. induction n as [|n IH]; cbn [sumn]; [reflexivity|]. rewrite IH. apply add_0_l. Qed.

  Lemma sumn_add n f g : sumn n (fun i => add (f i) (g i)) = add (sumn n f) (sumn n g).
  Proof.
    induction n as [|n IH]; cbn [sumn]; [rewrite add_0_l; reflexivity|]. rewrite IH.
    rewrite <- !add_assoc. f_equal. rewrite !add_assoc. f_equal. apply add_comm.
  Qed.

  Lemma sumn_mul_l n c f : mul c (sumn n f) = sumn n (fun i => mul c (f i)).
  Proof.
    induction n as [|n IH]; cbn [sumn]; [apply mul_0_r|]. rewrite mul_add_distr_l, IH. reflexivity.
  Qed.

  Lemma sumn_mul_r n c f : mul (sumn n f) c = sumn n (fun i => mul (f i) c).
  Proof. rewrite mul_comm, sumn_mul_l. apply sumn_ext. intros i _. apply mul_comm. Qed.

  Lemma sumn_swap n m (f : nat -> nat -> T) :
    sumn n (fun i => sumn m (fun j => f i j)) = sumn m (fun j => sumn n (fun i => f i j)).
  Proof.
    induction n as [|n IH]; cbn [sumn].
    - rewrite sumn_zero. reflexivity.
    - rewrite IH, <- sumn_add. reflexivity.
  Qed.

  (* per-sample matrices as functions row -> column -> T *)
  Definition mmul (n : nat) (A B : nat -> nat -> T) (i k : nat) : T := sumn n (fun j => mul (A i j) (B j k)).
  Definition mtrans (A : nat -> nat -> T) (i j : nat) : T := A j i.
  Definition mdot (r c : nat) (G Y : nat -> nat -> T) : T :=
    sumn r (fun i => sumn c (fun k => mul (G i k) (Y i k))).

  Theorem matmul_bw_adjoint d1 d2 d3 (A B dA dB G : nat -> nat -> T) :
    mdot d1 d3 G (fun i k => add (mmul d2 A dB i k) (mmul d2 dA B i k))
    = add (mdot d1 d2 (mmul d3 G (mtrans B)) dA) (mdot d2 d3 (mmul d1 (mtrans A) G) dB).
  Proof.
    unfold mdot, mmul, mtrans.
    transitivity (add (sumn d1 (fun i => sumn d3 (fun k => sumn d2 (fun j => mul (G i k) (mul (A i j) (dB j k))))))
                      (sumn d1 (fun i => sumn d3 (fun k => sumn d2 (fun j => mul (G i k) (mul (dA i j) (B j k))))))).
    { rewrite <- sumn_add. apply sumn_ext. intros i _. rewrite <- sumn_add. apply sumn_ext. intros k _.
      rewrite mul_add_distr_l, !sumn_mul_l. reflexivity. }
    rewrite add_comm. f_equal.
    - (* dA: sum_i sum_k sum_j -> sum_i sum_j sum_k *)
      apply sumn_ext. intros i _. rewrite sumn_swap. apply sumn_ext. intros j _.
      rewrite sumn_mul_r. apply sumn_ext. intros k _.
      rewrite (mul_comm (dA i j)), mul_assoc. reflexivity.
    - (* dB: sum_i sum_k sum_j -> sum_j sum_k sum_i *)
      transitivity (sumn d1 (fun i => sumn d2 (fun j => sumn d3 (fun k => mul (G i k) (mul (A i j) (dB j k)))))).
      { apply sumn_ext. intros i _. apply sumn_swap. }
      rewrite sumn_swap. apply sumn_ext. intros j _. rewrite sumn_swap. apply sumn_ext. intros k _.
      rewrite sumn_mul_r. apply sumn_ext. intros i _.
      rewrite mul_assoc, (mul_comm (G i k)). reflexivity.
  Qed.

  (* sumn is the sum_list of the values, and the dot of Index.v on lists *)
  Lemma sumn_sum_list n f : sumn n f = sum_list T zero add (map f (range n)).
  Proof.
    unfold range. induction n as [|n IH]; cbn [sumn]; [reflexivity|].
    rewrite seq_S, map_app, (sum_list_app T zero add add_assoc add_0_l), IH. cbn [map sum_list fold_right Nat.add].
    f_equal. rewrite add_comm, add_0_l. reflexivity.
  Qed.

  Lemma dot_sumn : forall a b : list T, length a = length b ->
    dot T zero add mul a b = sumn (length a) (fun i => mul (nth i a zero) (nth i b zero)).
  Proof.
    induction a as [|x a IH]; intros [|y b] Hl; cbn [length] in Hl; try discriminate; [reflexivity|].
    cbn [dot length]. rewrite IH by lia. rewrite !sumn_sum_list. unfold range.
    cbn [seq map sum_list fold_right nth]. f_equal. fold (sum_list T zero add).
    rewrite <- seq_shift, map_map. reflexivity.
  Qed.
End MatAlg.

(* ================================================================== generic bilinear adjointness *)
(* A bilinear kernel given by triples (y, (x, w)):  forward  Y[y] += X[x] * W[w];
   backward  gX[x] += gY[y] * W[w],  gW[w] += gY[y] * X[x]  over the SAME triples
   (conv2d_fw_impl / conv2d_bw_impl).  Then the backward kernel adds exactly the adjoint of
   the differential of the forward kernel, whatever the triples are (C01). *)
Section TripleAdjoint.
  Variable T : Type.
  Variables (zero : T) (add mul : T -> T -> T).
  Hypothesis add_comm : forall a b, add a b = add b a.
  Hypothesis add_assoc : forall a b c, add a (add b c) = add (add a b) c.
  Hypothesis add_0_l : forall a, add zero a = a.
  Hypothesis mul_comm : forall a b, mul a b = mul b a.
  Hypothesis mul_assoc : forall a b c, mul a (mul b c) = mul (mul a b) c.
  Hypothesis mul_add_distr_r : forall a b c, mul (add a b) c = add (mul a c) (mul b c).
  Hypothesis mul_0_l : forall a, mul zero a = zero.

  Notation dotT := (dot T zero add mul).
  Notation sumT := (sum_list T zero add).

  Lemma incr_run_dot p : forall y g, Forall (fun e => fst e < length y) p -> length g = length y ->
    dotT (incr_run T zero add p y) g
    = add (dotT y g) (sumT (map (fun e => mul (snd e) (nth (fst e) g zero)) p)).
  Proof.
    induction p as [|[d v] r IH]; intros y g Hb Hl; cbn [incr_run map sum_list fold_right fst snd].
    - rewrite add_comm, add_0_l. reflexivity.
    - inversion Hb as [|? ? Hd Hr]; subst. cbn [fst] in Hd.
      rewrite IH.
      + rewrite (dot_upd T zero add mul add_comm add_assoc mul_add_distr_r) by assumption.
        rewrite <- add_assoc. reflexivity.
      + rewrite upd_length by exact Hd. exact Hr.
      + rewrite upd_length by exact Hd. exact Hl.
  Qed.

  Lemma dot_zeros n : forall g, dotT (repeat zero n) g = zero.
  Proof.
    induction n as [|n IH]; intros [|x g]; cbn [repeat dot]; try reflexivity.
    rewrite IH, mul_0_l. apply add_0_l.
  Qed.

  Lemma sum_list_map_add {A} (f g : A -> T) p :
    sumT (map (fun e => add (f e) (g e)) p) = add (sumT (map f p)) (sumT (map g p)).
  Proof.
    induction p as [|e p IH]; cbn [map sum_list fold_right]; [rewrite add_0_l; reflexivity|].
    fold (sumT (map (fun e => add (f e) (g e)) p)). fold (sumT (map f p)). fold (sumT (map g p)).
    rewrite IH. rewrite <- !add_assoc. f_equal. rewrite !add_assoc. f_equal. apply add_comm.
  Qed.

  Lemma add4 a s1 b s2 : add (add a s1) (add b s2) = add (add a b) (add s1 s2).
  Proof. rewrite <- !add_assoc. f_equal. rewrite !add_assoc. f_equal. apply add_comm. Qed.

  Definition trip_fw (p : list (nat * (nat * nat))) (X W : list T) : list (nat * T) :=
    map (fun e => (fst e, mul (nth (fst (snd e)) X zero) (nth (snd (snd e)) W zero))) p.
  (* differential of the forward kernel in direction (dX, dW) *)
  Definition trip_dfw (p : list (nat * (nat * nat))) (X W dX dW : list T) : list (nat * T) :=
    map (fun e => (fst e, add (mul (nth (fst (snd e)) dX zero) (nth (snd (snd e)) W zero))
                              (mul (nth (fst (snd e)) X zero) (nth (snd (snd e)) dW zero)))) p.
  Definition trip_bw_x (p : list (nat * (nat * nat))) (gy W : list T) : list (nat * T) :=
    map (fun e => (fst (snd e), mul (nth (fst e) gy zero) (nth (snd (snd e)) W zero))) p.
  Definition trip_bw_w (p : list (nat * (nat * nat))) (gy X : list T) : list (nat * T) :=
    map (fun e => (snd (snd e), mul (nth (fst e) gy zero) (nth (fst (snd e)) X zero))) p.

  Theorem triple_adjoint p (X W dX dW gy gx gw : list T) :
    Forall (fun e => fst e < length gy /\ fst (snd e) < length gx /\ snd (snd e) < length gw) p ->
    length dX = length gx -> length dW = length gw ->
    add (dotT (incr_run T zero add (trip_bw_x p gy W) gx) dX)
        (dotT (incr_run T zero add (trip_bw_w p gy X) gw) dW)
    = add (add (dotT gx dX) (dotT gw dW))
          (dotT (incr_run T zero add (trip_dfw p X W dX dW) (repeat zero (length gy))) gy).
  Proof.
    intros Hb HlX HlW.
    rewrite !incr_run_dot; try assumption; try (rewrite repeat_length; reflexivity).
    2:{ rewrite repeat_length. unfold trip_dfw. rewrite Forall_map. cbn [fst]. eapply Forall_impl; [|exact Hb]. cbn. tauto. }
    2:{ unfold trip_bw_w. rewrite Forall_map. cbn [fst]. eapply Forall_impl; [|exact Hb]. cbn. tauto. }
    2:{ unfold trip_bw_x. rewrite Forall_map. cbn [fst]. eapply Forall_impl; [|exact Hb]. cbn. tauto. }
    rewrite dot_zeros, add_0_l. unfold trip_bw_x, trip_bw_w, trip_dfw. rewrite !map_map. cbn [fst snd].
    rewrite (map_ext (fun e : nat * (nat * nat) =>
               mul (add (mul (nth (fst (snd e)) dX zero) (nth (snd (snd e)) W zero))
                        (mul (nth (fst (snd e)) X zero) (nth (snd (snd e)) dW zero))) (nth (fst e) gy zero))
             (fun e : nat * (nat * nat) =>
               add (mul (mul (nth (fst e) gy zero) (nth (snd (snd e)) W zero)) (nth (fst (snd e)) dX zero))
                   (mul (mul (nth (fst e) gy zero) (nth (fst (snd e)) X zero)) (nth (snd (snd e)) dW zero)))).
    - rewrite sum_list_map_add. apply add4.
    - intro e. rewrite mul_add_distr_r. f_equal.
      + rewrite (mul_comm (nth (fst (snd e)) dX zero)), mul_comm, mul_assoc. reflexivity.
      + rewrite mul_comm, mul_assoc. reflexivity.
  Qed.
End TripleAdjoint.

(* ================================================================== conv2d *)
Lemma idx_lt a A b Bn : a < A -> b < Bn -> a * Bn + b < A * Bn.
Proof. intros Ha Hb. assert ((a + 1) * Bn <= A * Bn) by (apply Nat.mul_le_mono_r; lia). lia. Qed.

Section Conv2d.
  Variables (sx sw sy : tshape).
  Variables (xh xw xc wh ww yh yw yc B Vx Vw Vy : nat).
  Variables (p0 p1 s0 s1 d0 d1 : nat).
  Hypothesis Hxh : tget sx 0 = xh.
  Hypothesis Hxw : tget sx 1 = xw.
  Hypothesis Hxc : tget sx 2 = xc.
  Hypothesis Hwh : tget sw 0 = wh.
  Hypothesis Hww : tget sw 1 = ww.
  Hypothesis Hyh : tget sy 0 = yh.
  Hypothesis Hyw : tget sy 1 = yw.
  Hypothesis Hyc : tget sy 2 = yc.
  Hypothesis HB : tbatch sy = B.
  Hypothesis HVx : tvolume sx = Vx.
  Hypothesis HVw : tvolume sw = Vw.
  Hypothesis HVy : tvolume sy = Vy.

  (* x coordinate (ty - p0, tx - p1) lies inside the image; ty = y_y*s0 + w_y*d0 etc. *)
  Definition inside (ty tx : nat) : bool :=
    (p0 <=? ty) && (ty - p0 <? xh) && (p1 <=? tx) && (tx - p1 <? xw).

  (* y[bn; y_y, y_x, y_c] += x[bn|shared; s0*y_y + d0*w_y - p0, s1*y_x + d1*w_x - p1, x_c]
                            * w[bn|shared; wh-1-w_y, ww-1-w_x, x_c, y_c]      (column-major) *)
  Definition conv_entry (bn y_c y_x y_y x_c w_x w_y : nat) : nat * (nat * nat) :=
    (bn * Vy + ((y_c * yw + y_x) * yh + y_y),
     (bsel sx bn * Vx + ((x_c * xw + (y_x * s1 + w_x * d1 - p1)) * xh + (y_y * s0 + w_y * d0 - p0)),
      bsel sw bn * Vw + (((y_c * xc + x_c) * ww + (ww - 1 - w_x)) * wh + (wh - 1 - w_y)))).

  (* the group of output element (y_y, y_x, y_c) of sample bn, in loop order: all kernel
     positions whose x coordinate is inside the image (zero padding: the others add nothing) *)
  Definition conv_group (bn y_c y_x y_y : nat) : list (nat * (nat * nat)) :=
    flat_map2 xc (fun x_c => flat_map2 ww (fun w_x => flat_map2 wh (fun w_y =>
      if inside (y_y * s0 + w_y * d0) (y_x * s1 + w_x * d1)
      then [conv_entry bn y_c y_x y_y x_c w_x w_y] else []))).

  Lemma conv2d_form :
    conv2d_triples sx sw sy p0 p1 s0 s1 d0 d1
    = flat_map2 B (fun bn => flat_map2 yc (fun y_c => flat_map2 yw (fun y_x => flat_map2 yh (fun y_y =>
        conv_group bn y_c y_x y_y)))).
  Proof.
    unfold conv2d_triples, conv_group. cbv zeta. rewrite Hxh, Hxw, Hxc, Hwh, Hww, Hyh, Hyw, Hyc, HB, HVx, HVw, HVy.
    apply flat_map2_ext. intros bn _. apply flat_map2_ext. intros y_c _. apply flat_map2_ext. intros y_x _.
    apply flat_map2_ext. intros y_y _. apply flat_map2_ext. intros x_c _. apply flat_map2_ext. intros w_x _.
    apply flat_map2_ext. intros w_y _. unfold inside, conv_entry, bsel.
    destruct ((p0 <=? y_y * s0 + w_y * d0) && (y_y * s0 + w_y * d0 - p0 <? xh) &&
              (p1 <=? y_x * s1 + w_x * d1) && (y_x * s1 + w_x * d1 - p1 <? xw)); [|reflexivity].
    rewrite !Nat.mul_assoc. reflexivity.
  Qed.

  Lemma inside_spec ty tx : inside ty tx = true <-> p0 <= ty /\ ty - p0 < xh /\ p1 <= tx /\ tx - p1 < xw.
  Proof.
    unfold inside. rewrite !andb_true_iff, !Nat.leb_le, !Nat.ltb_lt. tauto.
  Qed.

  Lemma conv_group_In bn y_c y_x y_y e :
    In e (conv_group bn y_c y_x y_y) <->
    exists x_c w_x w_y, x_c < xc /\ w_x < ww /\ w_y < wh /\
      p0 <= y_y * s0 + w_y * d0 /\ y_y * s0 + w_y * d0 - p0 < xh /\
      p1 <= y_x * s1 + w_x * d1 /\ y_x * s1 + w_x * d1 - p1 < xw /\
      e = conv_entry bn y_c y_x y_y x_c w_x w_y.
  Proof.
    unfold conv_group. rewrite In_flat_map2. split.
    - intros [x_c [Hc H]]. apply In_flat_map2 in H. destruct H as [w_x [Hwx H]].
      apply In_flat_map2 in H. destruct H as [w_y [Hwy H]].
      destruct (inside (y_y * s0 + w_y * d0) (y_x * s1 + w_x * d1)) eqn:E; [|destruct H].
      apply inside_spec in E. destruct H as [<-|[]]. exists x_c, w_x, w_y. tauto.
    - intros [x_c [w_x [w_y [Hc [Hwx [Hwy [H1 [H2 [H3 [H4 ->]]]]]]]]]]. exists x_c. split; [exact Hc|].
      apply In_flat_map2. exists w_x. split; [exact Hwx|]. apply In_flat_map2. exists w_y. split; [exact Hwy|].
      rewrite (proj2 (inside_spec _ _)) by tauto. left. reflexivity.
  Qed.

  (* C02: the triples are exactly the TRUE convolution (flipped kernel) with zero padding *)
  Theorem conv2d_spec e :
    In e (conv2d_triples sx sw sy p0 p1 s0 s1 d0 d1) <->
    exists bn y_c y_x y_y x_c w_x w_y,
      bn < B /\ y_c < yc /\ y_x < yw /\ y_y < yh /\ x_c < xc /\ w_x < ww /\ w_y < wh /\
      p0 <= y_y * s0 + w_y * d0 /\ y_y * s0 + w_y * d0 - p0 < xh /\
      p1 <= y_x * s1 + w_x * d1 /\ y_x * s1 + w_x * d1 - p1 < xw /\
      e = conv_entry bn y_c y_x y_y x_c w_x w_y.
  Proof.
    rewrite conv2d_form, In_flat_map2. split.
    - intros [bn [Hb H]]. apply In_flat_map2 in H. destruct H as [y_c [Hc H]].
      apply In_flat_map2 in H. destruct H as [y_x [Hx H]]. apply In_flat_map2 in H. destruct H as [y_y [Hy H]].
      apply conv_group_In in H. destruct H as [x_c [w_x [w_y H]]].
      exists bn, y_c, y_x, y_y, x_c, w_x, w_y. tauto.
    - intros [bn [y_c [y_x [y_y [x_c [w_x [w_y [Hb [Hc [Hx [Hy H]]]]]]]]]]]. exists bn. split; [exact Hb|].
      apply In_flat_map2. exists y_c. split; [exact Hc|]. apply In_flat_map2. exists y_x. split; [exact Hx|].
      apply In_flat_map2. exists y_y. split; [exact Hy|]. apply conv_group_In. exists x_c, w_x, w_y. exact H.
  Qed.

  Hypothesis HVy3 : Vy = yh * yw * yc.

  Lemma conv_dst_flat bn y_c y_x y_y :
    bn * Vy + ((y_c * yw + y_x) * yh + y_y) = flat yh yw y_y y_x (flat 1 yc 0 y_c bn).
  Proof. unfold flat. rewrite HVy3. ring. Qed.

  Lemma conv_dst_inj bn y_c y_x y_y bn' y_c' y_x' y_y' :
    y_c < yc -> y_c' < yc -> y_x < yw -> y_x' < yw -> y_y < yh -> y_y' < yh ->
    bn * Vy + ((y_c * yw + y_x) * yh + y_y) = bn' * Vy + ((y_c' * yw + y_x') * yh + y_y') ->
    bn = bn' /\ y_c = y_c' /\ y_x = y_x' /\ y_y = y_y'.
  Proof.
    intros Hc Hc' Hx Hx' Hy Hy' E. rewrite !conv_dst_flat in E.
    destruct (flat_inj yh yw _ _ _ _ _ _ Hy Hy' Hx Hx' E) as [-> [-> E2]].
    destruct (flat_inj 1 yc 0 y_c bn 0 y_c' bn' ltac:(lia) ltac:(lia) Hc Hc' E2) as [_ [-> ->]]. auto.
  Qed.

  (* every output element gets its group, in loop order - also when the group is empty
     (the C++ stores 0 first, so such an element is 0) *)
  Theorem conv2d_cell bn y_c y_x y_y : bn < B -> y_c < yc -> y_x < yw -> y_y < yh ->
    cell (bn * Vy + ((y_c * yw + y_x) * yh + y_y)) (conv2d_triples sx sw sy p0 p1 s0 s1 d0 d1)
    = conv_group bn y_c y_x y_y.
  Proof.
    intros Hb Hc Hx Hy. unfold cell. rewrite conv2d_form.
    set (P := fun e : nat * (nat * nat) => fst e =? bn * Vy + ((y_c * yw + y_x) * yh + y_y)).
    assert (Hother : forall bn' y_c' y_x' y_y' e, y_c' < yc -> y_x' < yw -> y_y' < yh ->
              (bn', y_c', y_x', y_y') <> (bn, y_c, y_x, y_y) ->
              In e (conv_group bn' y_c' y_x' y_y') -> P e = false).
    { intros bn' y_c' y_x' y_y' e Hc' Hx' Hy' Hne He. apply conv_group_In in He.
      destruct He as [x_c [w_x [w_y [_ [_ [_ [_ [_ [_ [_ ->]]]]]]]]]]. unfold P, conv_entry. cbn [fst].
      apply Nat.eqb_neq. intro E.
      destruct (conv_dst_inj _ _ _ _ _ _ _ _ Hc' Hc Hx' Hx Hy' Hy E) as [-> [-> [-> ->]]]. apply Hne. reflexivity. }
    rewrite (filter_flat_map2_one P B _ bn Hb).
    2:{ intros bn' _ Hne. apply filter_none. intros e He. apply In_flat_map2 in He. destruct He as [y_c' [Hc' He]].
        apply In_flat_map2 in He. destruct He as [y_x' [Hx' He]]. apply In_flat_map2 in He. destruct He as [y_y' [Hy' He]].
        apply (Hother bn' y_c' y_x' y_y' e); try assumption. congruence. }
    rewrite (filter_flat_map2_one P yc _ y_c Hc).
    2:{ intros y_c' Hc' Hne. apply filter_none. intros e He.
        apply In_flat_map2 in He. destruct He as [y_x' [Hx' He]]. apply In_flat_map2 in He. destruct He as [y_y' [Hy' He]].
        apply (Hother bn y_c' y_x' y_y' e); try assumption. congruence. }
    rewrite (filter_flat_map2_one P yw _ y_x Hx).
    2:{ intros y_x' Hx' Hne. apply filter_none. intros e He. apply In_flat_map2 in He. destruct He as [y_y' [Hy' He]].
        apply (Hother bn y_c y_x' y_y' e); try assumption. congruence. }
    rewrite (filter_flat_map2_one P yh _ y_y Hy).
    2:{ intros y_y' Hy' Hne. apply filter_none. intros e He.
        apply (Hother bn y_c y_x y_y' e); try assumption. congruence. }
    apply filter_all. intros e He. apply conv_group_In in He.
    destruct He as [x_c [w_x [w_y [_ [_ [_ [_ [_ [_ [_ ->]]]]]]]]]]. unfold P, conv_entry. cbn [fst]. apply Nat.eqb_refl.
  Qed.

  Lemma conv2d_cells_cover d : 0 < yh -> 0 < yw -> 0 < yc -> d < B * Vy ->
    exists bn y_c y_x y_y, bn < B /\ y_c < yc /\ y_x < yw /\ y_y < yh /\
      d = bn * Vy + ((y_c * yw + y_x) * yh + y_y).
  Proof.
    clear Hxh Hxw Hxc Hwh Hww Hyh Hyw Hyc HB HVx HVw HVy. intros H1 H2 H3 Hd. rewrite HVy3 in Hd.
    destruct (flat_split yh yw (yc * B) d H1 H2) as [y_y [y_x [hi [Hy [Hx [Hh E]]]]]]; [lia|].
    destruct (flat_split 1 yc B hi ltac:(lia) H3) as [z [y_c [bn [Hz [Hc [Hb E2]]]]]]; [lia|].
    exists bn, y_c, y_x, y_y. rewrite conv_dst_flat. replace z with 0 in E2 by lia. rewrite <- E2. auto.
  Qed.

  (* ---- C11 ---- *)
  Hypothesis HVx3 : Vx = xh * xw * xc.
  Hypothesis HVw4 : Vw = wh * ww * xc * yc.
  Hypothesis Hwh0 : 0 < wh.
  Hypothesis Hww0 : 0 < ww.
  Hypothesis Hbx : tbatch sx = 1 \/ tbatch sx = B.
  Hypothesis Hbw : tbatch sw = 1 \/ tbatch sw = B.

  Theorem conv2d_in_bounds :
    Forall (fun e => fst e < tsize sy /\ fst (snd e) < tsize sx /\ snd (snd e) < tsize sw)
           (conv2d_triples sx sw sy p0 p1 s0 s1 d0 d1).
  Proof.
    apply Forall_forall. intros e He. apply conv2d_spec in He.
    destruct He as [bn [y_c [y_x [y_y [x_c [w_x [w_y [Hb [Hc [Hx [Hy [Hxc' [Hwx [Hwy [H1 [H2 [H3 [H4 ->]]]]]]]]]]]]]]]]]].
    unfold conv_entry. cbn [fst snd]. unfold tsize. rewrite HVx, HVw, HVy, HB.
    pose proof (bsel_lt sx bn B Hbx Hb) as Bx. pose proof (bsel_lt sw bn B Hbw Hb) as Bw.
    assert (Ay : (y_c * yw + y_x) * yh + y_y < Vy).
    { rewrite HVy3. replace (yh * yw * yc) with (yc * yw * yh) by ring.
      apply idx_lt; [apply idx_lt; assumption|assumption]. }
    assert (Ax : (x_c * xw + (y_x * s1 + w_x * d1 - p1)) * xh + (y_y * s0 + w_y * d0 - p0) < Vx).
    { rewrite HVx3. replace (xh * xw * xc) with (xc * xw * xh) by ring.
      apply idx_lt; [apply idx_lt; assumption|assumption]. }
    assert (Aw : ((y_c * xc + x_c) * ww + (ww - 1 - w_x)) * wh + (wh - 1 - w_y) < Vw).
    { rewrite HVw4. replace (wh * ww * xc * yc) with (yc * xc * ww * wh) by ring.
      apply idx_lt; [apply idx_lt; [apply idx_lt; assumption|lia]|lia]. }
    assert (By : (bn + 1) * Vy <= B * Vy) by (apply Nat.mul_le_mono_r; lia).
    assert (Bx' : (bsel sx bn + 1) * Vx <= tbatch sx * Vx) by (apply Nat.mul_le_mono_r; lia).
    assert (Bw' : (bsel sw bn + 1) * Vw <= tbatch sw * Vw) by (apply Nat.mul_le_mono_r; lia).
    lia.
  Qed.

  (* ---- value level ---- *)
  Section ConvValue.
    Variable T : Type.
    Variables (zero : T) (add mul : T -> T -> T).

    (* y[bn; y_y,y_x,y_c] = sum over the group, in loop order, starting from 0:
       the true convolution with zero padding (an empty group gives 0) *)
    Theorem conv2d_value x w bn y_c y_x y_y : bn < B -> y_c < yc -> y_x < yw -> y_y < yh ->
      nth (bn * Vy + ((y_c * yw + y_x) * yh + y_y))
          (incr_run T zero add (bil_incr T zero mul (conv2d_triples sx sw sy p0 p1 s0 s1 d0 d1) x w)
                    (repeat zero (tsize sy))) zero
      = fold_left add (map snd (bil_incr T zero mul (conv_group bn y_c y_x y_y) x w)) zero.
    Proof.
      intros Hb Hc Hx Hy. rewrite nth_incr_run.
      - rewrite nth_repeat_zero, cell_bil_incr, conv2d_cell by assumption. reflexivity.
      - rewrite repeat_length. unfold bil_incr. rewrite Forall_map. cbn [fst].
        eapply Forall_impl; [|exact conv2d_in_bounds]. intros e [H _]. exact H.
    Qed.

    (* C01: conv2d_bw_impl (gx[x] += gy[y]*w[w], gw[w] += gy[y]*x[x] over the same triples)
       adds the adjoint of the differential of conv2d_fw_impl; a batch-1 operand receives the
       sum over the samples because its triples address the single shared sample *)
    Hypothesis add_comm : forall a b, add a b = add b a.
    Hypothesis add_assoc : forall a b c, add a (add b c) = add (add a b) c.
    Hypothesis add_0_l : forall a, add zero a = a.
    Hypothesis mul_comm : forall a b, mul a b = mul b a.
    Hypothesis mul_assoc : forall a b c, mul a (mul b c) = mul (mul a b) c.
    Hypothesis mul_add_distr_r : forall a b c, mul (add a b) c = add (mul a c) (mul b c).
    Hypothesis mul_0_l : forall a, mul zero a = zero.

    Theorem conv2d_bw_adjoint (X W dX dW gy gx gw : list T) :
      length gy = tsize sy -> length gx = tsize sx -> length gw = tsize sw ->
      length dX = tsize sx -> length dW = tsize sw ->
      let p := conv2d_triples sx sw sy p0 p1 s0 s1 d0 d1 in
      add (dot T zero add mul (incr_run T zero add (trip_bw_x T zero mul p gy W) gx) dX)
          (dot T zero add mul (incr_run T zero add (trip_bw_w T zero mul p gy X) gw) dW)
      = add (add (dot T zero add mul gx dX) (dot T zero add mul gw dW))
            (dot T zero add mul
               (incr_run T zero add (trip_dfw T zero add mul p X W dX dW) (repeat zero (length gy))) gy).
    Proof.
      intros Hgy Hgx Hgw HdX HdW p.
      apply (triple_adjoint T zero add mul add_comm add_assoc add_0_l mul_comm mul_assoc mul_add_distr_r mul_0_l).
      - rewrite Hgy, Hgx, Hgw. exact conv2d_in_bounds.
      - congruence.
      - congruence.
    Qed.
  End ConvValue.

End Conv2d.

(* ---- the shape rule of shape_ops::conv2d / pool2d (dilation 1, window for (wh-1)*d0+1):
   y_h = (x_h + 2 p0 - ((w_h - 1) d0 + 1)) / s0 + 1.  The dilated window of every output position
   lies inside the padded image, so the coordinate the C++ forms is below x_h + 2 p0 ---- *)
Theorem conv2d_window_fits xh wh yh p0 s0 d0 :
  0 < s0 -> (wh - 1) * d0 + 1 <= xh + 2 * p0 ->
  yh = (xh + 2 * p0 - ((wh - 1) * d0 + 1)) / s0 + 1 ->
  forall y_y w_y, y_y < yh -> w_y < wh -> y_y * s0 + w_y * d0 < xh + 2 * p0.
Proof.
  intros Hs0 Hfit0 Hrule0 y_y w_y Hy Hw.
  pose proof (Nat.mul_div_le (xh + 2 * p0 - ((wh - 1) * d0 + 1)) s0 ltac:(lia)) as Hd.
  assert (A1 : y_y * s0 <= (yh - 1) * s0) by (apply Nat.mul_le_mono_r; lia).
  assert (A2 : w_y * d0 <= (wh - 1) * d0) by (apply Nat.mul_le_mono_r; lia).
  replace (yh - 1) with ((xh + 2 * p0 - ((wh - 1) * d0 + 1)) / s0) in A1 by lia. lia.
Qed.

(* the rule yields the LARGEST such height: one more row would leave the padded image *)
Theorem conv2d_height_maximal xh wh yh p0 s0 d0 :
  0 < s0 -> (wh - 1) * d0 + 1 <= xh + 2 * p0 ->
  yh = (xh + 2 * p0 - ((wh - 1) * d0 + 1)) / s0 + 1 ->
  xh + 2 * p0 < yh * s0 + (wh - 1) * d0 + 1.
Proof.
  intros Hs0 Hfit0 Hrule0.
  pose proof (Nat.div_mod (xh + 2 * p0 - ((wh - 1) * d0 + 1)) s0 ltac:(lia)) as E.
  pose proof (Nat.mod_upper_bound (xh + 2 * p0 - ((wh - 1) * d0 + 1)) s0 ltac:(lia)) as M.
  rewrite Hrule0. lia.
Qed.

(* ================================================================== max_pool2d *)
(* consecutive blocks of destinations *)
Lemma seq_concat {A} n (F : nat -> list (nat * A)) : forall a o,
  (forall i, i < a -> map fst (F i) = seq (o + i * n) n) ->
  map fst (flat_map2 a F) = seq o (a * n).
Proof.
  unfold flat_map2, range. induction a as [|a IH]; intros o H; [reflexivity|].
  rewrite seq_S, flat_map_app, map_app. cbn [flat_map Nat.add]. rewrite app_nil_r.
  rewrite (IH o) by (intros i Hi; apply H; lia). rewrite (H a) by lia.
  replace (S a * n) with (a * n + n) by lia. rewrite seq_app. reflexivity.
Qed.

Lemma sorted_app l1 : forall l2, StronglySorted lt l1 -> StronglySorted lt l2 ->
  (forall a b, In a l1 -> In b l2 -> a < b) -> StronglySorted lt (l1 ++ l2).
Proof.
  induction l1 as [|x l1 IH]; intros l2 H1 H2 H; cbn [app]; [exact H2|].
  inversion H1 as [|? ? Hs Hf]; subst. constructor.
  - apply IH; [exact Hs|exact H2|]. intros a b Ha Hb. apply H; [right; exact Ha|exact Hb].
  - apply Forall_app. split; [exact Hf|]. apply Forall_forall. intros b Hb. apply H; [left; reflexivity|exact Hb].
Qed.

Lemma sorted_flat_map_seq (F : nat -> list nat) : forall n s,
  (forall i, StronglySorted lt (F i)) ->
  (forall i j a b, i < j -> In a (F i) -> In b (F j) -> a < b) ->
  StronglySorted lt (flat_map F (seq s n)).
Proof.
  induction n as [|n IH]; intros s H1 H2; cbn [seq flat_map]; [constructor|].
  apply sorted_app; [apply H1|apply IH; assumption|].
  intros a b Ha Hb. apply in_flat_map in Hb. destruct Hb as [j [Hj Hb]]. apply in_seq in Hj.
  apply (H2 s j a b); [lia|exact Ha|exact Hb].
Qed.

Section Pool2d.
  Variables (sx sy : tshape) (xh xw yh yw R : nat) (w0 w1 p0 p1 s0 s1 : nat).
  Hypothesis Hxh : tget sx 0 = xh.
  Hypothesis Hxw : tget sx 1 = xw.
  Hypothesis Hyh : tget sy 0 = yh.
  Hypothesis Hyw : tget sy 1 = yw.
  (* R = channels * batch *)
  Hypothesis Hsx : tsize sx = xh * xw * R.
  Hypothesis Hxh0 : 0 < xh.
  Hypothesis Hxw0 : 0 < xw.

  (* the window of output (y_y, y_x) of plane r: the positions inside the image, columns
     (w_x) outermost, rows (w_y) innermost = increasing column-major address *)
  Definition pool_window (r y_x y_y : nat) : list nat :=
    flat_map2 w1 (fun w_x =>
      if (p1 <=? y_x * s1 + w_x) && (y_x * s1 + w_x - p1 <? xw) then
        flat_map2 w0 (fun w_y =>
          if (p0 <=? y_y * s0 + w_y) && (y_y * s0 + w_y - p0 <? xh)
          then [r * (xh * xw) + (y_x * s1 + w_x - p1) * xh + (y_y * s0 + w_y - p0)] else [])
      else []).

  Lemma pool_repeat : tsize sx / (xh * xw) = R.
  Proof. rewrite Hsx, Nat.mul_comm. apply Nat.div_mul. nia. Qed.

  Lemma pool2d_form :
    pool2d_red sx sy w0 w1 p0 p1 s0 s1
    = flat_map2 R (fun r => flat_map2 yw (fun y_x => map (fun y_y =>
        (r * (yh * yw) + y_x * yh + y_y, pool_window r y_x y_y)) (range yh))).
  Proof. unfold pool2d_red. cbv zeta. rewrite Hxh, Hxw, Hyh, Hyw, pool_repeat. reflexivity. Qed.

  (* C11: every output element written exactly once, in increasing order *)
  Theorem pool2d_sequential : sequential (pool2d_red sx sy w0 w1 p0 p1 s0 s1) (R * (yw * yh)).
  Proof.
    unfold sequential. rewrite pool2d_form. apply (seq_concat (yw * yh) _ R 0). intros r Hr.
    apply (seq_concat yh _ yw (0 + r * (yw * yh))). intros y_x Hx.
    rewrite map_map. cbn [fst]. unfold range.
    rewrite (map_ext _ (fun y_y => (0 + r * (yw * yh) + y_x * yh) + y_y)).
    - rewrite map_add_seq. f_equal. lia.
    - intro y_y. rewrite (Nat.mul_comm yh yw). lia.
  Qed.

  Lemma pool_window_In r y_x y_y s :
    In s (pool_window r y_x y_y) <->
    exists w_x w_y, w_x < w1 /\ w_y < w0 /\
      p1 <= y_x * s1 + w_x /\ y_x * s1 + w_x - p1 < xw /\
      p0 <= y_y * s0 + w_y /\ y_y * s0 + w_y - p0 < xh /\
      s = r * (xh * xw) + (y_x * s1 + w_x - p1) * xh + (y_y * s0 + w_y - p0).
  Proof.
    unfold pool_window. rewrite In_flat_map2. split.
    - intros [w_x [Hwx H]].
      destruct ((p1 <=? y_x * s1 + w_x) && (y_x * s1 + w_x - p1 <? xw)) eqn:E1; [|destruct H].
      apply In_flat_map2 in H. destruct H as [w_y [Hwy H]].
      destruct ((p0 <=? y_y * s0 + w_y) && (y_y * s0 + w_y - p0 <? xh)) eqn:E0; [|destruct H].
      destruct H as [<-|[]]. apply andb_true_iff in E1, E0.
      rewrite Nat.leb_le, Nat.ltb_lt in E1, E0. exists w_x, w_y. tauto.
    - intros [w_x [w_y [Hwx [Hwy [H1 [H2 [H3 [H4 ->]]]]]]]]. exists w_x. split; [exact Hwx|].
      rewrite (proj2 (andb_true_iff _ _)) by (rewrite Nat.leb_le, Nat.ltb_lt; tauto).
      apply In_flat_map2. exists w_y. split; [exact Hwy|].
      rewrite (proj2 (andb_true_iff _ _)) by (rewrite Nat.leb_le, Nat.ltb_lt; tauto).
      left. reflexivity.
  Qed.

  (* C02: output (y_y, y_x) of plane r takes the maximum over exactly the in-image positions of
     its window *)
  Theorem pool2d_spec d cs :
    In (d, cs) (pool2d_red sx sy w0 w1 p0 p1 s0 s1) <->
    exists r y_x y_y, r < R /\ y_x < yw /\ y_y < yh /\
      d = r * (yh * yw) + y_x * yh + y_y /\ cs = pool_window r y_x y_y.
  Proof.
    rewrite pool2d_form, In_flat_map2. split.
    - intros [r [Hr H]]. apply In_flat_map2 in H. destruct H as [y_x [Hx H]].
      apply In_map_range in H. destruct H as [y_y [Hy E]]. injection E as -> ->.
      exists r, y_x, y_y. auto.
    - intros [r [y_x [y_y [Hr [Hx [Hy [-> ->]]]]]]]. exists r. split; [exact Hr|].
      apply In_flat_map2. exists y_x. split; [exact Hx|]. apply In_map_range. exists y_y. auto.
  Qed.

  (* C11: every candidate is inside x *)
  Theorem pool2d_in_bounds : red_in_bounds (pool2d_red sx sy w0 w1 p0 p1 s0 s1) (tsize sx).
  Proof.
    apply Forall_forall. intros [d cs] Hin. cbn [snd]. apply pool2d_spec in Hin.
    destruct Hin as [r [y_x [y_y [Hr [Hx [Hy [-> ->]]]]]]]. apply Forall_forall. intros s Hs.
    apply pool_window_In in Hs. destruct Hs as [w_x [w_y [_ [_ [_ [H2 [_ [H4 ->]]]]]]]].
    rewrite Hsx. replace (xh * xw * R) with (R * (xw * xh)) by ring. rewrite (Nat.mul_comm xh xw).
    pose proof (idx_lt _ _ _ _ H2 H4) as A.
    assert ((r + 1) * (xw * xh) <= R * (xw * xh)) by (apply Nat.mul_le_mono_r; lia). lia.
  Qed.

  (* a window that lies entirely in the padding has NO candidate (possible as soon as
     padding >= window, which shape_ops::pool2d accepts): the C++ then stores
     numeric_limits<float>::lowest() *)
  Theorem pool2d_window_empty r y_x y_y : y_y * s0 + w0 <= p0 -> pool_window r y_x y_y = [].
  Proof.
    clear Hxh Hxw Hyh Hyw Hsx Hxh0 Hxw0. intro H. unfold pool_window, flat_map2. apply flat_map_nil. intros w_x _.
    destruct ((p1 <=? y_x * s1 + w_x) && (y_x * s1 + w_x - p1 <? xw)); [|reflexivity].
    apply flat_map_nil. intros w_y Hw. unfold range in Hw. apply in_seq in Hw.
    replace (p0 <=? y_y * s0 + w_y) with false by (symmetry; apply Nat.leb_gt; lia). reflexivity.
  Qed.

  (* in general: a window has a candidate iff some position of it is inside the image *)
  Theorem pool2d_window_nonempty r y_x y_y :
    pool_window r y_x y_y <> [] <->
    exists w_x w_y, w_x < w1 /\ w_y < w0 /\
      p1 <= y_x * s1 + w_x /\ y_x * s1 + w_x - p1 < xw /\
      p0 <= y_y * s0 + w_y /\ y_y * s0 + w_y - p0 < xh.
  Proof.
    split.
    - intro H. destruct (pool_window r y_x y_y) as [|s l] eqn:E; [congruence|].
      assert (Hin : In s (pool_window r y_x y_y)) by (rewrite E; left; reflexivity).
      apply pool_window_In in Hin. destruct Hin as [w_x [w_y Hw]]. exists w_x, w_y. tauto.
    - intros [w_x [w_y Hw]] E.
      assert (Hin : In (r * (xh * xw) + (y_x * s1 + w_x - p1) * xh + (y_y * s0 + w_y - p0)) (pool_window r y_x y_y)).
      { apply pool_window_In. exists w_x, w_y. tauto. }
      rewrite E in Hin. destruct Hin.
  Qed.

  (* the scan is column-major: the candidates are visited by strictly increasing address *)
  Theorem pool_window_sorted r y_x y_y : StronglySorted lt (pool_window r y_x y_y).
  Proof.
    clear Hxh Hxw Hyh Hyw Hsx Hxh0 Hxw0. unfold pool_window, flat_map2, range. apply sorted_flat_map_seq.
    - intro w_x. destruct ((p1 <=? y_x * s1 + w_x) && (y_x * s1 + w_x - p1 <? xw)); [|constructor].
      apply sorted_flat_map_seq.
      + intro w_y. destruct ((p0 <=? y_y * s0 + w_y) && (y_y * s0 + w_y - p0 <? xh)); repeat constructor.
      + intros i j a b Hij Ha Hb.
        destruct ((p0 <=? y_y * s0 + i) && (y_y * s0 + i - p0 <? xh)) eqn:Ei; [|destruct Ha].
        destruct ((p0 <=? y_y * s0 + j) && (y_y * s0 + j - p0 <? xh)) eqn:Ej; [|destruct Hb].
        destruct Ha as [<-|[]]. destruct Hb as [<-|[]]. apply andb_true_iff in Ei, Ej.
        rewrite Nat.leb_le, Nat.ltb_lt in Ei, Ej. lia.
    - intros i j a b Hij Ha Hb.
      destruct ((p1 <=? y_x * s1 + i) && (y_x * s1 + i - p1 <? xw)) eqn:Ei; [|destruct Ha].
      destruct ((p1 <=? y_x * s1 + j) && (y_x * s1 + j - p1 <? xw)) eqn:Ej; [|destruct Hb].
      apply andb_true_iff in Ei, Ej. rewrite Nat.leb_le, Nat.ltb_lt in Ei, Ej.
      apply in_flat_map in Ha, Hb. destruct Ha as [wa [_ Ha]]. destruct Hb as [wb [_ Hb]].
      destruct ((p0 <=? y_y * s0 + wa) && (y_y * s0 + wa - p0 <? xh)) eqn:Ea; [|destruct Ha].
      destruct ((p0 <=? y_y * s0 + wb) && (y_y * s0 + wb - p0 <? xh)) eqn:Eb; [|destruct Hb].
      destruct Ha as [<-|[]]. destruct Hb as [<-|[]]. apply andb_true_iff in Ea, Eb.
      rewrite Nat.leb_le, Nat.ltb_lt in Ea, Eb.
      assert ((y_x * s1 + i - p1 + 1) * xh <= (y_x * s1 + j - p1) * xh) by (apply Nat.mul_le_mono_r; lia). lia.
  Qed.
End Pool2d.

(* ================================================================== ab_bw, restated *)
(* add_bw_impl ... pow_bw_impl walk gy exactly as the forward kernel walks y *)
Theorem ab_bw_sequential sga sgb sgy V B : tvolume sgy = V -> tbatch sgy = B ->
  sequential (ab_bw sga sgb sgy) (B * V).
Proof. intros HV HB. rewrite ab_bw_is_ab_fw. exact (ab_fw_sequential sga sgb sgy V B HV HB). Qed.

Theorem ab_bw_spec sga sgb sgy V B d ia ib : tvolume sgy = V -> tbatch sgy = B ->
  (In (d, (ia, ib)) (ab_bw sga sgb sgy) <->
   exists b i, b < B /\ i < V /\ d = b * V + i /\ ia = bsel sga b * V + i /\ ib = bsel sgb b * V + i).
Proof. intros HV HB. rewrite ab_bw_is_ab_fw. exact (ab_fw_spec sga sgb sgy V B HV HB d ia ib). Qed.

Theorem ab_bw_in_bounds sga sgb sgy V B : tvolume sgy = V -> tbatch sgy = B ->
  tvolume sga = V -> tvolume sgb = V -> tbatch sga = 1 \/ tbatch sga = B -> tbatch sgb = 1 \/ tbatch sgb = B ->
  Forall (fun e => fst e < tsize sgy /\ fst (snd e) < tsize sga /\ snd (snd e) < tsize sgb) (ab_bw sga sgb sgy).
Proof. intros. rewrite ab_bw_is_ab_fw. apply (ab_fw_in_bounds sga sgb sgy V B); assumption. Qed.

(* ================================================================== the signed coordinate *)
(* conv2d_*_impl and max_pool2d_*_impl form  x_y = -padding + y_y*stride + w_y*dilation  in uint32
   arithmetic, convert it to int32 and test  x_y >= 0 && x_y < int32(x_height).  Kernels.v models
   the test on exact naturals (p <=? t) && (t - p <? xh).  The two agree whenever padding and
   image stay below 2^31 (all values the shape rule lets the kernel form then fit, by
   conv2d_window_fits); for a padding above 2^31 the C++ wraps around and takes a padding
   position for an image position. *)
From Coq Require Import ZArith.
Local Open Scope Z_scope.

Definition to_i32 (z : Z) : Z :=
  let u := z mod 4294967296 in if u <? 2147483648 then u else u - 4294967296.
(* t = y_y*stride + w_y*dilation; sums and products mod 2^32 commute with the exact ones *)
Definition cxx_in_image (p t xh : Z) : bool :=
  let c := to_i32 (t - p) in (0 <=? c) && (c <? to_i32 xh).
Definition ideal_in_image (p t xh : Z) : bool := (p <=? t) && (t - p <? xh).

Lemma to_i32_exact z : -2147483648 <= z < 2147483648 -> to_i32 z = z.
Proof.
  intro H. unfold to_i32. cbv zeta.
  destruct (Z.ltb_spec (z mod 4294967296) 2147483648) as [L|L]; Z.div_mod_to_equations; lia.
Qed.

Theorem signed_coordinate_exact p t xh :
  0 <= p <= 2147483648 -> 0 <= xh < 2147483648 -> xh + p <= 2147483648 -> 0 <= t < xh + 2 * p ->
  cxx_in_image p t xh = ideal_in_image p t xh.
Proof.
  intros Hp Hx Hs Ht. unfold cxx_in_image, ideal_in_image. cbv zeta.
  rewrite (to_i32_exact (t - p)) by lia. rewrite (to_i32_exact xh) by lia.
  f_equal. destruct (Z.leb_spec 0 (t - p)), (Z.leb_spec p t); lia.
Qed.

Lemma ideal_of_nat (p t xh : nat) :
  ideal_in_image (Z.of_nat p) (Z.of_nat t) (Z.of_nat xh) = ((p <=? t)%nat && (t - p <? xh)%nat).
Proof.
  unfold ideal_in_image. destruct (Nat.leb_spec p t) as [H|H].
  - rewrite (proj2 (Z.leb_le _ _)) by lia. cbn [andb].
    destruct (Nat.ltb_spec (t - p) xh), (Z.ltb_spec (Z.of_nat t - Z.of_nat p) (Z.of_nat xh)); try reflexivity; lia.
  - rewrite (proj2 (Z.leb_gt _ _)) by lia. reflexivity.
Qed.

(* padding0 = 2^32-1, x_height = 2, first output row: the C++ test accepts x_y = 1 although the
   position lies 2^32-1 rows above the image  (conv2d on x = {2}, w = {1}, padding0 = stride0 =
   4294967295 is accepted by shape_ops::conv2d and returns y[0] = x[1]*w[0] instead of 0) *)
Theorem signed_coordinate_refuted :
  cxx_in_image 4294967295 0 2 = true /\ ideal_in_image 4294967295 0 2 = false.
Proof. vm_compute. split; reflexivity. Qed.

Theorem signed_coordinate_refuted_ex :
  exists p t xh, 0 <= p < 4294967296 /\ 0 < xh /\ 0 <= t < xh + 2 * p /\
                 cxx_in_image p t xh = true /\ ideal_in_image p t xh = false.
Proof. exists 4294967295, 0, 2. vm_compute. repeat split; intro; discriminate. Qed.
