(* C03, audit item (a): the gradient reaching a batch-1 operand is the SUM over the samples of the
   per-sample gradients - for PROGRAMS, not only per kernel.

   dexpr is the differentiable fragment of the expression language xexpr of Tensor/ProofsBatchLaw.v
   over a commutative ring R: leaves are the entries of an environment (inputs / parameters, the
   things gradients are asked for), constants, and the operators
       negate, x+k, x-k, k-x, x*k (k a constant or a scalar-shaped tensor), add, subtract, multiply
       (with B-vs-1 minibatch broadcasting), matmul, conv2d, sum along an axis, slice, pick, concat
       (any number of operands), broadcast, reshape / flatten, transpose, permute_dims, flip.
   Forward semantics = xeval of the erased program (the real kernel index programs of
   Tensor/Kernels.v); the reverse sweep [dback] pushes the upstream gradient through the BACKWARD
   kernel programs of the SAME operator descriptors as core_family of Tensor/GraphInst.v
   (d_bw (describe o): ab_bw, slice_bw, pick_bw, inplace_add folding, matmul of transposes ...),
   the operator being instantiated at the shapes the shape rules compute.

     dback_adjoint        <dback e gy, dx> = <gy, tangent program of e in direction dx>
                          (from describe_LA, i.e. the kernel adjoint theorems of C01)
     tangent batch law    the tangent program is itself a program of xexpr, so
                          batch_law_program_ext applies to it
     grad_shared_is_sum   a leaf of batch 1: its gradient from the batched run with upstream gy is
                          the sum over b < B of its gradients from the per-sample runs with upstream
                          sample b of gy
     grad_batched_is_sample   a leaf of batch B: sample c of its gradient is its gradient from the
                          per-sample run c
   NOT covered here: the elementwise functions with analytic derivatives, divide / pow (also their
   ...Scalar / ...Const variants), max / min / logsumexp, max_pool2d (no polynomial tangent over a
   ring; not in core_family).  So of the 16 operator kinds of xexpr all but XPool2d are covered,
   XUn / XBin / XScal / XReduce for their polynomial instances. *)
From Coq Require Import List NArith Bool Arith Lia Ring Permutation.
From PV Require Import Graph.OpFamily Tensor.Kernels Tensor.Index Tensor.KernelProofs
  Tensor.ProofsGather Tensor.ProofsPerm Tensor.ProofsBilinear Tensor.ProofsBatchSample Tensor.ProofsBatchLaw
  Tensor.AdjCore Tensor.AdjMatmul Tensor.AdjScalar Tensor.GraphInst.
Import ListNotations.

Module PBS := PV.Tensor.ProofsBatchSample.

(* ================================================================== scalar-free facts *)
Lemma single_slice_fw sx sy dim off : single (slice_fw sx sy dim off).
Proof.
  unfold single, slice_fw, flat_map2. apply Forall_forall. intros e He. apply in_flat_map in He.
  destruct He as (i & _ & He). apply in_map_iff in He. destruct He as (j & <- & _). reflexivity.
Qed.
Lemma single_transpose_fw sx sy : single (transpose_fw sx sy).
Proof.
  unfold single, transpose_fw, flat_map2. apply Forall_forall. intros e He. apply in_flat_map in He.
  destruct He as (k & _ & He). apply in_flat_map in He. destruct He as (j & _ & He).
  apply in_map_iff in He. destruct He as (i & <- & _). reflexivity.
Qed.
Lemma single_acc_as_mov p : single (acc_as_mov p).
Proof. unfold single, acc_as_mov. rewrite Forall_map. apply Forall_forall. intros e _. reflexivity. Qed.

Lemma single_pick_fw sx sy ids dim : single (pick_fw sx sy ids dim).
Proof.
  unfold single, pick_fw, flat_map2. apply Forall_forall. intros e He. apply in_flat_map in He.
  destruct He as (b & _ & He). apply in_flat_map in He. destruct He as (i & _ & He).
  apply in_map_iff in He. destruct He as (j & <- & _). reflexivity.
Qed.
Lemma single_broadcast_fw sx sy dim size : single (broadcast_fw sx sy dim size).
Proof.
  unfold single, broadcast_fw, flat_map2. apply Forall_forall. intros e He. apply in_flat_map in He.
  destruct He as (i & _ & He). apply in_map_iff in He. destruct He as (j & <- & _). reflexivity.
Qed.
Lemma rshape_self s : rshape s s = s.
Proof. destruct s as [d b]. unfold rshape. cbn [tdims tbatch]. rewrite Nat.max_id. reflexivity. Qed.
Lemma matmul_dst_bound sa sb : PBS.matmul_ok sa sb ->
  Forall (fun e : nat * (nat * nat) => fst e < tsize (matmul_shape sa sb)) (matmul_contribs sa sb (matmul_shape sa sb)).
Proof.
  intro Hok. rewrite matmul_blocks.
  destruct (matmul_unb_body sa sb Hok) as [_ IB]. apply Forall_forall. intros e He.
  apply In_flat_map2 in He. destruct He as [b' [Hb' He]]. apply in_map_iff in He. destruct He as [e1 [<- He1]].
  destruct (proj1 (Forall_forall _ _) IB _ He1) as [L _]. unfold shift3. cbn [fst].
  rewrite tsize_eq, matmul_shape_volume. pose proof (block_le b' _ (tget sa 0 * tget sb 1) Hb'). lia.
Qed.

Lemma tsize_set_dim s d n : tsize (set_dim s d n) = tlower s d * n * (tupper s d * tbatch s).
Proof. unfold tsize. rewrite tvolume_set_dim. cbn [set_dim tbatch]. ring. Qed.
Lemma tsize_axis' s d : tsize s = tlower s d * tget s d * (tupper s d * tbatch s).
Proof. unfold tsize. rewrite (vol_split s d). ring. Qed.
Lemma div_exact a b : 0 < a -> a * b / a = b.
Proof. intro H. rewrite Nat.mul_comm. apply Nat.div_mul. lia. Qed.

Ltac btrue :=
  repeat (apply andb_true_intro; split);
  match goal with
  | |- (_ =? _) = true => apply Nat.eqb_eq
  | |- (_ <? _) = true => apply Nat.ltb_lt
  | |- (_ <=? _) = true => apply Nat.leb_le
  | _ => idtac
  end.

(* the guards of Tensor/GraphInst.v hold at the shapes the shape rules compute *)
Lemma guard_slice sx dim off n : twf sx -> PBS.slice_ok sx dim off n ->
  GraphInst.slice_ok sx (set_dim sx dim n) dim off = true.
Proof.
  intros W [Hn Ho]. pose proof (tlower_pos sx dim W) as Hl. pose proof (PBS.tget_pos sx dim W) as Hg.
  pose proof (PBS.tupper_pos sx dim W) as Hu. destruct W as [_ Wb].
  unfold GraphInst.slice_ok. rewrite tlower_set_dim, tget_set_dim, tvolume_set_dim. cbn [set_dim tbatch].
  assert (ER : tvolume sx / (tlower sx dim * tget sx dim) = tupper sx dim).
  { rewrite (vol_split sx dim), Nat.mul_assoc. apply div_exact. nia. }
  rewrite ER. btrue; try lia; try ring. rewrite (vol_split sx dim). ring.
Qed.

Lemma or_eqb a b c : a = b \/ a = c -> (a =? b) || (a =? c) = true.
Proof. intros [->| ->]; rewrite Nat.eqb_refl; [reflexivity|apply orb_true_r]. Qed.

Lemma guard_pick sx ids dim : twf sx -> PBS.pick_ok sx ids dim ->
  GraphInst.pick_ok sx (pick_shape sx ids dim) ids dim = true.
Proof.
  intros W (Hl & Hc & Hi). pose proof (tlower_pos sx dim W) as Hlo. pose proof (PBS.tupper_pos sx dim W) as Hu.
  destruct W as [_ Wb]. unfold GraphInst.pick_ok, pick_shape.
  change (tlower (with_batch (set_dim sx dim 1) (Nat.max (tbatch sx) (length ids))) dim) with (tlower (set_dim sx dim 1) dim).
  change (tvolume (with_batch (set_dim sx dim 1) (Nat.max (tbatch sx) (length ids)))) with (tvolume (set_dim sx dim 1)).
  cbn [with_batch tbatch]. rewrite tlower_set_dim, tvolume_set_dim.
  assert (ER : tlower sx dim * (1 * tupper sx dim) / tlower sx dim = 1 * tupper sx dim) by (apply div_exact; exact Hlo).
  rewrite ER. btrue; try lia; try ring.
  - rewrite (vol_split sx dim). ring.
  - apply or_eqb. lia.
  - apply or_eqb. lia.
  - apply forallb_forall. intros i Hin. apply Nat.ltb_lt. apply (In_nth _ _ 0) in Hin. destruct Hin as (k & Hk & <-). apply Hi. exact Hk.
Qed.

Lemma guard_sum sx dim : twf sx -> sum_ok sx (set_dim sx dim 1) dim = true.
Proof.
  intro W. pose proof (tlower_pos sx dim W) as Hlo. pose proof (PBS.tupper_pos sx dim W) as Hu.
  pose proof (PBS.tget_pos sx dim W) as Hg. destruct W as [_ Wb]. unfold sum_ok.
  rewrite tlower_set_dim, tsize_set_dim. cbn [set_dim tbatch].
  assert (ER : tlower sx dim * 1 * (tupper sx dim * tbatch sx) / tlower sx dim = tupper sx dim * tbatch sx).
  { rewrite Nat.mul_1_r. apply div_exact. exact Hlo. }
  rewrite ER. btrue; try lia; try ring; try apply tsize_axis'; try nia.
Qed.

Lemma guard_broadcast sx dim size : twf sx -> PBS.broadcast_ok sx dim size ->
  sum_ok (set_dim sx dim size) sx dim && (tget (set_dim sx dim size) dim =? size) = true.
Proof.
  intros W [Hs H1]. pose proof (tlower_pos sx dim W) as Hlo. pose proof (PBS.tupper_pos sx dim W) as Hu.
  destruct W as [_ Wb]. unfold sum_ok. rewrite tlower_set_dim, tget_set_dim, tsize_set_dim. cbn [set_dim tbatch].
  assert (ES : tsize sx = tlower sx dim * (tupper sx dim * tbatch sx)) by (rewrite (tsize_axis' sx dim), H1; ring).
  assert (ER : tsize sx / tlower sx dim = tupper sx dim * tbatch sx) by (rewrite ES; apply div_exact; exact Hlo).
  rewrite ER. btrue; try lia; try ring.
Qed.

Lemma guard_flip s dim : twf s -> flip_ok s dim = true.
Proof.
  intro W. pose proof (tlower_pos s dim W) as Hlo. pose proof (PBS.tupper_pos s dim W) as Hu.
  pose proof (PBS.tget_pos s dim W) as Hg. destruct W as [_ Wb]. unfold flip_ok.
  assert (ER : tsize s / (tlower s dim * tget s dim) = tupper s dim * tbatch s).
  { rewrite (tsize_axis' s dim). apply div_exact. nia. }
  rewrite ER. btrue; try lia. apply tsize_axis'.
Qed.

Lemma guard_transpose sx : PBS.transpose_ok sx -> GraphInst.transpose_ok sx (transpose_shape sx) = true.
Proof.
  intro H. unfold PBS.transpose_ok in H. unfold GraphInst.transpose_ok, transpose_shape, tsize.
  rewrite vol2. cbn [tbatch tget tdims nth]. rewrite H. btrue; try lia; try ring.
Qed.

Lemma guard_reshape sx dims : twf sx -> PBS.reshape_ok sx dims -> GraphInst.reshape_ok sx (reshape_shape sx dims) = true.
Proof.
  intros [_ Wb] [_ Hv]. unfold GraphInst.reshape_ok, reshape_shape. cbn [tbatch]. btrue; try lia.
  unfold tvolume at 1. cbn [tdims]. exact Hv.
Qed.

Lemma guard_ew sa sb B : twf sa -> twf sb -> tdims sa = tdims sb ->
  (tbatch sa = 1 \/ tbatch sa = B) -> (tbatch sb = 1 \/ tbatch sb = B) -> ew_ok sa sb = true.
Proof.
  intros [_ Wa] [_ Wb] Hd Ha Hb. unfold ew_ok.
  destruct (list_eq_dec Nat.eq_dec (tdims sa) (tdims sb)) as [_|N]; [|contradiction].
  btrue; try lia. apply orb_true_iff.
  destruct Ha as [Ha|Ha]; [left; apply orb_true_iff; right; apply Nat.eqb_eq; exact Ha|].
  destruct Hb as [Hb|Hb]; [right; apply Nat.eqb_eq; exact Hb|].
  left. apply orb_true_iff. left. apply Nat.eqb_eq. lia.
Qed.

Lemma guard_matmul sa sb B : twf sa -> twf sb -> PBS.matmul_ok sa sb ->
  (tbatch sa = 1 \/ tbatch sa = B) -> (tbatch sb = 1 \/ tbatch sb = B) ->
  AdjMatmul.matmul_ok sa sb (matmul_shape sa sb) = true.
Proof.
  intros [_ Wa] [_ Wb] (H1 & H2 & H3) Ha Hb. unfold AdjMatmul.matmul_ok, matmul_shape.
  rewrite vol2. cbn [tbatch tget tdims nth]. btrue; try lia.
  - apply or_eqb. lia.
  - apply or_eqb. lia.
Qed.

Lemma filter_block {A B} (blk : A -> list (nat * B)) (fstA : A -> nat) (p : list A) (e : A) :
  NoDup (map fstA p) -> In e p -> (forall e' x, In x (blk e') -> fst x = fstA e') ->
  filter (fun x : nat * B => fst x =? fstA e) (flat_map blk p) = blk e.
Proof.
  intros Hnd Hin Hblk. induction p as [|a p IH]; [destruct Hin|].
  cbn [flat_map map] in *. inversion Hnd as [|? ? Hna Hnd']; subst. rewrite filter_app.
  destruct Hin as [->|Hin].
  - rewrite (filter_all _ (blk e)) by (intros x Hx; apply Nat.eqb_eq; apply (Hblk e x Hx)).
    rewrite (filter_none _ (flat_map blk p)); [apply app_nil_r|].
    intros x Hx. apply in_flat_map in Hx. destruct Hx as (e' & He' & Hx). apply Nat.eqb_neq. rewrite (Hblk e' x Hx).
    intro E. apply Hna. rewrite <- E. apply in_map. exact He'.
  - rewrite (filter_none _ (blk a)); [apply IH; assumption|].
    intros x Hx. apply Nat.eqb_neq. rewrite (Hblk a x Hx). intro E. apply Hna. rewrite E. apply in_map. exact Hin.
Qed.

Lemma ab_same s e : In e (ab_fw s s s) -> fst (snd e) = fst e /\ snd (snd e) = fst e.
Proof.
  unfold ab_fw, flat_map2, range. intro H. apply in_flat_map in H. destruct H as (b & Hb & H).
  apply in_map_iff in H. destruct H as (i & <- & Hi). apply in_seq in Hb. cbn [fst snd].
  unfold thas_batch. destruct (Nat.ltb_spec 1 (tbatch s)) as [L|L]; [split; ring|].
  assert (b = 0) by lia. subst b. split; ring.
Qed.

Lemma rshape_idem a b : rshape (rshape a b) (rshape a b) = rshape a b.
Proof. unfold rshape. cbn [tdims tbatch]. rewrite Nat.max_id. reflexivity. Qed.

Lemma axis_red_sequential sx sy dim : sequential (axis_red sx sy dim) (tsize sy).
Proof. unfold sequential, axis_red, range. rewrite map_map. cbn [fst]. apply map_id. Qed.

Lemma single_permute_fw sx sy perm : single (permute_fw sx sy perm).
Proof. unfold single, permute_fw. rewrite Forall_map. apply Forall_forall. intros e _. reflexivity. Qed.

Lemma guard_permute sx perm : twf sx -> PBS.permute_ok sx perm ->
  GraphInst.permute_ok sx (permute_shape sx perm) perm = true.
Proof.
  intros W [Hp Hd]. pose proof (permute_shape_twf sx perm W) as Wy. unfold GraphInst.permute_ok.
  assert (Tb : forall s, twf s -> twf_b s = true).
  { intros s [H1 H2]. unfold twf_b. apply andb_true_intro. split; [|apply Nat.ltb_lt; exact H2].
    apply forallb_forall. intros d Hd'. apply Nat.ltb_lt. apply (proj1 (Forall_forall _ _) H1 d Hd'). }
  rewrite (Tb sx W), (Tb _ Wy). repeat (apply andb_true_intro; split); try reflexivity.
  - apply forallb_forall. intros d Hin. apply existsb_exists. exists d. split; [|apply Nat.eqb_refl].
    apply (Permutation_in _ (Permutation_sym Hp) Hin).
  - apply Nat.leb_le. exact Hd.
  - apply Nat.leb_le. apply permute_shape_depth.
  - apply forallb_forall. intros a Hin. apply in_seq in Hin. apply Nat.eqb_eq. apply permute_shape_dims. lia.
  - apply Nat.eqb_eq. reflexivity.
Qed.

Lemma guard_scalar sx sk B : twf sx -> twf sk -> tdims sk = [] ->
  (tbatch sx = 1 \/ tbatch sx = B) -> (tbatch sk = 1 \/ tbatch sk = B) -> scalar_ok sx sk = true.
Proof.
  intros Wx Wk Hd Ha Hb. pose proof (PBS.tvolume_pos sx Wx) as Hv. destruct Wx as [_ Wa]. destruct Wk as [_ Wb].
  unfold scalar_ok. rewrite Hd. btrue; try lia. apply orb_true_iff.
  destruct Ha as [Ha|Ha]; [left; apply orb_true_iff; right; apply Nat.eqb_eq; exact Ha|].
  destruct Hb as [Hb|Hb]; [right; apply Nat.eqb_eq; exact Hb|].
  left. apply orb_true_iff. left. apply Nat.eqb_eq. lia.
Qed.

Lemma guard_conv2d sx sw p0 p1 s0 s1 d0 d1 B : twf sx -> twf sw -> PBS.conv2d_ok sx sw p0 p1 s0 s1 d0 d1 ->
  (tbatch sx = 1 \/ tbatch sx = B) -> (tbatch sw = 1 \/ tbatch sw = B) ->
  GraphInst.conv2d_ok sx sw (conv2d_shape sx sw p0 p1 s0 s1 d0 d1) = true.
Proof.
  intros Wx Ww (Hvx & Hvw & Hc & _) Ha Hb. pose proof (PBS.tget_pos sw 0 Ww) as H0. pose proof (PBS.tget_pos sw 1 Ww) as H1.
  destruct Wx as [_ Wa]. destruct Ww as [_ Wb]. unfold GraphInst.conv2d_ok.
  rewrite (conv2d_shape_volume sx sw p0 p1 s0 s1 d0 d1). unfold conv2d_shape.
  cbn [tbatch tget tdims nth]. btrue; try lia.
  - apply or_eqb. lia.
  - apply or_eqb. lia.
Qed.

Lemma conv2d_dst_bound sx sw p0 p1 s0 s1 d0 d1 : twf sx -> twf sw -> PBS.conv2d_ok sx sw p0 p1 s0 s1 d0 d1 ->
  let sy := conv2d_shape sx sw p0 p1 s0 s1 d0 d1 in
  Forall (fun e : nat * (nat * nat) => fst e < tsize sy) (conv2d_triples sx sw sy p0 p1 s0 s1 d0 d1).
Proof.
  intros Hwx Hww Hok. cbv zeta. rewrite conv2d_blocks.
  destruct (conv2d_unb_body sx sw p0 p1 s0 s1 d0 d1 Hwx Hww Hok) as [_ IB]. apply Forall_forall. intros e He.
  apply In_flat_map2 in He. destruct He as [b' [Hb' He]]. apply in_map_iff in He. destruct He as [e1 [<- He1]].
  destruct (proj1 (Forall_forall _ _) IB _ He1) as [L _]. unfold shift3. cbn [fst].
  rewrite tsize_eq. pose proof (block_le b' _ (tvolume (conv2d_shape sx sw p0 p1 s0 s1 d0 d1)) Hb'). lia.
Qed.

Lemma sumn_pos_in l x : In x l -> 0 < x -> 0 < ProofsGather.sumn l.
Proof.
  induction l as [|a l IH]; intros Hin Hx; [destruct Hin|]. rewrite sumn_cons. destruct Hin as [->|Hin]; [lia|].
  specialize (IH Hin Hx). lia.
Qed.

Lemma guard_concat xs dim : Forall twf xs -> PBS.concat_ok xs dim ->
  GraphInst.concat_ok xs (concat_shape xs dim) dim = true.
Proof.
  intros W [Hne Hall]. set (s0 := hd PBS.dshape xs) in *.
  assert (Hin0 : In s0 xs) by (unfold s0; destruct xs; [congruence|left; reflexivity]).
  pose proof (proj1 (Forall_forall _ _) W s0 Hin0) as W0.
  set (ny := ProofsGather.sumn (map (adim dim) xs)).
  assert (Hny : 0 < ny).
  { apply (sumn_pos_in _ (adim dim s0)); [apply in_map; exact Hin0|apply (PBS.tget_pos s0 dim W0)]. }
  assert (Eg : tget (concat_shape xs dim) dim = ny) by (unfold concat_shape; apply tget_set_dim).
  assert (El : tlower (concat_shape xs dim) dim = tlower s0 dim) by (unfold concat_shape; apply tlower_set_dim).
  assert (Ev : tvolume (concat_shape xs dim) = tlower s0 dim * ny * tupper s0 dim).
  { unfold concat_shape. change (tvolume (with_batch ?s ?b)) with (tvolume s). rewrite tvolume_set_dim. fold s0 ny. ring. }
  pose proof (tlower_pos s0 dim W0) as Hlo. pose proof (PBS.tupper_pos s0 dim W0) as Hup.
  unfold GraphInst.concat_ok. rewrite Eg. apply andb_true_intro. split; [apply andb_true_intro; split|].
  - apply Nat.eqb_eq. reflexivity.
  - apply Nat.ltb_lt. exact Hny.
  - apply forallb_forall. intros k Hk. apply in_seq in Hk.
    assert (Hk' : k < length xs) by lia.
    set (sk := nth k xs GraphInst.dshape).
    assert (Hnth : nth_error xs k = Some sk) by (unfold sk; apply nth_error_nth'; exact Hk').
    assert (Hink : In sk xs) by (apply (nth_error_In _ _ Hnth)).
    pose proof (proj1 (Forall_forall _ _) W sk Hink) as Wk.
    destruct (proj1 (Forall_forall _ _) Hall sk Hink) as (Hl & Hu & Hb). fold s0 in Hl, Hu.
    unfold paste_ok. rewrite El, Eg, Ev.
    assert (ER : tlower s0 dim * ny * tupper s0 dim / (tlower s0 dim * ny) = tupper s0 dim) by (apply div_exact; nia).
    rewrite ER. change (tbatch (concat_shape xs dim)) with (maxb xs).
    pose proof (maxb_ge xs). pose proof (PBS.tget_pos sk dim Wk).
    pose proof (sumn_firstn_le (adim dim) xs k sk Hnth) as Hoff. fold ny in Hoff. unfold adim at 2 in Hoff.
    btrue; try lia.
    + rewrite (vol_split sk dim), Hl, Hu. ring.
    + apply or_eqb. exact Hb.
    + unfold concat_off. exact Hoff.
Qed.

Lemma scalar_fw_length sx sk sy : length (scalar_fw sx sk sy) = tsize sy.
Proof. rewrite (scalar_fw_bprog _ _ _ _ _ eq_refl eq_refl), bprog_length. reflexivity. Qed.
Lemma tvolume_nil s : tdims s = [] -> tvolume s = 1.
Proof. intro H. unfold tvolume. rewrite H. reflexivity. Qed.

Section BatchGrad.
  Context {R : Type} (rO rI : R) (radd rmul rsub : R -> R -> R) (ropp : R -> R).
  Hypothesis Rth : ring_theory rO rI radd rmul rsub ropp eq.
  Add Ring RringBG : Rth.
  Notation dot := (OpFamily.dot rO radd rmul).
  Notation dots := (OpFamily.dots rO radd rmul).
  Notation vplus := (OpFamily.vplus radd).
  Notation zeros := (repeat rO).
  Notation scatterR := (scatter R rO radd).
  Notation gatherR := (gather R rO).
  Notation sumR := (sum_list R rO radd).
  Notation xe := (xeval R rO radd rmul).
  Notation xw := (xwf R rO radd rmul).
  Notation desc := (describe rO radd rmul rsub ropp).
  Notation spair := (sample_pair R).
  Notation xexpr := (xexpr R).

  Lemma radd_0_r a : radd a rO = a.  Proof. ring. Qed.

  (* the per-slice fold of sum_fw: the additions in scan order *)
  Definition sumf (l : list R) : R := fold_left radd l rO.

  (* ---------------------------------------------------------------- values: d_jvp of the descriptors = the tangent programs *)
  Lemma nth_zeros n j : nth j (zeros n) rO = rO.
  Proof. revert j. induction n as [|n IH]; intros [|j]; cbn [repeat nth]; auto. Qed.

  Lemma scatter_red_acc (p : red) n (u : list R) (e : nat * list nat) : sequential p n -> In e p ->
    nth (fst e) (scatterR (red_acc p) u (zeros n)) rO = fold_left radd (map (fun s => nth s u rO) (snd e)) rO.
  Proof.
    intros Hseq Hin. rewrite scatter_incr.
    assert (Hb : Forall (fun x : nat * R => fst x < length (zeros n)) (map (fun x : nat * nat => (fst x, nth (snd x) u rO)) (red_acc p))).
    { rewrite Forall_map, repeat_length. cbn [fst]. apply Forall_forall. intros [d s] Hx. unfold red_acc in Hx.
      apply in_flat_map in Hx. destruct Hx as (e' & He' & Hx). apply in_map_iff in Hx. destruct Hx as (s' & E & _). injection E as <- <-.
      cbn [fst]. apply (sequential_lt _ _ _ Hseq He'). }
    rewrite (nth_incr_run R rO radd _ _ (fst e) Hb). unfold cell. rewrite nth_zeros. f_equal.
    unfold red_acc. rewrite ProofsBilinear.map_flat_map.
    rewrite (filter_block (fun e' : nat * list nat => map (fun x : nat * nat => (fst x, nth (snd x) u rO)) (map (fun s => (fst e', s)) (snd e'))) fst p e).
    - rewrite !map_map. reflexivity.
    - unfold sequential in Hseq. rewrite Hseq. apply seq_NoDup.
    - exact Hin.
    - intros e' x Hx. rewrite map_map in Hx. apply in_map_iff in Hx. destruct Hx as (s & <- & _). reflexivity.
  Qed.

  Lemma red_scatter (p : red) n (x : list R) : sequential p n ->
    scatterR (red_acc p) x (zeros n) = red_vals R rO sumf p x.
  Proof.
    intro Hseq. pose proof (sequential_length p n Hseq) as Hlen.
    assert (Hl : length (scatterR (red_acc p) x (zeros n)) = n).
    { rewrite scatter_incr, incr_run_length; [apply repeat_length|].
      rewrite Forall_map, repeat_length. cbn [fst]. apply Forall_forall. intros [d s] Hx. unfold red_acc in Hx.
      apply in_flat_map in Hx. destruct Hx as (e' & He' & Hx). apply in_map_iff in Hx. destruct Hx as (s' & E & _). injection E as <- <-.
      cbn [fst]. apply (sequential_lt _ _ _ Hseq He'). }
    apply (nth_ext _ _ rO rO); [rewrite Hl; unfold red_vals; rewrite map_length; auto|].
    intros j Hj. rewrite Hl in Hj.
    set (e := nth j p (0, [])).
    assert (Hin : In e p) by (apply nth_In; lia).
    assert (Hf : fst e = j).
    { unfold e. rewrite <- (map_nth fst p (0, []) j). cbn [fst]. unfold sequential in Hseq. rewrite Hseq. apply seq_nth. exact Hj. }
    rewrite <- Hf at 1. rewrite (scatter_red_acc p n x e Hseq Hin).
    unfold red_vals. rewrite (nth_indep _ rO (sumf (gather_vals R rO x (snd (0, []))))) by (rewrite map_length; lia).
    rewrite (map_nth (fun e0 : nat * list nat => sumf (gather_vals R rO x (snd e0)))). reflexivity.
  Qed.

  Lemma ab_same_eval s (U W : list R) :
    ab_eval R rO radd (ab_fw s s s) U W = map (fun d => radd (nth d U rO) (nth d W rO)) (seq 0 (tsize s)).
  Proof.
    pose proof (ab_fw_sequential s s s (tvolume s) (tbatch s) eq_refl eq_refl) as Hs. unfold sequential in Hs.
    change (tbatch s * tvolume s) with (tsize s) in Hs. rewrite <- Hs, map_map. unfold ab_eval.
    apply map_ext_in. intros e He. destruct (ab_same s e He) as [-> ->]. reflexivity.
  Qed.

  Lemma map_as_seq {A} (F : A -> R) (p : list A) (dflt : A) :
    map F p = map (fun d => F (nth d p dflt)) (seq 0 (length p)).
  Proof. rewrite (map_nth_seq' p dflt) at 1. rewrite map_map. reflexivity. Qed.

  Lemma nth_map_in {A} (F : A -> R) (p : list A) dflt d : d < length p -> nth d (map F p) rO = F (nth d p dflt).
  Proof. intro H. rewrite (nth_indep _ rO (F dflt)) by (rewrite map_length; exact H). apply map_nth. Qed.

  (* multiply: da*b + a*db, evaluated as the program add(mul(da, b), mul(a, db)) *)
  Lemma ew_tangent (p : list (nat * (nat * nat))) sy (a b da db : list R) : length p = tsize sy ->
    map (fun e : nat * (nat * nat) => radd (rmul (nth (fst (snd e)) da rO) (nth (snd (snd e)) b rO))
                                           (rmul (nth (fst (snd e)) a rO) (nth (snd (snd e)) db rO))) p
    = ab_eval R rO radd (ab_fw sy sy sy) (ab_eval R rO rmul p da b) (ab_eval R rO rmul p a db).
  Proof.
    intro Hn. rewrite ab_same_eval, <- Hn. rewrite (map_as_seq _ p (0, (0, 0))). apply map_ext_in. intros d Hd. apply in_seq in Hd.
    unfold ab_eval. rewrite !(nth_map_in _ p (0, (0, 0))) by lia. reflexivity.
  Qed.
  Lemma ab_fw_length sa sb sy : length (ab_fw sa sb sy) = tsize sy.
  Proof. apply (sequential_length (ab_fw sa sb sy)). apply (ab_fw_sequential sa sb sy (tvolume sy) (tbatch sy) eq_refl eq_refl). Qed.

  Lemma fold_left_radd_split {A} (u w : A -> R) (l : list A) : forall a c,
    fold_left radd (map (fun e => radd (u e) (w e)) l) (radd a c)
    = radd (fold_left radd (map u l) a) (fold_left radd (map w l) c).
  Proof.
    induction l as [|e l IH]; intros a c; cbn [map fold_left]; [reflexivity|].
    replace (radd (radd a c) (radd (u e) (w e))) with (radd (radd a (u e)) (radd c (w e))) by ring. apply IH.
  Qed.

  (* matmul: the differential of the blocked kernel = matmul(da, b) + matmul(a, db) *)
  Lemma matmul_tangent (p : list (nat * (nat * nat))) sy (a b da db : list R) :
    Forall (fun e => fst e < tsize sy) p ->
    incr_run R rO radd (trip_dfw R rO radd rmul p a b da db) (zeros (tsize sy))
    = ab_eval R rO radd (ab_fw sy sy sy) (bil_val R rO radd rmul p (tsize sy) da b) (bil_val R rO radd rmul p (tsize sy) a db).
  Proof.
    intro Hb. rewrite ab_same_eval.
    assert (HbD : Forall (fun e : nat * R => fst e < length (zeros (tsize sy))) (trip_dfw R rO radd rmul p a b da db))
      by (unfold trip_dfw; rewrite Forall_map, repeat_length; exact Hb).
    assert (Hb1 : forall x y, Forall (fun e : nat * R => fst e < length (repeat rO (tsize sy))) (bil_incr R rO rmul p x y))
      by (intros; unfold bil_incr; rewrite Forall_map, repeat_length; exact Hb).
    apply (nth_ext _ _ rO rO).
    - rewrite incr_run_length by exact HbD. rewrite map_length, seq_length. apply repeat_length.
    - intros j Hj. rewrite incr_run_length in Hj by exact HbD. rewrite repeat_length in Hj.
      rewrite (nth_map_in (fun d => radd (nth d (bil_val R rO radd rmul p (tsize sy) da b) rO) (nth d (bil_val R rO radd rmul p (tsize sy) a db) rO))
                 (seq 0 (tsize sy)) 0 j) by (rewrite seq_length; exact Hj).
      rewrite seq_nth by exact Hj. cbn [Nat.add]. unfold bil_val.
      rewrite !nth_incr_run by auto. rewrite !nth_zeros.
      unfold cell, trip_dfw, bil_incr.
      assert (Ef : forall (h : nat * (nat * nat) -> R),
                 map snd (filter (fun e : nat * R => fst e =? j) (map (fun e => (fst e, h e)) p))
                 = map h (filter (fun e : nat * (nat * nat) => fst e =? j) p)).
      { intro h. clear Hb HbD Hb1 Hj. induction p as [|e q IH]; [reflexivity|]. cbn [map filter fst].
        destruct (fst e =? j); cbn [map snd]; rewrite IH; reflexivity. }
      rewrite !Ef. replace rO with (radd rO rO) at 1 by ring.
      apply (fold_left_radd_split
               (fun e : nat * (nat * nat) => rmul (nth (fst (snd e)) da rO) (nth (snd (snd e)) b rO))
               (fun e : nat * (nat * nat) => rmul (nth (fst (snd e)) a rO) (nth (snd (snd e)) db rO))).
  Qed.

  (* ---------------------------------------------------------------- the operators *)
  Inductive unop :=
  | UNeg | UAddC (k : R) | USubCR (k : R) | USubCL (k : R) | UMulC (k : R)
  | USlice (dim off n : nat) | UPick (ids : list nat) (dim : nat) | UBroadcast (dim size : nat)
  | UFlip (dim : nat) | UTranspose | UPermute (perm : list nat) | USum (dim : nat) | UReshape (dims : list nat).
  Inductive binop :=
  | BAdd | BSub | BMul | BMatmul
  | BAddS | BSubSR | BSubSL | BMulS                      (* second operand a scalar: x+k, x-k, k-x, x*k *)
  | BConv2d (p0 p1 s0 s1 d0 d1 : nat).

  (* the node of the expression language *)
  Definition un_x (u : unop) (e : xexpr) : xexpr :=
    match u with
    | UNeg => XUn R ropp e
    | UAddC k => XUn R (fun x => radd x k) e
    | USubCR k => XUn R (fun x => rsub x k) e
    | USubCL k => XUn R (fun x => rsub k x) e
    | UMulC k => XUn R (fun x => rmul x k) e
    | USlice dim off n => XSlice R dim off n e
    | UPick ids dim => XPick R ids dim e
    | UBroadcast dim size => XBroadcast R dim size e
    | UFlip dim => XFlip R dim e
    | UTranspose => XTranspose R e
    | UPermute perm => XPermute R perm e
    | USum dim => XReduce R sumf dim e
    | UReshape dims => XReshape R dims e
    end.
  (* its tangent as a node applied to the operand's tangent *)
  Definition un_t (u : unop) (t : xexpr) : xexpr :=
    match u with
    | UAddC _ | USubCR _ => XUn R (fun d => d) t
    | USubCL _ => XUn R (fun d => ropp d) t
    | UMulC k => XUn R (fun d => rmul d k) t
    | _ => un_x u t
    end.
  Definition un_shape (u : unop) (sx : tshape) : tshape :=
    match u with
    | USlice dim off n => set_dim sx dim n
    | UPick ids dim => pick_shape sx ids dim
    | UBroadcast dim size => set_dim sx dim size
    | UTranspose => transpose_shape sx
    | UPermute perm => permute_shape sx perm
    | USum dim => set_dim sx dim 1
    | UReshape dims => reshape_shape sx dims
    | _ => sx
    end.
  (* the shape rule of the node (core/shape_ops.cc), as in xwf *)
  Definition un_cond (u : unop) (B : nat) (sx : tshape) : Prop :=
    match u with
    | USlice dim off n => PBS.slice_ok sx dim off n
    | UPick ids dim => PBS.pick_ok sx ids dim /\ (length ids = 1 \/ length ids = B)
    | UBroadcast dim size => PBS.broadcast_ok sx dim size
    | UTranspose => PBS.transpose_ok sx
    | UPermute perm => PBS.permute_ok sx perm
    | UReshape dims => PBS.reshape_ok sx dims
    | _ => True
    end.
  (* the operator of core_family (Tensor/GraphInst.v) at the shapes the rule computes *)
  Definition un_cop (u : unop) (sx : tshape) : @cop R :=
    match u with
    | UNeg => ONeg sx
    | UAddC k => OAddConst sx k
    | USubCR k => OSubConstR sx k
    | USubCL k => OSubConstL sx k
    | UMulC k => OMulConst sx k
    | USlice dim off n => OSlice sx (set_dim sx dim n) dim off
    | UPick ids dim => OPick sx (pick_shape sx ids dim) ids dim
    | UBroadcast dim size => OBroadcast sx (set_dim sx dim size) dim size
    | UFlip dim => OFlip sx dim
    | UTranspose => OTranspose sx (transpose_shape sx)
    | UPermute perm => OPermute sx (permute_shape sx perm) perm
    | USum dim => OSum sx (set_dim sx dim 1) dim
    | UReshape dims => OReshape sx (reshape_shape sx dims)
    end.

  Definition bin_x (o : binop) (e1 e2 : xexpr) : xexpr :=
    match o with
    | BAdd => XBin R radd e1 e2 | BSub => XBin R rsub e1 e2 | BMul => XBin R rmul e1 e2 | BMatmul => XMatmul R e1 e2
    | BAddS => XScal R radd e1 e2 | BSubSR => XScal R rsub e1 e2 | BSubSL => XScal R (fun x k => rsub k x) e1 e2
    | BMulS => XScal R rmul e1 e2
    | BConv2d p0 p1 s0 s1 d0 d1 => XConv2d R p0 p1 s0 s1 d0 d1 e1 e2
    end.
  Definition bin_t (o : binop) (e1 e2 t1 t2 : xexpr) : xexpr :=
    match o with
    | BAdd => XBin R radd t1 t2
    | BSub => XBin R rsub t1 t2
    | BMul => XBin R radd (XBin R rmul t1 e2) (XBin R rmul e1 t2)
    | BMatmul => XBin R radd (XMatmul R t1 e2) (XMatmul R e1 t2)
    | BAddS => XScal R radd t1 t2
    | BSubSR => XScal R rsub t1 t2
    | BSubSL => XScal R (fun x k => rsub k x) t1 t2
    | BMulS => XBin R radd (XScal R rmul t1 e2) (XScal R rmul e1 t2)
    | BConv2d p0 p1 s0 s1 d0 d1 => XBin R radd (XConv2d R p0 p1 s0 s1 d0 d1 t1 e2) (XConv2d R p0 p1 s0 s1 d0 d1 e1 t2)
    end.
  Definition bin_shape (o : binop) (s1 s2 : tshape) : tshape :=
    match o with
    | BMatmul => matmul_shape s1 s2
    | BConv2d p0 p1 s0 s1' d0 d1 => conv2d_shape s1 s2 p0 p1 s0 s1' d0 d1
    | _ => rshape s1 s2
    end.
  (* elementwise: Shape::has_same_dims (the model does not normalise trailing 1s, so equal dims) *)
  Definition bin_cond (o : binop) (s1 s2 : tshape) : Prop :=
    match o with
    | BMatmul => PBS.matmul_ok s1 s2
    | BConv2d p0 p1 s0 s1' d0 d1 => PBS.conv2d_ok s1 s2 p0 p1 s0 s1' d0 d1
    | BAddS | BSubSR | BSubSL | BMulS => tdims s2 = []          (* Shape::is_scalar *)
    | _ => tdims s1 = tdims s2
    end.
  Definition bin_cop (o : binop) (s1 s2 : tshape) : @cop R :=
    match o with
    | BAdd => OAdd s1 s2 | BSub => OSub s1 s2 | BMul => OMul s1 s2 | BMatmul => OMatmul s1 s2 (matmul_shape s1 s2)
    | BAddS => OAddScalar s1 s2 | BSubSR => OSubScalarR s1 s2 | BSubSL => OSubScalarL s1 s2 | BMulS => OMulScalar s1 s2
    | BConv2d p0 p1 s0 s1' d0 d1 => OConv2d s1 s2 (conv2d_shape s1 s2 p0 p1 s0 s1' d0 d1) p0 p1 s0 s1' d0 d1
    end.

  (* a node's evaluation only depends on the evaluation of its operands *)
  Lemma xe_un_x u e : xe (un_x u e) = xe (un_x u (XLeaf R (fst (xe e)) (snd (xe e)))).
  Proof. destruct u; reflexivity. Qed.
  Lemma xe_un_t u e : xe (un_t u e) = xe (un_t u (XLeaf R (fst (xe e)) (snd (xe e)))).
  Proof. destruct u; reflexivity. Qed.
  Lemma fst_un_x u e : fst (xe (un_x u e)) = un_shape u (fst (xe e)).
  Proof. destruct u; reflexivity. Qed.
  Lemma fst_un_t u e : fst (xe (un_t u e)) = un_shape u (fst (xe e)).
  Proof. destruct u; reflexivity. Qed.
  Lemma xw_un_x u B e : xw B (un_x u e) <-> xw B e /\ un_cond u B (fst (xe e)).
  Proof. destruct u; cbn [un_x xwf un_cond]; tauto. Qed.
  Lemma xw_un_t u B e : xw B (un_t u e) <-> xw B e /\ un_cond u B (fst (xe e)).
  Proof. destruct u; cbn [un_t un_x xwf un_cond]; tauto. Qed.

  Lemma xe_bin_x o e1 e2 :
    xe (bin_x o e1 e2) = xe (bin_x o (XLeaf R (fst (xe e1)) (snd (xe e1))) (XLeaf R (fst (xe e2)) (snd (xe e2)))).
  Proof. destruct o; reflexivity. Qed.
  Lemma xe_bin_t o e1 e2 t1 t2 :
    xe (bin_t o e1 e2 t1 t2)
    = xe (bin_t o (XLeaf R (fst (xe e1)) (snd (xe e1))) (XLeaf R (fst (xe e2)) (snd (xe e2)))
                  (XLeaf R (fst (xe t1)) (snd (xe t1))) (XLeaf R (fst (xe t2)) (snd (xe t2)))).
  Proof. destruct o; reflexivity. Qed.
  Lemma fst_bin_x o e1 e2 : fst (xe (bin_x o e1 e2)) = bin_shape o (fst (xe e1)) (fst (xe e2)).
  Proof. destruct o; reflexivity. Qed.
  Lemma fst_bin_t o e1 e2 t1 t2 : fst (xe t1) = fst (xe e1) -> fst (xe t2) = fst (xe e2) ->
    fst (xe (bin_t o e1 e2 t1 t2)) = bin_shape o (fst (xe e1)) (fst (xe e2)).
  Proof.
    intros H1 H2. destruct o; cbn [bin_t xeval fst bin_shape]; rewrite ?H1, ?H2; try reflexivity; apply rshape_self.
  Qed.
  Lemma bin_cond_same o s1 s2 : bin_cond o s1 s2 ->
    match o with
    | BMatmul => PBS.matmul_ok s1 s2
    | BConv2d p0 p1 s0 s1' d0 d1 => PBS.conv2d_ok s1 s2 p0 p1 s0 s1' d0 d1
    | BAddS | BSubSR | BSubSL | BMulS => tvolume s2 = 1
    | _ => same_dims s1 s2
    end.
  Proof. destruct o; cbn [bin_cond]; try apply tdims_same_dims; try apply tvolume_nil; auto. Qed.
  Lemma xw_bin_x o B e1 e2 : xw B e1 -> xw B e2 -> bin_cond o (fst (xe e1)) (fst (xe e2)) -> xw B (bin_x o e1 e2).
  Proof. intros H1 H2 Hc. apply bin_cond_same in Hc. destruct o; cbn [bin_x xwf]; auto. Qed.
  Lemma xw_bin_x_inv o B e1 e2 : xw B (bin_x o e1 e2) -> xw B e1 /\ xw B e2.
  Proof. destruct o; cbn [bin_x xwf]; tauto. Qed.
  Lemma xw_bin_t o B e1 e2 t1 t2 : xw B e1 -> xw B e2 -> xw B t1 -> xw B t2 ->
    fst (xe t1) = fst (xe e1) -> fst (xe t2) = fst (xe e2) ->
    bin_cond o (fst (xe e1)) (fst (xe e2)) -> xw B (bin_t o e1 e2 t1 t2).
  Proof.
    intros H1 H2 H3 H4 E1 E2 Hc. apply bin_cond_same in Hc.
    destruct o; cbn [bin_t xwf xeval fst]; rewrite ?E1, ?E2; repeat split; auto; try (intro i; reflexivity); apply Hc.
  Qed.

  (* ---------------------------------------------------------------- descriptors at the computed shapes *)
  Lemma un_args u sx : d_args (desc (un_cop u sx)) = [sx] /\ d_rets (desc (un_cop u sx)) = [un_shape u sx] /\
    d_nop (desc (un_cop u sx)) = false.
  Proof. destruct u; repeat split; reflexivity. Qed.
  Lemma bin_args o s1 s2 : d_args (desc (bin_cop o s1 s2)) = [s1; s2] /\ d_rets (desc (bin_cop o s1 s2)) = [bin_shape o s1 s2] /\
    d_nop (desc (bin_cop o s1 s2)) = false.
  Proof. destruct o; repeat split; reflexivity. Qed.

  Lemma un_guard u B sx : twf sx -> un_cond u B sx -> d_ok (desc (un_cop u sx)) = true.
  Proof.
    intros W Hc. destruct u; cbn [un_cop describe un_cond d_ok unary_lin un_desc] in *; try reflexivity.
    - apply Nat.ltb_lt. apply W.
    - apply guard_slice; assumption.
    - apply guard_pick; [exact W|apply Hc].
    - apply guard_broadcast; assumption.
    - apply guard_flip; assumption.
    - apply guard_transpose; assumption.
    - apply guard_permute; assumption.
    - apply guard_sum; assumption.
    - apply guard_reshape; assumption.
  Qed.
  Lemma bin_guard o B s1 s2 : twf s1 -> twf s2 -> (tbatch s1 = 1 \/ tbatch s1 = B) -> (tbatch s2 = 1 \/ tbatch s2 = B) ->
    bin_cond o s1 s2 -> d_ok (desc (bin_cop o s1 s2)) = true.
  Proof.
    intros W1 W2 B1 B2 Hc.
    destruct o; cbn [bin_cop describe bin_cond d_ok ew_desc matmul_desc bil_desc addsc_desc subscr_desc subscl_desc mulsc_desc sclin_desc] in *;
      try (apply (guard_ew s1 s2 B); assumption); try (apply (guard_scalar s1 s2 B); assumption).
    - apply (guard_matmul s1 s2 B); assumption.
    - apply (guard_conv2d s1 s2 p0 p1 s0 s3 d0 d1 B); assumption.
  Qed.

  Lemma un_jvp u B sx (xv dxv : list R) : twf sx -> un_cond u B sx ->
    d_jvp (desc (un_cop u sx)) [xv] [dxv] = [snd (xe (un_t u (XLeaf R sx dxv)))].
  Proof.
    intros W Hc. destruct u; cbn [un_cop describe un_cond d_jvp unary_lin un_desc hd un_t un_x xeval fst snd] in *;
      try reflexivity; f_equal.
    - symmetry. apply mov_eval_gather, single_slice_fw.
    - symmetry. apply mov_eval_gather, single_pick_fw.
    - symmetry. apply mov_eval_gather, single_broadcast_fw.
    - symmetry. apply mov_eval_gather, single_acc_as_mov.
    - symmetry. apply mov_eval_gather, single_transpose_fw.
    - symmetry. apply mov_eval_gather, single_permute_fw.
    - apply red_scatter, axis_red_sequential.
    - assert (E : tsize (reshape_shape sx dims) = tsize sx).
      { destruct Hc as [_ Hv]. unfold tsize, reshape_shape. cbn [tbatch]. f_equal. unfold tvolume at 1. cbn [tdims]. exact Hv. }
      rewrite E. symmetry. apply mov_eval_gather, identity_single.
  Qed.

  Lemma bin_jvp o s1 s2 (a b da db : list R) : twf s1 -> twf s2 -> bin_cond o s1 s2 ->
    d_jvp (desc (bin_cop o s1 s2)) [a; b] [da; db]
    = [snd (xe (bin_t o (XLeaf R s1 a) (XLeaf R s2 b) (XLeaf R s1 da) (XLeaf R s2 db)))].
  Proof.
    intros W1 W2 Hc.
    destruct o; cbn [bin_cop describe bin_cond d_jvp ew_desc matmul_desc bil_desc addsc_desc subscr_desc subscl_desc mulsc_desc sclin_desc
                     nth bin_t xeval fst snd] in *;
      try reflexivity; f_equal.
    - rewrite rshape_self. apply ew_tangent, ab_fw_length.
    - rewrite rshape_self. apply matmul_tangent. apply matmul_dst_bound. exact Hc.
    - rewrite rshape_self. apply ew_tangent, scalar_fw_length.
    - rewrite rshape_self. apply matmul_tangent. apply (conv2d_dst_bound s1 s2 p0 p1 s0 s3 d0 d1 W1 W2 Hc).
  Qed.

  (* ---------------------------------------------------------------- one node: backward kernel vs tangent program *)
  Lemma un_node u B sx (xv dxv gy : list R) : twf sx -> un_cond u B sx ->
    length xv = tsize sx -> length dxv = tsize sx -> length gy = tsize (un_shape u sx) ->
    let d := desc (un_cop u sx) in
    exists inc, d_bw d [xv] (d_fw d [xv]) [gy] = [inc] /\ length inc = tsize sx /\
      dot inc dxv = dot gy (snd (xe (un_t u (XLeaf R sx dxv)))).
  Proof.
    intros W Hc Hx Hdx Hgy d. destruct (un_args u sx) as (Ea & Er & En). fold d in Ea, Er, En.
    pose proof (describe_LA rO rI radd rmul rsub ropp Rth (un_cop u sx) (un_guard u B sx W Hc) [xv] [dxv] [gy]) as H.
    fold d in H. rewrite Ea, Er, En in H.
    destruct H as (E & Hs & _); try (constructor; [assumption|constructor]).
    specialize (Hs eq_refl). apply F2_one in Hs. destruct Hs as (inc & Ei & Hl).
    exists inc. split; [exact Ei|]. split; [exact Hl|].
    rewrite Ei in E. unfold d in E. rewrite (un_jvp u B sx xv dxv W Hc) in E. cbn [OpFamily.dots] in E.
    rewrite !radd_0_r in E. exact E.
  Qed.

  Lemma bin_node o B s1 s2 (a b da db gy : list R) : twf s1 -> twf s2 ->
    (tbatch s1 = 1 \/ tbatch s1 = B) -> (tbatch s2 = 1 \/ tbatch s2 = B) -> bin_cond o s1 s2 ->
    length a = tsize s1 -> length b = tsize s2 -> length da = tsize s1 -> length db = tsize s2 ->
    length gy = tsize (bin_shape o s1 s2) ->
    let d := desc (bin_cop o s1 s2) in
    exists i1 i2, d_bw d [a; b] (d_fw d [a; b]) [gy] = [i1; i2] /\ length i1 = tsize s1 /\ length i2 = tsize s2 /\
      radd (dot i1 da) (dot i2 db)
      = dot gy (snd (xe (bin_t o (XLeaf R s1 a) (XLeaf R s2 b) (XLeaf R s1 da) (XLeaf R s2 db)))).
  Proof.
    intros W1 W2 B1 B2 Hc Ha Hb Hda Hdb Hgy d. destruct (bin_args o s1 s2) as (Ea & Er & En). fold d in Ea, Er, En.
    pose proof (describe_LA rO rI radd rmul rsub ropp Rth (bin_cop o s1 s2) (bin_guard o B s1 s2 W1 W2 B1 B2 Hc) [a; b] [da; db] [gy]) as H.
    fold d in H. rewrite Ea, Er, En in H.
    destruct H as (E & Hs & _); try (constructor; [assumption|constructor; [assumption|constructor]]); try (constructor; [assumption|constructor]).
    specialize (Hs eq_refl). apply F2_two in Hs. destruct Hs as (i1 & i2 & Ei & L1 & L2).
    exists i1, i2. split; [exact Ei|]. split; [exact L1|]. split; [exact L2|].
    rewrite Ei in E. unfold d in E. rewrite (bin_jvp o s1 s2 a b da db W1 W2 Hc) in E. cbn [OpFamily.dots] in E.
    rewrite !radd_0_r in E. exact E.
  Qed.
  (* concat of any number of operands: rs = the operands' (shape, value), rs' = their tangents *)
  Lemma cat_node B dim (rs rs' : list (tshape * list R)) (gy : list R) :
    Forall (good R B) rs -> Forall (good R B) rs' -> map fst rs' = map fst rs ->
    PBS.concat_ok (map fst rs) dim -> length gy = tsize (concat_shape (map fst rs) dim) ->
    let xs := map fst rs in let d := desc (OConcat xs (concat_shape xs dim) dim) in
    let incs := d_bw d (map snd rs) (d_fw d (map snd rs)) [gy] in
    Forall2 (fun (inc : list R) r => length inc = tsize (fst r)) incs rs /\
    dots incs (map snd rs') = dot gy (concat_val R rO rs' dim).
  Proof.
    intros Hg Hg' Es Hok Hgy xs d incs.
    assert (W : Forall twf xs) by (unfold xs; rewrite Forall_map; eapply Forall_impl; [|exact Hg]; intros r Hr; apply Hr).
    assert (Hguard : d_ok d = true) by (apply (guard_concat xs dim W Hok)).
    assert (Sz : forall l : list (tshape * list R), Forall (good R B) l -> Forall2 AdjCore.sized (map snd l) (map fst l)).
    { induction 1 as [|r l Hr _ IH]; cbn [map]; constructor; [apply Hr|exact IH]. }
    pose proof (describe_LA rO rI radd rmul rsub ropp Rth (OConcat xs (concat_shape xs dim) dim) Hguard (map snd rs) (map snd rs') [gy]) as H.
    change (d_args (desc (OConcat xs (concat_shape xs dim) dim))) with xs in H.
    change (d_rets (desc (OConcat xs (concat_shape xs dim) dim))) with [concat_shape xs dim] in H.
    change (d_nop (desc (OConcat xs (concat_shape xs dim) dim))) with false in H.
    destruct H as (E & Hs & _); [apply Sz; exact Hg|unfold xs; rewrite <- Es; apply Sz; exact Hg'|constructor; [exact Hgy|constructor]|].
    specialize (Hs eq_refl). fold d incs in E, Hs. split.
    - unfold xs in Hs. clear - Hs. revert Hs. generalize incs. induction rs as [|r rs IH]; intros l Hs; inversion Hs; subst; constructor; auto.
    - rewrite E. unfold d. cbn [describe nary_desc d_jvp OpFamily.dots]. rewrite radd_0_r. f_equal.
      unfold concat_val. rewrite Es. reflexivity.
  Qed.

  (* ---------------------------------------------------------------- linear algebra over lists *)
  Definition unit (n i : nat) : list R := repeat rO i ++ rI :: repeat rO (n - i - 1).
  Lemma unit_length n i : i < n -> length (unit n i) = n.
  Proof. intro H. unfold unit. rewrite app_length, repeat_length. cbn [length]. rewrite repeat_length. lia. Qed.
  Lemma dot_unit : forall (g : list R) n i, length g = n -> i < n -> dot g (unit n i) = nth i g rO.
  Proof.
    induction g as [|x g IH]; intros n i Hl Hi; cbn [length] in Hl; [lia|].
    destruct n as [|n]; [lia|]. destruct i as [|i].
    - unfold unit. cbn [repeat app OpFamily.dot nth]. rewrite (dot_zeros_r rO rI radd rmul rsub ropp Rth). ring.
    - unfold unit. cbn [repeat app OpFamily.dot nth]. replace (S n - S i - 1) with (n - i - 1) by lia.
      fold (unit n i). rewrite (IH n i) by lia. ring.
  Qed.
  Lemma dot_ext (a b : list R) n : length a = n -> length b = n ->
    (forall dx, length dx = n -> dot a dx = dot b dx) -> a = b.
  Proof.
    intros Ha Hb H. apply (nth_ext _ _ rO rO); [congruence|]. intros i Hi. rewrite Ha in Hi.
    rewrite <- (dot_unit a n i Ha Hi), <- (dot_unit b n i Hb Hi). apply H. apply unit_length. exact Hi.
  Qed.
  Lemma dot_app : forall a1 a2 b1 b2 : list R, length a1 = length b1 ->
    dot (a1 ++ a2) (b1 ++ b2) = radd (dot a1 b1) (dot a2 b2).
  Proof.
    induction a1 as [|x a1 IH]; intros a2 [|y b1] b2 H; cbn [length] in H; try lia; cbn [app OpFamily.dot].
    - ring.
    - rewrite IH by lia. ring.
  Qed.
  Lemma skipn_plus {A} : forall a b (l : list A), skipn (a + b) l = skipn b (skipn a l).
  Proof.
    induction a as [|a IH]; intros b l; [reflexivity|]. destruct l as [|x l]; [destruct b; reflexivity|]. cbn [Nat.add skipn]. apply IH.
  Qed.
  Lemma block_S {A} k V (l : list A) : block (S k) V l = block k V (skipn V l).
  Proof. unfold block. change (S k * V) with (V + k * V). rewrite skipn_plus. reflexivity. Qed.
  Lemma dot_blocks V : forall B (a b : list R), length a = B * V -> length b = B * V ->
    dot a b = sumR (map (fun k => dot (block k V a) (block k V b)) (range B)).
  Proof.
    unfold range. induction B as [|B IH]; intros a b Ha Hb.
    - destruct a; [reflexivity|discriminate].
    - cbn [seq map sum_list fold_right]. rewrite <- seq_shift, map_map.
      rewrite <- (firstn_skipn V a) at 1. rewrite <- (firstn_skipn V b) at 1.
      rewrite dot_app by (rewrite !firstn_length; lia). f_equal.
      rewrite (IH (skipn V a) (skipn V b)) by (rewrite skipn_length; lia).
      unfold sum_list. f_equal. apply map_ext. intro k. rewrite !block_S. reflexivity.
  Qed.
  Lemma block_repeat k V n : (k + 1) * V <= n -> block k V (zeros n) = zeros V.
  Proof.
    intro H. apply (nth_ext _ _ rO rO); [rewrite block_length, repeat_length by (rewrite repeat_length; exact H); reflexivity|].
    intros i Hi. rewrite block_length in Hi by (rewrite repeat_length; exact H). rewrite nth_block by exact Hi.
    rewrite !nth_zeros. reflexivity.
  Qed.
  Definition vsum (l : list (list R)) (n : nat) : list R := fold_right vplus (zeros n) l.
  Lemma vsum_spec l n (dx : list R) : Forall (fun g : list R => length g = n) l -> length dx = n ->
    length (vsum l n) = n /\ dot (vsum l n) dx = sumR (map (fun g => dot g dx) l).
  Proof.
    intros Hl Hd. induction Hl as [|g l Hg _ [IH1 IH2]]; cbn [vsum fold_right map sum_list].
    - split; [apply repeat_length|apply (dot_zeros_l rO rI radd rmul rsub ropp Rth)].
    - fold (vsum l n). split.
      + rewrite (length_vplus radd) by congruence. exact Hg.
      + rewrite (dot_vplus_l rO rI radd rmul rsub ropp Rth) by congruence. rewrite IH2. reflexivity.
  Qed.
  Lemma sum_pick (f : nat -> R) B c : c < B -> (forall b, b < B -> b <> c -> f b = rO) -> sumR (map f (range B)) = f c.
  Proof.
    unfold range. intros Hc H.
    assert (G : forall n s, (forall b, s <= b < s + n -> b <> c -> f b = rO) ->
              sumR (map f (seq s n)) = if (s <=? c) && (c <? s + n) then f c else rO).
    { induction n as [|n IH]; intros s Hs; cbn [seq map].
      - change (sumR []) with rO. destruct (Nat.leb_spec s c), (Nat.ltb_spec c (s + 0)); cbn [andb]; try reflexivity; lia.
      - change (sumR (f s :: map f (seq (S s) n))) with (radd (f s) (sumR (map f (seq (S s) n)))).
        rewrite (IH (S s)) by (intros b Hb; apply Hs; lia).
        destruct (Nat.eq_dec s c) as [->|Ne].
        + destruct (Nat.leb_spec (S c) c); [lia|]. cbn [andb].
          destruct (Nat.leb_spec c c); [|lia]. destruct (Nat.ltb_spec c (c + S n)); [|lia]. cbn [andb]. ring.
        + rewrite (Hs s) by lia.
          destruct (Nat.leb_spec (S s) c), (Nat.leb_spec s c), (Nat.ltb_spec c (S s + n)), (Nat.ltb_spec c (s + S n));
            cbn [andb]; try ring; lia. }
    rewrite G by (intros b Hb; apply H; lia).
    destruct (Nat.leb_spec 0 c); [|lia]. destruct (Nat.ltb_spec c (0 + B)); [|lia]. reflexivity.
  Qed.

  (* ---------------------------------------------------------------- programs *)
  Inductive dexpr :=
  | DLeaf (k : nat)                       (* entry k of the environment: an input or a parameter *)
  | DConst (s : tshape) (v : list R)      (* a constant: no gradient is asked for *)
  | DUn (u : unop) (e : dexpr)
  | DBin (o : binop) (e1 e2 : dexpr)
  | DConcat (dim : nat) (es : list dexpr).

  Section DInd.
    Variable P : dexpr -> Prop.
    Hypothesis HLeaf : forall k, P (DLeaf k).
    Hypothesis HConst : forall s v, P (DConst s v).
    Hypothesis HUn : forall u e, P e -> P (DUn u e).
    Hypothesis HBin : forall o e1 e2, P e1 -> P e2 -> P (DBin o e1 e2).
    Hypothesis HConcat : forall dim es, Forall P es -> P (DConcat dim es).
    Fixpoint dexpr_induction (e : dexpr) : P e :=
      match e with
      | DLeaf k => HLeaf k
      | DConst s v => HConst s v
      | DUn u e1 => HUn u e1 (dexpr_induction e1)
      | DBin o e1 e2 => HBin o e1 e2 (dexpr_induction e1) (dexpr_induction e2)
      | DConcat dim es =>
          HConcat dim es
            ((fix go (l : list dexpr) : Forall P l :=
                match l with
                | [] => Forall_nil P
                | x :: r => Forall_cons x (dexpr_induction x) (go r)
                end) es)
      end.
  End DInd.

  Definition lenv := list (tshape * list R).
  Definition dleaf : tshape * list R := (PBS.dshape, [rO]).

  (* the program as a program of the expression language of ProofsBatchLaw.v *)
  Fixpoint erase (env : lenv) (e : dexpr) : xexpr :=
    match e with
    | DLeaf k => XLeaf R (fst (nth k env dleaf)) (snd (nth k env dleaf))
    | DConst s v => XLeaf R s v
    | DUn u e1 => un_x u (erase env e1)
    | DBin o e1 e2 => bin_x o (erase env e1) (erase env e2)
    | DConcat dim es => XConcat R dim (map (erase env) es)
    end.
  (* its tangent program in the direction denv (one tangent per environment entry) *)
  Fixpoint dtan (env : lenv) (denv : list (list R)) (e : dexpr) : xexpr :=
    match e with
    | DLeaf k => XLeaf R (fst (nth k env dleaf)) (nth k denv [])
    | DConst s v => XLeaf R s (zeros (tsize s))
    | DUn u e1 => un_t u (dtan env denv e1)
    | DBin o e1 e2 => bin_t o (erase env e1) (erase env e2) (dtan env denv e1) (dtan env denv e2)
    | DConcat dim es => XConcat R dim (map (dtan env denv) es)         (* concat is linear *)
    end.
  (* accepted with minibatch size B *)
  Fixpoint dwf (B : nat) (env : lenv) (e : dexpr) : Prop :=
    match e with
    | DLeaf k => k < length env
    | DConst s v => good R B (s, v)
    | DUn u e1 => dwf B env e1 /\ un_cond u B (fst (xe (erase env e1)))
    | DBin o e1 e2 => dwf B env e1 /\ dwf B env e2 /\ bin_cond o (fst (xe (erase env e1))) (fst (xe (erase env e2)))
    | DConcat dim es =>
        fold_right (fun e1 acc => dwf B env e1 /\ acc) True es /\
        PBS.concat_ok (map (fun e1 => fst (xe (erase env e1))) es) dim
    end.
  Lemma dwf_all B env es : fold_right (fun e1 acc => dwf B env e1 /\ acc) True es <-> Forall (dwf B env) es.
  Proof.
    induction es as [|e es IH]; cbn [fold_right]; [split; [constructor|trivial]|].
    rewrite IH. split; [intros [H1 H2]; constructor; assumption|intro H; inversion H; auto].
  Qed.
  Definition env_ok (B : nat) (env : lenv) : Prop := Forall (good R B) env.
  Definition sized (gs : list (list R)) (env : lenv) : Prop := Forall2 (fun g r => length g = tsize (fst r)) gs env.

  Lemma env_ok_nth B env k : env_ok B env -> k < length env -> good R B (nth k env dleaf).
  Proof. intros H Hk. apply (proj1 (Forall_forall _ _) H). apply nth_In. exact Hk. Qed.
  Lemma sized_nth gs env k : sized gs env -> k < length env -> length (nth k gs []) = tsize (fst (nth k env dleaf)).
  Proof.
    intro H. revert k. induction H as [|g r gs env Hg _ IH]; intros k Hk; cbn [length] in Hk; [lia|].
    destruct k as [|k]; [exact Hg|]. cbn [nth]. apply IH. lia.
  Qed.
  Lemma sized_length gs env : sized gs env -> length gs = length env.
  Proof. induction 1; cbn [length]; congruence. Qed.

  Lemma dwf_xw B env e : env_ok B env -> dwf B env e -> xw B (erase env e).
  Proof.
    intro He. induction e as [k|s v|u e IH|o e1 e2 IH1 IH2|dim es IH] using dexpr_induction; cbn [dwf erase].
    - intro Hk. exact (env_ok_nth B env k He Hk).
    - intro H. exact H.
    - intros [H1 H2]. apply xw_un_x. auto.
    - intros (H1 & H2 & H3). apply xw_bin_x; auto.
    - intros [Hall Hok]. apply dwf_all in Hall. cbn [xwf]. split.
      + apply xwf_all. rewrite Forall_map. rewrite Forall_forall in IH, Hall. apply Forall_forall. intros e Hin. apply IH; auto.
      + rewrite !map_map. exact Hok.
  Qed.

  Lemma dtan_ok B env denv e : env_ok B env -> sized denv env -> dwf B env e ->
    xw B (dtan env denv e) /\ fst (xe (dtan env denv e)) = fst (xe (erase env e)).
  Proof.
    intros He Hd. induction e as [k|s v|u e IH|o e1 e2 IH1 IH2|dim es IH] using dexpr_induction; cbn [dwf erase dtan].
    - intro Hk. split; [|reflexivity]. destruct (env_ok_nth B env k He Hk) as (W & Bk & _).
      cbn [xwf]. split; [exact W|split; [exact Bk|apply sized_nth; assumption]].
    - intros (W & Bs & _). cbn [fst snd] in *. split; [|reflexivity]. cbn [xwf]. split; [exact W|split; [exact Bs|apply repeat_length]].
    - intros [H1 H2]. destruct (IH H1) as [A E]. split.
      + apply xw_un_t. rewrite E. auto.
      + rewrite fst_un_t, fst_un_x, E. reflexivity.
    - intros (H1 & H2 & H3). destruct (IH1 H1) as [A1 E1]. destruct (IH2 H2) as [A2 E2]. split.
      + apply xw_bin_t; auto; apply dwf_xw; assumption.
      + rewrite fst_bin_x. apply fst_bin_t; assumption.
    - intros [Hall Hok]. apply dwf_all in Hall.
      assert (G : Forall (fun e => xw B (dtan env denv e) /\ fst (xe (dtan env denv e)) = fst (xe (erase env e))) es).
      { rewrite Forall_forall in IH, Hall. apply Forall_forall. intros e Hin. apply IH; auto. }
      assert (Esh : map fst (map xe (map (dtan env denv) es)) = map fst (map xe (map (erase env) es))).
      { rewrite !map_map. apply map_ext_in. intros e Hin. apply (proj1 (Forall_forall _ _) G e Hin). }
      split.
      + cbn [xwf]. split.
        * apply xwf_all. rewrite Forall_map. eapply Forall_impl; [|exact G]. cbn beta. tauto.
        * rewrite Esh, !map_map. exact Hok.
      + cbn [xeval fst]. rewrite Esh. reflexivity.
  Qed.

  (* ---------------------------------------------------------------- the reverse sweep *)
  Fixpoint add_at (k : nat) (g : list R) (acc : list (list R)) : list (list R) :=
    match acc with
    | [] => []
    | a :: r => match k with 0 => vplus a g :: r | S k' => a :: add_at k' g r end
    end.
  (* gy: the gradient arriving at the node; acc: the gradients of the leaves accumulated so far.
     Every operator adds to its operands the increments its BACKWARD kernels compute
     (d_bw of the descriptor of core_family); a leaf does gx += gy. *)
  Definition back_list (F : dexpr -> list R -> list (list R) -> list (list R)) :=
    fix go (es : list dexpr) (incs : list (list R)) (acc : list (list R)) {struct es} : list (list R) :=
      match es with
      | [] => acc
      | e :: r => match incs with [] => acc | inc :: ir => go r ir (F e inc acc) end
      end.
  Fixpoint dback (env : lenv) (e : dexpr) (gy : list R) (acc : list (list R)) : list (list R) :=
    match e with
    | DLeaf k => add_at k gy acc
    | DConst _ _ => acc
    | DUn u e1 =>
        let r := xe (erase env e1) in let d := desc (un_cop u (fst r)) in
        dback env e1 (nth 0 (d_bw d [snd r] (d_fw d [snd r]) [gy]) []) acc
    | DBin o e1 e2 =>
        let r1 := xe (erase env e1) in let r2 := xe (erase env e2) in
        let d := desc (bin_cop o (fst r1) (fst r2)) in
        let incs := d_bw d [snd r1; snd r2] (d_fw d [snd r1; snd r2]) [gy] in
        dback env e2 (nth 1 incs []) (dback env e1 (nth 0 incs []) acc)
    | DConcat dim es =>
        let rs := map (fun e1 => xe (erase env e1)) es in let xs := map fst rs in
        let d := desc (OConcat xs (concat_shape xs dim) dim) in
        back_list (dback env) es (d_bw d (map snd rs) (d_fw d (map snd rs)) [gy]) acc
    end.
  Definition zero_grads (env : lenv) : list (list R) := map (fun r => zeros (tsize (fst r))) env.
  Definition grad (env : lenv) (e : dexpr) (gy : list R) : list (list R) := dback env e gy (zero_grads env).

  Lemma add_at_spec gy : forall acc env denv k, sized acc env -> sized denv env -> k < length env ->
    length gy = tsize (fst (nth k env dleaf)) ->
    sized (add_at k gy acc) env /\ dots (add_at k gy acc) denv = radd (dots acc denv) (dot gy (nth k denv [])).
  Proof.
    intros acc env denv k Ha. revert denv k. induction Ha as [|a r acc env Har Ha IH]; intros denv k Hd Hk Hg; cbn [length] in Hk; [lia|].
    inversion Hd as [|dx r' denv' env' Hdx Hd']; subst. destruct k as [|k]; cbn [add_at nth OpFamily.dots] in *.
    - split.
      + constructor; [|exact Ha]. rewrite (length_vplus radd) by congruence. exact Har.
      + rewrite (dot_vplus_l rO rI radd rmul rsub ropp Rth) by congruence. ring.
    - destruct (IH denv' k Hd' ltac:(lia) Hg) as [S1 E1]. split; [constructor; assumption|]. rewrite E1. ring.
  Qed.

  (* THE ADJOINT THEOREM for programs: the reverse sweep pairs with a direction as the upstream
     gradient pairs with the tangent program *)
  Theorem dback_adjoint B env denv e : 0 < B -> env_ok B env -> sized denv env -> dwf B env e ->
    forall gy acc, sized acc env -> length gy = tsize (fst (xe (erase env e))) ->
      sized (dback env e gy acc) env /\
      dots (dback env e gy acc) denv = radd (dots acc denv) (dot gy (snd (xe (dtan env denv e)))).
  Proof.
    intros HB He Hd. induction e as [k|s v|u e IH|o e1 e2 IH1 IH2|dim es IH] using dexpr_induction; cbn [dwf]; intros Hw gy acc Ha Hg.
    - cbn [erase xeval fst] in Hg. cbn [dback dtan xeval snd]. apply add_at_spec; assumption.
    - cbn [dback dtan xeval snd]. split; [exact Ha|]. rewrite (dot_zeros_r rO rI radd rmul rsub ropp Rth). ring.
    - destruct Hw as [H1 H2]. pose proof (dwf_xw B env e He H1) as Hx.
      destruct (xeval_good R rO radd rmul B _ HB Hx) as (W & Bx & Lx).
      destruct (dtan_ok B env denv e He Hd H1) as [Ht Et].
      destruct (xeval_good R rO radd rmul B _ HB Ht) as (_ & _ & Lt). rewrite Et in Lt.
      cbn [erase] in Hg. rewrite fst_un_x in Hg.
      destruct (un_node u B _ (snd (xe (erase env e))) (snd (xe (dtan env denv e))) gy W H2 Lx Lt Hg) as (inc & Ei & Li & Ed).
      cbn [dback dtan]. cbv zeta. rewrite Ei. cbn [nth].
      destruct (IH H1 inc acc Ha Li) as [S1 E1]. split; [exact S1|]. rewrite E1, Ed.
      rewrite (xe_un_t u (dtan env denv e)), Et. reflexivity.
    - destruct Hw as (H1 & H2 & H3). pose proof (dwf_xw B env e1 He H1) as Hx1. pose proof (dwf_xw B env e2 He H2) as Hx2.
      destruct (xeval_good R rO radd rmul B _ HB Hx1) as (W1 & B1 & L1). destruct (xeval_good R rO radd rmul B _ HB Hx2) as (W2 & B2 & L2).
      destruct (dtan_ok B env denv e1 He Hd H1) as [Ht1 Et1]. destruct (dtan_ok B env denv e2 He Hd H2) as [Ht2 Et2].
      destruct (xeval_good R rO radd rmul B _ HB Ht1) as (_ & _ & Lt1). rewrite Et1 in Lt1.
      destruct (xeval_good R rO radd rmul B _ HB Ht2) as (_ & _ & Lt2). rewrite Et2 in Lt2.
      cbn [erase] in Hg. rewrite fst_bin_x in Hg.
      destruct (bin_node o B _ _ (snd (xe (erase env e1))) (snd (xe (erase env e2)))
                  (snd (xe (dtan env denv e1))) (snd (xe (dtan env denv e2))) gy W1 W2 B1 B2 H3 L1 L2 Lt1 Lt2 Hg)
        as (i1 & i2 & Ei & Li1 & Li2 & Ed).
      cbn [dback dtan]. cbv zeta. rewrite Ei. cbn [nth].
      destruct (IH1 H1 i1 acc Ha Li1) as [S1 E1]. destruct (IH2 H2 i2 _ S1 Li2) as [S2 E2].
      split; [exact S2|]. rewrite E2, E1.
      rewrite (xe_bin_t o (erase env e1) (erase env e2) (dtan env denv e1) (dtan env denv e2)), Et1, Et2, <- Ed. ring.
    - destruct Hw as [Hall Hok]. apply dwf_all in Hall.
      set (rs := map (fun e1 => xe (erase env e1)) es).
      set (rs' := map (fun e1 => xe (dtan env denv e1)) es).
      assert (Gr : Forall (good R B) rs).
      { unfold rs. rewrite Forall_map. eapply Forall_impl; [|exact Hall]. intros e1 H1. apply (xeval_good R rO radd rmul B _ HB (dwf_xw B env e1 He H1)). }
      assert (Gt : Forall (fun e1 => xw B (dtan env denv e1) /\ fst (xe (dtan env denv e1)) = fst (xe (erase env e1))) es).
      { eapply Forall_impl; [|exact Hall]. intros e1 H1. apply (dtan_ok B env denv e1 He Hd H1). }
      assert (Gr' : Forall (good R B) rs').
      { unfold rs'. rewrite Forall_map. eapply Forall_impl; [|exact Gt]. intros e1 [H1 _]. apply (xeval_good R rO radd rmul B _ HB H1). }
      assert (Es : map fst rs' = map fst rs).
      { unfold rs, rs'. rewrite !map_map. apply map_ext_in. intros e1 Hin. apply (proj1 (Forall_forall _ _) Gt e1 Hin). }
      assert (Hok' : PBS.concat_ok (map fst rs) dim) by (unfold rs; rewrite map_map; exact Hok).
      assert (Hg' : length gy = tsize (concat_shape (map fst rs) dim)).
      { rewrite Hg. cbn [erase xeval fst]. unfold rs. rewrite !map_map. reflexivity. }
      destruct (cat_node B dim rs rs' gy Gr Gr' Es Hok' Hg') as [Hsz Ed].
      cbn [dback]. cbv zeta. fold rs.
      set (incs := d_bw (desc (OConcat (map fst rs) (concat_shape (map fst rs) dim) dim)) (map snd rs)
                        (d_fw (desc (OConcat (map fst rs) (concat_shape (map fst rs) dim) dim)) (map snd rs)) [gy]) in *.
      assert (Hsz' : Forall2 (fun (inc : list R) e1 => length inc = tsize (fst (xe (erase env e1)))) incs es).
      { clear - Hsz. unfold rs in Hsz. revert Hsz. generalize incs. clear incs. induction es as [|e1 es IHes]; intros l H; inversion H; subst; constructor; auto. }
      assert (BL : forall es' l acc', Forall2 (fun (inc : list R) e1 => length inc = tsize (fst (xe (erase env e1)))) l es' ->
                 Forall (fun e1 => dwf B env e1 -> forall gy' acc'', sized acc'' env -> length gy' = tsize (fst (xe (erase env e1))) ->
                     sized (dback env e1 gy' acc'') env /\
                     dots (dback env e1 gy' acc'') denv = radd (dots acc'' denv) (dot gy' (snd (xe (dtan env denv e1))))) es' ->
                 Forall (dwf B env) es' -> sized acc' env ->
                 sized (back_list (dback env) es' l acc') env /\
                 dots (back_list (dback env) es' l acc') denv
                 = radd (dots acc' denv) (dots l (map (fun e1 => snd (xe (dtan env denv e1))) es'))).
      { induction es' as [|e1 es' IHes]; intros l acc' H2 HI HW Hacc; inversion H2; subst; cbn [back_list map OpFamily.dots].
        - split; [exact Hacc|ring].
        - inversion HI; subst. inversion HW; subst.
          match goal with Hx : dwf B env e1 -> _, Hd1 : dwf B env e1, Hl : length _ = tsize (fst (xe (erase env e1))) |- _ =>
            destruct (Hx Hd1 _ acc' Hacc Hl) as [S1 E1] end.
          match goal with Hf : Forall2 _ _ es' |- _ => destruct (IHes _ _ Hf ltac:(assumption) ltac:(assumption) S1) as [S2 E2] end.
          split; [exact S2|]. rewrite E2, E1. ring. }
      destruct (BL es incs acc Hsz' IH Hall Ha) as [S1 E1]. split; [exact S1|]. rewrite E1. f_equal.
      replace (map (fun e1 => snd (xe (dtan env denv e1))) es) with (map snd rs') by (unfold rs'; rewrite map_map; reflexivity).
      rewrite Ed. cbn [dtan xeval snd]. rewrite map_map. reflexivity.
  Qed.
  (* ---------------------------------------------------------------- the per-sample program *)
  Definition env_s (b : nat) (env : lenv) : lenv := map (spair b) env.
  Definition denv_s (b : nat) (env : lenv) (denv : list (list R)) : list (list R) :=
    map (fun p : (tshape * list R) * list R => sample_or_shared (fst (fst p)) b (tvolume (fst (fst p))) (snd p)) (combine env denv).
  Definition un_s (b : nat) (u : unop) : unop :=
    match u with UPick ids dim => UPick [nth (bidx (length ids) b) ids 0] dim | _ => u end.
  Fixpoint dsample (b : nat) (e : dexpr) : dexpr :=
    match e with
    | DLeaf k => DLeaf k
    | DConst s v => DConst (unb s) (sample_or_shared s b (tvolume s) v)
    | DUn u e1 => DUn (un_s b u) (dsample b e1)
    | DBin o e1 e2 => DBin o (dsample b e1) (dsample b e2)
    | DConcat dim es => DConcat dim (map (dsample b) es)
    end.

  Lemma nth_env_s b env k : k < length env -> nth k (env_s b env) dleaf = spair b (nth k env dleaf).
  Proof.
    intro Hk. unfold env_s. rewrite (nth_indep _ dleaf (spair b dleaf)) by (rewrite map_length; exact Hk). apply map_nth.
  Qed.
  Lemma nth_denv_s b env denv k : k < length env -> length denv = length env ->
    nth k (denv_s b env denv) [] = sample_or_shared (fst (nth k env dleaf)) b (tvolume (fst (nth k env dleaf))) (nth k denv []).
  Proof.
    intros Hk Hl. unfold denv_s.
    set (f := fun p : (tshape * list R) * list R => sample_or_shared (fst (fst p)) b (tvolume (fst (fst p))) (snd p)).
    rewrite (nth_indep _ [] (f (dleaf, []))) by (rewrite map_length, combine_length; lia).
    rewrite map_nth, combine_nth by congruence. reflexivity.
  Qed.

  (* sampling commutes with erasure and with taking the tangent program *)
  Lemma erase_sample B b env e : dwf B env e -> xsample R b (erase env e) = erase (env_s b env) (dsample b e).
  Proof.
    induction e as [k|s v|u e IH|o e1 e2 IH1 IH2|dim es IH] using dexpr_induction; cbn [dwf erase dsample].
    - intro Hk. rewrite (nth_env_s b env k Hk). reflexivity.
    - reflexivity.
    - intros [H1 _]. rewrite <- (IH H1). destruct u; reflexivity.
    - intros (H1 & H2 & _). rewrite <- (IH1 H1), <- (IH2 H2). destruct o; reflexivity.
    - intros [Hall _]. apply dwf_all in Hall. cbn [xsample]. f_equal. rewrite !map_map. apply map_ext_in.
      intros e Hin. rewrite Forall_forall in IH, Hall. apply IH; auto.
  Qed.
  Lemma dtan_sample B b env denv e : b < B -> env_ok B env -> sized denv env -> dwf B env e ->
    xsample R b (dtan env denv e) = dtan (env_s b env) (denv_s b env denv) (dsample b e).
  Proof.
    intros Hb He Hd. induction e as [k|s v|u e IH|o e1 e2 IH1 IH2|dim es IH] using dexpr_induction; cbn [dwf dtan dsample].
    - intro Hk. rewrite (nth_env_s b env k Hk), (nth_denv_s b env denv k Hk (sized_length _ _ Hd)). reflexivity.
    - intros (_ & Bs & _). cbn [fst] in Bs. cbn [xsample]. f_equal. unfold sample_or_shared.
      rewrite tsize_unb. apply block_repeat. unfold tsize. apply Nat.mul_le_mono_r. pose proof (bsel_lt s b B Bs Hb). lia.
    - intros [H1 _]. rewrite <- (IH H1). destruct u; reflexivity.
    - intros (H1 & H2 & _). rewrite <- (IH1 H1), <- (IH2 H2), <- (erase_sample B b env e1 H1), <- (erase_sample B b env e2 H2).
      destruct o; reflexivity.
    - intros [Hall _]. apply dwf_all in Hall. cbn [xsample]. f_equal. rewrite !map_map. apply map_ext_in.
      intros e Hin. rewrite Forall_forall in IH, Hall. apply IH; auto.
  Qed.

  Lemma good_sample B b r : b < B -> good R B r -> good R 1 (spair b r).
  Proof.
    intros Hb (W & Bs & L). unfold good, sample_pair. cbn [fst snd]. split; [apply twf_unb; exact W|]. split; [left; reflexivity|].
    rewrite tsize_unb. apply (sos_length R _ b B _ Bs Hb L).
  Qed.
  Lemma env_ok_sample B b env : b < B -> env_ok B env -> env_ok 1 (env_s b env).
  Proof. intros Hb H. unfold env_ok, env_s. rewrite Forall_map. eapply Forall_impl; [|exact H]. intro r. apply good_sample. exact Hb. Qed.

  Lemma un_cond_sample u B b sx : b < B -> un_cond u B sx -> un_cond (un_s b u) 1 (unb sx).
  Proof.
    intros Hb Hc. destruct u; cbn [un_s un_cond] in *; try exact Hc; try exact I.
    destruct Hc as ((Hl & Hcm & Hi) & Hlb). split; [|left; reflexivity].
    split; [cbn [length]; lia|]. split; [right; left; reflexivity|].
    intros i Hi1. cbn [length] in Hi1. replace i with 0 by lia. cbn [nth].
    change (tget (unb sx) dim) with (tget sx dim). apply Hi. apply (bidx_lt _ B b Hb). lia.
  Qed.
  Lemma bin_cond_sample o s1 s2 : bin_cond o s1 s2 -> bin_cond o (unb s1) (unb s2).
  Proof. destruct o; exact (fun H => H). Qed.

  Lemma dwf_sample B b env e : 0 < B -> b < B -> env_ok B env -> dwf B env e -> dwf 1 (env_s b env) (dsample b e).
  Proof.
    intros HB Hb He. induction e as [k|s v|u e IH|o e1 e2 IH1 IH2|dim es IH] using dexpr_induction; cbn [dwf dsample].
    - unfold env_s. rewrite map_length. auto.
    - intro H. exact (good_sample B b (s, v) Hb H).
    - intros [H1 H2]. split; [apply IH; exact H1|].
      rewrite <- (erase_sample B b env e H1), (batch_law_program_ext_shape R rO radd rmul B b _ HB Hb (dwf_xw B env e He H1)).
      apply (un_cond_sample u B b _ Hb H2).
    - intros (H1 & H2 & H3). split; [apply IH1; exact H1|]. split; [apply IH2; exact H2|].
      rewrite <- (erase_sample B b env e1 H1), <- (erase_sample B b env e2 H2).
      rewrite (batch_law_program_ext_shape R rO radd rmul B b _ HB Hb (dwf_xw B env e1 He H1)).
      rewrite (batch_law_program_ext_shape R rO radd rmul B b _ HB Hb (dwf_xw B env e2 He H2)).
      apply bin_cond_sample. exact H3.
    - intros [Hall Hok]. apply dwf_all in Hall. split.
      + apply dwf_all. rewrite Forall_map. rewrite Forall_forall in IH, Hall. apply Forall_forall. intros e Hin. apply IH; auto.
      + rewrite map_map.
        replace (map (fun x => fst (xe (erase (env_s b env) (dsample b x)))) es)
          with (map unb (map (fun e1 => fst (xe (erase env e1))) es)); [apply concat_ok_unb; exact Hok|].
        rewrite map_map. apply map_ext_in. intros e Hin. rewrite Forall_forall in Hall.
        rewrite <- (erase_sample B b env e (Hall e Hin)).
        symmetry. apply (batch_law_program_ext_shape R rO radd rmul B b _ HB Hb (dwf_xw B env e He (Hall e Hin))).
  Qed.

  Lemma sized_denv_s B b env denv : b < B -> env_ok B env -> sized denv env -> sized (denv_s b env denv) (env_s b env).
  Proof.
    intros Hb He Hd. unfold denv_s, env_s. revert He. induction Hd as [|dx r denv env Hdx _ IH]; intro He; [constructor|].
    inversion He as [|? ? (W & Bs & L) He']; subst. cbn [combine map]. constructor; [|apply IH; exact He'].
    cbn [fst snd sample_pair]. rewrite tsize_unb. apply (sos_length R _ b B _ Bs Hb Hdx).
  Qed.

  Lemma zero_grads_sized env : sized (zero_grads env) env.
  Proof. unfold zero_grads. induction env as [|r env IH]; cbn [map]; constructor; [apply repeat_length|exact IH]. Qed.
  Lemma dots_zero_grads env denv : dots (zero_grads env) denv = rO.
  Proof.
    unfold zero_grads. revert denv. induction env as [|r env IH]; intros [|dx denv]; cbn [map OpFamily.dots]; try reflexivity.
    rewrite IH, (dot_zeros_l rO rI radd rmul rsub ropp Rth). ring.
  Qed.

  (* ---------------------------------------------------------------- the batched sweep against the per-sample sweeps *)
  (* for every direction: the pairing of the batched gradients is the sum over the samples of the
     pairings of the per-sample gradients with the per-sample directions.
     (adjoint theorem, batched and per sample + the batch law of the tangent program) *)
  Theorem grad_pairing B env denv e gy : 0 < B -> env_ok B env -> sized denv env -> dwf B env e ->
    let sy := fst (xe (erase env e)) in
    tbatch sy = B -> length gy = tsize sy ->
    dots (grad env e gy) denv
    = sumR (map (fun b => dots (grad (env_s b env) (dsample b e) (block b (tvolume sy) gy)) (denv_s b env denv)) (range B)).
  Proof.
    intros HB He Hd Hw sy HBy Hg. unfold grad.
    destruct (dback_adjoint B env denv e HB He Hd Hw gy _ (zero_grads_sized env) Hg) as [_ E].
    rewrite E, dots_zero_grads. destruct (dtan_ok B env denv e He Hd Hw) as [Ht Et]. fold sy in Et.
    destruct (xeval_good R rO radd rmul B _ HB Ht) as (_ & _ & Lt). rewrite Et in Lt.
    assert (Es : tsize sy = B * tvolume sy) by (unfold tsize; rewrite HBy; reflexivity).
    rewrite (dot_blocks (tvolume sy) B gy _) by congruence.
    replace (radd rO (sumR (map (fun k => dot (block k (tvolume sy) gy) (block k (tvolume sy) (snd (xe (dtan env denv e))))) (range B))))
      with (sumR (map (fun k => dot (block k (tvolume sy) gy) (block k (tvolume sy) (snd (xe (dtan env denv e))))) (range B))) by ring.
    apply (sumR_ext rO radd). intros b Hin. apply in_seq in Hin. assert (Hb : b < B) by lia.
    pose proof (dwf_sample B b env e HB Hb He Hw) as Hw1.
    assert (Hshape : fst (xe (erase (env_s b env) (dsample b e))) = unb sy).
    { rewrite <- (erase_sample B b env e Hw). apply (batch_law_program_ext_shape R rO radd rmul B b _ HB Hb (dwf_xw B env e He Hw)). }
    assert (Hg1 : length (block b (tvolume sy) gy) = tsize (fst (xe (erase (env_s b env) (dsample b e))))).
    { rewrite Hshape, tsize_unb. apply block_length. rewrite Hg, Es. apply block_le. exact Hb. }
    destruct (dback_adjoint 1 (env_s b env) (denv_s b env denv) (dsample b e) Nat.lt_0_1 (env_ok_sample B b env Hb He)
                (sized_denv_s B b env denv Hb He Hd) Hw1 _ _ (zero_grads_sized _) Hg1) as [_ E1].
    rewrite E1, dots_zero_grads. rewrite <- (dtan_sample B b env denv e Hb He Hd Hw).
    rewrite (batch_law_program_ext R rO radd rmul B b _ HB Hb Ht). cbn [sample_pair snd]. rewrite Et.
    unfold sample_or_shared. rewrite (bsel_self sy b) by lia. ring.
  Qed.

  (* a direction that is dx on leaf k and zero elsewhere *)
  Fixpoint single_dir (env : lenv) (k : nat) (dx : list R) : list (list R) :=
    match env with
    | [] => []
    | r :: env' => match k with 0 => dx :: zero_grads env' | S k' => zeros (tsize (fst r)) :: single_dir env' k' dx end
    end.
  Lemma single_dir_sized : forall env k dx, k < length env -> length dx = tsize (fst (nth k env dleaf)) -> sized (single_dir env k dx) env.
  Proof.
    induction env as [|r env IH]; intros k dx Hk Hl; cbn [length] in Hk; [lia|]. destruct k as [|k]; cbn [single_dir nth] in *.
    - constructor; [exact Hl|apply zero_grads_sized].
    - constructor; [apply repeat_length|apply IH; [lia|exact Hl]].
  Qed.
  Lemma dots_comm_zero_grads (G : list (list R)) env : dots G (zero_grads env) = rO.
  Proof.
    unfold zero_grads. revert G. induction env as [|r env IH]; intros [|g G]; cbn [map OpFamily.dots]; try reflexivity.
    rewrite IH, (dot_zeros_r rO rI radd rmul rsub ropp Rth). ring.
  Qed.
  Lemma dots_single_dir : forall env (G : list (list R)) k dx, k < length env -> length G = length env ->
    dots G (single_dir env k dx) = dot (nth k G []) dx.
  Proof.
    induction env as [|r env IH]; intros G k dx Hk Hl; cbn [length] in Hk; [lia|].
    destruct G as [|g G]; [discriminate|]. cbn [length] in Hl. destruct k as [|k]; cbn [single_dir nth OpFamily.dots].
    - rewrite dots_comm_zero_grads. ring.
    - rewrite (IH G k dx) by lia. rewrite (dot_zeros_r rO rI radd rmul rsub ropp Rth). ring.
  Qed.
  Lemma denv_s_zero_grads B b env : b < B -> env_ok B env -> denv_s b env (zero_grads env) = zero_grads (env_s b env).
  Proof.
    intros Hb He. unfold denv_s, zero_grads, env_s. induction He as [|r env (W & Bs & L) _ IH]; [reflexivity|].
    cbn [map combine fst snd sample_pair]. f_equal; [|exact IH]. rewrite tsize_unb. unfold sample_or_shared.
    apply block_repeat. unfold tsize. apply Nat.mul_le_mono_r. pose proof (bsel_lt (fst r) b B Bs Hb). lia.
  Qed.
  Lemma denv_s_single_dir B b : b < B -> forall env k dx, env_ok B env -> k < length env ->
    denv_s b env (single_dir env k dx)
    = single_dir (env_s b env) k (sample_or_shared (fst (nth k env dleaf)) b (tvolume (fst (nth k env dleaf))) dx).
  Proof.
    intro Hb. induction env as [|r env IH]; intros k dx He Hk; cbn [length] in Hk; [lia|].
    inversion He as [|? ? (W & Bs & L) He']; subst. destruct k as [|k]; cbn [single_dir nth env_s map].
    - unfold denv_s at 1. cbn [combine map fst snd]. f_equal. apply (denv_s_zero_grads B b env Hb He').
    - unfold denv_s at 1. cbn [combine map fst snd sample_pair]. f_equal.
      + rewrite tsize_unb. unfold sample_or_shared. apply block_repeat. unfold tsize. apply Nat.mul_le_mono_r.
        pose proof (bsel_lt (fst r) b B Bs Hb). lia.
      + apply (IH k dx He'). lia.
  Qed.

  Lemma grad_sized B env e gy : 0 < B -> env_ok B env -> dwf B env e -> length gy = tsize (fst (xe (erase env e))) ->
    sized (grad env e gy) env.
  Proof.
    intros HB He Hw Hg. exact (proj1 (dback_adjoint B env (zero_grads env) e HB He (zero_grads_sized env) Hw gy _ (zero_grads_sized env) Hg)).
  Qed.

  (* the pairing, one leaf at a time *)
  Lemma grad_leaf_pairing B env e gy k dx : 0 < B -> env_ok B env -> dwf B env e ->
    let sy := fst (xe (erase env e)) in let sk := fst (nth k env dleaf) in
    tbatch sy = B -> length gy = tsize sy -> k < length env -> length dx = tsize sk ->
    dot (nth k (grad env e gy) []) dx
    = sumR (map (fun b => dot (nth k (grad (env_s b env) (dsample b e) (block b (tvolume sy) gy)) [])
                              (sample_or_shared sk b (tvolume sk) dx)) (range B)).
  Proof.
    intros HB He Hw sy sk HBy Hg Hk Hdx.
    pose proof (grad_sized B env e gy HB He Hw Hg) as HS.
    rewrite <- (dots_single_dir env _ k dx Hk (sized_length _ _ HS)).
    rewrite (grad_pairing B env _ e gy HB He (single_dir_sized env k dx Hk Hdx) Hw HBy Hg). fold sy.
    apply (sumR_ext rO radd). intros b Hin. apply in_seq in Hin. assert (Hb : b < B) by lia.
    rewrite (denv_s_single_dir B b Hb env k dx He Hk). fold sk.
    assert (Hshape : fst (xe (erase (env_s b env) (dsample b e))) = unb sy).
    { rewrite <- (erase_sample B b env e Hw). apply (batch_law_program_ext_shape R rO radd rmul B b _ HB Hb (dwf_xw B env e He Hw)). }
    assert (Hg1 : length (block b (tvolume sy) gy) = tsize (fst (xe (erase (env_s b env) (dsample b e))))).
    { rewrite Hshape, tsize_unb. apply block_length. rewrite Hg. unfold tsize. rewrite HBy. apply block_le. exact Hb. }
    pose proof (grad_sized 1 (env_s b env) (dsample b e) _ Nat.lt_0_1 (env_ok_sample B b env Hb He) (dwf_sample B b env e HB Hb He Hw) Hg1) as HS1.
    apply dots_single_dir; [unfold env_s; rewrite map_length; exact Hk|apply (sized_length _ _ HS1)].
  Qed.

  (* ================================================================== THE THEOREMS (C03, gradient half) *)
  (* a leaf of batch 1 (a shared operand, in particular every Parameter): its gradient from the
     batched run is the sum over the samples of its gradients from the per-sample runs, each run
     b being fed sample b of the upstream gradient *)
  Theorem grad_shared_is_sum B env e gy k : 0 < B -> env_ok B env -> dwf B env e ->
    let sy := fst (xe (erase env e)) in let sk := fst (nth k env dleaf) in
    tbatch sy = B -> length gy = tsize sy -> k < length env -> tbatch sk = 1 ->
    nth k (grad env e gy) []
    = vsum (map (fun b => nth k (grad (env_s b env) (dsample b e) (block b (tvolume sy) gy)) []) (range B)) (tsize sk).
  Proof.
    intros HB He Hw sy sk HBy Hg Hk H1.
    assert (Esk : tsize sk = tvolume sk) by (unfold tsize; rewrite H1; lia).
    assert (Hlen : forall b, b < B -> length (nth k (grad (env_s b env) (dsample b e) (block b (tvolume sy) gy)) []) = tsize sk).
    { intros b Hb.
      assert (Hshape : fst (xe (erase (env_s b env) (dsample b e))) = unb sy).
      { rewrite <- (erase_sample B b env e Hw). apply (batch_law_program_ext_shape R rO radd rmul B b _ HB Hb (dwf_xw B env e He Hw)). }
      assert (Hg1 : length (block b (tvolume sy) gy) = tsize (fst (xe (erase (env_s b env) (dsample b e))))).
      { rewrite Hshape, tsize_unb. apply block_length. rewrite Hg. unfold tsize. rewrite HBy. apply block_le. exact Hb. }
      pose proof (grad_sized 1 (env_s b env) (dsample b e) _ Nat.lt_0_1 (env_ok_sample B b env Hb He) (dwf_sample B b env e HB Hb He Hw) Hg1) as HS1.
      rewrite (sized_nth _ _ k HS1) by (unfold env_s; rewrite map_length; exact Hk).
      rewrite (nth_env_s b env k Hk). cbn [sample_pair fst]. rewrite tsize_unb. fold sk. symmetry. exact Esk. }
    assert (HF : Forall (fun g : list R => length g = tsize sk)
                   (map (fun b => nth k (grad (env_s b env) (dsample b e) (block b (tvolume sy) gy)) []) (range B))).
    { rewrite Forall_map. apply Forall_forall. intros b Hin. apply in_seq in Hin. apply Hlen. lia. }
    apply (dot_ext _ _ (tsize sk)).
    - apply (sized_nth _ _ k (grad_sized B env e gy HB He Hw Hg) Hk).
    - apply (proj1 (vsum_spec _ (tsize sk) (zeros (tsize sk)) HF (repeat_length _ _))).
    - intros dx Hdx. rewrite (proj2 (vsum_spec _ (tsize sk) dx HF Hdx)), map_map.
      rewrite (grad_leaf_pairing B env e gy k dx HB He Hw HBy Hg Hk Hdx). fold sy sk.
      apply (sumR_ext rO radd). intros b _. f_equal. unfold sample_or_shared. rewrite (bsel_shared sk b H1).
      apply block_all. congruence.
  Qed.

  (* a leaf of batch B: sample c of its gradient is its gradient from the per-sample run c *)
  Theorem grad_batched_is_sample B env e gy k c : 0 < B -> env_ok B env -> dwf B env e ->
    let sy := fst (xe (erase env e)) in let sk := fst (nth k env dleaf) in
    tbatch sy = B -> length gy = tsize sy -> k < length env -> tbatch sk = B -> c < B ->
    block c (tvolume sk) (nth k (grad env e gy) [])
    = nth k (grad (env_s c env) (dsample c e) (block c (tvolume sy) gy)) [].
  Proof.
    intros HB He Hw sy sk HBy Hg Hk HBk Hc. set (V := tvolume sk).
    assert (Esk : tsize sk = B * V) by (unfold tsize; rewrite HBk; reflexivity).
    pose proof (sized_nth _ _ k (grad_sized B env e gy HB He Hw Hg) Hk) as HLk. fold sk in HLk.
    assert (Hlen : length (nth k (grad (env_s c env) (dsample c e) (block c (tvolume sy) gy)) []) = V).
    { assert (Hshape : fst (xe (erase (env_s c env) (dsample c e))) = unb sy).
      { rewrite <- (erase_sample B c env e Hw). apply (batch_law_program_ext_shape R rO radd rmul B c _ HB Hc (dwf_xw B env e He Hw)). }
      assert (Hg1 : length (block c (tvolume sy) gy) = tsize (fst (xe (erase (env_s c env) (dsample c e))))).
      { rewrite Hshape, tsize_unb. apply block_length. rewrite Hg. unfold tsize. rewrite HBy. apply block_le. exact Hc. }
      pose proof (grad_sized 1 (env_s c env) (dsample c e) _ Nat.lt_0_1 (env_ok_sample B c env Hc He) (dwf_sample B c env e HB Hc He Hw) Hg1) as HS1.
      rewrite (sized_nth _ _ k HS1) by (unfold env_s; rewrite map_length; exact Hk).
      rewrite (nth_env_s c env k Hk). cbn [sample_pair fst]. apply tsize_unb. }
    apply (dot_ext _ _ V); [apply block_length; rewrite HLk, Esk; apply block_le; exact Hc|exact Hlen|].
    intros dx' Hdx'.
    set (dx := flat_map2 B (fun b => if b =? c then dx' else zeros V)).
    assert (Hfl : forall i, length ((fun b => if b =? c then dx' else zeros V) i) = V).
    { intro i. cbv beta. destruct (i =? c); [exact Hdx'|apply repeat_length]. }
    assert (Hdx : length dx = tsize sk) by (unfold dx; rewrite (length_flat_map2 B V) by (intros; apply Hfl); lia).
    assert (Hblk : forall b, b < B -> block b V dx = if b =? c then dx' else zeros V).
    { intros b Hb. unfold dx. apply (block_flat_map V _ Hfl B b Hb). }
    pose proof (grad_leaf_pairing B env e gy k dx HB He Hw HBy Hg Hk Hdx) as E. fold sy sk V in E.
    rewrite (dot_blocks V B _ dx) in E by congruence.
    rewrite (sum_pick _ B c Hc) in E.
    2:{ intros b Hb Hne. rewrite (Hblk b Hb). destruct (Nat.eqb_spec b c) as [->|_]; [contradiction|].
        apply (dot_zeros_r rO rI radd rmul rsub ropp Rth). }
    rewrite (sum_pick _ B c Hc) in E.
    2:{ intros b Hb Hne. unfold sample_or_shared. rewrite (bsel_self sk b) by lia. rewrite (Hblk b Hb).
        destruct (Nat.eqb_spec b c) as [->|_]; [contradiction|]. apply (dot_zeros_r rO rI radd rmul rsub ropp Rth). }
    unfold sample_or_shared in E. rewrite (bsel_self sk c) in E by lia. rewrite (Hblk c Hc), Nat.eqb_refl in E. exact E.
  Qed.
  (* the forward half for these programs, and the same law for their tangent programs *)
  Theorem erase_batch_law B b env e : 0 < B -> b < B -> env_ok B env -> dwf B env e ->
    xe (erase (env_s b env) (dsample b e)) = spair b (xe (erase env e)).
  Proof.
    intros HB Hb He Hw. rewrite <- (erase_sample B b env e Hw).
    apply (batch_law_program_ext R rO radd rmul B b _ HB Hb (dwf_xw B env e He Hw)).
  Qed.
  Theorem dtan_batch_law B b env denv e : 0 < B -> b < B -> env_ok B env -> sized denv env -> dwf B env e ->
    xe (dtan (env_s b env) (denv_s b env denv) (dsample b e)) = spair b (xe (dtan env denv e)).
  Proof.
    intros HB Hb He Hd Hw. rewrite <- (dtan_sample B b env denv e Hb He Hd Hw).
    apply (batch_law_program_ext R rO radd rmul B b _ HB Hb (proj1 (dtan_ok B env denv e He Hd Hw))).
  Qed.
End BatchGrad.
