(* C01, MatrixMultiply at the operator level.  Forward: matmul_fw_impl (matmul_contribs, 8x8x8
   blocking, += into a zeroed result).  Backward, exactly as devices/naive/ops/matmul.cc composes it:
       ga += matmul_fw(gy, transpose_fw(b));      gb += matmul_fw(transpose_fw(a), gy)
   i.e. transpose_fw, then matmul_fw over the contributions of the SWAPPED shapes, then
   inplace_add (which folds the B samples into a batch-1 operand).  Theorem matmul_LA: these
   increments pair with (da, db) to <gy, da*b + a*db>, for every B-vs-1 combination. *)
From Coq Require Import List NArith Bool Arith Lia Ring Permutation.
From PV Require Import Graph.OpFamily Tensor.Kernels Tensor.Index Tensor.KernelProofs
  Tensor.ProofsGather Tensor.ProofsPerm Tensor.ProofsBilinear Tensor.AdjCore.
Import ListNotations.

(* shapes of the temporaries *)
Definition mm_T (s : tshape) : tshape := mkT [tget s 1; tget s 0] (tbatch s).       (* transpose_fw(s) *)
Definition mm_full (s sy : tshape) : tshape := mkT [tget s 0; tget s 1] (tbatch sy). (* s with y's batch *)

Definition matmul_ok (sa sb sy : tshape) : bool :=
  let d1 := tget sa 0 in let d2 := tget sa 1 in let d3 := tget sb 1 in let B := tbatch sy in
  (tget sb 0 =? d2) && (tget sy 0 =? d1) && (tget sy 1 =? d3) &&
  (tvolume sa =? d1 * d2) && (tvolume sb =? d2 * d3) && (tvolume sy =? d1 * d3) &&
  ((tbatch sa =? 1) || (tbatch sa =? B)) && ((tbatch sb =? 1) || (tbatch sb =? B)) &&
  (B =? Nat.max (tbatch sa) (tbatch sb)) && (0 <? tbatch sa) && (0 <? tbatch sb).

Lemma bsel_full s b : b < tbatch s -> bsel s b = b.
Proof. intro H. destruct (bsel_cases s b) as [[A B]|[[A B]|[A B]]]; lia. Qed.
Lemma vol2 r c B : tvolume (mkT [r; c] B) = r * c.
Proof. unfold tvolume. cbn. lia. Qed.

Section MM.
  Context {R : Type} (rO rI : R) (radd rmul rsub : R -> R -> R) (ropp : R -> R).
  Hypothesis Rth : ring_theory rO rI radd rmul rsub ropp eq.
  Add Ring Rring3 : Rth.
  Notation dot := (OpFamily.dot rO radd rmul).
  Notation dots := (OpFamily.dots rO radd rmul).
  Notation zeros := (repeat rO).
  Notation scatterR := (scatter R rO radd).
  Notation gatherR := (gather R rO).
  Notation sumR := (sum_list R rO radd).
  Notation adj_of := (adj_of rO radd rmul).
  Notation desc_LA := (desc_LA rO radd rmul).
  Notation pair_adj := (pair_adj rO rI radd rmul rsub ropp Rth).
  Notation sumR_ext := (sumR_ext rO radd).

  (* nested sums over ranges *)
  Definition nsum (n : nat) (f : nat -> R) : R := sumR (map f (range n)).
  Lemma nsum_ext n f g : (forall i, i < n -> f i = g i) -> nsum n f = nsum n g.
  Proof. intro H. apply sumR_ext. intros i Hi. apply in_seq in Hi. apply H. lia. Qed.
  Lemma nsum_add n f g : nsum n (fun i => radd (f i) (g i)) = radd (nsum n f) (nsum n g).
  Proof. apply (sumR_add rO rI radd rmul rsub ropp Rth). Qed.
  Lemma sumR_zero {A} (l : list A) : sumR (map (fun _ => rO) l) = rO.
  Proof. induction l as [|x l IH]; cbn [map sum_list fold_right]; [reflexivity|]. fold (sumR (map (fun _ : A => rO) l)). rewrite IH. ring. Qed.
  Lemma sumR_swap {A B} (f : A -> B -> R) l1 l2 :
    sumR (map (fun i => sumR (map (fun j => f i j) l2)) l1) = sumR (map (fun j => sumR (map (fun i => f i j) l1)) l2).
  Proof.
    induction l1 as [|x l1 IH]; cbn [map sum_list fold_right].
    - symmetry. apply sumR_zero.
    - fold (sumR (map (fun i => sumR (map (fun j => f i j) l2)) l1)). rewrite IH.
      rewrite <- (sumR_add rO rI radd rmul rsub ropp Rth). apply sumR_ext. intros j _. reflexivity.
  Qed.
  Lemma nsum_swap n m (f : nat -> nat -> R) :
    nsum n (fun i => nsum m (fun j => f i j)) = nsum m (fun j => nsum n (fun i => f i j)).
  Proof. apply sumR_swap. Qed.
  Lemma sum_canon (h : nat * (nat * nat) -> R) s1 s2 e1 e2 e3 B :
    sumR (map h (matmul_canon s1 s2 e1 e2 e3 B))
    = nsum B (fun b => nsum e3 (fun k => nsum e1 (fun i => nsum e2 (fun j => h (mm_entry s1 s2 e1 e2 e3 b k i j))))).
  Proof.
    unfold matmul_canon, flat_map2, nsum. rewrite (sumR_flat_map rO rI radd rmul rsub ropp Rth). apply sumR_ext. intros b _.
    rewrite (sumR_flat_map rO rI radd rmul rsub ropp Rth). apply sumR_ext. intros k _.
    rewrite (sumR_flat_map rO rI radd rmul rsub ropp Rth). apply sumR_ext. intros i _. rewrite map_map. reflexivity.
  Qed.
  Lemma sum_contribs (h : nat * (nat * nat) -> R) s1 s2 s3 e1 e2 e3 B :
    tget s1 0 = e1 -> tget s1 1 = e2 -> tget s2 1 = e3 -> tbatch s3 = B ->
    sumR (map h (matmul_contribs s1 s2 s3))
    = nsum B (fun b => nsum e3 (fun k => nsum e1 (fun i => nsum e2 (fun j => h (mm_entry s1 s2 e1 e2 e3 b k i j))))).
  Proof.
    intros H1 H2 H3 H4. rewrite <- sum_canon.
    apply (sum_list_perm R rO radd (r_add_comm rO rI radd rmul rsub ropp Rth) (r_add_assoc rO rI radd rmul rsub ropp Rth)).
    apply Permutation_map. apply (matmul_perm s1 s2 s3 e1 e2 e3 B H1 H2 H3 H4).
  Qed.

  Lemma gather_nth fw n (x : list R) d k s : covers fw n -> In (d, (k, s)) fw -> nth d (gatherR fw n x) rO = nth s x rO.
  Proof.
    intros Hc Hin. pose proof (covers_lt _ _ _ Hc Hin) as Hd. cbn [fst] in Hd. unfold gather.
    rewrite (nth_indep _ rO (lookup R rO fw x 0)) by (rewrite map_length, seq_length; exact Hd).
    rewrite map_nth, seq_nth by exact Hd. cbn [Nat.add]. unfold lookup.
    pose proof (find_unique fw (d, (k, s)) (ProofsGather.covers_NoDup _ _ Hc) Hin) as Hf. cbn [fst] in Hf. rewrite Hf. reflexivity.
  Qed.

  Definition matmul_val (s1 s2 s3 : tshape) (x1 x2 : list R) : list R :=
    incr_run R rO radd (trip_fw R rO rmul (matmul_contribs s1 s2 s3) x1 x2) (zeros (tsize s3)).
  Definition transpose_val (s : tshape) (x : list R) : list R :=
    gatherR (transpose_fw s (mm_T s)) (tsize (mm_T s)) x.

  Definition matmul_desc (sa sb sy : tshape) : opdesc :=
    let p := matmul_contribs sa sb sy in
    {| d_args := [sa; sb]; d_rets := [sy]; d_ok := matmul_ok sa sb sy; d_nop := false;
       d_fw := fun xs => [matmul_val sa sb sy (nth 0 xs []) (nth 1 xs [])];
       d_jvp := fun xs dxs =>
         [incr_run R rO radd (trip_dfw R rO radd rmul p (nth 0 xs []) (nth 1 xs []) (nth 0 dxs []) (nth 1 dxs []))
                   (zeros (tsize sy))];
       d_bw := fun xs ys gys =>
         let gy := nth 0 gys [] in let a := nth 0 xs [] in let b := nth 1 xs [] in
         [scatterR (inplace_add (mm_full sa sy) sa)
                   (matmul_val sy (mm_T sb) (mm_full sa sy) gy (transpose_val sb b)) (zeros (tsize sa));
          scatterR (inplace_add (mm_full sb sy) sb)
                   (matmul_val (mm_T sa) sy (mm_full sb sy) (transpose_val sa a) gy) (zeros (tsize sb))] |}.

  (* gx += t where t has gx's dims and y's batch: the adjoint shares / copies dx *)
  Lemma fold_adj (s s' : tshape) V B : tvolume s = V -> tvolume s' = V -> tbatch s' = B -> 0 < B ->
    tbatch s = 1 \/ tbatch s = B ->
    exists E, adj_of (tsize s') (tsize s) E (fun t => scatterR (inplace_add s' s) t (zeros (tsize s))) /\
      forall (dx : list R) b r, length dx = tsize s -> b < B -> r < V -> nth (b * V + r) (E dx) rO = nth (bsel s b * V + r) dx rO.
  Proof.
    intros Hv Hv' Hb' HB Hb. destruct (Nat.eq_dec (tbatch s) B) as [Es|Ns].
    - exists (gatherR (identity_pairs (tsize s)) (tsize s')).
      assert (Esz : tsize s' = tsize s) by (unfold tsize; congruence).
      split.
      + apply pair_adj. apply (inplace_add_pair_same s' s V B (tbatch s)); auto; lia.
      + intros dx b r Hd Hlt Hr. rewrite Esz, (gather_identity rO _ dx Hd). rewrite bsel_full by lia. reflexivity.
    - assert (E1 : tbatch s = 1) by lia. exists (gatherR (share_fw B V (identity_pairs V)) (tsize s')).
      split.
      + apply pair_adj. apply (inplace_add_pair_fold s' s V B 1); auto; lia.
      + intros dx b r Hd Hlt Hr. unfold tsize at 1. rewrite Hb', Hv'.
        pose proof (share_fw_sequential B V _ (identity_sequential V)) as Hs.
        rewrite (gather_nth _ _ dx (b * V + r) 0 r (sequential_covers _ _ Hs)).
        * rewrite (bsel_shared s b E1). reflexivity.
        * apply share_fw_In. exists b, r. split; [exact Hlt|split; [reflexivity|]]. apply identity_spec. auto.
  Qed.

  Lemma transpose_nth s e1 e2 (x : list R) i j b : tget s 0 = e1 -> tget s 1 = e2 -> tvolume s = e1 * e2 ->
    i < e1 -> j < e2 -> b < tbatch s ->
    nth (b * (e2 * e1) + j + i * e2) (transpose_val s x) rO = nth (b * (e1 * e2) + i + j * e1) x rO.
  Proof.
    intros H1 H2 Hv Hi Hj Hb. unfold transpose_val.
    assert (Hc : covers (transpose_fw s (mm_T s)) (tsize (mm_T s))).
    { apply (transpose_fw_covers s (mm_T s) e1 e2 (tbatch s)); auto.
      - unfold tsize. rewrite Hv. ring.
      - unfold tsize, mm_T. rewrite vol2, H1, H2. cbn [tbatch]. ring. }
    rewrite (gather_nth _ _ x _ 0 (b * (e1 * e2) + i + j * e1) Hc); [reflexivity|].
    apply (transpose_fw_spec s (mm_T s) e1 e2 (tbatch s) H1 H2 eq_refl). exists i, j, b.
    unfold flat. repeat split; try assumption; ring.
  Qed.

  Lemma matmul_LA sa sb sy : desc_LA (matmul_desc sa sb sy).
  Proof.
    intros Hok xs dxs gys Hx Hdx Hgy. cbn [matmul_desc d_args d_rets d_ok d_nop d_fw d_jvp d_bw] in *.
    unfold matmul_ok in Hok. bsplit.
    set (d1 := tget sa 0) in *. set (d2 := tget sa 1) in *. set (d3 := tget sb 1) in *. set (B := tbatch sy) in *.
    repeat match goal with H : (_ =? 1) || (_ =? B) = true |- _ => apply orb_eqb in H end.
    match goal with H : tbatch sa = 1 \/ _ |- _ => rename H into Hba end.
    match goal with H : tbatch sb = 1 \/ _ |- _ => rename H into Hbb end.
    match goal with H : tvolume sa = _ |- _ => rename H into Hva end.
    match goal with H : tvolume sb = _ |- _ => rename H into Hvb end.
    match goal with H : tvolume sy = _ |- _ => rename H into Hvy end.
    match goal with H : tget sb 0 = _ |- _ => rename H into Hb0 end.
    match goal with H : tget sy 0 = _ |- _ => rename H into Hy0 end.
    match goal with H : tget sy 1 = _ |- _ => rename H into Hy1 end.
    assert (HB : 0 < B) by lia.
    apply F2_two in Hx. destruct Hx as (a & b & -> & Ha & Hb).
    apply F2_two in Hdx. destruct Hdx as (da & db & -> & Hda & Hdb). apply F2_one in Hgy. destruct Hgy as (gy & -> & Hgy).
    cbn [nth]. unfold sized in *.
    set (p := matmul_contribs sa sb sy).
    pose proof (matmul_in_bounds sa sb sy d1 d2 d3 B eq_refl eq_refl eq_refl eq_refl Hva Hvb Hvy Hba Hbb) as Hbnd. fold p in Hbnd.
    (* the temporaries *)
    set (saF := mm_full sa sy). set (sbF := mm_full sb sy). set (sbT := mm_T sb). set (saT := mm_T sa).
    assert (HvaF : tvolume saF = d1 * d2) by apply vol2.
    assert (HvbF : tvolume sbF = d2 * d3) by (unfold sbF, mm_full; rewrite vol2, Hb0; reflexivity).
    assert (HvbT : tvolume sbT = d3 * d2) by (unfold sbT, mm_T; rewrite vol2, Hb0; reflexivity).
    assert (HvaT : tvolume saT = d2 * d1) by apply vol2.
    assert (HsbT1 : tget sbT 1 = d2) by exact Hb0.
    pose proof (matmul_in_bounds sy sbT saF d1 d3 d2 B Hy0 Hy1 HsbT1 eq_refl Hvy HvbT HvaF (or_intror eq_refl) Hbb) as HbndA.
    pose proof (matmul_in_bounds saT sy sbF d2 d1 d3 B eq_refl eq_refl Hy1 eq_refl HvaT Hvy HvbF Hba (or_intror eq_refl)) as HbndB.
    destruct (fold_adj sa saF (d1 * d2) B Hva HvaF eq_refl HB Hba) as (EA & HadjA & HEA).
    destruct (fold_adj sb sbF (d2 * d3) B Hvb HvbF eq_refl HB Hbb) as (EB & HadjB & HEB).
    set (tA := matmul_val sy sbT saF gy (transpose_val sb b)).
    set (tB := matmul_val saT sy sbF (transpose_val sa a) gy).
    assert (LtA : length tA = tsize saF).
    { unfold tA, matmul_val. rewrite incr_run_length', repeat_length; [reflexivity|]. rewrite repeat_length. unfold trip_fw.
      rewrite Forall_map. cbn [fst]. eapply Forall_impl; [|exact HbndA]. cbn. tauto. }
    assert (LtB : length tB = tsize sbF).
    { unfold tB, matmul_val. rewrite incr_run_length', repeat_length; [reflexivity|]. rewrite repeat_length. unfold trip_fw.
      rewrite Forall_map. cbn [fst]. eapply Forall_impl; [|exact HbndB]. cbn. tauto. }
    destruct (HadjA tA da LtA Hda) as (EqA & LA & LEA). destruct (HadjB tB db LtB Hdb) as (EqB & LB & LEB).
    cbv zeta. split; [|split].
    - cbn [OpFamily.dots]. rewrite EqA, EqB.
      (* the three pairings as sums over (b, k, i, j) *)
      assert (SJ : dot gy (incr_run R rO radd (trip_dfw R rO radd rmul p a b da db) (zeros (tsize sy)))
                   = radd (sumR (map (fun e => rmul (nth (fst e) gy rO) (rmul (nth (fst (snd e)) da rO) (nth (snd (snd e)) b rO))) p))
                          (sumR (map (fun e => rmul (nth (fst e) gy rO) (rmul (nth (fst (snd e)) a rO) (nth (snd (snd e)) db rO))) p))).
      { rewrite (dot_comm rO rI radd rmul rsub ropp Rth), (incr_dot rO rI radd rmul rsub ropp Rth _ (tsize sy) gy); [|
          unfold trip_dfw; rewrite Forall_map; cbn [fst]; eapply Forall_impl; [|exact Hbnd]; cbn; tauto|exact Hgy].
        unfold trip_dfw. rewrite map_map. cbn [fst snd]. rewrite <- (sumR_add rO rI radd rmul rsub ropp Rth).
        apply sumR_ext. intros e _. ring. }
      rewrite SJ.
      assert (SA : dot tA (EA da) = sumR (map (fun e => rmul (nth (fst e) gy rO) (rmul (nth (fst (snd e)) da rO) (nth (snd (snd e)) b rO))) p)).
      { unfold tA, matmul_val. rewrite (incr_dot rO rI radd rmul rsub ropp Rth _ (tsize saF) (EA da)); [|
          unfold trip_fw; rewrite Forall_map; cbn [fst]; eapply Forall_impl; [|exact HbndA]; cbn; tauto|exact LEA].
        unfold trip_fw. rewrite map_map. cbn [fst snd].
        rewrite (sum_contribs _ sy sbT saF d1 d3 d2 B Hy0 Hy1 HsbT1 eq_refl).
        unfold p. rewrite (sum_contribs _ sa sb sy d1 d2 d3 B eq_refl eq_refl eq_refl eq_refl).
        apply nsum_ext. intros bb Hbb'.
        (* loops (k' = j, i, j' = k)  ->  (k, i, j) *)
        rewrite (nsum_ext d2 _ (fun j => nsum d3 (fun k => nsum d1 (fun i =>
                   rmul (nth (bb * (d1 * d3) + i + k * d1) gy rO)
                        (rmul (nth (bsel sa bb * (d1 * d2) + i + j * d1) da rO) (nth (bsel sb bb * (d2 * d3) + j + k * d2) b rO)))))).
        2:{ intros j Hj. rewrite nsum_swap. apply nsum_ext. intros k Hk. apply nsum_ext. intros i Hi.
            unfold mm_entry. cbn [fst snd]. rewrite (bsel_full sy bb Hbb').
            assert (Hbs : bsel sbT bb = bsel sb bb) by reflexivity. rewrite Hbs.
            assert (Hlt : bsel sb bb < tbatch sb) by (apply (bsel_lt sb bb B); auto).
            rewrite (transpose_nth sb d2 d3 b j k (bsel sb bb) Hb0 eq_refl Hvb Hj Hk Hlt).
            replace (bb * (d1 * d2) + i + j * d1) with (bb * (d1 * d2) + (i + j * d1)) by lia.
            rewrite (HEA da bb (i + j * d1) Hda Hbb') by nia.
            replace (bsel sa bb * (d1 * d2) + (i + j * d1)) with (bsel sa bb * (d1 * d2) + i + j * d1) by lia. ring. }
        rewrite nsum_swap. apply nsum_ext. intros k Hk. rewrite nsum_swap. apply nsum_ext. intros i Hi. apply nsum_ext. intros j Hj.
        unfold mm_entry. cbn [fst snd]. reflexivity. }
      assert (SB : dot tB (EB db) = sumR (map (fun e => rmul (nth (fst e) gy rO) (rmul (nth (fst (snd e)) a rO) (nth (snd (snd e)) db rO))) p)).
      { unfold tB, matmul_val. rewrite (incr_dot rO rI radd rmul rsub ropp Rth _ (tsize sbF) (EB db)); [|
          unfold trip_fw; rewrite Forall_map; cbn [fst]; eapply Forall_impl; [|exact HbndB]; cbn; tauto|exact LEB].
        unfold trip_fw. rewrite map_map. cbn [fst snd].
        rewrite (sum_contribs _ saT sy sbF d2 d1 d3 B eq_refl eq_refl Hy1 eq_refl).
        unfold p. rewrite (sum_contribs _ sa sb sy d1 d2 d3 B eq_refl eq_refl eq_refl eq_refl).
        apply nsum_ext. intros bb Hbb'. apply nsum_ext. intros k Hk.
        (* loops (i'' = j, j'' = i) -> (i, j) *)
        rewrite nsum_swap. apply nsum_ext. intros i Hi. apply nsum_ext. intros j Hj.
        unfold mm_entry. cbn [fst snd]. rewrite (bsel_full sy bb Hbb').
        assert (Hbs : bsel saT bb = bsel sa bb) by reflexivity. rewrite Hbs.
        assert (Hlt : bsel sa bb < tbatch sa) by (apply (bsel_lt sa bb B); auto).
        rewrite (transpose_nth sa d1 d2 a i j (bsel sa bb) eq_refl eq_refl Hva Hi Hj Hlt).
        replace (bb * (d2 * d3) + j + k * d2) with (bb * (d2 * d3) + (j + k * d2)) by lia.
        rewrite (HEB db bb (j + k * d2) Hdb Hbb') by nia.
        replace (bsel sb bb * (d2 * d3) + (j + k * d2)) with (bsel sb bb * (d2 * d3) + j + k * d2) by lia. ring. }
      rewrite SA, SB. ring.
    - intros _. constructor; [exact LA|constructor; [exact LB|constructor]].
    - constructor; [|constructor]. unfold sized. rewrite incr_run_length', repeat_length; [reflexivity|].
      rewrite repeat_length. unfold trip_dfw. rewrite Forall_map. cbn [fst]. eapply Forall_impl; [|exact Hbnd]. cbn. tauto.
  Qed.
End MM.
