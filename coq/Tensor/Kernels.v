(* Executable model of the Naive backend's index arithmetic (devices/naive/ops/*.cc).
   Every kernel is modelled as the INDEX PROGRAM its loop nest generates, in loop order,
   using the same base/span/skip/repeat arithmetic as the C++:
     mov  = list (dst, (operand, src))          data movement      y[dst] := x_operand[src]
     acc  = list (dst, src)                     accumulation       gx[dst] += gy[src]
     red  = list (dst, list src)                reductions         y[dst] := fold over the srcs
     bil  = list (dst, list (ia, ib))           bilinear           y[dst] := sum a[ia]*b[ib]
   Indices are nat: all offsets the C++ forms are below the element count, which is < 2^32 by
   the Shape invariant (C09), so the uint32 arithmetic of the kernels is exact.
   No proofs in this file. *)
From Coq Require Import List Arith Bool.
Import ListNotations.

Record tshape := mkT { tdims : list nat; tbatch : nat }.

Definition tget (s : tshape) (i : nat) : nat := nth i (tdims s) 1.
Definition tdepth (s : tshape) : nat := length (tdims s).
Definition tvolume (s : tshape) : nat := fold_right Nat.mul 1 (tdims s).
Definition tlower (s : tshape) (d : nat) : nat := fold_right Nat.mul 1 (firstn d (tdims s)).
Definition tsize (s : tshape) : nat := tbatch s * tvolume s.
Definition thas_batch (s : tshape) : nat := if 1 <? tbatch s then 1 else 0.

Definition mov := list (nat * (nat * nat)).
Definition acc := list (nat * nat).
Definition red := list (nat * list nat).
Definition bil := list (nat * list (nat * nat)).

Definition range (n : nat) : list nat := seq 0 n.
Definition flat_map2 {A} (n : nat) (f : nat -> list A) : list A := flat_map f (range n).

(* ---- copy-like ---- *)
Definition identity_pairs (n : nat) : mov := map (fun i => (i, (0, i))) (range n).

(* slice_fw_impl(x, dim, offset, y) *)
Definition slice_fw (sx sy : tshape) (dim offset : nat) : mov :=
  let base := tlower sy dim in
  let span := base * tget sy dim in
  let skip := base * tget sx dim in
  let repeat := tsize sy / span in
  flat_map2 repeat (fun i =>
    map (fun j => (i * span + j, (0, base * offset + i * skip + j))) (range span)).

(* slice_bw_impl(gy, dim, offset, gx): gx[dst] += gy[src] *)
Definition slice_bw (sy sx : tshape) (dim offset : nat) : acc :=
  let base := tlower sx dim in
  let span := base * tget sy dim in
  let skip := base * tget sx dim in
  let repeat := tvolume sx / skip in
  let bs := Nat.max (tbatch sx) (tbatch sy) in
  let b_skip_d := thas_batch sx * tvolume sx in
  let b_skip_s := thas_batch sy * tvolume sy in
  flat_map2 bs (fun b =>
    flat_map2 repeat (fun i =>
      map (fun j => (base * offset + b * b_skip_d + i * skip + j,
                     b * b_skip_s + i * span + j)) (range span))).

(* pick_fw_impl(x, ids, dim, y) *)
Definition pick_fw (sx sy : tshape) (ids : list nat) (dim : nat) : mov :=
  let bs := tbatch sy in
  let skip_x := thas_batch sx * tvolume sx in
  let skip_i := if 1 <? length ids then 1 else 0 in
  let base := tlower sy dim in
  let skip := base * tget sx dim in
  let repeat := tvolume sy / base in
  flat_map2 bs (fun b =>
    flat_map2 repeat (fun i =>
      map (fun j => (b * (repeat * base) + i * base + j,
                     (0, b * skip_x + base * nth (b * skip_i) ids 0 + i * skip + j))) (range base))).

Definition pick_bw (sy sx : tshape) (ids : list nat) (dim : nat) : acc :=
  let bs := tbatch sy in
  let skip_x := thas_batch sx * tvolume sx in
  let skip_i := if 1 <? length ids then 1 else 0 in
  let base := tlower sy dim in
  let skip := base * tget sx dim in
  let repeat := tvolume sy / base in
  flat_map2 bs (fun b =>
    flat_map2 repeat (fun i =>
      map (fun j => (b * skip_x + base * nth (b * skip_i) ids 0 + i * skip + j,
                     b * (repeat * base) + i * base + j)) (range base))).

(* concat_fw_impl(xs, dim, y) *)
Fixpoint concat_loop (xs : list tshape) (k : nat) (offset : nat)
         (new_bs base skip repeat dim : nat) : mov :=
  match xs with
  | [] => []
  | sx :: rest =>
      let src_dim := tget sx dim in
      let span := base * src_dim in
      let b_skip := thas_batch sx * span * repeat in
      flat_map2 new_bs (fun b =>
        flat_map2 repeat (fun i =>
          map (fun j => (offset + (b * repeat + i) * skip + j,
                         (k, b * b_skip + i * span + j))) (range span)))
      ++ concat_loop rest (S k) (offset + span) new_bs base skip repeat dim
  end.

Definition concat_fw (xs : list tshape) (sy : tshape) (dim : nat) : mov :=
  let new_bs := tbatch sy in
  let base := tlower sy dim in
  let skip := base * tget sy dim in
  let repeat := tvolume sy / skip in
  concat_loop xs 0 0 new_bs base skip repeat dim.

(* broadcast_fw_impl(x, dim, size, y) *)
Definition broadcast_fw (sx sy : tshape) (dim size : nat) : mov :=
  let repeat := tsize sx in
  let skip1 := tlower sy dim in
  let skip2 := skip1 * size in
  flat_map2 repeat (fun i =>
    map (fun j => (i mod skip1 + (i / skip1) * skip2 + j * skip1, (0, i))) (range size)).

(* flip_fw_impl / flip_bw_impl share the index map *)
Definition flip_pairs (s : tshape) (dim : nat) : acc :=
  let n := tget s dim in
  let skip := tlower s dim in
  let r := tsize s / n in
  flat_map2 n (fun j =>
    map (fun i => let offset := i * n - (i mod skip) * (n - 1) in
                  (offset + j * skip, offset + (n - j - 1) * skip)) (range r)).

(* transpose_fw_impl(x, y) *)
Definition transpose_fw (sx sy : tshape) : mov :=
  let d1 := tget sx 0 in
  let d2 := tget sx 1 in
  let ms := d1 * d2 in
  let bs := tbatch sy in
  flat_map2 bs (fun k =>
    flat_map2 d2 (fun j =>
      map (fun i => (k * ms + j + i * d2, (0, k * ms + j * d1 + i))) (range d1))).

(* permute_dims: strides as in the C++ (stored reversed: x_strides[ndims-i-1]) *)
Fixpoint strides_loop (sx sy : tshape) (perm : list nat) (i ndims : nat) (xt yt : nat)
         (xs ys : list nat) (fuel : nat) : list nat * list nat :=
  match fuel with
  | O => (xs, ys)
  | S f =>
      let set (l : list nat) (p v : nat) := firstn p l ++ v :: skipn (S p) l in
      let xs' := set xs (ndims - i - 1) xt in
      let ys' := set ys (ndims - nth i perm 0 - 1) yt in
      strides_loop sx sy perm (S i) ndims (xt * tget sx i) (yt * tget sy i) xs' ys' f
  end.

Fixpoint permute_index (xs ys : list nat) (tmp j : nat) : nat :=
  match xs, ys with
  | xstr :: xs', ystr :: ys' =>
      let p := tmp / xstr in
      permute_index xs' ys' (tmp - p * xstr) (j + p * ystr)
  | _, _ => j
  end.

Definition permute_map (sx sy : tshape) (perm : list nat) : list (nat * nat) :=
  (* (i in x, j in y) for each sample-local element; bs copies with offset *)
  let volume := tvolume sx in
  let ndims := length perm in
  let '(xs, ys) := strides_loop sx sy perm 0 ndims 1 1 (repeat 0 ndims) (repeat 0 ndims) ndims in
  flat_map2 (tbatch sx) (fun k =>
    map (fun i => (k * volume + i, k * volume + permute_index xs ys i 0)) (range volume)).

Definition permute_fw (sx sy : tshape) (perm : list nat) : mov :=
  map (fun p => (snd p, (0, fst p))) (permute_map sx sy perm).
Definition permute_bw (sx sy : tshape) (perm : list nat) : acc :=
  permute_map sx sy perm.       (* pgx[i] += pgy[j] *)

Definition batch_pick_fw (sx sy : tshape) (ids : list nat) : mov :=
  let bs := tbatch sy in
  let span := tvolume sx in
  flat_map2 bs (fun b => map (fun j => (b * span + j, (0, span * nth b ids 0 + j))) (range span)).
Definition batch_pick_bw (sy sx : tshape) (ids : list nat) : acc :=
  let bs := tbatch sy in
  let span := tvolume sx in
  flat_map2 bs (fun b => map (fun j => (span * nth b ids 0 + j, b * span + j)) (range span)).

Definition batch_slice_fw (sx sy : tshape) (offset : nat) : mov :=
  let volume := tvolume sy in
  map (fun j => (j, (0, volume * offset + j))) (range (volume * tbatch sy)).
Definition batch_slice_bw (sy sx : tshape) (offset : nat) : acc :=
  let volume := tvolume sy in
  map (fun j => (volume * offset + j, j)) (range (volume * tbatch sy)).

Fixpoint batch_concat_loop (xs : list tshape) (k offset : nat) : mov :=
  match xs with
  | [] => []
  | sx :: rest =>
      map (fun j => (offset + j, (k, j))) (range (tsize sx))
      ++ batch_concat_loop rest (S k) (offset + tsize sx)
  end.
Definition batch_concat_fw (xs : list tshape) : mov := batch_concat_loop xs 0 0.

(* ---- reductions: sum / max / min / logsumexp / argmax / argmin share the index nest ---- *)
Definition axis_red (sx sy : tshape) (dim : nat) : red :=
  let n := tget sx dim in
  let repeat := tsize sy in
  let skip1 := tlower sy dim in
  let skip2 := skip1 * n in
  map (fun i => (i, map (fun j => i mod skip1 + (i / skip1) * skip2 + j * skip1) (range n)))
      (range repeat).

(* argmax_impl: repeat = s.size() / n over the INPUT shape *)
Definition arg_red (sx : tshape) (dim : nat) : red :=
  let n := tget sx dim in
  let repeat := tsize sx / n in
  let skip1 := tlower sx dim in
  let skip2 := skip1 * n in
  map (fun i => (i, map (fun j => i mod skip1 + (i / skip1) * skip2 + j * skip1) (range n)))
      (range repeat).

Definition batch_sum_red (sx sy : tshape) : red :=
  let bs := tbatch sx in
  let size := tsize sy in
  map (fun i => (i, map (fun b => i + b * size) (range bs))) (range size).

(* ---- elementwise with minibatch broadcasting (CPUDEV_FW_AB / CPUDEV_FW_X_SCALAR) ---- *)
Definition ab_fw (sa sb sy : tshape) : list (nat * (nat * nat)) :=
  let size := tvolume sy in
  let bs := tbatch sy in
  let skip_a := thas_batch sa * size in
  let skip_b := thas_batch sb * size in
  flat_map2 bs (fun b => map (fun i => (b * size + i, (b * skip_a + i, b * skip_b + i))) (range size)).

Definition scalar_fw (sx sk sy : tshape) : list (nat * (nat * nat)) :=
  let size := tvolume sy in
  let bs := tbatch sy in
  let skip_x := thas_batch sx * size in
  let skip_k := thas_batch sk in
  flat_map2 bs (fun b => map (fun i => (b * size + i, (b * skip_x + i, b * skip_k))) (range size)).

(* add_bw_impl etc.: for each gy element, the ga and gb slots that receive an increment *)
Definition ab_bw (sga sgb sgy : tshape) : list (nat * (nat * nat)) :=
  let size := tvolume sgy in
  let bs := tbatch sgy in
  let skip_a := thas_batch sga * size in
  let skip_b := thas_batch sgb * size in
  flat_map2 bs (fun b => map (fun i => (b * size + i, (b * skip_a + i, b * skip_b + i))) (range size)).

(* inplace_add_impl(x, y): y[dst] += x[src] *)
Definition inplace_add (sx sy : tshape) : acc :=
  let size := tvolume sy in
  let bs := Nat.max (tbatch sx) (tbatch sy) in
  let b_skip_d := thas_batch sy * size in
  let b_skip_s := thas_batch sx * size in
  flat_map2 bs (fun b => map (fun i => (b * b_skip_d + i, b * b_skip_s + i)) (range size)).

(* ---- matmul_fw_impl: 8x8x8 blocking, contributions in loop order ---- *)
Definition blocks (n : nat) : list (nat * nat) :=
  map (fun q => (q * 8, Nat.min (q * 8 + 8) n)) (range ((n + 7) / 8)).
Definition from_to (a b : nat) : list nat := seq a (b - a).

(* list of (dst, (ia, ib)) single contributions in the order the C++ adds them *)
Definition matmul_contribs (sa sb sy : tshape) : list (nat * (nat * nat)) :=
  let d1 := tget sa 0 in
  let d2 := tget sa 1 in
  let d3 := tget sb 1 in
  let bs := tbatch sy in
  let dest_shift := d1 * d3 in
  let a_shift := thas_batch sa * d1 * d2 in
  let b_shift := thas_batch sb * d2 * d3 in
  flat_map2 bs (fun b =>
    flat_map (fun kb => flat_map (fun ib => flat_map (fun jb =>
      flat_map (fun kk => flat_map (fun ii => map (fun jj =>
        (b * dest_shift + ii + kk * d1,
         (b * a_shift + ii + jj * d1, b * b_shift + jj + kk * d2)))
        (from_to (fst jb) (snd jb))) (from_to (fst ib) (snd ib))) (from_to (fst kb) (snd kb)))
      (blocks d2)) (blocks d1)) (blocks d3)).

(* ---- conv2d_fw_impl / conv2d_bw_impl: the (y_addr, x_addr, w_addr) triples visited ---- *)
Definition conv2d_triples (sx sw sy : tshape) (p0 p1 s0 s1 d0 d1 : nat)
  : list (nat * (nat * nat)) :=
  let xh := tget sx 0 in let xw := tget sx 1 in let xc := tget sx 2 in
  let wh := tget sw 0 in let ww := tget sw 1 in
  let yh := tget sy 0 in let yw := tget sy 1 in let yc := tget sy 2 in
  let bs := tbatch sy in
  let x_shift := thas_batch sx * tvolume sx in
  let w_shift := thas_batch sw * tvolume sw in
  let y_shift := tvolume sy in
  flat_map2 bs (fun bn =>
    flat_map2 yc (fun y_c => flat_map2 yw (fun y_x => flat_map2 yh (fun y_y =>
      let y_addr := (y_c * yw + y_x) * yh + y_y in
      flat_map2 xc (fun x_c => flat_map2 ww (fun w_x => flat_map2 wh (fun w_y =>
        let w_x_inv := ww - 1 - w_x in
        let w_y_inv := wh - 1 - w_y in
        (* x_y = -padding0 + y_y*stride0 + w_y*dilation0 as a signed value *)
        let ty := y_y * s0 + w_y * d0 in
        let tx := y_x * s1 + w_x * d1 in
        if (p0 <=? ty) && (ty - p0 <? xh) && (p1 <=? tx) && (tx - p1 <? xw) then
          let x_addr := (x_c * xw + (tx - p1)) * xh + (ty - p0) in
          let w_addr := ((y_c * xc + x_c) * ww + w_x_inv) * wh + w_y_inv in
          [(bn * y_shift + y_addr, (bn * x_shift + x_addr, bn * w_shift + w_addr))]
        else []))))))).

(* ---- max_pool2d: for each output address the candidate input addresses in scan order ---- *)
Definition pool2d_red (sx sy : tshape) (w0 w1 p0 p1 s0 s1 : nat) : red :=
  let xh := tget sx 0 in let xw := tget sx 1 in
  let yh := tget sy 0 in let yw := tget sy 1 in
  let x_shift := xh * xw in
  let y_shift := yh * yw in
  let repeat := tsize sx / x_shift in
  flat_map2 repeat (fun r => flat_map2 yw (fun y_x => map (fun y_y =>
    (r * y_shift + y_x * yh + y_y,
     flat_map2 w1 (fun w_x =>
       let tx := y_x * s1 + w_x in
       if (p1 <=? tx) && (tx - p1 <? xw) then
         flat_map2 w0 (fun w_y =>
           let ty := y_y * s0 + w_y in
           if (p0 <=? ty) && (ty - p0 <? xh) then [r * x_shift + (tx - p1) * xh + (ty - p0)] else [])
       else []))) (range yh))).
