(* front_end_guards_sound_<entry>, reductions / flip / transpose / permute_dims: the Device front
   end (Tensor/FrontEnd.v) establishes the Section hypotheses of ProofsPerm.v. *)
From Coq Require Import List NArith Bool Lia Arith Permutation.
From PV Require Import Base.U32 Shape.ShapeImpl Shape.ShapeSpec Shape.ShapeLemmas Shape.ShapeProofs
  Shape.ShapeRules Fault.Guards Tensor.Kernels Tensor.Index Tensor.KernelProofs Tensor.ProofsGather
  Tensor.ProofsPerm Tensor.FrontEnd Tensor.FrontEndBridge Tensor.FrontEndGather.
Import ListNotations.

(* ================================================================== sum/max/min/logsumexp_fw, max_bw/min_bw *)
(* Section AxisRed of ProofsPerm.v *)
Definition axis_red_pre (sx sy : tshape) (dim : nat) : Prop :=
  (exists R, tsize sy = tlower sy dim * R /\ tsize sx = tlower sy dim * tget sx dim * R) /\
  0 < tlower sy dim.

Lemma axis_red_pre_safe sx sy dim : axis_red_pre sx sy dim ->
  sequential (axis_red sx sy dim) (tsize sy) /\ red_in_bounds (axis_red sx sy dim) (tsize sx).
Proof.
  intros [[R [Hsy Hsx]] Hb0].
  split; [exact (axis_red_sequential sx sy dim _ _ R eq_refl eq_refl Hsy)|].
  exact (axis_red_in_bounds sx sy dim _ _ R eq_refl eq_refl Hsy Hsx Hb0).
Qed.

Lemma reduce_rule_pre x dim y : wf x -> u32 dim -> resize_dim x dim 1 = Some y ->
  wf y /\ axis_red_pre (to_t x) (to_t y) (N.to_nat dim).
Proof.
  intros Hx Hd H. pose proof (reduce_spec x dim Hx Hd) as S. unfold reduce in S. rewrite H in S.
  destruct S as [_ [Wy [Hb Hg]]]. split; [exact Wy|].
  destruct (axis_replaced_t x y dim 1%N Hg) as [Hl [Hu [Hgd Hv]]].
  split; [|apply tlower_pos, twf_to_t, Wy].
  exists (tupper (to_t x) (N.to_nat dim) * tbatch (to_t x)). rewrite Hl. split.
  - unfold tsize. rewrite Hv, !tbatch_to_t, Hb. change (N.to_nat 1) with 1. lia.
  - apply tsize_axis.
Qed.

Theorem front_end_guards_sound_reduce_fw x dim y : wf x -> u32 dim -> fe_reduce_fw x dim = Some y ->
  wf y /\ axis_red_pre (to_t x) (to_t y) (N.to_nat dim).
Proof. exact (reduce_rule_pre x dim y). Qed.

Theorem front_end_guards_sound_reduce_bw x y gy dim gx :
  wf x -> wf y -> wf gy -> wf gx -> u32 dim -> fe_reduce_bw x y gy dim gx = Some tt ->
  gx = x /\ gy = y /\ axis_red_pre (to_t x) (to_t y) (N.to_nat dim).
Proof.
  intros Hx Hy Hgy Hgx Hd H. unfold fe_reduce_bw in H.
  destruct (resize_dim x dim 1) as [s|] eqn:Er; [|discriminate].
  destruct (reduce_rule_pre x dim s Hx Hd Er) as [Ws P].
  destruct (shape_neb gx x) eqn:E1; [discriminate|].
  destruct (shape_neb y s) eqn:E2; [discriminate|].
  destruct (shape_neb gy s) eqn:E3; [discriminate|].
  apply (shape_neb_false gx x Hgx Hx) in E1. apply (shape_neb_false y s Hy Ws) in E2.
  apply (shape_neb_false gy s Hgy Ws) in E3. subst. auto.
Qed.

(* ================================================================== argmax / argmin (device.cc:58-66) *)
(* Section ArgRed of ProofsPerm.v: holds for every well-formed x and EVERY uint32 dim *)
Definition arg_red_pre (sx : tshape) (dim : nat) (R : nat) : Prop :=
  tsize sx = tlower sx dim * tget sx dim * R /\ 0 < tlower sx dim /\ 0 < tget sx dim.

Lemma arg_red_pre_safe sx dim R : arg_red_pre sx dim R ->
  sequential (arg_red sx dim) (tlower sx dim * R) /\ red_in_bounds (arg_red sx dim) (tsize sx).
Proof.
  intros [Hs [Hb0 Hn0]].
  split; [exact (arg_red_sequential sx dim _ _ R eq_refl eq_refl Hs Hb0 Hn0)|].
  exact (arg_red_in_bounds sx dim _ _ R eq_refl eq_refl Hs Hb0 Hn0).
Qed.

Theorem front_end_guards_sound_argmax x dim : wf x -> fe_argmax x dim = Some tt ->
  arg_red_pre (to_t x) (N.to_nat dim) (tupper (to_t x) (N.to_nat dim) * tbatch (to_t x)).
Proof.
  intros Hx _. split; [apply tsize_axis|]. split; [apply tlower_pos, twf_to_t, Hx|apply tget_pos, Hx].
Qed.

(* ================================================================== batch_sum_fw (device.cc:656-661) *)
(* Section BatchSum of ProofsPerm.v *)
Definition batch_sum_pre (sx sy : tshape) : Prop := tsize sx = tsize sy * tbatch sx.

Lemma batch_sum_pre_safe sx sy : batch_sum_pre sx sy ->
  sequential (batch_sum_red sx sy) (tsize sy) /\ red_in_bounds (batch_sum_red sx sy) (tsize sx).
Proof.
  intro H. split; [exact (batch_sum_sequential sx sy _ _ eq_refl eq_refl)|].
  exact (batch_sum_in_bounds sx sy _ _ eq_refl eq_refl H).
Qed.

Theorem front_end_guards_sound_batch_sum_fw x y : wf x -> fe_batch_sum_fw x = Some y ->
  wf y /\ batch_sum_pre (to_t x) (to_t y).
Proof.
  intros Hx H. pose proof (ShapeRules.batch_sum_spec x Hx) as S. unfold batch_sum in S.
  unfold fe_batch_sum_fw in H. rewrite H in S. destruct S as [Wy [Hb Hg]]. split; [exact Wy|].
  destruct (same_dims_t y x Hg) as [_ Hv]. unfold batch_sum_pre, tsize.
  rewrite Hv, (tbatch_to_t y), Hb. change (N.to_nat 1) with 1. lia.
Qed.

(* ================================================================== flip_fw / flip_bw (device.cc:535-551) *)
(* Section Flip of ProofsPerm.v: no guard on dim is needed, the hypotheses hold for every uint32 dim *)
Definition flip_pre (s : tshape) (dim : nat) : Prop :=
  (exists R, tsize s = tlower s dim * tget s dim * R) /\ 0 < tlower s dim /\ 0 < tget s dim.

Lemma flip_pre_safe s dim : flip_pre s dim ->
  covers (flip_pairs s dim) (tsize s) /\ acc_in_bounds (flip_pairs s dim) (tsize s) (tsize s).
Proof.
  intros [[R Hs] [Hs0 Hn0]].
  split; [exact (flip_pairs_covers s dim _ _ R eq_refl eq_refl Hs Hs0 Hn0)|].
  exact (flip_pairs_in_bounds s dim _ _ R eq_refl eq_refl Hs Hs0 Hn0).
Qed.

Lemma flip_pre_wf x dim : wf x -> flip_pre (to_t x) (N.to_nat dim).
Proof.
  intro Hx. split; [eexists; apply tsize_axis|].
  split; [apply tlower_pos, twf_to_t, Hx|apply tget_pos, Hx].
Qed.

Theorem front_end_guards_sound_flip_fw x dim y : wf x -> fe_flip_fw x dim = Some y ->
  y = x /\ flip_pre (to_t x) (N.to_nat dim).
Proof. intros Hx H. unfold fe_flip_fw in H. injection H as <-. split; [reflexivity|apply flip_pre_wf, Hx]. Qed.

Theorem front_end_guards_sound_flip_bw gy dim gx : wf gy -> wf gx -> fe_flip_bw gy dim gx = Some tt ->
  gy = gx /\ flip_pre (to_t gx) (N.to_nat dim).
Proof.
  intros Hy Hx H. unfold fe_flip_bw in H. destruct (shape_neb gy gx) eqn:E; [discriminate|].
  apply (shape_neb_false gy gx Hy Hx) in E. split; [exact E|apply flip_pre_wf, Hx].
Qed.

(* ================================================================== transpose_fw / transpose_bw (device.cc:318, 338) *)
(* Section Transpose of ProofsPerm.v *)
Definition transpose_pre (sx sy : tshape) : Prop :=
  tsize sx = tget sx 0 * tget sx 1 * tbatch sy /\ tsize sy = tget sx 1 * tget sx 0 * tbatch sy.

Lemma transpose_pre_safe sx sy : transpose_pre sx sy ->
  covers (transpose_fw sx sy) (tsize sy) /\ mov_in_bounds (transpose_fw sx sy) [tsize sx].
Proof.
  intros [Hsx Hsy].
  split; [exact (transpose_fw_covers sx sy _ _ _ eq_refl eq_refl eq_refl Hsx Hsy)|].
  exact (transpose_fw_in_bounds sx sy _ _ _ eq_refl eq_refl eq_refl Hsx).
Qed.

Lemma transpose_rule_pre x y : wf x -> ShapeImpl.transpose x = Some y ->
  wf y /\ transpose_pre (to_t x) (to_t y) /\ batch y = batch x /\
  (forall i, get y i = if (i =? 0)%N then get x 1 else if (i =? 1)%N then get x 0 else 1%N) /\
  (depth x <= 2)%N.
Proof.
  intros Hx H. pose proof (transpose_spec x Hx) as S. rewrite H in S.
  destruct S as [Adm [Wy [Hb Hg]]]. unfold transpose_admissible in Adm.
  split; [exact Wy|]. split; [|auto].
  assert (Hvx : tvolume (to_t x) = tget (to_t x) 0 * tget (to_t x) 1).
  { apply tvolume_depth2. exact (tget_beyond x 2 Hx Adm). }
  assert (Hvy : tvolume (to_t y) = tget (to_t y) 0 * tget (to_t y) 1).
  { apply tvolume_depth2. intros i Hi. apply tget_one_of_get. rewrite Hg.
    destruct (N.eqb_spec (N.of_nat i) 0); [lia|]. destruct (N.eqb_spec (N.of_nat i) 1); [lia|reflexivity]. }
  assert (G0 : tget (to_t y) 0 = tget (to_t x) 1).
  { rewrite !tget_to_t. rewrite Hg. reflexivity. }
  assert (G1 : tget (to_t y) 1 = tget (to_t x) 0).
  { rewrite !tget_to_t. rewrite Hg. reflexivity. }
  unfold transpose_pre, tsize. rewrite Hvx, Hvy, G0, G1, !tbatch_to_t, Hb. split; lia.
Qed.

Theorem front_end_guards_sound_transpose_fw x y : wf x -> fe_transpose_fw x = Some y ->
  wf y /\ transpose_pre (to_t x) (to_t y).
Proof. intros Hx H. destruct (transpose_rule_pre x y Hx H) as [A [B _]]. auto. Qed.

(* transpose_bw_impl (naive/ops/transpose.cc:31-35) is inplace_add_impl(transpose_fw(gy), gx):
   a nested guarded front-end call followed by an UNGUARDED inplace_add_impl; both are fine *)
Theorem front_end_guards_sound_transpose_bw x y gy gx :
  wf x -> wf y -> wf gy -> wf gx -> fe_transpose_bw x y gy gx = Some tt ->
  x = gx /\ y = gy /\
  exists t, fe_transpose_fw gy = Some t /\ wf t /\ transpose_pre (to_t gy) (to_t t) /\
            inplace_add_pre (to_t t) (to_t gx).
Proof.
  intros Hx Hy Hgy Hgx H. unfold fe_transpose_bw, fe_bw_x in H.
  destruct (shape_neb x gx) eqn:E1; [discriminate|].
  destruct (shape_neb y gy) eqn:E2; [discriminate|].
  destruct (ShapeImpl.transpose x) as [s|] eqn:Et; [|discriminate].
  destruct (transpose_rule_pre x s Hx Et) as [Ws [_ [Hb [Hg Hd]]]].
  destruct (shape_neb y s) eqn:E3; [discriminate|].
  apply (shape_neb_false x gx Hx Hgx) in E1. apply (shape_neb_false y gy Hy Hgy) in E2.
  apply (shape_neb_false y s Hy Ws) in E3. subst gx gy s.
  split; [reflexivity|]. split; [reflexivity|].
  (* y is a matrix, so its own transpose is accepted *)
  pose proof (transpose_spec y Hy) as S2.
  destruct (ShapeImpl.transpose y) as [t|] eqn:Et2.
  - destruct (transpose_rule_pre y t Hy Et2) as [Wt [Pt [Hbt [Hgt _]]]].
    exists t. split; [exact Et2|]. split; [exact Wt|]. split; [exact Pt|].
    assert (Hsame : forall i, get t i = get x i).
    { intro i. rewrite Hgt, !Hg. cbn [N.eqb].
      destruct (N.eqb_spec i 0) as [->|N0]; [reflexivity|].
      destruct (N.eqb_spec i 1) as [->|N1]; [reflexivity|].
      symmetry. apply get_overflow. lia. }
    destruct (same_dims_t t x Hsame) as [_ Hv].
    split; [exact Hv|]. rewrite !tbatch_to_t, Hbt, Hb.
    split; [left; reflexivity|]. pose proof (wf_batch _ Hx). split; lia.
  - exfalso. apply S2. unfold transpose_admissible.
    apply (proj2 (depth_le_iff y 2 Hy)). intros i Hi. rewrite Hg.
    destruct (N.eqb_spec i 0); [lia|]. destruct (N.eqb_spec i 1); [lia|reflexivity].
Qed.

(* ================================================================== permute_dims_fw / _bw (device.cc:320-326, 340-358) *)
(* Section Permute of ProofsPerm.v *)
Definition permute_pre (sx sy : tshape) (perm : list nat) : Prop :=
  Permutation perm (seq 0 (length perm)) /\ twf sx /\ tdepth sx <= length perm /\
  tdepth sy <= length perm /\ (forall b, b < length perm -> tget sy b = tget sx (nth b perm 0)) /\
  twf sy /\ tbatch sy = tbatch sx.

Lemma permute_pre_safe sx sy perm : permute_pre sx sy perm ->
  covers (permute_fw sx sy perm) (tsize sy) /\ mov_in_bounds (permute_fw sx sy perm) [tsize sx] /\
  acc_in_bounds (permute_bw sx sy perm) (tsize sx) (tsize sy).
Proof.
  intros [Hp [Wx [Hdx [Hdy [Hdims [Wy Hbat]]]]]].
  split; [exact (permute_fw_covers sx sy perm _ eq_refl Hp Wx Hdx Hdy Hdims Wy Hbat)|].
  split; [exact (permute_fw_in_bounds sx sy perm _ eq_refl Hp Wx Hdx Hdy Hdims Wy Hbat)|].
  exact (permute_bw_in_bounds sx sy perm _ eq_refl Hp Wx Hdx Hdy Hdims Wy Hbat).
Qed.

Lemma nth_map_to_nat0 l i : nth i (map N.to_nat l) 0 = N.to_nat (nth i l 0%N).
Proof. exact (map_nth N.to_nat l 0%N i). Qed.

Lemma permute_rule_pre x perm y : wf x -> Forall u32 perm -> permute_dims x perm = Some y ->
  wf y /\ permute_pre (to_t x) (to_t y) (nids perm).
Proof.
  intros Hx Hp H. pose proof (permute_dims_spec x perm Hx Hp) as S. rewrite H in S.
  destruct S as [[A1 [A2 [A3 A4]]] [Wy [Hb Hg]]]. split; [exact Wy|].
  unfold permute_pre, nids. rewrite map_length.
  split; [apply perm_is_permutation; assumption|].
  split; [apply twf_to_t, Hx|]. split; [rewrite tdepth_to_t; lia|].
  split.
  { rewrite tdepth_to_t.
    assert (depth y <= N.of_nat (length perm))%N; [|lia].
    apply (proj2 (depth_le_iff y _ Wy)). intros i Hi. rewrite Hg.
    destruct (N.ltb_spec i (N.of_nat (length perm))); [lia|reflexivity]. }
  split.
  { intros b Hlt. rewrite tget_to_t, Hg.
    destruct (N.ltb_spec (N.of_nat b) (N.of_nat (length perm))) as [_|Hge]; [|lia].
    rewrite Nat2N.id, nth_map_to_nat0, tget_to_t_N. reflexivity. }
  split; [apply twf_to_t, Wy|rewrite !tbatch_to_t, Hb; reflexivity].
Qed.

Theorem front_end_guards_sound_permute_dims_fw x perm y :
  wf x -> Forall u32 perm -> fe_permute_dims_fw x perm = Some y ->
  wf y /\ permute_pre (to_t x) (to_t y) (nids perm).
Proof. exact (permute_rule_pre x perm y). Qed.

Theorem front_end_guards_sound_permute_dims_bw x y gy perm gx :
  wf x -> wf y -> wf gy -> wf gx -> Forall u32 perm -> fe_permute_dims_bw x y gy perm gx = Some tt ->
  gx = x /\ gy = y /\ permute_pre (to_t x) (to_t y) (nids perm).
Proof.
  intros Hx Hy Hgy Hgx Hp H. unfold fe_permute_dims_bw in H.
  destruct (permute_dims x perm) as [s|] eqn:Er; [|discriminate].
  destruct (permute_rule_pre x perm s Hx Hp Er) as [Ws P].
  destruct (shape_neb y s) eqn:E1; [discriminate|].
  destruct (shape_neb gy s) eqn:E2; [discriminate|].
  destruct (shape_neb gx x) eqn:E3; [discriminate|].
  apply (shape_neb_false y s Hy Ws) in E1. apply (shape_neb_false gy s Hgy Ws) in E2.
  apply (shape_neb_false gx x Hgx Hx) in E3. subst. auto.
Qed.

(* ================================================================== `_safe` corollaries *)
Corollary reduce_fw_safe x dim y : wf x -> u32 dim -> fe_reduce_fw x dim = Some y ->
  sequential (axis_red (to_t x) (to_t y) (N.to_nat dim)) (tsize (to_t y)) /\
  red_in_bounds (axis_red (to_t x) (to_t y) (N.to_nat dim)) (tsize (to_t x)).
Proof.
  intros Hx Hd H. destruct (front_end_guards_sound_reduce_fw x dim y Hx Hd H) as [_ P].
  exact (axis_red_pre_safe _ _ _ P).
Qed.

Corollary reduce_bw_safe x y gy dim gx :
  wf x -> wf y -> wf gy -> wf gx -> u32 dim -> fe_reduce_bw x y gy dim gx = Some tt ->
  sequential (axis_red (to_t x) (to_t y) (N.to_nat dim)) (tsize (to_t gy)) /\
  red_in_bounds (axis_red (to_t x) (to_t y) (N.to_nat dim)) (tsize (to_t gx)).
Proof.
  intros Hx Hy Hgy Hgx Hd H.
  destruct (front_end_guards_sound_reduce_bw x y gy dim gx Hx Hy Hgy Hgx Hd H) as [-> [-> P]].
  exact (axis_red_pre_safe _ _ _ P).
Qed.

Corollary flip_fw_safe x dim y : wf x -> fe_flip_fw x dim = Some y ->
  covers (flip_pairs (to_t x) (N.to_nat dim)) (tsize (to_t y)) /\
  acc_in_bounds (flip_pairs (to_t x) (N.to_nat dim)) (tsize (to_t y)) (tsize (to_t x)).
Proof.
  intros Hx H. destruct (front_end_guards_sound_flip_fw x dim y Hx H) as [-> P].
  exact (flip_pre_safe _ _ P).
Qed.

Corollary flip_bw_safe gy dim gx : wf gy -> wf gx -> fe_flip_bw gy dim gx = Some tt ->
  acc_in_bounds (flip_pairs (to_t gx) (N.to_nat dim)) (tsize (to_t gx)) (tsize (to_t gy)).
Proof.
  intros Hy Hx H. destruct (front_end_guards_sound_flip_bw gy dim gx Hy Hx H) as [-> P].
  apply (flip_pre_safe _ _ P).
Qed.

Corollary transpose_fw_safe x y : wf x -> fe_transpose_fw x = Some y ->
  covers (transpose_fw (to_t x) (to_t y)) (tsize (to_t y)) /\
  mov_in_bounds (transpose_fw (to_t x) (to_t y)) [tsize (to_t x)].
Proof.
  intros Hx H. destruct (front_end_guards_sound_transpose_fw x y Hx H) as [_ P].
  exact (transpose_pre_safe _ _ P).
Qed.

Corollary transpose_bw_safe x y gy gx :
  wf x -> wf y -> wf gy -> wf gx -> fe_transpose_bw x y gy gx = Some tt ->
  exists t, fe_transpose_fw gy = Some t /\
    covers (transpose_fw (to_t gy) (to_t t)) (tsize (to_t t)) /\
    mov_in_bounds (transpose_fw (to_t gy) (to_t t)) [tsize (to_t gy)] /\
    acc_in_bounds (inplace_add (to_t t) (to_t gx)) (tsize (to_t gx)) (tsize (to_t t)).
Proof.
  intros Hx Hy Hgy Hgx H.
  destruct (front_end_guards_sound_transpose_bw x y gy gx Hx Hy Hgy Hgx H) as [_ [_ [t [Et [Wt [Pt Pi]]]]]].
  exists t. split; [exact Et|]. destruct (transpose_pre_safe _ _ Pt) as [A B].
  split; [exact A|]. split; [exact B|]. apply (inplace_add_pre_safe _ _ Pi).
Qed.

Corollary permute_dims_fw_safe x perm y : wf x -> Forall u32 perm -> fe_permute_dims_fw x perm = Some y ->
  covers (permute_fw (to_t x) (to_t y) (nids perm)) (tsize (to_t y)) /\
  mov_in_bounds (permute_fw (to_t x) (to_t y) (nids perm)) [tsize (to_t x)].
Proof.
  intros Hx Hp H. destruct (front_end_guards_sound_permute_dims_fw x perm y Hx Hp H) as [_ P].
  destruct (permute_pre_safe _ _ _ P) as [A [B _]]. split; assumption.
Qed.

Corollary permute_dims_bw_safe x y gy perm gx :
  wf x -> wf y -> wf gy -> wf gx -> Forall u32 perm -> fe_permute_dims_bw x y gy perm gx = Some tt ->
  acc_in_bounds (permute_bw (to_t x) (to_t y) (nids perm)) (tsize (to_t gx)) (tsize (to_t gy)).
Proof.
  intros Hx Hy Hgy Hgx Hp H.
  destruct (front_end_guards_sound_permute_dims_bw x y gy perm gx Hx Hy Hgy Hgx Hp H) as [-> [-> P]].
  apply (permute_pre_safe _ _ _ P).
Qed.

Corollary argmax_safe x dim : wf x -> fe_argmax x dim = Some tt ->
  red_in_bounds (arg_red (to_t x) (N.to_nat dim)) (tsize (to_t x)).
Proof.
  intros Hx H. apply (arg_red_pre_safe _ _ _ (front_end_guards_sound_argmax x dim Hx H)).
Qed.

Corollary batch_sum_fw_safe x y : wf x -> fe_batch_sum_fw x = Some y ->
  sequential (batch_sum_red (to_t x) (to_t y)) (tsize (to_t y)) /\
  red_in_bounds (batch_sum_red (to_t x) (to_t y)) (tsize (to_t x)).
Proof.
  intros Hx H. destruct (front_end_guards_sound_batch_sum_fw x y Hx H) as [_ P].
  exact (batch_sum_pre_safe _ _ P).
Qed.
