(* C01: the operator constructors of real_family (Tensor/GraphInstR.v) <-> the operator classes with
   a BACKWARD body in primitiv/core/operator_impl.cc, as REGENERATED from the source on every run
   (Gen/BwTables.v, translate/gen_bwtables.py).  bw_table_is_family_names pins the exact list of
   classes: a new, removed or renamed BACKWARD body makes it fail, so an operator cannot silently
   fall outside the family the C01 theorems quantify over.  rop_cxx maps every constructor to the
   C++ class(es) it models (the BACKWARD_NOP leaves Constant / Identity / Random* are Input-like
   leaves; Positive has Copy's backward gx += gy; Flatten is Reshape; ReLU / LReLU are PReLU's
   kernel at k = 0, 0.01); family_names_sound / _complete: the two lists denote the same set. *)
From Coq Require Import List String Bool ZArith Reals.
From PV Require Import Tables.OpSyntax Gen.BwTables Tensor.Kernels Tensor.GraphInst Tensor.GraphInstR.
Import ListNotations.
Local Open Scope string_scope.

Definition core_cxx (c : @cop R) : list string :=
  match c with
  | OParam _ _ => ["Parameter"]
  | OInput _ _ => ["Input"; "Constant"; "Identity"; "RandomBernoulli"; "RandomUniform"; "RandomNormal"; "RandomLogNormal"]
  | OStop _ => ["StopGradient"]
  | OCopy _ => ["Copy"; "Positive"]
  | OAdd _ _ => ["Add"] | OSub _ _ => ["Subtract"] | OMul _ _ => ["Multiply"]
  | OSlice _ _ _ _ => ["Slice"] | OPick _ _ _ _ => ["Pick"]
  | OSum _ _ _ => ["Sum"] | OBroadcast _ _ _ _ => ["Broadcast"]
  | OFlip _ _ => ["Flip"] | OTranspose _ _ => ["Transpose"] | OPermute _ _ _ => ["PermuteDims"]
  | OReshape _ _ => ["Reshape"; "Flatten"]
  | OBatchSlice _ _ _ => ["BatchSlice"] | OBatchPick _ _ _ => ["BatchPick"] | OBatchSum _ _ => ["BatchSum"]
  | OSplit _ _ _ _ => ["Split"] | OBatchSplit _ _ _ => ["BatchSplit"]
  | OConv2d _ _ _ _ _ _ _ _ _ => ["Convolution2D"]
  | OBatchConcat _ _ => ["BatchConcat"] | OConcat _ _ _ => ["Concat"]
  | OMatmul _ _ _ => ["MatrixMultiply"]
  | OAddConst _ _ => ["AddConst"] | OSubConstR _ _ => ["SubtractConstR"] | OSubConstL _ _ => ["SubtractConstL"]
  | OMulConst _ _ => ["MultiplyConst"] | ONeg _ => ["Negative"]
  | OAddScalar _ _ => ["AddScalar"] | OSubScalarR _ _ => ["SubtractScalarR"] | OSubScalarL _ _ => ["SubtractScalarL"]
  | OMulScalar _ _ => ["MultiplyScalar"]
  end.
Definition un_name (u : unop) : string :=
  match u with UAbs => "Abs" | USqrt => "Sqrt" | UExp => "Exp" | ULog => "Log" | UTanh => "Tanh" | USigmoid => "Sigmoid"
             | USoftplus => "Softplus" | USin => "Sin" | UCos => "Cos" | UTan => "Tan" end.
Definition k_name (c : kop) : string :=
  match c with KDivR => "DivideConstR" | KDivL => "DivideConstL" | KPowR => "PowConstR" | KPowL => "PowConstL"
             | KPReLU => "PReLU" | KELU => "ELU" end.
Definition rop_cxx (o : rop) : list string :=
  match o with
  | RCore c => core_cxx c
  | RUn u _ => [un_name u]
  | RK c _ _ => [k_name c]
  | RReLU _ => ["ReLU"] | RLReLU _ => ["LReLU"] | RPowN _ _ => ["PowN"]
  | RBin BDivide _ _ => ["Divide"] | RBin BPow _ _ => ["Pow"]
  | RMax _ _ _ => ["Max"] | RMin _ _ _ => ["Min"]
  | RLogSumExp _ _ _ => ["LogSumExp"] | RSCE _ _ _ => ["SoftmaxCrossEntropy"]
  | RSparseSCE _ _ _ _ => ["SparseSoftmaxCrossEntropy"]
  | RMaxPool _ _ _ _ _ _ _ _ => ["MaxPooling2D"]
  | RDivScalarR _ _ => ["DivideScalarR"] | RDivScalarL _ _ => ["DivideScalarL"]
  | RPowScalarR _ _ => ["PowScalarR"] | RPowScalarL _ _ => ["PowScalarL"]
  | RSCEb _ _ _ _ _ => ["SoftmaxCrossEntropy"] | RSparseSCEb _ _ _ _ _ => ["SparseSoftmaxCrossEntropy"]
  end.

(* the operator classes of operator_impl.cc, in source order *)
Definition family_names : list string :=
  ["Input"; "Parameter"; "Copy"; "Constant"; "Identity"; "RandomBernoulli"; "RandomUniform"; "RandomNormal"; "RandomLogNormal"; "Pick"; "Slice"; "Split"; "Concat"; "Reshape"; "Flatten"; "Positive"; "Negative"; "Abs"; "Sqrt"; "Exp"; "Log"; "Tanh"; "Sigmoid"; "Softplus"; "Sin"; "Cos"; "Tan"; "ReLU"; "LReLU"; "Transpose"; "PermuteDims"; "AddConst"; "SubtractConstR"; "SubtractConstL"; "MultiplyConst"; "DivideConstR"; "DivideConstL"; "PowConstR"; "PowConstL"; "PReLU"; "ELU"; "PowN"; "AddScalar"; "SubtractScalarR"; "SubtractScalarL"; "MultiplyScalar"; "DivideScalarR"; "DivideScalarL"; "PowScalarR"; "PowScalarL"; "Add"; "Subtract"; "Multiply"; "Divide"; "Pow"; "MatrixMultiply"; "Flip"; "Max"; "Min"; "Sum"; "LogSumExp"; "Broadcast"; "BatchPick"; "BatchSlice"; "BatchSplit"; "BatchConcat"; "BatchSum"; "Convolution2D"; "MaxPooling2D"; "SoftmaxCrossEntropy"; "SparseSoftmaxCrossEntropy"; "StopGradient"].

(* the regenerated table lists exactly these classes *)
Theorem bw_table_is_family_names : map f_qual bw_methods = family_names.
Proof. vm_compute. reflexivity. Qed.

Definition mem_str (n : string) (l : list string) : bool := existsb (String.eqb n) l.
Lemma mem_str_In n l : mem_str n l = true <-> In n l.
Proof.
  unfold mem_str. rewrite existsb_exists. split.
  - intros (x & Hx & E). apply String.eqb_eq in E. subst. exact Hx.
  - intro H. exists n. split; [exact H|apply String.eqb_refl].
Qed.

(* every constructor models classes of the table *)
Theorem family_names_sound (o : rop) (n : string) : In n (rop_cxx o) -> In n family_names.
Proof.
  intro H. apply mem_str_In.
  assert (G : forallb (fun m => mem_str m family_names) (rop_cxx o) = true).
  { destruct o as [c|u s|c s k|s|s|s k|b sa sb|sx sy dim|sx sy dim|sx sy dim|sx sy dim|sx sp ids dim|sx sy w0 w1 p0 p1 s0 s1|sx sk|sx sk|sx sk|sx sk|sx st srx sy dim|sx srx sp ids dim];
      try destruct c; try destruct u; try destruct b; reflexivity. }
  rewrite forallb_forall in G. apply G. exact H.
Qed.

(* every class of the table is modelled by a constructor: one representative each (dummy attributes) *)
Definition family_reps : list (string * rop) :=
  let s := mkT [] 1 in
  [("Input", RCore (OInput s []));
   ("Parameter", RCore (OParam 0 s));
   ("Copy", RCore (OCopy s));
   ("Constant", RCore (OInput s []));
   ("Identity", RCore (OInput s []));
   ("RandomBernoulli", RCore (OInput s []));
   ("RandomUniform", RCore (OInput s []));
   ("RandomNormal", RCore (OInput s []));
   ("RandomLogNormal", RCore (OInput s []));
   ("Pick", RCore (OPick s s [] 0));
   ("Slice", RCore (OSlice s s 0 0));
   ("Split", RCore (OSplit s s 0 1));
   ("Concat", RCore (OConcat [s] s 0));
   ("Reshape", RCore (OReshape s s));
   ("Flatten", RCore (OReshape s s));
   ("Positive", RCore (OCopy s));
   ("Negative", RCore (ONeg s));
   ("Abs", RUn UAbs s);
   ("Sqrt", RUn USqrt s);
   ("Exp", RUn UExp s);
   ("Log", RUn ULog s);
   ("Tanh", RUn UTanh s);
   ("Sigmoid", RUn USigmoid s);
   ("Softplus", RUn USoftplus s);
   ("Sin", RUn USin s);
   ("Cos", RUn UCos s);
   ("Tan", RUn UTan s);
   ("ReLU", RReLU s);
   ("LReLU", RLReLU s);
   ("Transpose", RCore (OTranspose s s));
   ("PermuteDims", RCore (OPermute s s []));
   ("AddConst", RCore (OAddConst s 0%R));
   ("SubtractConstR", RCore (OSubConstR s 0%R));
   ("SubtractConstL", RCore (OSubConstL s 0%R));
   ("MultiplyConst", RCore (OMulConst s 0%R));
   ("DivideConstR", RK KDivR s 0%R);
   ("DivideConstL", RK KDivL s 0%R);
   ("PowConstR", RK KPowR s 0%R);
   ("PowConstL", RK KPowL s 0%R);
   ("PReLU", RK KPReLU s 0%R);
   ("ELU", RK KELU s 0%R);
   ("PowN", RPowN s 0%Z);
   ("AddScalar", RCore (OAddScalar s s));
   ("SubtractScalarR", RCore (OSubScalarR s s));
   ("SubtractScalarL", RCore (OSubScalarL s s));
   ("MultiplyScalar", RCore (OMulScalar s s));
   ("DivideScalarR", RDivScalarR s s);
   ("DivideScalarL", RDivScalarL s s);
   ("PowScalarR", RPowScalarR s s);
   ("PowScalarL", RPowScalarL s s);
   ("Add", RCore (OAdd s s));
   ("Subtract", RCore (OSub s s));
   ("Multiply", RCore (OMul s s));
   ("Divide", RBin BDivide s s);
   ("Pow", RBin BPow s s);
   ("MatrixMultiply", RCore (OMatmul s s s));
   ("Flip", RCore (OFlip s 0));
   ("Max", RMax s s 0);
   ("Min", RMin s s 0);
   ("Sum", RCore (OSum s s 0));
   ("LogSumExp", RLogSumExp s s 0);
   ("Broadcast", RCore (OBroadcast s s 0 1));
   ("BatchPick", RCore (OBatchPick s s []));
   ("BatchSlice", RCore (OBatchSlice s s 0));
   ("BatchSplit", RCore (OBatchSplit s s 1));
   ("BatchConcat", RCore (OBatchConcat [s] s));
   ("BatchSum", RCore (OBatchSum s s));
   ("Convolution2D", RCore (OConv2d s s s 0 0 1 1 1 1));
   ("MaxPooling2D", RMaxPool s s 1 1 0 0 1 1);
   ("SoftmaxCrossEntropy", RSCE s s 0);
   ("SparseSoftmaxCrossEntropy", RSparseSCE s s [] 0);
   ("StopGradient", RCore (OStop s))].
Lemma family_reps_ok : map fst family_reps = family_names /\ forallb (fun nr => mem_str (fst nr) (rop_cxx (snd nr))) family_reps = true.
Proof. split; reflexivity. Qed.
Theorem family_names_complete (n : string) : In n family_names -> exists o, In n (rop_cxx o).
Proof.
  destruct family_reps_ok as (E & G). rewrite <- E. intro H. apply in_map_iff in H. destruct H as ((m & o) & <- & Hin).
  exists o. rewrite forallb_forall in G. apply mem_str_In. apply (G (m, o) Hin).
Qed.

(* hence: every operator class with a BACKWARD body in the regenerated table is an operator of real_family *)
Corollary bw_table_covered (n : string) : In n (map f_qual bw_methods) -> exists o, In n (rop_cxx o).
Proof. rewrite bw_table_is_family_names. apply family_names_complete. Qed.
