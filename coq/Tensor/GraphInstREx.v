(* Non-vacuity of the real-valued C01 theorems: y = log(exp(p)) * p over real_family, p a
   parameter of shape {2} at (1, 2): exp, log (non-polynomial, generated formulas) and multiply,
   with fan-out of the parameter.  The tape is written out with its stored values, every
   hypothesis of C01_backward_computes_derivative_real is established, the sweep is evaluated
   (the real operations stay symbolic), and the gradient added is 2 p = (2, 4).
   A second tape (ry_...) runs the graph model's lazy forward over max_pool2d, the Divide / Pow
   ...Scalar operators, the dense softmax cross entropy with x of batch 1 against a batch-2
   target and the sparse one with x of batch 1 under two index lists; its values and tangents
   are named constants (comparisons, pow, logsumexp stay symbolic), every hypothesis of
   C01_backward_computes_derivative_real is established and the theorem is applied (ry_applied). *)
From Coq Require Import List NArith ZArith Bool Arith Lia Reals Lra.
From Coquelicot Require Import Coquelicot.
From PV Require Import Graph.OpFamily Graph.Tape Graph.Lazy Graph.Backward Graph.TapeLemmas Graph.LazyProofs
  Graph.BackwardProofs Graph.ADProof Tensor.Kernels Tensor.Index Tensor.ProofsBilinear
  Scalar.ScalarBase Gen.ScalarGen Scalar.Stable Tensor.AdjCore Tensor.GraphInst Tensor.AdjMax Tensor.AdjSoftmax Tensor.AdjSoftmaxB
  Tensor.AdjScalarR Tensor.GraphInstR Tensor.AdjDeriv Tensor.TapeDeriv.
Import ListNotations.
Local Open Scope R_scope.

Definition rs2 : tshape := mkT [2%nat] 1.
Definition rVO : ValOps tshape (@OpFamily.vec R) := vec_ops (R := R) 0 1 Rplus tsize.
Definition rx_env : @env (@OpFamily.vec R) :=
  {| e_pval := fun _ => [1; 2]; e_pgrad := fun _ => [10; 20]; e_pos := fun _ => 0%N |}.
Definition rslot (v : option (list R)) : @slot tshape (@OpFamily.vec R) :=
  {| s_shape := rs2; s_dev := 0%nat; s_val := v; s_grad := None |}.
Definition rx_ops0 : list (@opinfo rop tshape (@OpFamily.vec R)) :=
  [ {| o_op := RCore (OParam 0 rs2); o_args := []; o_rets := [rslot None] |};                                  (* 0: p        *)
    {| o_op := RUn UExp rs2; o_args := [(0, 0)%nat]; o_rets := [rslot (Some [exp 1; exp 2])] |};              (* 1: exp p    *)
    {| o_op := RUn ULog rs2; o_args := [(1, 0)%nat]; o_rets := [rslot (Some [ln (exp 1); ln (exp 2)])] |};   (* 2: log      *)
    {| o_op := RCore (OMul rs2 rs2); o_args := [(2, 0); (0, 0)]%nat;
       o_rets := [rslot (Some [ln (exp 1) * 1; ln (exp 2) * 2])] |} ].                                         (* 3: (.) * p  *)
Definition rx_dp : nat -> @OpFamily.vec R := fun _ => [5; 7].
Definition rx_tan : nat * nat -> @OpFamily.vec R := val_at (real_tangents rx_ops0 rx_env rx_dp).
Definition rx_seeded := upd_ops rx_ops0 (3, 0)%nat (fun s => set_grad s (Some (vones rVO (s_shape s)))).

Ltac nth_casesR k H tac :=
  repeat (destruct k as [|k]; [cbn in H; injection H as <-; tac|]); try (destruct k; discriminate H).

Lemma rx_wf : wf_ops rx_ops0.
Proof.
  intros k oi H. nth_casesR k H ltac:(cbn; repeat constructor; cbn; try lia; eexists; (split; [reflexivity|cbn; lia])).
Qed.
Lemma rx_shape_ok : shape_ok real_family rx_ops0.
Proof.
  intros k oi H Hi.
  nth_casesR k H ltac:(try discriminate Hi;
    (eexists; split; [repeat (constructor; [eexists; split; reflexivity|]); constructor|reflexivity])).
Qed.
Lemma rx_consistent : consistent real_family real_jvp rx_tan rx_dp rx_ops0 rx_env.
Proof.
  intros k oi H.
  nth_casesR k H ltac:(cbn [o_op real_family desc_family f_inner o_rets]; try (split; reflexivity);
    (intros ys Hys; cbn in Hys; injection Hys as <-;
     eexists 0%N, _; split; [repeat (constructor; [reflexivity|]); constructor|split; reflexivity])).
Qed.
Lemma rx_rsized : rsized real_family tsize rx_tan rx_ops0 rx_env.
Proof.
  intros [k v] s H. unfold get_slot_ops in H. cbn [fst snd] in H.
  do 4 (destruct k as [|k];
        [destruct v as [|v]; [cbn in H; injection H as <-; split; [reflexivity|intros x [= <-]; reflexivity]|cbn in H; destruct v; discriminate H]|]).
  cbn in H. destruct k; discriminate H.
Qed.
Lemma rx_gclean : gclean rx_ops0.
Proof.
  intros [k v] s H. unfold get_slot_ops in H. cbn [fst snd] in H.
  do 4 (destruct k as [|k];
        [destruct v as [|v]; [cbn in H; injection H as <-; reflexivity|cbn in H; destruct v; discriminate H]|]).
  cbn in H. destruct k; discriminate H.
Qed.
Lemma rx_psz : psz real_family tsize rx_ops0 rx_env.
Proof.
  intros k oi p s H Hi Hs. nth_casesR k H ltac:(try discriminate Hi; cbn in Hs; injection Hs as <-; reflexivity).
Qed.
Lemma rx_cover k oi p : nth_error rx_ops0 k = Some oi -> f_inner real_family (o_op oi) = Some p -> In p [0%nat].
Proof. intros H Hi. nth_casesR k H ltac:(try discriminate Hi; cbn in Hi; injection Hi as <-; left; reflexivity). Qed.
Lemma rx_nodup : NoDup [0%nat].
Proof. constructor; [intros []|constructor]. Qed.
Lemma rx_lengths p : length (e_pval rx_env p) = length (rx_dp p).
Proof. reflexivity. Qed.
(* smooth domain: log is applied to exp 1, exp 2 > 0 *)
Lemma rx_smooth : real_smooth rx_ops0 rx_env.
Proof.
  unfold real_smooth. cbn [tape_of map rx_ops0 o_op o_args domT]. repeat split; try discriminate; try exact I;
    try (intros ? ?; exact I).
  intros i Hi. cbn in Hi. destruct i as [|[|i]]; [cbn -[exp]; apply exp_pos|cbn -[exp]; apply exp_pos|lia].
Qed.

(* the sweep, evaluated with the real operations kept symbolic *)
Definition rx_result := Eval cbv -[exp ln Rplus Rmult Rminus Ropp Rinv Rdiv IZR] in sweep real_family rVO 3 rx_seeded rx_env [].

(* d/dp (log(exp p) p) = p + log(exp p) = 2 p: (2, 4) is added to the prior gradient (10, 20) *)
Lemma rx_run : exists ops' e' bl',
  sweep real_family rVO 3 rx_seeded rx_env [] = Some (ops', e', bl') /\
  e_pgrad e' 0%nat = [12; 24] /\ bl' = [3; 2; 1; 0]%nat /\
  ppot 0 Rplus Rmult rx_dp [0%nat] e' = ppot 0 Rplus Rmult rx_dp [0%nat] rx_env + 38.
Proof.
  destruct rx_result as [[[ops' e'] bl']|] eqn:E; [|discriminate E].
  exists ops', e', bl'. split; [exact E|]. unfold rx_result in E. injection E as <- <- <-.
  split; [|split; [reflexivity|]].
  - cbn -[exp ln Rplus Rmult Rdiv IZR]. rewrite !ln_exp. pose proof (exp_pos 1). pose proof (exp_pos 2). f_equal; [field; lra|f_equal; field; lra].
  - cbn -[exp ln Rplus Rmult Rdiv IZR]. rewrite !ln_exp. pose proof (exp_pos 1). pose proof (exp_pos 2). field. lra.
Qed.

(* the guards of the operators that exist only in the real family are satisfiable: a batched
   {3} x 2 operand reduced / picked along axis 0, B-vs-1 Divide, Max, the softmax family *)
Lemma rx_guards :
  d_ok (describeR (RMax (mkT [3%nat] 2) (mkT [1%nat] 2) 0)) = true /\
  d_ok (describeR (RMin (mkT [2%nat; 3%nat] 1) (mkT [2%nat; 1%nat] 1) 1)) = true /\
  d_ok (describeR (RLogSumExp (mkT [3%nat] 2) (mkT [1%nat] 2) 0)) = true /\
  d_ok (describeR (RSCE (mkT [3%nat] 2) (mkT [1%nat] 2) 0)) = true /\
  d_ok (describeR (RSparseSCE (mkT [3%nat] 2) (mkT [1%nat] 2) [2%nat; 0%nat] 0)) = true /\
  d_ok (describeR (RSparseSCE (mkT [3%nat] 2) (mkT [1%nat] 2) [1%nat] 0)) = true /\
  d_ok (describeR (RBin BDivide (mkT [3%nat] 2) (mkT [3%nat] 1))) = true /\
  d_ok (describeR (RBin BPow (mkT [3%nat] 1) (mkT [3%nat] 4))) = true /\
  d_ok (describeR (RMaxPool (mkT [3%nat; 3%nat] 2) (mkT [2%nat; 2%nat] 2) 2 2 1 1 2 2)) = true /\
  d_ok (describeR (RDivScalarR (mkT [3%nat] 2) (mkT [] 1))) = true /\
  d_ok (describeR (RDivScalarL (mkT [3%nat] 1) (mkT [] 2))) = true /\
  d_ok (describeR (RPowScalarR (mkT [3%nat] 2) (mkT [] 2))) = true /\
  d_ok (describeR (RPowScalarL (mkT [2%nat; 2%nat] 1) (mkT [] 1))) = true /\
  d_ok (describeR (RSCEb (mkT [3%nat] 2) (mkT [3%nat] 1) (mkT [1%nat] 2) (mkT [1%nat] 2) 0)) = true /\
  d_ok (describeR (RSCEb (mkT [3%nat] 1) (mkT [3%nat] 2) (mkT [1%nat] 1) (mkT [1%nat] 2) 0)) = true /\
  d_ok (describeR (RSparseSCEb (mkT [3%nat] 1) (mkT [1%nat] 1) (mkT [1%nat] 2) [2%nat; 0%nat] 0)) = true.
Proof. repeat split; vm_compute; reflexivity. Qed.

(* ================================================================== a second tape: the operators added last *)
Definition s22 : tshape := mkT [2; 2]%nat 1.   Definition s11 : tshape := mkT [1; 1]%nat 1.
Definition s0 : tshape := mkT [] 1.            Definition s22b : tshape := mkT [2; 2]%nat 2.
Definition s12 : tshape := mkT [1; 2]%nat 1.   Definition s12b : tshape := mkT [1; 2]%nat 2.
Definition ry_env : @env (@OpFamily.vec R) :=
  {| e_pval := fun p => match p with O => [1; 2; 4; 3] | _ => [2] end;
     e_pgrad := fun p => match p with O => [10; 20; 30; 40] | _ => [7] end; e_pos := fun _ => 0%N |}.
Definition ry_t : list R := [1 / 4; 3 / 4; 1 / 2; 1 / 2; 1; 0; 0; 1].
Definition ry_cmds : list (@cmd rop tshape (@OpFamily.vec R)) :=
  [ CNewGraph;
    CAdd 0 (RCore (OParam 0 s22)) [];                                               (*  0: p   {2,2}        *)
    CAdd 0 (RCore (OParam 1 s0)) [];                                                (*  1: c   {} scalar    *)
    CAdd 0 (RMaxPool s22 s11 2 2 0 0 1 1) [(0, (0, 0))]%nat;                        (*  2: max_pool2d(p)    *)
    CAdd 0 (RCore (OReshape s11 s0)) [(0, (2, 0))]%nat;                             (*  3: m as a scalar    *)
    CAdd 0 (RDivScalarR s22 s0) [(0, (0, 0)); (0, (3, 0))]%nat;                     (*  4: p / m            *)
    CAdd 0 (RDivScalarL s22 s0) [(0, (0, 0)); (0, (1, 0))]%nat;                     (*  5: c / p            *)
    CAdd 0 (RPowScalarR s22 s0) [(0, (0, 0)); (0, (1, 0))]%nat;                     (*  6: p ^ c            *)
    CAdd 0 (RPowScalarL s22 s0) [(0, (0, 0)); (0, (1, 0))]%nat;                     (*  7: c ^ p            *)
    CAdd 0 (RCore (OAdd s22 s22)) [(0, (4, 0)); (0, (5, 0))]%nat;                   (*  8 *)
    CAdd 0 (RCore (OAdd s22 s22)) [(0, (6, 0)); (0, (7, 0))]%nat;                   (*  9 *)
    CAdd 0 (RCore (OAdd s22 s22)) [(0, (8, 0)); (0, (9, 0))]%nat;                   (* 10: x   {2,2}        *)
    CAdd 0 (RCore (OInput s22b ry_t)) [];        (* 11: t   {2,2} x 2    *)
    CAdd 0 (RSCEb s22 s22b s12 s12b 0) [(0, (10, 0)); (0, (11, 0))]%nat;            (* 12: sce(x, t) {1,2} x 2 *)
    CAdd 0 (RSparseSCEb s22 s12 s12b [0; 1]%nat 0) [(0, (0, 0))]%nat;               (* 13: sce(p, ids)      *)
    CAdd 0 (RCore (OAdd s12b s12b)) [(0, (12, 0)); (0, (13, 0))]%nat;               (* 14: y                *)
    CForward 0 (14, 0)%nat ].
(* the tape produced by the lazy forward of the graph model, real operations kept symbolic *)
Definition ry_gen : list (@opinfo rop tshape (@OpFamily.vec R)) :=
  Eval cbv -[exp ln Rpower Rplus Rmult Rminus Ropp Rinv Rdiv IZR Rgt_dec Req_EM_T scan first_eq Stable.lse_fold flt_lowest] in
    match w_graphs (run_all real_family rVO {| w_graphs := []; w_env := ry_env |} ry_cmds) with
    | g :: _ => g_ops g | [] => [] end.
Definition ry_nodes : list (rop * list (nat * nat)) :=
  [ (RCore (OParam 0 s22), []%nat);
    (RCore (OParam 1 s0), []%nat);
    (RMaxPool s22 s11 2 2 0 0 1 1, [(0, 0)]%nat);
    (RCore (OReshape s11 s0), [(2, 0)]%nat);
    (RDivScalarR s22 s0, [(0, 0); (3, 0)]%nat);
    (RDivScalarL s22 s0, [(0, 0); (1, 0)]%nat);
    (RPowScalarR s22 s0, [(0, 0); (1, 0)]%nat);
    (RPowScalarL s22 s0, [(0, 0); (1, 0)]%nat);
    (RCore (OAdd s22 s22), [(4, 0); (5, 0)]%nat);
    (RCore (OAdd s22 s22), [(6, 0); (7, 0)]%nat);
    (RCore (OAdd s22 s22), [(8, 0); (9, 0)]%nat);
    (RCore (OInput s22b ry_t), []%nat);
    (RSCEb s22 s22b s12 s12b 0, [(10, 0); (11, 0)]%nat);
    (RSparseSCEb s22 s12 s12b [0; 1]%nat 0, [(0, 0)]%nat);
    (RCore (OAdd s12b s12b), [(12, 0); (13, 0)]%nat) ].
Definition ry_V : list (list (list R)) := Eval cbv -[exp ln Rpower Rplus Rmult Rminus Ropp Rinv Rdiv IZR Rgt_dec Req_EM_T scan first_eq Stable.lse_fold flt_lowest] in evalT describeR real_inner (e_pval ry_env) ry_nodes [].
Definition ry_dp : nat -> @OpFamily.vec R := fun p => match p with O => [5; 7; -1; 2] | _ => [3] end.
Definition ry_T : list (list (list R)) := Eval cbv -[exp ln Rpower Rplus Rmult Rminus Ropp Rinv Rdiv IZR Rgt_dec Req_EM_T scan first_eq Stable.lse_fold flt_lowest] in tanT describeR real_inner ry_dp (e_pval ry_env) ry_nodes [] [].
Definition ry_v0 : list R := Eval cbv -[exp ln Rpower Rplus Rmult Rminus Ropp Rinv Rdiv IZR Rgt_dec Req_EM_T scan first_eq Stable.lse_fold flt_lowest] in nth 0 (nth 0 ry_V []) [].
Definition ry_v1 : list R := Eval cbv -[exp ln Rpower Rplus Rmult Rminus Ropp Rinv Rdiv IZR Rgt_dec Req_EM_T scan first_eq Stable.lse_fold flt_lowest] in nth 0 (nth 1 ry_V []) [].
Definition ry_v2 : list R := Eval cbv -[exp ln Rpower Rplus Rmult Rminus Ropp Rinv Rdiv IZR Rgt_dec Req_EM_T scan first_eq Stable.lse_fold flt_lowest] in nth 0 (nth 2 ry_V []) [].
Definition ry_v3 : list R := Eval cbv -[exp ln Rpower Rplus Rmult Rminus Ropp Rinv Rdiv IZR Rgt_dec Req_EM_T scan first_eq Stable.lse_fold flt_lowest] in nth 0 (nth 3 ry_V []) [].
Definition ry_v4 : list R := Eval cbv -[exp ln Rpower Rplus Rmult Rminus Ropp Rinv Rdiv IZR Rgt_dec Req_EM_T scan first_eq Stable.lse_fold flt_lowest] in nth 0 (nth 4 ry_V []) [].
Definition ry_v5 : list R := Eval cbv -[exp ln Rpower Rplus Rmult Rminus Ropp Rinv Rdiv IZR Rgt_dec Req_EM_T scan first_eq Stable.lse_fold flt_lowest] in nth 0 (nth 5 ry_V []) [].
Definition ry_v6 : list R := Eval cbv -[exp ln Rpower Rplus Rmult Rminus Ropp Rinv Rdiv IZR Rgt_dec Req_EM_T scan first_eq Stable.lse_fold flt_lowest] in nth 0 (nth 6 ry_V []) [].
Definition ry_v7 : list R := Eval cbv -[exp ln Rpower Rplus Rmult Rminus Ropp Rinv Rdiv IZR Rgt_dec Req_EM_T scan first_eq Stable.lse_fold flt_lowest] in nth 0 (nth 7 ry_V []) [].
Definition ry_v8 : list R := Eval cbv -[exp ln Rpower Rplus Rmult Rminus Ropp Rinv Rdiv IZR Rgt_dec Req_EM_T scan first_eq Stable.lse_fold flt_lowest] in nth 0 (nth 8 ry_V []) [].
Definition ry_v9 : list R := Eval cbv -[exp ln Rpower Rplus Rmult Rminus Ropp Rinv Rdiv IZR Rgt_dec Req_EM_T scan first_eq Stable.lse_fold flt_lowest] in nth 0 (nth 9 ry_V []) [].
Definition ry_v10 : list R := Eval cbv -[exp ln Rpower Rplus Rmult Rminus Ropp Rinv Rdiv IZR Rgt_dec Req_EM_T scan first_eq Stable.lse_fold flt_lowest] in nth 0 (nth 10 ry_V []) [].
Definition ry_v11 : list R := Eval cbv -[exp ln Rpower Rplus Rmult Rminus Ropp Rinv Rdiv IZR Rgt_dec Req_EM_T scan first_eq Stable.lse_fold flt_lowest] in nth 0 (nth 11 ry_V []) [].
Definition ry_v12 : list R := Eval cbv -[exp ln Rpower Rplus Rmult Rminus Ropp Rinv Rdiv IZR Rgt_dec Req_EM_T scan first_eq Stable.lse_fold flt_lowest] in nth 0 (nth 12 ry_V []) [].
Definition ry_v13 : list R := Eval cbv -[exp ln Rpower Rplus Rmult Rminus Ropp Rinv Rdiv IZR Rgt_dec Req_EM_T scan first_eq Stable.lse_fold flt_lowest] in nth 0 (nth 13 ry_V []) [].
Definition ry_v14 : list R := Eval cbv -[exp ln Rpower Rplus Rmult Rminus Ropp Rinv Rdiv IZR Rgt_dec Req_EM_T scan first_eq Stable.lse_fold flt_lowest] in nth 0 (nth 14 ry_V []) [].
Definition ry_d0 : list R := Eval cbv -[exp ln Rpower Rplus Rmult Rminus Ropp Rinv Rdiv IZR Rgt_dec Req_EM_T scan first_eq Stable.lse_fold flt_lowest] in nth 0 (nth 0 ry_T []) [].
Definition ry_d1 : list R := Eval cbv -[exp ln Rpower Rplus Rmult Rminus Ropp Rinv Rdiv IZR Rgt_dec Req_EM_T scan first_eq Stable.lse_fold flt_lowest] in nth 0 (nth 1 ry_T []) [].
Definition ry_d2 : list R := Eval cbv -[exp ln Rpower Rplus Rmult Rminus Ropp Rinv Rdiv IZR Rgt_dec Req_EM_T scan first_eq Stable.lse_fold flt_lowest] in nth 0 (nth 2 ry_T []) [].
Definition ry_d3 : list R := Eval cbv -[exp ln Rpower Rplus Rmult Rminus Ropp Rinv Rdiv IZR Rgt_dec Req_EM_T scan first_eq Stable.lse_fold flt_lowest] in nth 0 (nth 3 ry_T []) [].
Definition ry_d4 : list R := Eval cbv -[exp ln Rpower Rplus Rmult Rminus Ropp Rinv Rdiv IZR Rgt_dec Req_EM_T scan first_eq Stable.lse_fold flt_lowest] in nth 0 (nth 4 ry_T []) [].
Definition ry_d5 : list R := Eval cbv -[exp ln Rpower Rplus Rmult Rminus Ropp Rinv Rdiv IZR Rgt_dec Req_EM_T scan first_eq Stable.lse_fold flt_lowest] in nth 0 (nth 5 ry_T []) [].
Definition ry_d6 : list R := Eval cbv -[exp ln Rpower Rplus Rmult Rminus Ropp Rinv Rdiv IZR Rgt_dec Req_EM_T scan first_eq Stable.lse_fold flt_lowest] in nth 0 (nth 6 ry_T []) [].
Definition ry_d7 : list R := Eval cbv -[exp ln Rpower Rplus Rmult Rminus Ropp Rinv Rdiv IZR Rgt_dec Req_EM_T scan first_eq Stable.lse_fold flt_lowest] in nth 0 (nth 7 ry_T []) [].
Definition ry_d8 : list R := Eval cbv -[exp ln Rpower Rplus Rmult Rminus Ropp Rinv Rdiv IZR Rgt_dec Req_EM_T scan first_eq Stable.lse_fold flt_lowest] in nth 0 (nth 8 ry_T []) [].
Definition ry_d9 : list R := Eval cbv -[exp ln Rpower Rplus Rmult Rminus Ropp Rinv Rdiv IZR Rgt_dec Req_EM_T scan first_eq Stable.lse_fold flt_lowest] in nth 0 (nth 9 ry_T []) [].
Definition ry_d10 : list R := Eval cbv -[exp ln Rpower Rplus Rmult Rminus Ropp Rinv Rdiv IZR Rgt_dec Req_EM_T scan first_eq Stable.lse_fold flt_lowest] in nth 0 (nth 10 ry_T []) [].
Definition ry_d11 : list R := Eval cbv -[exp ln Rpower Rplus Rmult Rminus Ropp Rinv Rdiv IZR Rgt_dec Req_EM_T scan first_eq Stable.lse_fold flt_lowest] in nth 0 (nth 11 ry_T []) [].
Definition ry_d12 : list R := Eval cbv -[exp ln Rpower Rplus Rmult Rminus Ropp Rinv Rdiv IZR Rgt_dec Req_EM_T scan first_eq Stable.lse_fold flt_lowest] in nth 0 (nth 12 ry_T []) [].
Definition ry_d13 : list R := Eval cbv -[exp ln Rpower Rplus Rmult Rminus Ropp Rinv Rdiv IZR Rgt_dec Req_EM_T scan first_eq Stable.lse_fold flt_lowest] in nth 0 (nth 13 ry_T []) [].
Definition ry_d14 : list R := Eval cbv -[exp ln Rpower Rplus Rmult Rminus Ropp Rinv Rdiv IZR Rgt_dec Req_EM_T scan first_eq Stable.lse_fold flt_lowest] in nth 0 (nth 14 ry_T []) [].
Definition yslot (sh : tshape) (v : option (list R)) : @slot tshape (@OpFamily.vec R) :=
  {| s_shape := sh; s_dev := 0%nat; s_val := v; s_grad := None |}.
Definition ry_ops0 : list (@opinfo rop tshape (@OpFamily.vec R)) :=
  [ {| o_op := RCore (OParam 0 s22); o_args := []%nat; o_rets := [yslot s22 None] |};
    {| o_op := RCore (OParam 1 s0); o_args := []%nat; o_rets := [yslot s0 None] |};
    {| o_op := RMaxPool s22 s11 2 2 0 0 1 1; o_args := [(0, 0)]%nat; o_rets := [yslot s11 (Some ry_v2)] |};
    {| o_op := RCore (OReshape s11 s0); o_args := [(2, 0)]%nat; o_rets := [yslot s0 (Some ry_v3)] |};
    {| o_op := RDivScalarR s22 s0; o_args := [(0, 0); (3, 0)]%nat; o_rets := [yslot s22 (Some ry_v4)] |};
    {| o_op := RDivScalarL s22 s0; o_args := [(0, 0); (1, 0)]%nat; o_rets := [yslot s22 (Some ry_v5)] |};
    {| o_op := RPowScalarR s22 s0; o_args := [(0, 0); (1, 0)]%nat; o_rets := [yslot s22 (Some ry_v6)] |};
    {| o_op := RPowScalarL s22 s0; o_args := [(0, 0); (1, 0)]%nat; o_rets := [yslot s22 (Some ry_v7)] |};
    {| o_op := RCore (OAdd s22 s22); o_args := [(4, 0); (5, 0)]%nat; o_rets := [yslot s22 (Some ry_v8)] |};
    {| o_op := RCore (OAdd s22 s22); o_args := [(6, 0); (7, 0)]%nat; o_rets := [yslot s22 (Some ry_v9)] |};
    {| o_op := RCore (OAdd s22 s22); o_args := [(8, 0); (9, 0)]%nat; o_rets := [yslot s22 (Some ry_v10)] |};
    {| o_op := RCore (OInput s22b ry_t); o_args := []%nat; o_rets := [yslot s22b (Some ry_v11)] |};
    {| o_op := RSCEb s22 s22b s12 s12b 0; o_args := [(10, 0); (11, 0)]%nat; o_rets := [yslot s12b (Some ry_v12)] |};
    {| o_op := RSparseSCEb s22 s12 s12b [0; 1]%nat 0; o_args := [(0, 0)]%nat; o_rets := [yslot s12b (Some ry_v13)] |};
    {| o_op := RCore (OAdd s12b s12b); o_args := [(12, 0); (13, 0)]%nat; o_rets := [yslot s12b (Some ry_v14)] |} ].
Lemma ry_gen_eq : ry_gen = ry_ops0.
Proof. reflexivity. Qed.
Definition ry_Tl : list (list (list R)) := [[ry_d0]; [ry_d1]; [ry_d2]; [ry_d3]; [ry_d4]; [ry_d5]; [ry_d6]; [ry_d7]; [ry_d8]; [ry_d9]; [ry_d10]; [ry_d11]; [ry_d12]; [ry_d13]; [ry_d14]].
Lemma ry_T_eq : real_tangents ry_ops0 ry_env ry_dp = ry_Tl.
Proof. reflexivity. Qed.
Definition ry_tan : nat * nat -> @OpFamily.vec R := val_at ry_Tl.
Definition ry_seeded := upd_ops ry_ops0 (14, 0)%nat (fun s => set_grad s (Some (vones rVO (s_shape s)))).

Lemma ry_wf : wf_ops ry_ops0.
Proof.
  intros k oi H. nth_casesR k H ltac:(cbn; repeat constructor; cbn; try lia; eexists; (split; [reflexivity|cbn; lia])).
Qed.
Lemma ry_shape_ok : shape_ok real_family ry_ops0.
Proof.
  intros k oi H Hi.
  nth_casesR k H ltac:(try discriminate Hi;
    (eexists; split; [repeat (constructor; [eexists; split; reflexivity|]); constructor|vm_compute; reflexivity])).
Qed.
Lemma ry_consistent : consistent real_family real_jvp ry_tan ry_dp ry_ops0 ry_env.
Proof.
  intros k oi H.
  nth_casesR k H ltac:(cbn [o_op real_family desc_family f_inner o_rets]; try (split; reflexivity);
    (intros ys Hys; cbn [all_vals yslot s_val] in Hys; injection Hys as <-;
     eexists 0%N, _; split; [repeat (constructor; [reflexivity|]); constructor|split; reflexivity])).
Qed.
Lemma ry_rsized : rsized real_family tsize ry_tan ry_ops0 ry_env.
Proof.
  intros [k v] s H. unfold get_slot_ops in H. cbn [fst snd] in H.
  do 15 (destruct k as [|k];
        [destruct v as [|v]; [cbn in H; injection H as <-; split; [reflexivity|intros x [= <-]; reflexivity]|cbn in H; destruct v; discriminate H]|]).
  cbn in H. destruct k; discriminate H.
Qed.
Lemma ry_gclean : gclean ry_ops0.
Proof.
  intros [k v] s H. unfold get_slot_ops in H. cbn [fst snd] in H.
  do 15 (destruct k as [|k];
        [destruct v as [|v]; [cbn in H; injection H as <-; reflexivity|cbn in H; destruct v; discriminate H]|]).
  cbn in H. destruct k; discriminate H.
Qed.
Lemma ry_psz : psz real_family tsize ry_ops0 ry_env.
Proof.
  intros k oi p s H Hi Hs. nth_casesR k H ltac:(try discriminate Hi; cbn in Hi; injection Hi as <-; cbn in Hs; injection Hs as <-; reflexivity).
Qed.
Lemma ry_cover k oi p : nth_error ry_ops0 k = Some oi -> f_inner real_family (o_op oi) = Some p -> In p [0%nat; 1%nat].
Proof. intros H Hi. nth_casesR k H ltac:(try discriminate Hi; cbn in Hi; injection Hi as <-; cbn; tauto). Qed.
Lemma ry_nodup : NoDup [0%nat; 1%nat].
Proof. repeat constructor; cbn; intuition discriminate. Qed.
Lemma ry_lengths p : length (e_pval ry_env p) = length (ry_dp p).
Proof. destruct p as [|p]; reflexivity. Qed.

Definition ry_result := Eval cbv -[exp ln Rpower Rplus Rmult Rminus Ropp Rinv Rdiv IZR Rgt_dec Req_EM_T scan first_eq Stable.lse_fold flt_lowest] in
  sweep real_family rVO 14 ry_seeded ry_env [].
Lemma ry_run : exists ops' e' bl',
  sweep real_family rVO 14 ry_seeded ry_env [] = Some (ops', e', bl') /\ bl' = [14; 13; 12; 11; 10; 9; 8; 7; 6; 5; 4; 3; 2; 1; 0]%nat.
Proof.
  destruct ry_result as [[[ops' e'] bl']|] eqn:E; [|discriminate E].
  exists ops', e', bl'. split; [exact E|]. unfold ry_result in E. injection E as <- <- <-. reflexivity.
Qed.
Lemma ry_max : scan rgt flt_lowest [1; 2; 4; 3] = 4.
Proof.
  apply (scan_unique rgt flt_lowest rgt_asym rgt_irrefl); [cbn; tauto|].
  intros v [<-|[<-|[<-|[<-|[]]]]]; (left; reflexivity) || (right; apply rgt_true; lra).
Qed.
Lemma ry_smooth : real_smooth ry_ops0 ry_env.
Proof.
  unfold real_smooth.
  cbv -[exp ln Rpower Rplus Rmult Rminus Ropp Rinv Rdiv IZR Rgt_dec Req_EM_T scan first_eq Stable.lse_fold flt_lowest real_dom].
  change (fun a b : R => if Rgt_dec a b then true else false) with rgt. rewrite !ry_max.
  repeat match goal with |- _ /\ _ => split end; try exact I; try discriminate; intros _; (split; [reflexivity|]);
    cbn [real_dom]; try exact I.
  - (* max_pool2d: the window {1, 2, 4, 3} attains its maximum once, at index 2 *)
    intros e He. vm_compute in He. destruct He as [<-|[]]. right. exists 2%nat. split; [cbn; tauto|].
    intros s' [<-|[<-|[<-|[<-|[]]]]] Hne; try congruence; cbn [nth]; apply rgt_true; lra.
  - intros e He. vm_compute in He. destruct He as [<-|[<-|[<-|[<-|[]]]]]; cbn [nth fst snd]; lra.
  - intros e He. vm_compute in He. destruct He as [<-|[<-|[<-|[<-|[]]]]]; cbn [nth fst snd]; lra.
  - intros e He. vm_compute in He. destruct He as [<-|[<-|[<-|[<-|[]]]]]; cbn [nth fst snd]; lra.
  - intros e He. vm_compute in He. destruct He as [<-|[<-|[<-|[<-|[]]]]]; cbn [nth fst snd]; lra.
  - (* the target sums to 1 along axis 0 in each of the four batched slices *)
    intros e He. vm_compute in He.
    destruct He as [<-|[<-|[<-|[<-|[]]]]]; cbn -[Rplus Rdiv IZR]; lra.
Qed.

(* the same facts for the tangents as the theorems name them *)
Lemma ry_consistent' : consistent real_family real_jvp (val_at (real_tangents ry_ops0 ry_env ry_dp)) ry_dp ry_ops0 ry_env.
Proof. rewrite ry_T_eq. exact ry_consistent. Qed.
Lemma ry_rsized' : rsized real_family tsize (val_at (real_tangents ry_ops0 ry_env ry_dp)) ry_ops0 ry_env.
Proof. rewrite ry_T_eq. exact ry_rsized. Qed.

(* C01_backward_computes_derivative_real applies to this tape: backward() from node 14 runs, and the
   gradient potential of the two parameters grows by the sum of the derivatives of y's 4 elements *)
Lemma ry_applied : exists ops' e' bl',
  sweep real_family rVO 14 ry_seeded ry_env [] = Some (ops', e', bl') /\
  ppot 0 Rplus Rmult ry_dp [0%nat; 1%nat] e' =
    ppot 0 Rplus Rmult ry_dp [0%nat; 1%nat] ry_env +
    fold_right Rplus 0 (map (fun i => Derive (fun t => nth i (val_at (real_eval ry_ops0 ry_env ry_dp t) (14, 0)%nat) 0) 0) (seq 0 4)).
Proof.
  destruct ry_run as (ops' & e' & bl' & Hsw & _). exists ops', e', bl'. split; [exact Hsw|].
  exact (proj1 (C01_backward_computes_derivative_real ry_dp ry_ops0 ry_env [0%nat; 1%nat] ry_lengths ry_smooth ry_wf ry_shape_ok
                  ry_consistent' ry_rsized' ry_nodup ry_cover (14, 0)%nat (yslot s12b (Some ry_v14)) [] ops' e' bl'
                  ry_gclean ry_psz eq_refl Hsw)).
Qed.
