(* Non-vacuity of the real-valued C01 theorems: y = log(exp(p)) * p over real_family, p a
   parameter of shape {2} at (1, 2): exp, log (non-polynomial, generated formulas) and multiply,
   with fan-out of the parameter.  The tape is written out with its stored values, every
   hypothesis of C01_backward_computes_derivative_real is established, the sweep is evaluated
   (the real operations stay symbolic), and the gradient added is 2 p = (2, 4). *)
From Coq Require Import List NArith ZArith Bool Arith Lia Reals Lra.
From Coquelicot Require Import Coquelicot.
From PV Require Import Graph.OpFamily Graph.Tape Graph.Lazy Graph.Backward Graph.TapeLemmas Graph.LazyProofs
  Graph.BackwardProofs Graph.ADProof Tensor.Kernels Tensor.Index Tensor.ProofsBilinear
  Scalar.ScalarBase Gen.ScalarGen Tensor.AdjCore Tensor.GraphInst Tensor.GraphInstR Tensor.AdjDeriv Tensor.TapeDeriv.
Import ListNotations.
Local Open Scope R_scope.

Definition rs2 : tshape := mkT [2%nat] 1.
Definition rVO : ValOps tshape (@OpFamily.vec R) := vec_ops (R := R) 0 1 Rplus tsize.
Definition rx_env : @env (@OpFamily.vec R) :=
  {| e_pval := fun _ => [1; 2]; e_pgrad := fun _ => [10; 20]; e_pos := fun _ => 0%N |}.
Definition rslot (v : option (list R)) : @slot tshape (@OpFamily.vec R) :=
  {| s_shape := rs2; s_dev := 0%nat; s_val := v; s_grad := None |}.
Definition rx_ops0 : list (@opinfo rop tshape (@OpFamily.vec R)) :=
  [ {| o_op := RCore (OParam 0 rs2); o_args := []; o_rets := [rslot None] |};                                  (* 0: p        *)
    {| o_op := RUn UExp rs2; o_args := [(0, 0)%nat]; o_rets := [rslot (Some [exp 1; exp 2])] |};              (* 1: exp p    *)
    {| o_op := RUn ULog rs2; o_args := [(1, 0)%nat]; o_rets := [rslot (Some [ln (exp 1); ln (exp 2)])] |};   (* 2: log      *)
    {| o_op := RCore (OMul rs2 rs2); o_args := [(2, 0); (0, 0)]%nat;
       o_rets := [rslot (Some [ln (exp 1) * 1; ln (exp 2) * 2])] |} ].                                         (* 3: (.) * p  *)
Definition rx_dp : nat -> @OpFamily.vec R := fun _ => [5; 7].
Definition rx_tan : nat * nat -> @OpFamily.vec R := val_at (real_tangents rx_ops0 rx_env rx_dp).
Definition rx_seeded := upd_ops rx_ops0 (3, 0)%nat (fun s => set_grad s (Some (vones rVO (s_shape s)))).

Ltac nth_casesR k H tac :=
  repeat (destruct k as [|k]; [cbn in H; injection H as <-; tac|]); try (destruct k; discriminate H).

Lemma rx_wf : wf_ops rx_ops0.
Proof.
  intros k oi H. nth_casesR k H ltac:(cbn; repeat constructor; cbn; try lia; eexists; (split; [reflexivity|cbn; lia])).
Qed.
Lemma rx_shape_ok : shape_ok real_family rx_ops0.
Proof.
  intros k oi H Hi.
  nth_casesR k H ltac:(try discriminate Hi;
    (eexists; split; [repeat (constructor; [eexists; split; reflexivity|]); constructor|reflexivity])).
Qed.
Lemma rx_consistent : consistent real_family real_jvp rx_tan rx_dp rx_ops0 rx_env.
Proof.
  intros k oi H.
  nth_casesR k H ltac:(cbn [o_op real_family desc_family f_inner o_rets]; try (split; reflexivity);
    (intros ys Hys; cbn in Hys; injection Hys as <-;
     eexists 0%N, _; split; [repeat (constructor; [reflexivity|]); constructor|split; reflexivity])).
Qed.
Lemma rx_rsized : rsized real_family tsize rx_tan rx_ops0 rx_env.
Proof.
  intros [k v] s H. unfold get_slot_ops in H. cbn [fst snd] in H.
  do 4 (destruct k as [|k];
        [destruct v as [|v]; [cbn in H; injection H as <-; split; [reflexivity|intros x [= <-]; reflexivity]|cbn in H; destruct v; discriminate H]|]).
  cbn in H. destruct k; discriminate H.
Qed.
Lemma rx_gclean : gclean rx_ops0.
Proof.
  intros [k v] s H. unfold get_slot_ops in H. cbn [fst snd] in H.
  do 4 (destruct k as [|k];
        [destruct v as [|v]; [cbn in H; injection H as <-; reflexivity|cbn in H; destruct v; discriminate H]|]).
  cbn in H. destruct k; discriminate H.
Qed.
Lemma rx_psz : psz real_family tsize rx_ops0 rx_env.
Proof.
  intros k oi p s H Hi Hs. nth_casesR k H ltac:(try discriminate Hi; cbn in Hs; injection Hs as <-; reflexivity).
Qed.
Lemma rx_cover k oi p : nth_error rx_ops0 k = Some oi -> f_inner real_family (o_op oi) = Some p -> In p [0%nat].
Proof. intros H Hi. nth_casesR k H ltac:(try discriminate Hi; cbn in Hi; injection Hi as <-; left; reflexivity). Qed.
Lemma rx_nodup : NoDup [0%nat].
Proof. constructor; [intros []|constructor]. Qed.
Lemma rx_lengths p : length (e_pval rx_env p) = length (rx_dp p).
Proof. reflexivity. Qed.
(* smooth domain: log is applied to exp 1, exp 2 > 0 *)
Lemma rx_smooth : real_smooth rx_ops0 rx_env.
Proof.
  unfold real_smooth. cbn [tape_of map rx_ops0 o_op o_args domT]. repeat split; try discriminate; try exact I;
    try (intros ? ?; exact I).
  intros i Hi. cbn in Hi. destruct i as [|[|i]]; [cbn -[exp]; apply exp_pos|cbn -[exp]; apply exp_pos|lia].
Qed.

(* the sweep, evaluated with the real operations kept symbolic *)
Definition rx_result := Eval cbv -[exp ln Rplus Rmult Rminus Ropp Rinv Rdiv IZR] in sweep real_family rVO 3 rx_seeded rx_env [].

(* d/dp (log(exp p) p) = p + log(exp p) = 2 p: (2, 4) is added to the prior gradient (10, 20) *)
Lemma rx_run : exists ops' e' bl',
  sweep real_family rVO 3 rx_seeded rx_env [] = Some (ops', e', bl') /\
  e_pgrad e' 0%nat = [12; 24] /\ bl' = [3; 2; 1; 0]%nat /\
  ppot 0 Rplus Rmult rx_dp [0%nat] e' = ppot 0 Rplus Rmult rx_dp [0%nat] rx_env + 38.
Proof.
  destruct rx_result as [[[ops' e'] bl']|] eqn:E; [|discriminate E].
  exists ops', e', bl'. split; [exact E|]. unfold rx_result in E. injection E as <- <- <-.
  split; [|split; [reflexivity|]].
  - cbn -[exp ln Rplus Rmult Rdiv IZR]. rewrite !ln_exp. pose proof (exp_pos 1). pose proof (exp_pos 2). f_equal; [field; lra|f_equal; field; lra].
  - cbn -[exp ln Rplus Rmult Rdiv IZR]. rewrite !ln_exp. pose proof (exp_pos 1). pose proof (exp_pos 2). field. lra.
Qed.

(* the guards of the operators that exist only in the real family are satisfiable: a batched
   {3} x 2 operand reduced / picked along axis 0, B-vs-1 Divide, Max, the softmax family *)
Lemma rx_guards :
  d_ok (describeR (RMax (mkT [3%nat] 2) (mkT [1%nat] 2) 0)) = true /\
  d_ok (describeR (RMin (mkT [2%nat; 3%nat] 1) (mkT [2%nat; 1%nat] 1) 1)) = true /\
  d_ok (describeR (RLogSumExp (mkT [3%nat] 2) (mkT [1%nat] 2) 0)) = true /\
  d_ok (describeR (RSCE (mkT [3%nat] 2) (mkT [1%nat] 2) 0)) = true /\
  d_ok (describeR (RSparseSCE (mkT [3%nat] 2) (mkT [1%nat] 2) [2%nat; 0%nat] 0)) = true /\
  d_ok (describeR (RSparseSCE (mkT [3%nat] 2) (mkT [1%nat] 2) [1%nat] 0)) = true /\
  d_ok (describeR (RBin BDivide (mkT [3%nat] 2) (mkT [3%nat] 1))) = true /\
  d_ok (describeR (RBin BPow (mkT [3%nat] 1) (mkT [3%nat] 4))) = true.
Proof. repeat split; vm_compute; reflexivity. Qed.
