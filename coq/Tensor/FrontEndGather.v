(* front_end_guards_sound_<entry>, gather family: if the Device front end (Tensor/FrontEnd.v,
   transcribed from core/device.cc) accepts a call whose argument shapes are well-formed
   (C09 `wf`: what every public Shape satisfies) and whose scalar arguments are uint32 values,
   then every numeric hypothesis of the kernel theorems of KernelProofs.v / ProofsGather.v holds
   for the converted shapes (`<kernel>_pre` below = the Section hypotheses of that kernel, with
   the Section variables that merely name a term instantiated).  Hence (`<entry>_safe`) the
   kernel's index program stays inside all buffers and writes each output element exactly once. *)
From Coq Require Import List NArith Bool Lia Arith Permutation.
From PV Require Import Base.U32 Shape.ShapeImpl Shape.ShapeSpec Shape.ShapeLemmas Shape.ShapeProofs
  Shape.ShapeRules Fault.Guards Tensor.Kernels Tensor.Index Tensor.KernelProofs Tensor.ProofsGather
  Tensor.FrontEnd Tensor.FrontEndBridge.
Import ListNotations.

(* ------------------------------------------------------------------ helpers *)
(* replace hypothesis H : A by B using L : A <-> B *)
Ltac fwd H L := let T := fresh in pose proof (proj1 L H) as T; clear H; rename T into H.

Lemma shape_neb_false a b : wf a -> wf b -> shape_neb a b = false -> a = b.
Proof.
  intros Ha Hb H. unfold shape_neb in H. apply negb_false_iff in H. apply (proj1 (eqb_eq a b Ha Hb)). exact H.
Qed.

Lemma shape_neb_true a b : wf a -> wf b -> shape_neb a b = true -> a <> b.
Proof.
  intros Ha Hb H E. unfold shape_neb in H. apply negb_true_iff in H.
  apply (proj2 (eqb_eq a b Ha Hb)) in E. congruence.
Qed.

Lemma compat_t a b : (batch a = batch b \/ batch a = 1 \/ batch b = 1)%N ->
  tbatch (to_t a) = tbatch (to_t b) \/ tbatch (to_t a) = 1 \/ tbatch (to_t b) = 1.
Proof. rewrite !tbatch_to_t. intros [H|[H|H]]; rewrite H; auto. Qed.

Definition nids (ids : list N) : list nat := map N.to_nat ids.

(* ================================================================== slice_bw (device.cc:200-215) *)
(* Section SliceBw of ProofsGather.v *)
Definition slice_bw_pre (sx sy : tshape) (dim off : nat) : Prop :=
  tlower sy dim = tlower sx dim /\
  (exists R, tvolume sx = tlower sx dim * tget sx dim * R /\ tvolume sy = tlower sx dim * tget sy dim * R) /\
  (tbatch sx = tbatch sy \/ tbatch sx = 1 \/ tbatch sy = 1) /\ 0 < tbatch sx /\ 0 < tbatch sy /\
  off + tget sy dim <= tget sx dim /\ 0 < tlower sx dim /\ 0 < tget sy dim.

(* Section InplaceAdd of ProofsGather.v: x is accumulated into y *)
Definition inplace_add_pre (sx sy : tshape) : Prop :=
  tvolume sx = tvolume sy /\ (tbatch sx = tbatch sy \/ tbatch sx = 1 \/ tbatch sy = 1) /\
  0 < tbatch sx /\ 0 < tbatch sy.

Lemma slice_bw_pre_safe sx sy dim off : slice_bw_pre sx sy dim off ->
  acc_in_bounds (slice_bw sy sx dim off) (tsize sx) (tsize sy) /\
  (tbatch sx = tbatch sy \/ tbatch sx = 1 -> map snd (slice_bw sy sx dim off) = seq 0 (tsize sy)).
Proof.
  intros [Hl [[R [Hvx Hvy]] [Hc [HBx [HBy [Hoff [Hb0 Hn0]]]]]]]. split.
  - exact (slice_bw_in_bounds sx sy dim off _ _ _ R _ _ eq_refl Hl eq_refl eq_refl Hvx Hvy eq_refl eq_refl Hc HBx HBy Hoff Hb0 Hn0).
  - intro Hf.
    exact (slice_bw_src_sequential sx sy dim off _ _ _ R _ _ eq_refl Hl eq_refl eq_refl Hvx Hvy eq_refl eq_refl Hc HBx HBy Hoff Hb0 Hn0 Hf).
Qed.

Lemma inplace_add_pre_safe sx sy : inplace_add_pre sx sy ->
  acc_in_bounds (inplace_add sx sy) (tsize sy) (tsize sx) /\
  (tbatch sy = tbatch sx \/ tbatch sy = 1 -> map snd (inplace_add sx sy) = seq 0 (tsize sx)).
Proof.
  intros [Hv [Hc [HBx HBy]]]. split.
  - exact (ProofsGather.inplace_add_in_bounds sx sy _ _ _ Hv eq_refl eq_refl eq_refl Hc HBx HBy).
  - intro Hf. exact (inplace_add_src_sequential sx sy _ _ _ Hv eq_refl eq_refl eq_refl Hc HBx HBy Hf).
Qed.

Theorem front_end_guards_sound_slice_bw gy dim off gx p :
  wf gy -> wf gx -> u32 dim -> u32 off -> fe_slice_bw gy dim off gx = Some p ->
  slice_bw_pre (to_t gx) (to_t gy) (N.to_nat dim) (N.to_nat off) /\
  (p = ViaInplaceAdd <-> (depth gx <= dim)%N) /\
  (p = ViaInplaceAdd -> inplace_add_pre (to_t gy) (to_t gx)).
Proof.
  intros Hy Hx Hd Ho H. unfold fe_slice_bw in H.
  destruct (has_same_loo_dims gy gx dim) eqn:El; [|discriminate].
  destruct (has_compatible_batch gy gx) eqn:Ec; [|discriminate].
  destruct (range_guard64 off (get gy dim) (get gx dim)) eqn:Er; [|discriminate].
  cbn [negb orb] in H.
  fwd El (has_same_loo_dims_spec gy gx dim Hy Hx Hd).
  fwd Ec (has_compatible_batch_spec gy gx).
  fwd Er (range_guard64_sound off (get gy dim) (get gx dim) Ho (get_u32 gy dim Hy) (get_u32 gx dim Hx)).
  destruct (loo_dims_t gy gx dim El) as [Hl Hu].
  pose proof (twf_to_t gx Hx) as Twx.
  assert (Hpre : slice_bw_pre (to_t gx) (to_t gy) (N.to_nat dim) (N.to_nat off)).
  { split; [exact Hl|]. split.
    - exists (tupper (to_t gx) (N.to_nat dim)). split; [apply tvolume_axis|].
      rewrite (tvolume_axis (to_t gy) (N.to_nat dim)), Hl, Hu. reflexivity.
    - split. { apply compat_t. destruct Ec as [E|[E|E]]; auto. }
      split; [apply tbatch_pos, Hx|]. split; [apply tbatch_pos, Hy|].
      split. { rewrite !tget_to_t_N. lia. }
      split; [apply tlower_pos, Twx|apply tget_pos, Hy]. }
  split; [exact Hpre|].
  assert (Hpath : p = ViaInplaceAdd <-> (depth gx <= dim)%N).
  { destruct (N.leb_spec (depth gx) dim) as [Hle|Hgt]; inversion H; subst p; split; intro; try discriminate; try lia; reflexivity. }
  split; [exact Hpath|]. intro Ep. apply Hpath in Ep.
  (* dim beyond the depth of gx: gx[dim] = 1, hence offset = 0, gy[dim] = 1 and the dims agree everywhere *)
  pose proof (get_overflow gx dim Ep) as G1. pose proof (get_pos gy dim Hy) as Gp.
  assert (Hall : forall i, get gy i = get gx i).
  { intro i. destruct (N.eq_dec i dim) as [->|Hne]; [lia|apply El, Hne]. }
  destruct (same_dims_t gy gx Hall) as [_ Hv].
  split; [exact Hv|]. split. { apply compat_t. exact Ec. }
  split; [apply tbatch_pos, Hy|apply tbatch_pos, Hx].
Qed.

Corollary slice_bw_safe gy dim off gx p :
  wf gy -> wf gx -> u32 dim -> u32 off -> fe_slice_bw gy dim off gx = Some p ->
  match p with
  | ViaSliceBw =>
      acc_in_bounds (slice_bw (to_t gy) (to_t gx) (N.to_nat dim) (N.to_nat off)) (tsize (to_t gx)) (tsize (to_t gy))
  | ViaInplaceAdd =>
      acc_in_bounds (inplace_add (to_t gy) (to_t gx)) (tsize (to_t gx)) (tsize (to_t gy))
  end.
Proof.
  intros Hy Hx Hd Ho H. destruct (front_end_guards_sound_slice_bw gy dim off gx p Hy Hx Hd Ho H) as [Hp [_ Hi]].
  destruct p.
  - apply inplace_add_pre_safe. apply Hi. reflexivity.
  - apply (slice_bw_pre_safe _ _ _ _ Hp).
Qed.

(* ================================================================== batch_slice (device.cc:633-639, 676-690) *)
(* Section BatchSlice of ProofsGather.v *)
Definition batch_slice_pre (sx sy : tshape) (off : nat) : Prop :=
  tvolume sy = tvolume sx /\ off + tbatch sy <= tbatch sx /\ 0 < tvolume sx.

Lemma batch_slice_pre_safe sx sy off : batch_slice_pre sx sy off ->
  sequential (batch_slice_fw sx sy off) (tsize sy) /\
  mov_in_bounds (batch_slice_fw sx sy off) [tsize sx] /\
  acc_in_bounds (batch_slice_bw sy sx off) (tsize sx) (tsize sy) /\
  map snd (batch_slice_bw sy sx off) = seq 0 (tsize sy).
Proof.
  intros [Hv [Hoff HV]].
  split; [exact (batch_slice_fw_sequential sx sy off _ _ _ Hv eq_refl eq_refl eq_refl Hoff HV)|].
  split; [exact (batch_slice_fw_in_bounds sx sy off _ _ _ Hv eq_refl eq_refl eq_refl Hoff HV)|].
  split; [exact (batch_slice_bw_in_bounds sx sy off _ _ _ Hv eq_refl eq_refl eq_refl Hoff HV)|].
  exact (batch_slice_bw_src_sequential sx sy off _ _ _ Hv eq_refl eq_refl eq_refl Hoff HV).
Qed.

Lemma tvolume_pos_t s : wf s -> 0 < tvolume (to_t s).
Proof. intro H. rewrite tvolume_to_t. pose proof (prod_pos s H). lia. Qed.

Theorem front_end_guards_sound_batch_slice_bw gy off gx :
  wf gy -> wf gx -> u32 off -> fe_batch_slice_bw gy off gx = Some tt ->
  batch_slice_pre (to_t gx) (to_t gy) (N.to_nat off).
Proof.
  intros Hy Hx Ho H. unfold fe_batch_slice_bw in H.
  destruct (has_same_dims gy gx) eqn:Ed; [|discriminate].
  destruct (range_guard64 off (batch gy) (batch gx)) eqn:Er; [|discriminate].
  fwd Ed (has_same_dims_spec gy gx Hy Hx).
  fwd Er (range_guard64_sound off (batch gy) (batch gx) Ho (batch_u32 gy Hy) (batch_u32 gx Hx)).
  destruct (same_dims_t gy gx Ed) as [_ Hv].
  split; [exact Hv|]. split; [rewrite !tbatch_to_t; lia|apply tvolume_pos_t, Hx].
Qed.

Theorem front_end_guards_sound_batch_slice_fw x lo up y :
  wf x -> u32 lo -> u32 up -> fe_batch_slice_fw x lo up = Some y ->
  wf y /\ batch_slice_pre (to_t x) (to_t y) (N.to_nat lo).
Proof.
  intros Hx Hl Hu H. unfold fe_batch_slice_fw in H.
  pose proof (batch_slice_spec x lo up Hx Hl Hu) as S. rewrite H in S.
  destruct S as [[A1 A2] [Wy [Hb Hg]]]. split; [exact Wy|].
  destruct (same_dims_t y x Hg) as [_ Hv].
  split; [exact Hv|]. split; [rewrite !tbatch_to_t; lia|apply tvolume_pos_t, Hx].
Qed.

(* ================================================================== pick (device.cc:154-160, 186-198) *)
(* Section Pick of ProofsGather.v *)
Definition pick_pre (sx sy : tshape) (ids : list nat) (dim : nat) : Prop :=
  (exists R, tvolume sy = tlower sy dim * 1 * R /\ tvolume sx = tlower sy dim * tget sx dim * R) /\
  (tbatch sx = tbatch sy \/ tbatch sx = 1) /\ (length ids = tbatch sy \/ length ids = 1) /\
  (forall b, b < length ids -> nth b ids 0 < tget sx dim) /\ 0 < tlower sy dim.

Lemma pick_pre_safe sx sy ids dim : pick_pre sx sy ids dim ->
  sequential (pick_fw sx sy ids dim) (tsize sy) /\
  mov_in_bounds (pick_fw sx sy ids dim) [tsize sx] /\
  acc_in_bounds (pick_bw sy sx ids dim) (tsize sx) (tsize sy) /\
  map snd (pick_bw sy sx ids dim) = seq 0 (tsize sy).
Proof.
  intros [[R [Hvy Hvx]] [Hbc [Hic [Hids Hb0]]]].
  split; [exact (pick_fw_sequential sx sy ids dim _ _ R _ _ eq_refl eq_refl Hvy Hvx eq_refl eq_refl Hbc Hic Hids Hb0)|].
  split; [exact (pick_fw_in_bounds sx sy ids dim _ _ R _ _ eq_refl eq_refl Hvy Hvx eq_refl eq_refl Hbc Hic Hids Hb0)|].
  split; [exact (pick_bw_in_bounds sx sy ids dim _ _ R _ _ eq_refl eq_refl Hvy Hvx eq_refl eq_refl Hbc Hic Hids Hb0)|].
  exact (pick_bw_src_sequential sx sy ids dim _ _ R _ _ eq_refl eq_refl Hvy Hvx eq_refl eq_refl Hbc Hic Hids Hb0).
Qed.

Lemma pick_rule_pre x ids dim y :
  wf x -> Forall u32 ids -> u32 (N.of_nat (length ids)) -> u32 dim -> pick x ids dim = Some y ->
  wf y /\ pick_pre (to_t x) (to_t y) (nids ids) (N.to_nat dim).
Proof.
  intros Hx Hi Hn Hd H. pose proof (pick_spec x ids dim Hx Hi Hn Hd) as S. rewrite H in S.
  destruct S as [[A1 [A2 [A3 _]]] [Wy [Hb Hg]]]. cbv zeta in A2. split; [exact Wy|].
  destruct (axis_replaced_t x y dim 1%N Hg) as [Hl [Hu [Hgd Hv]]].
  assert (Hlen : 0 < length ids) by (destruct ids; [congruence|cbn; lia]).
  pose proof (wf_batch _ Hx) as Hbx.
  split.
  { exists (tupper (to_t x) (N.to_nat dim)). rewrite Hl. split.
    - rewrite Hv. reflexivity.
    - apply tvolume_axis. }
  split. { rewrite !tbatch_to_t, Hb. lia. }
  split. { unfold nids. rewrite map_length, tbatch_to_t, Hb. lia. }
  split.
  { unfold nids. rewrite map_length. intros b Hlt. rewrite tget_to_t_N. apply nth_ids_lt; assumption. }
  apply tlower_pos, twf_to_t, Wy.
Qed.

Theorem front_end_guards_sound_pick_fw x ids dim y :
  wf x -> Forall u32 ids -> u32 (N.of_nat (length ids)) -> u32 dim -> fe_pick_fw x ids dim = Some y ->
  wf y /\ pick_pre (to_t x) (to_t y) (nids ids) (N.to_nat dim).
Proof. exact (pick_rule_pre x ids dim y). Qed.

Theorem front_end_guards_sound_pick_bw gy ids dim gx :
  wf gy -> wf gx -> Forall u32 ids -> u32 (N.of_nat (length ids)) -> u32 dim ->
  fe_pick_bw gy ids dim gx = Some tt ->
  pick_pre (to_t gx) (to_t gy) (nids ids) (N.to_nat dim).
Proof.
  intros Hy Hx Hi Hn Hd H. unfold fe_pick_bw in H.
  destruct (pick gx ids dim) as [sy|] eqn:Ep; [|discriminate].
  destruct (pick_rule_pre gx ids dim sy Hx Hi Hn Hd Ep) as [Ws Hp].
  destruct (shape_neb gy sy) eqn:En; [discriminate|].
  apply (shape_neb_false gy sy Hy Ws) in En. subst sy. exact Hp.
Qed.

(* ================================================================== slice_fw (device.cc:162-169) *)
(* Section Slice of KernelProofs.v *)
Definition slice_fw_pre (sx sy : tshape) (dim off : nat) : Prop :=
  (exists R, tsize sy = tlower sy dim * tget sy dim * R /\ tsize sx = tlower sy dim * tget sx dim * R) /\
  off + tget sy dim <= tget sx dim /\ 0 < tlower sy dim /\ 0 < tget sy dim.

Lemma slice_fw_pre_safe sx sy dim off : slice_fw_pre sx sy dim off ->
  sequential (slice_fw sx sy dim off) (tsize sy) /\ mov_in_bounds (slice_fw sx sy dim off) [tsize sx].
Proof.
  intros [[R [Hsy Hsx]] [Hoff [Hb0 Hn0]]].
  split; [exact (slice_fw_sequential sx sy dim off _ _ _ R eq_refl eq_refl eq_refl Hsy Hsx Hoff Hb0 Hn0)|].
  exact (slice_fw_in_bounds sx sy dim off _ _ _ R eq_refl eq_refl eq_refl Hsy Hsx Hoff Hb0 Hn0).
Qed.

Theorem front_end_guards_sound_slice_fw x dim lo up y :
  wf x -> u32 dim -> u32 lo -> u32 up -> fe_slice_fw x dim lo up = Some y ->
  wf y /\ slice_fw_pre (to_t x) (to_t y) (N.to_nat dim) (N.to_nat lo).
Proof.
  intros Hx Hd Hl Hu H. unfold fe_slice_fw in H.
  pose proof (slice_spec x dim lo up Hx Hd Hl Hu) as S. rewrite H in S.
  destruct S as [[A1 A2] [Wy [Hb Hg]]]. split; [exact Wy|].
  destruct (axis_replaced_t x y dim (up - lo)%N Hg) as [Hlw [Hup [Hgd Hv]]].
  split.
  { exists (tupper (to_t x) (N.to_nat dim) * tbatch (to_t x)). rewrite Hlw. split.
    - unfold tsize. rewrite Hv, Hgd, !tbatch_to_t, Hb. lia.
    - apply tsize_axis. }
  split. { rewrite Hgd, tget_to_t_N. lia. }
  split; [apply tlower_pos, twf_to_t, Wy|apply tget_pos, Wy].
Qed.

(* ================================================================== batch_pick (device.cc:625-631, 663-674) *)
(* Section BatchPick of ProofsGather.v *)
Definition batch_pick_pre (sx sy : tshape) (ids : list nat) : Prop :=
  tvolume sx = tvolume sy /\ length ids = tbatch sy /\
  (forall b, b < tbatch sy -> nth b ids 0 < tbatch sx).

Lemma batch_pick_pre_safe sx sy ids : batch_pick_pre sx sy ids ->
  sequential (batch_pick_fw sx sy ids) (tsize sy) /\
  mov_in_bounds (batch_pick_fw sx sy ids) [tsize sx] /\
  acc_in_bounds (batch_pick_bw sy sx ids) (tsize sx) (tsize sy) /\
  map snd (batch_pick_bw sy sx ids) = seq 0 (tsize sy).
Proof.
  intros [Hv [Hlen Hids]].
  split; [exact (batch_pick_fw_sequential sx sy ids _ _ _ Hv eq_refl eq_refl eq_refl Hlen Hids)|].
  split; [exact (batch_pick_fw_in_bounds sx sy ids _ _ _ Hv eq_refl eq_refl eq_refl Hlen Hids)|].
  split; [exact (batch_pick_bw_in_bounds sx sy ids _ _ _ Hv eq_refl eq_refl eq_refl Hlen Hids)|].
  exact (batch_pick_bw_src_sequential sx sy ids _ _ _ Hv eq_refl eq_refl eq_refl Hlen Hids).
Qed.

Lemma batch_pick_rule_pre x ids y :
  wf x -> Forall u32 ids -> u32 (N.of_nat (length ids)) -> batch_pick x ids = Some y ->
  wf y /\ batch_pick_pre (to_t x) (to_t y) (nids ids).
Proof.
  intros Hx Hi Hn H. pose proof (batch_pick_spec x ids Hx Hi Hn) as S. rewrite H in S.
  destruct S as [[A1 [A2 _]] [Wy [Hb Hg]]]. split; [exact Wy|].
  destruct (same_dims_t y x Hg) as [_ Hv].
  split; [symmetry; exact Hv|].
  split. { unfold nids. rewrite map_length, tbatch_to_t, Hb. lia. }
  intros b Hlt. rewrite tbatch_to_t in *. apply nth_ids_lt; [exact A2|]. rewrite Hb in Hlt. lia.
Qed.

Theorem front_end_guards_sound_batch_pick_fw x ids y :
  wf x -> Forall u32 ids -> u32 (N.of_nat (length ids)) -> fe_batch_pick_fw x ids = Some y ->
  wf y /\ batch_pick_pre (to_t x) (to_t y) (nids ids).
Proof. exact (batch_pick_rule_pre x ids y). Qed.

Theorem front_end_guards_sound_batch_pick_bw gy ids gx :
  wf gy -> wf gx -> Forall u32 ids -> u32 (N.of_nat (length ids)) ->
  fe_batch_pick_bw gy ids gx = Some tt ->
  batch_pick_pre (to_t gx) (to_t gy) (nids ids).
Proof.
  intros Hy Hx Hi Hn H. unfold fe_batch_pick_bw in H.
  destruct (batch_pick gx ids) as [sy|] eqn:Ep; [|discriminate].
  destruct (batch_pick_rule_pre gx ids sy Hx Hi Hn Ep) as [Ws Hp].
  destruct (shape_neb gy sy) eqn:En; [discriminate|].
  apply (shape_neb_false gy sy Hy Ws) in En. subst sy. exact Hp.
Qed.

(* ================================================================== concat_fw (device.cc:171-184) *)
(* Section Concat of ProofsGather.v *)
Definition concat_pre (xs : list tshape) (sy : tshape) (dim : nat) : Prop :=
  exists R,
    tget sy dim = sumn (map (adim dim) xs) /\
    tvolume sy = tlower sy dim * tget sy dim * R /\
    Forall (fun sx => tvolume sx = tlower sy dim * tget sx dim * R /\
                      (tbatch sx = tbatch sy \/ tbatch sx = 1)) xs /\
    0 < tlower sy dim /\ 0 < tget sy dim.

Lemma concat_pre_safe xs sy dim : concat_pre xs sy dim ->
  covers (concat_fw xs sy dim) (tsize sy) /\ mov_in_bounds (concat_fw xs sy dim) (map tsize xs).
Proof.
  intros [R [Hsum [Hvy [Hxs [Hb0 Hn0]]]]].
  split; [exact (concat_fw_covers xs sy dim _ _ R _ eq_refl eq_refl Hsum Hvy eq_refl Hxs Hb0 Hn0)|].
  exact (concat_fw_in_bounds xs sy dim _ _ R _ eq_refl eq_refl Hsum Hvy eq_refl Hxs Hb0 Hn0).
Qed.

Lemma sumN_to_nat (xs : list shape) dim :
  N.to_nat (sumN (map (fun s => get s dim) xs)) = sumn (map (adim (N.to_nat dim)) (map to_t xs)).
Proof.
  induction xs as [|s r IH]; cbn [map]; rewrite ?sumN_nil, ?sumN_cons, ?sumn_cons; [reflexivity|].
  unfold adim at 1. rewrite tget_to_t_N, <- IH. lia.
Qed.

Theorem front_end_guards_sound_concat_fw xs dim y :
  Forall wf xs -> u32 (N.of_nat (length xs)) -> u32 dim -> fe_concat_fw xs dim = Some y ->
  wf y /\ concat_pre (map to_t xs) (to_t y) (N.to_nat dim).
Proof.
  intros Hxs Hn Hd H.
  assert (Hc : ShapeImpl.concat xs dim = Some y).
  { unfold fe_concat_fw in H. destruct xs; [discriminate|exact H]. }
  pose proof (concat_spec xs dim Hxs Hn Hd) as S. rewrite Hc in S.
  destruct S as [Adm [Wy [Hb [Hgd Hg]]]]. split; [exact Wy|].
  assert (Hbin : Forall (batch_in (maxl (map batch xs))) xs).
  { destruct xs as [|x0 rest]; [contradiction|]. apply Adm. }
  exists (tupper (to_t y) (N.to_nat dim)).
  split. { rewrite tget_to_t_N, Hgd. apply sumN_to_nat. }
  split; [apply tvolume_axis|].
  split.
  { apply Forall_forall. intros sx Hin. apply in_map_iff in Hin. destruct Hin as [s [<- Hs]].
    destruct (loo_dims_t y s dim (Hg s Hs)) as [Hl Hu]. split.
    - rewrite Hl, Hu. apply tvolume_axis.
    - rewrite Forall_forall in Hbin. specialize (Hbin s Hs). unfold batch_in in Hbin.
      rewrite !tbatch_to_t, Hb. destruct Hbin as [E|E]; rewrite E; auto. }
  split; [apply tlower_pos, twf_to_t, Wy|apply tget_pos, Wy].
Qed.

(* ================================================================== broadcast_fw (device.cc:617-623) *)
(* Section Broadcast of ProofsGather.v *)
Definition broadcast_pre (sx sy : tshape) (dim size : nat) : Prop :=
  (exists Rt, tsize sx = tlower sy dim * 1 * Rt /\ tsize sy = tlower sy dim * size * Rt) /\
  0 < tlower sy dim /\ 0 < size.

Lemma broadcast_pre_safe sx sy dim size : broadcast_pre sx sy dim size ->
  covers (broadcast_fw sx sy dim size) (tsize sy) /\ mov_in_bounds (broadcast_fw sx sy dim size) [tsize sx].
Proof.
  intros [[Rt [Hsx Hsy]] [Hb0 Hs0]].
  split; [exact (broadcast_fw_covers sx sy dim size _ Rt eq_refl Hsx Hsy Hb0 Hs0)|].
  exact (broadcast_fw_in_bounds sx sy dim size _ Rt eq_refl Hsx Hsy Hb0 Hs0).
Qed.

Theorem front_end_guards_sound_broadcast_fw x dim sz y :
  wf x -> u32 dim -> u32 sz -> fe_broadcast_fw x dim sz = Some y ->
  wf y /\ broadcast_pre (to_t x) (to_t y) (N.to_nat dim) (N.to_nat sz).
Proof.
  intros Hx Hd Hs H. unfold fe_broadcast_fw in H.
  pose proof (broadcast_spec x dim sz Hx Hd Hs) as S. rewrite H in S.
  destruct S as [[A1 [A2 _]] [Wy [Hb Hg]]]. split; [exact Wy|].
  destruct (axis_replaced_t x y dim sz Hg) as [Hl [Hu [Hgd Hv]]].
  split.
  { exists (tupper (to_t x) (N.to_nat dim) * tbatch (to_t x)). rewrite Hl. split.
    - rewrite (tsize_axis (to_t x) (N.to_nat dim)), tget_to_t_N, A1. reflexivity.
    - unfold tsize. rewrite Hv, !tbatch_to_t, Hb. lia. }
  split; [apply tlower_pos, twf_to_t, Wy|lia].
Qed.

(* ================================================================== batch_concat_fw (device.cc:641-654) *)
(* Section BatchConcat of ProofsGather.v *)
Definition batch_concat_pre (xs : list tshape) (sy : tshape) : Prop :=
  Forall (fun sx => tvolume sx = tvolume sy) xs /\ tbatch sy = sumn (map tbatch xs) /\ 0 < tvolume sy.

Lemma batch_concat_pre_safe xs sy : batch_concat_pre xs sy ->
  sequential (batch_concat_fw xs) (tsize sy) /\ mov_in_bounds (batch_concat_fw xs) (map tsize xs).
Proof.
  intros [Hvs [Hby HV]].
  split; [exact (batch_concat_fw_sequential xs sy _ Hvs eq_refl Hby HV)|apply batch_concat_fw_in_bounds].
Qed.

Lemma sumN_batch_to_nat (xs : list shape) :
  N.to_nat (sumN (map batch xs)) = sumn (map tbatch (map to_t xs)).
Proof.
  induction xs as [|s r IH]; cbn [map]; rewrite ?sumN_nil, ?sumN_cons, ?sumn_cons; [reflexivity|].
  rewrite tbatch_to_t, <- IH. lia.
Qed.

Theorem front_end_guards_sound_batch_concat_fw xs y :
  Forall wf xs -> u32 (N.of_nat (length xs)) -> fe_batch_concat_fw xs = Some y ->
  wf y /\ batch_concat_pre (map to_t xs) (to_t y).
Proof.
  intros Hxs Hn H.
  assert (Hc : batch_concat xs = Some y).
  { unfold fe_batch_concat_fw in H. destruct xs; [discriminate|exact H]. }
  pose proof (batch_concat_spec xs Hxs Hn) as S. rewrite Hc in S.
  destruct S as [_ [Wy [Hb Hg]]]. split; [exact Wy|].
  split.
  { apply Forall_forall. intros sx Hin. apply in_map_iff in Hin. destruct Hin as [s [<- Hs]].
    destruct (same_dims_t y s (Hg s Hs)) as [_ Hv]. symmetry. exact Hv. }
  split; [rewrite tbatch_to_t, Hb; apply sumN_batch_to_nat|apply tvolume_pos_t, Wy].
Qed.

(* ================================================================== inplace_add / inplace_subtract (device.cc:697-721) *)
Theorem front_end_guards_sound_inplace_add x y :
  wf x -> wf y -> fe_inplace_add x y = Some tt -> inplace_add_pre (to_t x) (to_t y).
Proof.
  intros Hx Hy H. unfold fe_inplace_add in H.
  destruct (has_same_dims x y) eqn:Ed; [|discriminate].
  destruct (has_compatible_batch x y) eqn:Ec; [|discriminate].
  fwd Ed (has_same_dims_spec x y Hx Hy). fwd Ec (has_compatible_batch_spec x y).
  destruct (same_dims_t x y Ed) as [_ Hv].
  split; [exact Hv|]. split; [apply compat_t, Ec|]. split; [apply tbatch_pos, Hx|apply tbatch_pos, Hy].
Qed.

(* ================================================================== the `_safe` corollaries *)
Corollary batch_slice_bw_safe gy off gx :
  wf gy -> wf gx -> u32 off -> fe_batch_slice_bw gy off gx = Some tt ->
  acc_in_bounds (batch_slice_bw (to_t gy) (to_t gx) (N.to_nat off)) (tsize (to_t gx)) (tsize (to_t gy)) /\
  map snd (batch_slice_bw (to_t gy) (to_t gx) (N.to_nat off)) = seq 0 (tsize (to_t gy)).
Proof.
  intros Hy Hx Ho H. apply (batch_slice_pre_safe (to_t gx) (to_t gy)).
  exact (front_end_guards_sound_batch_slice_bw gy off gx Hy Hx Ho H).
Qed.

Corollary batch_slice_fw_safe x lo up y :
  wf x -> u32 lo -> u32 up -> fe_batch_slice_fw x lo up = Some y ->
  sequential (batch_slice_fw (to_t x) (to_t y) (N.to_nat lo)) (tsize (to_t y)) /\
  mov_in_bounds (batch_slice_fw (to_t x) (to_t y) (N.to_nat lo)) [tsize (to_t x)].
Proof.
  intros Hx Hl Hu H. destruct (front_end_guards_sound_batch_slice_fw x lo up y Hx Hl Hu H) as [_ P].
  destruct (batch_slice_pre_safe _ _ _ P) as [A [B _]]. split; assumption.
Qed.

Corollary pick_fw_safe x ids dim y :
  wf x -> Forall u32 ids -> u32 (N.of_nat (length ids)) -> u32 dim -> fe_pick_fw x ids dim = Some y ->
  sequential (pick_fw (to_t x) (to_t y) (nids ids) (N.to_nat dim)) (tsize (to_t y)) /\
  mov_in_bounds (pick_fw (to_t x) (to_t y) (nids ids) (N.to_nat dim)) [tsize (to_t x)].
Proof.
  intros Hx Hi Hn Hd H. destruct (front_end_guards_sound_pick_fw x ids dim y Hx Hi Hn Hd H) as [_ P].
  destruct (pick_pre_safe _ _ _ _ P) as [A [B _]]. split; assumption.
Qed.

Corollary pick_bw_safe gy ids dim gx :
  wf gy -> wf gx -> Forall u32 ids -> u32 (N.of_nat (length ids)) -> u32 dim ->
  fe_pick_bw gy ids dim gx = Some tt ->
  acc_in_bounds (pick_bw (to_t gy) (to_t gx) (nids ids) (N.to_nat dim)) (tsize (to_t gx)) (tsize (to_t gy)) /\
  map snd (pick_bw (to_t gy) (to_t gx) (nids ids) (N.to_nat dim)) = seq 0 (tsize (to_t gy)).
Proof.
  intros Hy Hx Hi Hn Hd H. pose proof (front_end_guards_sound_pick_bw gy ids dim gx Hy Hx Hi Hn Hd H) as P.
  destruct (pick_pre_safe _ _ _ _ P) as [_ [_ [A B]]]. split; assumption.
Qed.

Corollary slice_fw_safe x dim lo up y :
  wf x -> u32 dim -> u32 lo -> u32 up -> fe_slice_fw x dim lo up = Some y ->
  sequential (slice_fw (to_t x) (to_t y) (N.to_nat dim) (N.to_nat lo)) (tsize (to_t y)) /\
  mov_in_bounds (slice_fw (to_t x) (to_t y) (N.to_nat dim) (N.to_nat lo)) [tsize (to_t x)].
Proof.
  intros Hx Hd Hl Hu H. destruct (front_end_guards_sound_slice_fw x dim lo up y Hx Hd Hl Hu H) as [_ P].
  exact (slice_fw_pre_safe _ _ _ _ P).
Qed.

Corollary batch_pick_fw_safe x ids y :
  wf x -> Forall u32 ids -> u32 (N.of_nat (length ids)) -> fe_batch_pick_fw x ids = Some y ->
  sequential (batch_pick_fw (to_t x) (to_t y) (nids ids)) (tsize (to_t y)) /\
  mov_in_bounds (batch_pick_fw (to_t x) (to_t y) (nids ids)) [tsize (to_t x)].
Proof.
  intros Hx Hi Hn H. destruct (front_end_guards_sound_batch_pick_fw x ids y Hx Hi Hn H) as [_ P].
  destruct (batch_pick_pre_safe _ _ _ P) as [A [B _]]. split; assumption.
Qed.

Corollary batch_pick_bw_safe gy ids gx :
  wf gy -> wf gx -> Forall u32 ids -> u32 (N.of_nat (length ids)) ->
  fe_batch_pick_bw gy ids gx = Some tt ->
  acc_in_bounds (batch_pick_bw (to_t gy) (to_t gx) (nids ids)) (tsize (to_t gx)) (tsize (to_t gy)) /\
  map snd (batch_pick_bw (to_t gy) (to_t gx) (nids ids)) = seq 0 (tsize (to_t gy)).
Proof.
  intros Hy Hx Hi Hn H. pose proof (front_end_guards_sound_batch_pick_bw gy ids gx Hy Hx Hi Hn H) as P.
  destruct (batch_pick_pre_safe _ _ _ P) as [_ [_ [A B]]]. split; assumption.
Qed.

Corollary concat_fw_safe xs dim y :
  Forall wf xs -> u32 (N.of_nat (length xs)) -> u32 dim -> fe_concat_fw xs dim = Some y ->
  covers (concat_fw (map to_t xs) (to_t y) (N.to_nat dim)) (tsize (to_t y)) /\
  mov_in_bounds (concat_fw (map to_t xs) (to_t y) (N.to_nat dim)) (map tsize (map to_t xs)).
Proof.
  intros Hxs Hn Hd H. destruct (front_end_guards_sound_concat_fw xs dim y Hxs Hn Hd H) as [_ P].
  exact (concat_pre_safe _ _ _ P).
Qed.

Corollary broadcast_fw_safe x dim sz y :
  wf x -> u32 dim -> u32 sz -> fe_broadcast_fw x dim sz = Some y ->
  covers (broadcast_fw (to_t x) (to_t y) (N.to_nat dim) (N.to_nat sz)) (tsize (to_t y)) /\
  mov_in_bounds (broadcast_fw (to_t x) (to_t y) (N.to_nat dim) (N.to_nat sz)) [tsize (to_t x)].
Proof.
  intros Hx Hd Hs H. destruct (front_end_guards_sound_broadcast_fw x dim sz y Hx Hd Hs H) as [_ P].
  exact (broadcast_pre_safe _ _ _ _ P).
Qed.

Corollary batch_concat_fw_safe xs y :
  Forall wf xs -> u32 (N.of_nat (length xs)) -> fe_batch_concat_fw xs = Some y ->
  sequential (batch_concat_fw (map to_t xs)) (tsize (to_t y)) /\
  mov_in_bounds (batch_concat_fw (map to_t xs)) (map tsize (map to_t xs)).
Proof.
  intros Hxs Hn H. destruct (front_end_guards_sound_batch_concat_fw xs y Hxs Hn H) as [_ P].
  exact (batch_concat_pre_safe _ _ P).
Qed.

Corollary inplace_add_safe x y :
  wf x -> wf y -> fe_inplace_add x y = Some tt ->
  acc_in_bounds (inplace_add (to_t x) (to_t y)) (tsize (to_t y)) (tsize (to_t x)).
Proof.
  intros Hx Hy H. apply inplace_add_pre_safe. exact (front_end_guards_sound_inplace_add x y Hx Hy H).
Qed.
