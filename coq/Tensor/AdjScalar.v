(* C01, the ...Scalar operators (AddScalar, SubtractScalarR, SubtractScalarL, MultiplyScalar):
   x0 of any shape, x1 a scalar (no dims, batch 1 or B) broadcast over the elements of x0.
   Forward: CPUDEV_FW_X_SCALAR over scalar_fw.  Backward exactly as operator_impl.cc writes it:
     AddScalar        gx0 += gy;            gx1 += sum(gy.flatten(), 0)
     SubtractScalarR  gx0 += gy;            gx1 -= sum(gy.flatten(), 0)
     SubtractScalarL  gx0 -= gy;            gx1 += sum(gy.flatten(), 0)
     MultiplyScalar   gx0 += x1 * gy;       gx1 += sum((x0 * gy).flatten(), 0)
   where  x1 * gy  is multiply_scalar_fw (scalar_fw over gy's shape),  x0 * gy  is multiply_fw
   (ab_fw), flatten shares the buffer, sum(., 0) is sum_fw (axis_red) over the flattened shape
   {V} x B giving one value per sample, and += / -= are inplace_add / inplace_subtract (the same
   loop nest), which FOLD the B samples into a batch-1 operand.
   (When x0 is itself a scalar, tensor_funcs.cc dispatches  x0 op x1  and  x0 * gy  to the scalar
   kernel with the roles of the operands swapped; the values are the same.) *)
From Coq Require Import List NArith Bool Arith Lia Ring Permutation.
From PV Require Import Graph.OpFamily Tensor.Kernels Tensor.Index Tensor.KernelProofs
  Tensor.ProofsGather Tensor.ProofsPerm Tensor.ProofsBilinear Tensor.AdjCore Tensor.AdjMatmul.
Import ListNotations.

Definition sc_shape (sx sk : tshape) : tshape := mkT (tdims sx) (Nat.max (tbatch sx) (tbatch sk)).
Definition sc_flat (sx sk : tshape) : tshape := mkT [tvolume sx] (Nat.max (tbatch sx) (tbatch sk)).   (* gy.flatten() *)
Definition sc_sum (sx sk : tshape) : tshape := mkT [] (Nat.max (tbatch sx) (tbatch sk)).              (* sum(., 0) *)
(* shape_ops::scalar_op: k.is_scalar(), compatible batches *)
Definition scalar_ok (sx sk : tshape) : bool :=
  (match tdims sk with [] => true | _ => false end) && (0 <? tvolume sx) && (0 <? tbatch sx) && (0 <? tbatch sk) &&
  ((tbatch sx =? tbatch sk) || (tbatch sx =? 1) || (tbatch sk =? 1)).
Lemma scalar_ok_spec sx sk : scalar_ok sx sk = true -> let B := tbatch (sc_shape sx sk) in
  tvolume sk = 1 /\ 0 < tvolume sx /\ 0 < B /\ (tbatch sx = 1 \/ tbatch sx = B) /\ (tbatch sk = 1 \/ tbatch sk = B).
Proof.
  unfold scalar_ok. intro H. apply andb_prop in H. destruct H as [H H5]. bsplit.
  destruct (tdims sk) eqn:E; [|discriminate]. cbv zeta. cbn [sc_shape tbatch].
  split; [unfold tvolume; rewrite E; reflexivity|]. split; [assumption|]. split; [lia|].
  apply orb_prop in H5. destruct H5 as [H5|H5]; [apply orb_prop in H5; destruct H5 as [H5|H5]|]; apply Nat.eqb_eq in H5; lia.
Qed.

(* the reduction over axis dim and the broadcast along it are transposes (Tensor/GraphInst.v uses
   the same fact through its guard sum_ok) *)
Lemma sum_pair_gen sx sy dim base n Rt :
  tlower sx dim = base -> tlower sy dim = base -> tget sx dim = n -> tsize sy = base * Rt -> tsize sx = base * n * Rt ->
  0 < base -> 0 < n ->
  adjoint_pair (broadcast_fw sy sx dim n) (red_acc (axis_red sx sy dim)) (tsize sx) (tsize sy).
Proof.
  intros H1 H2 H3 H4 H5 H6 H7. assert (Hsy1 : tsize sy = base * 1 * Rt) by lia.
  rewrite red_acc_transposed, <- (broadcast_is_transposed_sum sx sy dim base n Rt) by auto.
  apply mov_pair.
  - apply (broadcast_fw_covers sy sx dim n base Rt); auto.
  - apply (broadcast_fw_single sy sx dim n base Rt); auto.
  - apply (broadcast_fw_in_bounds sy sx dim n base Rt); auto.
Qed.

Section ScalarOps.
  Context {R : Type} (rO rI : R) (radd rmul rsub : R -> R -> R) (ropp : R -> R).
  Hypothesis Rth : ring_theory rO rI radd rmul rsub ropp eq.
  Add Ring Rring4 : Rth.
  Notation dot := (OpFamily.dot rO radd rmul).
  Notation dots := (OpFamily.dots rO radd rmul).
  Notation vplus := (OpFamily.vplus radd).
  Notation zeros := (repeat rO).
  Notation scatterR := (scatter R rO radd).
  Notation gatherR := (gather R rO).
  Notation adj_of := (adj_of rO radd rmul).
  Notation desc_LA := (desc_LA rO radd rmul).
  Notation vneg := (vneg ropp).

  Variables (sx sk : tshape).
  Let sy := sc_shape sx sk.
  Let p := scalar_fw sx sk sy.

  (* the two operand selections of the forward program, and the pieces of the backward *)
  Definition sc_px (dx : list R) : list R := map (fun e : nat * (nat * nat) => nth (fst (snd e)) dx rO) (scalar_fw sx sk (sc_shape sx sk)).
  Definition sc_pk (dk : list R) : list R := map (fun e : nat * (nat * nat) => nth (snd (snd e)) dk rO) (scalar_fw sx sk (sc_shape sx sk)).
  (* gx0 += t  for t of y's shape *)
  Definition sc_ax (t : list R) : list R := scatterR (inplace_add (sc_shape sx sk) sx) t (zeros (tsize sx)).
  (* gx1 += sum(t.flatten(), 0) *)
  Definition sc_vsum (t : list R) : list R :=
    scatterR (red_acc (axis_red (sc_flat sx sk) (sc_sum sx sk) 0)) t (zeros (tsize (sc_sum sx sk))).
  Definition sc_ak (t : list R) : list R := scatterR (inplace_add (sc_sum sx sk) sk) (sc_vsum t) (zeros (tsize sk)).
  (* the same with -= *)
  Definition sc_ak_sub (t : list R) : list R := scatterR (inplace_add (sc_sum sx sk) sk) (vneg (sc_vsum t)) (zeros (tsize sk)).
  Definition sc_ax_sub (t : list R) : list R := scatterR (inplace_add (sc_shape sx sk) sx) (vneg t) (zeros (tsize sx)).

  Hypothesis Hok : scalar_ok sx sk = true.
  Let V := tvolume sx.
  Let B := tbatch sy.

  Lemma sc_facts : tvolume sk = 1 /\ 0 < V /\ 0 < B /\ (tbatch sx = 1 \/ tbatch sx = B) /\ (tbatch sk = 1 \/ tbatch sk = B) /\
    tsize sy = B * V /\ sequential p (B * V) /\
    Forall (fun e : nat * (nat * nat) => fst e < tsize sy /\ fst (snd e) < tsize sx /\ snd (snd e) < tsize sk) p.
  Proof.
    destruct (scalar_ok_spec sx sk Hok) as (A1 & A2 & A3 & A4 & A5). cbv zeta in A3, A4, A5. fold sy in A3, A4, A5. fold B in A3, A4, A5. fold V in A2.
    repeat split; try assumption.
    - apply (scalar_fw_sequential sx sk sy V B); reflexivity.
    - apply (scalar_fw_in_bounds sx sk sy V B); auto; reflexivity.
  Qed.

  Lemma p_form : p = bprog B V (fun b i => bsel sx b * V + i) (fun b _ => bsel sk b).
  Proof. apply (scalar_fw_bprog sx sk sy V B); reflexivity. Qed.
  Lemma map_bprog {A} (h : nat * (nat * nat) -> A) fa fb :
    map h (bprog B V fa fb) = flat_map2 B (fun b => map (fun i => h (b * V + i, (fa b i, fb b i))) (range V)).
  Proof. unfold bprog. rewrite map_flat_map2. apply ProofsGather.flat_map2_ext. intro b. rewrite map_map. reflexivity. Qed.
  (* a vector of B*V elements is the nest of its elements *)
  Lemma nest_nth (v : list R) : length v = B * V ->
    v = flat_map2 B (fun b => map (fun i => nth (b * V + i) v rO) (range V)).
  Proof.
    intro Hl. pose proof (bprog_sequential B V (fun _ _ => 0) (fun _ _ => 0)) as Hs. unfold sequential in Hs.
    transitivity (map (fun e : nat * (nat * nat) => nth (fst e) v rO) (bprog B V (fun _ _ => 0) (fun _ _ => 0))).
    - rewrite <- (map_map fst (fun d => nth d v rO)), Hs, <- Hl. apply (map_nth_seq' v rO).
    - rewrite map_bprog. reflexivity.
  Qed.

  Lemma sc_px_adj : adj_of (tsize sy) (tsize sx) sc_px sc_ax.
  Proof.
    destruct sc_facts as (Hk1 & HV & HB & Hbx & Hbk & Hsz & Hseq & Hbnd).
    destruct (fold_adj rO rI radd rmul rsub ropp Rth sx sy V B eq_refl eq_refl eq_refl HB Hbx) as (E & Hadj & HE).
    apply (adj_ext rO radd rmul _ _ E sc_px sc_ax sc_ax Hadj); [|reflexivity].
    intros dx Hd. destruct (Hadj (zeros (tsize sy)) dx (repeat_length _ _) Hd) as (_ & _ & LE).
    rewrite (nest_nth (E dx)) by (rewrite LE; exact Hsz).
    unfold sc_px. fold sy p. rewrite p_form, map_bprog. cbn [fst snd].
    apply ProofsBilinear.flat_map2_ext. intros b Hb. apply map_range_ext. intros i Hi. symmetry. apply HE; assumption.
  Qed.

  Lemma sc_sum_pair : adjoint_pair (broadcast_fw (sc_sum sx sk) (sc_flat sx sk) 0 V)
                        (red_acc (axis_red (sc_flat sx sk) (sc_sum sx sk) 0)) (tsize (sc_flat sx sk)) (tsize (sc_sum sx sk)).
  Proof.
    destruct sc_facts as (Hk1 & HV & HB & _).
    apply (sum_pair_gen (sc_flat sx sk) (sc_sum sx sk) 0 1 V B); try reflexivity; try lia.
    - unfold tsize, sc_sum, tvolume, B, sy, sc_shape. cbn. ring.
    - unfold tsize, sc_flat, tvolume, B, sy, sc_shape, V. cbn. unfold tvolume. ring.
  Qed.

  Lemma gather_vneg fw n (v : list R) : gatherR fw n (vneg v) = vneg (gatherR fw n v).
  Proof.
    unfold gather, AdjCore.vneg. rewrite map_map. apply map_ext. intro d. unfold lookup.
    destruct (find _ fw) as [e|]; [|ring]. set (s0 := snd (snd e)).
    destruct (lt_dec s0 (length v)) as [Hs|Hs].
    - rewrite (nth_indep (map ropp v) rO (ropp rO)) by (rewrite map_length; exact Hs). apply map_nth.
    - rewrite !nth_overflow by (rewrite ?map_length; lia). ring.
  Qed.

  Definition sc_bc (v : list R) : list R :=
    gatherR (broadcast_fw (sc_sum sx sk) (sc_flat sx sk) 0 (tvolume sx)) (tsize (sc_flat sx sk)) v.
  Definition sc_ik (t : list R) : list R := scatterR (inplace_add (sc_sum sx sk) sk) t (zeros (tsize sk)).
  Lemma sc_pk_parts : exists E,
    adj_of (tsize (sc_sum sx sk)) (tsize sk) E sc_ik /\ adj_of (tsize sy) (tsize (sc_sum sx sk)) sc_bc sc_vsum /\
    forall dk, length dk = tsize sk -> sc_pk dk = sc_bc (E dk).
  Proof.
    destruct sc_facts as (Hk1 & HV & HB & Hbx & Hbk & Hsz & Hseq & Hbnd).
    set (ss := sc_sum sx sk). set (sf := sc_flat sx sk).
    assert (Hss : tsize ss = B) by (unfold tsize, ss, sc_sum, tvolume, B, sy, sc_shape; cbn; ring).
    assert (Hsf : tsize sf = B * V) by (unfold tsize, sf, sc_flat, tvolume, B, sy, sc_shape, V; cbn; unfold tvolume; ring).
    destruct (fold_adj rO rI radd rmul rsub ropp Rth sk ss 1 B Hk1 eq_refl eq_refl HB Hbk) as (E & Hadj & HE).
    pose proof (pair_adj rO rI radd rmul rsub ropp Rth _ _ _ _ sc_sum_pair) as Hbc. fold ss sf in Hbc.
    exists E. split; [exact Hadj|]. split.
    { replace (tsize sy) with (tsize sf) by (rewrite Hsf, Hsz; reflexivity). exact Hbc. }
    intros dk Hd. destruct (Hadj (zeros (tsize ss)) dk (repeat_length _ _) Hd) as (_ & _ & LE).
    unfold sc_bc. fold ss sf V. rewrite (nest_nth (gatherR (broadcast_fw ss sf 0 V) (tsize sf) (E dk))) by (rewrite (gather_length rO); exact Hsf).
    unfold sc_pk. fold sy p. rewrite p_form, map_bprog. cbn [fst snd].
    apply ProofsBilinear.flat_map2_ext. intros b Hb. apply map_range_ext. intros i Hi.
    assert (Hcov : covers (broadcast_fw ss sf 0 V) (tsize sf)) by (destruct sc_sum_pair as (_ & Hcv & _); exact Hcv).
    rewrite (gather_nth rO _ _ (E dk) (b * V + i) 0 b Hcov).
    - pose proof (HE dk b 0 Hd Hb ltac:(lia)) as H. rewrite !Nat.mul_1_r, !Nat.add_0_r in H. symmetry. exact H.
    - apply (broadcast_fw_spec ss sf 0 V 1 B); try reflexivity; try lia.
      exists 0, i, b. unfold flat. repeat split; lia.
  Qed.

  Lemma sc_pk_adj : adj_of (tsize sy) (tsize sk) sc_pk sc_ak.
  Proof.
    destruct sc_pk_parts as (E & HI & HS & Heq).
    apply (adj_ext rO radd rmul _ _ _ sc_pk _ sc_ak (adj_compose rO radd rmul _ _ _ _ _ _ _ HS HI)); [|reflexivity].
    intros dk Hd. apply Heq. exact Hd.
  Qed.
  Lemma sc_ax_sub_adj : adj_of (tsize sy) (tsize sx) (fun dx => vneg (sc_px dx)) sc_ax_sub.
  Proof. exact (adj_compose rO radd rmul _ _ _ _ _ _ _ (vneg_adj rO rI radd rmul rsub ropp Rth (tsize sy)) sc_px_adj). Qed.
  Lemma sc_ak_sub_adj : adj_of (tsize sy) (tsize sk) (fun dk => vneg (sc_pk dk)) sc_ak_sub.
  Proof.
    destruct sc_pk_parts as (E & HI & HS & Heq).
    pose proof (adj_compose rO radd rmul _ _ _ _ _ _ _
                  (adj_compose rO radd rmul _ _ _ _ _ _ _ HS (vneg_adj rO rI radd rmul rsub ropp Rth _)) HI) as Hc.
    apply (adj_ext rO radd rmul _ _ _ (fun dk => vneg (sc_pk dk)) _ sc_ak_sub Hc); [|reflexivity].
    intros dk Hd. cbv beta. rewrite (Heq dk Hd). unfold sc_bc. symmetry. apply gather_vneg.
  Qed.
End ScalarOps.

Lemma map_bprog' {A} (h : nat * (nat * nat) -> A) B V fa fb :
  map h (bprog B V fa fb) = flat_map2 B (fun b => map (fun i => h (b * V + i, (fa b i, fb b i))) (range V)).
Proof. unfold bprog. rewrite map_flat_map2. apply ProofsGather.flat_map2_ext. intro b. rewrite map_map. reflexivity. Qed.

Section ScalarDescs.
  Context {R : Type} (rO rI : R) (radd rmul rsub : R -> R -> R) (ropp : R -> R).
  Hypothesis Rth : ring_theory rO rI radd rmul rsub ropp eq.
  Add Ring Rring5 : Rth.
  Notation dot := (OpFamily.dot rO radd rmul).
  Notation vplus := (OpFamily.vplus radd).
  Notation zeros := (repeat rO).
  Notation adj_of := (adj_of rO radd rmul).
  Notation desc_LA := (desc_LA rO radd rmul).
  Notation vneg := (AdjCore.vneg ropp).
  Notation sumR := (sum_list R rO radd).
  Notation opdesc := (@opdesc R).
  Variables (sx sk : tshape).
  Notation px := (sc_px rO sx sk).
  Notation pk := (sc_pk rO sx sk).
  Notation sy := (sc_shape sx sk).
  Notation p := (scalar_fw sx sk (sc_shape sx sk)).

  (* y = f(x, k) elementwise over scalar_fw; tangent f(dx, dk) for the three linear ones *)
  Definition sclin_desc (f : R -> R -> R) (bwx bwk : list R -> list R) : opdesc :=
    {| d_args := [sx; sk]; d_rets := [sy]; d_ok := scalar_ok sx sk; d_nop := false;
       d_fw := fun xs => [ab_eval R rO f p (nth 0 xs []) (nth 1 xs [])];
       d_jvp := fun xs dxs => [ab_eval R rO f p (nth 0 dxs []) (nth 1 dxs [])];
       d_bw := fun xs ys gys => [bwx (nth 0 gys []); bwk (nth 0 gys [])] |}.
  Definition addsc_desc : opdesc := sclin_desc radd (sc_ax rO radd sx sk) (sc_ak rO radd sx sk).
  Definition subscr_desc : opdesc := sclin_desc rsub (sc_ax rO radd sx sk) (sc_ak_sub rO radd ropp sx sk).
  Definition subscl_desc : opdesc := sclin_desc (fun x k => rsub k x) (sc_ax_sub rO radd ropp sx sk) (sc_ak rO radd sx sk).
  Definition mulsc_desc : opdesc :=
    {| d_args := [sx; sk]; d_rets := [sy]; d_ok := scalar_ok sx sk; d_nop := false;
       d_fw := fun xs => [ab_eval R rO rmul p (nth 0 xs []) (nth 1 xs [])];
       d_jvp := fun xs dxs =>
         let x := nth 0 xs [] in let k := nth 1 xs [] in let dx := nth 0 dxs [] in let dk := nth 1 dxs [] in
         [map (fun e : nat * (nat * nat) =>
                 radd (rmul (nth (fst (snd e)) dx rO) (nth (snd (snd e)) k rO))
                      (rmul (nth (fst (snd e)) x rO) (nth (snd (snd e)) dk rO))) p];
       d_bw := fun xs ys gys =>
         let gy := nth 0 gys [] in let x := nth 0 xs [] in let k := nth 1 xs [] in
         [sc_ax rO radd sx sk (ab_eval R rO rmul (scalar_fw sy sk sy) gy k);           (* gx0 += x1 * gy *)
          sc_ak rO radd sx sk (ab_eval R rO rmul (ab_fw sx sy sy) x gy)] |}.           (* gx1 += sum((x0 * gy).flatten(), 0) *)

  Lemma vplus_map {A} (f g : A -> R) (l : list A) : map (fun e => radd (f e) (g e)) l = vplus (map f l) (map g l).
  Proof. induction l as [|e l IH]; cbn [map OpFamily.vplus]; [reflexivity|]. rewrite IH. reflexivity. Qed.

  Lemma addsc_LA : desc_LA addsc_desc.
  Proof.
    apply (binary_lin_LA rO rI radd rmul rsub ropp Rth addsc_desc sx sk sy px pk (sc_ax rO radd sx sk) (sc_ak rO radd sx sk) eq_refl eq_refl eq_refl).
    - intro H. split; [apply (sc_px_adj rO rI radd rmul rsub ropp Rth sx sk H)|apply (sc_pk_adj rO rI radd rmul rsub ropp Rth sx sk H)].
    - intros a b da db. cbn [addsc_desc sclin_desc d_jvp nth]. unfold ab_eval, sc_px, sc_pk. rewrite <- vplus_map. reflexivity.
    - intros; reflexivity.
  Qed.
  Lemma subscr_LA : desc_LA subscr_desc.
  Proof.
    apply (binary_lin_LA rO rI radd rmul rsub ropp Rth subscr_desc sx sk sy px (fun dk => vneg (pk dk)) (sc_ax rO radd sx sk) (sc_ak_sub rO radd ropp sx sk) eq_refl eq_refl eq_refl).
    - intro H. split; [apply (sc_px_adj rO rI radd rmul rsub ropp Rth sx sk H)|apply (sc_ak_sub_adj rO rI radd rmul rsub ropp Rth sx sk H)].
    - intros a b da db. cbn [subscr_desc sclin_desc d_jvp nth]. unfold ab_eval, sc_px, sc_pk, AdjCore.vneg. rewrite map_map, <- vplus_map.
      f_equal. apply map_ext. intro e. ring.
    - intros; reflexivity.
  Qed.
  Lemma subscl_LA : desc_LA subscl_desc.
  Proof.
    apply (binary_lin_LA rO rI radd rmul rsub ropp Rth subscl_desc sx sk sy (fun dx => vneg (px dx)) pk (sc_ax_sub rO radd ropp sx sk) (sc_ak rO radd sx sk) eq_refl eq_refl eq_refl).
    - intro H. split; [apply (sc_ax_sub_adj rO rI radd rmul rsub ropp Rth sx sk H)|apply (sc_pk_adj rO rI radd rmul rsub ropp Rth sx sk H)].
    - intros a b da db. cbn [subscl_desc sclin_desc d_jvp nth]. unfold ab_eval, sc_px, sc_pk, AdjCore.vneg. rewrite map_map, <- vplus_map.
      f_equal. apply map_ext. intro e. ring.
    - intros; reflexivity.
  Qed.

  Lemma dot_map2 {A} (f g : A -> R) (l : list A) : dot (map f l) (map g l) = sumR (map (fun e => rmul (f e) (g e)) l).
  Proof. induction l as [|e l IH]; cbn [map OpFamily.dot sum_list fold_right]; [reflexivity|]. rewrite IH. reflexivity. Qed.

  Lemma mulsc_LA : desc_LA mulsc_desc.
  Proof.
    intros Hok xs dxs gys Hx Hdx Hgy. cbn [mulsc_desc d_args d_rets d_ok d_nop d_fw d_jvp d_bw] in *.
    destruct (scalar_ok_spec sx sk Hok) as (Hk1 & HV & HB & Hbx & Hbk). cbv zeta in HB, Hbx, Hbk.
    set (V := tvolume sx) in *. set (B := tbatch sy) in *.
    apply F2_two in Hx. destruct Hx as (x & k & -> & Hxl & Hkl).
    apply F2_two in Hdx. destruct Hdx as (dx & dk & -> & Hda & Hdb). apply F2_one in Hgy. destruct Hgy as (gy & -> & Hgy).
    cbn [nth]. unfold sized in *.
    assert (Hseq : sequential p (B * V)) by (apply (scalar_fw_sequential sx sk sy V B); reflexivity).
    assert (Hsz : tsize sy = B * V) by reflexivity.
    assert (Hp : p = bprog B V (fun b i => bsel sx b * V + i) (fun b _ => bsel sk b)) by (apply (scalar_fw_bprog sx sk sy V B); reflexivity).
    set (T1 := ab_eval R rO rmul (scalar_fw sy sk sy) gy k). set (T2 := ab_eval R rO rmul (ab_fw sx sy sy) x gy).
    assert (E1 : T1 = map (fun e : nat * (nat * nat) => rmul (nth (fst e) gy rO) (nth (snd (snd e)) k rO)) p).
    { unfold T1, ab_eval. rewrite (scalar_fw_bprog sy sk sy V B eq_refl eq_refl), Hp, !map_bprog'. cbn [fst snd].
      apply ProofsBilinear.flat_map2_ext. intros b Hb. apply map_range_ext. intros i Hi. rewrite (bsel_full sy b Hb). reflexivity. }
    assert (E2 : T2 = map (fun e : nat * (nat * nat) => rmul (nth (fst (snd e)) x rO) (nth (fst e) gy rO)) p).
    { unfold T2, ab_eval. rewrite (ab_fw_bprog sx sy sy V B eq_refl eq_refl), Hp, !map_bprog'. cbn [fst snd].
      apply ProofsBilinear.flat_map2_ext. intros b Hb. apply map_range_ext. intros i Hi. rewrite (bsel_full sy b Hb). reflexivity. }
    assert (L1 : length T1 = tsize sy) by (rewrite E1, map_length, (sequential_length p _ Hseq); reflexivity).
    assert (L2 : length T2 = tsize sy) by (rewrite E2, map_length, (sequential_length p _ Hseq); reflexivity).
    destruct (sc_px_adj rO rI radd rmul rsub ropp Rth sx sk Hok T1 dx L1 Hda) as (EA & LA & _).
    destruct (sc_pk_adj rO rI radd rmul rsub ropp Rth sx sk Hok T2 dk L2 Hdb) as (EB & LB & _).
    cbv zeta. split; [|split].
    - cbn [OpFamily.dots]. rewrite EA, EB, E1, E2. unfold sc_px, sc_pk. rewrite !dot_map2.
      rewrite (seq_dot0 rO radd rmul) by (rewrite Hgy; exact Hseq).
      transitivity (radd (sumR (map (fun e : nat * (nat * nat) => radd
          (rmul (rmul (nth (fst e) gy rO) (nth (snd (snd e)) k rO)) (nth (fst (snd e)) dx rO))
          (rmul (rmul (nth (fst (snd e)) x rO) (nth (fst e) gy rO)) (nth (snd (snd e)) dk rO))) p)) rO).
      { rewrite (sumR_add rO rI radd rmul rsub ropp Rth). ring. }
      f_equal. apply (sumR_ext rO radd). intros e _. ring.
    - intros _. constructor; [exact LA|constructor; [exact LB|constructor]].
    - constructor; [|constructor]. unfold sized. rewrite map_length. apply (sequential_length p _ Hseq).
  Qed.
End ScalarDescs.
