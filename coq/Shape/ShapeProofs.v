(* Core theorems of the shape algebra (C09): constructor, canonical form, equality,
   element counts without wrap-around, update_dim / update_batch, leave-one-out test. *)
From Coq Require Import List NArith Bool Lia Arith.
From PV Require Import Base.U32 Shape.ShapeImpl Shape.ShapeSpec Shape.ShapeLemmas.
Import ListNotations.
Local Open Scope N_scope.

Lemma get_sget s i : get s i = sget (dims s) i.
Proof.
  unfold get, sget, depth. destruct (N.ltb_spec i (N.of_nat (length (dims s)))) as [H|H]; [reflexivity|].
  symmetry. apply nth_overflow. lia.
Qed.

Lemma check_size_spec v b : v < P32 -> b < P32 -> check_size v b = (v * b <? P32).
Proof.
  intros Hv Hb. unfold check_size. rewrite wrap64_small by (apply u32_mul_lt64; assumption).
  unfold U32MAX, P32. destruct (N.leb_spec (v * b) 4294967295); destruct (N.ltb_spec (v * b) 4294967296); lia.
Qed.

(* ---- constructor ---- *)
Definition ctor_admissible (ds : list N) (b : N) : Prop :=
  (length ds <= 8)%nat /\ Forall (fun d => 0 < d) ds /\ 0 < b /\ prodN ds * b < P32.

Lemma mk_shape_some ds b s : Forall u32 ds -> u32 b -> mk_shape ds b = Some s ->
  ctor_admissible ds b /\ s = mkS (trim ds) b (prodN ds) /\ wf s.
Proof.
  intros Hu Hb H. unfold mk_shape, MAX_DEPTH in H.
  destruct (N.ltb_spec 8 (N.of_nat (length ds))) as [Hl|Hl]; [discriminate|].
  destruct (ctor_loop ds 1) as [v|] eqn:Ec; [|discriminate].
  apply ctor_loop_some in Ec; [|unfold U32MAX; lia|exact Hu]. destruct Ec as [Ev Hv].
  rewrite N.mul_1_l in Ev. subst v.
  rewrite wrap32_small in H by (unfold U32MAX, P32 in *; lia).
  destruct (N.eqb_spec (prodN ds) 0) as [H0|H0]; [discriminate|].
  destruct (N.eqb_spec b 0) as [Hb0|Hb0]; [discriminate|]. cbn [orb] in H.
  rewrite check_size_spec in H by (unfold u32, U32MAX, P32 in *; lia).
  destruct (N.ltb_spec (prodN ds * b) P32) as [Hs|Hs]; [|discriminate].
  inversion H; subst s; clear H.
  assert (Hpos : Forall (fun d => 0 < d) ds).
  { apply Forall_forall. intros d Hd. destruct (N.eq_dec d 0) as [->|]; [|lia]. exfalso. apply H0.
    clear -Hd. induction ds as [|x r IH]; [contradiction|]. rewrite prodN_cons.
    destruct Hd as [->|Hd]; [lia|]. rewrite IH by exact Hd. lia. }
  split; [|split]; [repeat split; try lia; assumption|reflexivity|].
  constructor; cbn [dims batch volume].
  - pose proof (length_trim ds). lia.
  - apply Forall_trim; exact Hpos.
  - unfold canonical. apply trim_idem.
  - lia.
  - symmetry. apply prodN_trim.
  - rewrite prodN_trim. exact Hs.
Qed.

Lemma mk_shape_none ds b : Forall u32 ds -> u32 b -> mk_shape ds b = None ->
  ~ ctor_admissible ds b.
Proof.
  intros Hu Hb H [Hl [Hp [Hb0 Hs]]]. unfold mk_shape, MAX_DEPTH in H.
  destruct (N.ltb_spec 8 (N.of_nat (length ds))) as [Hl'|Hl']; [lia|].
  pose proof (prodN_pos ds Hp) as Hpp.
  destruct (ctor_loop ds 1) as [v|] eqn:Ec.
  - apply ctor_loop_some in Ec; [|unfold U32MAX; lia|exact Hu]. destruct Ec as [Ev Hv].
    rewrite N.mul_1_l in Ev. subst v.
    rewrite wrap32_small in H by (unfold U32MAX, P32 in *; lia).
    destruct (N.eqb_spec (prodN ds) 0) as [H0|H0]; [lia|].
    destruct (N.eqb_spec b 0) as [Hb00|Hb00]; [lia|]. cbn [orb] in H.
    rewrite check_size_spec in H by (unfold u32, U32MAX, P32 in *; lia).
    destruct (N.ltb_spec (prodN ds * b) P32); [discriminate|lia].
  - apply ctor_loop_none in Ec; auto; unfold U32MAX, P32 in *; try lia; nia.
Qed.

(* ---- canonical form determines the shape ---- *)
Lemma wf_ext a b : wf a -> wf b -> (forall i, get a i = get b i) -> batch a = batch b -> a = b.
Proof.
  intros Ha Hb Hg Hbt. destruct a as [da ba va], b as [db bb vb]. cbn [batch] in Hbt. subst bb.
  assert (da = db).
  { apply canonical_ext; [apply (wf_canon _ Ha)|apply (wf_canon _ Hb)|].
    intro i. specialize (Hg (N.of_nat i)). rewrite !get_sget in Hg. unfold sget in Hg.
    rewrite Nat2N.id in Hg. exact Hg. }
  subst db. f_equal. pose proof (wf_volume _ Ha) as E1. pose proof (wf_volume _ Hb) as E2. cbn [volume dims] in E1, E2. congruence.
Qed.

Lemma list_eqb_spec a : forall b, list_eqb a b = true <-> a = b.
Proof.
  induction a as [|x r IH]; intros [|y t]; cbn [list_eqb]; try (split; [discriminate|discriminate]); [tauto|].
  rewrite andb_true_iff, N.eqb_eq, IH. split; [intros [-> ->]; reflexivity|intro H; inversion H; auto].
Qed.

Theorem eqb_spec a b : wf a -> wf b ->
  (shape_eqb a b = true <-> dims a = dims b /\ batch a = batch b).
Proof.
  intros Ha Hb. unfold shape_eqb, has_same_dims, depth.
  rewrite !andb_true_iff, !N.eqb_eq, list_eqb_spec. split.
  - intros [[_ H] H']; auto.
  - intros [H H']; rewrite H; auto.
Qed.

Corollary eqb_eq a b : wf a -> wf b -> (shape_eqb a b = true <-> a = b).
Proof.
  intros Ha Hb. rewrite eqb_spec by assumption. split.
  - intros [Hd Hbt]. pose proof (wf_volume _ Ha) as E1. pose proof (wf_volume _ Hb) as E2.
    destruct a as [da ba va], b as [db bb vb]; cbn [dims batch volume] in *; subst. reflexivity.
  - intros ->; auto.
Qed.

(* ---- element counts never wrap ---- *)
Lemma fold_wrap_prod l : forall a, a * prodN l < P32 -> Forall (fun d => 0 < d) l ->
  fold_left (fun a d => wrap32 (a * d)) l a = a * prodN l.
Proof.
  induction l as [|x r IH]; intros a Ha Hp; cbn [fold_left]; rewrite ?prodN_nil, ?prodN_cons in *; [lia|].
  inversion Hp as [|? ? Hx Hr]; subst. pose proof (prodN_pos r Hr).
  rewrite wrap32_small by nia. rewrite IH; [lia| |exact Hr].
  replace (a * x * prodN r) with (a * (x * prodN r)) by lia. exact Ha.
Qed.

Theorem no_silent_wrap s : wf s ->
  size s = true_size s /\ true_size s < P32 /\ volume s = prodN (dims s) /\
  forall k, lower_volume s k = prodN (firstn (N.to_nat (N.min k (depth s))) (dims s)).
Proof.
  intro H. pose proof (wf_size _ H) as Hs. pose proof (wf_volume _ H) as Hv.
  unfold size, true_size. rewrite Hv. repeat split; auto.
  - rewrite wrap32_small by lia. lia.
  - intro k. unfold lower_volume. rewrite fold_wrap_prod.
    + lia.
    + rewrite N.mul_1_l. pose proof (prodN_firstn_le (dims s) (N.to_nat (N.min k (depth s))) (wf_pos _ H)).
      pose proof (wf_batch _ H). nia.
    + pose proof (wf_pos _ H) as Hp.
      rewrite <- (firstn_skipn (N.to_nat (N.min k (depth s))) (dims s)) in Hp.
      apply Forall_app in Hp. tauto.
Qed.

(* ---- update_batch ---- *)
Theorem update_batch_spec s b : wf s -> u32 b ->
  match update_batch s b with
  | Some r => 0 < b /\ prodN (dims s) * b < P32 /\ r = mkS (dims s) b (volume s) /\ wf r
  | None => ~ (0 < b /\ prodN (dims s) * b < P32)
  end.
Proof.
  intros H Hb. unfold update_batch.
  pose proof (wf_size _ H) as Hs. pose proof (wf_batch _ H) as Hb0. pose proof (wf_volume _ H) as Hv.
  destruct (N.eqb_spec b 0) as [->|Hb1]; [lia|].
  rewrite check_size_spec by (rewrite ?Hv; unfold u32 in *; nia).
  rewrite Hv. destruct (N.ltb_spec (prodN (dims s) * b) P32) as [Hlt|Hge]; cbn [negb].
  - split; [lia|]. split; [exact Hlt|]. split; [reflexivity|].
    constructor; cbn [dims batch volume]; try apply H; try lia.
  - lia.
Qed.

(* ---- update_dim ---- *)
Lemma nth_pad1 l k j : nth j (l ++ repeat 1 k) 1 = nth j l 1.
Proof.
  destruct (Nat.lt_ge_cases j (length l)) as [H|H].
  - apply app_nth1; exact H.
  - rewrite app_nth2 by exact H. rewrite (nth_overflow l) by exact H.
    destruct (Nat.lt_ge_cases (j - length l) k) as [H'|H'].
    + apply nth_repeat.
    + apply nth_overflow. rewrite repeat_length. exact H'.
Qed.

Lemma nth_set_nth l : forall i m j, (i < length l)%nat ->
  nth j (set_nth l i m) 1 = if Nat.eqb j i then m else nth j l 1.
Proof.
  induction l as [|x r IH]; intros i m j Hi; cbn [length] in Hi; [lia|].
  destruct i as [|i]; cbn [set_nth]; destruct j as [|j]; cbn [nth Nat.eqb]; auto.
  apply IH. lia.
Qed.

Lemma length_set_nth l : forall i m, length (set_nth l i m) = length l.
Proof. induction l as [|x r IH]; intros [|i] m; cbn [set_nth length]; auto. Qed.

Lemma prodN_set_nth l : forall i m, (i < length l)%nat -> Forall (fun d => 0 < d) l ->
  prodN (set_nth l i m) = prodN l / nth i l 1 * m.
Proof.
  induction l as [|x r IH]; intros i m Hi Hp; cbn [length] in Hi; [lia|].
  inversion Hp as [|? ? Hx Hr]; subst. pose proof (prodN_pos r Hr) as Hpr.
  destruct i as [|i]; cbn [set_nth nth]; rewrite !prodN_cons.
  - rewrite (N.mul_comm x (prodN r)). rewrite N.div_mul by lia. lia.
  - rewrite IH by (auto; lia).
    assert (Hnth : 0 < nth i r 1).
    { rewrite Forall_forall in Hr. apply Hr. apply nth_In. lia. }
    assert (Hdiv : exists q, prodN r = q * nth i r 1).
    { clear -Hi. revert i Hi. induction r as [|y t IHt]; intros i Hi; cbn [length] in Hi; [lia|].
      destruct i as [|i]; cbn [nth]; rewrite prodN_cons.
      - exists (prodN t). lia.
      - destruct (IHt i) as [q Hq]; [lia|]. exists (y * q). rewrite Hq. lia. }
    destruct Hdiv as [q Hq]. rewrite Hq.
    rewrite N.div_mul by lia.
    replace (x * (q * nth i r 1)) with (x * q * nth i r 1) by lia.
    rewrite N.div_mul by lia. lia.
Qed.

Lemma Forall_set_nth (P : N -> Prop) l : forall i m, Forall P l -> P m -> Forall P (set_nth l i m).
Proof.
  induction l as [|x r IH]; intros i m Hl Hm; cbn [set_nth]; [constructor|].
  inversion Hl; subst. destruct i; constructor; auto.
Qed.

Definition update_dim_admissible (s : shape) (dim m : N) : Prop :=
  dim < 8 /\ 0 < m /\ prodN (dims s) / get s dim * m * batch s < P32.

Theorem update_dim_spec s dim m : wf s -> u32 dim -> u32 m ->
  match update_dim s dim m with
  | Some r => update_dim_admissible s dim m /\ wf r /\ batch r = batch s /\
              (forall i, get r i = if i =? dim then m else get s i) /\
              prodN (dims r) = prodN (dims s) / get s dim * m
  | None => ~ update_dim_admissible s dim m
  end.
Proof.
  intros H Hd Hm. unfold update_dim, update_dim_admissible, MAX_DEPTH.
  pose proof (wf_size _ H) as Hs. pose proof (wf_batch _ H) as Hb0.
  pose proof (wf_volume _ H) as Hv. pose proof (wf_pos _ H) as Hp. pose proof (wf_depth _ H) as Hdp.
  pose proof (prodN_pos _ Hp) as Hpp.
  destruct (N.leb_spec 8 dim) as [H8|H8]; [lia|].
  destruct (N.eqb_spec m 0) as [->|Hm0]; [lia|].
  assert (Hg : 0 < get s dim).
  { rewrite get_sget. unfold sget. destruct (Nat.lt_ge_cases (N.to_nat dim) (length (dims s))) as [Hl|Hl].
    - rewrite Forall_forall in Hp. apply Hp. apply nth_In; exact Hl.
    - rewrite nth_overflow by exact Hl. lia. }
  assert (Hq : prodN (dims s) / get s dim <= prodN (dims s)).
  { apply N.div_le_upper_bound; [lia|]. nia. }
  rewrite Hv.
  assert (Hw : wrap64 (prodN (dims s) / get s dim * m) = prodN (dims s) / get s dim * m).
  { apply wrap64_small. apply u32_mul_lt64; unfold u32 in *; nia. }
  rewrite Hw. set (vol := prodN (dims s) / get s dim * m) in *.
  unfold check_size. rewrite N.mul_1_r.
  assert (Hvol64 : vol < P64) by (subst vol; apply u32_mul_lt64; unfold u32 in *; nia).
  rewrite (wrap64_small vol) by exact Hvol64.
  destruct (N.leb_spec vol U32MAX) as [Hv32|Hv32]; cbn [negb]; [|unfold U32MAX, P32 in *; nia].
  rewrite (wrap64_small (vol * batch s)) by (apply u32_mul_lt64; unfold u32, U32MAX, P32 in *; nia).
  destruct (N.leb_spec (vol * batch s) U32MAX) as [Hsz|Hsz]; cbn [negb]; [|unfold U32MAX, P32 in *; lia].
  (* success: characterise the result *)
  set (ds := if depth s <=? dim then dims s ++ repeat 1 (N.to_nat (dim + 1 - depth s)) else dims s).
  assert (Hlen : (N.to_nat dim < length ds)%nat /\ (length ds <= 8)%nat).
  { subst ds. unfold depth. destruct (N.leb_spec (N.of_nat (length (dims s))) dim) as [Hc|Hc].
    - rewrite app_length, repeat_length. lia.
    - lia. }
  assert (Hnth : forall j, nth j ds 1 = nth j (dims s) 1).
  { intro j. subst ds. destruct (depth s <=? dim); [apply nth_pad1|reflexivity]. }
  assert (Hprod : prodN ds = prodN (dims s)).
  { subst ds. destruct (depth s <=? dim); [|reflexivity]. rewrite prodN_app, prodN_repeat1. lia. }
  assert (Hpos : Forall (fun d => 0 < d) ds).
  { subst ds. destruct (depth s <=? dim); [|exact Hp]. apply Forall_app. split; [exact Hp|].
    apply Forall_forall. intros x Hx. apply repeat_spec in Hx. lia. }
  assert (Hgd : get s dim = nth (N.to_nat dim) ds 1).
  { rewrite get_sget. unfold sget. symmetry. apply Hnth. }
  assert (Hnewprod : prodN (set_nth ds (N.to_nat dim) m) = vol).
  { rewrite prodN_set_nth by tauto. rewrite Hprod, <- Hgd. reflexivity. }
  split; [|split; [|split; [|split]]]; cbn [dims batch volume].
  - split; [lia|]. split; [lia|]. unfold U32MAX, P32 in *. fold vol. lia.
  - constructor; cbn [dims batch volume].
    + pose proof (length_trim (set_nth ds (N.to_nat dim) m)). rewrite length_set_nth in *. lia.
    + apply Forall_trim. apply Forall_set_nth; [exact Hpos|lia].
    + unfold canonical. apply trim_idem.
    + exact Hb0.
    + rewrite prodN_trim, Hnewprod. apply wrap32_small. unfold U32MAX, P32 in *. lia.
    + rewrite prodN_trim, Hnewprod. unfold U32MAX, P32 in *. lia.
  - reflexivity.
  - intro i. rewrite !get_sget. unfold sget. cbn [dims]. rewrite nth_trim.
    rewrite nth_set_nth by tauto. rewrite Hnth.
    destruct (N.eqb_spec i dim) as [->|Hne].
    + rewrite Nat.eqb_refl. reflexivity.
    + destruct (Nat.eqb_spec (N.to_nat i) (N.to_nat dim)) as [E|E]; [lia|reflexivity].
  - rewrite prodN_trim. exact Hnewprod.
Qed.
