(* Executable model of primitiv/core/shape.{h,cc}, shape_ops.cc and the FWD_SHAPE-only
   rules of operator_impl.cc, transcribed statement by statement.  uint32 quantities are
   N with the wrap written out (wrap32 / wrap64) wherever the C++ computes in that width.
   No proofs in this file: the model must keep running when a proof breaks. *)
From Coq Require Import List NArith Bool.
From PV Require Import Base.U32.
Import ListNotations.
Local Open Scope N_scope.

Record shape := mkS { dims : list N; batch : N; volume : N }.

Definition MAX_DEPTH : N := 8.
Definition depth (s : shape) : N := N.of_nat (length (dims s)).

(* Shape::operator[] : i < depth_ ? dims_[i] : 1 *)
Definition get (s : shape) (i : N) : N :=
  if i <? depth s then nth (N.to_nat i) (dims s) 1 else 1.

(* while (depth_ > 0 && dims_[depth_ - 1] == 1) --depth_; *)
Fixpoint trim (l : list N) : list N :=
  match l with
  | [] => []
  | x :: r => match trim r with
              | [] => if x =? 1 then [] else [x]
              | r' => x :: r'
              end
  end.

(* file-local check_size(volume, batch) of shape.cc: the product is formed in uint64 *)
Definition check_size (v b : N) : bool := wrap64 (v * b) <=? U32MAX.

(* for (d : dims) { dims_[depth_++] = d; volume *= d; check_size(volume, 1); } *)
Fixpoint ctor_loop (ds : list N) (vol : N) : option N :=
  match ds with
  | [] => Some vol
  | d :: r => let v := wrap64 (vol * d) in
              if check_size v 1 then ctor_loop r v else None
  end.

Definition scalar_shape : shape := mkS [] 1 1.

(* Shape::Shape(dims, batch) -- both constructors have the same body *)
Definition mk_shape (ds : list N) (b : N) : option shape :=
  if MAX_DEPTH <? N.of_nat (length ds) then None else
  match ctor_loop ds 1 with
  | None => None
  | Some v =>
      let v32 := wrap32 v in
      if (v32 =? 0) || (b =? 0) then None else
      if check_size v32 b then Some (mkS (trim ds) b v32) else None
  end.

Definition lower_volume (s : shape) (dim : N) : N :=
  fold_left (fun a d => wrap32 (a * d))
            (firstn (N.to_nat (N.min dim (depth s))) (dims s)) 1.
Definition size (s : shape) : N := wrap32 (batch s * volume s).
Definition has_batch (s : shape) : bool := 1 <? batch s.
Definition has_compatible_batch (a b : shape) : bool :=
  (batch a =? batch b) || (batch a =? 1) || (batch b =? 1).
Definition is_scalar (s : shape) : bool := depth s =? 0.
Definition is_column_vector (s : shape) : bool := depth s <=? 1.
Definition is_matrix (s : shape) : bool := depth s <=? 2.

Fixpoint list_eqb (a b : list N) : bool :=
  match a, b with
  | [], [] => true
  | x :: a', y :: b' => (x =? y) && list_eqb a' b'
  | _, _ => false
  end.

(* the loop reads rhs.dims_[i] for i < depth_; the result is masked by depth_ == rhs.depth_,
   so reads beyond rhs.depth_ never influence it *)
Definition has_same_dims (a b : shape) : bool :=
  (depth a =? depth b) && list_eqb (dims a) (dims b).
Definition shape_eqb (a b : shape) : bool := has_same_dims a b && (batch a =? batch b).

(* nl = depth_ > 0 && depth_ - 1 == dim ? dim : depth_; while (nl>0 && dims_[nl-1]==1) --nl; *)
Definition loo_len (s : shape) (dim : N) : N :=
  let nl := if (0 <? depth s) && (depth s - 1 =? dim) then dim else depth s in
  N.of_nat (length (trim (firstn (N.to_nat nl) (dims s)))).

Fixpoint loo_loop (a b : list N) (i dim : N) (n : nat) (p : bool) : bool :=
  match n with
  | O => p
  | S n' =>
      let p' := p && ((nth (N.to_nat i) a 1 =? nth (N.to_nat i) b 1) || (i =? dim)) in
      loo_loop a b (i + 1) dim n' p'
  end.

Definition has_same_loo_dims (a b : shape) (dim : N) : bool :=
  let nl := loo_len a dim in
  let nr := loo_len b dim in
  loo_loop (dims a) (dims b) 0 dim (N.to_nat nl) (nl =? nr).

(* list update at position i (i < length) *)
Fixpoint set_nth (l : list N) (i : nat) (m : N) : list N :=
  match l, i with
  | [], _ => []
  | _ :: r, O => m :: r
  | x :: r, S i' => x :: set_nth r i' m
  end.

(* Shape::update_dim, checks first (in source order), then the mutations *)
Definition update_dim (s : shape) (dim m : N) : option shape :=
  if MAX_DEPTH <=? dim then None else
  if m =? 0 then None else
  let vol := wrap64 ((volume s / get s dim) * m) in
  if negb (check_size vol 1) then None else
  if negb (check_size vol (batch s)) then None else
  let ds := if depth s <=? dim
            then dims s ++ repeat 1 (N.to_nat (dim + 1 - depth s))
            else dims s in
  Some (mkS (trim (set_nth ds (N.to_nat dim) m)) (batch s) (wrap32 vol)).

Definition update_batch (s : shape) (b : N) : option shape :=
  if b =? 0 then None else
  if negb (check_size (volume s) b) then None else
  Some (mkS (dims s) b (volume s)).

Definition resize_dim := update_dim.
Definition resize_batch := update_batch.

(* ------------------------------ shape_ops.cc ------------------------------ *)

Definition reshape (before after : shape) : option shape :=
  if negb (volume before =? volume after) ||
     (has_batch after && negb (batch after =? batch before)) then None
  else resize_batch after (batch before).

Definition flatten (x : shape) : option shape := mk_shape [volume x] (batch x).

Definition scalar_op (x k : shape) : option shape :=
  if negb (is_scalar k) || negb (has_compatible_batch x k) then None
  else resize_batch x (N.max (batch x) (batch k)).

Definition elementwise (a b : shape) : option shape :=
  if negb (has_same_dims a b) || negb (has_compatible_batch a b) then None
  else resize_batch a (N.max (batch a) (batch b)).

Definition slice (x : shape) (dim lower upper : N) : option shape :=
  if (upper <=? lower) || (get x dim <? upper) then None
  else if depth x <=? dim then Some x else resize_dim x dim (upper - lower).

(* the loop of concat over xs[1..]; sum is uint64 *)
Fixpoint concat_loop (s0 : shape) (sum : N) (rest : list shape) (dim : N)
  : option (shape * N) :=
  match rest with
  | [] => Some (s0, sum)
  | s :: r =>
      if negb (has_same_loo_dims s0 s dim) || negb (has_compatible_batch s0 s) then None
      else
        match (if has_batch s0 then Some s0 else update_batch s0 (batch s)) with
        | None => None
        | Some s0' => concat_loop s0' (wrap64 (sum + get s dim)) r dim
        end
  end.

Definition concat (xs : list shape) (dim : N) : option shape :=
  match xs with
  | [] => None
  | x0 :: rest =>
      match concat_loop x0 (get x0 dim) rest dim with
      | None => None
      | Some (s0, sum) =>
          if U32MAX <? sum then None else update_dim s0 dim sum
      end
  end.

Definition broadcast (x : shape) (dim sz : N) : option shape :=
  if negb (get x dim =? 1) || (sz =? 0) then None else resize_dim x dim sz.

(* bi = ids.size() (truncated to uint32 in the C++; the model takes lists shorter than 2^32) *)
Definition pick (x : shape) (ids : list N) (dim : N) : option shape :=
  let n := get x dim in
  let bi := N.of_nat (length ids) in
  if (bi =? 0) || (negb (batch x =? bi) && has_batch x && (1 <? bi)) then None else
  if negb (forallb (fun i => i <? n) ids) then None else
  match resize_dim x dim 1 with
  | None => None
  | Some r => update_batch r (N.max (batch x) bi)
  end.

Definition transpose (x : shape) : option shape :=
  if negb (is_matrix x) then None else mk_shape [get x 1; get x 0] (batch x).

Fixpoint permute_loop (x : shape) (perm : list N) (n : N) (picked : list N)
  : option (list N) :=
  match perm with
  | [] => Some []
  | p :: r =>
      if n <=? p then None else
      if existsb (N.eqb p) picked then None else
      match permute_loop x r n (p :: picked) with
      | None => None
      | Some ds => Some (get x p :: ds)
      end
  end.

Definition permute_dims (x : shape) (perm : list N) : option shape :=
  let n := N.of_nat (length perm) in
  if n <? depth x then None else
  match permute_loop x perm n [] with
  | None => None
  | Some ds => mk_shape ds (batch x)
  end.

Definition matmul (l r : shape) : option shape :=
  if negb (is_matrix l) || negb (is_matrix r) || negb (get l 1 =? get r 0) ||
     negb (has_compatible_batch l r) then None
  else mk_shape [get l 0; get r 1] (N.max (batch l) (batch r)).

Definition conv2d (x w : shape) (p0 p1 s0 s1 d0 d1 : N) : option shape :=
  let x0 := wrap64 (get x 0 + wrap64 (2 * p0)) in
  let x1 := wrap64 (get x 1 + wrap64 (2 * p1)) in
  let w0 := wrap64 (wrap64 (wrap32 (get w 0 - 1) * d0) + 1) in
  let w1 := wrap64 (wrap64 (wrap32 (get w 1 - 1) * d1) + 1) in
  if (3 <? depth x) || (4 <? depth w) || (x0 <? w0) || (x1 <? w1) ||
     negb (get x 2 =? get w 2) || negb (has_compatible_batch x w) ||
     (s0 =? 0) || (s1 =? 0) || (d0 =? 0) || (d1 =? 0) then None else
  let y0 := wrap64 ((x0 - w0) / s0 + 1) in
  let y1 := wrap64 ((x1 - w1) / s1 + 1) in
  if (U32MAX <? y0) || (U32MAX <? y1) then None else
  mk_shape [y0; y1; get w 3] (N.max (batch x) (batch w)).

Definition pool2d (x : shape) (w0 w1 p0 p1 s0 s1 : N) : option shape :=
  let x0 := wrap64 (get x 0 + wrap64 (2 * p0)) in
  let x1 := wrap64 (get x 1 + wrap64 (2 * p1)) in
  if (3 <? depth x) || (x0 <? w0) || (x1 <? w1) ||
     (w0 =? 0) || (w1 =? 0) || (s0 =? 0) || (s1 =? 0) then None else
  let y0 := wrap64 ((x0 - w0) / s0 + 1) in
  let y1 := wrap64 ((x1 - w1) / s1 + 1) in
  if (U32MAX <? y0) || (U32MAX <? y1) then None else
  mk_shape [y0; y1; get x 2] (batch x).

Definition batch_pick (x : shape) (ids : list N) : option shape :=
  let n := batch x in
  let bi := N.of_nat (length ids) in
  if bi =? 0 then None else
  if negb (forallb (fun i => i <? n) ids) then None else
  resize_batch x bi.

Definition batch_slice (x : shape) (lower upper : N) : option shape :=
  if (upper <=? lower) || (batch x <? upper) then None
  else resize_batch x (upper - lower).

Fixpoint batch_concat_loop (s0 : shape) (sum : N) (rest : list shape) : option N :=
  match rest with
  | [] => Some sum
  | s :: r => if negb (has_same_dims s0 s) then None
              else batch_concat_loop s0 (wrap64 (sum + batch s)) r
  end.

Definition batch_concat (xs : list shape) : option shape :=
  match xs with
  | [] => None
  | x0 :: rest =>
      match batch_concat_loop x0 (batch x0) rest with
      | None => None
      | Some sum => if U32MAX <? sum then None else update_batch x0 sum
      end
  end.

(* ------------------- FWD_SHAPE-only rules of operator_impl.cc ------------------- *)

(* FWD_SHAPE(Split): every one of the n outputs has the returned shape
   (xs = shape_ops::slice(xs, dim_, 0, span) since the repair of the Node/Tensor split mismatch) *)
Definition split (x : shape) (dim n : N) : option shape :=
  if n =? 0 then None else
  let total := get x dim in
  let span := total / n in
  if negb (wrap32 (span * n) =? total) then None else slice x dim 0 span.

Definition batch_split (x : shape) (n : N) : option shape :=
  if n =? 0 then None else
  let total := batch x in
  let span := total / n in
  if negb (wrap32 (span * n) =? total) then None else update_batch x span.

(* FWD_SHAPE(SoftmaxCrossEntropy) *)
Definition sce (x t : shape) (dim : N) : option shape :=
  match elementwise x t with
  | None => None
  | Some y => update_dim y dim 1
  end.

(* FWD_SHAPE(Max|Min|Sum|LogSumExp): x.resize_dim(dim, 1) *)
Definition reduce (x : shape) (dim : N) : option shape := resize_dim x dim 1.
(* FWD_SHAPE(Identity): Shape({size, size}) *)
Definition identity (sz : N) : option shape := mk_shape [sz; sz] 1.
(* FWD_SHAPE(BatchSum) *)
Definition batch_sum (x : shape) : option shape := resize_batch x 1.
