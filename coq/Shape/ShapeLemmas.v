(* Lemmas about the building blocks of the shape model (trim, products, get/set). *)
From Coq Require Import List NArith Bool Lia Arith.
From PV Require Import Base.U32 Shape.ShapeImpl Shape.ShapeSpec.
Import ListNotations.
Local Open Scope N_scope.

Lemma prodN_nil : prodN [] = 1.  Proof. reflexivity. Qed.
Lemma prodN_cons x r : prodN (x :: r) = x * prodN r.  Proof. reflexivity. Qed.
Global Opaque prodN.

Lemma trim_nil_iff l : trim l = [] <-> Forall (fun d => d = 1) l.
Proof.
  induction l as [|x r IH]; cbn [trim].
  - split; auto.
  - destruct (trim r) eqn:E.
    + destruct (N.eqb_spec x 1) as [->|Hx].
      * split; auto. intros _. constructor; auto. apply IH; reflexivity.
      * split; [discriminate|]. intro H; inversion H; subst; congruence.
    + split; [discriminate|]. intro H; inversion H as [|? ? ? Hr]; subst.
      apply IH in Hr. discriminate.
Qed.

Lemma nth_trim l : forall i, nth i (trim l) 1 = nth i l 1.
Proof.
  induction l as [|x r IH]; intro i; cbn [trim]; [reflexivity|].
  destruct (trim r) eqn:E.
  - assert (Hr : Forall (fun d => d = 1) r) by (apply trim_nil_iff; exact E).
    assert (Hn : forall j, nth j r 1 = 1).
    { intro j. destruct (Nat.lt_ge_cases j (length r)) as [Hlt|Hge].
      - rewrite Forall_forall in Hr. apply Hr. apply nth_In; exact Hlt.
      - apply nth_overflow; exact Hge. }
    destruct (N.eqb_spec x 1) as [->|Hx]; destruct i as [|i]; cbn [nth]; auto;
      rewrite ?Hn; try destruct i; reflexivity.
  - destruct i as [|i]; cbn [nth]; [reflexivity|]. rewrite <- IH. reflexivity.
Qed.

Lemma prodN_trim l : prodN (trim l) = prodN l.
Proof.
  induction l as [|x r IH]; cbn [trim]; [reflexivity|].
  destruct (trim r) eqn:E.
  - rewrite prodN_cons, <- IH, prodN_nil.
    destruct (N.eqb_spec x 1) as [->|Hx]; rewrite ?prodN_cons, ?prodN_nil; lia.
  - rewrite !prodN_cons, <- IH, prodN_cons. reflexivity.
Qed.

Lemma length_trim l : (length (trim l) <= length l)%nat.
Proof.
  induction l as [|x r IH]; cbn [trim]; [auto|].
  destruct (trim r) eqn:E.
  - destruct (x =? 1); cbn; lia.
  - cbn [length] in *. lia.
Qed.

Lemma Forall_trim (P : N -> Prop) l : Forall P l -> Forall P (trim l).
Proof.
  induction l as [|x r IH]; cbn [trim]; intro H; [constructor|].
  inversion H as [|? ? Hx Hr]; subst. specialize (IH Hr).
  destruct (trim r) eqn:E.
  - destruct (x =? 1); constructor; auto.
  - constructor; auto.
Qed.

Lemma trim_idem l : trim (trim l) = trim l.
Proof.
  induction l as [|x r IH]; cbn [trim]; [reflexivity|].
  destruct (trim r) as [|y t] eqn:E.
  - destruct (N.eqb_spec x 1) as [->|Hx]; cbn [trim]; [reflexivity|].
    destruct (N.eqb_spec x 1); [contradiction|reflexivity].
  - cbn [trim]. cbn [trim] in IH. rewrite IH. reflexivity.
Qed.

(* last element of a canonical non-empty list is not 1 *)
Lemma canonical_cons x r : canonical (x :: r) -> canonical r /\ (r = [] -> x <> 1).
Proof.
  unfold canonical; cbn [trim]. destruct (trim r) as [|y t] eqn:E.
  - destruct (N.eqb_spec x 1) as [->|Hx]; [discriminate|].
    intro H; inversion H; subst. split; [exact E|auto].
  - intro H; inversion H as [Hr]. rewrite Hr. split; [reflexivity|]. intros ->. discriminate.
Qed.

Lemma canonical_ext a : forall b, canonical a -> canonical b ->
  (forall i, nth i a 1 = nth i b 1) -> a = b.
Proof.
  induction a as [|x r IH]; intros b Ha Hb H.
  - destruct b as [|y t]; [reflexivity|]. exfalso.
    assert (Hall : Forall (fun d => d = 1) (y :: t)).
    { apply Forall_forall. intros d Hd. apply In_nth with (d := 1) in Hd.
      destruct Hd as [j [_ <-]]. rewrite <- H. destruct j; reflexivity. }
    apply trim_nil_iff in Hall. unfold canonical in Hb. congruence.
  - destruct b as [|y t].
    + exfalso.
      assert (Hall : Forall (fun d => d = 1) (x :: r)).
      { apply Forall_forall. intros d Hd. apply In_nth with (d := 1) in Hd.
        destruct Hd as [j [_ <-]]. rewrite H. destruct j; reflexivity. }
      apply trim_nil_iff in Hall. unfold canonical in Ha. congruence.
    + pose proof (H O) as H0; cbn in H0; subst y.
      f_equal. apply IH.
      * apply (canonical_cons x r Ha).
      * apply (canonical_cons x t Hb).
      * intro i. exact (H (S i)).
Qed.

Lemma prodN_pos l : Forall (fun d => 0 < d) l -> 0 < prodN l.
Proof.
  induction 1 as [|x r Hx Hr IH]; rewrite ?prodN_nil, ?prodN_cons; [lia|nia].
Qed.

Lemma prodN_app a b : prodN (a ++ b) = prodN a * prodN b.
Proof.
  induction a as [|x r IH]; cbn [app]; rewrite ?prodN_nil, ?prodN_cons; [lia|].
  rewrite IH. lia.
Qed.

Lemma prodN_repeat1 n : prodN (repeat 1 n) = 1.
Proof. induction n; cbn [repeat]; rewrite ?prodN_nil, ?prodN_cons; lia. Qed.

Lemma prodN_firstn_le l k : Forall (fun d => 0 < d) l -> prodN (firstn k l) <= prodN l.
Proof.
  intro H. rewrite <- (firstn_skipn k l) at 2. rewrite prodN_app.
  assert (0 < prodN (skipn k l)).
  { apply prodN_pos. rewrite <- (firstn_skipn k l) in H. apply Forall_app in H. tauto. }
  nia.
Qed.

(* the constructor loop: exact product, or an overflow of a prefix product *)
Lemma ctor_loop_some ds : forall v r, v <= U32MAX -> Forall u32 ds ->
  ctor_loop ds v = Some r -> r = v * prodN ds /\ r <= U32MAX.
Proof.
  induction ds as [|d t IH]; intros v r Hv Hu H; cbn [ctor_loop] in H.
  - inversion H; subst. rewrite prodN_nil. split; lia.
  - inversion Hu as [|? ? Hd Ht]; subst.
    unfold check_size in H. rewrite N.mul_1_r in H.
    assert (Hw : wrap64 (v * d) = v * d).
    { apply wrap64_small. apply u32_mul_lt64; unfold u32, U32MAX, P32 in *; lia. }
    rewrite Hw in H. rewrite wrap64_small in H by (unfold P64; unfold U32MAX in *; destruct (v * d <=? 4294967295) eqn:E; [apply N.leb_le in E; lia| apply u32_mul_lt64; unfold u32, P32 in *; lia]).
    destruct (N.leb_spec (v * d) U32MAX) as [Hle|Hgt]; [|discriminate].
    apply IH in H; auto. destruct H as [-> Hr]. split; [|exact Hr].
    rewrite prodN_cons. lia.
Qed.

Lemma ctor_loop_none ds : forall v, 0 < v -> v <= U32MAX -> Forall u32 ds ->
  Forall (fun d => 0 < d) ds -> ctor_loop ds v = None -> U32MAX < v * prodN ds.
Proof.
  induction ds as [|d t IH]; intros v Hv0 Hv Hu Hp H; cbn [ctor_loop] in H; [discriminate|].
  inversion Hu as [|? ? Hd Ht]; subst. inversion Hp as [|? ? Hd0 Ht0]; subst.
  unfold check_size in H. rewrite N.mul_1_r in H.
  assert (Hw : wrap64 (v * d) = v * d).
  { apply wrap64_small. apply u32_mul_lt64; unfold u32, U32MAX, P32 in *; lia. }
  rewrite Hw in H. rewrite wrap64_small in H by (apply u32_mul_lt64; unfold u32, U32MAX, P32 in *; lia).
  rewrite prodN_cons.
  pose proof (prodN_pos t Ht0) as Hpt.
  destruct (N.leb_spec (v * d) U32MAX) as [Hle|Hgt].
  - apply IH in H; auto; nia.
  - nia.
Qed.
