(* Specification theorems for every shape rule of shape_ops.cc and the FWD_SHAPE-only rules
   (C09).  Each theorem has the form
     match rule args with
     | Some r => admissible args /\ wf r /\ batch r = ... /\ (forall i, get r i = ...)
     | None   => ~ admissible args
     end
   where `admissible` is written in unbounded arithmetic over N (true products, no wrap) and
   contains, whenever it is not implied by the rest, "the true element count of the result is
   below 2^32".  By wf_ext the `Some` branch determines the result uniquely. *)
From Coq Require Import List NArith Bool Lia Arith Permutation.
From PV Require Import Base.U32 Shape.ShapeImpl Shape.ShapeSpec Shape.ShapeLemmas Shape.ShapeProofs.
Import ListNotations.
Local Open Scope N_scope.

(* ------------------------------------------------------------------------------------ *)
(* basic facts about well-formed shapes                                                  *)
(* ------------------------------------------------------------------------------------ *)

Lemma nth_pos l j : Forall (fun d => 0 < d) l -> 0 < nth j l 1.
Proof.
  intro H. destruct (Nat.lt_ge_cases j (length l)) as [Hl|Hl].
  - rewrite Forall_forall in H. apply H. apply nth_In; exact Hl.
  - rewrite nth_overflow by exact Hl. lia.
Qed.

Lemma nth_divides l : forall j, exists q, prodN l = q * nth j l 1.
Proof.
  induction l as [|x r IH]; intro j.
  - exists 1. destruct j; cbn [nth]; rewrite prodN_nil; lia.
  - destruct j as [|j]; cbn [nth]; rewrite prodN_cons.
    + exists (prodN r). lia.
    + destruct (IH j) as [q Hq]. exists (x * q). rewrite Hq. lia.
Qed.

Lemma get_pos s i : wf s -> 0 < get s i.
Proof. intro H. rewrite get_sget. apply nth_pos. apply (wf_pos _ H). Qed.

Lemma prod_pos s : wf s -> 0 < prodN (dims s).
Proof. intro H. apply prodN_pos. apply (wf_pos _ H). Qed.

Lemma prod_div_get s i : wf s -> prodN (dims s) / get s i * get s i = prodN (dims s).
Proof.
  intro H. pose proof (get_pos s i H) as Hg. rewrite get_sget in *. unfold sget in *.
  destruct (nth_divides (dims s) (N.to_nat i)) as [q Hq]. rewrite Hq.
  rewrite N.div_mul by lia. reflexivity.
Qed.

Lemma prod_div_get_pos s i : wf s -> 0 < prodN (dims s) / get s i.
Proof.
  intro H. pose proof (prod_div_get s i H) as E. pose proof (prod_pos s H) as Hp.
  destruct (N.eq_dec (prodN (dims s) / get s i) 0) as [E0|E0]; [|lia].
  rewrite E0 in E. lia.
Qed.

Lemma get_le_prod s i : wf s -> get s i <= prodN (dims s).
Proof.
  intro H. pose proof (prod_div_get s i H) as E. pose proof (prod_div_get_pos s i H) as Hq.
  pose proof (get_pos s i H) as Hg. nia.
Qed.

Lemma prod_u32 s : wf s -> prodN (dims s) < P32.
Proof. intro H. pose proof (wf_size _ H). pose proof (wf_batch _ H). nia. Qed.

Lemma batch_u32 s : wf s -> u32 (batch s).
Proof. intro H. unfold u32. pose proof (wf_size _ H). pose proof (prod_pos s H). nia. Qed.

Lemma get_u32 s i : wf s -> u32 (get s i).
Proof. intro H. unfold u32. pose proof (get_le_prod s i H). pose proof (prod_u32 s H). lia. Qed.

Lemma get_overflow s i : depth s <= i -> get s i = 1.
Proof.
  intro H. unfold get. destruct (N.ltb_spec i (depth s)); [lia|reflexivity].
Qed.

Lemma get_dims_eq a b i : dims a = dims b -> get a i = get b i.
Proof. intro E. rewrite !get_sget, E. reflexivity. Qed.

Lemma max_u32 a b : u32 a -> u32 b -> u32 (N.max a b).
Proof. unfold u32. lia. Qed.

(* ---- the constructor in `match` form ---- *)
Lemma mk_shape_spec ds b : Forall u32 ds -> u32 b ->
  match mk_shape ds b with
  | Some r => ctor_admissible ds b /\ wf r /\ batch r = b /\
              (forall i, get r i = sget ds i) /\ prodN (dims r) = prodN ds
  | None => ~ ctor_admissible ds b
  end.
Proof.
  intros Hu Hb. destruct (mk_shape ds b) as [r|] eqn:E.
  - apply mk_shape_some in E; auto. destruct E as [Ha [-> Hw]].
    split; [exact Ha|]. split; [exact Hw|]. split; [reflexivity|]. split.
    + intro i. rewrite get_sget. cbn [dims]. unfold sget. apply nth_trim.
    + cbn [dims]. apply prodN_trim.
  - apply mk_shape_none; auto.
Qed.

(* ---- update_batch in `get` form ---- *)
Lemma update_batch_get s b : wf s -> u32 b ->
  match update_batch s b with
  | Some r => (0 < b /\ prodN (dims s) * b < P32) /\ wf r /\ batch r = b /\
              dims r = dims s /\ (forall i, get r i = get s i)
  | None => ~ (0 < b /\ prodN (dims s) * b < P32)
  end.
Proof.
  intros H Hb. pose proof (update_batch_spec s b H Hb) as U.
  destruct (update_batch s b) as [r|]; [|exact U].
  destruct U as [U1 [U2 [-> U4]]]. split; [tauto|]. split; [exact U4|].
  split; [reflexivity|]. split; [reflexivity|]. intro i. apply get_dims_eq. reflexivity.
Qed.

(* ------------------------------------------------------------------------------------ *)
(* canonical length of a dimension function                                              *)
(* ------------------------------------------------------------------------------------ *)

Definition is_clen (f : nat -> N) (n : nat) : Prop :=
  (forall i, (n <= i)%nat -> f i = 1) /\ ((0 < n)%nat -> f (n - 1)%nat <> 1).

Lemma is_clen_unique f n m : is_clen f n -> is_clen f m -> n = m.
Proof.
  intros [A1 A2] [B1 B2]. destruct (Nat.lt_trichotomy n m) as [H|[H|H]]; auto; exfalso.
  - apply B2; [lia|]. apply A1. lia.
  - apply A2; [lia|]. apply B1. lia.
Qed.

Lemma is_clen_ext f g n : (forall i, f i = g i) -> is_clen f n -> is_clen g n.
Proof. intros E [A1 A2]. split; intros; rewrite <- E; auto. Qed.

Lemma canonical_last t : canonical t -> (0 < length t)%nat -> nth (length t - 1) t 1 <> 1.
Proof.
  induction t as [|x r IH]; intros Hc Hl; cbn [length] in *; [lia|].
  destruct (canonical_cons x r Hc) as [Hr Hx].
  destruct r as [|y t']; cbn [length nth] in *.
  - apply Hx. reflexivity.
  - replace (S (S (length t')) - 1)%nat with (S (length t')) by lia. cbn [nth].
    replace (length t') with (S (length t') - 1)%nat at 1 by lia. apply IH; [exact Hr|lia].
Qed.

Lemma is_clen_trim l : is_clen (fun i => nth i l 1) (length (trim l)).
Proof.
  split.
  - intros i Hi. rewrite <- nth_trim. apply nth_overflow. exact Hi.
  - intro Hl. rewrite <- nth_trim. apply canonical_last; [apply trim_idem|exact Hl].
Qed.

(* a well-formed shape has depth <= k iff every axis from k on has size 1 *)
Lemma depth_le_iff s k : wf s -> (depth s <= k <-> forall i, k <= i -> get s i = 1).
Proof.
  intro H. split.
  - intros Hd i Hi. apply get_overflow. lia.
  - intro Hg. destruct (N.le_gt_cases (depth s) k) as [Hle|Hgt]; [exact Hle|exfalso].
    unfold depth in *.
    assert (Hl : (0 < length (dims s))%nat) by lia.
    apply (canonical_last (dims s) (wf_canon _ H) Hl).
    specialize (Hg (N.of_nat (length (dims s) - 1))). rewrite get_sget in Hg. unfold sget in Hg.
    rewrite Nat2N.id in Hg. apply Hg. lia.
Qed.

(* ------------------------------------------------------------------------------------ *)
(* predicates                                                                            *)
(* ------------------------------------------------------------------------------------ *)

Lemma dims_eq_iff_get a b : wf a -> wf b -> (dims a = dims b <-> forall i, get a i = get b i).
Proof.
  intros Ha Hb. split.
  - intros E i. apply get_dims_eq; exact E.
  - intro Hg. apply canonical_ext; [apply (wf_canon _ Ha)|apply (wf_canon _ Hb)|].
    intro i. specialize (Hg (N.of_nat i)). rewrite !get_sget in Hg. unfold sget in Hg.
    rewrite Nat2N.id in Hg. exact Hg.
Qed.

Theorem has_same_dims_spec a b : wf a -> wf b ->
  (has_same_dims a b = true <-> forall i, get a i = get b i).
Proof.
  intros Ha Hb. rewrite <- dims_eq_iff_get by assumption.
  unfold has_same_dims, depth. rewrite andb_true_iff, N.eqb_eq, list_eqb_spec. split.
  - tauto.
  - intro E; rewrite E; auto.
Qed.

Theorem has_compatible_batch_spec a b :
  has_compatible_batch a b = true <-> (batch a = batch b \/ batch a = 1 \/ batch b = 1).
Proof. unfold has_compatible_batch. rewrite !orb_true_iff, !N.eqb_eq. tauto. Qed.

Theorem is_scalar_spec s : wf s -> (is_scalar s = true <-> forall i, get s i = 1).
Proof.
  intro H. unfold is_scalar. rewrite N.eqb_eq.
  pose proof (depth_le_iff s 0 H) as D. split.
  - intros E i. apply D; lia.
  - intro Hg. assert (depth s <= 0) by (apply D; intros; apply Hg). lia.
Qed.

Theorem is_column_vector_spec s : wf s ->
  (is_column_vector s = true <-> forall i, 1 <= i -> get s i = 1).
Proof. intro H. unfold is_column_vector. rewrite N.leb_le. apply depth_le_iff; exact H. Qed.

Theorem is_matrix_spec s : wf s -> (is_matrix s = true <-> forall i, 2 <= i -> get s i = 1).
Proof. intro H. unfold is_matrix. rewrite N.leb_le. apply depth_le_iff; exact H. Qed.

(* ---- leave-one-out comparison ---- *)
Definition maskf (l : list N) (d : nat) (i : nat) : N := if Nat.eqb i d then 1 else nth i l 1.

Lemma nth_firstn1 l : forall k i, nth i (firstn k l) 1 = if (i <? k)%nat then nth i l 1 else 1.
Proof.
  induction l as [|x r IH]; intros k i.
  - rewrite firstn_nil. destruct i; cbn [nth]; destruct (_ <? _)%nat; reflexivity.
  - destruct k as [|k]; cbn [firstn].
    + destruct i; reflexivity.
    + destruct i as [|i]; cbn [nth]; [reflexivity|]. rewrite IH.
      change (S i <? S k)%nat with (i <? k)%nat. reflexivity.
Qed.

Lemma loo_len_clen s dim : wf s ->
  is_clen (maskf (dims s) (N.to_nat dim)) (N.to_nat (loo_len s dim)).
Proof.
  intro H. unfold loo_len, depth. rewrite Nat2N.id.
  set (da := dims s). set (L := length da).
  destruct ((0 <? N.of_nat L) && (N.of_nat L - 1 =? dim)) eqn:Ec.
  - apply andb_true_iff in Ec. destruct Ec as [E1 E2].
    apply N.ltb_lt in E1. apply N.eqb_eq in E2.
    assert (Ed : N.to_nat dim = (L - 1)%nat) by lia.
    apply (is_clen_ext (fun i => nth i (firstn (N.to_nat dim) da) 1)); [|apply is_clen_trim].
    intro i. rewrite nth_firstn1. unfold maskf. rewrite Ed.
    destruct (Nat.ltb_spec i (L - 1)) as [Hi|Hi]; destruct (Nat.eqb_spec i (L - 1)) as [Hj|Hj]; try lia; auto.
    symmetry. apply nth_overflow. fold L. lia.
  - rewrite Nat2N.id. unfold L at 1. rewrite firstn_all.
    replace (trim da) with da by (symmetry; apply (wf_canon _ H)). fold L.
    split.
    + intros i Hi. unfold maskf. destruct (Nat.eqb i (N.to_nat dim)); [reflexivity|].
      apply nth_overflow. fold L. exact Hi.
    + intro HL. unfold maskf.
      apply andb_false_iff in Ec. destruct Ec as [Ec|Ec].
      * apply N.ltb_ge in Ec. lia.
      * apply N.eqb_neq in Ec.
        destruct (Nat.eqb_spec (L - 1) (N.to_nat dim)) as [E|E]; [lia|].
        apply (canonical_last da (wf_canon _ H)). exact HL.
Qed.

Lemma loo_loop_spec a b dim : forall n i p,
  loo_loop a b i dim n p = true <->
  p = true /\ forall j, i <= j < i + N.of_nat n -> j <> dim ->
                        nth (N.to_nat j) a 1 = nth (N.to_nat j) b 1.
Proof.
  induction n as [|n IH]; intros i p; cbn [loo_loop].
  - split; [intro Hp; split; [exact Hp|intros; lia]|tauto].
  - rewrite IH. rewrite andb_true_iff, orb_true_iff, !N.eqb_eq. split.
    + intros [[Hp Hi] Hr]. split; [exact Hp|]. intros j Hj Hne.
      destruct (N.eq_dec j i) as [->|Hji].
      * destruct Hi as [Hi|Hi]; [exact Hi|congruence].
      * apply Hr; [lia|exact Hne].
    + intros [Hp Hr]. split; [split; [exact Hp|]|].
      * destruct (N.eq_dec i dim) as [E|E]; [right; exact E|left; apply Hr; [lia|exact E]].
      * intros j Hj Hne. apply Hr; [lia|exact Hne].
Qed.

Theorem has_same_loo_dims_spec a b dim : wf a -> wf b -> u32 dim ->
  (has_same_loo_dims a b dim = true <-> forall i, i <> dim -> get a i = get b i).
Proof.
  intros Ha Hb _. unfold has_same_loo_dims. rewrite loo_loop_spec, N2Nat.id, N.eqb_eq.
  pose proof (loo_len_clen a dim Ha) as Ca. pose proof (loo_len_clen b dim Hb) as Cb.
  set (nl := loo_len a dim) in *. set (nr := loo_len b dim) in *. split.
  - intros [En Hl] i Hi. rewrite !get_sget. unfold sget.
    destruct (N.lt_ge_cases i nl) as [Hlt|Hge].
    + apply Hl; [lia|exact Hi].
    + destruct Ca as [Ca _]. destruct Cb as [Cb _].
      specialize (Ca (N.to_nat i)). specialize (Cb (N.to_nat i)). unfold maskf in Ca, Cb.
      destruct (Nat.eqb_spec (N.to_nat i) (N.to_nat dim)) as [E|E]; [lia|].
      rewrite Ca, Cb by lia. reflexivity.
  - intro Hg.
    assert (Hm : forall i, maskf (dims a) (N.to_nat dim) i = maskf (dims b) (N.to_nat dim) i).
    { intro i. unfold maskf. destruct (Nat.eqb_spec i (N.to_nat dim)) as [E|E]; [reflexivity|].
      specialize (Hg (N.of_nat i)). rewrite !get_sget in Hg. unfold sget in Hg.
      rewrite Nat2N.id in Hg. apply Hg. lia. }
    split.
    + apply (is_clen_ext _ _ _ Hm) in Ca. pose proof (is_clen_unique _ _ _ Ca Cb). lia.
    + intros j _ Hj. specialize (Hg j Hj). rewrite !get_sget in Hg. exact Hg.
Qed.
