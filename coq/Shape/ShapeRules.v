(* Specification theorems for every shape rule of shape_ops.cc and the FWD_SHAPE-only rules
   (C09).  Each theorem has the form
     match rule args with
     | Some r => admissible args /\ wf r /\ batch r = ... /\ (forall i, get r i = ...)
     | None   => ~ admissible args
     end
   where `admissible` is written in unbounded arithmetic over N (true products, no wrap) and
   contains, whenever it is not implied by the rest, "the true element count of the result is
   below 2^32".  By wf_ext the `Some` branch determines the result uniquely. *)
From Coq Require Import List NArith Bool Lia Arith Permutation.
From PV Require Import Base.U32 Shape.ShapeImpl Shape.ShapeSpec Shape.ShapeLemmas Shape.ShapeProofs.
Import ListNotations.
Local Open Scope N_scope.

(* ------------------------------------------------------------------------------------ *)
(* basic facts about well-formed shapes                                                  *)
(* ------------------------------------------------------------------------------------ *)

Lemma nth_pos l j : Forall (fun d => 0 < d) l -> 0 < nth j l 1.
Proof.
  intro H. destruct (Nat.lt_ge_cases j (length l)) as [Hl|Hl].
  - rewrite Forall_forall in H. apply H. apply nth_In; exact Hl.
  - rewrite nth_overflow by exact Hl. lia.
Qed.

Lemma nth_divides l : forall j, exists q, prodN l = q * nth j l 1.
Proof.
  induction l as [|x r IH]; intro j.
  - exists 1. destruct j; cbn [nth]; rewrite prodN_nil; lia.
  - destruct j as [|j]; cbn [nth]; rewrite prodN_cons.
    + exists (prodN r). lia.
    + destruct (IH j) as [q Hq]. exists (x * q). rewrite Hq. lia.
Qed.

Lemma get_pos s i : wf s -> 0 < get s i.
Proof. intro H. rewrite get_sget. apply nth_pos. apply (wf_pos _ H). Qed.

Lemma prod_pos s : wf s -> 0 < prodN (dims s).
Proof. intro H. apply prodN_pos. apply (wf_pos _ H). Qed.

Lemma prod_div_get s i : wf s -> prodN (dims s) / get s i * get s i = prodN (dims s).
Proof.
  intro H. pose proof (get_pos s i H) as Hg. rewrite get_sget in *. unfold sget in *.
  destruct (nth_divides (dims s) (N.to_nat i)) as [q Hq]. rewrite Hq.
  rewrite N.div_mul by lia. reflexivity.
Qed.

Lemma prod_div_get_pos s i : wf s -> 0 < prodN (dims s) / get s i.
Proof.
  intro H. pose proof (prod_div_get s i H) as E. pose proof (prod_pos s H) as Hp.
  destruct (N.eq_dec (prodN (dims s) / get s i) 0) as [E0|E0]; [|lia].
  rewrite E0 in E. lia.
Qed.

Lemma get_le_prod s i : wf s -> get s i <= prodN (dims s).
Proof.
  intro H. pose proof (prod_div_get s i H) as E. pose proof (prod_div_get_pos s i H) as Hq.
  pose proof (get_pos s i H) as Hg. nia.
Qed.

Lemma prod_u32 s : wf s -> prodN (dims s) < P32.
Proof. intro H. pose proof (wf_size _ H). pose proof (wf_batch _ H). nia. Qed.

Lemma batch_u32 s : wf s -> u32 (batch s).
Proof. intro H. unfold u32. pose proof (wf_size _ H). pose proof (prod_pos s H). nia. Qed.

Lemma get_u32 s i : wf s -> u32 (get s i).
Proof. intro H. unfold u32. pose proof (get_le_prod s i H). pose proof (prod_u32 s H). lia. Qed.

Lemma get_overflow s i : depth s <= i -> get s i = 1.
Proof.
  intro H. unfold get. destruct (N.ltb_spec i (depth s)); [lia|reflexivity].
Qed.

Lemma get_dims_eq a b i : dims a = dims b -> get a i = get b i.
Proof. intro E. rewrite !get_sget, E. reflexivity. Qed.

Lemma max_u32 a b : u32 a -> u32 b -> u32 (N.max a b).
Proof. unfold u32. lia. Qed.

(* ---- the constructor in `match` form ---- *)
Lemma mk_shape_spec ds b : Forall u32 ds -> u32 b ->
  match mk_shape ds b with
  | Some r => ctor_admissible ds b /\ wf r /\ batch r = b /\
              (forall i, get r i = sget ds i) /\ prodN (dims r) = prodN ds
  | None => ~ ctor_admissible ds b
  end.
Proof.
  intros Hu Hb. destruct (mk_shape ds b) as [r|] eqn:E.
  - apply mk_shape_some in E; auto. destruct E as [Ha [-> Hw]].
    split; [exact Ha|]. split; [exact Hw|]. split; [reflexivity|]. split.
    + intro i. rewrite get_sget. cbn [dims]. unfold sget. apply nth_trim.
    + cbn [dims]. apply prodN_trim.
  - apply mk_shape_none; auto.
Qed.

(* ---- update_batch in `get` form ---- *)
Lemma update_batch_get s b : wf s -> u32 b ->
  match update_batch s b with
  | Some r => (0 < b /\ prodN (dims s) * b < P32) /\ wf r /\ batch r = b /\
              dims r = dims s /\ (forall i, get r i = get s i)
  | None => ~ (0 < b /\ prodN (dims s) * b < P32)
  end.
Proof.
  intros H Hb. pose proof (update_batch_spec s b H Hb) as U.
  destruct (update_batch s b) as [r|]; [|exact U].
  destruct U as [U1 [U2 [-> U4]]]. split; [tauto|]. split; [exact U4|].
  split; [reflexivity|]. split; [reflexivity|]. intro i. apply get_dims_eq. reflexivity.
Qed.

(* ------------------------------------------------------------------------------------ *)
(* canonical length of a dimension function                                              *)
(* ------------------------------------------------------------------------------------ *)

Definition is_clen (f : nat -> N) (n : nat) : Prop :=
  (forall i, (n <= i)%nat -> f i = 1) /\ ((0 < n)%nat -> f (n - 1)%nat <> 1).

Lemma is_clen_unique f n m : is_clen f n -> is_clen f m -> n = m.
Proof.
  intros [A1 A2] [B1 B2]. destruct (Nat.lt_trichotomy n m) as [H|[H|H]]; auto; exfalso.
  - apply B2; [lia|]. apply A1. lia.
  - apply A2; [lia|]. apply B1. lia.
Qed.

Lemma is_clen_ext f g n : (forall i, f i = g i) -> is_clen f n -> is_clen g n.
Proof. intros E [A1 A2]. split; intros; rewrite <- E; auto. Qed.

Lemma canonical_last t : canonical t -> (0 < length t)%nat -> nth (length t - 1) t 1 <> 1.
Proof.
  induction t as [|x r IH]; intros Hc Hl; cbn [length] in *; [lia|].
  destruct (canonical_cons x r Hc) as [Hr Hx].
  destruct r as [|y t']; cbn [length nth] in *.
  - apply Hx. reflexivity.
  - replace (S (S (length t')) - 1)%nat with (S (length t')) by lia. cbn [nth].
    replace (length t') with (S (length t') - 1)%nat at 1 by lia. apply IH; [exact Hr|lia].
Qed.

Lemma is_clen_trim l : is_clen (fun i => nth i l 1) (length (trim l)).
Proof.
  split.
  - intros i Hi. rewrite <- nth_trim. apply nth_overflow. exact Hi.
  - intro Hl. rewrite <- nth_trim. apply canonical_last; [apply trim_idem|exact Hl].
Qed.

(* a well-formed shape has depth <= k iff every axis from k on has size 1 *)
Lemma depth_le_iff s k : wf s -> (depth s <= k <-> forall i, k <= i -> get s i = 1).
Proof.
  intro H. split.
  - intros Hd i Hi. apply get_overflow. lia.
  - intro Hg. destruct (N.le_gt_cases (depth s) k) as [Hle|Hgt]; [exact Hle|exfalso].
    unfold depth in *.
    assert (Hl : (0 < length (dims s))%nat) by lia.
    apply (canonical_last (dims s) (wf_canon _ H) Hl).
    specialize (Hg (N.of_nat (length (dims s) - 1))). rewrite get_sget in Hg. unfold sget in Hg.
    rewrite Nat2N.id in Hg. apply Hg. lia.
Qed.

(* ------------------------------------------------------------------------------------ *)
(* predicates                                                                            *)
(* ------------------------------------------------------------------------------------ *)

Lemma dims_eq_iff_get a b : wf a -> wf b -> (dims a = dims b <-> forall i, get a i = get b i).
Proof.
  intros Ha Hb. split.
  - intros E i. apply get_dims_eq; exact E.
  - intro Hg. apply canonical_ext; [apply (wf_canon _ Ha)|apply (wf_canon _ Hb)|].
    intro i. specialize (Hg (N.of_nat i)). rewrite !get_sget in Hg. unfold sget in Hg.
    rewrite Nat2N.id in Hg. exact Hg.
Qed.

Theorem has_same_dims_spec a b : wf a -> wf b ->
  (has_same_dims a b = true <-> forall i, get a i = get b i).
Proof.
  intros Ha Hb. rewrite <- dims_eq_iff_get by assumption.
  unfold has_same_dims, depth. rewrite andb_true_iff, N.eqb_eq, list_eqb_spec. split.
  - tauto.
  - intro E; rewrite E; auto.
Qed.

Theorem has_compatible_batch_spec a b :
  has_compatible_batch a b = true <-> (batch a = batch b \/ batch a = 1 \/ batch b = 1).
Proof. unfold has_compatible_batch. rewrite !orb_true_iff, !N.eqb_eq. tauto. Qed.

Theorem is_scalar_spec s : wf s -> (is_scalar s = true <-> forall i, get s i = 1).
Proof.
  intro H. unfold is_scalar. rewrite N.eqb_eq.
  pose proof (depth_le_iff s 0 H) as D. split.
  - intros E i. apply D; lia.
  - intro Hg. assert (depth s <= 0) by (apply D; intros; apply Hg). lia.
Qed.

Theorem is_column_vector_spec s : wf s ->
  (is_column_vector s = true <-> forall i, 1 <= i -> get s i = 1).
Proof. intro H. unfold is_column_vector. rewrite N.leb_le. apply depth_le_iff; exact H. Qed.

Theorem is_matrix_spec s : wf s -> (is_matrix s = true <-> forall i, 2 <= i -> get s i = 1).
Proof. intro H. unfold is_matrix. rewrite N.leb_le. apply depth_le_iff; exact H. Qed.

(* ---- leave-one-out comparison ---- *)
Definition maskf (l : list N) (d : nat) (i : nat) : N := if Nat.eqb i d then 1 else nth i l 1.

Lemma nth_firstn1 l : forall k i, nth i (firstn k l) 1 = if (i <? k)%nat then nth i l 1 else 1.
Proof.
  induction l as [|x r IH]; intros k i.
  - rewrite firstn_nil. destruct i; cbn [nth]; destruct (_ <? _)%nat; reflexivity.
  - destruct k as [|k]; cbn [firstn].
    + destruct i; reflexivity.
    + destruct i as [|i]; cbn [nth]; [reflexivity|]. rewrite IH.
      change (S i <? S k)%nat with (i <? k)%nat. reflexivity.
Qed.

Lemma loo_len_clen s dim : wf s ->
  is_clen (maskf (dims s) (N.to_nat dim)) (N.to_nat (loo_len s dim)).
Proof.
  intro H. unfold loo_len, depth. rewrite Nat2N.id.
  set (da := dims s). set (L := length da).
  destruct ((0 <? N.of_nat L) && (N.of_nat L - 1 =? dim)) eqn:Ec.
  - apply andb_true_iff in Ec. destruct Ec as [E1 E2].
    apply N.ltb_lt in E1. apply N.eqb_eq in E2.
    assert (Ed : N.to_nat dim = (L - 1)%nat) by lia.
    apply (is_clen_ext (fun i => nth i (firstn (N.to_nat dim) da) 1)); [|apply is_clen_trim].
    intro i. rewrite nth_firstn1. unfold maskf. rewrite Ed.
    destruct (Nat.ltb_spec i (L - 1)) as [Hi|Hi]; destruct (Nat.eqb_spec i (L - 1)) as [Hj|Hj]; try lia; auto.
    symmetry. apply nth_overflow. fold L. lia.
  - rewrite Nat2N.id. unfold L at 1. rewrite firstn_all.
    replace (trim da) with da by (symmetry; apply (wf_canon _ H)). fold L.
    split.
    + intros i Hi. unfold maskf. destruct (Nat.eqb i (N.to_nat dim)); [reflexivity|].
      apply nth_overflow. fold L. exact Hi.
    + intro HL. unfold maskf.
      apply andb_false_iff in Ec. destruct Ec as [Ec|Ec].
      * apply N.ltb_ge in Ec. lia.
      * apply N.eqb_neq in Ec.
        destruct (Nat.eqb_spec (L - 1) (N.to_nat dim)) as [E|E]; [lia|].
        apply (canonical_last da (wf_canon _ H)). exact HL.
Qed.

Lemma loo_loop_spec a b dim : forall n i p,
  loo_loop a b i dim n p = true <->
  p = true /\ forall j, i <= j < i + N.of_nat n -> j <> dim ->
                        nth (N.to_nat j) a 1 = nth (N.to_nat j) b 1.
Proof.
  induction n as [|n IH]; intros i p; cbn [loo_loop].
  - split; [intro Hp; split; [exact Hp|intros; lia]|tauto].
  - rewrite IH. rewrite andb_true_iff, orb_true_iff, !N.eqb_eq. split.
    + intros [[Hp Hi] Hr]. split; [exact Hp|]. intros j Hj Hne.
      destruct (N.eq_dec j i) as [->|Hji].
      * destruct Hi as [Hi|Hi]; [exact Hi|congruence].
      * apply Hr; [lia|exact Hne].
    + intros [Hp Hr]. split; [split; [exact Hp|]|].
      * destruct (N.eq_dec i dim) as [E|E]; [right; exact E|left; apply Hr; [lia|exact E]].
      * intros j Hj Hne. apply Hr; [lia|exact Hne].
Qed.

Theorem has_same_loo_dims_spec a b dim : wf a -> wf b -> u32 dim ->
  (has_same_loo_dims a b dim = true <-> forall i, i <> dim -> get a i = get b i).
Proof.
  intros Ha Hb _. unfold has_same_loo_dims. rewrite loo_loop_spec, N2Nat.id, N.eqb_eq.
  pose proof (loo_len_clen a dim Ha) as Ca. pose proof (loo_len_clen b dim Hb) as Cb.
  set (nl := loo_len a dim) in *. set (nr := loo_len b dim) in *. split.
  - intros [En Hl] i Hi. rewrite !get_sget. unfold sget.
    destruct (N.lt_ge_cases i nl) as [Hlt|Hge].
    + apply Hl; [lia|exact Hi].
    + destruct Ca as [Ca _]. destruct Cb as [Cb _].
      specialize (Ca (N.to_nat i)). specialize (Cb (N.to_nat i)). unfold maskf in Ca, Cb.
      destruct (Nat.eqb_spec (N.to_nat i) (N.to_nat dim)) as [E|E]; [lia|].
      rewrite Ca, Cb by lia. reflexivity.
  - intro Hg.
    assert (Hm : forall i, maskf (dims a) (N.to_nat dim) i = maskf (dims b) (N.to_nat dim) i).
    { intro i. unfold maskf. destruct (Nat.eqb_spec i (N.to_nat dim)) as [E|E]; [reflexivity|].
      specialize (Hg (N.of_nat i)). rewrite !get_sget in Hg. unfold sget in Hg.
      rewrite Nat2N.id in Hg. apply Hg. lia. }
    split.
    + apply (is_clen_ext _ _ _ Hm) in Ca. pose proof (is_clen_unique _ _ _ Ca Cb). lia.
    + intros j _ Hj. specialize (Hg j Hj). rewrite !get_sget in Hg. exact Hg.
Qed.

(* ------------------------------------------------------------------------------------ *)
(* small helpers for the rules                                                            *)
(* ------------------------------------------------------------------------------------ *)

Lemma sget_nil i : sget [] i = 1.
Proof. unfold sget. destruct (N.to_nat i); reflexivity. Qed.

Lemma sget_cons x r i : sget (x :: r) i = if i =? 0 then x else sget r (i - 1).
Proof.
  unfold sget. destruct (N.eqb_spec i 0) as [->|H]; [reflexivity|].
  replace (N.to_nat i) with (S (N.to_nat (i - 1))) by lia. reflexivity.
Qed.

Lemma sget2 a b i : sget [a; b] i = if i =? 0 then a else if i =? 1 then b else 1.
Proof.
  rewrite !sget_cons, sget_nil.
  destruct (N.eqb_spec i 0); [reflexivity|].
  destruct (N.eqb_spec (i - 1) 0); destruct (N.eqb_spec i 1); try lia; reflexivity.
Qed.

Lemma sget3 a b c i :
  sget [a; b; c] i = if i =? 0 then a else if i =? 1 then b else if i =? 2 then c else 1.
Proof.
  rewrite !sget_cons, sget_nil.
  destruct (N.eqb_spec i 0); [reflexivity|].
  destruct (N.eqb_spec (i - 1) 0); destruct (N.eqb_spec i 1); try lia; try reflexivity.
  destruct (N.eqb_spec (i - 1 - 1) 0); destruct (N.eqb_spec i 2); try lia; reflexivity.
Qed.

(* shrinking one axis never overflows *)
Lemma shrink_size s dim m : wf s -> m <= get s dim ->
  prodN (dims s) / get s dim * m * batch s < P32.
Proof.
  intros H Hm. pose proof (prod_div_get s dim H) as E. pose proof (wf_size _ H) as Hs.
  remember (prodN (dims s) / get s dim) as q eqn:Eq. clear Eq.
  assert (H1 : q * m <= q * get s dim) by (apply N.mul_le_mono_l; exact Hm).
  assert (H2 : q * m * batch s <= q * get s dim * batch s) by (apply N.mul_le_mono_r; exact H1).
  rewrite E in H2. lia.
Qed.

Lemma depth_le8 s : wf s -> depth s <= 8.
Proof. intro H. unfold depth. pose proof (wf_depth _ H). lia. Qed.

Lemma prod_depth2 s : depth s <= 2 -> prodN (dims s) = get s 0 * get s 1.
Proof.
  rewrite !get_sget. unfold sget, depth.
  change (N.to_nat 0) with 0%nat. change (N.to_nat 1) with 1%nat.
  destruct (dims s) as [|a [|b [|c t]]]; cbn [length nth]; intro Hl;
    rewrite ?prodN_cons, ?prodN_nil; lia.
Qed.

Lemma forallb_ltb n ids : forallb (fun i => i <? n) ids = true <-> Forall (fun i => i < n) ids.
Proof.
  rewrite forallb_forall, Forall_forall. split; intros H i Hi; specialize (H i Hi);
    [apply N.ltb_lt|apply N.ltb_lt]; exact H.
Qed.

Lemma length_zero_iff (A : Type) (l : list A) : N.of_nat (length l) = 0 <-> l = [].
Proof. destruct l; cbn [length]; split; intro H; try reflexivity; try discriminate; lia. Qed.

(* ------------------------------------------------------------------------------------ *)
(* reshape / flatten                                                                      *)
(* ------------------------------------------------------------------------------------ *)

Definition reshape_admissible (before after : shape) : Prop :=
  prodN (dims before) = prodN (dims after) /\ (batch after = 1 \/ batch after = batch before).

Theorem reshape_spec before after : wf before -> wf after ->
  match reshape before after with
  | Some r => reshape_admissible before after /\ wf r /\ batch r = batch before /\
              (forall i, get r i = get after i)
  | None => ~ reshape_admissible before after
  end.
Proof.
  intros Hb Ha. unfold reshape, reshape_admissible, resize_batch, has_batch.
  rewrite (wf_volume _ Hb), (wf_volume _ Ha).
  pose proof (wf_batch _ Ha) as Hba.
  destruct (N.eqb_spec (prodN (dims before)) (prodN (dims after))) as [Ev|Ev]; cbn [negb orb]; [|tauto].
  assert (Hok : batch after = 1 \/ batch after = batch before ->
    match update_batch after (batch before) with
    | Some r => (prodN (dims before) = prodN (dims after) /\
                 (batch after = 1 \/ batch after = batch before)) /\ wf r /\
                batch r = batch before /\ (forall i, get r i = get after i)
    | None => ~ (prodN (dims before) = prodN (dims after) /\
                 (batch after = 1 \/ batch after = batch before))
    end).
  { intro Hc. pose proof (update_batch_get after (batch before) Ha (batch_u32 _ Hb)) as U.
    destruct (update_batch after (batch before)) as [r|].
    - destruct U as [_ [Uw [Ub [_ Ug]]]]. tauto.
    - exfalso. apply U. split; [apply (wf_batch _ Hb)|]. rewrite <- Ev. apply (wf_size _ Hb). }
  destruct (N.ltb_spec 1 (batch after)) as [H1|H1]; cbn [andb].
  - destruct (N.eqb_spec (batch after) (batch before)) as [Eb|Eb]; cbn [negb].
    + apply Hok. right; exact Eb.
    + lia.
  - apply Hok. left. lia.
Qed.

Theorem flatten_spec x : wf x ->
  match flatten x with
  | Some r => wf r /\ batch r = batch x /\
              (forall i, get r i = if i =? 0 then prodN (dims x) else 1)
  | None => False
  end.
Proof.
  intro H. unfold flatten. rewrite (wf_volume _ H).
  assert (Hu : Forall u32 [prodN (dims x)]) by (constructor; [apply prod_u32; exact H|constructor]).
  pose proof (mk_shape_spec [prodN (dims x)] (batch x) Hu (batch_u32 _ H)) as M.
  destruct (mk_shape [prodN (dims x)] (batch x)) as [r|].
  - destruct M as [_ [Mw [Mb [Mg _]]]]. split; [exact Mw|]. split; [exact Mb|].
    intro i. rewrite Mg, sget_cons, sget_nil. reflexivity.
  - apply M. unfold ctor_admissible. cbn [length]. split; [lia|]. split.
    + constructor; [apply prod_pos; exact H|constructor].
    + split; [apply (wf_batch _ H)|]. rewrite prodN_cons, prodN_nil, N.mul_1_r. apply (wf_size _ H).
Qed.

(* ------------------------------------------------------------------------------------ *)
(* scalar_op / elementwise                                                                *)
(* ------------------------------------------------------------------------------------ *)

Definition batch_compatible (a b : shape) : Prop :=
  batch a = batch b \/ batch a = 1 \/ batch b = 1.

Definition scalar_op_admissible (x k : shape) : Prop :=
  (forall i, get k i = 1) /\ batch_compatible x k /\
  prodN (dims x) * N.max (batch x) (batch k) < P32.

Theorem scalar_op_spec x k : wf x -> wf k ->
  match scalar_op x k with
  | Some r => scalar_op_admissible x k /\ wf r /\ batch r = N.max (batch x) (batch k) /\
              (forall i, get r i = get x i)
  | None => ~ scalar_op_admissible x k
  end.
Proof.
  intros Hx Hk. unfold scalar_op, scalar_op_admissible, resize_batch.
  pose proof (is_scalar_spec k Hk) as S1. pose proof (has_compatible_batch_spec x k) as S2.
  fold (batch_compatible x k) in S2.
  destruct (is_scalar k) eqn:E1; cbn [negb orb].
  2: { intros [A _]. apply S1 in A. discriminate. }
  destruct (has_compatible_batch x k) eqn:E2; cbn [negb].
  2: { intros [_ [A _]]. apply S2 in A. discriminate. }
  pose proof (update_batch_get x (N.max (batch x) (batch k)) Hx
                (max_u32 _ _ (batch_u32 _ Hx) (batch_u32 _ Hk))) as U.
  destruct (update_batch x (N.max (batch x) (batch k))) as [r|].
  - destruct U as [[_ U1] [Uw [Ub [_ Ug]]]].
    split; [split; [apply S1; reflexivity|split; [apply S2; reflexivity|exact U1]]|]. tauto.
  - intros [_ [_ A]]. apply U. split; [|exact A]. pose proof (wf_batch _ Hx). lia.
Qed.

Definition elementwise_admissible (a b : shape) : Prop :=
  (forall i, get a i = get b i) /\ batch_compatible a b.

Theorem elementwise_spec a b : wf a -> wf b ->
  match elementwise a b with
  | Some r => elementwise_admissible a b /\ wf r /\ batch r = N.max (batch a) (batch b) /\
              (forall i, get r i = get a i)
  | None => ~ elementwise_admissible a b
  end.
Proof.
  intros Ha Hb. unfold elementwise, elementwise_admissible, resize_batch.
  pose proof (has_same_dims_spec a b Ha Hb) as S1. pose proof (has_compatible_batch_spec a b) as S2.
  fold (batch_compatible a b) in S2.
  destruct (has_same_dims a b) eqn:E1; cbn [negb orb].
  2: { intros [A _]. apply S1 in A. discriminate. }
  destruct (has_compatible_batch a b) eqn:E2; cbn [negb].
  2: { intros [_ A]. apply S2 in A. discriminate. }
  pose proof (update_batch_get a (N.max (batch a) (batch b)) Ha
                (max_u32 _ _ (batch_u32 _ Ha) (batch_u32 _ Hb))) as U.
  destruct (update_batch a (N.max (batch a) (batch b))) as [r|].
  - destruct U as [_ [Uw [Ub [_ Ug]]]].
    split; [split; [apply S1; reflexivity|apply S2; reflexivity]|]. tauto.
  - exfalso. apply U. split; [pose proof (wf_batch _ Ha); lia|].
    assert (Ed : dims a = dims b) by (apply dims_eq_iff_get; auto; apply S1; reflexivity).
    pose proof (wf_size _ Ha) as Sa. pose proof (wf_size _ Hb) as Sb. rewrite <- Ed in Sb.
    destruct (N.max_spec (batch a) (batch b)) as [[_ ->]|[_ ->]]; assumption.
Qed.

(* ------------------------------------------------------------------------------------ *)
(* slice / broadcast / reduce / split                                                     *)
(* ------------------------------------------------------------------------------------ *)

Definition slice_admissible (x : shape) (dim lower upper : N) : Prop :=
  lower < upper /\ upper <= get x dim.

Theorem slice_spec x dim lower upper : wf x -> u32 dim -> u32 lower -> u32 upper ->
  match slice x dim lower upper with
  | Some r => slice_admissible x dim lower upper /\ wf r /\ batch r = batch x /\
              (forall i, get r i = if i =? dim then upper - lower else get x i)
  | None => ~ slice_admissible x dim lower upper
  end.
Proof.
  intros Hx Hd Hl Hu. unfold slice, slice_admissible, resize_dim.
  destruct (N.leb_spec upper lower) as [H1|H1]; cbn [orb]; [lia|].
  destruct (N.ltb_spec (get x dim) upper) as [H2|H2]; [lia|].
  destruct (N.leb_spec (depth x) dim) as [H3|H3].
  - pose proof (get_overflow x dim H3) as Eg.
    split; [lia|]. split; [exact Hx|]. split; [reflexivity|].
    intro i. destruct (N.eqb_spec i dim) as [->|Hi]; [lia|reflexivity].
  - assert (Hm : u32 (upper - lower)) by (unfold u32 in *; lia).
    pose proof (update_dim_spec x dim (upper - lower) Hx Hd Hm) as U.
    destruct (update_dim x dim (upper - lower)) as [r|].
    + destruct U as [_ [Uw [Ub [Ug _]]]]. split; [lia|]. tauto.
    + exfalso. apply U. unfold update_dim_admissible.
      pose proof (depth_le8 x Hx). split; [lia|]. split; [lia|].
      apply shrink_size; [exact Hx|lia].
Qed.

Definition broadcast_admissible (x : shape) (dim sz : N) : Prop :=
  get x dim = 1 /\ 0 < sz /\ dim < 8 /\ prodN (dims x) * sz * batch x < P32.

Theorem broadcast_spec x dim sz : wf x -> u32 dim -> u32 sz ->
  match broadcast x dim sz with
  | Some r => broadcast_admissible x dim sz /\ wf r /\ batch r = batch x /\
              (forall i, get r i = if i =? dim then sz else get x i)
  | None => ~ broadcast_admissible x dim sz
  end.
Proof.
  intros Hx Hd Hs. unfold broadcast, broadcast_admissible, resize_dim.
  destruct (N.eqb_spec (get x dim) 1) as [E1|E1]; cbn [negb orb]; [|tauto].
  destruct (N.eqb_spec sz 0) as [E2|E2]; [lia|].
  pose proof (update_dim_spec x dim sz Hx Hd Hs) as U. unfold update_dim_admissible in U.
  rewrite E1, N.div_1_r in U.
  destruct (update_dim x dim sz) as [r|].
  - destruct U as [Ua [Uw [Ub [Ug _]]]]. tauto.
  - tauto.
Qed.

Definition reduce_admissible (x : shape) (dim : N) : Prop := dim < 8.

Theorem reduce_spec x dim : wf x -> u32 dim ->
  match reduce x dim with
  | Some r => reduce_admissible x dim /\ wf r /\ batch r = batch x /\
              (forall i, get r i = if i =? dim then 1 else get x i)
  | None => ~ reduce_admissible x dim
  end.
Proof.
  intros Hx Hd. unfold reduce, reduce_admissible, resize_dim.
  assert (H1 : u32 1) by (unfold u32, P32; lia).
  pose proof (update_dim_spec x dim 1 Hx Hd H1) as U. unfold update_dim_admissible in U.
  pose proof (get_pos x dim Hx) as Hg.
  assert (Hs : prodN (dims x) / get x dim * 1 * batch x < P32) by (apply shrink_size; [exact Hx|lia]).
  destruct (update_dim x dim 1) as [r|].
  - destruct U as [Ua [Uw [Ub [Ug _]]]]. tauto.
  - intro A. apply U. split; [exact A|]. split; [lia|exact Hs].
Qed.

(* FWD_SHAPE(Split) goes through the slice rule, so every axis is accepted (an axis >= 8
   has size 1 and forces n = 1) *)
Definition split_admissible (x : shape) (dim n : N) : Prop :=
  0 < n /\ get x dim mod n = 0.

Theorem split_spec x dim n : wf x -> u32 dim -> u32 n ->
  match split x dim n with
  | Some r => split_admissible x dim n /\ wf r /\ batch r = batch x /\
              (forall i, get r i = if i =? dim then get x dim / n else get x i)
  | None => ~ split_admissible x dim n
  end.
Proof.
  intros Hx Hd Hn. unfold split, split_admissible.
  destruct (N.eqb_spec n 0) as [E0|E0]; [lia|].
  pose proof (get_pos x dim Hx) as Hg. pose proof (get_u32 x dim Hx) as Hgu.
  pose proof (N.div_mod (get x dim) n E0) as Edm.
  pose proof (N.mod_lt (get x dim) n E0) as Hml.
  remember (get x dim / n) as span eqn:Esp. remember (get x dim mod n) as rm eqn:Erm.
  assert (Hsm : span * n <= get x dim) by lia.
  rewrite wrap32_small by (unfold u32 in Hgu; lia).
  destruct (N.eqb_spec (span * n) (get x dim)) as [E1|E1]; cbn [negb]; [|lia].
  assert (Hsp : 0 < span /\ span <= get x dim) by nia.
  assert (Hspu : u32 span) by (unfold u32 in *; lia).
  assert (H0u : u32 0) by (unfold u32, P32; lia).
  pose proof (slice_spec x dim 0 span Hx Hd H0u Hspu) as U. unfold slice_admissible in U.
  rewrite N.sub_0_r in U.
  destruct (slice x dim 0 span) as [r|].
  - destruct U as [_ [Uw [Ub Ug]]]. split; [lia|]. tauto.
  - exfalso. apply U. lia.
Qed.

(* ------------------------------------------------------------------------------------ *)
(* pick                                                                                   *)
(* ------------------------------------------------------------------------------------ *)

Definition pick_admissible (x : shape) (ids : list N) (dim : N) : Prop :=
  let bi := N.of_nat (length ids) in
  ids <> [] /\ (batch x = bi \/ batch x = 1 \/ bi = 1) /\
  Forall (fun i => i < get x dim) ids /\ dim < 8 /\
  prodN (dims x) / get x dim * N.max (batch x) bi < P32.

Theorem pick_spec x ids dim : wf x -> Forall u32 ids -> u32 (N.of_nat (length ids)) -> u32 dim ->
  match pick x ids dim with
  | Some r => pick_admissible x ids dim /\ wf r /\
              batch r = N.max (batch x) (N.of_nat (length ids)) /\
              (forall i, get r i = if i =? dim then 1 else get x i)
  | None => ~ pick_admissible x ids dim
  end.
Proof.
  intros Hx _ Hbi Hd. unfold pick, pick_admissible, resize_dim, has_batch.
  pose proof (wf_batch _ Hx) as Hb. pose proof (length_zero_iff _ ids) as Hz.
  set (bi := N.of_nat (length ids)) in *.
  destruct (N.eqb_spec bi 0) as [E0|E0]; cbn [orb]; [tauto|].
  assert (Hne : ids <> []) by tauto.
  destruct (N.eqb_spec (batch x) bi) as [E1|E1]; cbn [negb andb];
    [|destruct (N.ltb_spec 1 (batch x)) as [E2|E2]; cbn [andb];
      [destruct (N.ltb_spec 1 bi) as [E3|E3]; [lia|]|]].
  all: assert (Hc : batch x = bi \/ batch x = 1 \/ bi = 1) by lia.
  all: pose proof (forallb_ltb (get x dim) ids) as F;
       destruct (forallb (fun i => i <? get x dim) ids); cbn [negb];
       [|intros [_ [_ [A _]]]; apply F in A; discriminate].
  all: assert (Hf : Forall (fun i => i < get x dim) ids) by (apply F; reflexivity).
  all: assert (H1 : u32 1) by (unfold u32, P32; lia).
  all: pose proof (update_dim_spec x dim 1 Hx Hd H1) as U; unfold update_dim_admissible in U.
  all: pose proof (get_pos x dim Hx) as Hg.
  all: assert (Hs : prodN (dims x) / get x dim * 1 * batch x < P32) by (apply shrink_size; [exact Hx|lia]).
  all: destruct (update_dim x dim 1) as [r1|];
       [|intros [_ [_ [_ [A _]]]]; apply U; split; [exact A|split; [lia|exact Hs]]].
  all: destruct U as [[Ua _] [Uw [Ub [Ug Up]]]].
  all: pose proof (update_batch_get r1 (N.max (batch x) bi) Uw (max_u32 _ _ (batch_u32 _ Hx) Hbi)) as V.
  all: rewrite Up, N.mul_1_r in V.
  all: destruct (update_batch r1 (N.max (batch x) bi)) as [r|].
  all: try (destruct V as [[_ V1] [Vw [Vb [_ Vg]]]];
            split; [tauto|]; split; [exact Vw|]; split; [exact Vb|]; intro i; rewrite Vg; apply Ug).
  all: intros [_ [_ [_ [_ A]]]]; apply V; split; [lia|exact A].
Qed.

(* ------------------------------------------------------------------------------------ *)
(* transpose / matmul / identity                                                          *)
(* ------------------------------------------------------------------------------------ *)

Definition transpose_admissible (x : shape) : Prop := depth x <= 2.

Theorem transpose_spec x : wf x ->
  match transpose x with
  | Some r => transpose_admissible x /\ wf r /\ batch r = batch x /\
              (forall i, get r i = if i =? 0 then get x 1 else if i =? 1 then get x 0 else 1)
  | None => ~ transpose_admissible x
  end.
Proof.
  intro Hx. unfold transpose, transpose_admissible, is_matrix.
  destruct (N.leb_spec (depth x) 2) as [H2|H2]; cbn [negb]; [|lia].
  assert (Hu : Forall u32 [get x 1; get x 0]) by (repeat constructor; apply get_u32; exact Hx).
  pose proof (mk_shape_spec [get x 1; get x 0] (batch x) Hu (batch_u32 _ Hx)) as M.
  destruct (mk_shape [get x 1; get x 0] (batch x)) as [r|].
  - destruct M as [_ [Mw [Mb [Mg _]]]]. split; [exact H2|]. split; [exact Mw|]. split; [exact Mb|].
    intro i. rewrite Mg. apply sget2.
  - exfalso. apply M. unfold ctor_admissible. cbn [length]. split; [lia|]. split.
    + repeat constructor; apply get_pos; exact Hx.
    + split; [apply (wf_batch _ Hx)|]. rewrite !prodN_cons, prodN_nil.
      pose proof (wf_size _ Hx) as Hs. rewrite (prod_depth2 x H2) in Hs. lia.
Qed.

Definition matmul_admissible (l r : shape) : Prop :=
  depth l <= 2 /\ depth r <= 2 /\ get l 1 = get r 0 /\ batch_compatible l r /\
  get l 0 * get r 1 * N.max (batch l) (batch r) < P32.

Theorem matmul_spec l r : wf l -> wf r ->
  match matmul l r with
  | Some y => matmul_admissible l r /\ wf y /\ batch y = N.max (batch l) (batch r) /\
              (forall i, get y i = if i =? 0 then get l 0 else if i =? 1 then get r 1 else 1)
  | None => ~ matmul_admissible l r
  end.
Proof.
  intros Hl Hr. unfold matmul, matmul_admissible, is_matrix.
  pose proof (has_compatible_batch_spec l r) as S2. fold (batch_compatible l r) in S2.
  destruct (N.leb_spec (depth l) 2) as [H1|H1]; cbn [negb orb]; [|lia].
  destruct (N.leb_spec (depth r) 2) as [H2|H2]; cbn [negb orb]; [|lia].
  destruct (N.eqb_spec (get l 1) (get r 0)) as [H3|H3]; cbn [negb orb]; [|tauto].
  destruct (has_compatible_batch l r) eqn:E4; cbn [negb].
  2: { intros [_ [_ [_ [A _]]]]. apply S2 in A. discriminate. }
  assert (Hu : Forall u32 [get l 0; get r 1]) by (repeat constructor; apply get_u32; assumption).
  pose proof (mk_shape_spec [get l 0; get r 1] (N.max (batch l) (batch r)) Hu
                (max_u32 _ _ (batch_u32 _ Hl) (batch_u32 _ Hr))) as M.
  unfold ctor_admissible in M. rewrite !prodN_cons, prodN_nil, N.mul_1_r in M.
  destruct (mk_shape [get l 0; get r 1] (N.max (batch l) (batch r))) as [y|].
  - destruct M as [[_ [_ [_ Ms]]] [Mw [Mb [Mg _]]]].
    split; [split; [exact H1|split; [exact H2|split; [exact H3|split; [apply S2; reflexivity|exact Ms]]]]|].
    split; [exact Mw|]. split; [exact Mb|]. intro i. rewrite Mg. apply sget2.
  - intros [_ [_ [_ [_ A]]]]. apply M. cbn [length]. split; [lia|]. split.
    + repeat constructor; apply get_pos; assumption.
    + split; [pose proof (wf_batch _ Hl); lia|exact A].
Qed.

Definition identity_admissible (sz : N) : Prop := 0 < sz /\ sz * sz < P32.

Theorem identity_spec sz : u32 sz ->
  match identity sz with
  | Some r => identity_admissible sz /\ wf r /\ batch r = 1 /\
              (forall i, get r i = if i <? 2 then sz else 1)
  | None => ~ identity_admissible sz
  end.
Proof.
  intro Hs. unfold identity, identity_admissible.
  assert (Hu : Forall u32 [sz; sz]) by (repeat constructor; exact Hs).
  assert (H1 : u32 1) by (unfold u32, P32; lia).
  pose proof (mk_shape_spec [sz; sz] 1 Hu H1) as M.
  unfold ctor_admissible in M. rewrite !prodN_cons, prodN_nil, !N.mul_1_r in M.
  destruct (mk_shape [sz; sz] 1) as [r|].
  - destruct M as [[_ [Mp [_ Ms]]] [Mw [Mb [Mg _]]]]. inversion Mp; subst.
    split; [tauto|]. split; [exact Mw|]. split; [exact Mb|]. intro i. rewrite Mg, sget2.
    destruct (N.eqb_spec i 0); destruct (N.eqb_spec i 1); destruct (N.ltb_spec i 2); try lia; reflexivity.
  - intros [A B]. apply M. cbn [length]. split; [lia|]. split; [repeat constructor; exact A|]. split; [lia|exact B].
Qed.

(* ------------------------------------------------------------------------------------ *)
(* batch_pick / batch_slice / batch_split / batch_sum / sce                               *)
(* ------------------------------------------------------------------------------------ *)

Definition batch_pick_admissible (x : shape) (ids : list N) : Prop :=
  ids <> [] /\ Forall (fun i => i < batch x) ids /\
  prodN (dims x) * N.of_nat (length ids) < P32.

Theorem batch_pick_spec x ids : wf x -> Forall u32 ids -> u32 (N.of_nat (length ids)) ->
  match batch_pick x ids with
  | Some r => batch_pick_admissible x ids /\ wf r /\ batch r = N.of_nat (length ids) /\
              (forall i, get r i = get x i)
  | None => ~ batch_pick_admissible x ids
  end.
Proof.
  intros Hx _ Hbi. unfold batch_pick, batch_pick_admissible, resize_batch.
  pose proof (length_zero_iff _ ids) as Hz.
  destruct (N.eqb_spec (N.of_nat (length ids)) 0) as [E0|E0]; [tauto|].
  pose proof (forallb_ltb (batch x) ids) as F.
  destruct (forallb (fun i => i <? batch x) ids); cbn [negb];
    [|intros [_ [A _]]; apply F in A; discriminate].
  pose proof (update_batch_get x (N.of_nat (length ids)) Hx Hbi) as U.
  destruct (update_batch x (N.of_nat (length ids))) as [r|].
  - destruct U as [[_ U1] [Uw [Ub [_ Ug]]]].
    split; [split; [tauto|split; [apply F; reflexivity|exact U1]]|]. tauto.
  - intros [_ [_ A]]. apply U. split; [lia|exact A].
Qed.

Definition batch_slice_admissible (x : shape) (lower upper : N) : Prop :=
  lower < upper /\ upper <= batch x.

Theorem batch_slice_spec x lower upper : wf x -> u32 lower -> u32 upper ->
  match batch_slice x lower upper with
  | Some r => batch_slice_admissible x lower upper /\ wf r /\ batch r = upper - lower /\
              (forall i, get r i = get x i)
  | None => ~ batch_slice_admissible x lower upper
  end.
Proof.
  intros Hx Hl Hu. unfold batch_slice, batch_slice_admissible, resize_batch.
  destruct (N.leb_spec upper lower) as [H1|H1]; cbn [orb]; [lia|].
  destruct (N.ltb_spec (batch x) upper) as [H2|H2]; [lia|].
  assert (Hm : u32 (upper - lower)) by (unfold u32 in *; lia).
  pose proof (update_batch_get x (upper - lower) Hx Hm) as U.
  destruct (update_batch x (upper - lower)) as [r|].
  - destruct U as [_ [Uw [Ub [_ Ug]]]]. split; [lia|]. tauto.
  - exfalso. apply U. split; [lia|]. pose proof (wf_size _ Hx). pose proof (prod_pos x Hx). nia.
Qed.

Definition batch_split_admissible (x : shape) (n : N) : Prop := 0 < n /\ batch x mod n = 0.

Theorem batch_split_spec x n : wf x -> u32 n ->
  match batch_split x n with
  | Some r => batch_split_admissible x n /\ wf r /\ batch r = batch x / n /\
              (forall i, get r i = get x i)
  | None => ~ batch_split_admissible x n
  end.
Proof.
  intros Hx Hn. unfold batch_split, batch_split_admissible.
  destruct (N.eqb_spec n 0) as [E0|E0]; [lia|].
  pose proof (wf_batch _ Hx) as Hb. pose proof (batch_u32 x Hx) as Hbu.
  pose proof (N.div_mod (batch x) n E0) as Edm.
  pose proof (N.mod_lt (batch x) n E0) as Hml.
  remember (batch x / n) as span eqn:Esp. remember (batch x mod n) as rm eqn:Erm.
  assert (Hsm : span * n <= batch x) by lia.
  rewrite wrap32_small by (unfold u32 in Hbu; lia).
  destruct (N.eqb_spec (span * n) (batch x)) as [E1|E1]; cbn [negb]; [|lia].
  assert (Hsp : 0 < span /\ span <= batch x) by nia.
  assert (Hspu : u32 span) by (unfold u32 in *; lia).
  pose proof (update_batch_get x span Hx Hspu) as U.
  destruct (update_batch x span) as [r|].
  - destruct U as [_ [Uw [Ub [_ Ug]]]]. split; [lia|]. tauto.
  - exfalso. apply U. split; [lia|]. pose proof (wf_size _ Hx). pose proof (prod_pos x Hx). nia.
Qed.

Theorem batch_sum_spec x : wf x ->
  match batch_sum x with
  | Some r => wf r /\ batch r = 1 /\ (forall i, get r i = get x i)
  | None => False
  end.
Proof.
  intro Hx. unfold batch_sum, resize_batch.
  assert (H1 : u32 1) by (unfold u32, P32; lia).
  pose proof (update_batch_get x 1 Hx H1) as U.
  destruct (update_batch x 1) as [r|].
  - destruct U as [_ [Uw [Ub [_ Ug]]]]. tauto.
  - apply U. split; [lia|]. rewrite N.mul_1_r. apply prod_u32; exact Hx.
Qed.

Definition sce_admissible (x t : shape) (dim : N) : Prop :=
  (forall i, get x i = get t i) /\ batch_compatible x t /\ dim < 8.

Theorem sce_spec x t dim : wf x -> wf t -> u32 dim ->
  match sce x t dim with
  | Some r => sce_admissible x t dim /\ wf r /\ batch r = N.max (batch x) (batch t) /\
              (forall i, get r i = if i =? dim then 1 else get x i)
  | None => ~ sce_admissible x t dim
  end.
Proof.
  intros Hx Ht Hd. unfold sce, sce_admissible.
  pose proof (elementwise_spec x t Hx Ht) as E. unfold elementwise_admissible in E.
  destruct (elementwise x t) as [y|]; [|tauto].
  destruct E as [[E1 E2] [Ew [Eb Eg]]].
  pose proof (reduce_spec y dim Ew Hd) as R. unfold reduce, resize_dim, reduce_admissible in R.
  destruct (update_dim y dim 1) as [r|].
  - destruct R as [Ra [Rw [Rb Rg]]]. split; [tauto|]. split; [exact Rw|]. split; [congruence|].
    intro i. rewrite Rg, Eg. reflexivity.
  - tauto.
Qed.

(* ------------------------------------------------------------------------------------ *)
(* batch_concat                                                                           *)
(* ------------------------------------------------------------------------------------ *)

Definition sumN (l : list N) : N := fold_right N.add 0 l.
Lemma sumN_nil : sumN [] = 0.  Proof. reflexivity. Qed.
Lemma sumN_cons x r : sumN (x :: r) = x + sumN r.  Proof. reflexivity. Qed.
Global Opaque sumN.

Definition same_dims_as (s0 : shape) (s : shape) : Prop := forall i, get s i = get s0 i.

Lemma batch_concat_loop_spec s0 : wf s0 -> forall rest sum, Forall wf rest ->
  sum + N.of_nat (length rest) * P32 < P64 ->
  match batch_concat_loop s0 sum rest with
  | Some sum' => Forall (same_dims_as s0) rest /\ sum' = sum + sumN (map batch rest)
  | None => ~ Forall (same_dims_as s0) rest
  end.
Proof.
  intros H0. induction rest as [|s r IH]; intros sum Hr Hsum; cbn [batch_concat_loop map].
  - split; [constructor|rewrite sumN_nil; lia].
  - inversion Hr as [|? ? Hs Hr']; subst.
    pose proof (has_same_dims_spec s0 s H0 Hs) as S1.
    destruct (has_same_dims s0 s) eqn:E1; cbn [negb].
    + pose proof (batch_u32 s Hs) as Hbu. cbn [length] in Hsum.
      rewrite wrap64_small by (unfold u32, P32, P64 in *; lia).
      specialize (IH (sum + batch s) Hr').
      assert (Hsum' : sum + batch s + N.of_nat (length r) * P32 < P64)
        by (unfold u32, P32, P64 in *; lia).
      specialize (IH Hsum').
      destruct (batch_concat_loop s0 (sum + batch s) r) as [sum'|].
      * destruct IH as [A B]. split.
        -- constructor; [|exact A]. intro i. symmetry. apply S1. reflexivity.
        -- rewrite sumN_cons. lia.
      * intro A. apply IH. inversion A; assumption.
    + intro A. inversion A as [|? ? A1 A2]; subst.
      enough (X : false = true) by discriminate. apply S1. intro i. symmetry. apply A1.
Qed.

Definition batch_concat_admissible (xs : list shape) : Prop :=
  match xs with
  | [] => False
  | x0 :: rest => Forall (same_dims_as x0) rest /\
                  prodN (dims x0) * sumN (map batch xs) < P32
  end.

(* the C++ loop index is a uint32: the operand count is below 2^32 *)
Theorem batch_concat_spec xs : Forall wf xs -> u32 (N.of_nat (length xs)) ->
  match batch_concat xs with
  | Some r => batch_concat_admissible xs /\ wf r /\ batch r = sumN (map batch xs) /\
              (forall s, In s xs -> forall i, get r i = get s i)
  | None => ~ batch_concat_admissible xs
  end.
Proof.
  intros Hxs Hlen. destruct xs as [|x0 rest]; cbn [batch_concat batch_concat_admissible]; [tauto|].
  inversion Hxs as [|? ? H0 Hr]; subst.
  pose proof (batch_u32 x0 H0) as Hbu. cbn [length] in Hlen.
  assert (Hsum : batch x0 + N.of_nat (length rest) * P32 < P64) by (unfold u32, P32, P64 in *; lia).
  pose proof (batch_concat_loop_spec x0 H0 rest (batch x0) Hr Hsum) as L.
  destruct (batch_concat_loop x0 (batch x0) rest) as [sum|]; [|tauto].
  destruct L as [L1 L2]. cbn [map]. rewrite sumN_cons, <- L2.
  pose proof (prod_pos x0 H0) as Hp.
  destruct (N.ltb_spec U32MAX sum) as [Hov|Hov].
  - intros [_ A]. unfold U32MAX, P32 in *. nia.
  - assert (Hsu : u32 sum) by (unfold u32, U32MAX, P32 in *; lia).
    pose proof (update_batch_get x0 sum H0 Hsu) as U.
    destruct (update_batch x0 sum) as [r|].
    + destruct U as [[_ U1] [Uw [Ub [_ Ug]]]]. split; [tauto|]. split; [exact Uw|]. split; [exact Ub|].
      intros s [<-|Hin] i; [apply Ug|]. rewrite Ug. symmetry.
      rewrite Forall_forall in L1. apply (L1 s Hin).
    + intros [_ A]. apply U. split; [|exact A]. pose proof (wf_batch _ H0). lia.
Qed.

(* ------------------------------------------------------------------------------------ *)
(* concat                                                                                 *)
(* ------------------------------------------------------------------------------------ *)

Definition maxl (l : list N) : N := fold_right N.max 1 l.
Lemma maxl_nil : maxl [] = 1.  Proof. reflexivity. Qed.
Lemma maxl_cons x r : maxl (x :: r) = N.max x (maxl r).  Proof. reflexivity. Qed.
Global Opaque maxl.

Lemma maxl_ge1 l : 1 <= maxl l.
Proof. induction l; rewrite ?maxl_nil, ?maxl_cons; lia. Qed.

(* `s` agrees with `s0` on every axis except `dim` *)
Definition same_loo_as (dim : N) (s0 s : shape) : Prop := forall i, i <> dim -> get s i = get s0 i.
(* the batch of `s` is 1 or M *)
Definition batch_in (M : N) (s : shape) : Prop := batch s = 1 \/ batch s = M.

Lemma concat_loop_spec dim : u32 dim -> forall rest s0 sum, wf s0 -> Forall wf rest ->
  sum + N.of_nat (length rest) * P32 < P64 ->
  match concat_loop s0 sum rest dim with
  | Some (s0', sum') =>
      (Forall (same_loo_as dim s0) rest /\
       Forall (batch_in (maxl (batch s0 :: map batch rest))) (s0 :: rest)) /\
      wf s0' /\ dims s0' = dims s0 /\ batch s0' = maxl (batch s0 :: map batch rest) /\
      sum' = sum + sumN (map (fun s => get s dim) rest)
  | None =>
      ~ ((Forall (same_loo_as dim s0) rest /\
          Forall (batch_in (maxl (batch s0 :: map batch rest))) (s0 :: rest)) /\
         prodN (dims s0) * maxl (batch s0 :: map batch rest) < P32)
  end.
Proof.
  intro Hd. induction rest as [|s r IH]; intros s0 sum H0 Hr Hsum; cbn [concat_loop map].
  - pose proof (wf_batch _ H0) as Hb0. rewrite maxl_cons, maxl_nil, sumN_nil.
    replace (N.max (batch s0) 1) with (batch s0) by lia.
    split; [split; [constructor|constructor; [right; reflexivity|constructor]]|].
    split; [exact H0|]. split; [reflexivity|]. split; [reflexivity|lia].
  - inversion Hr as [|? ? Hs Hr']; subst.
    pose proof (wf_batch _ H0) as Hb0. pose proof (wf_batch _ Hs) as Hbs.
    pose proof (maxl_ge1 (map batch r)) as Hmr.
    rewrite !maxl_cons. set (mr := maxl (map batch r)) in *.
    pose proof (has_same_loo_dims_spec s0 s dim H0 Hs Hd) as S1.
    pose proof (has_compatible_batch_spec s0 s) as S2.
    destruct (has_same_loo_dims s0 s dim) eqn:E1; cbn [negb orb].
    2: { intros [[A _] _]. inversion A as [|? ? A1 A2]; subst.
         enough (X : false = true) by discriminate. apply S1. intros i Hi. symmetry. apply A1. exact Hi. }
    destruct (has_compatible_batch s0 s) eqn:E2; cbn [negb].
    2: { intros [[_ A] _]. inversion A as [|? ? A1 A2]; subst. inversion A2 as [|? ? A3 A4]; subst.
         unfold batch_in in A1, A3.
         enough (X : false = true) by discriminate. apply S2. lia. }
    assert (Hloo : same_loo_as dim s0 s)
      by (intros i Hi; symmetry; apply S1; [reflexivity|exact Hi]).
    assert (Hc : batch s0 = batch s \/ batch s0 = 1 \/ batch s = 1) by (apply S2; reflexivity).
    pose proof (get_u32 s dim Hs) as Hgu. cbn [length] in Hsum.
    rewrite wrap64_small by (unfold u32, P32, P64 in *; lia).
    assert (Hsum' : sum + get s dim + N.of_nat (length r) * P32 < P64)
      by (unfold u32, P32, P64 in *; lia).
    unfold has_batch.
    destruct (N.ltb_spec 1 (batch s0)) as [Hhb|Hhb].
    + (* s0 keeps its batch *)
      specialize (IH s0 (sum + get s dim) H0 Hr' Hsum'). rewrite maxl_cons in IH. fold mr in IH.
      assert (EM : N.max (batch s0) (N.max (batch s) mr) = N.max (batch s0) mr) by lia.
      rewrite EM.
      destruct (concat_loop s0 (sum + get s dim) r dim) as [[s0' sum']|].
      * destruct IH as [[I1 I2] [Iw [Id [Ib Is]]]].
        split; [split|].
        -- constructor; assumption.
        -- inversion I2 as [|? ? I3 I4]; subst. constructor; [exact I3|]. constructor; [|exact I4].
           unfold batch_in in *. lia.
        -- split; [exact Iw|]. split; [exact Id|]. split; [exact Ib|]. rewrite sumN_cons. lia.
      * intros [[A1 A2] A3]. apply IH. split; [split|exact A3].
        -- inversion A1; assumption.
        -- inversion A2 as [|? ? A4 A5]; subst. inversion A5; subst. constructor; assumption.
    + (* s0 takes the batch of s *)
      assert (Eb0 : batch s0 = 1) by lia.
      pose proof (update_batch_get s0 (batch s) H0 (batch_u32 _ Hs)) as U.
      assert (EM : N.max (batch s0) (N.max (batch s) mr) = N.max (batch s) mr) by lia.
      rewrite EM.
      destruct (update_batch s0 (batch s)) as [s1|].
      * destruct U as [_ [Uw [Ub [Ud Ug]]]].
        specialize (IH s1 (sum + get s dim) Uw Hr' Hsum'). rewrite maxl_cons, Ub in IH. fold mr in IH.
        assert (Hl : forall t, same_loo_as dim s1 t <-> same_loo_as dim s0 t).
        { intro t. unfold same_loo_as. split; intros A i Hi; [rewrite <- Ug|rewrite Ug]; apply A; exact Hi. }
        destruct (concat_loop s1 (sum + get s dim) r dim) as [[s0' sum']|].
        -- destruct IH as [[I1 I2] [Iw [Id [Ib Is]]]].
           split; [split|].
           ++ constructor; [exact Hloo|]. eapply Forall_impl; [|exact I1]. intros t Ht. apply Hl; exact Ht.
           ++ inversion I2 as [|? ? I3 I4]; subst. constructor; [left; exact Eb0|].
              constructor; [|exact I4]. unfold batch_in in *. rewrite Ub in I3. exact I3.
           ++ split; [exact Iw|]. split; [congruence|]. split; [exact Ib|]. rewrite sumN_cons. lia.
        -- intros [[A1 A2] A3]. apply IH. split; [split|].
           ++ inversion A1 as [|? ? A4 A5]; subst. eapply Forall_impl; [|exact A5]. intros t Ht. apply Hl; exact Ht.
           ++ inversion A2 as [|? ? A4 A5]; subst. inversion A5 as [|? ? A6 A7]; subst.
              constructor; [|exact A7]. unfold batch_in in *. rewrite Ub. exact A6.
           ++ rewrite Ud. exact A3.
      * intros [_ A3]. apply U. split; [lia|].
        assert (Hle : prodN (dims s0) * batch s <= prodN (dims s0) * N.max (batch s) mr)
          by (apply N.mul_le_mono_l; lia).
        lia.
Qed.

Definition concat_admissible (xs : list shape) (dim : N) : Prop :=
  match xs with
  | [] => False
  | x0 :: rest =>
      Forall (same_loo_as dim x0) rest /\
      Forall (batch_in (maxl (map batch xs))) xs /\
      dim < 8 /\
      prodN (dims x0) / get x0 dim * sumN (map (fun s => get s dim) xs) * maxl (map batch xs) < P32
  end.

(* the C++ loop index is a uint32: the operand count is below 2^32 *)
Theorem concat_spec xs dim : Forall wf xs -> u32 (N.of_nat (length xs)) -> u32 dim ->
  match concat xs dim with
  | Some r => concat_admissible xs dim /\ wf r /\ batch r = maxl (map batch xs) /\
              get r dim = sumN (map (fun s => get s dim) xs) /\
              (forall s, In s xs -> forall i, i <> dim -> get r i = get s i)
  | None => ~ concat_admissible xs dim
  end.
Proof.
  intros Hxs Hlen Hd. destruct xs as [|x0 rest]; cbn [concat concat_admissible]; [tauto|].
  inversion Hxs as [|? ? H0 Hr]; subst.
  pose proof (get_u32 x0 dim H0) as Hgu. pose proof (get_pos x0 dim H0) as Hg. cbn [length] in Hlen.
  assert (Hsum : get x0 dim + N.of_nat (length rest) * P32 < P64) by (unfold u32, P32, P64 in *; lia).
  pose proof (concat_loop_spec dim Hd rest x0 (get x0 dim) H0 Hr Hsum) as L.
  cbn [map]. rewrite sumN_cons.
  set (M := maxl (batch x0 :: map batch rest)) in *.
  set (S := sumN (map (fun s => get s dim) rest)) in *.
  pose proof (prod_div_get x0 dim H0) as Eq. pose proof (prod_div_get_pos x0 dim H0) as Hq.
  set (q := prodN (dims x0) / get x0 dim) in *.
  assert (HM : 1 <= M) by apply maxl_ge1.
  destruct (concat_loop x0 (get x0 dim) rest dim) as [[s0 sum]|].
  - destruct L as [[L1 L2] [Lw [Ld [Lb ->]]]].
    destruct (N.ltb_spec U32MAX (get x0 dim + S)) as [Hov|Hov].
    + intros [_ [_ [_ A]]]. unfold U32MAX, P32 in *.
      assert (get x0 dim + S <= q * (get x0 dim + S)) by nia.
      assert (q * (get x0 dim + S) <= q * (get x0 dim + S) * M) by nia. lia.
    + assert (Hsu : u32 (get x0 dim + S)) by (unfold u32, U32MAX, P32 in *; lia).
      pose proof (update_dim_spec s0 dim (get x0 dim + S) Lw Hd Hsu) as U.
      unfold update_dim_admissible in U.
      rewrite (get_dims_eq s0 x0 dim Ld), Ld, Lb in U. fold q in U.
      destruct (update_dim s0 dim (get x0 dim + S)) as [r|].
      * destruct U as [[U1 [U2 U3]] [Uw [Ub [Ug _]]]].
        split; [tauto|]. split; [exact Uw|]. split; [congruence|]. split.
        -- rewrite Ug, N.eqb_refl. reflexivity.
        -- intros s Hin i Hi. rewrite Ug. destruct (N.eqb_spec i dim) as [E|_]; [contradiction|].
           rewrite (get_dims_eq s0 x0 i Ld). destruct Hin as [<-|Hin]; [reflexivity|].
           rewrite Forall_forall in L1. symmetry. apply (L1 s Hin i Hi).
      * intros [_ [_ [A3 A4]]]. apply U. split; [exact A3|]. split; [lia|exact A4].
  - intros [A1 [A2 [_ A4]]]. apply L. split; [split; assumption|].
    rewrite <- Eq.
    assert (q * get x0 dim <= q * (get x0 dim + S)) by (apply N.mul_le_mono_l; lia).
    assert (q * get x0 dim * M <= q * (get x0 dim + S) * M) by (apply N.mul_le_mono_r; assumption).
    lia.
Qed.

(* ------------------------------------------------------------------------------------ *)
(* permute_dims                                                                           *)
(* ------------------------------------------------------------------------------------ *)

Lemma existsb_eqb_In p l : existsb (N.eqb p) l = true <-> In p l.
Proof.
  rewrite existsb_exists. split.
  - intros [q [Hin Hq]]. apply N.eqb_eq in Hq. subst q. exact Hin.
  - intro Hin. exists p. split; [exact Hin|apply N.eqb_refl].
Qed.

Definition perm_ok (n : N) (perm picked : list N) : Prop :=
  Forall (fun p => p < n) perm /\ NoDup perm /\ (forall p, In p perm -> ~ In p picked).

Lemma permute_loop_spec x n : forall perm picked,
  match permute_loop x perm n picked with
  | Some ds => perm_ok n perm picked /\ ds = map (get x) perm
  | None => ~ perm_ok n perm picked
  end.
Proof.
  induction perm as [|p r IH]; intro picked; cbn [permute_loop map].
  - split; [|reflexivity]. split; [constructor|]. split; [constructor|]. intros p [].
  - destruct (N.leb_spec n p) as [Hnp|Hnp].
    { intros [A _]. inversion A; subst. lia. }
    pose proof (existsb_eqb_In p picked) as Hex.
    destruct (existsb (N.eqb p) picked).
    { intros [_ [_ A]]. apply (A p); [left; reflexivity|apply Hex; reflexivity]. }
    assert (Hnin : ~ In p picked) by (intro A; apply Hex in A; discriminate).
    specialize (IH (p :: picked)).
    destruct (permute_loop x r n (p :: picked)) as [ds|].
    + destruct IH as [[I1 [I2 I3]] ->]. split; [|reflexivity].
      split; [constructor; assumption|]. split.
      * constructor; [|exact I2]. intro A. apply (I3 p A). left; reflexivity.
      * intros q [<-|Hq]; [exact Hnin|]. intro A. apply (I3 q Hq). right; exact A.
    + intros [A1 [A2 A3]]. apply IH. inversion A1; subst. inversion A2 as [|? ? A4 A5]; subst.
      split; [assumption|]. split; [assumption|].
      intros q Hq [E|A]; [subst q; contradiction|]. apply (A3 q); [right; exact Hq|exact A].
Qed.

Lemma prodN_perm l l' : Permutation l l' -> prodN l = prodN l'.
Proof. induction 1; rewrite ?prodN_cons; lia. Qed.

Lemma prodN_map_seq l : forall n, (length l <= n)%nat ->
  prodN (map (fun k => nth k l 1) (seq 0 n)) = prodN l.
Proof.
  induction l as [|x r IH]; intros n Hn.
  - clear Hn. rewrite prodN_nil. generalize 0%nat. induction n as [|n IHn]; intro a; cbn [seq map].
    + apply prodN_nil.
    + rewrite prodN_cons, IHn. destruct a; cbn [nth]; lia.
  - cbn [length] in Hn. destruct n as [|n]; [lia|].
    cbn [seq map nth]. rewrite !prodN_cons. f_equal.
    rewrite <- seq_shift, map_map. cbn [nth]. apply IH. lia.
Qed.

Lemma NoDup_map_to_nat l : NoDup l -> NoDup (map N.to_nat l).
Proof.
  induction 1 as [|x l Hx Hl IH]; cbn [map]; constructor; [|exact IH].
  intro A. apply in_map_iff in A. destruct A as [y [Ey Hy]]. apply N2Nat.inj in Ey. subst y. contradiction.
Qed.

Lemma perm_is_permutation perm :
  Forall (fun p => p < N.of_nat (length perm)) perm -> NoDup perm ->
  Permutation (map N.to_nat perm) (seq 0 (length perm)).
Proof.
  intros Hlt Hnd. apply NoDup_Permutation_bis.
  - apply NoDup_map_to_nat; exact Hnd.
  - rewrite seq_length, map_length. lia.
  - intros k Hk. apply in_map_iff in Hk. destruct Hk as [p [<- Hp]].
    rewrite Forall_forall in Hlt. specialize (Hlt p Hp). apply in_seq. lia.
Qed.

Lemma prodN_permuted x perm : depth x <= N.of_nat (length perm) ->
  Forall (fun p => p < N.of_nat (length perm)) perm -> NoDup perm ->
  prodN (map (get x) perm) = prodN (dims x).
Proof.
  intros Hd Hlt Hnd.
  replace (map (get x) perm) with (map (fun k => nth k (dims x) 1) (map N.to_nat perm)).
  2: { rewrite map_map. apply map_ext. intro p. rewrite get_sget. reflexivity. }
  rewrite (prodN_perm _ _ (Permutation_map _ (perm_is_permutation perm Hlt Hnd))).
  apply prodN_map_seq. unfold depth in Hd. lia.
Qed.

Definition permute_admissible (x : shape) (perm : list N) : Prop :=
  let n := N.of_nat (length perm) in
  depth x <= n /\ n <= 8 /\ Forall (fun p => p < n) perm /\ NoDup perm.

Theorem permute_dims_spec x perm : wf x -> Forall u32 perm ->
  match permute_dims x perm with
  | Some r => permute_admissible x perm /\ wf r /\ batch r = batch x /\
              (forall i, get r i = if i <? N.of_nat (length perm)
                                   then get x (nth (N.to_nat i) perm 0) else 1)
  | None => ~ permute_admissible x perm
  end.
Proof.
  intros Hx _. unfold permute_dims, permute_admissible.
  set (n := N.of_nat (length perm)).
  destruct (N.ltb_spec n (depth x)) as [Hnd|Hnd]; [lia|].
  pose proof (permute_loop_spec x n perm []) as L.
  destruct (permute_loop x perm n []) as [ds|].
  2: { intros [_ [_ [A1 A2]]]. apply L. split; [exact A1|]. split; [exact A2|]. intros p _ []. }
  destruct L as [[L1 [L2 _]] ->].
  assert (Hu : Forall u32 (map (get x) perm)).
  { apply Forall_forall. intros d Hdn. apply in_map_iff in Hdn. destruct Hdn as [p [<- _]].
    apply get_u32; exact Hx. }
  pose proof (mk_shape_spec (map (get x) perm) (batch x) Hu (batch_u32 _ Hx)) as M.
  unfold ctor_admissible in M. rewrite map_length in M.
  rewrite (prodN_permuted x perm Hnd L1 L2) in M.
  destruct (mk_shape (map (get x) perm) (batch x)) as [r|].
  - destruct M as [[M1 _] [Mw [Mb [Mg _]]]].
    split; [split; [exact Hnd|split; [subst n; lia|split; assumption]]|].
    split; [exact Mw|]. split; [exact Mb|]. intro i. rewrite Mg. unfold sget.
    destruct (N.ltb_spec i n) as [Hi|Hi].
    + rewrite (nth_indep _ 1 (get x 0)) by (rewrite map_length; subst n; lia).
      apply map_nth.
    + apply nth_overflow. rewrite map_length. subst n. lia.
  - intros [_ [A _]]. apply M. split; [subst n; lia|]. split.
    + apply Forall_forall. intros d Hdn. apply in_map_iff in Hdn. destruct Hdn as [p [<- _]].
      apply get_pos; exact Hx.
    + split; [apply (wf_batch _ Hx)|apply (wf_size _ Hx)].
Qed.

(* ------------------------------------------------------------------------------------ *)
(* conv2d / pool2d                                                                        *)
(* ------------------------------------------------------------------------------------ *)

Lemma div_le_self a b : 0 < b -> a / b <= a.
Proof. intro Hb. apply N.div_le_upper_bound; [lia|nia]. Qed.

Lemma mul_u32_succ_lt64 a b : a < P32 -> b < P32 -> a * b + 1 < P64.
Proof.
  intros Ha Hb. assert (a * b <= (P32 - 1) * (P32 - 1)) by (apply N.mul_le_mono; lia).
  unfold P32, P64 in *. lia.
Qed.

Lemma le_mul_r1 a b : 1 <= b -> a <= a * b.
Proof. intro H. rewrite <- (N.mul_1_r a) at 1. apply N.mul_le_mono_l. exact H. Qed.

Lemma le_mul_l1 a b : 1 <= a -> b <= a * b.
Proof. intro H. rewrite <- (N.mul_1_l b) at 1. apply N.mul_le_mono_r. exact H. Qed.

Lemma le_mul4_1 a b c d : 1 <= b -> 1 <= c -> 1 <= d -> a <= a * b * c * d.
Proof.
  intros Hb Hc Hd. eapply N.le_trans; [apply (le_mul_r1 a b Hb)|].
  eapply N.le_trans; [apply (le_mul_r1 (a * b) c Hc)|]. apply le_mul_r1. exact Hd.
Qed.

Lemma le_mul4_2 a b c d : 1 <= a -> 1 <= c -> 1 <= d -> b <= a * b * c * d.
Proof.
  intros Ha Hc Hd. eapply N.le_trans; [apply (le_mul_l1 a b Ha)|].
  eapply N.le_trans; [apply (le_mul_r1 (a * b) c Hc)|]. apply le_mul_r1. exact Hd.
Qed.

(* documented output extent of a convolution / pooling axis *)
Definition conv_out (xi p w d s : N) : N := (xi + 2 * p - ((w - 1) * d + 1)) / s + 1.
Definition pool_out (xi p w s : N) : N := (xi + 2 * p - w) / s + 1.

Definition conv2d_admissible (x w : shape) (p0 p1 s0 s1 d0 d1 : N) : Prop :=
  depth x <= 3 /\ depth w <= 4 /\
  (get w 0 - 1) * d0 + 1 <= get x 0 + 2 * p0 /\
  (get w 1 - 1) * d1 + 1 <= get x 1 + 2 * p1 /\
  get x 2 = get w 2 /\ batch_compatible x w /\
  0 < s0 /\ 0 < s1 /\ 0 < d0 /\ 0 < d1 /\
  conv_out (get x 0) p0 (get w 0) d0 s0 * conv_out (get x 1) p1 (get w 1) d1 s1 *
    get w 3 * N.max (batch x) (batch w) < P32.

Theorem conv2d_spec x w p0 p1 s0 s1 d0 d1 : wf x -> wf w ->
  u32 p0 -> u32 p1 -> u32 s0 -> u32 s1 -> u32 d0 -> u32 d1 ->
  match conv2d x w p0 p1 s0 s1 d0 d1 with
  | Some r => conv2d_admissible x w p0 p1 s0 s1 d0 d1 /\ wf r /\
              batch r = N.max (batch x) (batch w) /\
              (forall i, get r i =
                 if i =? 0 then conv_out (get x 0) p0 (get w 0) d0 s0
                 else if i =? 1 then conv_out (get x 1) p1 (get w 1) d1 s1
                 else if i =? 2 then get w 3 else 1)
  | None => ~ conv2d_admissible x w p0 p1 s0 s1 d0 d1
  end.
Proof.
  intros Hx Hw Hp0 Hp1 Hs0 Hs1 Hd0 Hd1. unfold conv2d, conv2d_admissible, conv_out. cbv zeta.
  pose proof (get_u32 x 0 Hx) as Ux0. pose proof (get_u32 x 1 Hx) as Ux1.
  pose proof (get_u32 w 0 Hw) as Uw0. pose proof (get_u32 w 1 Hw) as Uw1.
  pose proof (get_pos w 0 Hw) as Pw0. pose proof (get_pos w 1 Hw) as Pw1.
  pose proof (get_pos w 3 Hw) as Pw3. pose proof (get_u32 w 3 Hw) as Uw3.
  pose proof (wf_batch _ Hx) as Hbx. pose proof (wf_batch _ Hw) as Hbw.
  rewrite (wrap64_small (2 * p0)) by (unfold u32, P32, P64 in *; lia).
  rewrite (wrap64_small (2 * p1)) by (unfold u32, P32, P64 in *; lia).
  rewrite (wrap64_small (get x 0 + 2 * p0)) by (unfold u32, P32, P64 in *; lia).
  rewrite (wrap64_small (get x 1 + 2 * p1)) by (unfold u32, P32, P64 in *; lia).
  rewrite (wrap32_small (get w 0 - 1)) by (unfold u32 in *; lia).
  rewrite (wrap32_small (get w 1 - 1)) by (unfold u32 in *; lia).
  assert (A0 : (get w 0 - 1) * d0 + 1 < P64) by (apply mul_u32_succ_lt64; unfold u32 in *; lia).
  assert (A1 : (get w 1 - 1) * d1 + 1 < P64) by (apply mul_u32_succ_lt64; unfold u32 in *; lia).
  rewrite (wrap64_small ((get w 0 - 1) * d0)) by lia.
  rewrite (wrap64_small ((get w 1 - 1) * d1)) by lia.
  rewrite (wrap64_small ((get w 0 - 1) * d0 + 1)) by exact A0.
  rewrite (wrap64_small ((get w 1 - 1) * d1 + 1)) by exact A1.
  set (X0 := get x 0 + 2 * p0) in *. set (X1 := get x 1 + 2 * p1) in *.
  set (W0 := (get w 0 - 1) * d0 + 1) in *. set (W1 := (get w 1 - 1) * d1 + 1) in *.
  assert (HX0 : X0 < 3 * P32) by (subst X0; unfold u32 in *; lia).
  assert (HX1 : X1 < 3 * P32) by (subst X1; unfold u32 in *; lia).
  pose proof (has_compatible_batch_spec x w) as S2. fold (batch_compatible x w) in S2.
  destruct (N.ltb_spec 3 (depth x)) as [C1|C1]; cbn [orb]; [lia|].
  destruct (N.ltb_spec 4 (depth w)) as [C2|C2]; cbn [orb]; [lia|].
  destruct (N.ltb_spec X0 W0) as [C3|C3]; cbn [orb]; [lia|].
  destruct (N.ltb_spec X1 W1) as [C4|C4]; cbn [orb]; [lia|].
  destruct (N.eqb_spec (get x 2) (get w 2)) as [C5|C5]; cbn [negb orb]; [|tauto].
  destruct (has_compatible_batch x w) eqn:C6; cbn [negb orb].
  2: { intros [_ [_ [_ [_ [_ [A _]]]]]]. apply S2 in A. discriminate. }
  assert (C6' : batch_compatible x w) by (apply S2; reflexivity).
  destruct (N.eqb_spec s0 0) as [C7|C7]; cbn [orb]; [lia|].
  destruct (N.eqb_spec s1 0) as [C8|C8]; cbn [orb]; [lia|].
  destruct (N.eqb_spec d0 0) as [C9|C9]; cbn [orb]; [lia|].
  destruct (N.eqb_spec d1 0) as [C10|C10]; cbn [orb]; [lia|].
  pose proof (div_le_self (X0 - W0) s0 ltac:(lia)) as Q0.
  pose proof (div_le_self (X1 - W1) s1 ltac:(lia)) as Q1.
  rewrite (wrap64_small ((X0 - W0) / s0 + 1)) by (unfold P32, P64 in *; lia).
  rewrite (wrap64_small ((X1 - W1) / s1 + 1)) by (unfold P32, P64 in *; lia).
  set (y0 := (X0 - W0) / s0 + 1) in *. set (y1 := (X1 - W1) / s1 + 1) in *.
  assert (Py0 : 1 <= y0) by (subst y0; apply N.le_add_l).
  assert (Py1 : 1 <= y1) by (subst y1; apply N.le_add_l).
  set (B := N.max (batch x) (batch w)) in *.
  assert (PB : 1 <= B) by (subst B; lia).
  assert (Pw3' : 1 <= get w 3) by lia.
  pose proof (le_mul4_1 y0 y1 (get w 3) B Py1 Pw3' PB) as Hge0.
  pose proof (le_mul4_2 y0 y1 (get w 3) B Py0 Pw3' PB) as Hge1.
  destruct (N.ltb_spec U32MAX y0) as [C11|C11]; cbn [orb].
  { intros [_ [_ [_ [_ [_ [_ [_ [_ [_ [_ A]]]]]]]]]]. unfold U32MAX, P32 in *. lia. }
  destruct (N.ltb_spec U32MAX y1) as [C12|C12].
  { intros [_ [_ [_ [_ [_ [_ [_ [_ [_ [_ A]]]]]]]]]]. unfold U32MAX, P32 in *. lia. }
  assert (Hu : Forall u32 [y0; y1; get w 3])
    by (repeat constructor; unfold u32, U32MAX, P32 in *; lia).
  assert (HBu : u32 B) by (subst B; apply max_u32; apply batch_u32; assumption).
  pose proof (mk_shape_spec [y0; y1; get w 3] B Hu HBu) as M.
  unfold ctor_admissible in M. rewrite !prodN_cons, prodN_nil in M.
  replace (y0 * (y1 * (get w 3 * 1)) * B) with (y0 * y1 * get w 3 * B) in M by lia.
  destruct (mk_shape [y0; y1; get w 3] B) as [r|].
  - destruct M as [[_ [_ [_ Ms]]] [Mw [Mb [Mg _]]]].
    split; [repeat (split; [first [assumption|lia]|]); exact Ms|].
    split; [exact Mw|]. split; [exact Mb|]. intro i. rewrite Mg. apply sget3.
  - intros [_ [_ [_ [_ [_ [_ [_ [_ [_ [_ A]]]]]]]]]]. apply M. cbn [length]. split; [lia|]. split.
    + repeat constructor; lia.
    + split; [lia|exact A].
Qed.

Definition pool2d_admissible (x : shape) (w0 w1 p0 p1 s0 s1 : N) : Prop :=
  depth x <= 3 /\ w0 <= get x 0 + 2 * p0 /\ w1 <= get x 1 + 2 * p1 /\
  0 < w0 /\ 0 < w1 /\ 0 < s0 /\ 0 < s1 /\
  pool_out (get x 0) p0 w0 s0 * pool_out (get x 1) p1 w1 s1 * get x 2 * batch x < P32.

Theorem pool2d_spec x w0 w1 p0 p1 s0 s1 : wf x ->
  u32 w0 -> u32 w1 -> u32 p0 -> u32 p1 -> u32 s0 -> u32 s1 ->
  match pool2d x w0 w1 p0 p1 s0 s1 with
  | Some r => pool2d_admissible x w0 w1 p0 p1 s0 s1 /\ wf r /\ batch r = batch x /\
              (forall i, get r i =
                 if i =? 0 then pool_out (get x 0) p0 w0 s0
                 else if i =? 1 then pool_out (get x 1) p1 w1 s1
                 else if i =? 2 then get x 2 else 1)
  | None => ~ pool2d_admissible x w0 w1 p0 p1 s0 s1
  end.
Proof.
  intros Hx Hw0 Hw1 Hp0 Hp1 Hs0 Hs1. unfold pool2d, pool2d_admissible, pool_out. cbv zeta.
  pose proof (get_u32 x 0 Hx) as Ux0. pose proof (get_u32 x 1 Hx) as Ux1.
  pose proof (get_pos x 2 Hx) as Px2. pose proof (get_u32 x 2 Hx) as Ux2.
  pose proof (wf_batch _ Hx) as Hbx.
  rewrite (wrap64_small (2 * p0)) by (unfold u32, P32, P64 in *; lia).
  rewrite (wrap64_small (2 * p1)) by (unfold u32, P32, P64 in *; lia).
  rewrite (wrap64_small (get x 0 + 2 * p0)) by (unfold u32, P32, P64 in *; lia).
  rewrite (wrap64_small (get x 1 + 2 * p1)) by (unfold u32, P32, P64 in *; lia).
  set (X0 := get x 0 + 2 * p0) in *. set (X1 := get x 1 + 2 * p1) in *.
  assert (HX0 : X0 < 3 * P32) by (subst X0; unfold u32 in *; lia).
  assert (HX1 : X1 < 3 * P32) by (subst X1; unfold u32 in *; lia).
  destruct (N.ltb_spec 3 (depth x)) as [C1|C1]; cbn [orb]; [lia|].
  destruct (N.ltb_spec X0 w0) as [C3|C3]; cbn [orb]; [lia|].
  destruct (N.ltb_spec X1 w1) as [C4|C4]; cbn [orb]; [lia|].
  destruct (N.eqb_spec w0 0) as [C5|C5]; cbn [orb]; [lia|].
  destruct (N.eqb_spec w1 0) as [C6|C6]; cbn [orb]; [lia|].
  destruct (N.eqb_spec s0 0) as [C7|C7]; cbn [orb]; [lia|].
  destruct (N.eqb_spec s1 0) as [C8|C8]; cbn [orb]; [lia|].
  pose proof (div_le_self (X0 - w0) s0 ltac:(lia)) as Q0.
  pose proof (div_le_self (X1 - w1) s1 ltac:(lia)) as Q1.
  rewrite (wrap64_small ((X0 - w0) / s0 + 1)) by (unfold P32, P64 in *; lia).
  rewrite (wrap64_small ((X1 - w1) / s1 + 1)) by (unfold P32, P64 in *; lia).
  set (y0 := (X0 - w0) / s0 + 1) in *. set (y1 := (X1 - w1) / s1 + 1) in *.
  assert (Py0 : 1 <= y0) by (subst y0; apply N.le_add_l).
  assert (Py1 : 1 <= y1) by (subst y1; apply N.le_add_l).
  assert (Px2' : 1 <= get x 2) by lia. assert (Hbx' : 1 <= batch x) by lia.
  pose proof (le_mul4_1 y0 y1 (get x 2) (batch x) Py1 Px2' Hbx') as Hge0.
  pose proof (le_mul4_2 y0 y1 (get x 2) (batch x) Py0 Px2' Hbx') as Hge1.
  destruct (N.ltb_spec U32MAX y0) as [C11|C11]; cbn [orb].
  { intros [_ [_ [_ [_ [_ [_ [_ A]]]]]]]. unfold U32MAX, P32 in *. lia. }
  destruct (N.ltb_spec U32MAX y1) as [C12|C12].
  { intros [_ [_ [_ [_ [_ [_ [_ A]]]]]]]. unfold U32MAX, P32 in *. lia. }
  assert (Hu : Forall u32 [y0; y1; get x 2])
    by (repeat constructor; unfold u32, U32MAX, P32 in *; lia).
  pose proof (mk_shape_spec [y0; y1; get x 2] (batch x) Hu (batch_u32 _ Hx)) as M.
  unfold ctor_admissible in M. rewrite !prodN_cons, prodN_nil in M.
  replace (y0 * (y1 * (get x 2 * 1)) * batch x) with (y0 * y1 * get x 2 * batch x) in M by lia.
  destruct (mk_shape [y0; y1; get x 2] (batch x)) as [r|].
  - destruct M as [[_ [_ [_ Ms]]] [Mw [Mb [Mg _]]]].
    split; [repeat (split; [first [assumption|lia]|]); exact Ms|].
    split; [exact Mw|]. split; [exact Mb|]. intro i. rewrite Mg. apply sget3.
  - intros [_ [_ [_ [_ [_ [_ [_ A]]]]]]]. apply M. cbn [length]. split; [lia|]. split.
    + repeat constructor; lia.
    + split; [lia|exact A].
Qed.

(* ------------------------------------------------------------------------------------ *)
(* every constructor / mutator / rule maps well-formed arguments to a well-formed result  *)
(* ------------------------------------------------------------------------------------ *)

Lemma scalar_shape_wf : wf scalar_shape.
Proof.
  constructor; cbn [scalar_shape dims batch volume length].
  - lia.
  - constructor.
  - reflexivity.
  - lia.
  - reflexivity.
  - rewrite prodN_nil. unfold P32. lia.
Qed.

Definition rules_preserve_wf : Prop :=
  wf scalar_shape /\
  (forall ds b r, Forall u32 ds -> u32 b -> mk_shape ds b = Some r -> wf r) /\
  (forall s dim m r, wf s -> u32 dim -> u32 m -> update_dim s dim m = Some r -> wf r) /\
  (forall s b r, wf s -> u32 b -> update_batch s b = Some r -> wf r) /\
  (forall a b r, wf a -> wf b -> reshape a b = Some r -> wf r) /\
  (forall x r, wf x -> flatten x = Some r -> wf r) /\
  (forall x k r, wf x -> wf k -> scalar_op x k = Some r -> wf r) /\
  (forall a b r, wf a -> wf b -> elementwise a b = Some r -> wf r) /\
  (forall x dim lo up r, wf x -> u32 dim -> u32 lo -> u32 up -> slice x dim lo up = Some r -> wf r) /\
  (forall xs dim r, Forall wf xs -> u32 (N.of_nat (length xs)) -> u32 dim ->
                    concat xs dim = Some r -> wf r) /\
  (forall x dim sz r, wf x -> u32 dim -> u32 sz -> broadcast x dim sz = Some r -> wf r) /\
  (forall x ids dim r, wf x -> Forall u32 ids -> u32 (N.of_nat (length ids)) -> u32 dim ->
                       pick x ids dim = Some r -> wf r) /\
  (forall x r, wf x -> transpose x = Some r -> wf r) /\
  (forall x perm r, wf x -> Forall u32 perm -> permute_dims x perm = Some r -> wf r) /\
  (forall a b r, wf a -> wf b -> matmul a b = Some r -> wf r) /\
  (forall x w p0 p1 s0 s1 d0 d1 r, wf x -> wf w ->
     u32 p0 -> u32 p1 -> u32 s0 -> u32 s1 -> u32 d0 -> u32 d1 ->
     conv2d x w p0 p1 s0 s1 d0 d1 = Some r -> wf r) /\
  (forall x w0 w1 p0 p1 s0 s1 r, wf x ->
     u32 w0 -> u32 w1 -> u32 p0 -> u32 p1 -> u32 s0 -> u32 s1 ->
     pool2d x w0 w1 p0 p1 s0 s1 = Some r -> wf r) /\
  (forall x ids r, wf x -> Forall u32 ids -> u32 (N.of_nat (length ids)) ->
                   batch_pick x ids = Some r -> wf r) /\
  (forall x lo up r, wf x -> u32 lo -> u32 up -> batch_slice x lo up = Some r -> wf r) /\
  (forall xs r, Forall wf xs -> u32 (N.of_nat (length xs)) -> batch_concat xs = Some r -> wf r) /\
  (forall x dim n r, wf x -> u32 dim -> u32 n -> split x dim n = Some r -> wf r) /\
  (forall x n r, wf x -> u32 n -> batch_split x n = Some r -> wf r) /\
  (forall x t dim r, wf x -> wf t -> u32 dim -> sce x t dim = Some r -> wf r) /\
  (forall x dim r, wf x -> u32 dim -> reduce x dim = Some r -> wf r) /\
  (forall sz r, u32 sz -> identity sz = Some r -> wf r) /\
  (forall x r, wf x -> batch_sum x = Some r -> wf r).

Local Ltac by_spec S E := rewrite E in S; tauto.

Theorem canonical_reachable : rules_preserve_wf.
Proof.
  unfold rules_preserve_wf. split; [exact scalar_shape_wf|].
  split. { intros ds b r H1 H2 E. apply (mk_shape_some ds b r H1 H2 E). }
  split. { intros s dim m r H1 H2 H3 E. pose proof (update_dim_spec s dim m H1 H2 H3) as S. by_spec S E. }
  split. { intros s b r H1 H2 E. pose proof (update_batch_spec s b H1 H2) as S. by_spec S E. }
  split. { intros a b r H1 H2 E. pose proof (reshape_spec a b H1 H2) as S. by_spec S E. }
  split. { intros x r H1 E. pose proof (flatten_spec x H1) as S. by_spec S E. }
  split. { intros x k r H1 H2 E. pose proof (scalar_op_spec x k H1 H2) as S. by_spec S E. }
  split. { intros a b r H1 H2 E. pose proof (elementwise_spec a b H1 H2) as S. by_spec S E. }
  split. { intros x dim lo up r H1 H2 H3 H4 E. pose proof (slice_spec x dim lo up H1 H2 H3 H4) as S. by_spec S E. }
  split. { intros xs dim r H1 H2 H3 E. pose proof (concat_spec xs dim H1 H2 H3) as S. by_spec S E. }
  split. { intros x dim sz r H1 H2 H3 E. pose proof (broadcast_spec x dim sz H1 H2 H3) as S. by_spec S E. }
  split. { intros x ids dim r H1 H2 H3 H4 E. pose proof (pick_spec x ids dim H1 H2 H3 H4) as S. by_spec S E. }
  split. { intros x r H1 E. pose proof (transpose_spec x H1) as S. by_spec S E. }
  split. { intros x perm r H1 H2 E. pose proof (permute_dims_spec x perm H1 H2) as S. by_spec S E. }
  split. { intros a b r H1 H2 E. pose proof (matmul_spec a b H1 H2) as S. by_spec S E. }
  split. { intros x w p0 p1 s0 s1 d0 d1 r H1 H2 H3 H4 H5 H6 H7 H8 E.
           pose proof (conv2d_spec x w p0 p1 s0 s1 d0 d1 H1 H2 H3 H4 H5 H6 H7 H8) as S. by_spec S E. }
  split. { intros x w0 w1 p0 p1 s0 s1 r H1 H2 H3 H4 H5 H6 H7 E.
           pose proof (pool2d_spec x w0 w1 p0 p1 s0 s1 H1 H2 H3 H4 H5 H6 H7) as S. by_spec S E. }
  split. { intros x ids r H1 H2 H3 E. pose proof (batch_pick_spec x ids H1 H2 H3) as S. by_spec S E. }
  split. { intros x lo up r H1 H2 H3 E. pose proof (batch_slice_spec x lo up H1 H2 H3) as S. by_spec S E. }
  split. { intros xs r H1 H2 E. pose proof (batch_concat_spec xs H1 H2) as S. by_spec S E. }
  split. { intros x dim n r H1 H2 H3 E. pose proof (split_spec x dim n H1 H2 H3) as S. by_spec S E. }
  split. { intros x n r H1 H2 E. pose proof (batch_split_spec x n H1 H2) as S. by_spec S E. }
  split. { intros x t dim r H1 H2 H3 E. pose proof (sce_spec x t dim H1 H2 H3) as S. by_spec S E. }
  split. { intros x dim r H1 H2 E. pose proof (reduce_spec x dim H1 H2) as S. by_spec S E. }
  split. { intros sz r H1 E. pose proof (identity_spec sz H1) as S. by_spec S E. }
  intros x r H1 E. pose proof (batch_sum_spec x H1) as S. by_spec S E.
Qed.
