(* small consequences of the shape specifications that the Properties files re-export by `exact` *)
From Coq Require Import NArith Lia Bool List.
From PV Require Import Base.U32 Shape.ShapeImpl Shape.ShapeSpec Shape.ShapeProofs.
Local Open Scope N_scope.

Lemma update_dim_rejects_exactly s dim m : wf s -> u32 dim -> u32 m ->
  (update_dim s dim m = None <-> ~ update_dim_admissible s dim m).
Proof.
  intros Hs Hd Hm. pose proof (update_dim_spec s dim m Hs Hd Hm) as H.
  destruct (update_dim s dim m); split; intro E; try discriminate; tauto.
Qed.
