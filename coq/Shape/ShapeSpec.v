(* Arbitrary-precision specification vocabulary for shapes: true products over N,
   canonical form, and the well-formedness invariant every public Shape satisfies. *)
From Coq Require Import List NArith Bool Lia.
From PV Require Import Base.U32 Shape.ShapeImpl.
Import ListNotations.
Local Open Scope N_scope.

Definition prodN (l : list N) : N := fold_right N.mul 1 l.

(* canonical dimension list: no trailing 1 *)
Definition canonical (l : list N) : Prop := trim l = l.

(* what "a Shape obtainable through the public API" must satisfy *)
Record wf (s : shape) : Prop := mkWf {
  wf_depth   : (length (dims s) <= 8)%nat;
  wf_pos     : Forall (fun d => 0 < d) (dims s);
  wf_canon   : canonical (dims s);
  wf_batch   : 0 < batch s;
  wf_volume  : volume s = prodN (dims s);
  wf_size    : prodN (dims s) * batch s < P32;     (* the TRUE element count fits in 32 bits *)
}.

(* the i-th dimension of the mathematical object: 1 beyond the stored depth *)
Definition sget (l : list N) (i : N) : N := nth (N.to_nat i) l 1.

(* true (unbounded) element count *)
Definition true_size (s : shape) : N := prodN (dims s) * batch s.
