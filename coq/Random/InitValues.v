(* C17 -- VALUE-level model of the two deterministic initializers (audit finding: RandModel.v
   only says which REQUEST an initializer issues -- QReset k, QIdentity n -- not which values
   end up in the tensor).  Transcribed from
     primitiv/core/initializer_impl.cc   Constant::apply  { x.reset(k_); }
                                         Identity::apply  { if (!s.is_matrix() || s[0] != s[1]) throw;
                                                            x = x.device().identity(s[0]); }
     primitiv/core/device.cc             Device::identity(size) { if (size == 0) throw;
                                                            y = new_raw_tensor({size, size}); identity_impl(y); }
     primitiv/devices/naive/ops/identity.cc   reset_tensor_impl(0, y);
                                              REPEAT_OP(i, size, dest[i * (size + 1)] = 1);   (uint32 arithmetic)
     primitiv/devices/naive/ops/reset_tensor.cc   REPEAT_OP(i, x.shape().size(), dest[i] = k);
     primitiv/core/parameter.cc          Parameter(shape, initializer, device): zeros(shape) for value and
                                         gradient, assert_shape (throws if the shape has a batch), initializer.apply(value_)
   (devices/eigen/ops/identity.cc uses Eigen's setIdentity() on the column-major map; it is tied to
   this model by the correspondence run only.)   Buffers are column-major: element (i, j) of an
   n x n matrix is at offset i + j * n.   No proofs in this file. *)
From Coq Require Import List NArith Bool.
From PV Require Import Base.U32 Shape.ShapeImpl.
Import ListNotations.
Local Open Scope N_scope.

Section Values.
Context {T : Type}.

Fixpoint set_at (l : list T) (p : nat) (x : T) : list T :=
  match l, p with
  | [], _ => []
  | _ :: r, O => x :: r
  | a :: r, S p' => a :: set_at r p' x
  end.

(* reset_tensor_impl(k, x): every one of the shape().size() = volume * batch elements *)
Definition constant_values (k : T) (s : shape) : list T := repeat k (N.to_nat (size s)).

(* dest[i * (size + 1)] with i and size of type std::uint32_t *)
Definition identity_index (n i : N) : N := wrap32 (i * wrap32 (n + 1)).
(* Naive::identity_impl on the n*n buffer of the new tensor *)
Definition identity_values (zero one : T) (n : N) : list T :=
  fold_left (fun buf i => set_at buf (N.to_nat (identity_index n (N.of_nat i))) one)
            (seq 0 (N.to_nat n)) (repeat zero (N.to_nat (wrap32 (n * n)))).

Inductive dinit := DConstant (k : T) | DIdentity.

(* Initializer::apply(x) for a valid tensor x of shape s: None = Error thrown (x unchanged),
   Some (s', v) = afterwards x has shape s' and the values v.
   NOTE the guard of Identity::apply does not examine the batch size: on a batched square shape
   the tensor is REPLACED by the batch-1 identity matrix. *)
Definition init_tensor (zero one : T) (i : dinit) (s : shape) : option (shape * list T) :=
  match i with
  | DConstant k => Some (s, constant_values k s)
  | DIdentity =>
      if negb (is_matrix s) || negb (get s 0 =? get s 1) then None
      else let n := get s 0 in
           if n =? 0 then None
           else match mk_shape [n; n] 1 with
                | Some s' => Some (s', identity_values zero one n)
                | None => None
                end
  end.

(* Parameter(shape, initializer): rejected when the shape has a batch (assert_shape), before the
   initializer runs *)
Definition init_parameter (zero one : T) (i : dinit) (s : shape) : option (shape * list T) :=
  if has_batch s then None else init_tensor zero one i s.
End Values.
Arguments dinit : clear implicits.
