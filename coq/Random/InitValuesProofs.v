(* C17 -- theorems about the value-level model of Constant and Identity (InitValues.v). *)
From Coq Require Import List NArith Bool Arith Lia.
From PV Require Import Base.U32 Base.Scalar Shape.ShapeImpl Shape.ShapeSpec Shape.ShapeLemmas
  Shape.ShapeProofs Random.RandModel Random.RandProofs Random.InitValues.
Import ListNotations.

Section Proofs.
Context {T : Type}.

(* ---- list plumbing *)
Lemma set_at_length (l : list T) p x : length (set_at l p x) = length l.
Proof. revert p; induction l as [|a l IH]; intros [|p]; cbn; auto. Qed.

Lemma nth_set_at (l : list T) p q x d :
  nth q (set_at l p x) d = if (p =? q)%nat && (q <? length l)%nat then x else nth q l d.
Proof.
  revert p q; induction l as [|a l IH]; intros p q.
  - cbn. rewrite andb_false_r. destruct p; reflexivity.
  - destruct p as [|p], q as [|q]; cbn [set_at nth length]; try reflexivity.
    rewrite IH. change (S p =? S q)%nat with (p =? q)%nat.
    change (S q <? S (length l))%nat with (q <? length l)%nat. reflexivity.
Qed.

(* the stride-(n+1) writes, over nat *)
Definition ident_nat (zero one : T) (n : nat) : list T :=
  fold_left (fun buf i => set_at buf (i * (n + 1)) one) (seq 0 n) (repeat zero (n * n)).

Lemma fold_set_length (idx : nat -> nat) (one : T) m buf :
  length (fold_left (fun b i => set_at b (idx i) one) (seq 0 m) buf) = length buf.
Proof.
  induction m as [|m IH]; [reflexivity|].
  rewrite seq_S, fold_left_app. cbn [fold_left plus]. rewrite set_at_length. exact IH.
Qed.

Lemma fold_set_nth (idx : nat -> nat) (one : T) m buf q d :
  (q < length buf)%nat ->
  nth q (fold_left (fun b i => set_at b (idx i) one) (seq 0 m) buf) d =
  if existsb (fun i => (idx i =? q)%nat) (seq 0 m) then one else nth q buf d.
Proof.
  intros Hq. induction m as [|m IH]; [reflexivity|].
  rewrite seq_S, fold_left_app, existsb_app. cbn [fold_left plus existsb].
  rewrite nth_set_at, fold_set_length, IH.
  replace (q <? length buf)%nat with true by (symmetry; apply Nat.ltb_lt; exact Hq).
  rewrite andb_true_r, orb_false_r.
  destruct (idx m =? q)%nat; [rewrite orb_true_r; reflexivity | rewrite orb_false_r; reflexivity].
Qed.

Lemma ident_nat_length (zero one : T) n : length (ident_nat zero one n) = (n * n)%nat.
Proof. unfold ident_nat. rewrite fold_set_length. apply repeat_length. Qed.

(* element (i, j), column-major *)
Lemma ident_nat_spec (zero one : T) n i j : (i < n)%nat -> (j < n)%nat ->
  nth (i + j * n) (ident_nat zero one n) zero = if (i =? j)%nat then one else zero.
Proof.
  intros Hi Hj. unfold ident_nat.
  rewrite fold_set_nth by (rewrite repeat_length; nia).
  rewrite nth_repeat.
  destruct (i =? j)%nat eqn:E.
  - apply Nat.eqb_eq in E. subst j.
    replace (existsb (fun q => (q * (n + 1) =? i + i * n)%nat) (seq 0 n)) with true; [reflexivity|].
    symmetry. apply existsb_exists. exists i. split; [apply in_seq; lia | apply Nat.eqb_eq; lia].
  - apply Nat.eqb_neq in E.
    destruct (existsb (fun q => (q * (n + 1) =? i + j * n)%nat) (seq 0 n)) eqn:Ex; [|reflexivity].
    exfalso. apply existsb_exists in Ex. destruct Ex as (q & Hq & Hqe).
    apply in_seq in Hq. apply Nat.eqb_eq in Hqe.
    assert (H : (n * q + q = n * j + i)%nat) by lia.
    destruct (Nat.div_mod_unique n q j q i) as [H1 H2]; try lia.
Qed.

(* the ones are exactly the n diagonal positions *)
Lemma ident_nat_count (zero one : T) n p : (p < n * n)%nat ->
  nth p (ident_nat zero one n) zero = if (p mod n =? p / n)%nat then one else zero.
Proof.
  intros Hp. assert (Hn : (0 < n)%nat) by nia.
  pose proof (Nat.div_mod p n ltac:(lia)) as Hdm.
  pose proof (Nat.mod_upper_bound p n ltac:(lia)) as Hm.
  assert (Hd : (p / n < n)%nat) by (apply Nat.div_lt_upper_bound; lia).
  replace p with (p mod n + (p / n) * n)%nat at 1 by lia.
  apply ident_nat_spec; auto.
Qed.

(* ---- the uint32 index arithmetic of identity.cc does not wrap *)
Local Open Scope N_scope.

Lemma identity_values_nat (zero one : T) n : n * n < P32 ->
  identity_values zero one n = ident_nat zero one (N.to_nat n).
Proof.
  intros Hn. unfold identity_values, ident_nat.
  assert (Hw : wrap32 (n * n) = n * n) by (unfold wrap32; apply N.mod_small; exact Hn).
  rewrite Hw. replace (N.to_nat (n * n)) with (N.to_nat n * N.to_nat n)%nat by lia.
  generalize (repeat zero (N.to_nat n * N.to_nat n)). intros buf.
  assert (Hgen : forall l, (forall i, In i l -> (i < N.to_nat n)%nat) ->
    forall b, fold_left (fun buf i => set_at buf (N.to_nat (identity_index n (N.of_nat i))) one) l b =
              fold_left (fun buf i => set_at buf (i * (N.to_nat n + 1)) one) l b).
  { induction l as [|i l IH]; intros Hl b; [reflexivity|]. cbn [fold_left].
    rewrite IH by (intros; apply Hl; right; auto). f_equal. f_equal.
    assert (Hi : (i < N.to_nat n)%nat) by (apply Hl; left; reflexivity).
    unfold identity_index, wrap32.
    rewrite (N.mod_small (n + 1)) by (unfold P32 in *; nia).
    rewrite N.mod_small by (unfold P32 in *; nia). lia. }
  apply Hgen. intros i Hi. apply in_seq in Hi. lia.
Qed.

(* dest[i * (size + 1)]: the uint32 product is the exact diagonal offset i + i * n *)
Theorem identity_index_exact n i : n * n < P32 -> i < n -> identity_index n i = i + i * n.
Proof.
  intros Hn Hi. unfold identity_index, wrap32.
  rewrite (N.mod_small (n + 1)) by (unfold P32 in *; nia).
  rewrite N.mod_small by (unfold P32 in *; nia). lia.
Qed.

Theorem identity_values_length (zero one : T) n : n * n < P32 ->
  length (identity_values zero one n) = N.to_nat (n * n).
Proof. intros Hn. rewrite identity_values_nat by exact Hn. rewrite ident_nat_length. lia. Qed.

Theorem identity_values_spec (zero one : T) n i j : n * n < P32 -> i < n -> j < n ->
  nth (N.to_nat (i + j * n)) (identity_values zero one n) zero = if i =? j then one else zero.
Proof.
  intros Hn Hi Hj. rewrite identity_values_nat by exact Hn.
  replace (N.to_nat (i + j * n)) with (N.to_nat i + N.to_nat j * N.to_nat n)%nat by lia.
  rewrite ident_nat_spec by lia.
  destruct (N.eqb_spec i j) as [->|Hne]; [rewrite Nat.eqb_refl; reflexivity|].
  replace (N.to_nat i =? N.to_nat j)%nat with false; [reflexivity|].
  symmetry. apply Nat.eqb_neq. lia.
Qed.

(* ---- Constant *)
Theorem constant_values_spec (k : T) s :
  length (constant_values k s) = N.to_nat (size s) /\ Forall (fun x => x = k) (constant_values k s).
Proof.
  unfold constant_values. split; [apply repeat_length|].
  apply Forall_forall. intros x Hx. apply repeat_spec in Hx. exact Hx.
Qed.

Theorem constant_every_shape (zero one : T) (k : T) s :
  init_tensor zero one (DConstant k) s = Some (s, constant_values k s) /\
  (wf s -> size s = batch s * volume s).
Proof.
  split; [reflexivity|]. intros W. unfold size, wrap32. apply N.mod_small.
  pose proof (wf_size s W) as Hs. pose proof (wf_volume s W) as Hv. rewrite Hv. unfold P32 in *. lia.
Qed.

(* ---- Identity: the guard, and the result *)
Lemma square_dims s : wf s -> is_matrix s = true -> get s 0 = get s 1 ->
  0 < get s 0 /\ get s 0 * get s 0 < P32 /\ volume s = get s 0 * get s 0 /\
  dims s = trim [get s 0; get s 0].
Proof.
  intros W Hm Hsq. unfold is_matrix in Hm. apply N.leb_le in Hm.
  pose proof (wf_pos s W) as Hp. pose proof (wf_size s W) as Hs. pose proof (wf_batch s W) as Hb.
  pose proof (wf_canon s W) as Hc. pose proof (wf_volume s W) as Hv.
  get_to_nth. unfold depth in *. unfold canonical in Hc.
  destruct (dims s) as [|a [|b [|c r]]] eqn:Ed; cbn [length] in Hm; try (exfalso; lia);
    repeat match goal with H : Forall _ (_ :: _) |- _ => inversion H; subst; clear H end;
    cbn [nth] in *; rewrite ?prodN_cons, ?prodN_nil in *.
  - split; [lia|]. split; [unfold P32; lia|]. split; [rewrite Hv; reflexivity|reflexivity].
  - subst a. cbn in Hc. discriminate Hc.
  - subst b. split; [lia|]. split; [unfold P32 in *; nia|]. split; [rewrite Hv; lia|].
    symmetry. exact Hc.
Qed.

Theorem identity_guard (zero one : T) s : wf s ->
  (init_tensor zero one DIdentity s = None <-> (is_matrix s = false \/ get s 0 <> get s 1)) /\
  (forall s' v, init_tensor zero one DIdentity s = Some (s', v) ->
     is_matrix s = true /\ get s 0 = get s 1 /\
     s' = mkS (dims s) 1 (volume s) /\ wf s' /\ v = identity_values zero one (get s 0) /\
     length v = N.to_nat (volume s) /\
     (forall i j, i < get s 0 -> j < get s 0 ->
        nth (N.to_nat (i + j * get s 0)) v zero = if i =? j then one else zero)).
Proof.
  intros W. cbn [init_tensor].
  destruct (is_matrix s) eqn:Em; cbn [negb orb].
  2:{ split; [split; auto|]. intros s' v H; discriminate H. }
  destruct (N.eqb_spec (get s 0) (get s 1)) as [Hsq|Hne]; cbn [negb].
  2:{ split; [split; auto|]. intros s' v H; discriminate H. }
  destruct (square_dims s W Em Hsq) as (Hp & Hlt & Hvol & Hd).
  cbv zeta. destruct (N.eqb_spec (get s 0) 0) as [E0|_]; [lia|].
  set (n := get s 0) in *.
  destruct (mk_shape [n; n] 1) as [s1|] eqn:Emk.
  - assert (Hu : Forall u32 [n; n]) by (repeat constructor; unfold u32, P32 in *; nia).
    destruct (mk_shape_some [n; n] 1 s1 Hu ltac:(reflexivity) Emk) as (_ & Es1 & W1).
    rewrite prodN_cons, prodN_cons, prodN_nil, N.mul_1_r in Es1.
    split.
    + split; [discriminate|]. intros [H|H]; [discriminate|contradiction].
    + intros s' v H. injection H as <- <-. split; [reflexivity|]. split; [exact Hsq|].
      split; [rewrite Es1, Hd, Hvol; reflexivity|]. split; [exact W1|]. split; [reflexivity|].
      split; [rewrite identity_values_length by exact Hlt; rewrite Hvol; reflexivity|].
      intros i j Hi Hj. apply identity_values_spec; auto.
  - exfalso. apply (mk_shape_none [n; n] 1); [| |exact Emk|].
    + repeat constructor; unfold u32, P32 in *; nia.
    + reflexivity.
    + unfold ctor_admissible. cbn [length]. rewrite !prodN_cons, prodN_nil.
      repeat split; try lia. repeat constructor; lia.
Qed.

(* an unbatched square matrix keeps its shape; a batched one is replaced by a batch-1 tensor *)
Theorem identity_result_shape (zero one : T) s s' v : wf s ->
  init_tensor zero one DIdentity s = Some (s', v) ->
  (batch s = 1 -> s' = s) /\ (has_batch s = true -> s' <> s /\ batch s' = 1).
Proof.
  intros W H. destruct (identity_guard zero one s W) as [_ Hg].
  destruct (Hg s' v H) as (_ & _ & -> & _). split.
  - intros Hb. destruct s as [d b vol]; cbn in *. subst b. reflexivity.
  - intros Hb. unfold has_batch in Hb. apply N.ltb_lt in Hb. split; [|reflexivity].
    intros E. destruct s as [d b vol]; cbn in *. injection E as E. lia.
Qed.

(* ---- Parameter *)
Theorem parameter_values (zero one : T) i s : wf s ->
  (has_batch s = true -> init_parameter zero one i s = None) /\
  (has_batch s = false -> init_parameter zero one i s = init_tensor zero one i s /\
     forall s' v, init_tensor zero one i s = Some (s', v) -> s' = s).
Proof.
  intros W. unfold init_parameter. split; intros Hb; rewrite Hb; [reflexivity|].
  split; [reflexivity|]. intros s' v H.
  assert (Hb1 : batch s = 1).
  { unfold has_batch in Hb. apply N.ltb_ge in Hb. pose proof (wf_batch s W). lia. }
  destruct i as [k|].
  - cbn in H. injection H as <- _. reflexivity.
  - apply (identity_result_shape zero one s s' v W H). exact Hb1.
Qed.

(* ---- agreement with the request-level model of RandModel.v *)
Theorem values_agree_with_requests (O : ops T) (C : conv T) (zero one : T) s : wf s ->
  (forall k, apply_init O C (IConstant k) s = Some (QReset k) /\
             init_tensor zero one (DConstant k) s = Some (s, constant_values k s)) /\
  (init_tensor zero one DIdentity s = None <-> apply_init O C IIdentity s = None) /\
  (forall s' v, init_tensor zero one DIdentity s = Some (s', v) ->
     apply_init O C IIdentity s = Some (QIdentity (get s 0)) /\
     devreq_rejected C (QIdentity (get s 0)) = false /\ mk_shape [get s 0; get s 0] 1 = Some s').
Proof.
  intros W. split; [intros k; split; reflexivity|].
  destruct (identity_guard zero one s W) as [Hn Hs].
  destruct (identity_requires_square O C s) as [Hq Hnone].
  split; [rewrite Hn, Hnone; reflexivity|].
  intros s' v H. destruct (Hs s' v H) as (Hm & Hsq & _).
  assert (Ha : apply_init O C IIdentity s = Some (QIdentity (get s 0))).
  { cbn [apply_init]. rewrite Hm. destruct (N.eqb_spec (get s 0) (get s 1)); [reflexivity|contradiction]. }
  split; [exact Ha|]. split; [apply identity_accepted; auto|].
  cbn [init_tensor] in H. rewrite Hm in H. cbn [negb orb] in H.
  destruct (N.eqb_spec (get s 0) (get s 1)); [|contradiction]. cbn [negb] in H. cbv zeta in H.
  destruct (get s 0 =? 0); [discriminate|].
  destruct (mk_shape [get s 0; get s 0] 1); [|discriminate]. injection H as <- _. reflexivity.
Qed.
End Proofs.
