(* Theorems about the model of the random sources and initializers (property C17).
   The libstdc++ distributions and std::mt19937 are an oracle; what is assumed of it is the
   record [oracle_ok] (an explicit premise, never a global assumption).  That the oracle's
   draws follow the named probability laws is NOT provable here and is only tested
   statistically by the check (engines/c17.py). *)
From Coq Require Import List ZArith NArith Bool Lia Reals Lra.
From PV Require Import Base.U32 Base.Scalar Shape.ShapeImpl Shape.ShapeSpec Shape.ShapeLemmas
  Shape.ShapeProofs Random.RandModel.
Import ListNotations.

(* ---------------------------------------------------------------------------------------- *)
(* The contract of the oracle.                                                               *)
(* std::uniform_real_distribution<float>(a, b) documents results in [a, b).  In binary32 the
   product-and-add of libstdc++ can round up to b, so the theorems only use the weaker closed
   contract [a, b]; [unif_halfopen] implies it. *)
Definition unif_closed {G} (O : oracle G) : Prop :=
  forall lo up n g x, (lo <= up)%Z -> In x (fst (o_unif O (FOrd lo) (FOrd up) n g)) ->
    exists z, x = FOrd z /\ (lo <= z <= up)%Z.
Definition unif_halfopen {G} (O : oracle G) : Prop :=
  forall lo up n g x, (lo <= up)%Z -> In x (fst (o_unif O (FOrd lo) (FOrd up) n g)) ->
    exists z, x = FOrd z /\ ((lo < up /\ lo <= z < up) \/ (lo = up /\ z = lo))%Z.

Record oracle_ok {G} (O : oracle G) : Prop := mkOk {
  ok_bern_len : forall p n g, length (fst (o_bern O p n g)) = N.to_nat n;
  ok_unif_len : forall a b n g, length (fst (o_unif O a b n g)) = N.to_nat n;
  ok_norm_len : forall a b n g, length (fst (o_norm O a b n g)) = N.to_nat n;
  ok_lognorm_len : forall a b n g, length (fst (o_lognorm O a b n g)) = N.to_nat n;
  ok_unif_range : unif_closed O
}.

Lemma halfopen_closed {G} (O : oracle G) : unif_halfopen O -> unif_closed O.
Proof.
  intros H lo up n g x Hle Hin. destruct (H lo up n g x Hle Hin) as [z [-> Hz]].
  exists z. split; [reflexivity|lia].
Qed.

(* ---------------------------------------------------------------------------------------- *)
(* comparisons *)
Lemma flt_ord a b : flt (FOrd a) (FOrd b) = true <-> (a < b)%Z.
Proof. unfold flt, fcmp. rewrite <- Z.compare_lt_iff. destruct (a ?= b)%Z; split; congruence. Qed.
Lemma fle_ord a b : fle (FOrd a) (FOrd b) = true <-> (a <= b)%Z.
Proof. unfold fle, fcmp, Z.le. destruct (a ?= b)%Z; split; congruence. Qed.
Lemma fgt_ord a b : fgt (FOrd a) (FOrd b) = true <-> (a > b)%Z.
Proof. unfold fgt, fcmp, Z.gt. destruct (a ?= b)%Z; split; congruence. Qed.
Lemma feq_ord a b : feq (FOrd a) (FOrd b) = true <-> a = b.
Proof. unfold feq, fcmp. rewrite <- Z.compare_eq_iff. destruct (a ?= b)%Z; split; congruence. Qed.
Lemma flt_ord_false a b : flt (FOrd a) (FOrd b) = false <-> (b <= a)%Z.
Proof. unfold flt, fcmp. destruct (Z.compare_spec a b); split; intros; try congruence; try lia. Qed.
Lemma nan_unordered x : flt FNaN x = false /\ flt x FNaN = false /\ fle FNaN x = false /\ fle x FNaN = false
  /\ fgt FNaN x = false /\ fgt x FNaN = false /\ feq FNaN x = false /\ feq x FNaN = false.
Proof. destruct x; repeat split; reflexivity. Qed.

(* ---------------------------------------------------------------------------------------- *)
(* The ordinal order IS the order of the represented real numbers: [val149 z] is the exact value
   of the finite binary32 number with ordinal z in units of 2^-149, and it is strictly monotone. *)
Section OrdinalOrder.
Local Open Scope Z_scope.
Definition mag149 (m : Z) : Z :=
  let e := m / P23 in let f := m mod P23 in
  if e =? 0 then f else (P23 + f) * 2 ^ (e - 1).

Lemma val149_mag z : val149 z = if z <? 0 then - mag149 (- z) else mag149 z.
Proof.
  unfold val149, mag149. destruct (Z.ltb_spec z 0) as [H|H].
  - rewrite Z.abs_neq by lia. reflexivity.
  - rewrite Z.abs_eq by lia. reflexivity.
Qed.

Lemma mag149_step m : 0 <= m -> mag149 m < mag149 (m + 1).
Proof.
  intro Hm. unfold mag149.
  assert (HP : P23 = 8388608) by reflexivity.
  pose proof (Z.div_mod m P23 ltac:(rewrite HP; lia)) as Hdm.
  pose proof (Z.mod_pos_bound m P23 ltac:(rewrite HP; lia)) as Hf.
  assert (He : 0 <= m / P23) by (apply Z.div_pos; rewrite ?HP; lia).
  set (e := m / P23) in *. set (f := m mod P23) in *.
  destruct (Z.eq_dec (f + 1) P23) as [Hc|Hc].
  - assert (E1 : (m + 1) / P23 = e + 1).
    { symmetry. apply (Z.div_unique (m + 1) P23 (e + 1) 0); lia. }
    assert (E2 : (m + 1) mod P23 = 0).
    { symmetry. apply (Z.mod_unique (m + 1) P23 (e + 1) 0); lia. }
    rewrite E1, E2. destruct (Z.eqb_spec (e + 1) 0) as [H0|_]; [lia|].
    replace (e + 1 - 1) with e by lia. rewrite Z.add_0_r.
    destruct (Z.eqb_spec e 0) as [->|Hne].
    + rewrite Z.pow_0_r. lia.
    + replace e with (Z.succ (e - 1)) at 2 by lia. rewrite Z.pow_succ_r by lia.
      assert (0 < 2 ^ (e - 1)) by (apply Z.pow_pos_nonneg; lia). nia.
  - assert (E1 : (m + 1) / P23 = e).
    { symmetry. apply (Z.div_unique (m + 1) P23 e (f + 1)); lia. }
    assert (E2 : (m + 1) mod P23 = f + 1).
    { symmetry. apply (Z.mod_unique (m + 1) P23 e (f + 1)); lia. }
    rewrite E1, E2. destruct (Z.eqb_spec e 0) as [_|Hne]; [lia|].
    assert (0 < 2 ^ (e - 1)) by (apply Z.pow_pos_nonneg; lia). nia.
Qed.

Lemma mag149_mono a b : 0 <= a < b -> mag149 a < mag149 b.
Proof.
  intros [Ha Hab].
  assert (H : forall n : nat, mag149 a < mag149 (a + 1 + Z.of_nat n)).
  { induction n as [|n IH].
    - rewrite Z.add_0_r. apply mag149_step. exact Ha.
    - eapply Z.lt_trans; [exact IH|].
      replace (a + 1 + Z.of_nat (S n)) with (a + 1 + Z.of_nat n + 1) by lia.
      apply mag149_step. lia. }
  specialize (H (Z.to_nat (b - a - 1))). rewrite Z2Nat.id in H by lia.
  replace (a + 1 + (b - a - 1)) with b in H by lia. exact H.
Qed.

Lemma mag149_0 : mag149 0 = 0.  Proof. reflexivity. Qed.

(* the ordinal order IS the order of the represented real numbers *)
Lemma val149_mono a b : a < b -> val149 a < val149 b.
Proof.
  intro Hab. rewrite !val149_mag.
  destruct (Z.ltb_spec a 0) as [Ha|Ha], (Z.ltb_spec b 0) as [Hb|Hb].
  - assert (mag149 (- b) < mag149 (- a)) by (apply mag149_mono; lia). lia.
  - assert (0 < mag149 (- a)) by (rewrite <- mag149_0; apply mag149_mono; lia).
    assert (0 <= mag149 b).
    { destruct (Z.eq_dec b 0) as [->|Hn]; [rewrite mag149_0; lia|].
      assert (mag149 0 < mag149 b) by (apply mag149_mono; lia). rewrite mag149_0 in *. lia. }
    lia.
  - lia.
  - apply mag149_mono. lia.
Qed.

Lemma ordinal_order a b :
  (a < b <-> val149 a < val149 b) /\ (a <= b <-> val149 a <= val149 b) /\ (a = b <-> val149 a = val149 b).
Proof.
  assert (M := val149_mono).
  repeat split; intro H.
  - apply M; exact H.
  - destruct (Z.lt_ge_cases a b) as [L|L]; [exact L|]. exfalso.
    destruct (Z.eq_dec a b) as [->|Hn]; [lia|]. assert (val149 b < val149 a) by (apply M; lia). lia.
  - destruct (Z.eq_dec a b) as [->|Hn]; [lia|]. assert (val149 a < val149 b) by (apply M; lia). lia.
  - destruct (Z.le_gt_cases a b) as [L|L]; [exact L|]. exfalso. assert (val149 b < val149 a) by (apply M; lia). lia.
  - subst; reflexivity.
  - destruct (Z.lt_trichotomy a b) as [L|[L|L]]; [|exact L|]; exfalso.
    + assert (val149 a < val149 b) by (apply M; lia). lia.
    + assert (val149 b < val149 a) by (apply M; lia). lia.
Qed.

Lemma val149_landmarks :
  val149 0 = 0 /\ val149 ONE_ORD = 2 ^ 149 /\ val149 1 = 1 /\
  val149 (INF_ORD - 1) = 2 ^ 277 - 2 ^ 253 /\ val149 GUMBEL_UP_ORD = 2 ^ 149 - 2 ^ 126.
Proof. vm_compute. repeat split; reflexivity. Qed.
End OrdinalOrder.

(* ---------------------------------------------------------------------------------------- *)
(* validation *)
Lemma fge_ord a b : fge (FOrd a) (FOrd b) = true <-> (b <= a)%Z.
Proof. unfold fge. apply fle_ord. Qed.

Lemma span_finite_bounds a b : span_finite (FOrd a) (FOrd b) = true ->
  (Z.abs a < INF_ORD)%Z /\ (Z.abs b < INF_ORD)%Z.
Proof.
  unfold span_finite. intro H. apply andb_prop in H. destruct H as [H _].
  apply andb_prop in H. destruct H as [H1 H2]. apply Z.ltb_lt in H1, H2. split; assumption.
Qed.

(* The front ends accept EXACTLY: a non-NaN p with 0 <= p <= 1; non-NaN finite bounds with
   lower <= upper whose binary32 difference is finite; a non-NaN sd > 0. *)
Lemma validation_spec :
  (forall p, bernoulli_rejects p = false <-> exists z, p = FOrd z /\ (0 <= z <= ONE_ORD)%Z) /\
  (forall lo up, uniform_rejects lo up = false <->
     exists a b, lo = FOrd a /\ up = FOrd b /\ (a <= b)%Z /\ span_finite (FOrd a) (FOrd b) = true) /\
  (forall sd, normal_rejects sd = false <-> exists z, sd = FOrd z /\ (0 < z)%Z).
Proof.
  split; [|split].
  - intro p. unfold bernoulli_rejects. rewrite negb_false_iff, andb_true_iff. destruct p as [|z].
    + split; [intros [H _]; discriminate|intros [z [H _]]; discriminate].
    + unfold fzero, fone. rewrite fge_ord, fle_ord. split.
      * intro H. exists z. split; [reflexivity|exact H].
      * intros [z' [E H]]. inversion E; subst z'. exact H.
  - intros lo up. unfold uniform_rejects. rewrite orb_false_iff, !negb_false_iff.
    destruct lo as [|a], up as [|b]; try (split; [intros [H _]; discriminate|intros [a' [b' [E1 [E2 _]]]]; discriminate]).
    rewrite fle_ord. split.
    + intros [H1 H2]. exists a, b. repeat split; assumption.
    + intros [a' [b' [E1 [E2 [H1 H2]]]]]. inversion E1; inversion E2; subst a' b'. split; assumption.
  - intro sd. unfold normal_rejects. rewrite negb_false_iff. destruct sd as [|z].
    + split; [discriminate|intros [z [H _]]; discriminate].
    + unfold fzero. rewrite fgt_ord. split.
      * intro H. exists z. split; [reflexivity|lia].
      * intros [z' [E H]]. inversion E; subst z'. lia.
Qed.

(* in particular NaN parameters are rejected by every front end ... *)
Lemma nan_rejected :
  bernoulli_rejects FNaN = true /\
  (forall x, uniform_rejects FNaN x = true /\ uniform_rejects x FNaN = true) /\
  normal_rejects FNaN = true.
Proof. split; [reflexivity|split; [|reflexivity]]. intro x. destruct x; split; reflexivity. Qed.

(* ... and so are infinite bounds and finite bounds whose difference overflows binary32
   (-3e38f = ordinal -2137108966, 3e38f = 2137108966; FLT_MAX has ordinal 2139095039) *)
Lemma nonfinite_span_rejected :
  (forall x, uniform_rejects (FOrd (- INF_ORD)) x = true /\ uniform_rejects x (FOrd INF_ORD) = true) /\
  uniform_rejects (FOrd (-2137108966)) (FOrd 2137108966) = true /\
  uniform_rejects (FOrd (-2139095039)) (FOrd 2139095039) = true /\
  uniform_rejects (FOrd (-2130706431)) (FOrd 2130706431) = false.
Proof.
  split; [|vm_compute; repeat split; reflexivity].
  intro x. destruct x as [|z]; [split; reflexivity|]. unfold uniform_rejects. split.
  - apply orb_true_iff. right. reflexivity.
  - apply orb_true_iff. right. unfold span_finite.
    change (Z.abs INF_ORD <? INF_ORD)%Z with false. rewrite andb_false_r. reflexivity.
Qed.

(* a request is rejected exactly when its validation fails, and then no draw is made *)
Lemma step_rejected {G} (O : oracle G) g r :
  (fst (step O g r) = Rejected <-> request_rejected r = true) /\
  (request_rejected r = true -> snd (step O g r) = g).
Proof.
  destruct r as [p n|lo up n|m sd n|m sd n]; cbn [step request_rejected].
  - destruct (bernoulli_rejects p); [split; [split|]; reflexivity|].
    destruct (o_bern O p n g) as [bs g']. cbn [fst snd]. split; [split|]; discriminate.
  - destruct (uniform_rejects lo up); [split; [split|]; reflexivity|].
    destruct (o_unif O lo up n g) as [bs g']. cbn [fst snd]. split; [split|]; discriminate.
  - destruct (normal_rejects sd); [split; [split|]; reflexivity|].
    destruct (o_norm O m sd n g) as [bs g']. cbn [fst snd]. split; [split|]; discriminate.
  - destruct (normal_rejects sd); [split; [split|]; reflexivity|].
    destruct (o_lognorm O m sd n g) as [bs g']. cbn [fst snd]. split; [split|]; discriminate.
Qed.

(* ---------------------------------------------------------------------------------------- *)
(* the (lower, upper] fix-up *)
Lemma fixup_range lo up x : (lo < up)%Z -> (lo <= x <= up)%Z ->
  exists y, fixup (FOrd lo) (FOrd up) (FOrd x) = FOrd y /\ (lo < y <= up)%Z /\
            ((x <> lo /\ y = x) \/ (x = lo /\ y = up)).
Proof.
  intros Hlt Hx. unfold fixup, nextafter.
  destruct (Z.ltb_spec lo up) as [_|Hc]; [|lia].
  destruct (flt (FOrd x) (FOrd (lo + 1))) eqn:E.
  - apply flt_ord in E. exists up. split; [reflexivity|]. split; [lia|]. right. lia.
  - apply flt_ord_false in E. exists x. split; [reflexivity|]. split; [lia|]. left. lia.
Qed.

Lemma fixup_degenerate lo : fixup (FOrd lo) (FOrd lo) (FOrd lo) = FOrd lo.
Proof.
  unfold fixup, nextafter. rewrite Z.ltb_irrefl.
  destruct (flt (FOrd lo) (FOrd lo)); reflexivity.
Qed.

Lemma uniform_fixup_range {G} (O : oracle G) (HO : oracle_ok O) g lo up n ys g' :
  step O g (RUnif (FOrd lo) (FOrd up) n) = (Values ys, g') ->
  ((lo <= up)%Z /\ (Z.abs lo < INF_ORD)%Z /\ (Z.abs up < INF_ORD)%Z) /\ length ys = N.to_nat n /\
  Forall (fun y => exists z, y = FOrd z /\
                   ((lo < up)%Z -> (lo < z <= up)%Z) /\ (lo = up -> z = up)) ys /\
  (* nothing else is changed: a draw different from lower is delivered as drawn *)
  Forall2 (fun x y => x = y \/ (x = FOrd lo /\ y = FOrd up))
          (fst (o_unif O (FOrd lo) (FOrd up) n g)) ys.
Proof.
  cbn [step]. destruct (uniform_rejects (FOrd lo) (FOrd up)) eqn:Ev0; [discriminate|].
  assert (Ev : (lo <= up)%Z /\ (Z.abs lo < INF_ORD)%Z /\ (Z.abs up < INF_ORD)%Z).
  { apply (proj1 (proj2 validation_spec)) in Ev0. destruct Ev0 as [a [b [E1 [E2 [Hle Hsp]]]]].
    inversion E1; inversion E2; subst a b. split; [exact Hle|]. apply span_finite_bounds. exact Hsp. }
  destruct Ev as [Ev Hfin].
  pose proof (ok_unif_len O HO (FOrd lo) (FOrd up) n g) as Hlen.
  pose proof (ok_unif_range O HO lo up n g) as Hr.
  destruct (o_unif O (FOrd lo) (FOrd up) n g) as [xs g1]. cbn [fst] in *.
  intro H. inversion H; subst ys g'; clear H.
  split; [split; [exact Ev|exact Hfin]|]. split; [rewrite map_length; exact Hlen|]. split.
  - apply Forall_forall. intros y Hy. apply in_map_iff in Hy. destruct Hy as [x [<- Hx]].
    destruct (Hr x Ev Hx) as [z [-> Hz]].
    destruct (Z.eq_dec lo up) as [->|Hne].
    + assert (z = up) by lia. subst z. exists up. rewrite fixup_degenerate.
      split; [reflexivity|]. split; [lia|reflexivity].
    + destruct (fixup_range lo up z) as [y [-> [Hy _]]]; [lia|exact Hz|].
      exists y. split; [reflexivity|]. split; [intros _; exact Hy|intro; contradiction].
  - clear Hlen. induction xs as [|x r IH]; [constructor|]. cbn [map]. constructor.
    + destruct (Hr x Ev (or_introl eq_refl)) as [z [-> Hz]].
      destruct (Z.eq_dec lo up) as [->|Hne].
      * assert (z = up) by lia. subst z. rewrite fixup_degenerate. left. reflexivity.
      * destruct (fixup_range lo up z) as [y [-> [_ [[_ ->]|[-> ->]]]]]; [lia|exact Hz| |].
        -- left. reflexivity.
        -- right. split; reflexivity.
    + apply IH. intros x' Hle Hin. apply Hr; [exact Hle|right; exact Hin].
Qed.

(* ---------------------------------------------------------------------------------------- *)
(* bernoulli: 0/1 only; normal / log_normal: the draws as they are *)
Lemma bernoulli_zero_one {G} (O : oracle G) (HO : oracle_ok O) g p n ys g' :
  step O g (RBern p n) = (Values ys, g') ->
  bernoulli_rejects p = false /\ length ys = N.to_nat n /\
  Forall (fun y => y = fzero \/ y = fone) ys /\
  ys = map of_bool (fst (o_bern O p n g)).
Proof.
  cbn [step]. destruct (bernoulli_rejects p); [discriminate|].
  pose proof (ok_bern_len O HO p n g) as Hlen.
  destruct (o_bern O p n g) as [bs g1]. cbn [fst] in *.
  intro H. inversion H; subst ys g'; clear H.
  split; [reflexivity|]. split; [rewrite map_length; exact Hlen|]. split; [|reflexivity].
  apply Forall_forall. intros y Hy. apply in_map_iff in Hy. destruct Hy as [b [<- _]].
  destruct b; [right|left]; reflexivity.
Qed.

Lemma normal_passthrough {G} (O : oracle G) (HO : oracle_ok O) g m sd n ys g' :
  (step O g (RNorm m sd n) = (Values ys, g') ->
     normal_rejects sd = false /\ length ys = N.to_nat n /\ (ys, g') = o_norm O m sd n g) /\
  (step O g (RLogNorm m sd n) = (Values ys, g') ->
     normal_rejects sd = false /\ length ys = N.to_nat n /\ (ys, g') = o_lognorm O m sd n g).
Proof.
  split; cbn [step]; (destruct (normal_rejects sd); [discriminate|]).
  - pose proof (ok_norm_len O HO m sd n g) as Hlen. destruct (o_norm O m sd n g) as [xs g1].
    intro H. inversion H; subst. repeat split. exact Hlen.
  - pose proof (ok_lognorm_len O HO m sd n g) as Hlen. destruct (o_lognorm O m sd n g) as [xs g1].
    intro H. inversion H; subst. repeat split. exact Hlen.
Qed.

(* log_normal = exp of a real normal variate: strictly positive over the reals.  (In binary32
   expf underflows to 0 below about -103.97 and overflows to inf above about 88.72: a run-time
   fact, observed by the check, not covered by this lemma.) *)
Lemma lognormal_positive (m s z : R) : (0 < exp (m + s * z))%R.
Proof. apply exp_pos. Qed.

(* ---------------------------------------------------------------------------------------- *)
(* seeded replay *)
Lemma wrun_on_device {G} (O : oracle G) sch : forall (w : world G) d,
  on_device d (fst (wrun O w sch)) = fst (run O (w d) (on_device d sch)) /\
  snd (wrun O w sch) d = snd (run O (w d) (on_device d sch)).
Proof.
  induction sch as [|[d' r] rest IH]; intros w d; [split; reflexivity|].
  cbn [wrun]. destruct (step O (w d') r) as [y g'] eqn:Es.
  destruct (wrun O (upd w d' g') rest) as [ys w'] eqn:Ew.
  unfold on_device in *. cbn [fst snd filter map].
  specialize (IH (upd w d' g') d). rewrite Ew in IH. cbn [fst snd] in IH.
  destruct (Nat.eqb_spec d' d) as [->|Hne].
  - cbn [map run fst snd]. rewrite Es.
    unfold upd in IH. rewrite Nat.eqb_refl in IH.
    destruct (run O g' (map snd (filter (fun x => Nat.eqb (fst x) d) rest))) as [zs g2].
    cbn [fst snd] in *. destruct IH as [-> ->]. split; reflexivity.
  - unfold upd in IH. destruct (Nat.eqb_spec d d') as [E|_]; [congruence|]. exact IH.
Qed.

(* What a seeded device delivers is a function of its seed and of ITS request sequence only:
   two devices (in the same or in different runs, whatever else happens in between on other
   devices) that start from the state of the same seed and serve the same requests deliver the
   same replies, and end in the same generator state. *)
Lemma seeded_replay {G} (O : oracle G) (seed_state : N -> G) seed
      (w1 w2 : world G) sch1 sch2 d1 d2 :
  w1 d1 = seed_state seed -> w2 d2 = seed_state seed ->
  on_device d1 sch1 = on_device d2 sch2 ->
  on_device d1 (fst (wrun O w1 sch1)) = on_device d2 (fst (wrun O w2 sch2)) /\
  snd (wrun O w1 sch1) d1 = snd (wrun O w2 sch2) d2 /\
  on_device d1 (fst (wrun O w1 sch1)) = fst (run O (seed_state seed) (on_device d1 sch1)).
Proof.
  intros H1 H2 Hs.
  destruct (wrun_on_device O sch1 w1 d1) as [A1 B1].
  destruct (wrun_on_device O sch2 w2 d2) as [A2 B2].
  rewrite A1, A2, B1, B2, H1, H2, Hs. repeat split; reflexivity.
Qed.

(* the stream is consumed request by request *)
Lemma run_app {G} (O : oracle G) rs1 : forall g rs2,
  run O g (rs1 ++ rs2) =
  (fst (run O g rs1) ++ fst (run O (snd (run O g rs1)) rs2), snd (run O (snd (run O g rs1)) rs2)).
Proof.
  induction rs1 as [|r rest IH]; intros g rs2; cbn [app run fst snd].
  - destruct (run O g rs2); reflexivity.
  - destruct (step O g r) as [y g1]. rewrite IH.
    destruct (run O g1 rest) as [ys g2]. cbn [fst snd]. reflexivity.
Qed.

(* rejected requests are transparent: deleting them from the sequence changes no other reply *)
Lemma rejected_transparent {G} (O : oracle G) rs : forall g,
  filter (fun y => match y with Rejected => false | _ => true end) (fst (run O g rs)) =
  fst (run O g (filter (fun r => negb (request_rejected r)) rs)) /\
  snd (run O g rs) = snd (run O g (filter (fun r => negb (request_rejected r)) rs)).
Proof.
  induction rs as [|r rest IH]; intro g; [split; reflexivity|].
  cbn [run filter]. destruct (step_rejected O g r) as [[A1 A2] B].
  destruct (step O g r) as [y g1] eqn:Es. cbn [fst snd] in *.
  destruct (request_rejected r) eqn:Er; cbn [negb].
  - rewrite (A2 eq_refl) in *. rewrite (B eq_refl).
    specialize (IH g). destruct (run O g rest) as [ys g2]. cbn [fst snd filter] in *. exact IH.
  - cbn [run]. rewrite Es. specialize (IH g1).
    destruct (run O g1 rest) as [ys g2].
    destruct (run O g1 (filter (fun r => negb (request_rejected r)) rest)) as [zs g3].
    cbn [fst snd filter] in *. destruct y as [|l].
    + assert (false = true) by (apply A1; reflexivity). discriminate.
    + destruct IH as [-> ->]. split; reflexivity.
Qed.

(* ---------------------------------------------------------------------------------------- *)
(* dropout and gumbel *)
Section Composite.
Context {T : Type} (O : ops T) (C : conv T) {G : Type} (Og : oracle G).

Lemma dropout_disabled rate xs g : dropout O C Og rate false xs g = (Some xs, g).
Proof. reflexivity. Qed.

Lemma dropout_rate_one rate xs g :
  seqb O rate (sone O) = true ->
  dropout O C Og rate true xs g = (Some (map (fun x => smul O (szero O) x) xs), g).
Proof. intro H. unfold dropout. cbn [negb]. rewrite H. reflexivity. Qed.

Lemma dropout_spec (HO : oracle_ok Og)
      (mul_0_r : forall x, smul O x (szero O) = szero O)
      (mul_1_r : forall x, smul O x (sone O) = x) rate xs g :
  seqb O rate (sone O) = false ->
  let p := ssub O (sone O) rate in
  (* rejected exactly when the keep probability 1 - rate fails the bernoulli validation; no draw then *)
  (bernoulli_rejects (tofp C p) = true -> dropout O C Og rate true xs g = (None, g)) /\
  (bernoulli_rejects (tofp C p) = false ->
   exists ys g', dropout O C Og rate true xs g = (Some ys, g') /\
     g' = snd (o_bern Og (tofp C p) (N.of_nat (length xs)) g) /\
     Forall2 (fun x y => y = szero O \/ y = smul O (sdiv O (sone O) p) x) xs ys).
Proof.
  intros Hr p. unfold dropout. cbn [negb]. rewrite Hr. fold (keep_prob O rate). change (keep_prob O rate) with p.
  cbn [step]. split; intro Hv; rewrite Hv; [reflexivity|].
  pose proof (ok_bern_len Og HO (tofp C p) (N.of_nat (length xs)) g) as Hlen.
  destruct (o_bern Og (tofp C p) (N.of_nat (length xs)) g) as [bs g1]. cbn [fst snd] in *.
  eexists. exists g1. split; [reflexivity|]. split; [reflexivity|].
  rewrite Nat2N.id in Hlen. clear Hv. revert bs Hlen.
  induction xs as [|x r IH]; intros [|b bs] Hlen; cbn [length] in Hlen; try discriminate; [constructor|].
  cbn [map combine fst snd]. constructor.
  - unfold dropout_elem. change (keep_prob O rate) with p. destruct b; cbn [of_bool].
    + right. unfold of01. change (feq fone fzero) with false. cbv iota. apply mul_1_r.
    + left. unfold of01. change (feq fzero fzero) with true. cbv iota. apply mul_0_r.
  - apply IH. congruence.
Qed.

(* the uniform request made by random::gumbel is always accepted and delivers values strictly
   between 0 and 1 (so that both logarithms are defined) *)
Lemma gumbel_uniform_range (HO : oracle_ok Og) mu beta n g :
  exists us g', step Og g (RUnif fzero (FOrd GUMBEL_UP_ORD) n) = (Values us, g') /\
    length us = N.to_nat n /\
    Forall (fun u => exists z, u = FOrd z /\ (0 < z < ONE_ORD)%Z) us /\
    gumbel O C Og mu beta n g = (Some (map (fun u => gumbel_elem O mu beta (offp C u)) us), g').
Proof.
  destruct (step Og g (RUnif fzero (FOrd GUMBEL_UP_ORD) n)) as [[|us] g'] eqn:Es.
  - exfalso. cbn [step] in Es.
    assert (E : uniform_rejects fzero (FOrd GUMBEL_UP_ORD) = false) by (vm_compute; reflexivity).
    rewrite E in Es. destruct (o_unif Og fzero (FOrd GUMBEL_UP_ORD) n g). discriminate.
  - exists us, g'. split; [reflexivity|].
    destruct (uniform_fixup_range Og HO g 0 GUMBEL_UP_ORD n us g' Es) as [_ [Hl [Hf _]]].
    split; [exact Hl|]. split.
    + eapply Forall_impl; [|exact Hf]. cbv beta. intros u [z [-> [Hz _]]]. exists z. split; [reflexivity|].
      unfold GUMBEL_UP_ORD, ONE_ORD in *. lia.
    + unfold gumbel. rewrite Es. reflexivity.
Qed.
End Composite.

(* ---------------------------------------------------------------------------------------- *)
(* the real-number reading of the formulas *)
Local Open Scope R_scope.
Definition Rops : ops R :=
  @mkOps R 0 1 Rplus Rminus Rmult Rdiv Ropp sqrt exp ln tanh sin cos tan Rpower
         (fun x n => 1 - pow x (N.to_nat n))
         (fun a b => if Rlt_dec a b then true else false)
         (fun a b => if Req_EM_T a b then true else false)
         (fun n => IZR (Z.of_N n)).
Definition Rconv : conv R :=
  @mkConv R (fun _ => FNaN) (fun _ => 0)
          (fun scale c n => scale * sqrt (IZR (Z.of_N c) / IZR (Z.of_N n))).

(* random::gumbel is inverse-transform sampling: applying the Gumbel(mu, beta) distribution
   function  F(x) = exp(-exp(-(x - mu)/beta))  to the value computed from u gives u back, for
   every u strictly between 0 and 1. *)
Lemma gumbel_inverse_cdf mu beta u : 0 < u < 1 -> beta <> 0 ->
  gumbel_elem Rops mu beta u = mu - beta * ln (- ln u) /\
  exp (- exp (- ((gumbel_elem Rops mu beta u - mu) / beta))) = u.
Proof.
  intros [Hu0 Hu1] Hb. split; [reflexivity|].
  unfold gumbel_elem. cbn [ssub smul slog sneg Rops].
  assert (Ht : 0 < - ln u). { assert (H : ln u < ln 1) by (apply ln_increasing; lra). rewrite ln_1 in H. lra. }
  replace (- ((mu - beta * ln (- ln u) - mu) / beta)) with (ln (- ln u)) by (field; exact Hb).
  rewrite exp_ln by exact Ht. rewrite Ropp_involutive. apply exp_ln. exact Hu0.
Qed.

(* dropout over the reals: the laws asked of the scalar operations hold *)
Lemma dropout_elem_R rate x : rate <> 1 ->
  dropout_elem Rops rate x 1 = x / (1 - rate) /\ dropout_elem Rops rate x 0 = 0.
Proof.
  intro H. unfold dropout_elem, keep_prob. cbn [smul sdiv ssub sone Rops]. split; [field; lra|ring].
Qed.

(* ---------------------------------------------------------------------------------------- *)
(* initializers *)
Local Open Scope N_scope.

Ltac get_to_nth :=
  rewrite ?get_sget in *; unfold sget in *;
  change (N.to_nat 0) with 0%nat in *; change (N.to_nat 1) with 1%nat in *;
  change (N.to_nat 2) with 2%nat in *; change (N.to_nat 3) with 3%nat in *.

(* the four leading dimensions of a well-formed shape of depth <= 4 give its volume *)
Lemma get4_volume s : wf s -> depth s <= 4 ->
  volume s = get s 0 * get s 1 * get s 2 * get s 3 /\
  0 < get s 0 /\ 0 < get s 1 /\ 0 < get s 2 /\ 0 < get s 3 /\ volume s < P32.
Proof.
  intros W Hd. pose proof (wf_volume s W) as Hv. pose proof (wf_pos s W) as Hp.
  pose proof (wf_size s W) as Hs. pose proof (wf_batch s W) as Hb.
  assert (Hlt : volume s < P32). { rewrite Hv. unfold P32 in *. nia. }
  get_to_nth. unfold depth in *. rewrite Hv in *.
  destruct (dims s) as [|a [|b [|c [|d [|e r]]]]]; cbn [length] in Hd; try (exfalso; lia);
    repeat match goal with H : Forall _ (_ :: _) |- _ => inversion H; subst; clear H end;
    cbn [nth]; rewrite ?prodN_cons, ?prodN_nil in *; repeat split; try lia; try assumption.
Qed.

(* the Conv2D fan definition; for an admissible shape no product exceeds the volume and the
   sum stays below 2^33, so the double arithmetic of the code is exact *)
Lemma conv2d_fans s : wf s -> depth s <= 4 ->
  conv_fan_in s = get s 0 * get s 1 * get s 2 /\
  conv_fan_out s = get s 0 * get s 1 * get s 3 /\
  conv_fan_sum s = get s 0 * get s 1 * get s 2 + get s 0 * get s 1 * get s 3 /\
  get s 0 * get s 1 <= volume s /\ conv_fan_in s <= volume s /\ conv_fan_out s <= volume s /\
  0 < conv_fan_sum s < 2 * P32.
Proof.
  intros W Hd. destruct (get4_volume s W Hd) as [Hv [H0 [H1 [H2 [H3 Hlt]]]]].
  unfold conv_fan_sum, conv_fan_in, conv_fan_out.
  set (a := get s 0) in *. set (b := get s 1) in *. set (c := get s 2) in *. set (d := get s 3) in *.
  assert (Hmono : forall x y, 1 <= y -> x <= x * y).
  { intros x y Hy. rewrite <- (N.mul_1_r x) at 1. apply N.mul_le_mono_l. exact Hy. }
  assert (Hab : a * b <= volume s).
  { rewrite Hv. replace (a * b * c * d) with (a * b * (c * d)) by lia. apply Hmono. nia. }
  assert (Habc : a * b * c <= volume s) by (rewrite Hv; apply Hmono; lia).
  assert (Habd : a * b * d <= volume s).
  { rewrite Hv. replace (a * b * c * d) with (a * b * d * c) by lia. apply Hmono. lia. }
  assert (Hpos : 0 < a * b * c) by nia.
  repeat split; try reflexivity; try assumption; unfold P32 in *; lia.
Qed.

Lemma matrix_fans s : wf s -> is_matrix s = true ->
  fan_sum_2d s = get s 0 + get s 1 /\ 0 < fan_sum_2d s < 2 * P32.
Proof.
  intros W Hm. assert (Hd : depth s <= 4) by (unfold is_matrix in Hm; apply N.leb_le in Hm; lia).
  destruct (get4_volume s W Hd) as [Hv [H0 [H1 [H2 [H3 Hlt]]]]].
  unfold fan_sum_2d. split; [reflexivity|].
  assert (Hmono : forall x y, 1 <= y -> x <= x * y).
  { intros x y Hy. rewrite <- (N.mul_1_r x) at 1. apply N.mul_le_mono_l. exact Hy. }
  assert (get s 0 <= volume s).
  { rewrite Hv. replace (get s 0 * get s 1 * get s 2 * get s 3) with (get s 0 * (get s 1 * get s 2 * get s 3)) by lia.
    apply Hmono. nia. }
  assert (get s 1 <= volume s).
  { rewrite Hv. replace (get s 0 * get s 1 * get s 2 * get s 3) with (get s 1 * (get s 0 * get s 2 * get s 3)) by lia.
    apply Hmono. nia. }
  unfold P32 in *. lia.
Qed.

(* REFUTED form (the code before commit 50d7193 formed the sums in uint32): for admissible
   shapes the uint32 sum differs from the true sum -- fan_in + fan_out = 2^32 wraps to 0. *)
Lemma uint32_fan_sum_refuted :
  (exists s, mk_shape [65536; 32768] 1 = Some s /\ wf s /\ depth s <= 4 /\
             uint32_conv_fan_sum s = 0 /\ conv_fan_sum s = 4294967296) /\
  (exists s, mk_shape [4294967295; 1] 1 = Some s /\ wf s /\ is_matrix s = true /\
             uint32_fan_sum_2d s = 0 /\ fan_sum_2d s = 4294967296).
Proof.
  split.
  - destruct (mk_shape [65536; 32768] 1) as [s|] eqn:E; [|vm_compute in E; discriminate].
    exists s. split; [reflexivity|].
    destruct (mk_shape_some [65536; 32768] 1 s) as [_ [Es W]];
      [repeat constructor; reflexivity|reflexivity|exact E|].
    split; [exact W|]. subst s. vm_compute. repeat split; try reflexivity. discriminate.
  - destruct (mk_shape [4294967295; 1] 1) as [s|] eqn:E; [|vm_compute in E; discriminate].
    exists s. split; [reflexivity|].
    destruct (mk_shape_some [4294967295; 1] 1 s) as [_ [Es W]];
      [repeat constructor; reflexivity|reflexivity|exact E|].
    split; [exact W|]. subst s. vm_compute. repeat split; reflexivity.
Qed.

Section Init.
Context {T : Type} (O : ops T) (C : conv T).
(* the double computation narrowed once, read in exact arithmetic *)
Hypothesis ratio_exact : forall scale c n,
  scaled_sqrt_ratio C scale c n = smul O scale (ssqrt O (sdiv O (sof_N O c) (sof_N O n))).

Definition xavier_param (scale : T) (c fan_in fan_out : N) : T :=
  smul O scale (ssqrt O (sdiv O (sof_N O c) (sof_N O (fan_in + fan_out)))).

(* Constant, Uniform, Normal: exactly the named request, for every shape, never an error *)
Lemma plain_initializers s k lo up m sd :
  apply_init O C (IConstant k) s = Some (QReset k) /\
  apply_init O C (IUniform lo up) s = Some (QUniform s lo up) /\
  apply_init O C (INormal m sd) s = Some (QNormal s m sd).
Proof. repeat split. Qed.

Lemma identity_requires_square s :
  (forall q, apply_init O C IIdentity s = Some q ->
             is_matrix s = true /\ get s 0 = get s 1 /\ q = QIdentity (get s 0)) /\
  (apply_init O C IIdentity s = None <-> (is_matrix s = false \/ get s 0 <> get s 1)).
Proof.
  cbn [apply_init]. destruct (is_matrix s); cbn [negb orb].
  - destruct (N.eqb_spec (get s 0) (get s 1)) as [E|E]; cbn [negb]; split.
    + intros q H. inversion H. repeat split. exact E.
    + split; [discriminate|]. intros [H|H]; [discriminate|contradiction].
    + intros q H. discriminate.
    + split; [intros _; right; exact E|reflexivity].
  - split; [intros q H; discriminate|]. split; [intros _; left; reflexivity|reflexivity].
Qed.

(* and on a well-formed square matrix shape the device accepts the identity request *)
Lemma identity_accepted s : wf s -> is_matrix s = true -> get s 0 = get s 1 ->
  devreq_rejected C (QIdentity (get s 0)) = false.
Proof.
  intros W Hm Hsq. cbn [devreq_rejected].
  unfold is_matrix in Hm. apply N.leb_le in Hm.
  pose proof (wf_pos s W) as Hp. pose proof (wf_size s W) as Hs. pose proof (wf_batch s W) as Hb.
  pose proof (wf_canon s W) as Hc.
  assert (Hn : 0 < get s 0 /\ get s 0 * get s 0 < P32).
  { get_to_nth. unfold depth in *.
    destruct (dims s) as [|a [|b [|c r]]]; cbn [length] in Hm; try (exfalso; lia);
      repeat match goal with H : Forall _ (_ :: _) |- _ => inversion H; subst; clear H end;
      cbn [nth] in *; rewrite ?prodN_cons, ?prodN_nil in Hs; unfold P32 in *; nia. }
  destruct Hn as [Hn0 Hn1]. set (n := get s 0) in *.
  destruct (N.eqb_spec n 0) as [E|_]; [lia|]. cbn [orb].
  destruct (mk_shape [n; n] 1) eqn:E; [reflexivity|]. exfalso.
  apply (mk_shape_none [n; n] 1); [| |exact E|].
  - repeat constructor; unfold u32, P32 in *; nia.
  - reflexivity.
  - unfold ctor_admissible. cbn [length]. rewrite !prodN_cons, prodN_nil.
    repeat split; try lia. repeat constructor; lia.
Qed.

Lemma xavier_uniform_formula scale s :
  (is_matrix s = false -> apply_init O C (IXavierUniform scale) s = None) /\
  (is_matrix s = true ->
   let bound := xavier_param scale 6 (get s 0) (get s 1) in
   apply_init O C (IXavierUniform scale) s = Some (QUniform s (sneg O bound) bound)).
Proof.
  cbn [apply_init]. split; intro Hm; rewrite Hm; cbn [negb]; [reflexivity|].
  rewrite ratio_exact. reflexivity.
Qed.

Lemma xavier_normal_formula scale s :
  (is_matrix s = false -> apply_init O C (IXavierNormal scale) s = None) /\
  (is_matrix s = true ->
   apply_init O C (IXavierNormal scale) s =
   Some (QNormal s (szero O) (xavier_param scale 2 (get s 0) (get s 1)))).
Proof.
  cbn [apply_init]. split; intro Hm; rewrite Hm; cbn [negb]; [reflexivity|].
  rewrite ratio_exact. reflexivity.
Qed.

Lemma xavier_conv2d_formula scale s :
  let fan_in := get s 0 * get s 1 * get s 2 in
  let fan_out := get s 0 * get s 1 * get s 3 in
  (4 < depth s -> apply_init O C (IXavierUniformConv2D scale) s = None /\
                  apply_init O C (IXavierNormalConv2D scale) s = None) /\
  (depth s <= 4 ->
   let bound := xavier_param scale 6 fan_in fan_out in
   apply_init O C (IXavierUniformConv2D scale) s = Some (QUniform s (sneg O bound) bound) /\
   apply_init O C (IXavierNormalConv2D scale) s =
   Some (QNormal s (szero O) (xavier_param scale 2 fan_in fan_out))).
Proof.
  intros fan_in fan_out. cbn [apply_init]. split.
  - intro Hd. apply N.ltb_lt in Hd. rewrite Hd. split; reflexivity.
  - intros Hd. destruct (N.ltb_spec 4 (depth s)) as [H|_]; [lia|].
    rewrite !ratio_exact. split; reflexivity.
Qed.
End Init.

(* the reading over the reals: bound = scale * sqrt(6 / (fan_in + fan_out)) *)
Lemma xavier_param_R scale c fi fo :
  xavier_param Rops scale c fi fo =
  (scale * sqrt (IZR (Z.of_N c) / (IZR (Z.of_N fi) + IZR (Z.of_N fo))))%R.
Proof. unfold xavier_param. cbn [smul ssqrt sdiv sof_N Rops]. rewrite N2Z.inj_add, plus_IZR. reflexivity. Qed.
Lemma Rconv_ratio_exact scale c n :
  scaled_sqrt_ratio Rconv scale c n = smul Rops scale (ssqrt Rops (sdiv Rops (sof_N Rops c) (sof_N Rops n))).
Proof. reflexivity. Qed.

(* ---------------------------------------------------------------------------------------- *)
(* A concrete oracle and conversions, used only by the non-vacuity examples: the generator
   state is a counter of draws; uniform draws walk from lower to upper (so the first one
   equals lower and exercises the fix-up); bernoulli draws alternate. *)
Local Open Scope Z_scope.
Definition ex_draws (a b : fp) (n : N) : list fp :=
  match a, b with
  | FOrd lo, FOrd up => map (fun i => FOrd (Z.min up (lo + Z.of_nat i))) (seq 0 (N.to_nat n))
  | _, _ => repeat FNaN (N.to_nat n)
  end.
Definition ex_oracle : oracle N :=
  mkOracle N
    (fun _ n g => (map Nat.even (seq 0 (N.to_nat n)), (g + n)%N))
    (fun a b n g => (ex_draws a b n, (g + n)%N))
    (fun m _ n g => (repeat m (N.to_nat n), (g + n)%N))
    (fun m _ n g => (repeat m (N.to_nat n), (g + n)%N)).

Lemma ex_oracle_ok : oracle_ok ex_oracle.
Proof.
  constructor; cbn [ex_oracle o_bern o_unif o_norm o_lognorm fst]; intros.
  - rewrite map_length, seq_length. reflexivity.
  - unfold ex_draws. destruct a, b; rewrite ?repeat_length, ?map_length, ?seq_length; reflexivity.
  - apply repeat_length.
  - apply repeat_length.
  - intros lo up n g x Hle Hin. cbn [ex_oracle o_unif fst ex_draws] in Hin.
    apply in_map_iff in Hin. destruct Hin as [i [<- _]].
    exists (Z.min up (lo + Z.of_nat i)). split; [reflexivity|lia].
Qed.

(* a conversion for the examples: every real is seen as the float 0.5 by the validation *)
Definition Rconv_half : conv R :=
  @mkConv R (fun _ => FOrd 1056964608) (fun _ => (1 / 2)%R)
          (fun scale c n => (scale * sqrt (IZR (Z.of_N c) / IZR (Z.of_N n)))%R).
