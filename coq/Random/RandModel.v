(* Executable model of the random sources and initializers of primitiv (property C17):
     primitiv/core/random.h            DefaultRandomizer::fill_{bernoulli,uniform,normal,log_normal}
     primitiv/core/device.cc           Device::random_{bernoulli,uniform,normal,log_normal}
     primitiv/devices/{naive,eigen}/ops/random_X.cc   (both forward to randomizer_.fill_X)
     primitiv/core/{tensor,node}_funcs.cc             random::gumbel (composite)
     primitiv/contrib/functions.h      dropout (composite)
     primitiv/core/initializer_impl.cc the eight initializers
   No proofs in this file: the model must keep running when a proof breaks.

   What the model cannot exhibit is std::mt19937 and the libstdc++ distribution algorithms.  They
   enter as an ORACLE: the result of constructing one distribution object for a request and
   calling it n times on the device's generator (a list of raw draws and the new generator
   state).  The contracts assumed of the oracle are written in [oracle_ok] below and are
   premises of the theorems, never global assumptions. *)
From Coq Require Import List ZArith NArith Bool.
From PV Require Import Base.U32 Base.Scalar Shape.ShapeImpl.
Import ListNotations.

(* ------------------------------------------------------------------------------------------
   1. binary32 for the purposes of COMPARISON and nextafter.

   Non-NaN binary32 values (including the two infinities) are order-isomorphic to the integers
   -INF_ORD .. INF_ORD through the sign-magnitude reading of the bit pattern:
       ord(x) = (bits & 0x7fffffff)  if the sign bit is clear,  -(bits & 0x7fffffff)  otherwise,
   +0 and -0 both have ordinal 0 (they compare equal), +-inf have ordinal +-INF_ORD, and
   nextafter moves the ordinal by one.  Every comparison with a NaN operand is false
   ([fcmp] = None, like Flocq's Bcompare).  The signs of zeros are not represented. *)
Inductive fp := FNaN | FOrd (z : Z).

Definition INF_ORD : Z := 2139095040.        (* 0x7f800000 *)
Definition ONE_ORD : Z := 1065353216.        (* 0x3f800000 = 1.0f *)
Definition GUMBEL_UP_ORD : Z := 1065353214.  (* 0x3f7ffffe = (float).9999999 = 1 - 2^-23 *)
Definition P31 : N := 2147483648.

Definition of_bits (b : N) : fp :=
  let m := Z.of_N (b mod P31) in
  if (INF_ORD <? m)%Z then FNaN
  else FOrd (if N.eqb ((b / P31) mod 2) 1 then (- m)%Z else m).

Definition fzero : fp := FOrd 0.
Definition fone : fp := FOrd ONE_ORD.

Definition fcmp (x y : fp) : option comparison :=
  match x, y with
  | FOrd a, FOrd b => Some (Z.compare a b)
  | _, _ => None
  end.
Definition flt (x y : fp) : bool := match fcmp x y with Some Lt => true | _ => false end.
Definition fle (x y : fp) : bool := match fcmp x y with Some Lt | Some Eq => true | _ => false end.
Definition fgt (x y : fp) : bool := match fcmp x y with Some Gt => true | _ => false end.
Definition feq (x y : fp) : bool := match fcmp x y with Some Eq => true | _ => false end.

(* std::nextafter(x, y): NaN if either is NaN; y if x == y; else one step from x towards y *)
Definition nextafter (x y : fp) : fp :=
  match x, y with
  | FOrd a, FOrd b => if (a <? b)%Z then FOrd (a + 1) else if (b <? a)%Z then FOrd (a - 1) else FOrd b
  | _, _ => FNaN
  end.

Definition fge (x y : fp) : bool := fle y x.

(* The exact value of a finite ordinal, as an integer multiple of 2^-149 (the smallest denormal):
   for magnitude m = e * 2^23 + f the value is f * 2^-149 if e = 0 and (2^23 + f) * 2^(e-150)
   otherwise.  Used only to decide whether the binary32 difference upper - lower is finite. *)
Definition P23 : Z := 8388608.
Definition val149 (z : Z) : Z :=
  let m := Z.abs z in
  let e := (m / P23)%Z in
  let f := (m mod P23)%Z in
  let v := if (e =? 0)%Z then f else ((P23 + f) * 2 ^ (e - 1))%Z in
  if (z <? 0)%Z then (- v)%Z else v.
(* round-to-nearest-even sends an exact value to +-inf iff its magnitude is at least
   FLT_MAX + ulp/2 = 2^128 - 2^103, i.e. (2^128 - 2^103) * 2^149 in units of 2^-149 *)
Definition OVERFLOW149 : Z := (2 ^ 277 - 2 ^ 252)%Z.
(* std::isfinite(upper - lower) for the float subtraction *)
Definition span_finite (lower upper : fp) : bool :=
  match lower, upper with
  | FOrd a, FOrd b =>
      (Z.abs a <? INF_ORD)%Z && (Z.abs b <? INF_ORD)%Z &&
      (Z.abs (val149 b - val149 a) <? OVERFLOW149)%Z
  | _, _ => false
  end.

(* ------------------------------------------------------------------------------------------
   2. Device::random_X : parameter validation exactly as written in device.cc            *)
(* if (!(p >= 0 && p <= 1)) throw *)
Definition bernoulli_rejects (p : fp) : bool := negb (fge p fzero && fle p fone).
(* if (!(lower <= upper) || !std::isfinite(upper - lower)) throw *)
Definition uniform_rejects (lower upper : fp) : bool :=
  negb (fle lower upper) || negb (span_finite lower upper).
(* if (!(sd > 0)) throw      (random_normal and random_log_normal; the mean is not examined) *)
Definition normal_rejects (sd : fp) : bool := negb (fgt sd fzero).

(* ------------------------------------------------------------------------------------------
   3. DefaultRandomizer::fill_X                                                           *)
(* data[i] = dist(rng_)   with dist returning bool *)
Definition of_bool (b : bool) : fp := if b then fone else fzero.
(* const float lower_eps = std::nextafter(lower, upper);  data[i] = x < lower_eps ? upper : x; *)
Definition fixup (lower upper x : fp) : fp := if flt x (nextafter lower upper) then upper else x.

(* The oracle: one distribution object per request, called n times on the generator state. *)
Record oracle (G : Type) := mkOracle {
  o_bern : fp -> N -> G -> list bool * G;         (* std::bernoulli_distribution(p) *)
  o_unif : fp -> fp -> N -> G -> list fp * G;     (* std::uniform_real_distribution<float>(lower, upper) *)
  o_norm : fp -> fp -> N -> G -> list fp * G;     (* std::normal_distribution<float>(mean, sd) *)
  o_lognorm : fp -> fp -> N -> G -> list fp * G   (* std::lognormal_distribution<float>(mean, sd) *)
}.
Arguments o_bern {G}. Arguments o_unif {G}. Arguments o_norm {G}. Arguments o_lognorm {G}.

Inductive request :=
| RBern (p : fp) (n : N)
| RUnif (lower upper : fp) (n : N)
| RNorm (mean sd : fp) (n : N)
| RLogNorm (mean sd : fp) (n : N).

Inductive reply := Rejected | Values (l : list fp).

(* One front-end call: validate (no draw on rejection), allocate, fill. *)
Definition step {G} (O : oracle G) (g : G) (r : request) : reply * G :=
  match r with
  | RBern p n =>
      if bernoulli_rejects p then (Rejected, g)
      else let (bs, g') := o_bern O p n g in (Values (map of_bool bs), g')
  | RUnif lo up n =>
      if uniform_rejects lo up then (Rejected, g)
      else let (xs, g') := o_unif O lo up n g in (Values (map (fixup lo up) xs), g')
  | RNorm m sd n =>
      if normal_rejects sd then (Rejected, g)
      else let (xs, g') := o_norm O m sd n g in (Values xs, g')
  | RLogNorm m sd n =>
      if normal_rejects sd then (Rejected, g)
      else let (xs, g') := o_lognorm O m sd n g in (Values xs, g')
  end.

Fixpoint run {G} (O : oracle G) (g : G) (rs : list request) : list reply * G :=
  match rs with
  | [] => ([], g)
  | r :: rest => let (y, g1) := step O g r in
                 let (ys, g2) := run O g1 rest in (y :: ys, g2)
  end.

(* Several devices, each with its own generator (randomizer_ is a member of the device object):
   a schedule interleaves requests to the devices. *)
Definition world (G : Type) := nat -> G.
Definition upd {G} (w : world G) (d : nat) (g : G) : world G :=
  fun d' => if Nat.eqb d' d then g else w d'.
Fixpoint wrun {G} (O : oracle G) (w : world G) (sch : list (nat * request))
  : list (nat * reply) * world G :=
  match sch with
  | [] => ([], w)
  | (d, r) :: rest => let (y, g') := step O (w d) r in
                      let (ys, w') := wrun O (upd w d g') rest in ((d, y) :: ys, w')
  end.
Definition on_device {A} (d : nat) (l : list (nat * A)) : list A :=
  map snd (filter (fun x => Nat.eqb (fst x) d) l).

(* ------------------------------------------------------------------------------------------
   4. Element formulas, generic in the scalar operations (Base/Scalar.v).                    *)
Record conv (T : Type) := mkConv {
  tofp : T -> fp;      (* the binary32 value as seen by a comparison *)
  offp : fp -> T;
  (* scale * std::sqrt(c / n) evaluated the way initializer_impl.cc does: c and n are doubles
     (n an exactly represented integer below 2^33), the quotient, the square root and the
     product with the (promoted) float scale are double operations, the result is narrowed
     to float once *)
  scaled_sqrt_ratio : T -> N -> N -> T
}.
Arguments tofp {T}. Arguments offp {T}. Arguments scaled_sqrt_ratio {T}.

Section Formulas.
Context {T : Type} (O : ops T) (C : conv T).

(* random::gumbel:  mu - beta * log(-log(uniform(shape, 0., .9999999))) *)
Definition gumbel_elem (mu beta u : T) : T :=
  ssub O mu (smul O beta (slog O (sneg O (slog O u)))).

(* dropout, enabled, rate != 1:  const float p = 1. - rate;  (1. / p) * x * bernoulli(shape, p) *)
Definition keep_prob (rate : T) : T := ssub O (sone O) rate.
Definition dropout_elem (rate x w : T) : T :=
  smul O (smul O (sdiv O (sone O) (keep_prob rate)) x) w.
Definition of01 (w : fp) : T := if feq w fzero then szero O else sone O.

Context {G : Type} (Og : oracle G).

Definition gumbel (mu beta : T) (n : N) (g : G) : option (list T) * G :=
  match step Og g (RUnif fzero (FOrd GUMBEL_UP_ORD) n) with
  | (Values us, g') => (Some (map (fun u => gumbel_elem mu beta (offp C u)) us), g')
  | (Rejected, g') => (None, g')
  end.

(* if (!enabled) return x;  if (rate == 1.) return 0. * x;  ... *)
Definition dropout (rate : T) (enabled : bool) (xs : list T) (g : G) : option (list T) * G :=
  if negb enabled then (Some xs, g)
  else if seqb O rate (sone O) then (Some (map (fun x => smul O (szero O) x) xs), g)
  else match step Og g (RBern (tofp C (keep_prob rate)) (N.of_nat (length xs))) with
       | (Values ws, g') =>
           (Some (map (fun xw => dropout_elem rate (fst xw) (of01 (snd xw))) (combine xs ws)), g')
       | (Rejected, g') => (None, g')
       end.

(* ------------------------------------------------------------------------------------------
   5. Initializers (initializer_impl.cc).  [apply_init i s] is what Initializer::apply asks of
      the device of a (valid) tensor x of shape s; None = PRIMITIV_THROW_ERROR.            *)
Inductive init :=
| IConstant (k : T)
| IUniform (lower upper : T)
| INormal (mean sd : T)
| IIdentity
| IXavierUniform (scale : T)
| IXavierNormal (scale : T)
| IXavierUniformConv2D (scale : T)
| IXavierNormalConv2D (scale : T).

Inductive devreq :=
| QReset (k : T)                          (* x.reset(k): shape and device unchanged, every element k *)
| QUniform (s : shape) (lower upper : T)  (* x = device.random_uniform(s, lower, upper) *)
| QNormal (s : shape) (mean sd : T)       (* x = device.random_normal(s, mean, sd) *)
| QIdentity (n : N).                      (* x = device.identity(n): shape {n,n}, batch 1 *)

(* the fan computations are carried out in double: static_cast<double>(s[0]) + s[1] and
   static_cast<double>(s[0]) * s[1] * s[2] etc.  For an admissible shape every product is at
   most the volume < 2^32 and every sum below 2^33, hence exact in double (C17_conv2d_fans);
   the model therefore uses unbounded N.  [uint32_fan_sum_*] are the sums as the code formed
   them before commit 50d7193 (kept to show that the no-wrap theorems are not vacuous). *)
Definition fan_sum_2d (s : shape) : N := get s 0 + get s 1.
Definition conv_fan_in (s : shape) : N := get s 0 * get s 1 * get s 2.
Definition conv_fan_out (s : shape) : N := get s 0 * get s 1 * get s 3.
Definition conv_fan_sum (s : shape) : N := conv_fan_in s + conv_fan_out s.
Definition uint32_fan_sum_2d (s : shape) : N := wrap32 (get s 0 + get s 1).
Definition uint32_conv_fan_sum (s : shape) : N :=
  wrap32 (wrap32 (wrap32 (get s 0 * get s 1) * get s 2) + wrap32 (wrap32 (get s 0 * get s 1) * get s 3)).

Definition apply_init (i : init) (s : shape) : option devreq :=
  match i with
  | IConstant k => Some (QReset k)
  | IUniform lo up => Some (QUniform s lo up)
  | INormal m sd => Some (QNormal s m sd)
  | IIdentity =>
      if negb (is_matrix s) || negb (get s 0 =? get s 1)%N then None
      else Some (QIdentity (get s 0))
  | IXavierUniform scale =>
      if negb (is_matrix s) then None
      else let bound := scaled_sqrt_ratio C scale 6 (fan_sum_2d s) in
           Some (QUniform s (sneg O bound) bound)
  | IXavierNormal scale =>
      if negb (is_matrix s) then None
      else Some (QNormal s (szero O) (scaled_sqrt_ratio C scale 2 (fan_sum_2d s)))
  | IXavierUniformConv2D scale =>
      if (4 <? depth s)%N then None
      else let bound := scaled_sqrt_ratio C scale 6 (conv_fan_sum s) in
           Some (QUniform s (sneg O bound) bound)
  | IXavierNormalConv2D scale =>
      if (4 <? depth s)%N then None
      else Some (QNormal s (szero O) (scaled_sqrt_ratio C scale 2 (conv_fan_sum s)))
  end.

(* the request the device front end receives, with its validation *)
Definition devreq_request (q : devreq) : option request :=
  match q with
  | QUniform s lo up => Some (RUnif (tofp C lo) (tofp C up) (size s))
  | QNormal s m sd => Some (RNorm (tofp C m) (tofp C sd) (size s))
  | _ => None
  end.
Definition request_rejected (r : request) : bool :=
  match r with
  | RBern p _ => bernoulli_rejects p
  | RUnif lo up _ => uniform_rejects lo up
  | RNorm _ sd _ | RLogNorm _ sd _ => normal_rejects sd
  end.
(* Device::identity: if (size == 0) throw; new_raw_tensor({size, size}) (Shape constructor may throw) *)
Definition devreq_rejected (q : devreq) : bool :=
  match q with
  | QReset _ => false
  | QIdentity n => (n =? 0)%N || match mk_shape [n; n] 1 with Some _ => false | None => true end
  | _ => match devreq_request q with Some r => request_rejected r | None => false end
  end.
End Formulas.
